import Tmv.Lemmas.SyncNode
/-! Net-level invariants of `Tmv.Sync` that hold for every schedule: decisions are final, the
message log only grows, the set of correct nodes is fixed. -/
namespace Tmv.Sync
open Tmv.Cons

/-- what the node at position `i` has decided -/
def Net.decidedAt (net : Net) (i : Nat) : Option (Nat × Int) := (net.nodes[i]?).bind (·.s.decided)

/-- `n'` is a later stage of `n`: every decision is kept, the log is extended, same nodes -/
def Later (n n' : Net) : Prop :=
  (∀ i d, n.decidedAt i = some d → n'.decidedAt i = some d) ∧
  (∃ ext, n'.log = n.log ++ ext) ∧ n'.nodes.length = n.nodes.length

theorem Later.refl (n : Net) : Later n n := ⟨fun _ _ h => h, ⟨[], by simp⟩, rfl⟩

theorem Later.trans {a b c : Net} (h₁ : Later a b) (h₂ : Later b c) : Later a c := by
  obtain ⟨d₁, ⟨e₁, l₁⟩, n₁⟩ := h₁
  obtain ⟨d₂, ⟨e₂, l₂⟩, n₂⟩ := h₂
  exact ⟨fun i d h => d₂ i d (d₁ i d h), ⟨e₁ ++ e₂, by rw [l₂, l₁, List.append_assoc]⟩, by rw [n₂, n₁]⟩

/-- same node states and log (only flags / clock / tickers differ) -/
theorem Later.of_same {n n' : Net} (hn : n'.nodes.map (·.s) = n.nodes.map (·.s)) (hl : n'.log = n.log) :
    Later n n' := by
  have hlen : n'.nodes.length = n.nodes.length := by
    have := congrArg List.length hn; simpa using this
  refine ⟨?_, ⟨[], by simp [hl]⟩, hlen⟩
  intro i d h
  unfold Net.decidedAt at h ⊢
  have hi : (n'.nodes.map (·.s))[i]? = (n.nodes.map (·.s))[i]? := by rw [hn]
  simp only [List.getElem?_map] at hi
  cases h1 : n.nodes[i]? with
  | none => rw [h1] at h; simp at h
  | some nd =>
    rw [h1] at h hi
    cases h2 : n'.nodes[i]? with
    | none => rw [h2] at hi; simp at hi
    | some nd' =>
      rw [h2] at hi
      simp only [Option.map_some, Option.some.injEq] at hi
      simp only [Option.bind_some] at h ⊢
      rw [hi]; exact h

def Pres (f : Net → Net) : Prop := ∀ n, Later n (f n)

theorem Pres.foldl {α} (l : List α) (f : Net → α → Net) (h : ∀ a, Pres (fun n => f n a)) :
    Pres (fun n => l.foldl f n) := by
  induction l with
  | nil => intro n; exact Later.refl n
  | cons a l ih => intro n; simp only [List.foldl]; exact (h a n).trans (ih (f n a))

theorem logAdd_ext (l : List Msg) (m : Msg) : ∃ ext, logAdd l m = l ++ ext := by
  unfold logAdd; split
  · exact ⟨[], by simp⟩
  · exact ⟨[m], rfl⟩

theorem harvestOne_ext (tmo : Timeouts) (now idx : Nat) (acc : List Msg × Ticker) (o : Output) :
    ∃ ext, (harvestOne tmo now idx acc o).1 = acc.1 ++ ext := by
  unfold harvestOne
  split
  · obtain ⟨e₁, h₁⟩ := logAdd_ext acc.1 (.proposal ⟨_, _, _, idx⟩)
    obtain ⟨e₂, h₂⟩ := logAdd_ext (logAdd acc.1 (.proposal ⟨_, _, _, idx⟩)) (.block _)
    exact ⟨e₁ ++ e₂, by simp only; rw [h₂, h₁, List.append_assoc]⟩
  · exact logAdd_ext _ _
  · exact ⟨[], by simp⟩
  · exact ⟨[], by simp⟩

theorem harvest_fold_ext (tmo : Timeouts) (now idx : Nat) (os : List Output) (acc : List Msg × Ticker) :
    ∃ ext, (os.foldl (harvestOne tmo now idx) acc).1 = acc.1 ++ ext := by
  induction os generalizing acc with
  | nil => exact ⟨[], by simp⟩
  | cons o os ih =>
    obtain ⟨e₁, h₁⟩ := harvestOne_ext tmo now idx acc o
    obtain ⟨e₂, h₂⟩ := ih (harvestOne tmo now idx acc o)
    exact ⟨e₁ ++ e₂, by simp only [List.foldl]; rw [h₂, h₁, List.append_assoc]⟩

theorem decidedAt_set (nodes : List Node) (net : Net) (i : Nat) (nd nd' : Node)
    (hi : net.nodes[i]? = some nd) (hd : ∀ d, nd.s.decided = some d → nd'.s.decided = some d)
    (j : Nat) (d : Nat × Int) (h : net.decidedAt j = some d) (hn : nodes = net.nodes.set i nd') :
    (nodes[j]?).bind (·.s.decided) = some d := by
  subst hn
  unfold Net.decidedAt at h
  by_cases hij : i = j
  · subst hij
    rw [hi] at h
    simp only [Option.bind_some] at h
    have hlt : i < net.nodes.length := by
      rcases Nat.lt_or_ge i net.nodes.length with h | h
      · exact h
      · rw [List.getElem?_eq_none h] at hi; cases hi
    simp [List.getElem?_set_self hlt, hd d h]
  · rw [List.getElem?_set_ne hij]; exact h

/-- **one input at one node**: decisions are kept (a decided node ignores the input, the others
are not touched), the log is extended by what the node sent -/
theorem input_pres (c : SCfg) (i : Nat) (inp : Input) : Pres (fun n => n.input c i inp) := by
  intro n
  show Later n (n.input c i inp)
  unfold Net.input
  cases hi : n.nodes[i]? with
  | none => exact Later.refl n
  | some nd =>
    dsimp only
    refine ⟨?_, ?_, ?_⟩
    · intro j d h
      unfold Net.decidedAt
      refine decidedAt_set _ n i nd _ hi ?_ j d h rfl
      intro d hd
      unfold harvest
      simp only
      rw [step_decided _ _ _ (by simp [hd])]; exact hd
    · unfold harvest
      exact harvest_fold_ext _ _ _ _ _
    · simp [setNode]

/-- the state of the node that handles an input is what `Cons.step` yields -/
theorem input_decidedAt (c : SCfg) (net : Net) (i : Nat) (inp : Input) (nd : Node)
    (hi : net.nodes[i]? = some nd) :
    (net.input c i inp).decidedAt i = (step (nodeCfg c.cfg nd.idx) nd.s inp).decided := by
  have hlt : i < net.nodes.length := by
    rcases Nat.lt_or_ge i net.nodes.length with h | h
    · exact h
    · rw [List.getElem?_eq_none h] at hi; cases hi
  unfold Net.input Net.decidedAt
  rw [hi]
  dsimp only
  simp [setNode, List.getElem?_set_self hlt, harvest]

/-- the block reaching a node: `deliver` of a logged block message is the `blockComplete` input -/
theorem deliver_block_decidedAt (c : SCfg) (net : Net) (i k b : Nat) (nd : Node)
    (hi : net.nodes[i]? = some nd) (hk : net.log[k]? = some (.block b)) :
    (net.deliver c i k).decidedAt i = (step (nodeCfg c.cfg nd.idx) nd.s (.blockComplete b)).decided := by
  unfold Net.deliver
  rw [hi, hk]
  simp only [Msg.own, Msg.signer, Msg.toInput]
  simpa using input_decidedAt c net i (.blockComplete b) nd hi

theorem deliver_pres (c : SCfg) (i k : Nat) : Pres (fun n => n.deliver c i k) := by
  intro n
  show Later n (n.deliver c i k)
  unfold Net.deliver
  split
  · split
    · exact Later.refl n
    · exact input_pres c i _ n
  · exact Later.refl n

theorem claim_pres (c : SCfg) (i j : Nat) : Pres (fun n => n.claim c i j) := by
  intro n
  show Later n (n.claim c i j)
  unfold Net.claim
  split
  · exact Later.refl n
  · split
    · exact Later.refl n
    · rename_i p _ _
      exact Pres.foldl (claimsOf p.s)
        (fun net (x : Nat × VType × Bid) => net.input c i (.peerMaj23 x.1 x.2.1 (1 + p.idx) x.2.2))
        (fun x => input_pres c i _) n

theorem passNode_pres (c : SCfg) (i : Nat) : Pres (fun n => n.passNode c i) := by
  intro n
  show Later n (n.passNode c i)
  unfold Net.passNode
  have h1 := Pres.foldl (List.range n.nodes.length) (fun net j => net.claim c i j) (fun j => claim_pres c i j) n
  refine h1.trans ?_
  exact Pres.foldl _ (fun net k => net.deliver c i k) (fun k => deliver_pres c i k) _

theorem pass_pres (c : SCfg) : Pres (fun n => n.pass c) := by
  intro n
  show Later n (n.pass c)
  unfold Net.pass
  exact Pres.foldl _ (fun net i => net.passNode c i) (fun i => passNode_pres c i) n

theorem closureLoop_pres (c : SCfg) (fuel : Nat) : Pres (closureLoop c fuel) := by
  induction fuel with
  | zero => intro n; exact Later.refl n
  | succ f ih =>
    intro n
    unfold closureLoop
    simp only
    split
    · exact pass_pres c n
    · exact (pass_pres c n).trans (ih _)

theorem closure_pres (c : SCfg) : Pres (fun n => n.closure c) := by
  intro n
  show Later n (n.closure c)
  unfold Net.closure
  exact (closureLoop_pres c closureFuel n).trans (Later.of_same rfl rfl)

theorem fire_pres (c : SCfg) (i : Nat) : Pres (fun n => n.fire c i) := by
  intro n
  show Later n (n.fire c i)
  unfold Net.fire
  cases hi : n.nodes[i]? with
  | none => exact Later.refl n
  | some nd =>
    dsimp only
    cases hp : nd.tick.pending with
    | none => exact Later.refl n
    | some x =>
      obtain ⟨r, st, e⟩ := x
      dsimp only
      refine Later.trans ?_ (input_pres c i _ _)
      refine ⟨?_, ⟨[], by simp⟩, by simp [setNode]⟩
      intro j d h
      unfold Net.decidedAt
      exact decidedAt_set _ n i nd
        { idx := nd.idx, s := nd.s, shown := nd.shown, tick := { last := nd.tick.last, pending := none } }
        hi (fun d hd => hd) j d h rfl

theorem byz_pres (m : Msg) : Pres (fun n => (n.byz m).getD n) := by
  intro n
  show Later n ((n.byz m).getD n)
  have key : Later n { n with log := logAdd n.log m, closed := false } := by
    refine ⟨fun _ _ h => h, ?_, rfl⟩
    simpa using logAdd_ext n.log m
  unfold Net.byz
  dsimp only
  split
  · split
    · exact key
    · exact Later.refl n
  · split
    · exact key
    · exact Later.refl n

/-- **every scheduler / adversary move** keeps decisions, extends the log, keeps the node set -/
theorem op_pres (c : SCfg) (op : Op) : Pres (fun n => n.op c op) := by
  intro n
  show Later n (n.op c op)
  cases op with
  | dl i k => exact (deliver_pres c i k n).trans (Later.of_same rfl rfl)
  | byz m => exact byz_pres m n
  | claim i j => exact (claim_pres c i j n).trans (Later.of_same rfl rfl)
  | byzclaim i r t peer b =>
    show Later n (if n.faultyPeer c peer then n.input c i (.peerMaj23 r t peer b) else n)
    split
    · exact input_pres c i _ n
    · exact Later.refl n
  | fire i =>
    show Later n (if n.synced ∧ !n.closed then n else if n.fireAllowed c i then n.fire c i else n)
    split
    · exact Later.refl n
    · split
      · exact fire_pres c i n
      · exact Later.refl n
  | closure => exact closure_pres c n
  | sync => exact Later.of_same rfl rfl

theorem run_pres (c : SCfg) (ops : List Op) : Pres (fun n => n.run c ops) :=
  Pres.foldl ops (fun n op => n.op c op) (fun op => op_pres c op)

/-! ### per-node invariants lift to every schedule -/

/-- every node of the net satisfies `P` (which may depend on the node's validator index) -/
def AllNodes (P : Nat → NodeState → Prop) (net : Net) : Prop := ∀ nd ∈ net.nodes, P nd.idx nd.s

/-- `f` keeps `AllNodes P` -/
def Keeps (P : Nat → NodeState → Prop) (f : Net → Net) : Prop := ∀ n, AllNodes P n → AllNodes P (f n)

theorem Keeps.foldl {P : Nat → NodeState → Prop} {α} (l : List α) (f : Net → α → Net)
    (h : ∀ a, Keeps P (fun n => f n a)) : Keeps P (fun n => l.foldl f n) := by
  induction l with
  | nil => intro n hn; exact hn
  | cons a l ih => intro n hn; simp only [List.foldl]; exact ih (f n a) (h a n hn)

theorem allNodes_set {P : Nat → NodeState → Prop} {net : Net} (h : AllNodes P net) (i : Nat) (nd' : Node)
    (hp : P nd'.idx nd'.s) : ∀ nd ∈ net.nodes.set i nd', P nd.idx nd.s := by
  intro nd hm
  rcases List.mem_or_eq_of_mem_set hm with h1 | h1
  · exact h nd h1
  · subst h1; exact hp

section
variable {P : Nat → NodeState → Prop} (c : SCfg)
  (hstep : ∀ idx s inp, P idx s → P idx (Cons.step (nodeCfg c.cfg idx) s inp))
include hstep

theorem input_keeps (i : Nat) (inp : Input) : Keeps P (fun n => n.input c i inp) := by
  intro n hn
  show AllNodes P (n.input c i inp)
  unfold Net.input
  cases hi : n.nodes[i]? with
  | none => exact hn
  | some nd =>
    dsimp only
    have hmem : nd ∈ n.nodes := List.mem_of_getElem? hi
    exact allNodes_set hn i _ (by
      unfold harvest
      exact hstep nd.idx nd.s inp (hn nd hmem))

theorem deliver_keeps (i k : Nat) : Keeps P (fun n => n.deliver c i k) := by
  intro n hn
  show AllNodes P (n.deliver c i k)
  unfold Net.deliver
  split
  · split
    · exact hn
    · exact input_keeps c hstep i _ n hn
  · exact hn

theorem claim_keeps (i j : Nat) : Keeps P (fun n => n.claim c i j) := by
  intro n hn
  show AllNodes P (n.claim c i j)
  unfold Net.claim
  split
  · exact hn
  · split
    · exact hn
    · rename_i p _ _
      exact Keeps.foldl (claimsOf p.s)
        (fun net (x : Nat × VType × Bid) => net.input c i (.peerMaj23 x.1 x.2.1 (1 + p.idx) x.2.2))
        (fun x => input_keeps c hstep i _) n hn

theorem closure_keeps : Keeps P (fun n => n.closure c) := by
  have hpassNode : ∀ i, Keeps P (fun n => n.passNode c i) := by
    intro i n hn
    show AllNodes P (n.passNode c i)
    unfold Net.passNode
    have h1 := Keeps.foldl (List.range n.nodes.length) (fun net j => net.claim c i j)
      (fun j => claim_keeps c hstep i j) n hn
    exact Keeps.foldl _ (fun net k => net.deliver c i k) (fun k => deliver_keeps c hstep i k) _ h1
  have hpass : Keeps P (fun n => n.pass c) := by
    intro n hn
    show AllNodes P (n.pass c)
    unfold Net.pass
    exact Keeps.foldl _ (fun net i => net.passNode c i) hpassNode n hn
  have hloop : ∀ fuel, Keeps P (closureLoop c fuel) := by
    intro fuel
    induction fuel with
    | zero => intro n hn; exact hn
    | succ f ih =>
      intro n hn
      unfold closureLoop
      dsimp only
      split
      · exact hpass n hn
      · exact ih _ (hpass n hn)
  intro n hn
  show AllNodes P (n.closure c)
  unfold Net.closure
  exact hloop closureFuel n hn

theorem fire_keeps (i : Nat) : Keeps P (fun n => n.fire c i) := by
  intro n hn
  show AllNodes P (n.fire c i)
  unfold Net.fire
  cases hi : n.nodes[i]? with
  | none => exact hn
  | some nd =>
    dsimp only
    cases hp : nd.tick.pending with
    | none => exact hn
    | some x =>
      obtain ⟨r, st, e⟩ := x
      dsimp only
      apply input_keeps c hstep i _
      have hmem : nd ∈ n.nodes := List.mem_of_getElem? hi
      exact allNodes_set hn i _ (hn nd hmem)

/-- **a property of single nodes that every input of the receive routine keeps holds of every node
of the net under every schedule** -/
theorem op_keeps (op : Op) : Keeps P (fun n => n.op c op) := by
  intro n hn
  show AllNodes P (n.op c op)
  cases op with
  | dl i k => exact deliver_keeps c hstep i k n hn
  | byz m =>
    show AllNodes P ((n.byz m).getD n)
    unfold Net.byz
    dsimp only
    split
    · split
      · exact hn
      · exact hn
    · split
      · exact hn
      · exact hn
  | claim i j => exact claim_keeps c hstep i j n hn
  | byzclaim i r t peer b =>
    show AllNodes P (if n.faultyPeer c peer then n.input c i (.peerMaj23 r t peer b) else n)
    split
    · exact input_keeps c hstep i _ n hn
    · exact hn
  | fire i =>
    show AllNodes P (if n.synced ∧ !n.closed then n else if n.fireAllowed c i then n.fire c i else n)
    split
    · exact hn
    · split
      · exact fire_keeps c hstep i n hn
      · exact hn
  | closure => exact closure_keeps c hstep n hn
  | sync => exact hn

theorem run_keeps (ops : List Op) : Keeps P (fun n => n.run c ops) :=
  Keeps.foldl ops (fun n op => n.op c op) (fun op => op_keeps c hstep op)

theorem syncRun_keeps (moves : List Op) : Keeps P (fun n => syncRun c n moves) := by
  intro n hn
  show AllNodes P (syncRun c n moves)
  unfold syncRun
  have h0 : AllNodes P ({ n with synced := true }.closure c) := closure_keeps c hstep _ hn
  exact Keeps.foldl moves (fun net mv => (net.op c mv).closure c)
    (fun mv n hn => closure_keeps c hstep _ (op_keeps c hstep mv n hn)) _ h0

end

/-- every node of a net reached from `Net.init` is the node model run on SOME input list: all the
single-node theorems (`Tmv.Cons`, C02, the vote arithmetic, the commit invariants) apply to it -/
theorem nodes_are_runs (c : SCfg) (correct : List Nat) (ops : List Op) :
    AllNodes (fun idx s => ∃ is, s = Cons.run (nodeCfg c.cfg idx) .init is) ((Net.init correct).run c ops) := by
  apply run_keeps c (P := fun idx s => ∃ is, s = Cons.run (nodeCfg c.cfg idx) .init is)
  · intro idx s inp ⟨is, e⟩
    refine ⟨is ++ [inp], ?_⟩
    rw [e]
    simp [Cons.run, List.foldl_append]
  · intro nd hm
    unfold Net.init at hm
    simp only [List.mem_map] at hm
    obtain ⟨i, _, e⟩ := hm
    subst e
    exact ⟨[], rfl⟩


end Tmv.Sync
