import Tmv.Model.LightSpec
/-! Helper lemmas for C09 (core Lean only). -/
namespace Tmv.Light

theorem commitLightOK_sound {b : LightBlock} (h : commitLightOK b = true) :
    2 * b.vals.total < 3 * tally b.vals b.signers := by
  unfold commitLightOK at h
  have := of_decide_eq_true h
  omega

theorem commitTrusting_sound {tv : ValSet} {u : LightBlock} {l : Fraction}
    (h : commitTrusting tv u l = .ok ()) :
    0 < l.den ∧ tv.total * l.num < tally tv u.signers * l.den := by
  unfold commitTrusting at h
  split at h
  · cases h
  · rename_i hd
    split at h
    · cases h
    · split at h
      · cases h
      · split at h
        · rename_i ht
          have hpos : 0 < l.den := Nat.pos_of_ne_zero hd
          exact ⟨hpos, (Nat.div_lt_iff_lt_mul hpos).mp ht⟩
        · cases h

theorem verifyNewHeaderAndVals_sound {u t : LightBlock} {now drift : Int}
    (h : verifyNewHeaderAndVals u t now drift = true) :
    u.hdr.basicOK = true ∧ u.commitOK = true ∧ u.hdr.chain = t.hdr.chain ∧
    u.hdr.valsHash = u.vals.hash ∧ t.height < u.height ∧ t.time < u.time ∧ u.time < now + drift := by
  simp [verifyNewHeaderAndVals, signedHeaderBasic] at h
  obtain ⟨⟨⟨⟨⟨⟨h1, h2⟩, h3⟩, h4⟩, h5⟩, h6⟩, h7⟩ := h
  exact ⟨h1, h2, h3, h7, h4, h5, h6⟩

theorem headerExpired_false {t : LightBlock} {p now : Int} (h : headerExpired t p now = false) :
    now < t.time + p := by
  simp [headerExpired] at h
  omega

theorem verifyAdjacent_sound {cfg : Config} {t u : LightBlock} {now : Int}
    (h : verifyAdjacent cfg t u now = .ok ()) : ValidStep cfg now t u := by
  unfold verifyAdjacent at h
  split at h
  · cases h
  · rename_i hadj
    split at h
    · cases h
    · rename_i hexp
      split at h
      · cases h
      · rename_i hnew
        split at h
        · cases h
        · rename_i hnv
          split at h
          · cases h
          · rename_i hc
            simp at hadj hexp hnew hnv hc
            obtain ⟨a1, a2, a3, a4, a5, a6, a7⟩ := verifyNewHeaderAndVals_sound hnew
            exact ⟨a1, a2, a3, a4, a5, a6, a7, commitLightOK_sound hc, Or.inl ⟨hadj, hnv⟩,
              headerExpired_false hexp⟩

theorem verifyNonAdjacent_sound {cfg : Config} {t u : LightBlock} {now : Int}
    (h : verifyNonAdjacent cfg t u now = .ok ()) : ValidStep cfg now t u := by
  unfold verifyNonAdjacent at h
  split at h
  · cases h
  · rename_i hadj
    split at h
    · cases h
    · rename_i hexp
      split at h
      · cases h
      · rename_i hnew
        split at h
        · cases h
        · rename_i htr
          split at h
          · cases h
          · rename_i hc
            simp at hexp hnew hc
            obtain ⟨a1, a2, a3, a4, a5, a6, a7⟩ := verifyNewHeaderAndVals_sound hnew
            have htr' : commitTrusting t.vals u cfg.level = .ok () := by
              rw [htr]
            obtain ⟨b1, b2⟩ := commitTrusting_sound htr'
            exact ⟨a1, a2, a3, a4, a5, a6, a7, commitLightOK_sound hc, Or.inr ⟨hadj, b1, b2⟩,
              headerExpired_false hexp⟩

theorem verify_sound {cfg : Config} {t u : LightBlock} {now : Int}
    (h : verify cfg t u now = .ok ()) : ValidStep cfg now t u := by
  unfold verify at h
  split at h
  · exact verifyNonAdjacent_sound h
  · exact verifyAdjacent_sound h

theorem verifyBackwards_sound {u t : LightBlock} (h : verifyBackwards u t = true) : BackStep t u := by
  simp [verifyBackwards] at h
  obtain ⟨⟨⟨h1, h2⟩, h3⟩, h4⟩ := h
  exact ⟨h1, h2, h3, h4⟩

end Tmv.Light
