import Tmv.Model.LightSpec
import Tmv.Props.C07
/-! Helper lemmas for C09 (core Lean only). -/
namespace Tmv.Light

theorem validators_nonneg (v : ValSet) : CommitVerify.NonNeg v.validators := by
  intro x hx
  simp only [ValSet.validators, List.mem_map] at hx
  obtain ⟨p, _, rfl⟩ := hx
  exact Int.natCast_nonneg _

/-- from C07's `light_sound` -/
theorem commitLightOK_sound {sigOK : SigOK} {chain : Nat} {b : LightBlock}
    (h : commitLightOK sigOK chain b = true) : SignedByOwn sigOK chain b := by
  unfold commitLightOK at h
  have h' := eq_of_beq h
  obtain ⟨_, _, _, _, picks, hnd, hg, hp⟩ :=
    Props.C07.light_sound sigOK _ _ _ _ _ (validators_nonneg b.vals) h'
  exact ⟨picks, hnd, hg, hp⟩

/-- from C07's `trusting_sound` -/
theorem commitTrusting_sound {sigOK : SigOK} {chain : Nat} {tv : ValSet} {u : LightBlock} {l : Fraction}
    (h : commitTrusting sigOK chain tv u l = .ok ()) : SignedByTrusted sigOK chain tv u l := by
  unfold commitTrusting at h
  split at h
  · rename_i hv
    obtain ⟨hd, _, picks, hnd, hg, hp⟩ :=
      Props.C07.trusting_sound sigOK _ _ _ _ _ (validators_nonneg tv) hv
    exact ⟨hd, picks, hnd, hg, hp⟩
  all_goals cases h

theorem verifyNewHeaderAndVals_sound {u t : LightBlock} {now drift : Int}
    (h : verifyNewHeaderAndVals u t now drift = true) :
    u.hdr.basicOK = true ∧ u.commitOK = true ∧ u.hdr.chain = t.hdr.chain ∧
    u.hdr.valsHash = u.vals.hash ∧ t.height < u.height ∧ t.time < u.time ∧ u.time < now + drift := by
  simp [verifyNewHeaderAndVals, signedHeaderBasic] at h
  obtain ⟨⟨⟨⟨⟨⟨h1, h2⟩, h3⟩, h4⟩, h5⟩, h6⟩, h7⟩ := h
  exact ⟨h1, h2, h3, h7, h4, h5, h6⟩

theorem headerExpired_false {t : LightBlock} {p now : Int} (h : headerExpired t p now = false) :
    now < t.time + p := by
  simp [headerExpired] at h
  omega

theorem verifyAdjacent_sound {cfg : Config} {t u : LightBlock} {now : Int}
    (h : verifyAdjacent cfg t u now = .ok ()) : ValidStep cfg now t u := by
  unfold verifyAdjacent at h
  split at h
  · cases h
  · rename_i hadj
    split at h
    · cases h
    · rename_i hexp
      split at h
      · cases h
      · rename_i hnew
        split at h
        · cases h
        · rename_i hnv
          split at h
          · cases h
          · rename_i hc
            simp at hadj hexp hnew hnv hc
            obtain ⟨a1, a2, a3, a4, a5, a6, a7⟩ := verifyNewHeaderAndVals_sound hnew
            exact ⟨a1, a2, a3, a4, a5, a6, a7, commitLightOK_sound hc, Or.inl ⟨hadj, hnv⟩,
              headerExpired_false hexp⟩

theorem verifyNonAdjacent_sound {cfg : Config} {t u : LightBlock} {now : Int}
    (h : verifyNonAdjacent cfg t u now = .ok ()) : ValidStep cfg now t u := by
  unfold verifyNonAdjacent at h
  split at h
  · cases h
  · rename_i hadj
    split at h
    · cases h
    · rename_i hexp
      split at h
      · cases h
      · rename_i hnew
        split at h
        · cases h
        · rename_i htr
          split at h
          · cases h
          · rename_i hc
            simp at hexp hnew hc
            obtain ⟨a1, a2, a3, a4, a5, a6, a7⟩ := verifyNewHeaderAndVals_sound hnew
            have htr' : commitTrusting cfg.sigOK t.hdr.chain t.vals u cfg.level = .ok () := by
              rw [htr]
            exact ⟨a1, a2, a3, a4, a5, a6, a7, commitLightOK_sound hc,
              Or.inr ⟨hadj, commitTrusting_sound htr'⟩, headerExpired_false hexp⟩

theorem verify_sound {cfg : Config} {t u : LightBlock} {now : Int}
    (h : verify cfg t u now = .ok ()) : ValidStep cfg now t u := by
  unfold verify at h
  split at h
  · exact verifyNonAdjacent_sound h
  · exact verifyAdjacent_sound h

theorem verifyBackwards_sound {u t : LightBlock} (h : verifyBackwards u t = true) : BackStep t u := by
  simp [verifyBackwards] at h
  obtain ⟨⟨⟨h1, h2⟩, h3⟩, h4⟩ := h
  exact ⟨h1, h2, h3, h4⟩

end Tmv.Light
