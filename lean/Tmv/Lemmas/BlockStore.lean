import Tmv.Model.BlockStore
/-! Frame lemmas for the block-store model: which keys the audit of one height reads, and that
writes to other keys leave it unchanged. -/
namespace Tmv.BlockStore

theorem get_set (db : DB) (k a : Key) (v : Val) :
    get (apply db (.set k v)) a = if k = a then some v else get db a := by
  simp only [get, apply]
  rw [Std.HashMap.getElem?_insert]; simp

theorem get_del (db : DB) (k a : Key) :
    get (apply db (.del k)) a = if k = a then none else get db a := by
  simp only [get, apply]
  rw [Std.HashMap.getElem?_erase]; simp

theorem get_empty (k : Key) : get ({} : DB) k = none := by
  simp [get]

theorem loadRange_empty : loadRange ({} : DB) = (0, 0) := by
  simp [loadRange, get_empty]

theorem loadMeta_empty (h : Int) : loadMeta ({} : DB) h = none := by
  simp [loadMeta, get_empty]

theorem get_apply_of_ne (db : DB) (w : Write) (a : Key) (h : w.key ≠ a) :
    get (apply db w) a = get db a := by
  cases w with
  | set k v => simp only [Write.key] at h; rw [get_set]; simp [h]
  | del k => simp only [Write.key] at h; rw [get_del]; simp [h]

theorem applyAll_nil (db : DB) : applyAll db [] = db := rfl
theorem applyAll_cons (db : DB) (w : Write) (ws : List Write) :
    applyAll db (w :: ws) = applyAll (apply db w) ws := rfl
theorem applyAll_append (db : DB) (a b : List Write) :
    applyAll db (a ++ b) = applyAll (applyAll db a) b := by
  simp [applyAll, List.foldl_append]

theorem get_applyAll_of_not_mem (ws : List Write) (db : DB) (a : Key)
    (h : ∀ w ∈ ws, w.key ≠ a) : get (applyAll db ws) a = get db a := by
  induction ws generalizing db with
  | nil => rfl
  | cons w ws ih =>
    rw [applyAll_cons, ih _ (fun w' hw' => h w' (List.mem_cons_of_mem _ hw')),
      get_apply_of_ne _ _ _ (h w List.mem_cons_self)]

/-- the keys the audit of height `h` reads when the store's height is `H` -/
def usedAt (db : DB) (H h : Int) (k : Key) : Prop :=
  k = .bmeta h ∨ (∃ i, k = .part h i) ∨ (h < H ∧ k = .commit h) ∨ (¬ h < H ∧ k = .seen h) ∨
    (∃ m, loadMeta db h = some m ∧ k = .hashIdx m.hash)

theorem checkAt_congr (db db' : DB) (H h : Int)
    (hk : ∀ k, usedAt db H h k → get db' k = get db k) : checkAt db' H h = checkAt db H h := by
  have hmeta : loadMeta db' h = loadMeta db h := by
    simp only [loadMeta, hk _ (Or.inl rfl)]
  have hpart : ∀ i, get db' (.part h i) = get db (.part h i) :=
    fun i => hk _ (Or.inr (Or.inl ⟨i, rfl⟩))
  have hpis : ∀ b, partIs db' h b = partIs db h b := by
    intro b; funext i; simp only [partIs, hpart]
  have hblock : loadBlock db' h = loadBlock db h := by
    simp only [loadBlock, hmeta, hpart, hpis]
  unfold checkAt
  rw [hmeta, hblock]
  cases hm : loadMeta db h with
  | none => rfl
  | some m =>
    have hidx : loadHeightByHash db' m.hash = loadHeightByHash db m.hash := by
      simp only [loadHeightByHash, hk _ (Or.inr (Or.inr (Or.inr (Or.inr ⟨m, hm, rfl⟩))))]
    simp only [hidx]
    by_cases hlt : h < H
    · have hc : loadCommit db' h = loadCommit db h := by
        simp only [loadCommit, hk _ (Or.inr (Or.inr (Or.inl ⟨hlt, rfl⟩)))]
      simp only [hlt, if_true, hc]
    · have hs : loadSeen db' h = loadSeen db h := by
        simp only [loadSeen, hk _ (Or.inr (Or.inr (Or.inr (Or.inl ⟨hlt, rfl⟩))))]
      simp only [hlt, if_false, hs]

/-- `usedAt` only depends on the meta of the height -/
theorem usedAt_congr (db db' : DB) (H h : Int) (k : Key) (hm : loadMeta db' h = loadMeta db h) :
    usedAt db' H h k ↔ usedAt db H h k := by
  simp only [usedAt, hm]

theorem loadRange_apply_of_ne (db : DB) (w : Write) (h : w.key ≠ .bsState) :
    loadRange (apply db w) = loadRange db := by
  simp only [loadRange, get_apply_of_ne _ _ _ h]

theorem loadRange_applyAll_of_not_mem (ws : List Write) (db : DB)
    (h : ∀ w ∈ ws, w.key ≠ .bsState) : loadRange (applyAll db ws) = loadRange db := by
  simp only [loadRange, get_applyAll_of_not_mem ws db _ h]

theorem loadRange_set (db : DB) (b H : Int) (hb : ¬ (H > 0 ∧ b = 0)) :
    loadRange (apply db (.set .bsState (.range b H))) = (b, H) := by
  simp only [loadRange, get_set, if_true, hb, if_false]

/-- every height in `[B,H]` passes the audit -/
def GoodFrom (db : DB) (B H : Int) : Prop := ∀ h, B ≤ h → h ≤ H → checkAt db H h = none

theorem good_iff (db : DB) : Good db ↔
    ((loadRange db).1 = 0 ∧ (loadRange db).2 = 0) ∨
    (0 < (loadRange db).1 ∧ (loadRange db).1 ≤ (loadRange db).2 ∧
      GoodFrom db (loadRange db).1 (loadRange db).2) := Iff.rfl

/-- a write is *unused* by the heights `[B,H]` -/
def Unused (db : DB) (B H : Int) (w : Write) : Prop :=
  w.key ≠ .bsState ∧ ∀ h, B ≤ h → h ≤ H → ¬ usedAt db H h w.key

theorem goodFrom_applyAll_unused (db : DB) (B H : Int) (ws : List Write)
    (hG : GoodFrom db B H) (hws : ∀ w ∈ ws, Unused db B H w) : GoodFrom (applyAll db ws) B H := by
  intro h hB hH
  rw [checkAt_congr db (applyAll db ws) H h, hG h hB hH]
  intro k hk
  apply get_applyAll_of_not_mem
  intro w hw heq
  exact (hws w hw).2 h hB hH (heq ▸ hk)

theorem loadMeta_applyAll_unused (db : DB) (B H : Int) (ws : List Write)
    (hws : ∀ w ∈ ws, Unused db B H w) (h : Int) (hB : B ≤ h) (hH : h ≤ H) :
    loadMeta (applyAll db ws) h = loadMeta db h := by
  have : get (applyAll db ws) (.bmeta h) = get db (.bmeta h) := by
    apply get_applyAll_of_not_mem
    intro w hw heq
    exact (hws w hw).2 h hB hH (heq ▸ Or.inl rfl)
  simp only [loadMeta, this]

/-- all prefixes of a write sequence leave a database that passes the audit -/
def AllPrefixGood (db : DB) (ws : List Write) : Prop := ∀ k, Good (applyAll db (ws.take k))

theorem allPrefixGood_append (db : DB) (a b : List Write)
    (ha : AllPrefixGood db a) (hb : AllPrefixGood (applyAll db a) b) : AllPrefixGood db (a ++ b) := by
  intro k
  rw [List.take_append]
  by_cases hk : k ≤ a.length
  · have : k - a.length = 0 := by omega
    rw [this]; simpa using ha k
  · have : a.take k = a := List.take_of_length_le (by omega)
    rw [this, applyAll_append]
    exact hb _

theorem allPrefixGood_last (db : DB) (ws : List Write) (h : AllPrefixGood db ws) :
    Good (applyAll db ws) := by
  have := h ws.length
  simpa using this

theorem allPrefixGood_first (db : DB) (ws : List Write) (h : AllPrefixGood db ws) : Good db := by
  have := h 0
  simpa [applyAll_nil] using this

theorem good_applyAll_unused (db : DB) (ws : List Write)
    (hG : Good db) (hws : ∀ w ∈ ws, Unused db (loadRange db).1 (loadRange db).2 w) :
    Good (applyAll db ws) := by
  have hr : loadRange (applyAll db ws) = loadRange db :=
    loadRange_applyAll_of_not_mem ws db (fun w hw => (hws w hw).1)
  rw [good_iff] at hG ⊢
  rw [hr]
  rcases hG with h0 | ⟨h1, h2, h3⟩
  · exact Or.inl h0
  · exact Or.inr ⟨h1, h2, goodFrom_applyAll_unused db _ _ ws h3 hws⟩

theorem allPrefixGood_unused (db : DB) (ws : List Write)
    (hG : Good db) (hws : ∀ w ∈ ws, Unused db (loadRange db).1 (loadRange db).2 w) :
    AllPrefixGood db ws := by
  intro k
  exact good_applyAll_unused db _ hG (fun w hw => hws w (List.mem_of_mem_take hw))

/-- a crash-unit prefix is a write prefix -/
theorem take_flatten_prefix (units : List (List Write)) (k : Nat) :
    ∃ j, (units.take k).flatten = units.flatten.take j := by
  induction units generalizing k with
  | nil => exact ⟨0, by simp⟩
  | cons u us ih =>
    cases k with
    | zero => exact ⟨0, by simp⟩
    | succ k =>
      obtain ⟨j, hj⟩ := ih k
      refine ⟨u.length + j, ?_⟩
      simp only [List.take_succ_cons, List.flatten_cons, hj]
      rw [List.take_append]
      simp [List.take_of_length_le]

theorem good_afterUnits (db : DB) (units : List (List Write))
    (h : AllPrefixGood db units.flatten) (k : Nat) : Good (afterUnits db units k) := by
  obtain ⟨j, hj⟩ := take_flatten_prefix units k
  simp only [afterUnits, hj]
  exact h j

/-- what a passing audit of one height says -/
structure OkAt (db : DB) (H h : Int) (m : Meta) (b : Block) (c : Commit) : Prop where
  hmeta : loadMeta db h = some m
  metaHeight : m.height = h
  block : loadBlock db h = some b
  blockHash : b.hash = m.hash
  blockHeight : b.height = h
  blockTotal : b.total = m.total
  hashIdx : loadHeightByHash db m.hash = some h
  commit : (if h < H then loadCommit db h else loadSeen db h) = some c
  commitHeight : c.height = h
  commitHash : c.blockHash = m.hash

theorem checkAt_none_iff (db : DB) (H h : Int) :
    checkAt db H h = none ↔ ∃ m b c, OkAt db H h m b c := by
  constructor
  · intro hc
    unfold checkAt at hc
    split at hc
    · cases hc
    · rename_i m hm
      split at hc
      · cases hc
      · rename_i hmh
        split at hc
        · cases hc
        · rename_i b hb
          split at hc
          · cases hc
          · rename_i h1
            split at hc
            · cases hc
            · rename_i h2
              split at hc
              · cases hc
              · rename_i h3
                split at hc
                · cases hc
                · rename_i h4
                  split at hc
                  · rename_i hlt
                    split at hc
                    · cases hc
                    · rename_i c hcm
                      split at hc
                      · rename_i h5
                        exact ⟨m, b, c, hm, by simpa using hmh, hb, by simpa using h1, by simpa using h2,
                          by simpa using h3, by simpa using h4, by simp [hlt, hcm], h5.1, h5.2⟩
                      · cases hc
                  · rename_i hlt
                    split at hc
                    · cases hc
                    · rename_i c hcm
                      split at hc
                      · rename_i h5
                        exact ⟨m, b, c, hm, by simpa using hmh, hb, by simpa using h1, by simpa using h2,
                          by simpa using h3, by simpa using h4, by simp [hlt, hcm], h5.1, h5.2⟩
                      · cases hc
  · rintro ⟨m, b, c, ok⟩
    unfold checkAt
    have hc := ok.commit
    by_cases hlt : h < H
    · simp only [hlt, if_true] at hc
      simp [ok.hmeta, ok.metaHeight, ok.block, ok.blockHash, ok.blockHeight, ok.blockTotal, ok.hashIdx,
        hlt, hc, ok.commitHeight, ok.commitHash]
    · simp only [hlt, if_false] at hc
      simp [ok.hmeta, ok.metaHeight, ok.block, ok.blockHash, ok.blockHeight, ok.blockTotal, ok.hashIdx,
        hlt, hc, ok.commitHeight, ok.commitHash]

/-- below the tip the audit of a height does not depend on where the tip is -/
theorem checkAt_below_tip (db : DB) (H H' h : Int) (h1 : h < H) (h2 : h < H') :
    checkAt db H' h = checkAt db H h := by
  unfold checkAt
  simp only [h1, h2, if_true]

/-- two audited heights never share a block hash (the hash index is a function) -/
theorem hash_ne_of_good (db : DB) (H a h : Int) (ma mh : Meta)
    (ha : checkAt db H a = none) (hh : checkAt db H h = none)
    (hma : loadMeta db a = some ma) (hmh : loadMeta db h = some mh) (hne : a ≠ h) :
    ma.hash ≠ mh.hash := by
  obtain ⟨m1, _, _, o1⟩ := (checkAt_none_iff db H a).1 ha
  obtain ⟨m2, _, _, o2⟩ := (checkAt_none_iff db H h).1 hh
  have e1 : m1 = ma := by have := o1.hmeta; rw [hma] at this; exact (Option.some.inj this).symm
  have e2 : m2 = mh := by have := o2.hmeta; rw [hmh] at this; exact (Option.some.inj this).symm
  subst e1; subst e2
  intro heq
  have h1 := o1.hashIdx
  have h2 := o2.hashIdx
  rw [heq, h2] at h1
  exact hne (Option.some.inj h1).symm

theorem flatten_map_singleton {α β : Type} (l : List α) (f : α → β) :
    (l.map (fun i => [f i])).flatten = l.map f := by
  induction l with
  | nil => rfl
  | cons a l ih => simp [ih]

/-- after writing the parts of block `b` at height `n`, part `i` is there -/
theorem get_partsWrites (db : DB) (n : Int) (b : Block) (t i : Nat) (hi : i < t) :
    get (applyAll db ((List.range t).map (fun i => Write.set (.part n i) (.part b i)))) (.part n i)
      = some (.part b i) := by
  induction t with
  | zero => omega
  | succ t ih =>
    rw [List.range_succ, List.map_append, applyAll_append]
    simp only [List.map_cons, List.map_nil, applyAll_cons, applyAll_nil, get_set]
    by_cases h : t = i
    · subst h; simp
    · have : i < t := by omega
      simp [h, ih this]

end Tmv.BlockStore
