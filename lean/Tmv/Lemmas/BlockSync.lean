import Tmv.Model.BlockSync
/-! Helper lemmas for C13 (block sync). -/
namespace Tmv.BlockSync

variable (sigOK : Nat → SignBytes → Nat → Bool)

/-- power of the validators whose entry in `c` is a for-block signature that verifies -/
def signedPower (c : Commit) : List Val → List CSig → Int
  | v :: vs, s :: ss =>
    (if s.flag = .commit ∧ sigOK v.key (signBytes c s) s.sig = true then v.power else 0)
      + signedPower c vs ss
  | _, _ => 0

theorem signedPower_nonneg (c : Commit) : ∀ (vals : List Val) (sigs : List CSig),
    0 ≤ signedPower sigOK c vals sigs := by
  intro vals
  induction vals with
  | nil => intro sigs; simp [signedPower]
  | cons v vs ih =>
    intro sigs
    cases sigs with
    | nil => simp [signedPower]
    | cons s ss =>
      have := ih ss
      simp only [signedPower]
      split <;> omega

/-- what an accepting run of the `VerifyCommitLight` loop has established -/
theorem lightLoop_ok (c : Commit) (need : Int) : ∀ (vals : List Val) (sigs : List CSig) (idx : Nat)
    (tally : Int), lightLoop sigOK c need vals sigs idx tally = .ok () →
    tally + signedPower sigOK c vals sigs > need := by
  intro vals
  induction vals with
  | nil => intro sigs idx tally h; simp [lightLoop] at h
  | cons v vs ih =>
    intro sigs idx tally h
    cases sigs with
    | nil => simp [lightLoop] at h
    | cons s ss =>
      have hnn := signedPower_nonneg sigOK c vs ss
      unfold lightLoop at h
      simp only [signedPower]
      split at h
      · rename_i hf
        have := ih ss _ _ h
        simp [hf]; omega
      · rename_i hf
        have hf' : s.flag = .commit := by simpa using hf
        split at h
        · cases h
        · rename_i hs
          have hs' : sigOK v.key (signBytes c s) s.sig = true := by simpa using hs
          simp only [hf', hs', and_self, if_true]
          split at h
          · omega
          · have := ih ss _ _ h
            omega

theorem totalPower_nonneg : ∀ (vals : List Val), 0 ≤ totalPower vals := by
  intro vals
  induction vals with
  | nil => simp [totalPower]
  | cons v vs ih =>
    simp [totalPower] at *
    omega

end Tmv.BlockSync

namespace Tmv.BlockSync
variable (sigOK : Nat → SignBytes → Nat → Bool)

/-- a commit with valid for-block signatures of more than 2/3 of `vals` for exactly (`id`, `h`) -/
def Quorum (vals : List Val) (id : BlockId) (h : Int) (c : Commit) : Prop :=
  c.sigs.length = vals.length ∧ c.height = h ∧ c.blockId = id ∧
    3 * signedPower sigOK c vals c.sigs > 2 * totalPower vals

theorem verifyCommitLight_quorum (vals : List Val) (id : BlockId) (h : Int) (c : Commit)
    (hv : verifyCommitLight sigOK vals id h c = .ok ()) :
    Quorum sigOK vals id h c := by
  unfold verifyCommitLight at hv
  split at hv; · cases hv
  rename_i h1
  split at hv; · cases hv
  rename_i h2
  split at hv; · cases hv
  rename_i h3
  have := lightLoop_ok sigOK c (needed vals) vals c.sigs 0 0 hv
  have ht := totalPower_nonneg vals
  refine ⟨by omega, by omega, ?_, ?_⟩
  · exact (Decidable.not_not.mp h3).symm
  · unfold needed at this
    omega

/-! ### which operations touch the state and the store -/

theorem stopPeer_st (n : Node) (id : Nat) : (n.stopPeer id).st = n.st ∧ (n.stopPeer id).store = n.store := by
  unfold Node.stopPeer; split <;> simp

theorem redoBoth_st (n : Node) (h1 h2 : Int) :
    (n.redoBoth h1 h2).1.st = n.st ∧ (n.redoBoth h1 h2).1.store = n.store := by
  unfold Node.redoBoth
  simp only
  split <;> split <;> split <;> split <;> simp_all [stopPeer_st]

end Tmv.BlockSync

namespace Tmv.BlockSync

/-! ### dropping peers -/

theorem peer?_none_iff (p : Pool) (x : Nat) : p.peer? x = none ↔ ∀ q ∈ p.peers, q.id ≠ x := by
  unfold Pool.peer?
  rw [List.find?_eq_none]
  constructor
  · intro h q hq; simpa using h q hq
  · intro h q hq; simpa using h q hq

theorem removePeer_peers_sub (p : Pool) (id : Nat) : ∀ q ∈ (p.removePeer id).peers, q ∈ p.peers := by
  unfold Pool.removePeer
  split
  · intro q hq; simp at hq; exact hq.1
  · intro q hq; exact hq

theorem removePeer_self (p : Pool) (id : Nat) : (p.removePeer id).peer? id = none := by
  unfold Pool.removePeer
  split
  · rw [peer?_none_iff]; intro q hq; simp at hq; exact hq.2
  · rename_i h
    rw [peer?_none_iff] at h ⊢
    exact h

theorem removePeer_mono (p : Pool) (id x : Nat) (h : p.peer? x = none) :
    (p.removePeer id).peer? x = none := by
  rw [peer?_none_iff] at h ⊢
  intro q hq
  exact h q (removePeer_peers_sub p id q hq)

/-- `RedoRequest` + the `StopPeerForError` that follows it in `poolRoutine` -/
def Node.redoStop (n : Node) (h : Int) : Node × Option Nat :=
  let (n1, p1) := match n.pool.redoRequest h with
    | some (p, id) => ({ n with pool := p }, id)
    | none => (n, none)
  (match p1 with | some id => n1.stopPeer id | none => n1, p1)

theorem redoBoth_eq (n : Node) (h1 h2 : Int) :
    n.redoBoth h1 h2 =
      (((n.redoStop h1).1.redoStop h2).1, (n.redoStop h1).2, ((n.redoStop h1).1.redoStop h2).2) := by
  unfold Node.redoBoth Node.redoStop
  simp only
  split <;> split <;> split <;> split <;> simp_all

theorem stopPeer_mono (n : Node) (id x : Nat) :
    (n.pool.peer? x = none → (n.stopPeer id).pool.peer? x = none) ∧
    (x ∉ n.connected → x ∉ (n.stopPeer id).connected) ∧
    (x ∈ n.stopped → x ∈ (n.stopPeer id).stopped) ∧
    (x ∈ n.connected → x ∉ (n.stopPeer id).connected → x ∈ (n.stopPeer id).stopped) := by
  unfold Node.stopPeer
  split
  · refine ⟨fun h => removePeer_mono _ _ _ h, ?_, ?_, ?_⟩
    · intro h; simp [h]
    · intro h; simp [h]
    · intro h1 h2
      simp only [List.mem_filter, h1, true_and, decide_eq_true_eq, Decidable.not_not] at h2
      simp [h2]
  · exact ⟨fun h => h, fun h => h, fun h => h, fun h1 h2 => absurd h1 h2⟩

theorem stopPeer_self (n : Node) (id : Nat) :
    id ∉ (n.stopPeer id).connected ∧ (id ∈ n.connected → id ∈ (n.stopPeer id).stopped) := by
  unfold Node.stopPeer
  split
  · simp
  · rename_i h; exact ⟨h, fun h' => absurd h' h⟩

theorem redoRequest_spec (p p' : Pool) (h : Int) (r : Option Nat)
    (hr : p.redoRequest h = some (p', r)) :
    (∀ x, p.peer? x = none → p'.peer? x = none) ∧ (∀ id, r = some id → p'.peer? id = none) := by
  unfold Pool.redoRequest at hr
  split at hr; · cases hr
  split at hr
  · simp only [Option.some.injEq, Prod.mk.injEq] at hr
    obtain ⟨rfl, rfl⟩ := hr
    refine ⟨fun x hx => removePeer_mono _ _ _ hx, ?_⟩
    intro id hid
    cases hid
    exact removePeer_self _ _
  · simp only [Option.some.injEq, Prod.mk.injEq] at hr
    obtain ⟨rfl, rfl⟩ := hr
    exact ⟨fun _ hx => hx, fun _ h => by cases h⟩

theorem redoStop_spec (n : Node) (h : Int) :
    (∀ x, (n.pool.peer? x = none → (n.redoStop h).1.pool.peer? x = none) ∧
      (x ∉ n.connected → x ∉ (n.redoStop h).1.connected) ∧
      (x ∈ n.stopped → x ∈ (n.redoStop h).1.stopped) ∧
      (x ∈ n.connected → x ∉ (n.redoStop h).1.connected → x ∈ (n.redoStop h).1.stopped)) ∧
    (∀ id, (n.redoStop h).2 = some id →
      (n.redoStop h).1.pool.peer? id = none ∧ id ∉ (n.redoStop h).1.connected ∧
      (id ∈ n.connected → id ∈ (n.redoStop h).1.stopped)) := by
  unfold Node.redoStop
  cases hr : n.pool.redoRequest h with
  | none => simp; intro x h1 h2; exact absurd h1 h2
  | some pr =>
    obtain ⟨p', r⟩ := pr
    have hs := redoRequest_spec n.pool p' h r hr
    cases r with
    | none =>
      simp only
      refine ⟨fun x => ⟨hs.1 x, fun h => h, fun h => h, fun h1 h2 => absurd h1 h2⟩, fun _ h => by cases h⟩
    | some pid =>
      simp only
      refine ⟨fun x => ?_, ?_⟩
      · have m := stopPeer_mono { n with pool := p' } pid x
        exact ⟨fun hx => m.1 (hs.1 x hx), m.2.1, m.2.2.1, m.2.2.2⟩
      · intro id hid
        cases hid
        have m := stopPeer_mono { n with pool := p' } pid pid
        have s := stopPeer_self { n with pool := p' } pid
        exact ⟨m.1 (hs.2 pid rfl), s.1, s.2⟩

end Tmv.BlockSync

namespace Tmv.BlockSync

/-! ### requesters: get/set -/

theorem setReq_req?_same (p : Pool) (h : Int) (r r' : Requester) (hr : p.req? h = some r) :
    (p.setReq h r').req? h = some r' := by
  unfold Pool.req? at hr
  cases hi : p.idx? h with
  | none => simp [hi] at hr
  | some i =>
    simp only [hi] at hr
    have hlt : i < p.requesters.length := by
      rcases List.getElem?_eq_some_iff.mp hr with ⟨hlt, _⟩; exact hlt
    have hi' : ({ p with requesters := p.requesters.set i r' } : Pool).idx? h = some i := by
      unfold Pool.idx? at hi ⊢
      simpa using hi
    unfold Pool.setReq Pool.req?
    simp only [hi, hi']
    simp [hlt]

theorem req?_numPending (p : Pool) (x : Int) (h : Int) :
    ({ p with numPending := x } : Pool).req? h = p.req? h := rfl

/-- the retry timer always returns the requester to the picking state -/
theorem rtimeout_resets (p : Pool) (h : Int) (r : Requester) (hr : p.req? h = some r)
    (hp : r.peer.isSome) :
    (p.rtimeout h).1.req? h = some { r with peer := none, block := none } := by
  unfold Pool.rtimeout
  simp only [hr]
  have : ¬ r.peer.isNone = true := by cases h' : r.peer <;> simp_all
  simp only [this]
  unfold Pool.resetReq
  exact setReq_req?_same _ h r _ (by rw [req?_numPending]; exact hr)

/-- the redo signal of the requester's own peer returns it to the picking state -/
theorem rstep_resets (p : Pool) (h : Int) (r : Requester) (id : Nat) (hr : p.req? h = some r)
    (hp : r.peer = some id) (hd : r.redo = some id) :
    (p.rstep h).1.req? h = some ⟨none, none, none⟩ := by
  unfold Pool.rstep
  simp only [hr, hp, hd, Option.isNone_some, if_true]
  unfold Pool.resetReq
  have := setReq_req?_same ({ p with numPending :=
      if ({ r with redo := none } : Requester).block.isSome then p.numPending + 1 else p.numPending }) h r
    { ({ r with redo := none } : Requester) with peer := none, block := none }
    (by rw [req?_numPending]; exact hr)
  simpa using this

end Tmv.BlockSync

namespace Tmv.BlockSync

/-! ### what dropping a peer does to the requesters -/

/-- `r'` is `r` after some `removePeer`s: same peer and block, a pending redo signal stays -/
def Keeps (r r' : Requester) : Prop :=
  r'.peer = r.peer ∧ r'.block = r.block ∧ (∀ x, r.redo = some x → r'.redo = some x)

theorem Keeps.refl (r : Requester) : Keeps r r := ⟨rfl, rfl, fun _ h => h⟩

theorem Keeps.trans {a b c : Requester} (h1 : Keeps a b) (h2 : Keeps b c) : Keeps a c :=
  ⟨h2.1.trans h1.1, h2.2.1.trans h1.2.1, fun x h => h2.2.2 x (h1.2.2 x h)⟩

def redoMark (id : Nat) (r : Requester) : Requester :=
  if r.peer = some id then r.signalRedo id else r

theorem redoMark_keeps (id : Nat) (r : Requester) :
    Keeps r (redoMark id r) ∧ (r.peer = some id → (redoMark id r).redo.isSome) ∧
      (r.peer = some id → r.redo = none → (redoMark id r).redo = some id) := by
  unfold redoMark Requester.signalRedo
  by_cases hp : r.peer = some id
  · cases hd : r.redo <;> simp [hp, hd, Keeps]
  · simp [hp, Keeps]

theorem removePeer_req? (p : Pool) (id : Nat) (h : Int) :
    (p.removePeer id).req? h = (p.req? h).map (redoMark id) := by
  have key : ∀ (q : Pool), q.height = p.height → q.requesters = p.requesters.map (redoMark id) →
      q.req? h = (p.req? h).map (redoMark id) := by
    intro q hh hq
    unfold Pool.req? Pool.idx?
    rw [hh, hq]
    simp only [List.length_map]
    split
    · simp [List.getElem?_map]
    · rfl
  unfold Pool.removePeer
  split
  · exact key _ rfl rfl
  · exact key _ rfl rfl

theorem removePeer_keeps (p : Pool) (id : Nat) (h : Int) (r : Requester) (hr : p.req? h = some r) :
    ∃ r', (p.removePeer id).req? h = some r' ∧ Keeps r r' ∧ (r.peer = some id → r'.redo.isSome) ∧
      (r.peer = some id → r.redo = none → r'.redo = some id) := by
  refine ⟨redoMark id r, ?_, (redoMark_keeps id r).1, (redoMark_keeps id r).2.1, (redoMark_keeps id r).2.2⟩
  rw [removePeer_req?, hr]; rfl

theorem stopPeer_keeps (n : Node) (id : Nat) (h : Int) (r : Requester) (hr : n.pool.req? h = some r) :
    ∃ r', (n.stopPeer id).pool.req? h = some r' ∧ Keeps r r' := by
  unfold Node.stopPeer
  split
  · obtain ⟨r', a, b, _, _⟩ := removePeer_keeps n.pool id h r hr
    exact ⟨r', a, b⟩
  · exact ⟨r, hr, Keeps.refl r⟩

/-- `redoStop h0`: every requester keeps peer and block; the one at `h0` (whose peer is the
returned id) now has a redo signal pending -/
theorem redoStop_keeps (n : Node) (h0 h : Int) (r : Requester) (hr : n.pool.req? h = some r) :
    ∃ r', (n.redoStop h0).1.pool.req? h = some r' ∧ Keeps r r' ∧
      (h = h0 → (n.redoStop h0).2 = r.peer ∧ (r.peer.isSome → r'.redo.isSome) ∧
        (∀ id, r.peer = some id → r.redo = none → r'.redo = some id)) := by
  unfold Node.redoStop Pool.redoRequest
  cases hq : n.pool.req? h0 with
  | none =>
    refine ⟨r, by simpa using hr, Keeps.refl r, ?_⟩
    intro e; subst e; rw [hq] at hr; cases hr
  | some r0 =>
    cases hp : r0.peer with
    | none =>
      refine ⟨r, by simpa [hp] using hr, Keeps.refl r, ?_⟩
      intro e; subst e; rw [hq] at hr; cases hr
      simp [hp]
    | some id =>
      simp only [hp]
      obtain ⟨r1, a1, k1, d1, d2⟩ := removePeer_keeps n.pool id h r hr
      obtain ⟨r2, a2, k2⟩ := stopPeer_keeps { n with pool := n.pool.removePeer id } id h r1 a1
      refine ⟨r2, a2, k1.trans k2, ?_⟩
      intro e; subst e; rw [hq] at hr; cases hr
      refine ⟨hp.symm, fun _ => ?_, fun id' hid hnone => ?_⟩
      · have := d1 hp
        cases hx : r1.redo with
        | none => simp [hx] at this
        | some x => simp [k2.2.2 x hx]
      · rw [hp] at hid; cases hid
        exact k2.2.2 id (d2 hp hnone)

end Tmv.BlockSync
