import Tmv.Lemmas.ChainLift
/-! `World.applyOp` / `World.run` (the executable transitions of the chain model) only make `WStep`s:
every applied op is one `WStep.node` (optionally followed by `WStep.node`s with `NodeStep.own`, the
FIFO drain) or one `WStep.byz`. Core Lean only. -/
namespace Tmv.Chain
open Tmv.Cons Tmv.Net
variable {σ : Type}

theorem set_nets_self (W : World) (h : Nat) (N : Net) : (W.set h N).nets h = N := by
  simp [World.set]

theorem set_set (W : World) (h : Nat) (N N' : Net) : (W.set h N).set h N' = W.set h N' := by
  unfold World.set
  congr 1
  funext k
  by_cases hk : k = h <;> simp [hk]

theorem set_self (W : World) (h : Nat) : W.set h (W.nets h) = W := by
  cases W with
  | mk nets =>
    unfold World.set
    congr 1
    funext k
    by_cases hk : k = h <;> simp [hk]

theorem set_decided_ne (W : World) (h : Nat) (N : Net) (p h' : Nat) (hne : h' ≠ h) :
    (W.set h N).decided p h' = W.decided p h' := by
  simp [World.decided, World.set, hne]

theorem set_entered (W : World) (h : Nat) (N : Net) (p : Nat) :
    (W.set h N).entered p h ↔ W.entered p h := by
  constructor
  · intro e h' hl
    rw [← set_decided_ne W h N p h' (by omega)]
    exact e h' hl
  · intro e h' hl
    rw [set_decided_ne W h N p h' (by omega)]
    exact e h' hl

theorem set_st (C : ChainCfg σ) (W : World) (h : Nat) (N : Net) (p h' : Nat) (hle : h' ≤ h) :
    (W.set h N).st C p h' = W.st C p h' :=
  st_congr C _ _ p h' (fun k hk => set_decided_ne W h N p k (by omega))

theorem set_good (C : ChainCfg σ) (W : World) (h : Nat) (N : Net) (p : Nat) :
    (W.set h N).good C p h ↔ W.good C p h := by
  constructor
  · intro g h' hl
    rw [← set_st C W h N p h' hl]
    exact g h' hl
  · intro g h' hl
    rw [set_st C W h N p h' hl]
    exact g h' hl

/-- a move of node `p` at height `h` on the world with any net `N` at `h`; `entered`, `good` and the
state of `p` at `h` do not depend on the net at `h` -/
theorem set_node_step (C : ChainCfg σ) (W : World) (h p : Nat) (N N' : Net)
    (hent : W.entered p h) (hgood : W.good C p h)
    (hs : NodeStep (C.netAt (W.st C p h) h) p N N') : WStep C (W.set h N) (W.set h N') := by
  have := WStep.node (C := C) (W.set h N) h p N' ((set_entered W h N p).2 hent)
    ((set_good C W h N p).2 hgood)
    (by rw [set_st C W h N p h (Nat.le_refl _), set_nets_self]; exact hs)
  rwa [set_set] at this

theorem drainOwn_wreachable (C : ChainCfg σ) (W : World) (h p : Nat)
    (hent : W.entered p h) (hgood : W.good C p h) (fuel : Nat) (N : Net)
    (hr : WReachable C (W.set h N)) :
    WReachable C (W.set h (N.drainOwn (C.netAt (W.st C p h) h) p fuel)) := by
  induction fuel generalizing N with
  | zero => exact hr
  | succ f ih =>
    unfold Net.drainOwn
    split
    · exact hr
    · exact ih _ (WReachable.step hr (set_node_step C W h p N _ hent hgood (NodeStep.own N 0)))

theorem feedD_wreachable (C : ChainCfg σ) (W : World) (h p : Nat)
    (hent : W.entered p h) (hgood : W.good C p h) (N : Net) (i : Input) (d : Bool)
    (hr : WReachable C (W.set h N))
    (hs : NodeStep (C.netAt (W.st C p h) h) p N (N.feed (C.netAt (W.st C p h) h) p (.ext i))) :
    WReachable C (W.set h (N.feedD (C.netAt (W.st C p h) h) p i d)) := by
  unfold Net.feedD
  simp only []
  split
  · exact drainOwn_wreachable C W h p hent hgood _ _
      (WReachable.step hr (set_node_step C W h p N _ hent hgood hs))
  · exact WReachable.step hr (set_node_step C W h p N _ hent hgood hs)

/-- a node op applied to the net at height `h` is a sequence of `WStep.node`s of that node -/
theorem apply_wreachable (C : ChainCfg σ) (W : World) (h p : Nat)
    (hent : W.entered p h) (hgood : W.good C p h) (N N' : Net) (d : Bool) (op : Op)
    (hop : opNode op = some p) (hr : WReachable C (W.set h N))
    (ha : N.apply (C.netAt (W.st C p h) h) d op = some N') : WReachable C (W.set h N') := by
  unfold Net.apply at ha
  cases op with
  | deliver q k peer =>
    cases hop
    simp only at ha
    split at ha
    · split at ha
      · rename_i m hm
        cases ha
        have hk : k < N.log.length := (List.getElem?_eq_some_iff.1 hm).1
        have e : N.log[k] = m := (List.getElem?_eq_some_iff.1 hm).2
        rw [← e]
        exact feedD_wreachable C W h p hent hgood N _ d hr (NodeStep.deliver N k peer hk)
      · cases ha
    · cases ha
  | block q b =>
    cases hop
    simp only at ha; split at ha <;> cases ha
    exact feedD_wreachable C W h p hent hgood N _ d hr (NodeStep.block N b)
  | claim q r t peer bid =>
    cases hop
    simp only at ha; split at ha <;> cases ha
    exact feedD_wreachable C W h p hent hgood N _ false hr (NodeStep.claim N r t peer bid)
  | fire q r st =>
    cases hop
    simp only at ha; split at ha <;> cases ha
    rename_i hc
    exact feedD_wreachable C W h p hent hgood N _ d hr (NodeStep.fire N r st hc.2)
  | txs q =>
    cases hop
    simp only at ha; split at ha <;> cases ha
    exact feedD_wreachable C W h p hent hgood N _ d hr (NodeStep.txs N)
  | own q k =>
    cases hop
    simp only at ha; split at ha <;> cases ha
    exact WReachable.step hr (set_node_step C W h p N _ hent hgood (NodeStep.own N k))
  | byz m => cases hop
  | restart q => cases hop

/-- every applied op is a `WStep`, or a `WStep.node` followed by `own` steps of the same node -/
theorem applyOp_reachable (C : ChainCfg σ) (W W' : World) (h : Nat) (d : Bool) (op : Op)
    (hr : WReachable C W) (ha : W.applyOp C h d op = some W') : WReachable C W' := by
  unfold World.applyOp at ha
  split at ha
  · rename_i p hop
    split at ha
    · rename_i hc
      cases hN : (W.nets h).apply (C.netAt (W.st C p h) h) d op with
      | none => rw [hN] at ha; cases ha
      | some N' =>
        rw [hN] at ha
        cases ha
        exact apply_wreachable C W h p hc.1 hc.2 (W.nets h) N' d op hop
          (by rw [set_self]; exact hr) hN
    · cases ha
  · split at ha
    · split at ha
      · rename_i m _ hm
        cases ha
        exact WReachable.step hr (WStep.byz W h m hm)
      · cases ha
    · cases ha

theorem run_reachable (C : ChainCfg σ) (ops : List (Nat × Op)) (W : World) (hr : WReachable C W) :
    WReachable C (W.run C ops) := by
  induction ops generalizing W with
  | nil => exact hr
  | cons op ops ih =>
    unfold World.run
    simp only [List.foldl]
    apply ih
    cases h : W.applyOp C op.1 true op.2 with
    | none => simpa using hr
    | some W' => simpa using applyOp_reachable C W W' op.1 true op.2 hr h

end Tmv.Chain
