import Tmv.Model.Cons
/-! Vote-set lemmas: a +2/3 majority, once recorded, never changes ("first maj23 wins"). -/
namespace Tmv.Cons

theorem alookup_append {α β} [DecidableEq α] (l : List (α × β)) (k k' : α) (v : β) :
    alookup (l ++ [(k, v)]) k' = match alookup l k' with
      | some x => some x
      | none => if k' = k then some v else none := by
  unfold alookup
  induction l with
  | nil => simp [List.find?]; split <;> simp_all [eq_comm]
  | cons p l ih =>
    simp only [List.cons_append, List.find?]
    by_cases hp : p.1 = k'
    · simp [hp]
    · simp [hp]; simpa using ih

theorem alookup_map_set {α β} [DecidableEq α] (l : List (α × β)) (k k' : α) (v : β) :
    alookup (l.map (fun p => if p.1 = k then (k, v) else p)) k' =
      if k' = k then (alookup l k').map (fun _ => v) else alookup l k' := by
  unfold alookup
  induction l with
  | nil => simp
  | cons p l ih =>
    simp only [List.map, List.find?]
    by_cases hpk : p.1 = k
    · by_cases hk : k' = k
      · subst hk; simp [hpk]
      · have h1 : ¬ k = k' := fun h => hk h.symm
        have h2 : ¬ p.1 = k' := by rw [hpk]; exact h1
        simp only [hpk, if_true, h1, h2, decide_false, hk, if_false] at ih ⊢
        exact ih
    · by_cases hp : p.1 = k'
      · have hk : ¬ k' = k := by rw [← hp]; exact hpk
        simp [hpk, hp, hk]
      · simp only [hpk, if_false, hp, decide_false] at ih ⊢
        exact ih

theorem alookup_any {α β} [DecidableEq α] (l : List (α × β)) (k : α) :
    (l.any fun p => p.1 = k) = (alookup l k).isSome := by
  unfold alookup
  induction l with
  | nil => simp
  | cons p l ih =>
    by_cases hp : p.1 = k
    · simp [List.find?, hp]
    · simp [List.find?, hp]
      simpa using ih

/-- `aset` then `alookup` -/
theorem alookup_aset {α β} [DecidableEq α] (l : List (α × β)) (k k' : α) (v : β) :
    alookup (aset l k v) k' = if k' = k then some v else alookup l k' := by
  unfold aset
  split
  · rename_i h
    rw [alookup_map_set]
    rw [alookup_any] at h
    by_cases hk : k' = k
    · subst hk
      simp
      cases hl : alookup l k' <;> simp_all
    · simp [hk]
  · rename_i h
    rw [alookup_any] at h
    rw [alookup_append]
    by_cases hk : k' = k
    · subst hk
      cases hl : alookup l k' <;> simp_all
    · cases hl : alookup l k' <;> simp [hk]

/-! ### VoteSet -/

theorem VoteSet.finish_maj23 (c : Cfg) (vs : VoteSet) (idx : Nat) (key : Bid) (bv : BlockVotes) (x : Bid)
    (h : vs.maj23 = some x) : (VoteSet.finish c vs idx key bv).1.maj23 = some x := by
  unfold VoteSet.finish
  simp only []
  split
  · split
    · simp_all
    · exact h
  · exact h

theorem VoteSet.addVote_maj23 (c : Cfg) (vs : VoteSet) (v : Vote) (x : Bid)
    (h : vs.maj23 = some x) : (vs.addVote c v).1.maj23 = some x := by
  unfold VoteSet.addVote
  split
  · exact h
  · split
    · exact h
    · split
      · exact h
      · split
        · exact h
        · unfold VoteSet.addVerified
          simp only []
          have h1 : (vs.recordVote c v.val v.bid).maj23 = some x := by
            unfold VoteSet.recordVote; repeat' split
            all_goals exact h
          repeat' split
          all_goals first | exact h1 | exact VoteSet.finish_maj23 _ _ _ _ _ _ h1

theorem VoteSet.setPeerMaj23_maj23 (vs : VoteSet) (peer : Peer) (key : Bid) :
    (vs.setPeerMaj23 peer key).maj23 = vs.maj23 := by
  unfold VoteSet.setPeerMaj23
  simp only []
  repeat' split
  all_goals rfl

/-! ### HeightVoteSet -/

/-- every recorded prevote majority of `h` is still recorded in `h'` -/
def Stable (h h' : HVS) : Prop :=
  ∀ (r : Int) (x : Bid), maj23Of (h.prevotes r) = some x → maj23Of (h'.prevotes r) = some x

theorem Stable.refl (h : HVS) : Stable h h := fun _ _ hx => hx
theorem Stable.trans {a b c : HVS} (h₁ : Stable a b) (h₂ : Stable b c) : Stable a c :=
  fun r x hx => h₂ r x (h₁ r x hx)

theorem Stable.congr_sets {a b b' : HVS} (h : Stable a b) (e : b'.sets = b.sets) : Stable a b' := by
  intro r x hx
  have := h r x hx
  unfold HVS.prevotes HVS.getVoteSet HVS.getRound at this ⊢
  rw [e]; exact this

theorem HVS.prevotes_def (h : HVS) (r : Int) : h.prevotes r = (alookup h.sets r).map (·.prevotes) := by
  unfold HVS.prevotes HVS.getVoteSet HVS.getRound; rfl

theorem HVS.addRound_stable (h : HVS) (r : Int) (hr : h.getRound r = none) : Stable h (h.addRound r) := by
  intro r' x hx
  rw [HVS.prevotes_def] at hx ⊢
  unfold HVS.addRound
  simp only []
  rw [alookup_append]
  cases hl : alookup h.sets r' with
  | some y => simpa [hl] using hx
  | none => simp [hl, maj23Of] at hx

theorem HVS.putVoteSet_stable (h : HVS) (r : Int) (t : VType) (vs : VoteSet)
    (hvs : ∀ old x, h.getVoteSet r t = some old → old.maj23 = some x → vs.maj23 = some x) :
    Stable h (h.putVoteSet r t vs) := by
  intro r' x hx
  unfold HVS.putVoteSet
  cases hg : h.getRound r with
  | none => simpa [hg] using hx
  | some rvs =>
    simp only [hg]
    rw [HVS.prevotes_def] at hx ⊢
    simp only []
    rw [alookup_aset]
    by_cases hr : r' = r
    · subst hr
      have hl : alookup h.sets r' = some rvs := hg
      rw [hl] at hx
      simp only [if_true, Option.map]
      cases t with
      | prevote =>
        simp only [maj23Of, Option.bind, Option.map] at hx ⊢
        apply hvs rvs.prevotes x _ hx
        unfold HVS.getVoteSet; rw [hg]; rfl
      | precommit => simpa using hx
    · simpa [hr] using hx

theorem HVS.addVote_stable (c : Cfg) (h : HVS) (v : Vote) (peer : Peer) : Stable h (h.addVote c v peer).1 := by
  unfold HVS.addVote
  simp only []
  split
  · rename_i vs hg
    apply HVS.putVoteSet_stable
    intro old x ho hx
    rw [hg] at ho; cases ho
    exact VoteSet.addVote_maj23 c _ v x hx
  · rename_i hg
    split
    · have hnone : h.getRound (v.round : Int) = none := by
        unfold HVS.getVoteSet at hg
        cases hgr : h.getRound (v.round : Int) with
        | none => rfl
        | some y => simp [hgr] at hg
      simp only []
      refine Stable.trans (HVS.addRound_stable h _ hnone) ?_
      refine Stable.trans ((Stable.refl _).congr_sets (b' := { (h.addRound (v.round : Int)) with
        catchup := aset (h.addRound (v.round : Int)).catchup peer ((alookup h.catchup peer).getD [] ++ [(v.round : Int)]) }) rfl) ?_
      apply HVS.putVoteSet_stable
      intro old x ho hx
      -- the freshly added round has empty vote sets
      exfalso
      unfold HVS.getVoteSet HVS.getRound HVS.addRound at ho
      simp only [] at ho
      rw [alookup_append] at ho
      unfold HVS.getRound at hnone
      simp [hnone] at ho
      cases hvt : v.typ <;> simp [hvt] at ho <;> (subst ho; simp [VoteSet.empty] at hx)
    · exact Stable.refl h

theorem HVS.setPeerMaj23_stable (h : HVS) (r : Nat) (t : VType) (peer : Peer) (key : Bid) :
    Stable h (h.setPeerMaj23 r t peer key) := by
  unfold HVS.setPeerMaj23
  split
  · rename_i vs hg
    apply HVS.putVoteSet_stable
    intro old x ho hx
    rw [hg] at ho; cases ho
    rw [VoteSet.setPeerMaj23_maj23]; exact hx
  · exact Stable.refl h

theorem HVS.foldl_addRound_stable (rs : List Int) (h : HVS) :
    Stable h (rs.foldl (fun h r => if (h.getRound r).isSome then h else h.addRound r) h) := by
  induction rs generalizing h with
  | nil => exact Stable.refl h
  | cons a rs ih =>
    simp only [List.foldl]
    refine Stable.trans ?_ (ih _)
    split
    · exact Stable.refl h
    · rename_i hn
      apply HVS.addRound_stable
      cases hg : h.getRound a with
      | none => rfl
      | some y => simp [hg] at hn

theorem HVS.setRound_stable (h h' : HVS) (round : Int) (hs : h.setRound round = some h') : Stable h h' := by
  unfold HVS.setRound at hs
  simp only [] at hs
  split at hs
  · cases hs
  · cases hs
    exact (HVS.foldl_addRound_stable _ h).congr_sets rfl

end Tmv.Cons
