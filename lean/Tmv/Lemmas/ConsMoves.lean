import Tmv.Lemmas.ConsDelivered
/-! Relational form of the lock discipline: across any function of the node model (and across `step`)
the triple (Round, LockedRound, LockedBlock) only moves by: advancing the round; locking block `b` in
the current round on a recorded +2/3 prevote majority for `b` in that round; unlocking on a recorded
+2/3 prevote majority for something else in a round of `(LockedRound, Round]`. -/
namespace Tmv.Cons

abbrev LockTriple := Nat × Int × Option Nat

/-- the moves of (Round, LockedRound, LockedBlock); majorities are read off the vote sets `v` -/
inductive LockMoves (v : HVS) : LockTriple → LockTriple → Prop
  | refl (a : LockTriple) : LockMoves v a a
  | advance {r r' : Nat} {lr : Int} {lb : Option Nat} : r ≤ r' → LockMoves v (r, lr, lb) (r', lr, lb)
  | lock {r : Nat} {lr : Int} {lb : Option Nat} {b : Nat} :
      maj23Of (v.prevotes (r : Int)) = some (some b) → LockMoves v (r, lr, lb) (r, (r : Int), some b)
  | unlock {r : Nat} {lr : Int} {lb : Option Nat} {r'' : Nat} {y : Bid} :
      lr < (r'' : Int) → r'' ≤ r → maj23Of (v.prevotes (r'' : Int)) = some y → (∀ b, lb = some b → y ≠ some b) →
      LockMoves v (r, lr, lb) (r, -1, none)
  | trans {a b c : LockTriple} : LockMoves v a b → LockMoves v b c → LockMoves v a c

theorem LockMoves.stable {v v' : HVS} (hs : Stable v v') {a b : LockTriple} (h : LockMoves v a b) : LockMoves v' a b := by
  induction h with
  | refl a => exact .refl a
  | advance h => exact .advance h
  | lock h => exact .lock (hs _ _ h)
  | unlock h1 h2 h3 h4 => exact .unlock h1 h2 (hs _ _ h3) h4
  | trans _ _ ih1 ih2 => exact .trans ih1 ih2

/-- state `a` evolves into a state with these (round, lock, votes) by lock moves; majorities persist -/
def RelP (a : NodeState) (r : Nat) (lr : Int) (lb : Option Nat) (v : HVS) : Prop :=
  Stable a.votes v ∧ LockMoves v (a.round, a.lockedRound, a.lockedBlock) (r, lr, lb)

abbrev Rel (a t : NodeState) : Prop := RelP a t.round t.lockedRound t.lockedBlock t.votes

theorem Rel.refl (s : NodeState) : Rel s s := ⟨Stable.refl _, .refl _⟩

theorem Rel.step {a t u : NodeState} (h1 : Rel a t) (h2 : Rel t u) : Rel a u :=
  ⟨h1.1.trans h2.1, .trans (h1.2.stable h2.1) h2.2⟩

theorem RelP.advance {a r r' lr lb v} (h : RelP a r lr lb v) (hr : r ≤ r') : RelP a r' lr lb v :=
  ⟨h.1, .trans h.2 (.advance hr)⟩

theorem RelP.stable {a r lr lb v v'} (h : RelP a r lr lb v) (hs : Stable v v') : RelP a r lr lb v' :=
  ⟨h.1.trans hs, h.2.stable hs⟩

theorem RelP.lock {a r lr lb v} (h : RelP a r lr lb v) {b : Nat} (hm : maj23Of (v.prevotes (r : Int)) = some (some b)) :
    RelP a r (r : Int) (some b) v := ⟨h.1, .trans h.2 (.lock hm)⟩

theorem RelP.unlock {a r lr lb v} (h : RelP a r lr lb v) {r'' : Nat} {y : Bid} (h1 : lr < (r'' : Int)) (h2 : r'' ≤ r)
    (h3 : maj23Of (v.prevotes (r'' : Int)) = some y) (h4 : ∀ b, lb = some b → y ≠ some b) :
    RelP a r (-1) none v := ⟨h.1, .trans h.2 (.unlock h1 h2 h3 h4)⟩

attribute [local irreducible] emit panicWith sign signAddVote decideProposal doPrevote enterPrevote enterPropose
  enterNewRound newRoundReset enterPrevoteWait unlock enterPrecommit enterPrecommitWait finalizeCommit tryFinalizeCommit
  enterCommit setProposal handleCompleteProposal addBlockPart addVote onPolka prevoteTransitions afterPrevote
  afterPrecommit handleInternal handleTimeout
  handleTxsAvailable handleInput drain step run HVS.addVote HVS.setRound HVS.setPeerMaj23 HVS.polRound
  isProposalComplete maj23Of hasAnyOf hashesTo hasHeader

variable {c : Cfg}

syntax "rinv_step" : tactic
macro_rules | `(tactic| rinv_step) => `(tactic| ainv_step)
macro_rules | `(tactic| rinv_step) => `(tactic| assumption)
macro_rules | `(tactic| rinv_step) => `(tactic| exact Rel.refl _)
macro "rinv" : tactic => `(tactic| repeat' (first | rinv_step | (dsimp only; rinv_step)))

theorem emit_rel (s : NodeState) (o : Output) : Rel s (emit s o) := by
  show RelP _ _ _ _ _
  rw [emit_round, emit_lockedRound, emit_lockedBlock, emit_votes]; exact Rel.refl s
theorem panicWith_rel (s : NodeState) (w : String) : Rel s (panicWith s w) := by
  show RelP _ _ _ _ _
  rw [panicWith_round, panicWith_lockedRound, panicWith_lockedBlock, panicWith_votes]; exact Rel.refl s
theorem signAddVote_rel (s : NodeState) (t : VType) (b : Bid) : Rel s (signAddVote c s t b) := by
  show RelP _ _ _ _ _
  rw [signAddVote_round, signAddVote_lockedRound, signAddVote_lockedBlock, signAddVote_votes]; exact Rel.refl s
theorem decideProposal_rel (s : NodeState) (r me : Nat) : Rel s (decideProposal c s r me) := by
  show RelP _ _ _ _ _
  rw [decideProposal_round, decideProposal_lockedRound, decideProposal_lockedBlock, decideProposal_votes]; exact Rel.refl s
theorem doPrevote_rel (s : NodeState) : Rel s (doPrevote c s) := by
  show RelP _ _ _ _ _
  rw [doPrevote_round, doPrevote_lockedRound, doPrevote_lockedBlock, doPrevote_votes]; exact Rel.refl s

macro_rules | `(tactic| rinv_step) => `(tactic| refine Rel.step ?_ (emit_rel _ _))
macro_rules | `(tactic| rinv_step) => `(tactic| refine Rel.step ?_ (panicWith_rel _ _))
macro_rules | `(tactic| rinv_step) => `(tactic| refine Rel.step ?_ (signAddVote_rel _ _ _))
macro_rules | `(tactic| rinv_step) => `(tactic| refine Rel.step ?_ (decideProposal_rel _ _ _))
macro_rules | `(tactic| rinv_step) => `(tactic| refine Rel.step ?_ (doPrevote_rel _))

/-- continuation form: `Rel a s → Rel a (enterPrevote c s r)` etc. -/
theorem enterPrevote_rel {a s : NodeState} (r : Nat) (h : Rel a s) : Rel a (enterPrevote c s r) := by
  unfold enterPrevote
  repeat' split
  all_goals first | exact h | skip
  rename_i hg
  have h1 : Rel a (doPrevote c s) := Rel.step h (doPrevote_rel s)
  show RelP _ _ _ _ _
  dsimp only
  refine RelP.advance h1 ?_
  rw [doPrevote_round]; omega
macro_rules | `(tactic| rinv_step) => `(tactic| apply enterPrevote_rel)

theorem enterPropose_rel {a s : NodeState} (r : Nat) (h : Rel a s) : Rel a (enterPropose c s r) := by
  unfold enterPropose
  split
  · exact h
  · split
    · exact h
    · rename_i hg
      simp only []
      have key : ∀ t : NodeState, Rel a t → t.round = s.round → Rel a { t with round := r, step := .propose } := by
        intro t ht hr
        show RelP _ _ _ _ _
        dsimp only
        exact RelP.advance ht (by omega)
      repeat' split
      all_goals (try apply enterPrevote_rel)
      all_goals apply key
      all_goals first | (rinv; done) | (simp; done)
macro_rules | `(tactic| rinv_step) => `(tactic| apply enterPropose_rel)

theorem enterNewRound_rel {a s : NodeState} (r : Nat) (h : Rel a s) : Rel a (enterNewRound c s r) := by
  unfold enterNewRound
  split
  · exact h
  · split
    · exact h
    · rename_i hg
      simp only []
      have hf := newRoundReset_fields s r
      have h' : Rel a (newRoundReset s r) := by
        show RelP _ _ _ _ _
        rw [hf.2.2.1, hf.2.2.2.1, hf.2.2.2.2.1, hf.2.1]
        exact RelP.advance h (by omega)
      split
      · rinv
      · rename_i hv hsr
        have h2 : RelP a (newRoundReset s r).round (newRoundReset s r).lockedRound (newRoundReset s r).lockedBlock hv :=
          RelP.stable h' (HVS.setRound_stable _ _ _ hsr)
        repeat' split
        all_goals rinv
macro_rules | `(tactic| rinv_step) => `(tactic| apply enterNewRound_rel)

theorem enterPrevoteWait_rel {a s : NodeState} (r : Nat) (h : Rel a s) : Rel a (enterPrevoteWait c s r) := by
  unfold enterPrevoteWait
  repeat' split
  all_goals first | exact h | (rinv; done) | skip
  rename_i hg _
  show RelP _ _ _ _ _
  dsimp only
  have h1 : Rel a (emit s (.schedule r .prevoteWait)) := Rel.step h (emit_rel _ _)
  refine RelP.advance h1 ?_
  rw [emit_round]; omega
macro_rules | `(tactic| rinv_step) => `(tactic| apply enterPrevoteWait_rel)

theorem unlock_rel {a s : NodeState} (vr : Nat) (bid : Bid) (hm : maj23Of (s.votes.prevotes (vr : Int)) = some bid)
    (h1 : s.lockedRound < (vr : Int)) (h2 : vr ≤ s.round) (h3 : ∀ b, s.lockedBlock = some b → bid ≠ some b)
    (h : Rel a s) : Rel a (unlock s) := by
  show RelP _ _ _ _ _
  rw [unlock_round, unlock_lockedRound, unlock_lockedBlock, unlock_votes]
  exact RelP.unlock h h1 h2 hm h3

theorem onPolka_rel {a s : NodeState} (vr : Nat) (bid : Bid) (hm : maj23Of (s.votes.prevotes (vr : Int)) = some bid)
    (h : Rel a s) : Rel a (onPolka s vr bid) := by
  unfold onPolka
  simp only []
  by_cases hc : s.lockedBlock.isSome = true ∧ s.lockedRound < (vr : Int) ∧ vr ≤ s.round ∧
      (!hashesTo s.lockedBlock bid) = true
  · have hU : Rel a (unlock s) := by
      apply unlock_rel vr bid hm hc.2.1 hc.2.2.1 _ h
      intro b hb
      have := hc.2.2.2
      rw [hb] at this
      exact hashesTo_ne (by simpa using this)
    simp only [hc, and_self, if_true]
    repeat' split
    all_goals exact hU
  · simp only [hc, if_false]
    repeat' split
    all_goals exact h

theorem enterPrecommit_rel {a s : NodeState} (round : Nat) (hle : s.halted = true ∨ round ≤ s.round) (hA : A s)
    (h : Rel a s) : Rel a (enterPrecommit c s round) := by
  unfold enterPrecommit
  split
  · exact h
  · rename_i hh
    split
    · exact h
    · rename_i hg
      have hr : round = s.round := by
        rcases hle with hle | hle
        · exact absurd hle hh
        · omega
      subst hr
      have hlt : s.lockedRound < (s.round : Int) := by
        simp [AI, Step.rank] at hA hg
        omega
      have key : ∀ (t : NodeState) (x : Bid), t.votes = s.votes →
          RelP a s.round t.lockedRound t.lockedBlock s.votes →
          Rel a { (signAddVote c t .precommit x) with round := s.round, step := .precommit } := by
        intro t x hv ht
        show RelP _ _ _ _ _
        dsimp only
        rw [signAddVote_lockedRound, signAddVote_lockedBlock, signAddVote_votes, hv]
        exact ht
      have hU : ∀ y : Bid, maj23Of (s.votes.prevotes (s.round : Int)) = some y → (∀ b, s.lockedBlock = some b → y ≠ some b) →
          RelP a s.round (-1) none s.votes := fun y hm hy => RelP.unlock h hlt (Nat.le_refl _) hm hy
      simp only []
      split
      · exact key s none rfl h
      · rename_i bid hm
        split
        · rinv
        · split
          · -- +2/3 prevoted nil
            split
            · exact key s none rfl h
            · apply key (unlock s) none (by simp)
              rw [unlock_lockedRound, unlock_lockedBlock]
              exact hU none hm (fun b _ => by simp)
          · rename_i b
            split
            · rename_i hl
              apply key { s with lockedRound := (s.round : Int) } (some b) rfl
              dsimp only
              rw [hashesTo_some hl]
              exact RelP.lock h hm
            · rename_i hl
              split
              · rename_i hp
                split
                · rinv
                · apply key { s with lockedRound := (s.round : Int), lockedBlock := s.proposalBlock } (some b) rfl
                  dsimp only
                  rw [hashesTo_some hp]
                  exact RelP.lock h hm
              · have hu : RelP a s.round (-1) none s.votes := by
                  apply hU (some b) hm
                  intro b' hb'
                  rw [hb'] at hl
                  exact hashesTo_ne hl
                split
                · apply key { (unlock s) with proposalBlock := none, proposalParts := some b, partsDone := false } none (by simp)
                  dsimp only
                  rw [unlock_lockedRound, unlock_lockedBlock]
                  exact hu
                · apply key (unlock s) none (by simp)
                  rw [unlock_lockedRound, unlock_lockedBlock]
                  exact hu
macro_rules | `(tactic| rinv_step) => `(tactic| exact Or.inr (Nat.le_refl _))
macro_rules | `(tactic| rinv_step) => `(tactic| (right; omega))
macro_rules | `(tactic| rinv_step) => `(tactic| apply enterPrecommit_rel)

theorem enterPrecommitWait_rel {a s : NodeState} (r : Nat) (h : Rel a s) : Rel a (enterPrecommitWait c s r) := by
  unfold enterPrecommitWait; (try simp only []); repeat' split
  all_goals rinv
macro_rules | `(tactic| rinv_step) => `(tactic| apply enterPrecommitWait_rel)

theorem finalizeCommit_rel {a s : NodeState} (h : Rel a s) : Rel a (finalizeCommit c s) := by
  unfold finalizeCommit; (try simp only []); repeat' split
  all_goals rinv
macro_rules | `(tactic| rinv_step) => `(tactic| apply finalizeCommit_rel)

theorem tryFinalizeCommit_rel {a s : NodeState} (h : Rel a s) : Rel a (tryFinalizeCommit c s) := by
  unfold tryFinalizeCommit; (try simp only []); repeat' split
  all_goals rinv
macro_rules | `(tactic| rinv_step) => `(tactic| apply tryFinalizeCommit_rel)

theorem enterCommit_rel {a s : NodeState} (r : Nat) (h : Rel a s) : Rel a (enterCommit c s r) := by
  unfold enterCommit; (try simp only []); repeat' split
  all_goals rinv
macro_rules | `(tactic| rinv_step) => `(tactic| apply enterCommit_rel)

theorem setProposal_rel {a s : NodeState} (p : Proposal) (h : Rel a s) : Rel a (setProposal c s p) := by
  unfold setProposal; (try simp only []); repeat' split
  all_goals rinv
macro_rules | `(tactic| rinv_step) => `(tactic| apply setProposal_rel)

theorem handleCompleteProposal_rel {a s : NodeState} (hA : A s) (h : Rel a s) : Rel a (handleCompleteProposal c s) := by
  unfold handleCompleteProposal; (try simp only []); repeat' split
  all_goals rinv
macro_rules | `(tactic| rinv_step) => `(tactic| apply handleCompleteProposal_rel)

theorem addBlockPart_rel {a s : NodeState} (b : Nat) (hA : A s) (h : Rel a s) : Rel a (addBlockPart c s b) := by
  unfold addBlockPart; (try simp only []); repeat' split
  all_goals rinv
macro_rules | `(tactic| rinv_step) => `(tactic| apply addBlockPart_rel)

theorem prevoteTransitions_rel {a s : NodeState} (vr : Nat) (hA : A s) (h : Rel a s) : Rel a (prevoteTransitions c s vr) := by
  unfold prevoteTransitions; (try simp only []); repeat' split
  all_goals rinv
macro_rules | `(tactic| rinv_step) => `(tactic| apply prevoteTransitions_rel)

theorem afterPrevote_rel {a s : NodeState} (vr : Nat) (hA : A s) (h : Rel a s) : Rel a (afterPrevote c s vr) := by
  unfold afterPrevote; simp only []
  split
  · rename_i bid hm
    exact prevoteTransitions_rel _ (onPolka_A _ _ hA) (onPolka_rel _ _ hm h)
  · exact prevoteTransitions_rel _ hA h
macro_rules | `(tactic| rinv_step) => `(tactic| apply afterPrevote_rel)

theorem afterPrecommit_rel {a s : NodeState} (vr : Nat) (hA : A s) (h : Rel a s) : Rel a (afterPrecommit c s vr) := by
  unfold afterPrecommit; simp only []; repeat' split
  all_goals first
    | (rinv; done)
    | (apply enterCommit_rel; apply enterPrecommit_rel _ (enterNewRound_reach _ _) (enterNewRound_A _ hA); rinv)
    | (apply enterPrecommitWait_rel; apply enterPrecommit_rel _ (enterNewRound_reach _ _) (enterNewRound_A _ hA); rinv)
macro_rules | `(tactic| rinv_step) => `(tactic| apply afterPrecommit_rel)

theorem addVote_rel {a s : NodeState} (v : Vote) (peer : Peer) (hA : A s) (h : Rel a s) : Rel a (addVote c s v peer) := by
  have h' : RelP a s.round s.lockedRound s.lockedBlock (s.votes.addVote c v peer).1 :=
    RelP.stable h (HVS.addVote_stable c _ v peer)
  unfold addVote; simp only []; repeat' split
  all_goals rinv

theorem handleInternal_rel {a s : NodeState} (m : Internal) (hA : A s) (h : Rel a s) : Rel a (handleInternal c s m) := by
  unfold handleInternal; repeat' split
  all_goals first | (rinv; done) | exact addVote_rel _ _ hA h

theorem handleTimeout_rel {a s : NodeState} (r : Nat) (st : Step) (hr : r ≤ s.round) (hA : A s) (h : Rel a s) :
    Rel a (handleTimeout c s r st) := by
  unfold handleTimeout; repeat' split
  all_goals rinv

theorem handleTxsAvailable_rel {a s : NodeState} (h : Rel a s) : Rel a (handleTxsAvailable c s) := by
  unfold handleTxsAvailable; repeat' split
  all_goals rinv

theorem handleInput_rel {a s : NodeState} (i : Input) (hi : i.notFuture s) (hA : A s) (h : Rel a s) :
    Rel a (handleInput c s i) := by
  unfold handleInput
  cases i with
  | timeout r st => exact handleTimeout_rel r st hi hA h
  | peerMaj23 r t peer bid =>
    show RelP _ _ _ _ _
    dsimp only
    exact RelP.stable h (HVS.setPeerMaj23_stable _ _ _ _ _)
  | proposal p => exact setProposal_rel p h
  | blockComplete b => exact addBlockPart_rel b hA h
  | vote v peer => exact addVote_rel v peer hA h
  | txsAvailable => exact handleTxsAvailable_rel h

theorem drain_rel (fuel : Nat) {a s : NodeState} (hA : A s) (h : Rel a s) : Rel a (drain c fuel s) := by
  induction fuel generalizing s with
  | zero => unfold drain; exact h
  | succ n ih =>
    unfold drain; repeat' split
    all_goals first | exact h | skip
    rename_i m rest hq
    have hA' : A { s with queue := rest } := hA
    have h' : Rel a { s with queue := rest } := h
    exact ih (handleInternal_A m hA') (handleInternal_rel m hA' h')

/-- **one input**: from a state satisfying (A) (every reachable state does) the lock triple moves only
by the lock moves -/
theorem step_rel {s : NodeState} (i : Input) (hi : i.notFuture s) (hA : A s) : Rel s (step c s i) := by
  unfold step; split
  · exact Rel.refl s
  · exact drain_rel _ (handleInput_A i hA) (handleInput_rel i hi hA (Rel.refl s))

end Tmv.Cons
