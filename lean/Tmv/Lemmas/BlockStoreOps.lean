import Tmv.Lemmas.BlockStorePrune
/-! Helper lemmas about `saveBlock` / `pruneBlocks` / `auditFrom` used by Props/C18. -/
namespace Tmv.BlockStore

/-- what consensus guarantees about the arguments of `SaveBlock` (the store checks none of it):
positive height, at least one part, the seen commit is for this block, the block's `LastCommit` is
for the stored previous block, and the block's hash is not the hash of a stored block (implied by
collision-freedom, since the height is hashed). -/
structure ValidNext (db : DB) (b : Block) (sc : Commit) : Prop where
  pos : 0 < b.height
  parts : 0 < b.total
  seen : sc = { height := b.height, blockHash := b.hash }
  last : ∀ m, 0 < (loadRange db).2 → loadMeta db (loadRange db).2 = some m →
    b.lastCommit = { height := (loadRange db).2, blockHash := m.hash }
  fresh : ∀ h m, (loadRange db).1 ≤ h → h ≤ (loadRange db).2 → loadMeta db h = some m → m.hash ≠ b.hash


/-- the writes of `SaveBlock` before the range descriptor -/
def savePre (b : Block) (sc : Commit) : List Write :=
  (List.range b.total).map (fun i => Write.set (.part b.height i) (.part b i)) ++
    [.set (.bmeta b.height) (.bmeta { height := b.height, hash := b.hash, total := b.total }),
     .set (.hashIdx b.hash) (.height b.height),
     .set (.commit (b.height - 1)) (.commit b.lastCommit),
     .set (.seen b.height) (.commit sc)]

theorem saveBlock_units (s s' : Store) (b : Block) (sc : Commit) (units : List (List Write))
    (hs : saveBlock s b true sc = .ok (s', units)) :
    ¬ (s.base > 0 ∧ b.height ≠ s.height + 1) ∧
    s' = { height := b.height, base := if s.base = 0 then b.height else s.base } ∧
    units.flatten = savePre b sc ++ [.set .bsState (.range s'.base s'.height)] := by
  unfold saveBlock at hs
  split at hs
  · cases hs
  · rename_i hg
    simp only [Bool.not_true, Bool.false_eq_true, if_false] at hs
    injection hs with hs
    injection hs with h1 h2
    refine ⟨hg, h1.symm, ?_⟩
    subst h1; subst h2
    simp [savePre, flatten_map_singleton]

theorem get_savePre_other (db : DB) (b : Block) (sc : Commit) (k : Key)
    (h1 : ∀ i, k ≠ .part b.height i) (h2 : k ≠ .bmeta b.height) (h3 : k ≠ .hashIdx b.hash)
    (h4 : k ≠ .commit (b.height - 1)) (h5 : k ≠ .seen b.height) :
    get (applyAll db (savePre b sc)) k = get db k := by
  apply get_applyAll_of_not_mem
  intro w hw
  simp only [savePre, List.mem_append, List.mem_map, List.mem_range, List.mem_cons, List.mem_nil_iff,
    or_false] at hw
  rcases hw with ⟨i, _, rfl⟩ | rfl | rfl | rfl | rfl
  · exact fun e => h1 i e.symm
  · exact fun e => h2 e.symm
  · exact fun e => h3 e.symm
  · exact fun e => h4 e.symm
  · exact fun e => h5 e.symm

theorem savePre_unused (db : DB) (b : Block) (sc : Commit) (B H : Int)
    (hn : b.height = H + 1)
    (fresh : ∀ h m, B ≤ h → h ≤ H → loadMeta db h = some m → m.hash ≠ b.hash) :
    ∀ w ∈ savePre b sc, Unused db B H w := by
  intro w hw
  simp only [savePre, List.mem_append, List.mem_map, List.mem_range, List.mem_cons, List.mem_nil_iff,
    or_false] at hw
  rcases hw with ⟨i, _, rfl⟩ | rfl | rfl | rfl | rfl
  all_goals
    refine ⟨by simp [Write.key], ?_⟩
    intro h hB hH
    simp only [Write.key, usedAt]
    rintro (h1 | ⟨i', h1⟩ | ⟨hlt, h1⟩ | ⟨hge, h1⟩ | ⟨m, hm, h1⟩) <;>
      first
        | (injection h1 with h1; exact fresh h m hB hH hm h1.symm)
        | (injection h1; omega)
        | cases h1

/-- the stored state after the writes before the descriptor -/
theorem savePre_gets (db : DB) (b : Block) (sc : Commit) :
    let db1 := applyAll db (savePre b sc)
    (∀ i, i < b.total → get db1 (.part b.height i) = some (.part b i)) ∧
    get db1 (.bmeta b.height) = some (.bmeta { height := b.height, hash := b.hash, total := b.total }) ∧
    get db1 (.hashIdx b.hash) = some (.height b.height) ∧
    get db1 (.commit (b.height - 1)) = some (.commit b.lastCommit) ∧
    get db1 (.seen b.height) = some (.commit sc) := by
  simp only [savePre, applyAll_append, applyAll_cons, applyAll_nil, get_set]
  refine ⟨?_, by simp, by simp, by simp, by simp⟩
  intro i hi
  simp [get_partsWrites db b.height b b.total i hi]

/-- what `PruneBlocks` checks before touching anything, and the trace it then issues -/
theorem pruneBlocks_units (s s' : Store) (db : DB) (retain : Int) (n : Nat)
    (units : List (List Write)) (hp : pruneBlocks s db retain = .ok (s', n, units)) :
    0 < retain ∧ retain ≤ s.height ∧ s.base ≤ retain ∧ s' = { s with base := retain } ∧
    n = (pruneLoop s.height retain (retain - s.base).toNat s.base db [] 0).1 ∧
    units = (pruneLoop s.height retain (retain - s.base).toNat s.base db [] 0).2 := by
  unfold pruneBlocks at hp
  split at hp
  · cases hp
  · split at hp
    · cases hp
    · split at hp
      · cases hp
      · injection hp with hp
        injection hp with h1 h2
        injection h2 with h2 h3
        exact ⟨by omega, by omega, by omega, h1.symm, h2.symm, h3.symm⟩

theorem prune_setup (db : DB) (retain : Int) (s' : Store) (n : Nat) (units : List (List Write))
    (hG : Good db) (hp : pruneBlocks (openStore db) db retain = .ok (s', n, units)) :
    ∃ B H, loadRange db = (B, H) ∧ 0 < B ∧ B ≤ retain ∧ retain ≤ H ∧ GoodFrom db B H ∧
      s' = { base := retain, height := H } ∧
      n = (pruneLoop H retain (retain - B).toNat B db [] 0).1 ∧
      units = (pruneLoop H retain (retain - B).toNat B db [] 0).2 := by
  obtain ⟨h1, h2, h3, h4, h5, h6⟩ := pruneBlocks_units _ _ _ _ _ _ hp
  simp only [openStore] at h2 h3 h4 h5 h6
  rw [good_iff] at hG
  rcases hG with ⟨_, hH0⟩ | ⟨hB, hBH, hGF⟩
  · omega
  · exact ⟨(loadRange db).1, (loadRange db).2, rfl, hB, h3, h2, hGF, h4, h5, h6⟩

theorem auditFrom_none_iff (db : DB) (H : Int) (fuel : Nat) (h : Int) :
    auditFrom db H fuel h = none ↔ ∀ a, h ≤ a → a < h + fuel → checkAt db H a = none := by
  induction fuel generalizing h with
  | zero =>
    simp only [auditFrom, true_iff]
    intro a h1 h2; omega
  | succ fuel ih =>
    unfold auditFrom
    cases hc : checkAt db H h with
    | some f =>
      simp only [false_iff, reduceCtorEq]
      intro hall
      have := hall h (Int.le_refl _) (by omega)
      rw [hc] at this; cases this
    | none =>
      simp only [ih]
      constructor
      · intro hall a h1 h2
        by_cases e : a = h
        · subst e; exact hc
        · exact hall a (by omega) (by omega)
      · intro hall a h1 h2
        exact hall a (by omega) (by omega)


/-- during `SaveBlock` the persisted range is the old one until the last write -/
theorem save_prefix_range (db : DB) (s s' : Store) (b : Block) (sc : Commit) (units : List (List Write))
    (hs : saveBlock s b true sc = .ok (s', units)) (k : Nat) :
    loadRange (applyAll db (units.flatten.take k)) = loadRange db ∨
    applyAll db (units.flatten.take k) = applyAll db units.flatten := by
  obtain ⟨_, _, hu⟩ := saveBlock_units _ _ _ _ _ hs
  rw [hu]
  by_cases hk : k ≤ (savePre b sc).length
  · left
    rw [List.take_append_of_le_length hk]
    apply loadRange_applyAll_of_not_mem
    intro w hw
    have hw := List.mem_of_mem_take hw
    simp only [savePre, List.mem_append, List.mem_map, List.mem_range, List.mem_cons, List.mem_nil_iff,
      or_false] at hw
    rcases hw with ⟨i, _, rfl⟩ | rfl | rfl | rfl | rfl <;> simp [Write.key]
  · right
    rw [List.take_of_length_le (by simp; omega)]

/-- the shapes of the writes of `PruneBlocks`: deletes of non-descriptor keys, and descriptor
writes that only move the base, within `[lo, retain]` -/
def PShape (H lo retain : Int) (w : Write) : Prop :=
  (∃ k, k ≠ Key.bsState ∧ (∀ a, retain ≤ a → k ≠ .bmeta a) ∧ w = .del k) ∨
  (∃ b', lo ≤ b' ∧ b' ≤ retain ∧ w = .set .bsState (.range b' H))

theorem pruneLoop_pshape (H retain : Int) :
    ∀ (fuel : Nat) (h : Int) (db : DB) (batch : List Write) (pruned : Nat),
      h + fuel = retain → (∀ w ∈ batch, ∃ k, k ≠ Key.bsState ∧ (∀ a, retain ≤ a → k ≠ .bmeta a) ∧ w = .del k) →
      ∀ w ∈ (pruneLoop H retain fuel h db batch pruned).2.flatten, PShape H h retain w := by
  intro fuel
  induction fuel with
  | zero =>
    intro h db batch pruned hf hb w hw
    rw [pruneLoop_zero] at hw
    simp only [List.flatten_cons, List.flatten_nil, List.append_nil, List.mem_append, List.mem_cons,
      List.mem_nil_iff, or_false] at hw
    rcases hw with rfl | hw
    · exact Or.inr ⟨retain, by omega, Int.le_refl _, rfl⟩
    · exact Or.inl (hb w hw)
  | succ fuel ih =>
    intro h db batch pruned hf hb
    have weaken : ∀ w, PShape H (h + 1) retain w → PShape H h retain w := by
      rintro w (e | ⟨b', h1, h2, e⟩)
      · exact Or.inl e
      · exact Or.inr ⟨b', by omega, h2, e⟩
    have hf' : h + 1 + (fuel : Int) = retain := by omega
    cases hm : loadMeta db h with
    | none =>
      have : pruneLoop H retain (fuel + 1) h db batch pruned = pruneLoop H retain fuel (h + 1) db batch pruned := by
        simp only [pruneLoop, hm]
      rw [this]
      exact fun w hw => weaken w (ih (h + 1) db batch pruned hf' hb w hw)
    | some m =>
      have hb' : ∀ w ∈ batch ++ deletesFor h m, ∃ k, k ≠ Key.bsState ∧ (∀ a, retain ≤ a → k ≠ .bmeta a) ∧ w = .del k := by
        intro w hw
        rcases List.mem_append.1 hw with e | e
        · exact hb w e
        · rw [mem_deletesFor] at e
          rcases e with rfl | rfl | rfl | rfl | ⟨p, _, rfl⟩
          · exact ⟨.bmeta h, (by simp), (fun a ha e => by injection e; omega), rfl⟩
          · exact ⟨.hashIdx m.hash, (by simp), (fun a _ e => by cases e), rfl⟩
          · exact ⟨.commit h, (by simp), (fun a _ e => by cases e), rfl⟩
          · exact ⟨.seen h, (by simp), (fun a _ e => by cases e), rfl⟩
          · exact ⟨.part h p, (by simp), (fun a _ e => by cases e), rfl⟩
      by_cases hfl : (pruned + 1) % batchSize = 0
      · rw [pruneLoop_succ_flush H retain h fuel db batch pruned m hm hfl]
        intro w hw
        simp only [List.flatten_cons, List.mem_append, List.mem_cons, List.mem_nil_iff, or_false] at hw
        rcases hw with rfl | hw | hw
        · exact Or.inr ⟨h + 1, by omega, by omega, rfl⟩
        · exact Or.inl (hb' w (List.mem_append.2 hw))
        · exact weaken w (ih (h + 1) _ [] (pruned + 1) hf' (fun w hw => by cases hw) w hw)
      · rw [pruneLoop_succ_keep H retain h fuel db batch pruned m hm hfl]
        exact fun w hw => weaken w (ih (h + 1) db _ (pruned + 1) hf' hb' w hw)

/-- any prefix of writes of those shapes leaves the height alone and the base within bounds -/
theorem pshape_prefix_range (H lo retain B : Int) (hB : 0 < B) (hBlo : B ≤ lo) :
    ∀ (ws : List Write) (db : DB), (∀ w ∈ ws, PShape H lo retain w) →
      (∃ b', loadRange db = (b', H) ∧ B ≤ b' ∧ b' ≤ retain) →
      ∃ b', loadRange (applyAll db ws) = (b', H) ∧ B ≤ b' ∧ b' ≤ retain := by
  intro ws
  induction ws with
  | nil => intro db _ h; exact h
  | cons w ws ih =>
    intro db hws h
    rw [applyAll_cons]
    apply ih _ (fun w' hw' => hws w' (List.mem_cons_of_mem _ hw'))
    rcases hws w List.mem_cons_self with ⟨k, hk, _, rfl⟩ | ⟨b', h1, h2, rfl⟩
    · rw [loadRange_apply_of_ne _ _ (by simpa [Write.key] using hk)]; exact h
    · exact ⟨b', loadRange_set _ _ _ (by omega), by omega, h2⟩

theorem save_crash_core (db : DB) (b : Block) (sc : Commit) (s' : Store)
    (units : List (List Write)) (hG : Good db) (hv : ValidNext db b sc)
    (hs : saveBlock (openStore db) b true sc = .ok (s', units)) :
    AllPrefixGood db units.flatten ∧ (∀ k, Good (afterUnits db units k)) ∧
    loadRange (applyAll db units.flatten) =
      ((if (loadRange db).1 = 0 then b.height else (loadRange db).1), b.height) ∧
    s' = openStore (applyAll db units.flatten) := by
  obtain ⟨hguard, hs', hunits⟩ := saveBlock_units _ _ _ _ _ hs
  simp only [openStore] at hguard hs'
  obtain ⟨B, hB⟩ : ∃ B, (loadRange db).1 = B := ⟨_, rfl⟩
  obtain ⟨H, hH⟩ : ∃ H, (loadRange db).2 = H := ⟨_, rfl⟩
  rw [hB, hH] at hguard
  simp only [hB] at hs'
  simp only [hB]
  have hpos := hv.pos
  -- the new base and the descriptor write
  have hbase' : s'.base = (if B = 0 then b.height else B) := by rw [hs']
  have hheight' : s'.height = b.height := by rw [hs']
  rw [hunits, hbase', hheight']
  have hGood := (good_iff db).1 hG
  rw [hB, hH] at hGood
  -- the database before the descriptor write
  have hr1 : loadRange (applyAll db (savePre b sc)) = loadRange db := by
    apply loadRange_applyAll_of_not_mem
    intro w hw
    simp only [savePre, List.mem_append, List.mem_map, List.mem_range, List.mem_cons, List.mem_nil_iff,
      or_false] at hw
    rcases hw with ⟨i, _, rfl⟩ | rfl | rfl | rfl | rfl <;> simp [Write.key]
  obtain ⟨gparts, gmeta, gidx, gcommit, gseen⟩ := savePre_gets db b sc
  -- the new tip passes the audit in the final database
  have hfinalTip : ∀ B', checkAt (apply (applyAll db (savePre b sc)) (.set .bsState (.range B' b.height)))
      b.height b.height = none := by
    intro B'
    rw [checkAt_none_iff]
    refine ⟨{ height := b.height, hash := b.hash, total := b.total }, b, sc, ?_⟩
    have hg : ∀ k, k ≠ Key.bsState →
        get (apply (applyAll db (savePre b sc)) (.set .bsState (.range B' b.height))) k
          = get (applyAll db (savePre b sc)) k := fun k hk => get_apply_of_ne _ _ _ (by simpa [Write.key] using hk.symm)
    have hgm := hg (.bmeta b.height) (by simp)
    have hgp := fun i => hg (.part b.height i) (by simp)
    have hgi := hg (.hashIdx b.hash) (by simp)
    have hgs := hg (.seen b.height) (by simp)
    have hm : loadMeta (apply (applyAll db (savePre b sc)) (.set .bsState (.range B' b.height))) b.height
        = some { height := b.height, hash := b.hash, total := b.total } := by
      simp only [loadMeta, hgm, gmeta]
    refine ⟨hm, rfl, ?_, rfl, rfl, rfl, ?_, ?_, ?_, ?_⟩
    · simp only [loadBlock, hm, hgp, gparts 0 hv.parts]
      have : (List.range b.total).all (partIs (apply (applyAll db (savePre b sc))
          (.set .bsState (.range B' b.height))) b.height b) = true := by
        simp only [List.all_eq_true, List.mem_range, partIs, beq_iff_eq]
        intro i hi
        rw [hgp, gparts i hi]
      simp [this]
    · simp only [loadHeightByHash, hgi, gidx]
    · simp only [Int.lt_irrefl, if_false, loadSeen, hgs, gseen]
    · rw [hv.seen]
    · rw [hv.seen]
  rcases hGood with ⟨hB0, hH0⟩ | ⟨hBpos, hBH, hGF⟩
  · -- empty store: nothing is in range until the descriptor is written
    subst hB0; subst hH0
    have hpre : AllPrefixGood db (savePre b sc) := by
      intro k
      have hr : loadRange (applyAll db ((savePre b sc).take k)) = loadRange db := by
        apply loadRange_applyAll_of_not_mem
        intro w hw
        have hw := List.mem_of_mem_take hw
        simp only [savePre, List.mem_append, List.mem_map, List.mem_range, List.mem_cons,
          List.mem_nil_iff, or_false] at hw
        rcases hw with ⟨i, _, rfl⟩ | rfl | rfl | rfl | rfl <;> simp [Write.key]
      rw [good_iff, hr, hB, hH]; exact Or.inl ⟨rfl, rfl⟩
    have hrf : loadRange (applyAll db (savePre b sc ++ [.set .bsState (.range b.height b.height)]))
        = (b.height, b.height) := by
      rw [applyAll_append, applyAll_cons, applyAll_nil, loadRange_set _ _ _ (by omega)]
    have hfinal : Good (applyAll db (savePre b sc ++ [.set .bsState (.range b.height b.height)])) := by
      rw [good_iff, hrf]
      refine Or.inr ⟨hpos, Int.le_refl _, ?_⟩
      intro h h1 h2
      have : h = b.height := by simp only at h1 h2; omega
      subst this
      rw [applyAll_append, applyAll_cons, applyAll_nil]
      exact hfinalTip _
    have hall : AllPrefixGood db (savePre b sc ++ [.set .bsState (.range b.height b.height)]) := by
      apply allPrefixGood_append _ _ _ hpre
      intro k
      cases k with
      | zero => simpa [applyAll_nil] using allPrefixGood_last _ _ hpre
      | succ k =>
        simp only [List.take_succ_cons, List.take_nil, ← applyAll_append]
        exact hfinal
    simp only [if_true]
    refine ⟨hall, good_afterUnits db units (hunits ▸ ?_), hrf, ?_⟩
    · rw [hbase', hheight']; simpa using hall
    · rw [hs']; simp [openStore, hrf]
  · -- non-empty store: the block is the next height
    have hn : b.height = H + 1 := by
      by_cases h : b.height = H + 1
      · exact h
      · exact absurd ⟨hBpos, h⟩ hguard
    have hBne : B ≠ 0 := by omega
    simp only [hBne, if_false]
    have hun : ∀ w ∈ savePre b sc, Unused db (loadRange db).1 (loadRange db).2 w := by
      rw [hB, hH]
      exact savePre_unused db b sc B H hn (fun h m h1 h2 hm => hv.fresh h m (hB ▸ h1) (hH ▸ h2) hm)
    have hpre : AllPrefixGood db (savePre b sc) := allPrefixGood_unused db _ hG hun
    have hrf : loadRange (applyAll db (savePre b sc ++ [.set .bsState (.range B b.height)]))
        = (B, b.height) := by
      rw [applyAll_append, applyAll_cons, applyAll_nil, loadRange_set _ _ _ (by omega)]
    have hfinal : Good (applyAll db (savePre b sc ++ [.set .bsState (.range B b.height)])) := by
      rw [good_iff, hrf]
      refine Or.inr ⟨hBpos, by simp only; omega, ?_⟩
      intro h h1 h2
      simp only at h1 h2
      rw [applyAll_append, applyAll_cons, applyAll_nil]
      by_cases htip : h = b.height
      · subst htip; exact hfinalTip _
      · have hhH : h ≤ H := by omega
        have hold := hGF h h1 hhH
        -- keys of the old heights are untouched
        have hkeys : ∀ k, usedAt db H h k → k ≠ .commit H →
            get (apply (applyAll db (savePre b sc)) (.set .bsState (.range B b.height))) k = get db k := by
          intro k hk hkc
          have hkb : k ≠ .bsState := by
            rintro rfl
            rcases hk with e1 | ⟨i, e1⟩ | ⟨_, e1⟩ | ⟨_, e1⟩ | ⟨m, _, e1⟩ <;> cases e1
          rw [get_apply_of_ne _ _ _ (by simpa [Write.key] using hkb.symm)]
          apply get_savePre_other
          · intro i e; subst e
            rcases hk with e1 | ⟨i', e1⟩ | ⟨_, e1⟩ | ⟨_, e1⟩ | ⟨m, _, e1⟩ <;>
              first | (injection e1; omega) | cases e1
          · intro e; subst e
            rcases hk with e1 | ⟨i', e1⟩ | ⟨_, e1⟩ | ⟨_, e1⟩ | ⟨m, _, e1⟩ <;>
              first | (injection e1; omega) | cases e1
          · intro e; subst e
            rcases hk with e1 | ⟨i', e1⟩ | ⟨_, e1⟩ | ⟨_, e1⟩ | ⟨m, hm, e1⟩ <;>
              first | (injection e1 with e1; exact hv.fresh h m (hB ▸ h1) (hH ▸ hhH) hm e1.symm) | cases e1
          · rw [hn]; intro e; apply hkc; rw [e]; congr 1; omega
          · intro e; subst e
            rcases hk with e1 | ⟨i', e1⟩ | ⟨_, e1⟩ | ⟨_, e1⟩ | ⟨m, _, e1⟩ <;>
              first | (injection e1; omega) | cases e1
        by_cases hlt : h < H
        · -- strictly below the old tip: same branch, same keys
          rw [checkAt_below_tip _ H b.height h hlt (by omega), ← hold]
          apply checkAt_congr
          intro k hk
          apply hkeys k hk
          rintro rfl
          rcases hk with e1 | ⟨i', e1⟩ | ⟨hl, e1⟩ | ⟨_, e1⟩ | ⟨m, _, e1⟩ <;>
            first | (injection e1; omega) | cases e1
        · -- the old tip: its commit is now the new block's LastCommit
          have hhe : h = H := by omega
          subst hhe
          obtain ⟨m, blk, c, ok⟩ := (checkAt_none_iff db h h).1 hold
          rw [checkAt_none_iff]
          refine ⟨m, blk, b.lastCommit, ?_⟩
          have hmeta : loadMeta (apply (applyAll db (savePre b sc)) (.set .bsState (.range B b.height))) h
              = loadMeta db h := by
            simp only [loadMeta, hkeys _ (Or.inl rfl) (by simp)]
          have hlast := hv.last m (by rw [hH]; omega) (by rw [hH]; exact ok.hmeta)
          rw [hH] at hlast
          refine ⟨hmeta.trans ok.hmeta, ok.metaHeight, ?_, ok.blockHash, ok.blockHeight, ok.blockTotal, ?_, ?_, ?_, ?_⟩
          · rw [← ok.block]
            have hp : ∀ i, get (apply (applyAll db (savePre b sc)) (.set .bsState (.range B b.height)))
                (.part h i) = get db (.part h i) := fun i => hkeys _ (Or.inr (Or.inl ⟨i, rfl⟩)) (by simp)
            have hpis : ∀ b', partIs (apply (applyAll db (savePre b sc)) (.set .bsState (.range B b.height))) h b'
                = partIs db h b' := by intro b'; funext i; simp only [partIs, hp]
            simp only [loadBlock, hmeta, hp, hpis]
          · rw [← ok.hashIdx]
            simp only [loadHeightByHash,
              hkeys _ (Or.inr (Or.inr (Or.inr (Or.inr ⟨m, ok.hmeta, rfl⟩)))) (by simp)]
          · have : h < b.height := by omega
            simp only [this, if_true, loadCommit]
            rw [get_apply_of_ne _ _ _ (by simp [Write.key])]
            have := gcommit
            rw [hn] at this
            have e : h + 1 - 1 = h := by omega
            rw [e] at this
            rw [this]
          · rw [hlast]
          · rw [hlast]
    have hall : AllPrefixGood db (savePre b sc ++ [.set .bsState (.range B b.height)]) := by
      apply allPrefixGood_append _ _ _ hpre
      intro k
      cases k with
      | zero => simpa [applyAll_nil] using allPrefixGood_last _ _ hpre
      | succ k =>
        simp only [List.take_succ_cons, List.take_nil, ← applyAll_append]
        exact hfinal
    refine ⟨hall, good_afterUnits db units (hunits ▸ ?_), hrf, ?_⟩
    · rw [hbase', hheight']; simpa [hBne] using hall
    · rw [hs']; simp [openStore, hrf, hBne]

theorem prune_crash_core (db : DB) (retain : Int) (s' : Store) (n : Nat)
    (units : List (List Write)) (hG : Good db)
    (hp : pruneBlocks (openStore db) db retain = .ok (s', n, units)) :
    AllPrefixGood db units.flatten ∧ ∀ k, Good (afterUnits db units k) := by
  obtain ⟨B, H, hr, hB, hBr, hrH, hGF, _, _, hu⟩ := prune_setup db retain s' n units hG hp
  have hspec := pruneLoop_spec H retain (retain - B).toNat B db [] 0 B (by omega) hrH hr hB
    (Int.le_refl _) hGF (fun w hw => by cases hw) (fun w hw => by cases hw)
  rw [← hu] at hspec
  exact ⟨hspec.1, good_afterUnits db units hspec.1⟩

/-- … and leaves the metas of the retained heights alone -/
theorem pshape_prefix_meta (H lo retain : Int) (ws : List Write) (db : DB)
    (hws : ∀ w ∈ ws, PShape H lo retain w) (a : Int) (ha : retain ≤ a) :
    loadMeta (applyAll db ws) a = loadMeta db a := by
  have : get (applyAll db ws) (.bmeta a) = get db (.bmeta a) := by
    apply get_applyAll_of_not_mem
    intro w hw
    rcases hws w hw with ⟨k, _, hk, rfl⟩ | ⟨b', _, _, rfl⟩
    · exact hk a ha
    · simp [Write.key]
  simp only [loadMeta, this]

/-- `SaveBlock` writes no meta but the new block's -/
theorem save_prefix_meta (db : DB) (s s' : Store) (b : Block) (sc : Commit) (units : List (List Write))
    (hs : saveBlock s b true sc = .ok (s', units)) (k : Nat) (a : Int) (ha : a ≠ b.height) :
    loadMeta (applyAll db (units.flatten.take k)) a = loadMeta db a := by
  obtain ⟨_, _, hu⟩ := saveBlock_units _ _ _ _ _ hs
  have : get (applyAll db (units.flatten.take k)) (.bmeta a) = get db (.bmeta a) := by
    apply get_applyAll_of_not_mem
    intro w hw
    have hw := List.mem_of_mem_take hw
    rw [hu] at hw
    simp only [savePre, List.mem_append, List.mem_map, List.mem_range, List.mem_cons, List.mem_nil_iff,
      or_false] at hw
    rcases hw with (⟨i, _, rfl⟩ | rfl | rfl | rfl | rfl) | rfl <;> simp [Write.key]
    exact fun e => ha e.symm
  simp only [loadMeta, this]

/-- after `SaveBlock` the meta of the new height is the block's -/
theorem save_final_meta (db : DB) (s s' : Store) (b : Block) (sc : Commit) (units : List (List Write))
    (hs : saveBlock s b true sc = .ok (s', units)) :
    loadMeta (applyAll db units.flatten) b.height =
      some { height := b.height, hash := b.hash, total := b.total } := by
  obtain ⟨_, _, hu⟩ := saveBlock_units _ _ _ _ _ hs
  obtain ⟨_, gmeta, _⟩ := savePre_gets db b sc
  rw [hu, applyAll_append, applyAll_cons, applyAll_nil]
  have hg : get (apply (applyAll db (savePre b sc)) (.set .bsState (.range s'.base s'.height))) (.bmeta b.height)
      = get (applyAll db (savePre b sc)) (.bmeta b.height) := get_apply_of_ne _ _ _ (by simp [Write.key])
  simp only [loadMeta, hg, gmeta]

end Tmv.BlockStore
