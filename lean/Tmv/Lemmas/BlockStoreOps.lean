import Tmv.Lemmas.BlockStorePrune
/-! Helper lemmas about `saveBlock` / `pruneBlocks` / `auditFrom` used by Props/C18. -/
namespace Tmv.BlockStore

/-- the writes of `SaveBlock` before the range descriptor -/
def savePre (b : Block) (sc : Commit) : List Write :=
  (List.range b.total).map (fun i => Write.set (.part b.height i) (.part b i)) ++
    [.set (.bmeta b.height) (.bmeta { height := b.height, hash := b.hash, total := b.total }),
     .set (.hashIdx b.hash) (.height b.height),
     .set (.commit (b.height - 1)) (.commit b.lastCommit),
     .set (.seen b.height) (.commit sc)]

theorem saveBlock_units (s s' : Store) (b : Block) (sc : Commit) (units : List (List Write))
    (hs : saveBlock s b true sc = .ok (s', units)) :
    ¬ (s.base > 0 ∧ b.height ≠ s.height + 1) ∧
    s' = { height := b.height, base := if s.base = 0 then b.height else s.base } ∧
    units.flatten = savePre b sc ++ [.set .bsState (.range s'.base s'.height)] := by
  unfold saveBlock at hs
  split at hs
  · cases hs
  · rename_i hg
    simp only [Bool.not_true, Bool.false_eq_true, if_false] at hs
    injection hs with hs
    injection hs with h1 h2
    refine ⟨hg, h1.symm, ?_⟩
    subst h1; subst h2
    simp [savePre, flatten_map_singleton]

theorem get_savePre_other (db : DB) (b : Block) (sc : Commit) (k : Key)
    (h1 : ∀ i, k ≠ .part b.height i) (h2 : k ≠ .bmeta b.height) (h3 : k ≠ .hashIdx b.hash)
    (h4 : k ≠ .commit (b.height - 1)) (h5 : k ≠ .seen b.height) :
    get (applyAll db (savePre b sc)) k = get db k := by
  apply get_applyAll_of_not_mem
  intro w hw
  simp only [savePre, List.mem_append, List.mem_map, List.mem_range, List.mem_cons, List.mem_nil_iff,
    or_false] at hw
  rcases hw with ⟨i, _, rfl⟩ | rfl | rfl | rfl | rfl
  · exact fun e => h1 i e.symm
  · exact fun e => h2 e.symm
  · exact fun e => h3 e.symm
  · exact fun e => h4 e.symm
  · exact fun e => h5 e.symm

theorem savePre_unused (db : DB) (b : Block) (sc : Commit) (B H : Int)
    (hn : b.height = H + 1)
    (fresh : ∀ h m, B ≤ h → h ≤ H → loadMeta db h = some m → m.hash ≠ b.hash) :
    ∀ w ∈ savePre b sc, Unused db B H w := by
  intro w hw
  simp only [savePre, List.mem_append, List.mem_map, List.mem_range, List.mem_cons, List.mem_nil_iff,
    or_false] at hw
  rcases hw with ⟨i, _, rfl⟩ | rfl | rfl | rfl | rfl
  all_goals
    refine ⟨by simp [Write.key], ?_⟩
    intro h hB hH
    simp only [Write.key, usedAt]
    rintro (h1 | ⟨i', h1⟩ | ⟨hlt, h1⟩ | ⟨hge, h1⟩ | ⟨m, hm, h1⟩) <;>
      first
        | (injection h1 with h1; exact fresh h m hB hH hm h1.symm)
        | (injection h1; omega)
        | cases h1

/-- the stored state after the writes before the descriptor -/
theorem savePre_gets (db : DB) (b : Block) (sc : Commit) :
    let db1 := applyAll db (savePre b sc)
    (∀ i, i < b.total → get db1 (.part b.height i) = some (.part b i)) ∧
    get db1 (.bmeta b.height) = some (.bmeta { height := b.height, hash := b.hash, total := b.total }) ∧
    get db1 (.hashIdx b.hash) = some (.height b.height) ∧
    get db1 (.commit (b.height - 1)) = some (.commit b.lastCommit) ∧
    get db1 (.seen b.height) = some (.commit sc) := by
  simp only [savePre, applyAll_append, applyAll_cons, applyAll_nil, get_set]
  refine ⟨?_, by simp, by simp, by simp, by simp⟩
  intro i hi
  simp [get_partsWrites db b.height b b.total i hi]

/-- what `PruneBlocks` checks before touching anything, and the trace it then issues -/
theorem pruneBlocks_units (s s' : Store) (db : DB) (retain : Int) (n : Nat)
    (units : List (List Write)) (hp : pruneBlocks s db retain = .ok (s', n, units)) :
    0 < retain ∧ retain ≤ s.height ∧ s.base ≤ retain ∧ s' = { s with base := retain } ∧
    n = (pruneLoop s.height retain (retain - s.base).toNat s.base db [] 0).1 ∧
    units = (pruneLoop s.height retain (retain - s.base).toNat s.base db [] 0).2 := by
  unfold pruneBlocks at hp
  split at hp
  · cases hp
  · split at hp
    · cases hp
    · split at hp
      · cases hp
      · injection hp with hp
        injection hp with h1 h2
        injection h2 with h2 h3
        exact ⟨by omega, by omega, by omega, h1.symm, h2.symm, h3.symm⟩

theorem prune_setup (db : DB) (retain : Int) (s' : Store) (n : Nat) (units : List (List Write))
    (hG : Good db) (hp : pruneBlocks (openStore db) db retain = .ok (s', n, units)) :
    ∃ B H, loadRange db = (B, H) ∧ 0 < B ∧ B ≤ retain ∧ retain ≤ H ∧ GoodFrom db B H ∧
      s' = { base := retain, height := H } ∧
      n = (pruneLoop H retain (retain - B).toNat B db [] 0).1 ∧
      units = (pruneLoop H retain (retain - B).toNat B db [] 0).2 := by
  obtain ⟨h1, h2, h3, h4, h5, h6⟩ := pruneBlocks_units _ _ _ _ _ _ hp
  simp only [openStore] at h2 h3 h4 h5 h6
  rw [good_iff] at hG
  rcases hG with ⟨_, hH0⟩ | ⟨hB, hBH, hGF⟩
  · omega
  · exact ⟨(loadRange db).1, (loadRange db).2, rfl, hB, h3, h2, hGF, h4, h5, h6⟩

theorem auditFrom_none_iff (db : DB) (H : Int) (fuel : Nat) (h : Int) :
    auditFrom db H fuel h = none ↔ ∀ a, h ≤ a → a < h + fuel → checkAt db H a = none := by
  induction fuel generalizing h with
  | zero =>
    simp only [auditFrom, true_iff]
    intro a h1 h2; omega
  | succ fuel ih =>
    unfold auditFrom
    cases hc : checkAt db H h with
    | some f =>
      simp only [false_iff, reduceCtorEq]
      intro hall
      have := hall h (Int.le_refl _) (by omega)
      rw [hc] at this; cases this
    | none =>
      simp only [ih]
      constructor
      · intro hall a h1 h2
        by_cases e : a = h
        · subst e; exact hc
        · exact hall a (by omega) (by omega)
      · intro hall a h1 h2
        exact hall a (by omega) (by omega)


end Tmv.BlockStore
