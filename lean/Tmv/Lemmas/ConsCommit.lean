import Tmv.Lemmas.ConsDelivered
import Tmv.Lemmas.NetCommit
import Tmv.Model.VoteSetCommit
/-! `VoteSet.makeCommit` is sound: the canonical vote slots (`votes[i]`) hold delivered well-formed votes
(or the node's own), the slots of the members of a recorded majority bucket hold the majority value
(C01's invariant `CSv`, through `run`), so the commit flags exactly the slots voting the majority
block, with more than two thirds of the power. -/
namespace Tmv.Cons
open Tmv.Net (CSv CSh)

theorem alookup_foldl_aset (key : Bid) (l : List Nat) (acc : List (Nat × Bid)) (i : Nat) :
    alookup (l.foldl (fun vv j => aset vv j key) acc) i = if i ∈ l then some key else alookup acc i := by
  induction l generalizing acc with
  | nil => simp
  | cons a l ih =>
    simp only [List.foldl]
    rw [ih, alookup_aset]
    by_cases h1 : i ∈ l
    · simp [h1]
    · by_cases h2 : i = a
      · simp [h2]
      · simp [h1, h2]

/-- every canonical slot holds a vote of a validator in range that satisfies `E` -/
def VDv (c : Cfg) (E : Bid → Nat → Bool) (vs : VoteSet) : Prop :=
  ∀ i key, alookup vs.votes i = some key → i < c.n ∧ E key i = true

theorem VDv.empty (c : Cfg) (E) : VDv c E VoteSet.empty := by
  intro i key h; simp [VoteSet.empty, alookup] at h

theorem VoteSet.recordVote_VD (c : Cfg) (E : Bid → Nat → Bool) (vs : VoteSet) (idx : Nat) (key : Bid)
    (hi : idx < c.n) (he : E key idx = true) (h : VDv c E vs) : VDv c E (vs.recordVote c idx key) := by
  have hs : VDv c E { vs with votes := aset vs.votes idx key } := by
    intro i k hk
    simp only [] at hk
    rw [alookup_aset] at hk
    by_cases e : i = idx
    · subst e; simp at hk; subst hk; exact ⟨hi, he⟩
    · simp [e] at hk; exact h i k hk
  unfold VoteSet.recordVote
  repeat' split
  all_goals first | exact h | exact hs | (intro i k hk; exact hs i k hk)

theorem VoteSet.finish_VD (c : Cfg) (E : Bid → Nat → Bool) (vs : VoteSet) (idx : Nat) (key : Bid) (bv : BlockVotes)
    (hb : MSb c (E key) (bv.add idx (c.power idx))) (h : VDv c E vs) :
    VDv c E (VoteSet.finish c vs idx key bv).1 := by
  unfold VoteSet.finish
  simp only []
  repeat' split
  all_goals first
    | (intro i k hk; exact h i k hk)
    | skip
  intro i k hk
  simp only [] at hk
  rw [alookup_foldl_aset] at hk
  by_cases hm : i ∈ (bv.add idx (c.power idx)).voted
  · simp [hm] at hk; subst hk
    exact hb.2.2 i hm
  · simp [hm] at hk; exact h i k hk

theorem VoteSet.addVerified_VD (c : Cfg) (E : Bid → Nat → Bool) (vs : VoteSet) (idx : Nat) (key : Bid)
    (hi : idx < c.n) (he : E key idx = true) (hm : MSv c E vs) (h : VDv c E vs) :
    VDv c E (vs.addVerified c idx key).1 := by
  unfold VoteSet.addVerified
  simp only []
  have e1 : (vs.recordVote c idx key).byBlock = vs.byBlock := by
    unfold VoteSet.recordVote; repeat' split
    all_goals rfl
  have h1 := VoteSet.recordVote_VD c E vs idx key hi he h
  split
  · rename_i bv hb
    rw [e1] at hb
    split
    · exact h1
    · exact VoteSet.finish_VD c E _ idx key bv (MSb.add c _ bv idx (hm key bv hb) hi he) h1
  · split
    · exact h1
    · exact VoteSet.finish_VD c E _ idx key _ (MSb.add c _ _ idx (MSb.nil c _ false) hi he) h1

theorem VoteSet.addVote_VD (c : Cfg) (E : Bid → Nat → Bool) (vs : VoteSet) (v : Vote) (hm : MSv c E vs) (h : VDv c E vs)
    (hv : v.val < c.n → v.sigOK = true → v.addr = v.val → v.signer = v.val → E v.bid v.val = true) :
    VDv c E (vs.addVote c v).1 := by
  unfold VoteSet.addVote
  split
  · exact h
  · rename_i hn
    split
    · exact h
    · rename_i ha
      split
      · exact h
      · split
        · exact h
        · rename_i hs
          have hlt : v.val < c.n := by omega
          have hsig : v.sigOK = true ∧ v.signer = v.val := by
            cases hh : v.sigOK
            · simp [hh] at hs
            · simp [hh] at hs; exact ⟨rfl, hs⟩
          have haddr : v.addr = v.val := by
            cases Nat.decEq v.addr v.val with
            | isTrue e => exact e
            | isFalse e => exact absurd e ha
          exact VoteSet.addVerified_VD c E vs _ _ hlt (hv hlt hsig.1 haddr hsig.2) hm h

theorem VoteSet.setPeerMaj23_VD (c : Cfg) (E) (vs : VoteSet) (peer : Peer) (key : Bid) (h : VDv c E vs) :
    VDv c E (vs.setPeerMaj23 peer key) := by
  unfold VoteSet.setPeerMaj23
  simp only []
  repeat' split
  all_goals (intro i k hk; exact h i k hk)

/-- every vote set of the height vote set satisfies `VDv` -/
def VDh (c : Cfg) (E : VType → Int → Bid → Nat → Bool) (h : HVS) : Prop :=
  ∀ (r : Int) rvs, h.getRound r = some rvs → VDv c (E .prevote r) rvs.prevotes ∧ VDv c (E .precommit r) rvs.precommits

theorem VDh.init (c : Cfg) (E) : VDh c E HVS.init := by
  intro r rvs hv
  unfold HVS.getRound HVS.init alookup at hv
  simp only [List.find?] at hv
  split at hv
  · simp at hv; subst hv; exact ⟨VDv.empty c _, VDv.empty c _⟩
  · simp at hv

theorem VDh.mono {c : Cfg} {E E' : VType → Int → Bid → Nat → Bool} {h : HVS}
    (hE : ∀ t r k v, E t r k v = true → E' t r k v = true) (hm : VDh c E h) : VDh c E' h :=
  fun r rvs hr => ⟨fun i k hk => ⟨((hm r rvs hr).1 i k hk).1, hE _ _ _ _ ((hm r rvs hr).1 i k hk).2⟩,
                   fun i k hk => ⟨((hm r rvs hr).2 i k hk).1, hE _ _ _ _ ((hm r rvs hr).2 i k hk).2⟩⟩

theorem VDh.congr_sets {c : Cfg} {E} {a b : HVS} (h : VDh c E a) (e : b.sets = a.sets) : VDh c E b := by
  intro r rvs hv
  apply h r rvs
  unfold HVS.getRound at hv ⊢
  rw [← e]; exact hv

theorem VDh.getVoteSet {c : Cfg} {E} {h : HVS} (hq : VDh c E h) {r : Int} {t : VType} {vs : VoteSet}
    (hg : h.getVoteSet r t = some vs) : VDv c (E t r) vs := by
  unfold HVS.getVoteSet at hg
  cases hr : h.getRound r with
  | none => rw [hr] at hg; simp at hg
  | some rvs =>
    rw [hr] at hg
    have := hq r rvs hr
    cases t <;> simp at hg <;> subst hg
    · exact this.1
    · exact this.2

theorem HVS.addRound_VD (c : Cfg) (E) (h : HVS) (r : Int) (hq : VDh c E h) : VDh c E (h.addRound r) := by
  intro r' rvs hv
  unfold HVS.getRound HVS.addRound at hv
  simp only [] at hv
  rw [alookup_append] at hv
  cases hl : alookup h.sets r' with
  | some y =>
    rw [hl] at hv
    simp at hv; subst hv
    exact hq r' y hl
  | none =>
    rw [hl] at hv
    by_cases e : r' = r
    · simp [e] at hv; subst hv; exact ⟨VDv.empty c _, VDv.empty c _⟩
    · simp [e] at hv

theorem HVS.putVoteSet_VD (c : Cfg) (E) (h : HVS) (r : Int) (t : VType) (vs : VoteSet)
    (hvs : VDv c (E t r) vs) (hq : VDh c E h) : VDh c E (h.putVoteSet r t vs) := by
  intro r' rvs' hv
  unfold HVS.putVoteSet at hv
  cases hg : h.getRound r with
  | none => rw [hg] at hv; exact hq r' rvs' hv
  | some rvs =>
    rw [hg] at hv
    unfold HVS.getRound at hv
    simp only [] at hv
    rw [alookup_aset] at hv
    have hold := hq r rvs hg
    by_cases hr : r' = r
    · subst hr
      simp only [if_true] at hv
      cases t with
      | prevote => simp at hv; subst hv; exact ⟨hvs, hold.2⟩
      | precommit => simp at hv; subst hv; exact ⟨hold.1, hvs⟩
    · simp only [hr, if_false] at hv
      exact hq r' rvs' hv

theorem HVS.addVote_VD (c : Cfg) (E : VType → Int → Bid → Nat → Bool) (h : HVS) (v : Vote) (peer : Peer)
    (hm : MSh c E h) (hq : VDh c E h)
    (hv : v.val < c.n → v.sigOK = true → v.addr = v.val → v.signer = v.val → E v.typ (v.round : Int) v.bid v.val = true) :
    VDh c E (h.addVote c v peer).1 := by
  unfold HVS.addVote
  simp only []
  split
  · rename_i vs hg
    exact HVS.putVoteSet_VD _ _ _ _ _ _ (VoteSet.addVote_VD c _ vs v (hm.getVoteSet hg) (hq.getVoteSet hg) hv) hq
  · split
    · simp only []
      apply HVS.putVoteSet_VD _ _ _ _ _ _ (VoteSet.addVote_VD c _ _ v (MSv.empty c _) (VDv.empty c _) hv)
      exact (HVS.addRound_VD c E h _ hq).congr_sets rfl
    · exact hq

theorem HVS.setPeerMaj23_VD (c : Cfg) (E) (h : HVS) (r : Nat) (t : VType) (peer : Peer) (key : Bid)
    (hq : VDh c E h) : VDh c E (h.setPeerMaj23 r t peer key) := by
  unfold HVS.setPeerMaj23
  split
  · rename_i vs hg
    exact HVS.putVoteSet_VD _ _ _ _ _ _ (VoteSet.setPeerMaj23_VD c _ vs peer key (hq.getVoteSet hg)) hq
  · exact hq

theorem HVS.foldl_addRound_VD (c : Cfg) (E) (rs : List Int) (h : HVS) (hq : VDh c E h) :
    VDh c E (rs.foldl (fun h r => if (h.getRound r).isSome then h else h.addRound r) h) := by
  induction rs generalizing h with
  | nil => exact hq
  | cons a rs ih =>
    simp only [List.foldl]
    apply ih
    split
    · exact hq
    · exact HVS.addRound_VD c E h a hq

theorem HVS.setRound_VD (c : Cfg) (E) (h h' : HVS) (round : Int) (hs : h.setRound round = some h') (hq : VDh c E h) :
    VDh c E h' := by
  unfold HVS.setRound at hs
  simp only [] at hs
  split at hs
  · cases hs
  · cases hs
    exact (HVS.foldl_addRound_VD c E _ h hq).congr_sets rfl

attribute [local irreducible] emit panicWith sign signAddVote decideProposal doPrevote enterPrevote enterPropose
  enterNewRound newRoundReset enterPrevoteWait unlock enterPrecommit enterPrecommitWait finalizeCommit tryFinalizeCommit
  enterCommit setProposal handleCompleteProposal addBlockPart addVote onPolka prevoteTransitions afterPrevote
  afterPrecommit handleInternal handleTimeout
  handleTxsAvailable handleInput drain step run HVS.addVote HVS.setRound HVS.setPeerMaj23 HVS.polRound
  isProposalComplete maj23Of hasAnyOf hashesTo hasHeader

/-- (V): the canonical vote slots hold delivered well-formed votes or own votes -/
abbrev V (c : Cfg) (past : List Input) (s : NodeState) : Prop := VDh c (Ev c past s.out) s.votes

theorem V_push_out {c : Cfg} {past : List Input} {votes : HVS} {out : List Output} (o : Output)
    (h : VDh c (Ev c past out) votes) : VDh c (Ev c past (out ++ [o])) votes :=
  h.mono (fun _ _ _ _ e => Ev_mono_out o e)

variable {c : Cfg} {past : List Input}

syntax "vinv_step" : tactic
macro_rules | `(tactic| vinv_step) => `(tactic| assumption)
macro "vinv" : tactic => `(tactic| repeat' (first | vinv_step | (dsimp only; vinv_step)))

theorem emit_V {s : NodeState} (o : Output) (h : V c past s) : V c past (emit s o) := by
  rcases emit_shape s o with e | e <;> rw [e]
  · exact h
  · exact V_push_out o h
macro_rules | `(tactic| vinv_step) => `(tactic| apply emit_V)

theorem panicWith_V {s : NodeState} (w : String) (h : V c past s) : V c past (panicWith s w) := by
  rcases panicWith_shape s w with e | e <;> rw [e]
  · exact h
  · exact V_push_out _ h
macro_rules | `(tactic| vinv_step) => `(tactic| apply panicWith_V)

theorem signAddVote_V {s : NodeState} (t : VType) (bid : Bid) (h : V c past s) : V c past (signAddVote c s t bid) := by
  rcases signAddVote_shape c s t bid with e | ⟨l, me, hme, e⟩ <;> rw [e]
  · exact h
  · exact V_push_out _ h
macro_rules | `(tactic| vinv_step) => `(tactic| apply signAddVote_V)

theorem decideProposal_V {s : NodeState} (r me : Nat) (h : V c past s) : V c past (decideProposal c s r me) := by
  rcases decideProposal_shape c s r me with e | ⟨l, o, ho, e⟩ <;> rw [e]
  · exact h
  · rcases ho with rfl | rfl
    · exact h
    · exact V_push_out _ h
macro_rules | `(tactic| vinv_step) => `(tactic| apply decideProposal_V)

theorem unlock_V {s : NodeState} (h : V c past s) : V c past (unlock s) := by unfold unlock; exact h
macro_rules | `(tactic| vinv_step) => `(tactic| apply unlock_V)

theorem newRoundReset_V {s : NodeState} (r : Nat) (h : V c past s) : V c past (newRoundReset s r) := by
  unfold newRoundReset; simp only []; split <;> exact h
macro_rules | `(tactic| vinv_step) => `(tactic| apply newRoundReset_V)

theorem doPrevote_V {s : NodeState} (h : V c past s) : V c past (doPrevote c s) := by
  unfold doPrevote; (try simp only []); repeat' split
  all_goals vinv
macro_rules | `(tactic| vinv_step) => `(tactic| apply doPrevote_V)

theorem enterPrevote_V {s : NodeState} (r : Nat) (h : V c past s) : V c past (enterPrevote c s r) := by
  unfold enterPrevote; (try simp only []); repeat' split
  all_goals vinv
macro_rules | `(tactic| vinv_step) => `(tactic| apply enterPrevote_V)

theorem enterPropose_V {s : NodeState} (r : Nat) (h : V c past s) : V c past (enterPropose c s r) := by
  unfold enterPropose; (try simp only []); repeat' split
  all_goals vinv
macro_rules | `(tactic| vinv_step) => `(tactic| apply enterPropose_V)

theorem enterNewRound_V {s : NodeState} (r : Nat) (h : V c past s) : V c past (enterNewRound c s r) := by
  unfold enterNewRound
  split
  · exact h
  · split
    · exact h
    · simp only []
      have h' := newRoundReset_V (c := c) (past := past) r h
      split
      · vinv
      · rename_i hv hsr
        have h2 : VDh c (Ev c past (newRoundReset s r).out) hv := HVS.setRound_VD c _ _ _ _ hsr h'
        repeat' split
        all_goals vinv
macro_rules | `(tactic| vinv_step) => `(tactic| apply enterNewRound_V)

theorem enterPrevoteWait_V {s : NodeState} (r : Nat) (h : V c past s) : V c past (enterPrevoteWait c s r) := by
  unfold enterPrevoteWait; (try simp only []); repeat' split
  all_goals vinv
macro_rules | `(tactic| vinv_step) => `(tactic| apply enterPrevoteWait_V)

theorem enterPrecommit_V {s : NodeState} (r : Nat) (h : V c past s) : V c past (enterPrecommit c s r) := by
  unfold enterPrecommit; (try simp only []); repeat' split
  all_goals vinv
macro_rules | `(tactic| vinv_step) => `(tactic| apply enterPrecommit_V)

theorem enterPrecommitWait_V {s : NodeState} (r : Nat) (h : V c past s) : V c past (enterPrecommitWait c s r) := by
  unfold enterPrecommitWait; (try simp only []); repeat' split
  all_goals vinv
macro_rules | `(tactic| vinv_step) => `(tactic| apply enterPrecommitWait_V)

theorem finalizeCommit_V {s : NodeState} (h : V c past s) : V c past (finalizeCommit c s) := by
  unfold finalizeCommit; (try simp only []); repeat' split
  all_goals vinv
macro_rules | `(tactic| vinv_step) => `(tactic| apply finalizeCommit_V)

theorem tryFinalizeCommit_V {s : NodeState} (h : V c past s) : V c past (tryFinalizeCommit c s) := by
  unfold tryFinalizeCommit; (try simp only []); repeat' split
  all_goals vinv
macro_rules | `(tactic| vinv_step) => `(tactic| apply tryFinalizeCommit_V)

theorem enterCommit_V {s : NodeState} (r : Nat) (h : V c past s) : V c past (enterCommit c s r) := by
  unfold enterCommit; (try simp only []); repeat' split
  all_goals vinv
macro_rules | `(tactic| vinv_step) => `(tactic| apply enterCommit_V)

theorem setProposal_V {s : NodeState} (p : Proposal) (h : V c past s) : V c past (setProposal c s p) := by
  unfold setProposal; (try simp only []); repeat' split
  all_goals vinv
macro_rules | `(tactic| vinv_step) => `(tactic| apply setProposal_V)

theorem handleCompleteProposal_V {s : NodeState} (h : V c past s) : V c past (handleCompleteProposal c s) := by
  unfold handleCompleteProposal; (try simp only []); repeat' split
  all_goals vinv
macro_rules | `(tactic| vinv_step) => `(tactic| apply handleCompleteProposal_V)

theorem addBlockPart_V {s : NodeState} (b : Nat) (h : V c past s) : V c past (addBlockPart c s b) := by
  unfold addBlockPart; (try simp only []); repeat' split
  all_goals vinv
macro_rules | `(tactic| vinv_step) => `(tactic| apply addBlockPart_V)

theorem onPolka_V {s : NodeState} (vr : Nat) (bid : Bid) (h : V c past s) : V c past (onPolka s vr bid) := by
  unfold onPolka; (try simp only []); repeat' split
  all_goals vinv
macro_rules | `(tactic| vinv_step) => `(tactic| apply onPolka_V)

theorem prevoteTransitions_V {s : NodeState} (vr : Nat) (h : V c past s) : V c past (prevoteTransitions c s vr) := by
  unfold prevoteTransitions; (try simp only []); repeat' split
  all_goals vinv
macro_rules | `(tactic| vinv_step) => `(tactic| apply prevoteTransitions_V)

theorem afterPrevote_V {s : NodeState} (vr : Nat) (h : V c past s) : V c past (afterPrevote c s vr) := by
  unfold afterPrevote; (try simp only []); repeat' split
  all_goals vinv
macro_rules | `(tactic| vinv_step) => `(tactic| apply afterPrevote_V)

theorem afterPrecommit_V {s : NodeState} (vr : Nat) (h : V c past s) : V c past (afterPrecommit c s vr) := by
  unfold afterPrecommit; (try simp only []); repeat' split
  all_goals vinv
macro_rules | `(tactic| vinv_step) => `(tactic| apply afterPrecommit_V)

theorem addVote_V {s : NodeState} (v : Vote) (peer : Peer)
    (hv : v.val < c.n → v.sigOK = true → v.addr = v.val → v.signer = v.val →
      Ev c past s.out v.typ (v.round : Int) v.bid v.val = true)
    (hD : D c past s) (h : V c past s) : V c past (addVote c s v peer) := by
  have h' : VDh c (Ev c past s.out) (s.votes.addVote c v peer).1 := HVS.addVote_VD c _ _ v peer hD.ms h hv
  unfold addVote; simp only []; repeat' split
  all_goals vinv

theorem handleInternal_V {s : NodeState} (m : Internal)
    (hm : ∀ w, m = .vote w → ownVote c s.out w.typ (w.round : Int) w.bid w.val = true) (hD : D c past s) (h : V c past s) :
    V c past (handleInternal c s m) := by
  unfold handleInternal
  cases m with
  | proposal p => exact setProposal_V p h
  | part b => exact addBlockPart_V b h
  | vote v =>
    apply addVote_V v 0 _ hD h
    intro _ _ _ _
    unfold Ev; rw [hm v rfl]; simp

theorem handleTimeout_V {s : NodeState} (r : Nat) (st : Step) (h : V c past s) : V c past (handleTimeout c s r st) := by
  unfold handleTimeout; (try simp only []); repeat' split
  all_goals vinv
macro_rules | `(tactic| vinv_step) => `(tactic| apply handleTimeout_V)

theorem handleTxsAvailable_V {s : NodeState} (h : V c past s) : V c past (handleTxsAvailable c s) := by
  unfold handleTxsAvailable; (try simp only []); repeat' split
  all_goals vinv
macro_rules | `(tactic| vinv_step) => `(tactic| apply handleTxsAvailable_V)

theorem handleInput_V {s : NodeState} (i : Input) (hD : D c past s) (h : V c past s) :
    V c (past ++ [i]) (handleInput c s i) := by
  have hD' := hD.mono_past i
  have h' : V c (past ++ [i]) s := VDh.mono (fun _ _ _ _ e => Ev_mono_past i e) h
  unfold handleInput
  cases i with
  | timeout r st => exact handleTimeout_V r st h'
  | peerMaj23 r t peer bid => exact HVS.setPeerMaj23_VD c _ _ _ _ _ _ h'
  | proposal p => exact setProposal_V p h'
  | blockComplete b => exact addBlockPart_V b h'
  | vote v peer =>
    apply addVote_V v peer _ hD' h'
    intro _ hs ha hk
    unfold Ev deliveredBy
    simp [hs, ha, hk]
  | txsAvailable => exact handleTxsAvailable_V h'

theorem drain_DV (fuel : Nat) {s : NodeState} (hD : D c past s) (h : V c past s) :
    D c past (drain c fuel s) ∧ V c past (drain c fuel s) := by
  induction fuel generalizing s with
  | zero => unfold drain; exact ⟨hD, h⟩
  | succ n ih =>
    unfold drain; repeat' split
    all_goals first | exact ⟨hD, h⟩ | skip
    rename_i m rest hq
    have hD' : D c past { s with queue := rest } :=
      ⟨hD.ms, fun w hw => hD.q w (by rw [hq]; exact List.mem_cons_of_mem _ hw)⟩
    have h' : V c past { s with queue := rest } := h
    have hm : ∀ w, m = .vote w → ownVote c s.out w.typ (w.round : Int) w.bid w.val = true :=
      fun w e => hD.q w (by rw [hq, e]; exact List.mem_cons_self ..)
    exact ih (handleInternal_D m hm hD') (handleInternal_V m hm hD' h')

theorem step_DV {s : NodeState} (i : Input) (hD : D c past s) (h : V c past s) :
    D c (past ++ [i]) (step c s i) ∧ V c (past ++ [i]) (step c s i) := by
  unfold step; split
  · exact ⟨hD.mono_past i, VDh.mono (fun _ _ _ _ e => Ev_mono_past i e) h⟩
  · exact drain_DV _ (handleInput_D i hD) (handleInput_V i hD h)

theorem run_DV (is : List Input) {s : NodeState} {past : List Input} (hD : D c past s) (h : V c past s) :
    D c (past ++ is) (run c s is) ∧ V c (past ++ is) (run c s is) := by
  induction is generalizing s past with
  | nil => unfold run; simpa using ⟨hD, h⟩
  | cons i is ih =>
    have := ih (step_DV i hD h).1 (step_DV i hD h).2
    unfold run at this ⊢
    simpa [List.foldl, List.append_assoc] using this

theorem init_V : V c [] NodeState.init := VDh.init c _

/-! ### C01's invariants through `run` -/

theorem drain_CS (fuel : Nat) {s : NodeState} (h : CSh s.votes) : CSh (drain c fuel s).votes := by
  induction fuel generalizing s with
  | zero => unfold drain; exact h
  | succ n ih =>
    unfold drain; repeat' split
    all_goals first | exact h | skip
    rename_i m rest hq
    have h' : CSh ({ s with queue := rest } : NodeState).votes := h
    exact ih (Tmv.Net.handleInternal_CS m h')

theorem run_CS (is : List Input) {s : NodeState} (h : CSh s.votes) : CSh (run c s is).votes := by
  induction is generalizing s with
  | nil => unfold run; exact h
  | cons i is ih =>
    have hs : CSh (step c s i).votes := by
      unfold step; split
      · exact h
      · exact drain_CS _ (Tmv.Net.handleInput_CS i h)
    have := ih hs
    unfold run at this ⊢
    simpa [List.foldl] using this

/-- a decision records the commit round and the precommit majority of that round -/
theorem drain_PostD (fuel : Nat) {s : NodeState} (h : Tmv.Net.PostD s) : Tmv.Net.PostD (drain c fuel s) := by
  induction fuel generalizing s with
  | zero => unfold drain; exact h
  | succ n ih =>
    unfold drain
    split
    · exact h
    · rename_i hnd
      split
      · exact h
      · rename_i m rest hq
        have hn : ({ s with queue := rest } : NodeState).decided = none := by
          cases hd : s.decided with
          | none => rfl
          | some x => simp [hd] at hnd
        exact ih (Tmv.Net.handleInternal_D m hn)

theorem run_PostD (is : List Input) {s : NodeState} (h : Tmv.Net.PostD s) : Tmv.Net.PostD (run c s is) := by
  induction is generalizing s with
  | nil => unfold run; exact h
  | cons i is ih =>
    have hs : Tmv.Net.PostD (step c s i) := by
      unfold step; split
      · exact h
      · rename_i hnd
        have hn : s.decided = none := by
          cases hd : s.decided with
          | none => rfl
          | some x => simp [hd] at hnd
        exact drain_PostD _ (Tmv.Net.handleInput_D i hn)
    have := ih hs
    unfold run at this ⊢
    simpa [List.foldl] using this

end Tmv.Cons

namespace Tmv.Cons
open Tmv.Net (CSv CSh)

/-- the flag `makeCommit` gives slot `i` for majority `m` -/
def slotFlag (vs : VoteSet) (m : Bid) (i : Nat) : SigFlag :=
  match alookup vs.votes i with
  | none => SigFlag.absent
  | some none => SigFlag.nil
  | some (some b) => if some b = m then SigFlag.commit else SigFlag.absent

theorem makeCommit_eq (n : Nat) (vs : VoteSet) (m : Bid) (h : vs.maj23 = some m) :
    vs.makeCommit n = some (m, (List.range n).map (slotFlag vs m)) := by
  unfold VoteSet.makeCommit; rw [h]; rfl

theorem getD_map_range' {α} (f : Nat → α) (n i : Nat) (d : α) (h : i < n) : ((List.range n).map f).getD i d = f i := by
  simp [List.getD_eq_getElem?_getD, h]

theorem slotFlag_commit_iff (vs : VoteSet) (b i : Nat) :
    slotFlag vs (some b) i = .commit ↔ alookup vs.votes i = some (some b) := by
  unfold slotFlag
  cases h : alookup vs.votes i with
  | none => simp
  | some x =>
    cases x with
    | none => simp
    | some b' =>
      by_cases e : b' = b
      · simp [e]
      · simp [e]

theorem slotFlag_nil_iff (vs : VoteSet) (b i : Nat) :
    slotFlag vs (some b) i = .nil ↔ alookup vs.votes i = some none := by
  unfold slotFlag
  cases h : alookup vs.votes i with
  | none => simp
  | some x =>
    cases x with
    | none => simp
    | some b' =>
      by_cases e : b' = b
      · simp [e]
      · simp [e]

theorem sum_range_if_eq_wt (power : Nat → Nat) (p : Nat → Bool) (n : Nat) :
    ((List.range n).map fun i => if p i = true then power i else 0).sum = VoteLog.wtUpTo power p n := by
  induction n with
  | zero => simp [VoteLog.wtUpTo]
  | succ n ih =>
    rw [List.range_succ, List.map_append, List.sum_append, ih]
    simp [VoteLog.wtUpTo]

theorem commitPower_flags (c : Cfg) (vs : VoteSet) (m : Bid) :
    commitPower c ((List.range c.n).map (slotFlag vs m)) =
      VoteLog.wtUpTo c.power (fun i => decide (slotFlag vs m i = .commit)) c.n := by
  unfold commitPower
  rw [← sum_range_if_eq_wt]
  simp only [List.length_map, List.length_range]
  congr 1
  apply List.map_congr_left
  intro i hi
  rw [getD_map_range' _ _ _ _ (List.mem_range.mp hi)]
  simp

/-- **makeCommit is sound** at vote-set level: given the bucket invariants of a vote set with a recorded
majority for block `b` -/
theorem VoteSet.makeCommit_sound (c : Cfg) (E : Bid → Nat → Bool) (vs : VoteSet) (b : Nat)
    (hm : vs.maj23 = some (some b)) (hms : MSv c E vs) (hvd : VDv c E vs) (hcs : CSv vs) (hq : Qv c vs) :
    ∃ flags, vs.makeCommit c.n = some (some b, flags) ∧ flags.length = c.n ∧
      (∀ i, i < c.n → (flags.getD i .absent = .commit ↔ alookup vs.votes i = some (some b))) ∧
      (∀ i, i < c.n → (flags.getD i .absent = .nil ↔ alookup vs.votes i = some none)) ∧
      (∀ i, i < c.n → flags.getD i .absent = .commit → E (some b) i = true) ∧
      2 * c.total < 3 * commitPower c flags := by
  refine ⟨_, makeCommit_eq c.n vs _ hm, by simp, ?_, ?_, ?_, ?_⟩
  · intro i hi; rw [getD_map_range' _ _ _ _ hi]; exact slotFlag_commit_iff vs b i
  · intro i hi; rw [getD_map_range' _ _ _ _ hi]; exact slotFlag_nil_iff vs b i
  · intro i hi hf
    rw [getD_map_range' _ _ _ _ hi] at hf
    exact (hvd i (some b) ((slotFlag_commit_iff vs b i).1 hf)).2
  · have hqq := (quorum_iff c _).1 (hq _ hm)
    unfold VoteSet.blockSum at hqq
    cases hl : alookup vs.byBlock (some b) with
    | none => rw [hl] at hqq; simp at hqq
    | some bv =>
      rw [hl] at hqq
      simp only [] at hqq
      obtain ⟨h1, h2, h3⟩ := hms (some b) bv hl
      have hle := sum_le_wtUpTo c.power (fun i => decide (slotFlag vs (some b) i = .commit)) c.n bv.voted h1 (by
        intro v hv
        refine ⟨(h3 v hv).1, ?_⟩
        have := hcs (some b) bv hm hl v hv
        simp [(slotFlag_commit_iff vs b v).2 this])
      rw [commitPower_flags]
      omega

end Tmv.Cons
