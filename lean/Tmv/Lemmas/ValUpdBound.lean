import Tmv.Lemmas.ValRotate
/-! Bounds on `tvpAfterUpdatesBeforeRemovals` and on the priorities after a successful update. -/
namespace Tmv.ValSet

/-- power of the validator with address `a` in `vals` (0 if absent) -/
def oldPower (vals : List Val) (a : Nat) : Int :=
  match findAddr vals a with
  | some v => v.power
  | none => 0

theorem oldPower_cons (v : Val) (r : List Val) (a : Nat) :
    oldPower (v :: r) a = if v.addr = a then v.power else oldPower r a := by
  unfold oldPower findAddr
  rw [List.find?_cons]
  by_cases h : v.addr = a
  · simp [h]
  · simp [h]

theorem oldPower_nonneg (vals : List Val) (hp : ∀ v ∈ vals, 0 ≤ v.power) (a : Nat) :
    0 ≤ oldPower vals a := by
  unfold oldPower
  cases h : findAddr vals a with
  | none => simp
  | some v => exact hp v (findAddr_some h).1

theorem delta_eq (vals : List Val) (u : Val) : delta vals u = u.power - oldPower vals u.addr := by
  unfold delta oldPower
  cases findAddr vals u.addr <;> simp

theorem sum_if_nodup (as : List Nat) (x : Nat) (c : Int) (f : Nat → Int) (hnd : as.Nodup) :
    (as.map (fun a => if x = a then c else f a)).sum =
      (as.map f).sum + (if x ∈ as then c - f x else 0) := by
  induction as with
  | nil => simp
  | cons a t ih =>
    rw [List.nodup_cons] at hnd
    simp only [List.map_cons, List.sum_cons, List.mem_cons]
    rw [ih hnd.2]
    by_cases hxa : x = a
    · subst hxa
      simp only [if_true, true_or, hnd.1, if_false]
      omega
    · simp only [hxa, if_false, false_or]
      omega

theorem sum_oldPower_le (vals : List Val) (as : List Nat) (hnd : as.Nodup)
    (hp : ∀ v ∈ vals, 0 ≤ v.power) : (as.map (oldPower vals)).sum ≤ sumPower vals := by
  induction vals with
  | nil =>
    have : as.map (oldPower []) = as.map (fun _ => (0 : Int)) := by
      apply List.map_congr_left; intro a _; rfl
    rw [this]
    have : ∀ l : List Nat, (l.map (fun _ => (0 : Int))).sum = 0 := by
      intro l; induction l with
      | nil => rfl
      | cons _ _ ih => simp [ih]
    rw [this]; simp [sumPower]
  | cons v r ih =>
    have hr : ∀ w ∈ r, 0 ≤ w.power := fun w hw => hp w (List.mem_cons_of_mem _ hw)
    have : as.map (oldPower (v :: r)) = as.map (fun a => if v.addr = a then v.power else oldPower r a) := by
      apply List.map_congr_left; intro a _; exact oldPower_cons v r a
    rw [this, sum_if_nodup as v.addr v.power (oldPower r) hnd]
    have h1 := ih hr
    have h2 := oldPower_nonneg r hr v.addr
    have h3 := hp v List.mem_cons_self
    simp only [sumPower, List.map_cons, List.sum_cons] at h1 ⊢
    split <;> omega

theorem verifyRemovals_eq (vals ds : List Val) (acc r : Int)
    (h : verifyRemovals vals ds acc = some r) :
    r = acc + ((ds.map (·.addr)).map (oldPower vals)).sum := by
  induction ds generalizing acc with
  | nil => simp only [verifyRemovals, Option.some.injEq] at h; simp [h]
  | cons d t ih =>
    unfold verifyRemovals at h
    split at h
    · cases h
    · rename_i v hv
      rw [ih _ h]
      simp only [List.map_cons, List.sum_cons]
      have : oldPower vals d.addr = v.power := by unfold oldPower; rw [hv]
      omega

theorem insertInt_sum (x : Int) (l : List Int) : (insertInt x l).sum = x + l.sum := by
  induction l with
  | nil => simp [insertInt]
  | cons y t ih =>
    unfold insertInt
    split
    · simp
    · simp only [List.sum_cons, ih]; omega

theorem sortInt_sum (l : List Int) : (sortInt l).sum = l.sum := by
  induction l with
  | nil => rfl
  | cons x t ih => simp only [sortInt, insertInt_sum, ih, List.sum_cons]

theorem insertInt_ne_nil (x : Int) (l : List Int) : insertInt x l ≠ [] := by
  cases l with
  | nil => simp [insertInt]
  | cons y t => unfold insertInt; split <;> simp

theorem checkSums_eq (acc : Int) (ds : List Int) (r : Int) (h : checkSums acc ds = some r) :
    r = acc + ds.sum ∧ (ds ≠ [] → r ≤ maxTotal) := by
  induction ds generalizing acc with
  | nil => simp only [checkSums, Option.some.injEq] at h; simp [h]
  | cons d t ih =>
    unfold checkSums at h
    split at h
    · cases h
    · rename_i hle
      obtain ⟨h1, h2⟩ := ih _ h
      refine ⟨by rw [h1]; simp only [List.sum_cons]; omega, ?_⟩
      intro _
      cases t with
      | nil => simp only [checkSums, Option.some.injEq] at h; omega
      | cons e t' => exact h2 (by simp)

theorem sum_map_sub (u : List Val) (f g : Val → Int) :
    (u.map (fun x => f x - g x)).sum = (u.map f).sum - (u.map g).sum := by
  induction u with
  | nil => simp
  | cons x t ih => simp only [List.map_cons, List.sum_cons, ih]; omega

/-- `0 ≤ tvpAfterUpdatesBeforeRemovals ≤ 2·MaxTotalVotingPower` -/
theorem verifyUpdates_bounds (vals u d : List Val) (removed tvp : Int)
    (hp : ∀ v ∈ vals, 0 ≤ v.power) (htot : totalPower vals = sumPower vals)
    (hle : sumPower vals ≤ maxTotal) (hu : SAddr u) (hd : SAddr d)
    (hup : ∀ v ∈ u, 0 < v.power)
    (hrem : verifyRemovals vals d 0 = some removed)
    (hver : verifyUpdates u vals removed = some tvp) :
    0 ≤ tvp ∧ tvp ≤ 2 * maxTotal := by
  unfold verifyUpdates at hver
  cases hcs : checkSums (totalPower vals - removed) (sortInt (u.map (delta vals))) with
  | none => rw [hcs] at hver; cases hver
  | some r =>
    rw [hcs] at hver
    simp only [Option.map_some, Option.some.injEq] at hver
    obtain ⟨h1, h2⟩ := checkSums_eq _ _ _ hcs
    rw [sortInt_sum] at h1
    have hrm := verifyRemovals_eq _ _ _ _ hrem
    have hrm_le := sum_oldPower_le vals (d.map (·.addr)) hd.nodup hp
    have hdel : u.map (delta vals) = u.map (fun x => x.power - oldPower vals x.addr) := by
      apply List.map_congr_left; intro x _; exact delta_eq vals x
    rw [hdel, sum_map_sub] at h1
    have hold : (u.map (fun x => oldPower vals x.addr)).sum ≤ sumPower vals := by
      have := sum_oldPower_le vals (u.map (·.addr)) hu.nodup hp
      rw [List.map_map] at this
      exact this
    have hupos : 0 ≤ (List.map Val.power u).sum :=
      sumPower_nonneg u (fun v hv => by have := hup v hv; omega)
    have hrem0 : 0 ≤ removed := by
      rw [hrm]
      have : ∀ l : List Nat, 0 ≤ (l.map (oldPower vals)).sum := by
        intro l; induction l with
        | nil => simp
        | cons a t ih => simp only [List.map_cons, List.sum_cons]; have := oldPower_nonneg vals hp a; omega
      have := this (d.map (·.addr)); omega
    rw [htot] at h1
    constructor
    · omega
    · cases hun : u with
      | nil =>
        rw [hun] at h1; simp at h1
        rw [maxTotal_eq] at hle ⊢; omega
      | cons x t =>
        have : sortInt (u.map (delta vals)) ≠ [] := by
          rw [hun]; simp only [List.map_cons, sortInt]; exact insertInt_ne_nil _ _
        have := h2 this
        rw [maxTotal_eq] at hle this ⊢; omega

theorem perm_prioSum {l1 l2 : List Val} (hp : l1.Perm l2) : prioSum l1 = prioSum l2 := by
  induction hp with
  | nil => rfl
  | cons x _ ih => simp only [prioSum]; omega
  | swap x y l => simp only [prioSum]; omega
  | trans _ _ ih1 ih2 => omega

/-- reachable sets: well-formed, priorities within `3·MaxTotalVotingPower` -/
structure Reach (l : List Val) : Prop where
  wf : WF l
  bound : PBound prioCap l

theorem WF.total_eq {l : List Val} (h : WF l) : totalPower l = sumPower l := by
  have := h.total_le; rw [maxTotal_eq] at this
  unfold totalPower
  rw [totalFrom_eq l 0 (by omega) (fun v hv => by have := h.pos v hv; omega) (by omega)]; omega

/-- priorities right after a successful update: within the window, centred, nothing clamped -/
theorem updateCore_reach (s s' : VSet) (u d : List Val) (allow : Bool)
    (hpre : PreWF s.vals) (htot : totalPower s.vals = sumPower s.vals)
    (hle : sumPower s.vals ≤ maxTotal) (hb : PBound prioCap s.vals)
    (hu : SAddr u) (hd : SAddr d)
    (hup : ∀ v ∈ u, 0 < v.power) (hdisj : ∀ y ∈ u, ∀ z ∈ d, y.addr ≠ z.addr)
    (h : updateCore s u d allow = (s', none)) :
    PBound (2 * sumPower s'.vals) s'.vals ∧ PBound prioCap s'.vals ∧
    0 ≤ prioSum s'.vals ∧ prioSum s'.vals < (s'.vals.length : Int) := by
  obtain ⟨removed, tvp, v2, hrem, hver, hnp, hvals, hv2s, hv2ne, hv2pos, hv2mem, _⟩ :=
    updateCore_decomp s s' u d allow hpre hu hd hup hdisj h
  have hp0 : ∀ v ∈ s.vals, 0 ≤ v.power := fun v hv => by have := hpre.pos v hv; omega
  obtain ⟨t1, t2⟩ := verifyUpdates_bounds s.vals u d removed tvp hp0 htot hle hu hd hup hrem hver
  rw [maxTotal_eq] at t2
  have hb2 : PBound prioCap v2 := by
    intro x hx
    rcases hv2mem x hx with h1 | h1
    · unfold computeNewPriorities at h1
      obtain ⟨y, hy, e⟩ := List.mem_map.mp h1
      cases hf : findAddr s.vals y.addr with
      | none => rw [hf] at e; rw [← e]; simp only [setPrio]; unfold prioCap; omega
      | some v =>
        rw [hf] at e; rw [← e]; simp only [setPrio]
        exact hb v (findAddr_some hf).1
    · exact hb x h1
  have hnp' : totalPanicsFrom 0 v2 = false := hnp
  have htot2 := totalFrom_noclip v2 0 (by omega) (by rw [maxTotal_eq]; omega)
    (fun x hx => by have := hv2pos x hx; omega) hnp'
  have hT2 : totalPower v2 = sumPower v2 := by unfold totalPower; rw [htot2.1]; omega
  have hT2pos := sumPower_pos hv2ne hv2pos
  have hT2le : sumPower v2 ≤ 1152921504606846975 := by have := htot2.2; rw [maxTotal_eq] at this; omega
  rw [hvals, windowFactor_eq, hT2]
  obtain ⟨r1, r2⟩ := rescale_spec v2 prioCap (sumPower v2) hv2ne (by unfold prioCap; omega)
    (by unfold prioCap; omega) hT2pos hT2le hb2
  have hrap := rescale_sameAP v2 (2 * sumPower v2)
  have hrne : rescale v2 (2 * sumPower v2) ≠ [] := by
    intro e; have := hrap.length; rw [e] at this
    exact hv2ne (List.eq_nil_of_length_eq_zero this.symm)
  obtain ⟨_, s2, s3, s4⟩ := shift_spec _ prioCap (2 * sumPower v2) hrne (by unfold prioCap; omega)
    (by unfold prioCap; omega) r1 r2
  have hap4 : SameAP (shiftByAvg (rescale v2 (2 * sumPower v2))) v2 :=
    (shiftByAvg_sameAP _).trans hrap
  have hlen := (shiftByAvg_sameAP (rescale v2 (2 * sumPower v2))).length
  generalize shiftByAvg (rescale v2 (2 * sumPower v2)) = v4 at *
  have hperm := sortBy_perm lePower v4
  have hsum : sumPower (sortBy lePower v4) = sumPower v2 := by
    rw [perm_sumPower hperm, hap4.sumPower]
  rw [hsum]
  refine ⟨?_, ?_, ?_, ?_⟩
  · intro x hx; exact s2 x (hperm.mem_iff.mp hx)
  · intro x hx; have := s2 x (hperm.mem_iff.mp hx); unfold prioCap; omega
  · rw [perm_prioSum hperm]; exact s3
  · rw [perm_prioSum hperm, hperm.length_eq, hlen]; exact s4

end Tmv.ValSet
