import Tmv.Model.Wal
/-! Helper lemmas for the WAL record framing (C15). -/
namespace Tmv.Wal
open Tmv

/-- what the theorems assume about the parameters: the checksum has 4 bytes, lengths fit the
4-byte length field, and the empty payload is not a WAL message -/
structure Good (P : Params) : Prop where
  crcLen : ∀ d, (P.crc d).length = 4
  maxLt : P.maxLen < 4294967296
  parseNil : P.parse [] = none

/-- a record the encoder accepts and the decoder can return -/
def ValidRec (P : Params) (d : Bytes) : Prop :=
  0 < d.length ∧ d.length ≤ P.maxLen ∧ (P.parse d).isSome = true

theorem be32_length (n : Nat) : (be32 n).length = 4 := rfl

theorem ofBe32_be32 (n : Nat) (h : n < 4294967296) : ofBe32 (be32 n) = n := by
  simp [be32, ofBe32, List.getD]
  omega

theorem frame_length (P : Params) (G : Good P) (d : Bytes) : (frame P d).length = 8 + d.length := by
  simp [frame, G.crcLen, be32_length]; omega

theorem frames_nil (P : Params) : frames P [] = [] := rfl

theorem frames_cons (P : Params) (d : Bytes) (ds : List Bytes) :
    frames P (d :: ds) = frame P d ++ frames P ds := by
  simp [frames]

theorem frames_append (P : Params) (a b : List Bytes) :
    frames P (a ++ b) = frames P a ++ frames P b := by
  simp [frames]

theorem encode_valid (P : Params) (d : Bytes) (h : d.length ≤ P.maxLen) :
    encode P d = some (frame P d) := by
  simp [encode, frame]; omega

theorem check_valid (P : Params) (d rest : Bytes) (hv : ValidRec P d) :
    check P (P.crc d) d rest = (.msg d, rest) := by
  obtain ⟨_, _, hp⟩ := hv
  unfold check
  simp only [ne_eq, not_true_eq_false, if_false]
  cases h : P.parse d with
  | none => simp [h] at hp
  | some v => rfl

/-- the decoder returns the record the encoder framed, and leaves the rest of the stream -/
theorem decodeG_frame (P : Params) (G : Good P) (d rest : Bytes) (hv : ValidRec P d) :
    decodeG P (frame P d ++ rest) = (.msg d, rest) := by
  have hc := G.crcLen d
  have hl := be32_length d.length
  obtain ⟨h0, hmax, hp⟩ := hv
  have hlt : d.length < 4294967296 := Nat.lt_of_le_of_lt hmax G.maxLt
  have e1 : frame P d ++ rest = P.crc d ++ (be32 d.length ++ (d ++ rest)) := by simp [frame]
  rw [e1]
  unfold decodeG
  have hne : (P.crc d ++ (be32 d.length ++ (d ++ rest))).isEmpty = false := by
    cases h : P.crc d with
    | nil => simp [h] at hc
    | cons a t => rfl
  have hlen : ¬ (P.crc d ++ (be32 d.length ++ (d ++ rest))).length < 4 := by
    simp [hc]
  simp only [hne, hlen, if_false, Bool.false_eq_true]
  rw [List.take_left' hc, List.drop_left' hc]
  have hlen2 : ¬ (be32 d.length ++ (d ++ rest)).length < 4 := by simp [hl]
  simp only [hlen2, if_false]
  rw [List.take_left' hl, List.drop_left' hl, ofBe32_be32 _ hlt]
  have h1 : ¬ d.length > P.maxLen := by omega
  have h2 : ¬ d.length = 0 := by omega
  have h3 : ¬ (d ++ rest).length < d.length := by simp
  simp only [h1, h2, h3, if_false]
  rw [List.take_left' rfl, List.drop_left' rfl]
  exact check_valid P d rest ⟨h0, hmax, hp⟩


theorem padTo_full (n : Nat) (b : Bytes) (h : b.length = n) : padTo n b = b := by
  simp [padTo, h]

theorem decodeF_frame (P : Params) (G : Good P) (d rest : Bytes) (hv : ValidRec P d) :
    decodeF P (frame P d ++ rest) = (.msg d, rest) := by
  have hc := G.crcLen d
  have hl := be32_length d.length
  obtain ⟨h0, hmax, hp⟩ := hv
  have hlt : d.length < 4294967296 := Nat.lt_of_le_of_lt hmax G.maxLt
  have e1 : frame P d ++ rest = P.crc d ++ (be32 d.length ++ (d ++ rest)) := by simp [frame]
  rw [e1]
  unfold decodeF
  have hne : (P.crc d ++ (be32 d.length ++ (d ++ rest))).isEmpty = false := by
    cases h : P.crc d with
    | nil => simp [h] at hc
    | cons a t => rfl
  simp only [hne, if_false, Bool.false_eq_true]
  rw [List.take_left' hc, List.drop_left' hc, padTo_full 4 _ hc]
  have hne2 : (be32 d.length ++ (d ++ rest)).isEmpty = false := rfl
  simp only [hne2, if_false, Bool.false_eq_true]
  rw [List.take_left' hl, List.drop_left' hl, ofBe32_be32 _ hlt]
  have h1 : ¬ d.length > P.maxLen := by omega
  have h2 : ¬ d.length = 0 := by omega
  have h3 : (d ++ rest).isEmpty = false := by
    cases d with
    | nil => simp at h0
    | cons a t => rfl
  simp only [h1, h2, h3, if_false, Bool.false_eq_true]
  rw [List.take_left' rfl, List.drop_left' rfl, padTo_full _ _ rfl]
  exact check_valid P d rest ⟨h0, hmax, hp⟩

/-- a result that is not a record -/
def DecRes.isMsg : DecRes → Bool
  | .msg _ => true
  | _ => false

theorem check_fst (P : Params) (c d rest : Bytes) :
    (check P c d rest).1 = .msg d ∨ (check P c d rest).1.isMsg = false := by
  unfold check
  split
  · right; rfl
  · split
    · right; rfl
    · left; rfl

/-- through the group reader a torn record (a proper prefix of a frame) never decodes -/
theorem decodeG_torn (P : Params) (G : Good P) (d : Bytes) (hv : ValidRec P d) (m : Nat)
    (hm : m < (frame P d).length) :
    (decodeG P ((frame P d).take m)).1.isMsg = false := by
  have hc := G.crcLen d
  have hl := be32_length d.length
  obtain ⟨h0, hmax, hp⟩ := hv
  have hlt : d.length < 4294967296 := Nat.lt_of_le_of_lt hmax G.maxLt
  have hfl := frame_length P G d
  have e1 : frame P d = P.crc d ++ (be32 d.length ++ d) := by simp [frame]
  unfold decodeG
  split
  · rfl
  · split
    · rfl
    · rename_i h4
      have hm4 : 4 ≤ m := by
        simp [List.length_take] at h4; omega
      have ht : (frame P d).take m = P.crc d ++ (be32 d.length ++ d).take (m - 4) := by
        rw [e1, List.take_append, hc]
        rw [List.take_of_length_le (by omega)]
      rw [ht, List.take_left' hc, List.drop_left' hc]
      simp only
      split
      · rfl
      · rename_i h8
        have hm8 : 8 ≤ m := by
          simp [List.length_take, hl] at h8; omega
        have ht2 : (be32 d.length ++ d).take (m - 4) = be32 d.length ++ d.take (m - 8) := by
          rw [List.take_append, hl, List.take_of_length_le (by rw [hl]; omega)]
          have : m - 4 - 4 = m - 8 := by omega
          rw [this]
        rw [ht2, List.take_left' hl, List.drop_left' hl, ofBe32_be32 _ hlt]
        have h1 : ¬ d.length > P.maxLen := by omega
        have h2 : ¬ d.length = 0 := by omega
        have h3 : (d.take (m - 8)).length < d.length := by
          simp [List.length_take]; omega
        simp only [h1, h2, h3, if_false, if_true]
        rfl


/-- number of whole frames of `ds` inside the first `n` bytes of `frames P ds` -/
def whole (P : Params) : List Bytes → Nat → Nat
  | [], _ => 0
  | d :: ds, n => if (frame P d).length ≤ n then whole P ds (n - (frame P d).length) + 1 else 0

theorem whole_le (P : Params) : ∀ (ds : List Bytes) (n : Nat), whole P ds n ≤ ds.length
  | [], _ => by simp [whole]
  | d :: ds, n => by
    unfold whole
    split
    · have := whole_le P ds (n - (frame P d).length); simp; omega
    · simp

theorem whole_mono (P : Params) : ∀ (ds : List Bytes) (n n' : Nat), n ≤ n' → whole P ds n ≤ whole P ds n'
  | [], _, _, _ => by simp [whole]
  | d :: ds, n, n', h => by
    unfold whole
    split
    · rename_i h1
      have h2 : (frame P d).length ≤ n' := by omega
      simp only [h2, if_true]
      have := whole_mono P ds (n - (frame P d).length) (n' - (frame P d).length) (by omega)
      omega
    · omega

theorem whole_all (P : Params) : ∀ (ds : List Bytes) (n : Nat), (frames P ds).length ≤ n →
    whole P ds n = ds.length
  | [], _, _ => by simp [whole]
  | d :: ds, n, h => by
    rw [frames_cons] at h
    simp at h
    unfold whole
    have h1 : (frame P d).length ≤ n := by omega
    simp only [h1, if_true]
    rw [whole_all P ds _ (by omega)]; simp

/-- the tail left after the whole frames: nothing, or a proper prefix of the next frame -/
def TornAt (P : Params) (ds : List Bytes) (k : Nat) (t : Bytes) : Prop :=
  t = [] ∨ ∃ d m, ds[k]? = some d ∧ m < (frame P d).length ∧ t = (frame P d).take m

theorem take_frames (P : Params) : ∀ (ds : List Bytes) (n : Nat),
    ∃ t, (frames P ds).take n = frames P (ds.take (whole P ds n)) ++ t ∧ TornAt P ds (whole P ds n) t
  | [], n => ⟨[], by simp [frames_nil, whole], Or.inl rfl⟩
  | d :: ds, n => by
    unfold whole
    split
    · rename_i h
      obtain ⟨t, ht, hT⟩ := take_frames P ds (n - (frame P d).length)
      refine ⟨t, ?_, ?_⟩
      · rw [frames_cons, List.take_append, List.take_of_length_le h, ht]
        simp [frames_cons]
      · rcases hT with h0 | ⟨d', m, hd, hm, he⟩
        · exact Or.inl h0
        · exact Or.inr ⟨d', m, by simpa using hd, hm, he⟩
    · rename_i h
      refine ⟨(frame P d).take n, ?_, Or.inr ⟨d, n, by simp, by omega, rfl⟩⟩
      rw [frames_cons, List.take_append]
      have : n - (frame P d).length = 0 := by omega
      simp [this, frames_nil]

theorem decodeAll_succ_msg (dec : Bytes → DecRes × Bytes) (s : Bytes) (f : Nat) (d rest : Bytes)
    (h : dec s = (.msg d, rest)) :
    decodeAllWith dec (f + 1) s = (d :: (decodeAllWith dec f rest).1, (decodeAllWith dec f rest).2) := by
  rw [decodeAllWith]
  simp [h]

theorem decodeAll_frames_append (P : Params) (dec : Bytes → DecRes × Bytes)
    (hdec : ∀ d rest, ValidRec P d → dec (frame P d ++ rest) = (.msg d, rest)) :
    ∀ (ds : List Bytes) (fuel : Nat) (t : Bytes), (∀ d ∈ ds, ValidRec P d) →
      decodeAllWith dec (ds.length + fuel) (frames P ds ++ t) =
        (ds ++ (decodeAllWith dec fuel t).1, (decodeAllWith dec fuel t).2)
  | [], fuel, t, _ => by simp [frames_nil]
  | d :: ds, fuel, t, hv => by
    have hd : ValidRec P d := hv d (by simp)
    have ih := decodeAll_frames_append P dec hdec ds fuel t (fun x hx => hv x (by simp [hx]))
    have e : (d :: ds).length + fuel = (ds.length + fuel) + 1 := by simp; omega
    rw [e, frames_cons, List.append_assoc]
    rw [decodeAll_succ_msg dec _ _ d _ (hdec d _ hd), ih]
    simp

theorem decodeAll_stop (dec : Bytes → DecRes × Bytes) (t : Bytes) (fuel : Nat)
    (h : (dec t).1.isMsg = false) : decodeAllWith dec (fuel + 1) t = ([], (dec t).1) := by
  unfold decodeAllWith
  cases hd : dec t with
  | mk r rest =>
    cases r with
    | msg x => simp [hd, DecRes.isMsg] at h
    | eof => rfl
    | corrupt e => rfl


theorem length_le_frames (P : Params) (G : Good P) : ∀ ds : List Bytes, ds.length ≤ (frames P ds).length
  | [] => by simp
  | d :: ds => by
    have := length_le_frames P G ds
    rw [frames_cons]; simp [frame_length P G]; omega

theorem decodeG_nil (P : Params) : decodeG P [] = (.eof, []) := by simp [decodeG]

theorem tornAt_decodeG (P : Params) (G : Good P) (ds : List Bytes) (hv : ∀ d ∈ ds, ValidRec P d)
    (k : Nat) (t : Bytes) (h : TornAt P ds k t) : (decodeG P t).1.isMsg = false := by
  rcases h with rfl | ⟨d, m, hd, hm, rfl⟩
  · rw [decodeG_nil]; rfl
  · exact decodeG_torn P G d (hv d (List.mem_of_getElem? hd)) m hm

/-- reading a (possibly torn) prefix of a sequence of frames through the group reader returns
exactly the records whose frames are whole, in order, byte-identical, then stops -/
theorem readAllG_prefix (P : Params) (G : Good P) (ds : List Bytes) (hv : ∀ d ∈ ds, ValidRec P d)
    (n : Nat) :
    ∃ r, r.isMsg = false ∧ readAllG P ((frames P ds).take n) = (ds.take (whole P ds n), r) := by
  obtain ⟨t, ht, hT⟩ := take_frames P ds n
  have hvk : ∀ d ∈ ds.take (whole P ds n), ValidRec P d := fun d hd => hv d (List.mem_of_mem_take hd)
  have hstop := tornAt_decodeG P G ds hv _ t hT
  refine ⟨(decodeG P t).1, hstop, ?_⟩
  unfold readAllG
  rw [ht]
  have hlen := length_le_frames P G (ds.take (whole P ds n))
  have e : (frames P (ds.take (whole P ds n)) ++ t).length + 1 =
      (ds.take (whole P ds n)).length +
        ((frames P (ds.take (whole P ds n)) ++ t).length - (ds.take (whole P ds n)).length + 1) := by
    simp only [List.length_append]; omega
  rw [e, decodeAll_frames_append P (decodeG P) (fun d rest h => decodeG_frame P G d rest h) _ _ t hvk,
    decodeAll_stop _ _ _ hstop]
  simp

theorem readAllG_frames (P : Params) (G : Good P) (ds : List Bytes) (hv : ∀ d ∈ ds, ValidRec P d) :
    readAllG P (frames P ds) = (ds, .eof) := by
  have hvk := hv
  unfold readAllG
  have hlen := length_le_frames P G ds
  have e : (frames P ds).length + 1 = ds.length + ((frames P ds).length - ds.length + 1) := by omega
  have := decodeAll_frames_append P (decodeG P) (fun d rest h => decodeG_frame P G d rest h) ds
    ((frames P ds).length - ds.length + 1) [] hv
  rw [List.append_nil] at this
  rw [e, this, decodeAll_stop _ _ _ (by rw [decodeG_nil]; rfl), decodeG_nil]
  simp


/-- two different payloads of the same length with the same checksum -/
def Collision (P : Params) : Prop := ∃ a b : Bytes, a ≠ b ∧ a.length = b.length ∧ P.crc a = P.crc b

theorem check_nil_not_msg (P : Params) (G : Good P) (c rest : Bytes) :
    (check P c [] rest).1.isMsg = false := by
  unfold check
  split
  · rfl
  · rw [G.parseNil]; rfl

theorem padTo_length (n : Nat) (b : Bytes) (h : b.length ≤ n) : (padTo n b).length = n := by
  simp [padTo]; omega

/-- on a plain file a torn record does not decode, unless zero-filling the missing bytes gives
back the record itself (its missing tail was all zero) or a checksum collision -/
theorem decodeF_torn (P : Params) (G : Good P) (d : Bytes) (hv : ValidRec P d) (m : Nat)
    (hm : m < (frame P d).length) :
    (decodeF P ((frame P d).take m)).1.isMsg = false ∨
      decodeF P ((frame P d).take m) = (.msg d, []) ∨ Collision P := by
  have hc := G.crcLen d
  have hl := be32_length d.length
  obtain ⟨h0, hmax, hp⟩ := hv
  have hlt : d.length < 4294967296 := Nat.lt_of_le_of_lt hmax G.maxLt
  have hfl := frame_length P G d
  have e1 : frame P d = P.crc d ++ (be32 d.length ++ d) := by simp [frame]
  by_cases hm4 : m ≤ 4
  · -- inside the checksum
    left
    have ht : (frame P d).take m = (P.crc d).take m := by
      rw [e1, List.take_append, hc]
      have : m - 4 = 0 := by omega
      simp [this]
    rw [ht]
    unfold decodeF
    split
    · rfl
    · have : ((P.crc d).take m).drop 4 = [] := by
        apply List.drop_eq_nil_of_le; simp [List.length_take]; omega
      simp [this, DecRes.isMsg]
  · have ht : (frame P d).take m = P.crc d ++ (be32 d.length ++ d).take (m - 4) := by
      rw [e1, List.take_append, hc, List.take_of_length_le (by omega)]
    rw [ht]
    unfold decodeF
    have hne : (P.crc d ++ (be32 d.length ++ d).take (m - 4)).isEmpty = false := by
      cases h : P.crc d with
      | nil => simp [h] at hc
      | cons a t => rfl
    simp only [hne, if_false, Bool.false_eq_true]
    rw [List.take_left' hc, List.drop_left' hc, padTo_full 4 _ hc]
    by_cases hm8 : m < 8
    · -- inside the length field
      left
      have ht2 : (be32 d.length ++ d).take (m - 4) = (be32 d.length).take (m - 4) := by
        rw [List.take_append, hl]
        have : m - 4 - 4 = 0 := by omega
        simp [this]
      rw [ht2]
      have hne2 : ((be32 d.length).take (m - 4)).isEmpty = false := by
        have : 0 < ((be32 d.length).take (m - 4)).length := by simp [List.length_take, hl]; omega
        cases h : (be32 d.length).take (m - 4) with
        | nil => simp [h] at this
        | cons a t => rfl
      have hdrop : ((be32 d.length).take (m - 4)).drop 4 = [] := by
        apply List.drop_eq_nil_of_le; simp [List.length_take]; omega
      simp only [hne2, if_false, Bool.false_eq_true, hdrop]
      split
      · rfl
      · split
        · exact check_nil_not_msg P G _ _
        · rfl
    · have ht2 : (be32 d.length ++ d).take (m - 4) = be32 d.length ++ d.take (m - 8) := by
        rw [List.take_append, hl, List.take_of_length_le (by rw [hl]; omega)]
        have : m - 4 - 4 = m - 8 := by omega
        rw [this]
      rw [ht2]
      have hne2 : (be32 d.length ++ d.take (m - 8)).isEmpty = false := rfl
      simp only [hne2, if_false, Bool.false_eq_true]
      rw [List.take_left' hl, List.drop_left' hl, ofBe32_be32 _ hlt]
      have h1 : ¬ d.length > P.maxLen := by omega
      have h2 : ¬ d.length = 0 := by omega
      simp only [h1, h2, if_false]
      by_cases hm8' : m = 8
      · left
        have : d.take (m - 8) = [] := by simp [hm8']
        simp [this, DecRes.isMsg]
      · have hlen : (d.take (m - 8)).length = m - 8 := by simp [List.length_take]; omega
        have hne3 : (d.take (m - 8)).isEmpty = false := by
          cases h : d.take (m - 8) with
          | nil => simp [h] at hlen; omega
          | cons a t => rfl
        simp only [hne3, if_false, Bool.false_eq_true]
        have htt : (d.take (m - 8)).take d.length = d.take (m - 8) := by
          apply List.take_of_length_le; omega
        have hdd : (d.take (m - 8)).drop d.length = [] := by
          apply List.drop_eq_nil_of_le; omega
        rw [htt, hdd]
        have hpl : (padTo d.length (d.take (m - 8))).length = d.length :=
          padTo_length _ _ (by omega)
        unfold check
        split
        · left; rfl
        · rename_i hcrc
          have hcrc' : P.crc (padTo d.length (d.take (m - 8))) = P.crc d := by simpa using hcrc
          by_cases heq : padTo d.length (d.take (m - 8)) = d
          · rw [heq]
            cases hpd : P.parse d with
            | none => left; rfl
            | some v => right; left; rfl
          · right; right
            exact ⟨_, _, heq, hpl, hcrc'⟩


theorem decodeF_nil (P : Params) : decodeF P [] = (.eof, []) := by simp [decodeF]

/-- decoding a (possibly torn) prefix of a frame sequence from a plain file (what the repair
does) returns the whole records and at most the torn one completed -/
theorem readAllF_prefix (P : Params) (G : Good P) (ds : List Bytes) (hv : ∀ d ∈ ds, ValidRec P d)
    (n : Nat) :
    (∃ k, whole P ds n ≤ k ∧ k ≤ ds.length ∧ (readAllF P ((frames P ds).take n)).1 = ds.take k)
      ∨ Collision P := by
  obtain ⟨t, ht, hT⟩ := take_frames P ds n
  have hvk : ∀ d ∈ ds.take (whole P ds n), ValidRec P d := fun d hd => hv d (List.mem_of_mem_take hd)
  have hlen := length_le_frames P G (ds.take (whole P ds n))
  have hstep := decodeAll_frames_append P (decodeF P) (fun d rest h => decodeF_frame P G d rest h)
    (ds.take (whole P ds n))
  have hk := whole_le P ds n
  unfold readAllF
  rw [ht]
  have e : (frames P (ds.take (whole P ds n)) ++ t).length + 1 =
      (ds.take (whole P ds n)).length +
        ((frames P (ds.take (whole P ds n))).length - (ds.take (whole P ds n)).length + t.length + 1) := by
    simp only [List.length_append]; omega
  rw [e, hstep _ t hvk]
  simp only
  have stopCase : (decodeF P t).1.isMsg = false →
      ∃ k, whole P ds n ≤ k ∧ k ≤ ds.length ∧
        ds.take (whole P ds n) ++ (decodeAllWith (decodeF P)
          ((frames P (ds.take (whole P ds n))).length - (ds.take (whole P ds n)).length + t.length + 1) t).1
          = ds.take k := by
    intro h
    refine ⟨whole P ds n, Nat.le_refl _, hk, ?_⟩
    rw [decodeAll_stop _ _ _ h]; simp
  rcases hT with rfl | ⟨d, m, hd, hm, rfl⟩
  · left; exact stopCase (by rw [decodeF_nil]; rfl)
  · have hdv : ValidRec P d := hv d (List.mem_of_getElem? hd)
    rcases decodeF_torn P G d hdv m hm with h | h | h
    · left; exact stopCase h
    · left
      have hlt : whole P ds n < ds.length := by
        rcases Nat.lt_or_ge (whole P ds n) ds.length with h1 | h1
        · exact h1
        · rw [List.getElem?_eq_none h1] at hd; cases hd
      have htne : 0 < ((frame P d).take m).length := by
        cases hq : (frame P d).take m with
        | nil => rw [hq, decodeF_nil] at h; cases h
        | cons a r => simp
      refine ⟨whole P ds n + 1, Nat.le_succ _, hlt, ?_⟩
      have e2 : (frames P (ds.take (whole P ds n))).length - (ds.take (whole P ds n)).length +
          ((frame P d).take m).length + 1 =
          ((frames P (ds.take (whole P ds n))).length - (ds.take (whole P ds n)).length +
          ((frame P d).take m).length - 1) + 1 + 1 := by omega
      rw [e2, decodeAll_succ_msg _ _ _ d [] h, decodeAll_stop _ _ _ (by rw [decodeF_nil]; rfl)]
      simp only
      rw [List.take_add_one, hd]
      simp
    · right; exact h

/-- `repairWalFile` on a torn log keeps every whole record (and nothing that was not written) -/
theorem repair_prefix (P : Params) (G : Good P) (ds : List Bytes) (hv : ∀ d ∈ ds, ValidRec P d)
    (n : Nat) :
    (∃ k, whole P ds n ≤ k ∧ k ≤ ds.length ∧ repair P ((frames P ds).take n) = frames P (ds.take k))
      ∨ Collision P := by
  rcases readAllF_prefix P G ds hv n with ⟨k, h1, h2, h3⟩ | h
  · left; exact ⟨k, h1, h2, by unfold repair; rw [h3]⟩
  · right; exact h


/-- decoding `checksum ‖ length ‖ payload ‖ rest` for any 4 checksum bytes and a payload within
the limits comes down to the checks after the payload was read -/
theorem decodeG_parts (P : Params) (G : Good P) (c x rest : Bytes) (hc : c.length = 4)
    (h0 : 0 < x.length) (hmax : x.length ≤ P.maxLen) :
    decodeG P (c ++ (be32 x.length ++ (x ++ rest))) = check P c x rest := by
  have hl := be32_length x.length
  have hlt : x.length < 4294967296 := Nat.lt_of_le_of_lt hmax G.maxLt
  unfold decodeG
  have hne : (c ++ (be32 x.length ++ (x ++ rest))).isEmpty = false := by
    cases c with
    | nil => simp at hc
    | cons a t => rfl
  have hlen : ¬ (c ++ (be32 x.length ++ (x ++ rest))).length < 4 := by simp [hc]
  simp only [hne, hlen, if_false, Bool.false_eq_true]
  rw [List.take_left' hc, List.drop_left' hc]
  have hlen2 : ¬ (be32 x.length ++ (x ++ rest)).length < 4 := by simp [hl]
  simp only [hlen2, if_false]
  rw [List.take_left' hl, List.drop_left' hl, ofBe32_be32 _ hlt]
  have h1 : ¬ x.length > P.maxLen := by omega
  have h2 : ¬ x.length = 0 := by omega
  have h3 : ¬ (x ++ rest).length < x.length := by simp
  simp only [h1, h2, h3, if_false]
  rw [List.take_left' rfl, List.drop_left' rfl]

theorem be32_ofBe32 (l : Bytes) (h : l.length = 4) : be32 (ofBe32 l) = l := by
  match l, h with
  | [a, b, c, d], _ =>
    have ha := a.toNat_lt; have hb := b.toNat_lt; have hc := c.toNat_lt; have hd := d.toNat_lt
    simp only [be32, ofBe32, List.getD_cons_zero, List.getD_cons_succ, List.cons.injEq, and_true]
    refine ⟨?_, ?_, ?_, ?_⟩
    · have : (a.toNat * 16777216 + b.toNat * 65536 + c.toNat * 256 + d.toNat) / 16777216 % 256 = a.toNat := by omega
      rw [this]; simp
    · have : (a.toNat * 16777216 + b.toNat * 65536 + c.toNat * 256 + d.toNat) / 65536 % 256 = b.toNat := by omega
      rw [this]; simp
    · have : (a.toNat * 16777216 + b.toNat * 65536 + c.toNat * 256 + d.toNat) / 256 % 256 = c.toNat := by omega
      rw [this]; simp
    · have : (a.toNat * 16777216 + b.toNat * 65536 + c.toNat * 256 + d.toNat) % 256 = d.toNat := by omega
      rw [this]; simp

/-- whatever the stream: a returned record has the length the length field states and the
checksum the checksum field states -/
theorem decodeG_msg_inv (P : Params) (c lb tail x r : Bytes) (hc : c.length = 4) (hl : lb.length = 4)
    (h : decodeG P (c ++ (lb ++ tail)) = (.msg x, r)) : x.length = ofBe32 lb ∧ P.crc x = c := by
  unfold decodeG at h
  split at h
  · cases h
  · split at h
    · cases h
    · rw [List.take_left' hc, List.drop_left' hc] at h
      simp only at h
      split at h
      · cases h
      · rw [List.take_left' hl, List.drop_left' hl] at h
        split at h
        · cases h
        · split at h
          · cases h
          · split at h
            · cases h
            · rename_i hlen
              unfold check at h
              split at h
              · cases h
              · rename_i hcrc
                split at h
                · cases h
                · simp only [Prod.mk.injEq, DecRes.msg.injEq] at h
                  obtain ⟨hx, _⟩ := h
                  subst hx
                  refine ⟨?_, by simpa using hcrc⟩
                  simp [List.length_take]; omega


/-- hypothesis on the checksum: changing one byte of a payload changes its checksum. (True of
CRC-32C, which detects every error burst of at most 32 bits; not proved here.) -/
def DetectsByteFlips (P : Params) : Prop :=
  ∀ (d : Bytes) (i : Nat) (b : UInt8), d.set i b ≠ d → P.crc (d.set i b) ≠ P.crc d

theorem readAllG_stop (P : Params) (G : Good P) (ds : List Bytes) (hv : ∀ d ∈ ds, ValidRec P d)
    (s : Bytes) (hstop : (decodeG P s).1.isMsg = false) :
    readAllG P (frames P ds ++ s) = (ds, (decodeG P s).1) := by
  unfold readAllG
  have hlen := length_le_frames P G ds
  have e : (frames P ds ++ s).length + 1 = ds.length + ((frames P ds).length - ds.length + s.length + 1) := by
    simp only [List.length_append]; omega
  rw [e, decodeAll_frames_append P (decodeG P) (fun d rest h => decodeG_frame P G d rest h) _ _ s hv,
    decodeAll_stop _ _ _ hstop]
  simp

/-- a flipped payload byte: the record is rejected (checksum), the stream continues at the next record -/
theorem flip_payload (P : Params) (G : Good P) (hdet : DetectsByteFlips P) (d rest : Bytes)
    (hv : ValidRec P d) (i : Nat) (b : UInt8) (hne : d.set i b ≠ d) :
    decodeG P (P.crc d ++ (be32 d.length ++ (d.set i b ++ rest))) = (.corrupt .crcMismatch, rest) := by
  have := decodeG_parts P G (P.crc d) (d.set i b) rest (G.crcLen d) (by simpa using hv.1) (by simpa using hv.2.1)
  simp only [List.length_set] at this
  rw [this]
  unfold check
  simp [hdet d i b hne]

/-- a flipped checksum byte: rejected (checksum), the stream continues at the next record -/
theorem flip_crc (P : Params) (G : Good P) (d rest : Bytes) (hv : ValidRec P d) (i : Nat) (b : UInt8)
    (hne : (P.crc d).set i b ≠ P.crc d) :
    decodeG P ((P.crc d).set i b ++ (be32 d.length ++ (d ++ rest))) = (.corrupt .crcMismatch, rest) := by
  rw [decodeG_parts P G _ d rest (by simp [G.crcLen]) hv.1 hv.2.1]
  unfold check
  have : P.crc d ≠ (P.crc d).set i b := fun e => hne e.symm
  simp [this]

/-- a flipped length byte: the record is rejected (too big / short read / checksum / decoder), or
what is returned has another length than the written record and the same checksum -/
theorem flip_length (P : Params) (G : Good P) (d rest : Bytes) (i : Nat) (b : UInt8)
    (hne : (be32 d.length).set i b ≠ be32 d.length) :
    (decodeG P (P.crc d ++ ((be32 d.length).set i b ++ (d ++ rest)))).1.isMsg = false ∨
      ∃ x, (decodeG P (P.crc d ++ ((be32 d.length).set i b ++ (d ++ rest)))).1 = .msg x ∧
        x.length ≠ d.length ∧ P.crc x = P.crc d := by
  cases h : decodeG P (P.crc d ++ ((be32 d.length).set i b ++ (d ++ rest))) with
  | mk r rest' =>
    cases r with
    | eof => left; rfl
    | corrupt e => left; rfl
    | msg x =>
      right
      have hl : ((be32 d.length).set i b).length = 4 := by simp [be32_length]
      obtain ⟨h1, h2⟩ := decodeG_msg_inv P _ _ _ x rest' (G.crcLen d) hl h
      refine ⟨x, rfl, ?_, h2⟩
      intro e
      apply hne
      rw [← be32_ofBe32 _ hl, ← h1, e]

/-- Single-byte corruption of one record of a log. `i` is the offset of the changed byte in the
record's frame. In the checksum field or the payload: a reader returns exactly the records before
the damaged one and stops with a checksum error (and a tolerant reader continues with the next
record). In the length field: it stops there too, unless the bytes the wrong length selects have
the written record's checksum — then a record of another length with the same checksum exists. -/
theorem flip_detected_stream (P : Params) (G : Good P) (hdet : DetectsByteFlips P)
    (pre post : List Bytes) (d : Bytes) (hpre : ∀ x ∈ pre, ValidRec P x) (hd : ValidRec P d)
    (i : Nat) (b : UInt8) (hne : (frame P d).set i b ≠ frame P d) :
    ((i < 4 ∨ 8 ≤ i) →
      readAllG P (frames P pre ++ ((frame P d).set i b ++ frames P post)) = (pre, .corrupt .crcMismatch) ∧
      decodeG P ((frame P d).set i b ++ frames P post) = (.corrupt .crcMismatch, frames P post)) ∧
    ((4 ≤ i ∧ i < 8) →
      (readAllG P (frames P pre ++ ((frame P d).set i b ++ frames P post))).1 = pre ∨
        ∃ x, x.length ≠ d.length ∧ P.crc x = P.crc d) := by
  have hc := G.crcLen d
  have hl := be32_length d.length
  have e1 : frame P d = P.crc d ++ (be32 d.length ++ d) := by simp [frame]
  constructor
  · intro hreg
    have hdec : decodeG P ((frame P d).set i b ++ frames P post) = (.corrupt .crcMismatch, frames P post) := by
      rcases hreg with h4 | h8
      · have hs : (frame P d).set i b = (P.crc d).set i b ++ (be32 d.length ++ d) := by
          rw [e1, List.set_append]; simp [hc, h4]
        have hne' : (P.crc d).set i b ≠ P.crc d := by
          intro e; apply hne; rw [hs, e, e1]
        rw [hs]
        have := flip_crc P G d (frames P post) hd i b hne'
        simpa using this
      · have hs : (frame P d).set i b = P.crc d ++ (be32 d.length ++ d.set (i - 8) b) := by
          rw [e1, List.set_append]
          have : ¬ i < (P.crc d).length := by omega
          simp only [this, if_false]
          rw [List.set_append]
          have : ¬ i - (P.crc d).length < (be32 d.length).length := by omega
          simp only [this, if_false]
          congr 3
          omega
        have hne' : d.set (i - 8) b ≠ d := by
          intro e; apply hne; rw [hs, e, e1]
        rw [hs]
        have := flip_payload P G hdet d (frames P post) hd (i - 8) b hne'
        simpa using this
    refine ⟨?_, hdec⟩
    have := readAllG_stop P G pre hpre ((frame P d).set i b ++ frames P post) (by rw [hdec]; rfl)
    rw [this, hdec]
  · intro ⟨h4, h8⟩
    have hs : (frame P d).set i b = P.crc d ++ ((be32 d.length).set (i - 4) b ++ d) := by
      rw [e1, List.set_append]
      have : ¬ i < (P.crc d).length := by omega
      simp only [this, if_false]
      rw [List.set_append]
      have : i - (P.crc d).length < (be32 d.length).length := by omega
      simp only [this, if_true]
      congr 3
      omega
    have hne' : (be32 d.length).set (i - 4) b ≠ be32 d.length := by
      intro e; apply hne; rw [hs, e, e1]
    rw [hs]
    have key := flip_length P G d (frames P post) (i - 4) b hne'
    have assoc : P.crc d ++ ((be32 d.length).set (i - 4) b ++ d) ++ frames P post =
        P.crc d ++ ((be32 d.length).set (i - 4) b ++ (d ++ frames P post)) := by simp
    rw [assoc]
    rcases key with hstop | ⟨x, _, h1, h2⟩
    · left
      rw [readAllG_stop P G pre hpre _ hstop]
    · right; exact ⟨x, h1, h2⟩


end Tmv.Wal
