import Tmv.Lemmas.Wal
import Tmv.Model.Group
/-! Helper lemmas for the file-level WAL model (C15). -/
namespace Tmv.Wal
open Tmv

theorem lookup_setFile (fs : List (Nat × Bytes)) (i j : Nat) (b : Bytes) :
    lookupFile (setFile fs i b) j = if j = i then some b else lookupFile fs j := by
  induction fs with
  | nil =>
    by_cases h : j = i
    · subst h; simp [setFile, lookupFile]
    · have : ¬ i = j := fun e => h e.symm
      simp [setFile, lookupFile, h, this]
  | cons p rest ih =>
    obtain ⟨k, c⟩ := p
    unfold setFile
    by_cases h1 : i < k
    · simp only [h1, if_true]
      by_cases h : j = i
      · subst h; simp [lookupFile]
      · have : ¬ i = j := fun e => h e.symm
        simp [lookupFile, h, this]
    · simp only [h1, if_false]
      by_cases h2 : i = k
      · subst h2
        simp only [if_true]
        by_cases h : j = i
        · subst h; simp [lookupFile]
        · have : ¬ i = j := fun e => h e.symm
          simp [lookupFile, h, this]
      · simp only [h2, if_false]
        by_cases h : j = i
        · subst h
          have hk : ¬ k = j := fun e => h2 e.symm
          simp only [lookupFile, List.find?, hk, decide_false] at ih ⊢
          simpa using ih
        · simp only [h, if_false] at ih ⊢
          by_cases hk : k = j
          · subst hk; simp [lookupFile]
          · simp only [lookupFile, List.find?, hk, decide_false] at ih ⊢
            exact ih

theorem lookup_removeFile (fs : List (Nat × Bytes)) (i j : Nat) :
    lookupFile (removeFile fs i) j = if j = i then none else lookupFile fs j := by
  induction fs with
  | nil => simp [removeFile, lookupFile]
  | cons p rest ih =>
    obtain ⟨k, c⟩ := p
    unfold removeFile at ih ⊢
    by_cases hk : k = i
    · subst hk
      simp only [List.filter, ne_eq, not_true_eq_false, decide_false]
      rw [ih]
      by_cases h : j = k
      · simp [h]
      · have : ¬ k = j := fun e => h e.symm
        simp [h, lookupFile, this]
    · simp only [List.filter, ne_eq, hk, not_false_eq_true, decide_true]
      by_cases h : j = i
      · subst h
        simp only [if_true] at ih ⊢
        simp only [lookupFile, List.find?, hk, decide_false] at ih ⊢
        exact ih
      · simp only [h, if_false] at ih ⊢
        by_cases hkj : k = j
        · subst hkj; simp [lookupFile]
        · simp only [lookupFile, List.find?, hkj, decide_false] at ih ⊢
          exact ih


/-- content of rotated file `j` as a reader sees it (a missing file is created empty) -/
def fileAt (g : Group) (j : Nat) : Bytes := (lookupFile g.files j).getD []

/-- the records a group reader decodes from a byte string before it stops -/
def recsOf (P : Params) (b : Bytes) : List Bytes := (readAllG P b).1

theorem recsOf_frames (P : Params) (G : Good P) (ds : List Bytes) (hv : ∀ d ∈ ds, ValidRec P d) :
    recsOf P (frames P ds) = ds := by
  unfold recsOf; rw [readAllG_frames P G ds hv]

theorem recsOf_prefix (P : Params) (G : Good P) (ds : List Bytes) (hv : ∀ d ∈ ds, ValidRec P d)
    (n : Nat) : recsOf P ((frames P ds).take n) = ds.take (whole P ds n) := by
  obtain ⟨r, _, h⟩ := readAllG_prefix P G ds hv n
  unfold recsOf; rw [h]

/-- every rotated file is a sequence of whole valid records -/
def FilesOK (P : Params) (g : Group) : Prop :=
  ∀ j, ∃ ds, (∀ d ∈ ds, ValidRec P d) ∧ fileAt g j = frames P ds

def fileRecs (P : Params) (g : Group) (l : List Nat) : List Bytes :=
  l.flatMap fun j => recsOf P (fileAt g j)

theorem files_stream (P : Params) (G : Good P) (g : Group) (hf : FilesOK P g) : ∀ l : List Nat,
    (l.map (fileAt g)).flatten = frames P (fileRecs P g l) ∧ ∀ d ∈ fileRecs P g l, ValidRec P d
  | [] => by simp [fileRecs, frames_nil]
  | j :: l => by
    obtain ⟨ih1, ih2⟩ := files_stream P G g hf l
    obtain ⟨ds, hv, he⟩ := hf j
    have hr : recsOf P (fileAt g j) = ds := by rw [he]; exact recsOf_frames P G ds hv
    constructor
    · simp only [List.map_cons, List.flatten_cons, fileRecs, List.flatMap_cons]
      rw [hr, frames_append, ← he]
      congr 1
    · intro d hd
      simp only [fileRecs, List.flatMap_cons, List.mem_append] at hd
      rcases hd with hd | hd
      · rw [hr] at hd; exact hv d hd
      · exact ih2 d hd

theorem whole_append (P : Params) : ∀ (a b : List Bytes) (n : Nat),
    whole P (a ++ b) ((frames P a).length + n) = a.length + whole P b n
  | [], b, n => by simp [frames_nil]
  | d :: a, b, n => by
    have ih := whole_append P a b n
    simp only [List.cons_append, frames_cons, List.length_append, List.length_cons]
    rw [whole]
    have h1 : (frame P d).length ≤ (frame P d).length + (frames P a).length + n := by omega
    simp only [h1, if_true]
    have : (frame P d).length + (frames P a).length + n - (frame P d).length = (frames P a).length + n := by omega
    rw [this, ih]; omega

/-- what a group reader started at index `i` returns when the rotated files are whole and the
head file is a (possibly torn) prefix of the frames of `hs` -/
theorem stream_read (P : Params) (G : Good P) (g : Group) (hf : FilesOK P g) (hs : List Bytes)
    (hv : ∀ d ∈ hs, ValidRec P d) (n : Nat) (hh : g.head = (frames P hs).take n) (i : Nat) :
    ∃ r, r.isMsg = false ∧ readAllG P (streamFrom g i) =
      (fileRecs P g (List.range' i (g.maxIndex - i)) ++ hs.take (whole P hs n), r) := by
  obtain ⟨h1, h2⟩ := files_stream P G g hf (List.range' i (g.maxIndex - i))
  have hs' : streamFrom g i = (frames P (fileRecs P g (List.range' i (g.maxIndex - i)) ++ hs)).take
      ((frames P (fileRecs P g (List.range' i (g.maxIndex - i)))).length + n) := by
    unfold streamFrom
    have : (List.map (fun j => (lookupFile g.files j).getD []) (List.range' i (g.maxIndex - i))) =
        (List.range' i (g.maxIndex - i)).map (fileAt g) := rfl
    rw [this, h1, hh, frames_append, List.take_append]
    simp [List.take_of_length_le]
  have hvall : ∀ d ∈ fileRecs P g (List.range' i (g.maxIndex - i)) ++ hs, ValidRec P d := by
    intro d hd
    rcases List.mem_append.mp hd with h | h
    · exact h2 d h
    · exact hv d h
  obtain ⟨r, hr, he⟩ := readAllG_prefix P G _ hvall
    ((frames P (fileRecs P g (List.range' i (g.maxIndex - i)))).length + n)
  refine ⟨r, hr, ?_⟩
  rw [hs', he, whole_append, List.take_append]
  simp [List.take_of_length_le]


theorem check_ne_eof (P : Params) (c d rest : Bytes) : (check P c d rest).1 ≠ .eof := by
  unfold check
  split
  · simp
  · split <;> simp

theorem decodeG_eof (P : Params) (s : Bytes) (h : (decodeG P s).1 = .eof) : s = [] := by
  unfold decodeG at h
  split at h
  · rename_i he; simpa using he
  · split at h
    · cases h
    · simp only at h
      split at h
      · cases h
      · split at h
        · cases h
        · split at h
          · cases h
          · split at h
            · cases h
            · exact absurd h (check_ne_eof P _ _ _)

/-- a torn record consumes the rest of the stream -/
theorem decodeG_torn_rest (P : Params) (G : Good P) (d : Bytes) (hv : ValidRec P d) (m : Nat)
    (hm : m < (frame P d).length) : (decodeG P ((frame P d).take m)).2 = [] := by
  have hc := G.crcLen d
  have hl := be32_length d.length
  obtain ⟨h0, hmax, hp⟩ := hv
  have hlt : d.length < 4294967296 := Nat.lt_of_le_of_lt hmax G.maxLt
  have hfl := frame_length P G d
  have e1 : frame P d = P.crc d ++ (be32 d.length ++ d) := by simp [frame]
  unfold decodeG
  split
  · rfl
  · split
    · rfl
    · rename_i h4
      have hm4 : 4 ≤ m := by
        simp [List.length_take] at h4; omega
      have ht : (frame P d).take m = P.crc d ++ (be32 d.length ++ d).take (m - 4) := by
        rw [e1, List.take_append, hc]
        rw [List.take_of_length_le (by omega)]
      rw [ht, List.take_left' hc, List.drop_left' hc]
      simp only
      split
      · rfl
      · rename_i h8
        have hm8 : 8 ≤ m := by
          simp [List.length_take, hl] at h8; omega
        have ht2 : (be32 d.length ++ d).take (m - 4) = be32 d.length ++ d.take (m - 8) := by
          rw [List.take_append, hl, List.take_of_length_le (by rw [hl]; omega)]
          have : m - 4 - 4 = m - 8 := by omega
          rw [this]
        rw [ht2, List.take_left' hl, List.drop_left' hl, ofBe32_be32 _ hlt]
        have h1 : ¬ d.length > P.maxLen := by omega
        have h2 : ¬ d.length = 0 := by omega
        have h3 : (d.take (m - 8)).length < d.length := by
          simp [List.length_take]; omega
        simp only [h1, h2, h3, if_false, if_true]

/-- a tail as a crash leaves it: nothing, or a proper prefix of a valid record's frame -/
def TornTail (P : Params) (t : Bytes) : Prop :=
  t = [] ∨ ∃ d m, ValidRec P d ∧ m < (frame P d).length ∧ t = (frame P d).take m

theorem tornTail_stop (P : Params) (G : Good P) (t : Bytes) (h : TornTail P t) :
    (decodeG P t).1.isMsg = false ∧ (decodeG P t).2 = [] := by
  rcases h with rfl | ⟨d, m, hv, hm, rfl⟩
  · rw [decodeG_nil]; exact ⟨rfl, rfl⟩
  · exact ⟨decodeG_torn P G d hv m hm, decodeG_torn_rest P G d hv m hm⟩

/-- records after the first end-height marker `h` -/
def afterMarker (P : Params) (h : Int) : List Bytes → Option (List Bytes)
  | [] => none
  | d :: ds => if P.parse d = some (some h) then some ds else afterMarker P h ds

/-- `lastHeightFound` after scanning the records -/
def lastMarker (P : Params) : List Bytes → Int → Int
  | [], last => last
  | d :: ds, last =>
    match P.parse d with
    | some (some h) => lastMarker P ds h
    | _ => lastMarker P ds last

/-- how a scan ends at the tail when the marker was not among the records -/
def scanEnd (P : Params) (ignore : Bool) (t : Bytes) : ScanRes :=
  match (decodeG P t).1 with
  | .corrupt e => if ignore then .eofEnd else .err e
  | _ => .eofEnd

theorem scan_frames (P : Params) (G : Good P) (h : Int) (ignore : Bool) (t : Bytes)
    (ht : TornTail P t) : ∀ (ds : List Bytes) (fuel : Nat) (last : Int),
    (∀ d ∈ ds, ValidRec P d) → ds.length + 2 ≤ fuel →
    scan P h ignore fuel (frames P ds ++ t) last =
      match afterMarker P h ds with
      | some suf => (.found (frames P suf ++ t), h)
      | none => (scanEnd P ignore t, lastMarker P ds last)
  | [], fuel, last, _, hf => by
    obtain ⟨hm, hr⟩ := tornTail_stop P G t ht
    obtain ⟨f, rfl⟩ : ∃ f, fuel = f + 2 := ⟨fuel - 2, by simp at hf; omega⟩
    simp only [frames_nil, List.nil_append, afterMarker, lastMarker]
    rw [scan]
    cases hd : decodeG P t with
    | mk r rest =>
      rw [hd] at hm hr
      simp only at hr; subst hr
      cases r with
      | msg x => simp [DecRes.isMsg] at hm
      | eof => simp [scanEnd, hd]
      | corrupt e =>
        cases ignore with
        | false => simp [scanEnd, hd]
        | true =>
          simp only [scanEnd, hd, if_true]
          rw [scan, decodeG_nil]
  | d :: ds, fuel, last, hv, hf => by
    have hd : ValidRec P d := hv d (by simp)
    obtain ⟨f, rfl⟩ : ∃ f, fuel = f + 1 := ⟨fuel - 1, by simp at hf; omega⟩
    have ih := scan_frames P G h ignore t ht ds f
    rw [frames_cons, List.append_assoc, scan, decodeG_frame P G d _ hd]
    simp only
    obtain ⟨_, _, hp⟩ := hd
    cases hpd : P.parse d with
    | none => simp [hpd] at hp
    | some v =>
      cases v with
      | none =>
        simp only [afterMarker, lastMarker, hpd]
        rw [ih last (fun x hx => hv x (by simp [hx])) (by simp at hf; omega)]
        simp
      | some k =>
        by_cases hk : k = h
        · subst hk; simp [afterMarker, hpd]
        · simp only [afterMarker, lastMarker, hpd, hk, if_false]
          rw [ih k (fun x hx => hv x (by simp [hx])) (by simp at hf; omega)]
          have : ¬ (some (some k) : Option (Option Int)) = some (some h) := by simp [hk]
          simp [this]


/-- the head file = whole valid records `hw` followed by a torn tail `t` -/
structure HeadRep (P : Params) (g : Group) (hw : List Bytes) (t : Bytes) : Prop where
  valid : ∀ d ∈ hw, ValidRec P d
  eq : g.head = frames P hw ++ t
  torn : TornTail P t

/-- same disk content and indices; rotated files may have been created empty by readers -/
structure SameDisk (g g' : Group) : Prop where
  head : g'.head = g.head
  buf : g'.buf = g.buf
  synced : g'.synced = g.synced
  minIndex : g'.minIndex = g.minIndex
  maxIndex : g'.maxIndex = g.maxIndex
  headLimit : g'.headLimit = g.headLimit
  totalLimit : g'.totalLimit = g.totalLimit
  cor : g'.cor = g.cor
  isOpen : g'.isOpen = g.isOpen
  files : ∀ j, fileAt g' j = fileAt g j

theorem SameDisk.refl (g : Group) : SameDisk g g :=
  ⟨rfl, rfl, rfl, rfl, rfl, rfl, rfl, rfl, rfl, fun _ => rfl⟩

theorem SameDisk.trans {a b c : Group} (h1 : SameDisk a b) (h2 : SameDisk b c) : SameDisk a c :=
  ⟨h2.head.trans h1.head, h2.buf.trans h1.buf, h2.synced.trans h1.synced,
   h2.minIndex.trans h1.minIndex, h2.maxIndex.trans h1.maxIndex, h2.headLimit.trans h1.headLimit,
   h2.totalLimit.trans h1.totalLimit, h2.cor.trans h1.cor, h2.isOpen.trans h1.isOpen,
   fun j => (h2.files j).trans (h1.files j)⟩

theorem touch_fold_fileAt (l : List Nat) : ∀ (fs : List (Nat × Bytes)) (j : Nat),
    (lookupFile (l.foldl (fun fs j => match lookupFile fs j with
        | some _ => fs
        | none => setFile fs j []) fs) j).getD [] = (lookupFile fs j).getD [] := by
  induction l with
  | nil => intro fs j; rfl
  | cons a l ih =>
    intro fs j
    simp only [List.foldl_cons]
    rw [ih]
    cases h : lookupFile fs a with
    | some b => rfl
    | none =>
      simp only
      rw [lookup_setFile]
      by_cases hj : j = a
      · subst hj; simp [h]
      · simp [hj]

theorem sameDisk_touch (g : Group) (i : Nat) : SameDisk g (touchFrom g i) := by
  refine ⟨rfl, rfl, rfl, rfl, rfl, rfl, rfl, rfl, rfl, ?_⟩
  intro j
  unfold fileAt touchFrom
  exact touch_fold_fileAt _ _ _

theorem SameDisk.filesOK {P : Params} {g g' : Group} (h : SameDisk g g') (hf : FilesOK P g) :
    FilesOK P g' := by
  intro j; rw [h.files j]; exact hf j

theorem SameDisk.headRep {P : Params} {g g' : Group} {hw : List Bytes} {t : Bytes}
    (h : SameDisk g g') (hr : HeadRep P g hw t) : HeadRep P g' hw t :=
  ⟨hr.valid, by rw [h.head]; exact hr.eq, hr.torn⟩

theorem SameDisk.fileRecs_eq {P : Params} {g g' : Group} (h : SameDisk g g') (l : List Nat) :
    fileRecs P g' l = fileRecs P g l := by
  unfold fileRecs
  congr 1
  funext j
  rw [h.files j]

/-- the byte stream of a reader started at `i` -/
theorem streamFrom_rep (P : Params) (G : Good P) (g : Group) (hf : FilesOK P g) (hw : List Bytes)
    (t : Bytes) (hr : HeadRep P g hw t) (i : Nat) :
    streamFrom g i = frames P (fileRecs P g (List.range' i (g.maxIndex - i)) ++ hw) ++ t ∧
      ∀ d ∈ fileRecs P g (List.range' i (g.maxIndex - i)) ++ hw, ValidRec P d := by
  obtain ⟨h1, h2⟩ := files_stream P G g hf (List.range' i (g.maxIndex - i))
  constructor
  · unfold streamFrom
    have : (List.map (fun j => (lookupFile g.files j).getD []) (List.range' i (g.maxIndex - i))) =
        (List.range' i (g.maxIndex - i)).map (fileAt g) := rfl
    rw [this, h1, hr.eq, frames_append, List.append_assoc]
  · intro d hd
    rcases List.mem_append.mp hd with h | h
    · exact h2 d h
    · exact hr.valid d h

theorem afterMarker_suffix (P : Params) (h : Int) : ∀ (ds suf : List Bytes),
    afterMarker P h ds = some suf → ∃ pre d, ds = pre ++ d :: suf ∧ P.parse d = some (some h)
  | [], suf, hs => by simp [afterMarker] at hs
  | d :: ds, suf, hs => by
    unfold afterMarker at hs
    split at hs
    · rename_i hp
      cases hs
      exact ⟨[], d, rfl, hp⟩
    · obtain ⟨pre, d', he, hp⟩ := afterMarker_suffix P h ds suf hs
      exact ⟨d :: pre, d', by rw [he]; rfl, hp⟩

theorem searchIdx_found (P : Params) (G : Good P) (g : Group) (hf : FilesOK P g) (hw : List Bytes)
    (t : Bytes) (hr : HeadRep P g hw t) (h : Int) (ign : Bool) : ∀ (idxs : List Nat) (last : Int)
    (low : Nat) (rest : Bytes), (searchIdx P g h ign idxs last low).1 = .found rest →
    ∃ suf, (∀ d ∈ suf, ValidRec P d) ∧ rest = frames P suf ++ t
  | [], _, _, _, hx => by simp [searchIdx] at hx
  | i :: is, last, low, rest, hx => by
    obtain ⟨hs, hv⟩ := streamFrom_rep P G g hf hw t hr i
    rw [searchIdx] at hx
    have hlen := length_le_frames P G (fileRecs P g (List.range' i (g.maxIndex - i)) ++ hw)
    have hfuel : (fileRecs P g (List.range' i (g.maxIndex - i)) ++ hw).length + 2 ≤
        (streamFrom g i).length + 2 := by
      rw [hs]
      have : (frames P (fileRecs P g (List.range' i (g.maxIndex - i)) ++ hw) ++ t).length =
        (frames P (fileRecs P g (List.range' i (g.maxIndex - i)) ++ hw)).length + t.length :=
          List.length_append
      omega
    have hscan := scan_frames P G h ign t hr.torn _ ((streamFrom g i).length + 2) last hv hfuel
    rw [← hs] at hscan
    rw [hscan] at hx
    cases ham : afterMarker P h (fileRecs P g (List.range' i (g.maxIndex - i)) ++ hw) with
    | some suf =>
      rw [ham] at hx
      simp only at hx
      obtain ⟨pre, d, he, _⟩ := afterMarker_suffix P h _ _ ham
      refine ⟨suf, ?_, ?_⟩
      · intro x hxm
        apply hv; rw [he]; simp [hxm]
      · cases hx; rfl
    | none =>
      rw [ham] at hx
      simp only at hx
      cases hse : scanEnd P ign t with
      | found r =>
        unfold scanEnd at hse
        split at hse
        · split at hse <;> cases hse
        · cases hse
      | err e => rw [hse] at hx; simp at hx
      | eofEnd =>
        rw [hse] at hx
        simp only at hx
        split at hx
        · simp at hx
        · exact searchIdx_found P G g hf hw t hr h ign is _ _ rest hx

theorem search_found (P : Params) (G : Good P) (g : Group) (hf : FilesOK P g) (hw : List Bytes)
    (t : Bytes) (hr : HeadRep P g hw t) (h : Int) (ign : Bool) (rest : Bytes)
    (hx : (search P g h ign).1 = .found rest) :
    ∃ suf, (∀ d ∈ suf, ValidRec P d) ∧ rest = frames P suf ++ t := by
  unfold search at hx
  simp only at hx
  exact searchIdx_found P G g hf hw t hr h ign _ _ _ rest hx

theorem search_sameDisk (P : Params) (g : Group) (h : Int) (ign : Bool) :
    SameDisk g (search P g h ign).2 := by
  unfold search
  exact sameDisk_touch g _


theorem readAllG_torn (P : Params) (G : Good P) (ds : List Bytes) (hv : ∀ d ∈ ds, ValidRec P d)
    (t : Bytes) (ht : TornTail P t) : readAllG P (frames P ds ++ t) = (ds, (decodeG P t).1) := by
  have hstop := (tornTail_stop P G t ht).1
  unfold readAllG
  have hlen := length_le_frames P G ds
  have e : (frames P ds ++ t).length + 1 = ds.length + ((frames P ds).length - ds.length + t.length + 1) := by
    simp only [List.length_append]; omega
  rw [e, decodeAll_frames_append P (decodeG P) (fun d rest h => decodeG_frame P G d rest h) _ _ t hv,
    decodeAll_stop _ _ _ hstop]
  simp

/-- a catch-up that ends without error proves that the head has no torn tail -/
theorem catchup_ok (P : Params) (G : Good P) (g : Group) (hf : FilesOK P g) (hw : List Bytes)
    (t : Bytes) (hr : HeadRep P g hw t) (h : Int) (ds : List Bytes) (g' : Group)
    (hc : catchup P g h = (.ok ds, g')) : t = [] ∧ SameDisk g g' := by
  unfold catchup at hc
  have sd1 := search_sameDisk P g h true
  cases hs1 : search P g h true with
  | mk r1 g1 =>
    rw [hs1] at hc sd1
    simp only at sd1
    cases r1 with
    | err e => simp at hc
    | found x => simp at hc
    | notFound =>
      simp only at hc
      split at hc
      · simp at hc
      · have sd2 := search_sameDisk P g1 (if h = 1 then 0 else h - 1) true
        have hf1 := sd1.filesOK hf
        have hr1 := sd1.headRep hr
        have hfound := search_found P G g1 hf1 hw t hr1 (if h = 1 then 0 else h - 1) true
        cases hs2 : search P g1 (if h = 1 then 0 else h - 1) true with
        | mk r2 g2 =>
          rw [hs2] at hc sd2 hfound
          simp only at sd2 hfound hc
          cases r2 with
          | err e => simp at hc
          | notFound =>
            simp only at hc
            split at hc <;> simp at hc
          | found rest =>
            simp only at hc
            obtain ⟨suf, hsv, hrest⟩ := hfound rest rfl
            rw [hrest, readAllG_torn P G suf hsv t hr.torn] at hc
            have hstop := (tornTail_stop P G t hr.torn).1
            cases hd : (decodeG P t).1 with
            | corrupt e => rw [hd] at hc; simp at hc
            | msg x => rw [hd] at hstop; simp [DecRes.isMsg] at hstop
            | eof =>
              rw [hd] at hc
              simp only [Prod.mk.injEq] at hc
              refine ⟨decodeG_eof P t hd, ?_⟩
              rw [← hc.2]
              exact sd1.trans sd2

/-- whatever a catch-up answers, it leaves the disk as it was -/
theorem catchup_sameDisk (P : Params) (g : Group) (h : Int) : SameDisk g (catchup P g h).2 := by
  unfold catchup
  have sd1 := search_sameDisk P g h true
  cases hs1 : search P g h true with
  | mk r1 g1 =>
    rw [hs1] at sd1
    simp only at sd1
    cases r1 with
    | err e => exact sd1
    | found x => exact sd1
    | notFound =>
      simp only
      split
      · exact sd1
      · have sd2 := search_sameDisk P g1 (if h = 1 then 0 else h - 1) true
        cases hs2 : search P g1 (if h = 1 then 0 else h - 1) true with
        | mk r2 g2 =>
          rw [hs2] at sd2
          simp only at sd2
          cases r2 with
          | err e => exact sd1.trans sd2
          | notFound =>
            simp only
            have sd3 := search_sameDisk P g2 (if h = 1 then 0 else h - 1) false
            split <;> exact (sd1.trans sd2).trans (by simp_all)
          | found rest =>
            simp only
            split <;> exact sd1.trans sd2


theorem whole_single_torn (P : Params) (d : Bytes) (m : Nat) (hm : m < (frame P d).length) :
    whole P [d] m = 0 := by
  unfold whole
  have : ¬ (frame P d).length ≤ m := by omega
  simp [this]

/-- the repair of `whole records ++ torn tail` keeps exactly the whole records, or also the torn
one when zero-filling restores it, or exhibits a checksum collision -/
theorem repair_torn (P : Params) (G : Good P) (hw : List Bytes) (hv : ∀ d ∈ hw, ValidRec P d)
    (t : Bytes) :
    (t = [] → repair P (frames P hw ++ t) = frames P hw) ∧
    (∀ d m, ValidRec P d → m < (frame P d).length → t = (frame P d).take m →
      repair P (frames P hw ++ t) = frames P hw ∨ repair P (frames P hw ++ t) = frames P (hw ++ [d])
        ∨ Collision P) := by
  constructor
  · intro ht; subst ht
    rcases repair_prefix P G hw hv (frames P hw).length with ⟨k, h1, h2, h3⟩ | h
    · rw [whole_all P hw _ (Nat.le_refl _)] at h1
      have : k = hw.length := by omega
      subst this
      simpa using h3
    · -- collision impossible to exclude in general, but with an empty tail nothing is padded:
      -- redo directly
      unfold repair readAllF
      have hlen := length_le_frames P G hw
      have e : (frames P hw ++ []).length + 1 = hw.length + ((frames P hw).length - hw.length + 1) := by
        simp; omega
      rw [e, decodeAll_frames_append P (decodeF P) (fun d rest h => decodeF_frame P G d rest h) _ _ [] hv,
        decodeAll_stop _ _ _ (by rw [decodeF_nil]; rfl)]
      simp
  · intro d m hd hm ht
    subst ht
    have hvall : ∀ x ∈ hw ++ [d], ValidRec P x := by
      intro x hx
      rcases List.mem_append.mp hx with h | h
      · exact hv x h
      · simp at h; subst h; exact hd
    have hs : frames P hw ++ (frame P d).take m =
        (frames P (hw ++ [d])).take ((frames P hw).length + m) := by
      rw [frames_append, List.take_append]
      simp [List.take_of_length_le, frames_cons, frames_nil]
    rw [hs]
    rcases repair_prefix P G (hw ++ [d]) hvall ((frames P hw).length + m) with ⟨k, h1, h2, h3⟩ | h
    · rw [whole_append, whole_single_torn P d m hm] at h1
      simp at h2
      by_cases hk : k = hw.length
      · left; rw [h3, hk]; simp
      · right; left
        have : k = hw.length + 1 := by omega
        rw [h3, this]
        have : (hw ++ [d]).take (hw.length + 1) = hw ++ [d] := by
          apply List.take_of_length_le; simp
        rw [this]
    · right; right; exact h

/-- after a crash the head file is the whole records up to some point, at least the synced ones,
followed by a torn tail -/
theorem crash_rep (P : Params) (_G : Good P) (g : Group) (hs : List Bytes)
    (hv : ∀ d ∈ hs, ValidRec P d) (hc : g.head ++ g.buf = frames P hs) (cut : Nat) :
    ∃ k t, whole P hs g.synced ≤ k ∧ k ≤ hs.length ∧ HeadRep P (crash g cut) (hs.take k) t ∧
      (t = [] ∨ ∃ d m, hs[k]? = some d ∧ m < (frame P d).length ∧ t = (frame P d).take m) := by
  obtain ⟨t, ht, hT⟩ := take_frames P hs (max g.synced ((g.head ++ g.buf).length - cut))
  refine ⟨whole P hs (max g.synced ((g.head ++ g.buf).length - cut)), t,
    whole_mono P hs _ _ (Nat.le_max_left _ _), whole_le P hs _, ?_, hT⟩
  refine ⟨fun d hd => hv d (List.mem_of_mem_take hd), ?_, ?_⟩
  · show ((g.head ++ g.buf).take (max g.synced ((g.head ++ g.buf).length - cut))) = _
    rw [hc] at *
    exact ht
  · rcases hT with h | ⟨d, m, hd, hm, he⟩
    · exact Or.inl h
    · exact Or.inr ⟨d, m, hv d (List.mem_of_getElem? hd), hm, he⟩


theorem bufWrite_concat (S : Nat) (head buf p : Bytes) :
    (bufWrite S head buf p).1 ++ (bufWrite S head buf p).2 = head ++ buf ++ p := by
  unfold bufWrite
  split
  · simp
  · simp only
    split
    · rename_i hb
      have : buf = [] := by simpa using hb
      subst this
      split <;> simp
    · split
      · simp
      · simp

theorem bufWrite_head_prefix (S : Nat) (head buf p : Bytes) :
    ∃ x, (bufWrite S head buf p).1 = head ++ x := by
  unfold bufWrite
  split
  · exact ⟨[], by simp⟩
  · simp only
    split
    · split
      · exact ⟨p, rfl⟩
      · exact ⟨[], by simp⟩
    · split
      · exact ⟨buf ++ List.take (S - buf.length) p ++ List.drop (S - buf.length) p, by simp⟩
      · exact ⟨buf ++ List.take (S - buf.length) p, by simp⟩

/-- a write appends the record's frame to what was handed to the head so far -/
theorem write_concat (P : Params) (S : Nat) (g g' : Group) (d : Bytes) (hd : d.length ≤ P.maxLen)
    (hw : write P S g d = some g') :
    g'.head ++ g'.buf = g.head ++ g.buf ++ frame P d ∧ g'.files = g.files ∧ g'.synced = g.synced ∧
      g'.minIndex = g.minIndex ∧ g'.maxIndex = g.maxIndex ∧ (∃ x, g'.head = g.head ++ x) := by
  unfold write at hw
  rw [encode_valid P d hd] at hw
  simp only [Option.some.injEq] at hw
  subst hw
  exact ⟨bufWrite_concat S g.head g.buf (frame P d), rfl, rfl, rfl, rfl,
    bufWrite_head_prefix S g.head g.buf (frame P d)⟩

/-- `OnStart` on a group with an empty buffer whose head holds the whole records `hw` -/
theorem onStart_rep (P : Params) (S : Nat) (g : Group) (e0 : Bytes) (he : ValidRec P e0)
    (hw : List Bytes) (hh : g.head = frames P hw) (hb : g.buf = []) (G : Good P) :
    ∃ hw', (onStart P S g e0).1.head = frames P hw' ∧ (onStart P S g e0).1.buf = [] ∧
      (onStart P S g e0).1.files = g.files ∧
      (onStart P S g e0).1.minIndex = g.minIndex ∧ (onStart P S g e0).1.maxIndex = g.maxIndex ∧
      (hw' = hw ∨ (hw = [] ∧ hw' = [e0])) ∧
      ((onStart P S g e0).1.synced = (onStart P S g e0).1.head.length ∨
        ((onStart P S g e0).1 = g)) := by
  unfold onStart
  split
  · rename_i h0
    have hnil : hw = [] := by
      cases hw with
      | nil => rfl
      | cons d ds =>
        rw [hh, frames_cons] at h0
        simp [frame_length P G] at h0
    unfold writeSync
    cases hwr : write P S g e0 with
    | none =>
      unfold write at hwr
      rw [encode_valid P e0 he.2.1] at hwr
      simp at hwr
    | some g1 =>
      obtain ⟨h1, h2, h3, h4, h5, _⟩ := write_concat P S g g1 e0 he.2.1 hwr
      simp only [Option.map_some]
      refine ⟨[e0], ?_, rfl, ?_, ?_, ?_, Or.inr ⟨hnil, rfl⟩, Or.inl rfl⟩
      · show g1.head ++ g1.buf = _
        rw [h1, hh, hb, hnil]; simp [frames_cons, frames_nil]
      · exact h2
      · exact h4
      · exact h5
  · exact ⟨hw, hh, hb, rfl, rfl, rfl, Or.inl rfl, Or.inr rfl⟩


theorem fileAt_congr {g g' : Group} (h : g'.files = g.files) (j : Nat) : fileAt g' j = fileAt g j := by
  unfold fileAt; rw [h]

/-- the outcome of a recovery that reported success -/
def RecoveredOK : RecoverRes → Prop
  | .first (.ok _) => True
  | .repaired _ (.ok _) _ => True
  | _ => False

/-- what the head holds after a successful recovery, relative to the whole records `hw` and the
torn tail `t` it had before -/
def HeadAfter (hw : List Bytes) (t : Bytes) (d0 : Bytes) (e0 : Bytes) (hw' : List Bytes) : Prop :=
  hw' = hw ∨ (t ≠ [] ∧ hw' = hw ++ [d0]) ∨ (hw = [] ∧ hw' = [e0])

theorem recover_clean (P : Params) (G : Good P) (S : Nat) (g : Group) (h : Int) (e0 : Bytes)
    (he : ValidRec P e0) (hf : FilesOK P g) (hw : List Bytes) (t : Bytes) (hr : HeadRep P g hw t)
    (d0 : Bytes) (m0 : Nat)
    (hd0 : t = [] ∨ (ValidRec P d0 ∧ m0 < (frame P d0).length ∧ t = (frame P d0).take m0))
    (hb : g.buf = []) (dhl dtl : Nat) (res : RecoverRes) (g' : Group) (hrec : recover P S dhl dtl g h e0 = (res, g'))
    (hok : RecoveredOK res) :
    (∀ j, fileAt g' j = fileAt g j) ∧ g'.buf = [] ∧
      ((∃ hw', (∀ d ∈ hw', ValidRec P d) ∧ g'.head = frames P hw' ∧ HeadAfter hw t d0 e0 hw')
        ∨ Collision P) := by
  unfold recover at hrec
  have sd1 := catchup_sameDisk P g h
  cases hc : catchup P g h with
  | mk r g1 =>
    rw [hc] at hrec sd1
    simp only at sd1
    cases r with
    | ok ds =>
      simp only [Prod.mk.injEq] at hrec
      obtain ⟨rfl, rfl⟩ := hrec
      obtain ⟨ht, sd⟩ := catchup_ok P G g hf hw t hr h ds g1 hc
      refine ⟨sd.files, by rw [sd.buf, hb], Or.inl ⟨hw, hr.valid, ?_, Or.inl rfl⟩⟩
      rw [sd.head, hr.eq, ht]; simp
    | foundCurrent => simp only [Prod.mk.injEq] at hrec; obtain ⟨rfl, _⟩ := hrec; exact hok.elim
    | belowInitial => simp only [Prod.mk.injEq] at hrec; obtain ⟨rfl, _⟩ := hrec; exact hok.elim
    | noMarker => simp only [Prod.mk.injEq] at hrec; obtain ⟨rfl, _⟩ := hrec; exact hok.elim
    | searchErr e => simp only [Prod.mk.injEq] at hrec; obtain ⟨rfl, _⟩ := hrec; exact hok.elim
    | corrupt ds0 e =>
      simp only at hrec
      -- the head handed to the repair
      have hhead : (stop g1).head = frames P hw ++ t := by
        show g1.head ++ g1.buf = _
        rw [sd1.head, sd1.buf, hb, hr.eq]; simp
      have hrep := repair_torn P G hw hr.valid t
      -- the repaired content
      have hcases : (∃ hw2, (∀ d ∈ hw2, ValidRec P d) ∧ repair P ((stop g1).head) = frames P hw2 ∧
          (hw2 = hw ∨ (t ≠ [] ∧ hw2 = hw ++ [d0])))
          ∨ Collision P := by
        rw [hhead]
        by_cases htn : t = []
        · exact Or.inl ⟨hw, hr.valid, hrep.1 htn, Or.inl rfl⟩
        rcases hd0 with ht | ⟨hd, hm, ht⟩
        · exact Or.inl ⟨hw, hr.valid, hrep.1 ht, Or.inl rfl⟩
        · rcases hrep.2 d0 m0 hd hm ht with h1 | h1 | h1
          · exact Or.inl ⟨hw, hr.valid, h1, Or.inl rfl⟩
          · refine Or.inl ⟨hw ++ [d0], ?_, h1, Or.inr ⟨htn, rfl⟩⟩
            intro x hx
            rcases List.mem_append.mp hx with h2 | h2
            · exact hr.valid x h2
            · simp at h2; subst h2; exact hd
          · exact Or.inr h1
      -- the reopened group handed to OnStart
      have hgo : ∃ go : Group, repairHead P S dhl dtl g1 e0 = onStart P S go e0 ∧
          go.head = repair P (stop g1).head ∧ go.buf = [] ∧ go.files = g1.files := by
        unfold repairHead
        exact ⟨_, rfl, rfl, rfl, rfl⟩
      obtain ⟨go, hgo_eq, hgo_head, hgo_buf, hgo_files⟩ := hgo
      rw [hgo_eq] at hrec
      cases hos : onStart P S go e0 with
      | mk g2 w =>
      rw [hos] at hrec
      simp only at hrec
      cases hc2 : catchup P g2 h with
      | mk r2 g3 =>
      rw [hc2] at hrec
      simp only [Prod.mk.injEq] at hrec
      obtain ⟨rfl, rfl⟩ := hrec
      have sd3 := catchup_sameDisk P g2 h
      rw [hc2] at sd3
      simp only at sd3
      have hg2 : g2 = (onStart P S go e0).1 := by rw [hos]
      rcases hcases with ⟨hw2, hv2, hrp, hshape⟩ | hcol
      · obtain ⟨hw3, h3head, h3buf, h3files, _, _, h3shape, _⟩ :=
          onStart_rep P S go e0 he hw2 (hgo_head.trans hrp) hgo_buf G
        rw [← hg2] at h3head h3buf h3files
        have hv3 : ∀ d ∈ hw3, ValidRec P d := by
          rcases h3shape with rfl | ⟨_, rfl⟩
          · exact hv2
          · intro d hd; simp at hd; subst hd; exact he
        have hf2 : FilesOK P g2 := by
          intro j
          rw [fileAt_congr (h3files.trans hgo_files) j, sd1.files j]
          exact hf j
        have hr2 : HeadRep P g2 hw3 [] :=
          ⟨hv3, by rw [h3head]; simp, Or.inl rfl⟩
        cases r2 with
        | ok ds2 =>
          refine ⟨?_, by rw [sd3.buf, h3buf], Or.inl ⟨hw3, hv3, by rw [sd3.head, h3head], ?_⟩⟩
          · intro j
            rw [sd3.files j, fileAt_congr (h3files.trans hgo_files) j, sd1.files j]
          · rcases h3shape with rfl | ⟨hnil, rfl⟩
            · rcases hshape with rfl | hx
              · exact Or.inl rfl
              · exact Or.inr (Or.inl hx)
            · rcases hshape with rfl | ⟨_, hx⟩
              · exact Or.inr (Or.inr ⟨hnil, rfl⟩)
              · rw [hx] at hnil; simp at hnil
        | foundCurrent => exact hok.elim
        | belowInitial => exact hok.elim
        | noMarker => exact hok.elim
        | searchErr e => exact hok.elim
        | corrupt a b => exact hok.elim
      · -- a collision was exhibited; the frame conditions still hold
        have hos2 : g2.files = go.files ∧ g2.buf = [] := by
          rw [hg2]
          unfold onStart
          split
          · unfold writeSync
            cases hwr : write P S go e0 with
            | none => exact ⟨rfl, hgo_buf⟩
            | some gw =>
              obtain ⟨_, h2, _⟩ := write_concat P S go gw e0 he.2.1 hwr
              exact ⟨h2, rfl⟩
          · exact ⟨rfl, hgo_buf⟩
        refine ⟨?_, by rw [sd3.buf, hos2.2], Or.inr hcol⟩
        intro j
        rw [sd3.files j, fileAt_congr (hos2.1.trans hgo_files) j]
        exact sd1.files j


theorem foldl_min_le (l : List Nat) : ∀ (a : Nat), l.foldl min a ≤ a ∧ ∀ x ∈ l, l.foldl min a ≤ x := by
  induction l with
  | nil => intro a; simp
  | cons b l ih =>
    intro a
    simp only [List.foldl_cons]
    obtain ⟨h1, h2⟩ := ih (min a b)
    refine ⟨Nat.le_trans h1 (Nat.min_le_left _ _), ?_⟩
    intro x hx
    rcases List.mem_cons.mp hx with rfl | hx
    · exact Nat.le_trans h1 (Nat.min_le_right _ _)
    · exact h2 x hx

theorem foldl_max_ge (l : List Nat) : ∀ (a : Nat), a ≤ l.foldl max a ∧ ∀ x ∈ l, x ≤ l.foldl max a := by
  induction l with
  | nil => intro a; simp
  | cons b l ih =>
    intro a
    simp only [List.foldl_cons]
    obtain ⟨h1, h2⟩ := ih (max a b)
    refine ⟨Nat.le_trans (Nat.le_max_left _ _) h1, ?_⟩
    intro x hx
    rcases List.mem_cons.mp hx with rfl | hx
    · exact Nat.le_trans (Nat.le_max_right _ _) h1
    · exact h2 x hx

theorem lookup_isSome_mem (fs : List (Nat × Bytes)) (j : Nat) (h : (lookupFile fs j).isSome = true) :
    j ∈ fs.map (·.1) := by
  induction fs with
  | nil => simp [lookupFile] at h
  | cons p rest ih =>
    obtain ⟨k, c⟩ := p
    by_cases hk : k = j
    · subst hk; simp
    · simp only [lookupFile, List.find?, hk, decide_false] at h ih
      simp only [List.map_cons, List.mem_cons]
      right; exact ih h

/-- the directory scan brackets every existing rotated file -/
theorem readGroupInfo_range (g : Group) (j : Nat) (h : (lookupFile g.files j).isSome = true) :
    (readGroupInfo g).minIndex ≤ j ∧ j < (readGroupInfo g).maxIndex := by
  have hm := lookup_isSome_mem g.files j h
  unfold readGroupInfo
  cases hl : g.files.map (·.1) with
  | nil => rw [hl] at hm; simp at hm
  | cons i is =>
    rw [hl] at hm
    simp only
    have h1 := foldl_min_le is i
    have h2 := foldl_max_ge is i
    rcases List.mem_cons.mp hm with rfl | hx
    · exact ⟨h1.1, Nat.lt_succ_of_le h2.1⟩
    · exact ⟨h1.2 j hx, Nat.lt_succ_of_le (h2.2 j hx)⟩

theorem pruneLoop_spec (limit : Nat) (gi : GroupInfo) : ∀ (k i total : Nat) (fs : List (Nat × Bytes))
    (rem : List Nat), ∃ new, (pruneLoop limit gi k i total fs rem).2 = rem ++ new ∧
      (∀ j, lookupFile (pruneLoop limit gi k i total fs rem).1 j =
        if j ∈ new then none else lookupFile fs j) ∧
      (∀ r ∈ new, (lookupFile fs r).isSome = true ∧ r ≠ gi.maxIndex) ∧
      (∀ j, gi.minIndex + i ≤ j → (lookupFile (pruneLoop limit gi k i total fs rem).1 j).isSome = true →
        ∀ r ∈ new, r < j) := by
  intro k
  induction k with
  | zero => intro i total fs rem; exact ⟨[], by simp [pruneLoop]⟩
  | succ k ih =>
    intro i total fs rem
    rw [pruneLoop]
    split
    · exact ⟨[], by simp⟩
    · split
      · exact ⟨[], by simp⟩
      · rename_i _ hne
        split
        · rename_i hnone
          obtain ⟨new, h1, h2, h3, h4⟩ := ih (i + 1) total fs rem
          refine ⟨new, h1, h2, h3, ?_⟩
          intro j hj hs r hr
          have hjne : j ≠ gi.minIndex + i := by
            intro e
            rw [h2 j] at hs
            split at hs
            · simp at hs
            · rw [e, hnone] at hs; simp at hs
          exact h4 j (by omega) hs r hr
        · rename_i b hsome
          obtain ⟨new, h1, h2, h3, h4⟩ := ih (i + 1) (total - b.length) (removeFile fs (gi.minIndex + i))
            (rem ++ [gi.minIndex + i])
          refine ⟨(gi.minIndex + i) :: new, by rw [h1]; simp, ?_, ?_, ?_⟩
          · intro j
            rw [h2 j, lookup_removeFile]
            by_cases hj : j = gi.minIndex + i
            · subst hj; simp
            · simp [hj]
          · intro r hr
            rcases List.mem_cons.mp hr with rfl | hr
            · exact ⟨by rw [hsome]; rfl, hne⟩
            · obtain ⟨h5, h6⟩ := h3 r hr
              rw [lookup_removeFile] at h5
              split at h5
              · simp at h5
              · exact ⟨h5, h6⟩
          · intro j hj hs r hr
            have hjne : j ≠ gi.minIndex + i := by
              intro e
              rw [h2 j, lookup_removeFile] at hs
              split at hs
              · simp at hs
              · simp [e] at hs
            rcases List.mem_cons.mp hr with rfl | hr
            · omega
            · exact h4 j (by omega) hs r hr


/-- the records a reader started at index `i` passes: rotated files `i…`, then the whole head records -/
def logFrom (P : Params) (g : Group) (hw : List Bytes) (i : Nat) : List Bytes :=
  fileRecs P g (List.range' i (g.maxIndex - i)) ++ hw

theorem searchIdx_found_marker (P : Params) (G : Good P) (g : Group) (hf : FilesOK P g) (hw : List Bytes)
    (t : Bytes) (hr : HeadRep P g hw t) (h : Int) (ign : Bool) : ∀ (idxs : List Nat) (last : Int)
    (low : Nat) (rest : Bytes), (searchIdx P g h ign idxs last low).1 = .found rest →
    ∃ i suf, i ∈ idxs ∧ afterMarker P h (logFrom P g hw i) = some suf ∧ rest = frames P suf ++ t
  | [], _, _, _, hx => by simp [searchIdx] at hx
  | i :: is, last, low, rest, hx => by
    obtain ⟨hs, hv⟩ := streamFrom_rep P G g hf hw t hr i
    rw [searchIdx] at hx
    have hlen := length_le_frames P G (fileRecs P g (List.range' i (g.maxIndex - i)) ++ hw)
    have hfuel : (fileRecs P g (List.range' i (g.maxIndex - i)) ++ hw).length + 2 ≤
        (streamFrom g i).length + 2 := by
      rw [hs]
      have : (frames P (fileRecs P g (List.range' i (g.maxIndex - i)) ++ hw) ++ t).length =
        (frames P (fileRecs P g (List.range' i (g.maxIndex - i)) ++ hw)).length + t.length :=
          List.length_append
      omega
    have hscan := scan_frames P G h ign t hr.torn _ ((streamFrom g i).length + 2) last hv hfuel
    rw [← hs] at hscan
    rw [hscan] at hx
    cases ham : afterMarker P h (fileRecs P g (List.range' i (g.maxIndex - i)) ++ hw) with
    | some suf =>
      rw [ham] at hx
      simp only at hx
      refine ⟨i, suf, by simp, ham, ?_⟩
      cases hx; rfl
    | none =>
      rw [ham] at hx
      simp only at hx
      cases hse : scanEnd P ign t with
      | found r =>
        unfold scanEnd at hse
        split at hse
        · split at hse <;> cases hse
        · cases hse
      | err e => rw [hse] at hx; simp at hx
      | eofEnd =>
        rw [hse] at hx
        simp only at hx
        split at hx
        · simp at hx
        · obtain ⟨i', suf, hi, h1, h2⟩ := searchIdx_found_marker P G g hf hw t hr h ign is _ _ rest hx
          exact ⟨i', suf, by simp [hi], h1, h2⟩


/-- every end-height marker among `ds` is the height-0 marker or above `h` -/
def MarkersAbove (P : Params) (h : Int) (ds : List Bytes) : Prop :=
  ∀ d ∈ ds, ∀ k, P.parse d = some (some k) → k = 0 ∨ h < k

/-- `lastHeightFound` does not trigger the early exit for `h` -/
def OKLast (h x : Int) : Prop := ¬ (x > 0 ∧ x < h)

theorem lastMarker_above (P : Params) (h : Int) : ∀ (ds : List Bytes) (last : Int),
    MarkersAbove P h ds → OKLast h last → OKLast h (lastMarker P ds last)
  | [], last, _, hl => by simpa [lastMarker] using hl
  | d :: ds, last, hm, hl => by
    have hm' : MarkersAbove P h ds := fun x hx => hm x (by simp [hx])
    unfold lastMarker
    split
    · rename_i k hk
      apply lastMarker_above P h ds k hm'
      rcases hm d (by simp) k hk with h0 | h1
      · unfold OKLast; omega
      · unfold OKLast; omega
    · exact lastMarker_above P h ds last hm' hl

theorem afterMarker_isSome_of_mem (P : Params) (h : Int) : ∀ (pre : List Bytes) (m : Bytes) (suf : List Bytes),
    P.parse m = some (some h) → (afterMarker P h (pre ++ m :: suf)).isSome = true
  | [], m, suf, hp => by simp [afterMarker, hp]
  | d :: pre, m, suf, hp => by
    simp only [List.cons_append, afterMarker]
    split
    · rfl
    · exact afterMarker_isSome_of_mem P h pre m suf hp

theorem searchIdx_complete (P : Params) (G : Good P) (g : Group) (hf : FilesOK P g) (hw : List Bytes)
    (t : Bytes) (hr : HeadRep P g hw t) (h : Int) (ign : Bool) (hend : scanEnd P ign t = .eofEnd) :
    ∀ (idxs : List Nat) (last : Int) (low : Nat), OKLast h last →
    (∀ i ∈ idxs, (afterMarker P h (logFrom P g hw i)).isSome = true ∨ MarkersAbove P h (logFrom P g hw i)) →
    (∃ i ∈ idxs, (afterMarker P h (logFrom P g hw i)).isSome = true) →
    ∃ rest, (searchIdx P g h ign idxs last low).1 = .found rest
  | [], _, _, _, _, hex => by obtain ⟨i, hi, _⟩ := hex; simp at hi
  | i :: is, last, low, hl, hall, hex => by
    obtain ⟨hs, hv⟩ := streamFrom_rep P G g hf hw t hr i
    rw [searchIdx]
    have hlen := length_le_frames P G (fileRecs P g (List.range' i (g.maxIndex - i)) ++ hw)
    have hfuel : (fileRecs P g (List.range' i (g.maxIndex - i)) ++ hw).length + 2 ≤
        (streamFrom g i).length + 2 := by
      rw [hs]
      have : (frames P (fileRecs P g (List.range' i (g.maxIndex - i)) ++ hw) ++ t).length =
        (frames P (fileRecs P g (List.range' i (g.maxIndex - i)) ++ hw)).length + t.length :=
          List.length_append
      omega
    have hscan := scan_frames P G h ign t hr.torn _ ((streamFrom g i).length + 2) last hv hfuel
    rw [← hs] at hscan
    rw [hscan]
    cases ham : afterMarker P h (fileRecs P g (List.range' i (g.maxIndex - i)) ++ hw) with
    | some suf => exact ⟨_, rfl⟩
    | none =>
      simp only [hend]
      have hab : MarkersAbove P h (logFrom P g hw i) := by
        rcases hall i (by simp) with h1 | h1
        · unfold logFrom at h1; rw [ham] at h1; simp at h1
        · exact h1
      have hl' := lastMarker_above P h _ last hab hl
      unfold logFrom at hl'
      unfold OKLast at hl'
      simp only [hl', if_false]
      apply searchIdx_complete P G g hf hw t hr h ign hend is _ _ hl'
      · intro j hj; exact hall j (by simp [hj])
      · obtain ⟨j, hj, hjs⟩ := hex
        rcases List.mem_cons.mp hj with rfl | hj
        · unfold logFrom at hjs; rw [ham] at hjs; simp at hjs
        · exact ⟨j, hj, hjs⟩

theorem logFrom_suffix (P : Params) (g : Group) (hw : List Bytes) (lo i : Nat) (h1 : lo ≤ i)
    (h2 : i ≤ g.maxIndex) : ∃ pre, logFrom P g hw lo = pre ++ logFrom P g hw i := by
  unfold logFrom
  have : List.range' lo (g.maxIndex - lo) = List.range' lo (i - lo) ++ List.range' i (g.maxIndex - i) := by
    have e : g.maxIndex - lo = (i - lo) + (g.maxIndex - i) := by omega
    rw [e, ← List.range'_append_1]
    congr 2; omega
  rw [this]
  refine ⟨fileRecs P g (List.range' lo (i - lo)), ?_⟩
  simp [fileRecs, List.flatMap_append]

theorem suffix_cases {α : Type} (pre : List α) (m : α) (suf s p : List α) (h : pre ++ m :: suf = p ++ s) :
    (∃ pre', s = pre' ++ m :: suf) ∨ (∃ q, suf = q ++ s) := by
  induction p generalizing pre with
  | nil => left; exact ⟨pre, by simpa using h.symm⟩
  | cons a p ih =>
    cases pre with
    | nil =>
      simp only [List.nil_append, List.cons_append, List.cons.injEq] at h
      right; exact ⟨p, h.2⟩
    | cons b pre =>
      simp only [List.cons_append, List.cons.injEq] at h
      exact ih pre h.2


theorem scanEnd_eof (P : Params) (ign : Bool) (t : Bytes) (h : ign = true ∨ t = []) :
    scanEnd P ign t = .eofEnd := by
  unfold scanEnd
  rcases h with rfl | rfl
  · split <;> simp
  · rw [decodeG_nil]

theorem search_iff (P : Params) (G : Good P) (g : Group) (hf : FilesOK P g)
    (hw : List Bytes) (t : Bytes) (hr : HeadRep P g hw t) (hmin : g.minIndex ≤ g.maxIndex)
    (h : Int) (ign : Bool) (hign : ign = true ∨ t = [])
    (hinc : ∀ pre m suf, logFrom P g hw g.minIndex = pre ++ m :: suf → P.parse m = some (some h) →
      MarkersAbove P h suf) :
    (∃ rest, (search P g h ign).1 = .found rest) ↔
      (∃ d ∈ logFrom P g hw g.minIndex, P.parse d = some (some h)) := by
  have hidx : ∀ i, i ∈ (List.range' g.minIndex (g.maxIndex + 1 - g.minIndex)).reverse ↔
      g.minIndex ≤ i ∧ i ≤ g.maxIndex := by
    intro i
    rw [List.mem_reverse, List.mem_range'_1]
    omega
  constructor
  · rintro ⟨rest, hx⟩
    unfold search at hx
    simp only at hx
    obtain ⟨i, suf, hi, ham, _⟩ := searchIdx_found_marker P G g hf hw t hr h ign _ _ _ rest hx
    obtain ⟨h1, h2⟩ := (hidx i).mp hi
    obtain ⟨pre, d, he, hp⟩ := afterMarker_suffix P h _ _ ham
    obtain ⟨p, hpe⟩ := logFrom_suffix P g hw g.minIndex i h1 h2
    refine ⟨d, ?_, hp⟩
    rw [hpe, he]; simp
  · rintro ⟨d, hd, hp⟩
    obtain ⟨pre, suf, he⟩ := List.append_of_mem hd
    have habove := hinc pre d suf he hp
    unfold search
    simp only
    apply searchIdx_complete P G g hf hw t hr h ign (scanEnd_eof P ign t hign)
    · unfold OKLast; omega
    · intro i hi
      obtain ⟨h1, h2⟩ := (hidx i).mp hi
      obtain ⟨p, hpe⟩ := logFrom_suffix P g hw g.minIndex i h1 h2
      rw [he] at hpe
      rcases suffix_cases pre d suf (logFrom P g hw i) p hpe with ⟨pre', hs⟩ | ⟨q, hs⟩
      · left; rw [hs]; exact afterMarker_isSome_of_mem P h pre' d suf hp
      · right
        intro x hx k hk
        exact habove x (by rw [hs]; simp [hx]) k hk
    · refine ⟨g.minIndex, (hidx _).mpr ⟨Nat.le_refl _, hmin⟩, ?_⟩
      rw [he]; exact afterMarker_isSome_of_mem P h pre d suf hp


end Tmv.Wal
