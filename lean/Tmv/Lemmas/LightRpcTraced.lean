import Tmv.Lemmas.MerkleTraced
import Tmv.Lemmas.LightRpc
/-! Traced versions (collision among explicitly listed hashed inputs, see Lemmas/MerkleTraced) of the
two Merkle facts C20 rests on: the root determines the list of leaves, and a verifying proof is for
one of the leaves — whatever index/total/path it states. -/
namespace Tmv.Merkle
variable (H : Bytes → Bytes)

theorem rootPre_cons2' (f : Nat) (a b : Bytes) (c : List Bytes) :
    rootPre H (f+1) (a :: b :: c) =
      (1 :: (rootF H f ((a :: b :: c).take (splitPoint (a :: b :: c).length)) ++
             rootF H f ((a :: b :: c).drop (splitPoint (a :: b :: c).length)))) ::
        (rootPre H f ((a :: b :: c).take (splitPoint (a :: b :: c).length)) ++
         rootPre H f ((a :: b :: c).drop (splitPoint (a :: b :: c).length))) := by
  simp [rootPre]

theorem nil_mem_rootPre_nil' (f : Nat) : ([] : Bytes) ∈ rootPre H f [] := by
  cases f <;> simp [rootPre]

theorem nil_mem_rootPre_zero' (xs : List Bytes) : ([] : Bytes) ∈ rootPre H 0 xs := by
  simp [rootPre]

/-- the root determines the leaves; otherwise two DIFFERENT strings hashed while computing the two
roots collide -/
theorem rootF_inj_traced2 (L : Nat) (hlen : ∀ x, (H x).length = L) :
    ∀ (f1 f2 : Nat) (xs ys : List Bytes), xs.length ≤ f1 → ys.length ≤ f2 →
      rootF H f1 xs = rootF H f2 ys → xs = ys ∨ CollisionIn H (rootPre H f1 xs) (rootPre H f2 ys) := by
  intro f1
  induction f1 with
  | zero =>
    intro f2 xs ys hx hy h
    have hxs : xs = [] := List.length_eq_zero_iff.mp (by omega)
    subst hxs
    cases f2 with
    | zero =>
      have : ys = [] := List.length_eq_zero_iff.mp (by omega)
      left; exact this.symm
    | succ g =>
      match ys with
      | [] => left; rfl
      | [y] =>
        right; simp only [rootF] at h
        exact ⟨[], 0 :: y, by simp [rootPre], by simp [rootPre], by simp, h⟩
      | a :: b :: c =>
        right; rw [rootF_cons2] at h; simp only [rootF] at h
        exact ⟨[], _, by simp [rootPre], by rw [rootPre_cons2']; simp, by simp, h⟩
  | succ f ih =>
    intro f2 xs ys hx hy h
    cases f2 with
    | zero =>
      have hys : ys = [] := List.length_eq_zero_iff.mp (by omega)
      subst hys
      match xs with
      | [] => left; rfl
      | [x] =>
        right; simp only [rootF] at h
        exact ⟨0 :: x, [], by simp [rootPre], by simp [rootPre], by simp, h⟩
      | a :: b :: c =>
        right; rw [rootF_cons2] at h; simp only [rootF] at h
        exact ⟨_, [], by rw [rootPre_cons2']; simp, by simp [rootPre], by simp, h⟩
    | succ g =>
      match xs, ys with
      | [], [] => left; rfl
      | [], [y] =>
        right; simp only [rootF] at h
        exact ⟨[], 0 :: y, by simp [rootPre], by simp [rootPre], by simp, h⟩
      | [], a :: b :: c =>
        right; rw [rootF_cons2] at h; simp only [rootF] at h
        exact ⟨[], _, by simp [rootPre], by rw [rootPre_cons2']; simp, by simp, h⟩
      | [x], [] =>
        right; simp only [rootF] at h
        exact ⟨0 :: x, [], by simp [rootPre], by simp [rootPre], by simp, h⟩
      | a :: b :: c, [] =>
        right; rw [rootF_cons2] at h; simp only [rootF] at h
        exact ⟨_, [], by rw [rootPre_cons2']; simp, by simp [rootPre], by simp, h⟩
      | [x], [y] =>
        simp only [rootF] at h
        by_cases hxy : (0 :: x : Bytes) = 0 :: y
        · left; simp [(List.cons.inj hxy).2]
        · right; exact ⟨0 :: x, 0 :: y, by simp [rootPre], by simp [rootPre], hxy, h⟩
      | [x], a :: b :: c =>
        right; rw [rootF_cons2] at h; simp only [rootF] at h
        exact ⟨0 :: x, _, by simp [rootPre], by rw [rootPre_cons2']; simp, by simp, h⟩
      | a :: b :: c, [y] =>
        right; rw [rootF_cons2] at h; simp only [rootF] at h
        exact ⟨_, 0 :: y, by rw [rootPre_cons2']; simp, by simp [rootPre], by simp, h⟩
      | a :: b :: c, a' :: b' :: c' =>
        rw [rootF_cons2, rootF_cons2] at h
        rw [rootPre_cons2', rootPre_cons2']
        generalize hX : (a :: b :: c) = X at *
        generalize hY : (a' :: b' :: c') = Y at *
        have hX2 : 2 ≤ X.length := by subst hX; simp
        have hY2 : 2 ≤ Y.length := by subst hY; simp
        obtain ⟨hkx0, hkx⟩ := splitPoint_lt hX2
        obtain ⟨hky0, hky⟩ := splitPoint_lt hY2
        have hl1 := rootF_len H L hlen f (X.take (splitPoint X.length))
        have hl2 := rootF_len H L hlen g (Y.take (splitPoint Y.length))
        by_cases hc : (1 :: (rootF H f (X.take (splitPoint X.length)) ++ rootF H f (X.drop (splitPoint X.length))) : Bytes) =
            1 :: (rootF H g (Y.take (splitPoint Y.length)) ++ rootF H g (Y.drop (splitPoint Y.length)))
        · obtain ⟨e1, e2⟩ := List.append_inj (List.cons.inj hc).2 (by omega)
          have t1 : (X.take (splitPoint X.length)).length ≤ f := by simp; omega
          have t2 : (Y.take (splitPoint Y.length)).length ≤ g := by simp; omega
          have d1 : (X.drop (splitPoint X.length)).length ≤ f := by simp; omega
          have d2 : (Y.drop (splitPoint Y.length)).length ≤ g := by simp; omega
          rcases ih g _ _ t1 t2 e1 with et | hcol
          · rcases ih g _ _ d1 d2 e2 with ed | hcol
            · left
              rw [← List.take_append_drop (splitPoint X.length) X, ← List.take_append_drop (splitPoint Y.length) Y, et, ed]
            · right
              refine hcol.mono H ?_ ?_ <;>
              · intro x hx
                simp only [List.mem_cons, List.mem_append]
                exact Or.inr (Or.inr hx)
          · right
            refine hcol.mono H ?_ ?_ <;>
            · intro x hx
              simp only [List.mem_cons, List.mem_append]
              exact Or.inr (Or.inl hx)
        · right
          exact ⟨_, _, by simp, by simp, hc, h⟩

theorem root_inj_traced2 (L : Nat) (hlen : ∀ x, (H x).length = L) (xs ys : List Bytes)
    (h : root H xs = root H ys) :
    xs = ys ∨ CollisionIn H (rootPre H xs.length xs) (rootPre H ys.length ys) :=
  rootF_inj_traced2 H L hlen _ _ xs ys (Nat.le_refl _) (Nat.le_refl _) h

/-- equal lists of hashes: equal lists, or two of the hashed strings themselves collide -/
theorem map_hash_inj_traced2 : ∀ (xs ys : List Bytes), xs.map H = ys.map H → xs = ys ∨ CollisionIn H xs ys
  | [], [], _ => Or.inl rfl
  | [], _ :: _, h => by simp at h
  | _ :: _, [], h => by simp at h
  | x :: xs, y :: ys, h => by
    simp only [List.map_cons, List.cons.injEq] at h
    by_cases hxy : x = y
    · rcases map_hash_inj_traced2 xs ys h.2 with e | c
      · left; rw [hxy, e]
      · right; exact c.mono H (fun a ha => by simp [ha]) (fun a ha => by simp [ha])
    · right; exact ⟨x, y, by simp, by simp, hxy, h.1⟩

/-- the empty tree: a proof recomputing `H []` from a leaf exhibits a collision with `[]` -/
theorem fromAunts_emptyHash_traced2 (leaf : Bytes) :
    ∀ (fuel idx total : Nat) (aunts : List Bytes),
      fromAunts H fuel idx total (leafHash H leaf) aunts = some (H []) →
      CollisionIn H ((0 :: leaf) :: pathPre H fuel idx total (leafHash H leaf) aunts) [[]] := by
  intro fuel idx total aunts h
  cases fuel with
  | zero => simp [fromAunts] at h
  | succ g =>
    unfold fromAunts at h
    unfold pathPre
    split at h; · cases h
    rename_i hnot
    simp only [hnot, if_false]
    split at h
    · rename_i ht1
      simp only [ht1, if_true]
      split at h
      · simp at h; exact ⟨0 :: leaf, [], by simp, by simp, by simp, h⟩
      · cases h
    · rename_i ht1
      simp only [ht1, if_false]
      split at h; · cases h
      rename_i last restRev hrev
      simp only [hrev]
      simp only at h
      split at h
      · rename_i hlt
        simp only [hlt, if_true]
        simp [Option.map_eq_some_iff] at h
        obtain ⟨l, hl1, hl2⟩ := h
        simp only [hl1]
        exact ⟨1 :: (l ++ last), [], by simp, by simp, by simp, hl2⟩
      · rename_i hge
        simp only [hge, if_false]
        simp [Option.map_eq_some_iff] at h
        obtain ⟨r, hr1, hr2⟩ := h
        simp only [hr1]
        exact ⟨1 :: (last ++ r), [], by simp, by simp, by simp, hr2⟩

end Tmv.Merkle
