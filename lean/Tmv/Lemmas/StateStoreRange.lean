import Tmv.Model.StateStoreRange
/-! Lemmas for the record bookkeeping of the state store: every write `PruneStates` issues has one
of five harmless shapes, and such writes keep every height from `to` upwards loadable. -/
namespace Tmv.StateStore

theorem get_set (db : DB) (k a : Key) (v : Val) :
    get (apply db (.set k v)) a = if k = a then some v else get db a := by
  simp only [get, apply]
  rw [Std.HashMap.getElem?_insert]; simp

theorem get_del (db : DB) (k a : Key) :
    get (apply db (.del k)) a = if k = a then none else get db a := by
  simp only [get, apply]
  rw [Std.HashMap.getElem?_erase]; simp

theorem applyAll_nil (db : DB) : applyAll db [] = db := rfl
theorem applyAll_cons (db : DB) (w : Write) (ws : List Write) :
    applyAll db (w :: ws) = applyAll (apply db w) ws := rfl
theorem applyAll_append (db : DB) (a b : List Write) :
    applyAll db (a ++ b) = applyAll (applyAll db a) b := by
  simp [applyAll, List.foldl_append]

theorem loadInfo_set (db : DB) (k a : Key) (v : Val) :
    loadInfo (apply db (.set k v)) a =
      if k = a then (match v with | .info c f => some (c, f) | _ => none) else loadInfo db a := by
  simp only [loadInfo, get_set]
  by_cases h : k = a
  · simp only [h, if_true]; cases v <;> rfl
  · simp only [h, if_false]

theorem loadInfo_del (db : DB) (k a : Key) :
    loadInfo (apply db (.del k)) a = if k = a then none else loadInfo db a := by
  simp only [loadInfo, get_del]
  by_cases h : k = a
  · simp only [h, if_true]
  · simp only [h, if_false]

/-- the shapes of the writes of `PruneStates(from, to)` -/
def Shape (db0 : DB) (keepV keepP : Int → Bool) (to : Int) (w : Write) : Prop :=
  (∃ h, h < to ∧ keepV h = false ∧ w = .del (.vals h)) ∨
  (∃ h, h < to ∧ w = .set (.vals h) (.info h true)) ∨
  (∃ h, h < to ∧ keepP h = false ∧ w = .del (.params h)) ∨
  (∃ h f, h < to ∧ (∀ c, loadInfo db0 (.params h) ≠ some (c, true)) ∧ w = .set (.params h) (.info h f)) ∨
  (∃ h, w = .del (.abci h))

/-- `db` still has, of what `db0` had: every record from `to` upwards unchanged, and every kept
record that carried a full value still carrying one -/
structure Rel (db0 db : DB) (keepV keepP : Int → Bool) (to : Int) : Prop where
  vals : ∀ h, to ≤ h → loadInfo db (.vals h) = loadInfo db0 (.vals h)
  params : ∀ h, to ≤ h → loadInfo db (.params h) = loadInfo db0 (.params h)
  keptV : ∀ h, keepV h = true → ∀ c, loadInfo db0 (.vals h) = some (c, true) →
    ∃ c', loadInfo db (.vals h) = some (c', true)
  keptP : ∀ h, keepP h = true → ∀ c, loadInfo db0 (.params h) = some (c, true) →
    ∃ c', loadInfo db (.params h) = some (c', true)
  stateKey : get db .state = get db0 .state

theorem rel_refl (db0 : DB) (keepV keepP : Int → Bool) (to : Int) : Rel db0 db0 keepV keepP to :=
  ⟨fun _ _ => rfl, fun _ _ => rfl, fun _ _ c hc => ⟨c, hc⟩, fun _ _ c hc => ⟨c, hc⟩, rfl⟩

theorem rel_step (db0 db : DB) (keepV keepP : Int → Bool) (to : Int) (w : Write)
    (hr : Rel db0 db keepV keepP to) (hs : Shape db0 keepV keepP to w) :
    Rel db0 (apply db w) keepV keepP to := by
  rcases hs with ⟨h, hlt, hk, rfl⟩ | ⟨h, hlt, rfl⟩ | ⟨h, hlt, hk, rfl⟩ | ⟨h, f, hlt, hnf, rfl⟩ | ⟨h, rfl⟩
  · refine ⟨fun a ha => ?_, fun a ha => ?_, fun a ha c hc => ?_, fun a ha c hc => ?_,
      (by first | (rw [get_del, if_neg (by intro e; cases e)]; exact hr.stateKey) | (rw [get_set, if_neg (by intro e; cases e)]; exact hr.stateKey))⟩
    · rw [loadInfo_del, if_neg (by intro e; injection e; omega)]; exact hr.vals a ha
    · rw [loadInfo_del, if_neg (by intro e; cases e)]; exact hr.params a ha
    · rw [loadInfo_del, if_neg (by intro e; injection e with e; subst e; rw [hk] at ha; cases ha)]
      exact hr.keptV a ha c hc
    · rw [loadInfo_del, if_neg (by intro e; cases e)]; exact hr.keptP a ha c hc
  · refine ⟨fun a ha => ?_, fun a ha => ?_, fun a ha c hc => ?_, fun a ha c hc => ?_,
      (by first | (rw [get_del, if_neg (by intro e; cases e)]; exact hr.stateKey) | (rw [get_set, if_neg (by intro e; cases e)]; exact hr.stateKey))⟩
    · rw [loadInfo_set, if_neg (by intro e; injection e; omega)]; exact hr.vals a ha
    · rw [loadInfo_set, if_neg (by intro e; cases e)]; exact hr.params a ha
    · rw [loadInfo_set]
      by_cases e : Key.vals h = Key.vals a
      · rw [if_pos e]; exact ⟨h, rfl⟩
      · rw [if_neg e]; exact hr.keptV a ha c hc
    · rw [loadInfo_set, if_neg (by intro e; cases e)]; exact hr.keptP a ha c hc
  · refine ⟨fun a ha => ?_, fun a ha => ?_, fun a ha c hc => ?_, fun a ha c hc => ?_,
      (by first | (rw [get_del, if_neg (by intro e; cases e)]; exact hr.stateKey) | (rw [get_set, if_neg (by intro e; cases e)]; exact hr.stateKey))⟩
    · rw [loadInfo_del, if_neg (by intro e; cases e)]; exact hr.vals a ha
    · rw [loadInfo_del, if_neg (by intro e; injection e; omega)]; exact hr.params a ha
    · rw [loadInfo_del, if_neg (by intro e; cases e)]; exact hr.keptV a ha c hc
    · rw [loadInfo_del, if_neg (by intro e; injection e with e; subst e; rw [hk] at ha; cases ha)]
      exact hr.keptP a ha c hc
  · refine ⟨fun a ha => ?_, fun a ha => ?_, fun a ha c hc => ?_, fun a ha c hc => ?_,
      (by first | (rw [get_del, if_neg (by intro e; cases e)]; exact hr.stateKey) | (rw [get_set, if_neg (by intro e; cases e)]; exact hr.stateKey))⟩
    · rw [loadInfo_set, if_neg (by intro e; cases e)]; exact hr.vals a ha
    · rw [loadInfo_set, if_neg (by intro e; injection e; omega)]; exact hr.params a ha
    · rw [loadInfo_set, if_neg (by intro e; cases e)]; exact hr.keptV a ha c hc
    · rw [loadInfo_set]
      by_cases e : Key.params h = Key.params a
      · injection e with e; subst e; exact absurd hc (hnf c)
      · rw [if_neg e]; exact hr.keptP a ha c hc
  · refine ⟨fun a ha => ?_, fun a ha => ?_, fun a ha c hc => ?_, fun a ha c hc => ?_,
      (by first | (rw [get_del, if_neg (by intro e; cases e)]; exact hr.stateKey) | (rw [get_set, if_neg (by intro e; cases e)]; exact hr.stateKey))⟩
    · rw [loadInfo_del, if_neg (by intro e; cases e)]; exact hr.vals a ha
    · rw [loadInfo_del, if_neg (by intro e; cases e)]; exact hr.params a ha
    · rw [loadInfo_del, if_neg (by intro e; cases e)]; exact hr.keptV a ha c hc
    · rw [loadInfo_del, if_neg (by intro e; cases e)]; exact hr.keptP a ha c hc

theorem rel_applyAll (db0 : DB) (keepV keepP : Int → Bool) (to : Int) (ws : List Write) (db : DB)
    (hr : Rel db0 db keepV keepP to) (hs : ∀ w ∈ ws, Shape db0 keepV keepP to w) :
    Rel db0 (applyAll db ws) keepV keepP to := by
  induction ws generalizing db with
  | nil => exact hr
  | cons w ws ih =>
    rw [applyAll_cons]
    exact ih _ (rel_step _ _ _ _ _ _ hr (hs w List.mem_cons_self))
      (fun w' hw' => hs w' (List.mem_cons_of_mem _ hw'))

/-- every write of the loop of `PruneStates` has one of the shapes (whatever it read) -/
theorem pruneLoop_shape (db0 : DB) (keepV keepP : Int → Bool) (to : Int) :
    ∀ (fuel : Nat) (h : Int) (cur : DB) (batch : List Write) (pruned : Nat),
      h < to → Rel db0 cur keepV keepP to → (∀ w ∈ batch, Shape db0 keepV keepP to w) →
      ∀ w ∈ (pruneLoop keepV keepP fuel h cur batch pruned).1.flatten, Shape db0 keepV keepP to w := by
  intro fuel
  induction fuel with
  | zero =>
    intro h cur batch pruned _ _ hb w hw
    simp only [pruneLoop, List.flatten_cons, List.flatten_nil, List.append_nil] at hw
    exact hb w hw
  | succ fuel ih =>
    intro h cur batch pruned hlt hr hb
    -- the validator record of this height
    have hvw : ∀ vw, (if keepV h then
          match loadInfo cur (.vals h) with
          | some (_, true) => Except.ok []
          | _ => if valsLoadable cur h then Except.ok [Write.set (.vals h) (.info h true)]
                 else Except.error PruneErr.keptValsNotLoadable
        else Except.ok [Write.del (.vals h)]) = Except.ok vw →
        ∀ w ∈ vw, Shape db0 keepV keepP to w := by
      intro vw hvw w hw
      by_cases hk : keepV h = true
      · simp only [hk, if_true] at hvw
        split at hvw
        · injection hvw with e; subst e; cases hw
        · split at hvw
          · injection hvw with e; subst e
            simp only [List.mem_cons, List.mem_nil_iff, or_false] at hw; subst hw
            exact Or.inr (Or.inl ⟨h, hlt, rfl⟩)
          · cases hvw
      · simp only [hk] at hvw
        injection hvw with e; subst e
        simp only [List.mem_cons, List.mem_nil_iff, or_false] at hw; subst hw
        exact Or.inl ⟨h, hlt, by simpa using hk, rfl⟩
    have hpw : ∀ pw, (if keepP h then
          match loadInfo cur (.params h) with
          | none => Except.error PruneErr.keptParamsMissing
          | some (_, true) => Except.ok []
          | some (c, false) =>
            match loadInfo cur (.params c) with
            | none => Except.error PruneErr.keptParamsNotLoadable
            | some (_, f) => Except.ok [Write.set (.params h) (.info h f)]
        else Except.ok [Write.del (.params h)]) = Except.ok pw →
        ∀ w ∈ pw, Shape db0 keepV keepP to w := by
      intro pw hpw w hw
      by_cases hk : keepP h = true
      · simp only [hk, if_true] at hpw
        split at hpw
        · cases hpw
        · injection hpw with e; subst e; cases hw
        · rename_i c hcur
          split at hpw
          · cases hpw
          · rename_i f _
            injection hpw with e; subst e
            simp only [List.mem_cons, List.mem_nil_iff, or_false] at hw; subst hw
            refine Or.inr (Or.inr (Or.inr (Or.inl ⟨h, f, hlt, ?_, rfl⟩)))
            intro c' hc'
            obtain ⟨c'', hfull⟩ := hr.keptP h hk c' hc'
            rw [hcur] at hfull; cases hfull
      · simp only [hk] at hpw
        injection hpw with e; subst e
        simp only [List.mem_cons, List.mem_nil_iff, or_false] at hw; subst hw
        exact Or.inr (Or.inr (Or.inl ⟨h, hlt, by simpa using hk, rfl⟩))
    unfold pruneLoop
    simp only
    split
    · intro w hw; cases hw
    · rename_i vw hvweq
      split
      · intro w hw; cases hw
      · rename_i pw hpweq
        have hb' : ∀ w ∈ batch ++ vw ++ pw ++ [Write.del (.abci h)], Shape db0 keepV keepP to w := by
          intro w hw
          simp only [List.mem_append, List.mem_cons, List.mem_nil_iff, or_false] at hw
          rcases hw with ((hw | hw) | hw) | hw
          · exact hb w hw
          · exact hvw vw hvweq w hw
          · exact hpw pw hpweq w hw
          · subst hw; exact Or.inr (Or.inr (Or.inr (Or.inr ⟨h, rfl⟩)))
        split
        · intro w hw
          rw [List.flatten_cons, List.mem_append] at hw
          rcases hw with hw | hw
          · exact hb' w hw
          · exact ih (h - 1) _ [] (pruned + 1) (by omega) (rel_applyAll _ _ _ _ _ _ hr hb')
              (fun w hw => by cases hw) w hw
        · exact ih (h - 1) cur _ (pruned + 1) (by omega) hr hb'

/-- what a chain of `save`s guarantees about the change-height pointers at and above `to`
(LastHeightChanged is monotone, and a record carries a full value only at a change height or a
checkpoint height) -/
structure PtrInv (db : DB) (to : Int) : Prop where
  valsAgree : ∀ h c, to ≤ h → loadInfo db (.vals h) = some (c, false) → c < to →
    ∃ f, loadInfo db (.vals to) = some (c, f)
  valsFull : ∀ c, loadInfo db (.vals to) = some (c, true) → c = to ∨ to % interval = 0
  paramsAgree : ∀ h c, to ≤ h → loadInfo db (.params h) = some (c, false) → c < to →
    ∃ f, loadInfo db (.params to) = some (c, f)
  paramsFull : ∀ c, loadInfo db (.params to) = some (c, true) → c = to

theorem lastStored_eq (h to c : Int) (hle : to ≤ h) (hlt : lastStoredHeightFor h c < to) :
    lastStoredHeightFor h c = lastStoredHeightFor to c ∧ c < to ∧ ¬ to % interval = 0 := by
  simp only [lastStoredHeightFor, interval, Facts.c18_valSetCheckpointInterval] at *
  omega

theorem serve_vals_at (db0 db : DB) (to vc : Int) (vfull : Bool) (keepP : Int → Bool)
    (hto : loadInfo db0 (.vals to) = some (vc, vfull))
    (hr : Rel db0 db (fun h => !vfull && (h == vc || h == lastStoredHeightFor to vc)) keepP to)
    (h : Int) (hh : to ≤ h)
    (hAgree : ∀ c, loadInfo db0 (.vals h) = some (c, false) → c < to →
      ∃ f, loadInfo db0 (.vals to) = some (c, f))
    (hFull : ∀ c, loadInfo db0 (.vals to) = some (c, true) → c = to ∨ to % interval = 0)
    (hl : valsLoadable db0 h = true) :
    valsLoadable db h = true := by
  unfold valsLoadable at hl ⊢
  rw [hr.vals h hh]
  cases e : loadInfo db0 (.vals h) with
  | none => rw [e] at hl; cases hl
  | some p =>
    obtain ⟨c, f⟩ := p
    rw [e] at hl
    cases f with
    | true => rfl
    | false =>
      simp only at hl ⊢
      have hfull : ∃ c2, loadInfo db0 (.vals (lastStoredHeightFor h c)) = some (c2, true) := by
        split at hl
        · rename_i c2 heq; exact ⟨c2, heq⟩
        · cases hl
      obtain ⟨c2, hc2⟩ := hfull
      by_cases hge : to ≤ lastStoredHeightFor h c
      · rw [hr.vals _ hge, hc2]
      · obtain ⟨e1, e2, e3⟩ := lastStored_eq h to c hh (by omega)
        obtain ⟨f', hf'⟩ := hAgree c e e2
        rw [hto] at hf'
        injection hf' with hf'
        injection hf' with hvc hvf
        subst hvc; subst hvf
        have hnf : vfull = false := by
          cases hv : vfull with
          | false => rfl
          | true =>
            rw [hv] at hto
            rcases hFull vc hto with e4 | e4
            · omega
            · exact absurd e4 e3
        obtain ⟨c', hc'⟩ := hr.keptV (lastStoredHeightFor h vc) (by simp [hnf, e1]) c2 hc2
        rw [hc']

theorem serve_params_at (db0 db : DB) (to pc : Int) (pfull : Bool) (keepV : Int → Bool)
    (hto : loadInfo db0 (.params to) = some (pc, pfull))
    (hr : Rel db0 db keepV (fun h => !pfull && h == pc) to)
    (h : Int) (hh : to ≤ h)
    (hAgree : ∀ c, loadInfo db0 (.params h) = some (c, false) → c < to →
      ∃ f, loadInfo db0 (.params to) = some (c, f))
    (hFull : ∀ c, loadInfo db0 (.params to) = some (c, true) → c = to)
    (hl : paramsLoadable db0 h = true) :
    paramsLoadable db h = true := by
  unfold paramsLoadable at hl ⊢
  rw [hr.params h hh]
  cases e : loadInfo db0 (.params h) with
  | none => rw [e] at hl; cases hl
  | some p =>
    obtain ⟨c, f⟩ := p
    rw [e] at hl
    cases f with
    | true => rfl
    | false =>
      simp only at hl ⊢
      have hfull : ∃ c2, loadInfo db0 (.params c) = some (c2, true) := by
        split at hl
        · rename_i c2 heq; exact ⟨c2, heq⟩
        · cases hl
      obtain ⟨c2, hc2⟩ := hfull
      by_cases hge : to ≤ c
      · rw [hr.params _ hge, hc2]
      · obtain ⟨f', hf'⟩ := hAgree c e (by omega)
        rw [hto] at hf'
        injection hf' with hf'
        injection hf' with hpc hpf
        subst hpc; subst hpf
        have hnf : pfull = false := by
          cases hv : pfull with
          | false => rfl
          | true =>
            rw [hv] at hto
            have := hFull pc hto
            omega
        obtain ⟨c', hc'⟩ := hr.keptP pc (by simp [hnf]) c2 hc2
        rw [hc']

theorem serve_vals (db0 db : DB) (to vc : Int) (vfull : Bool) (keepP : Int → Bool)
    (hto : loadInfo db0 (.vals to) = some (vc, vfull))
    (hr : Rel db0 db (fun h => !vfull && (h == vc || h == lastStoredHeightFor to vc)) keepP to)
    (inv : PtrInv db0 to) (h : Int) (hh : to ≤ h) (hl : valsLoadable db0 h = true) :
    valsLoadable db h = true :=
  serve_vals_at db0 db to vc vfull keepP hto hr h hh (fun c e e2 => inv.valsAgree h c hh e e2)
    inv.valsFull hl

theorem serve_params (db0 db : DB) (to pc : Int) (pfull : Bool) (keepV : Int → Bool)
    (hto : loadInfo db0 (.params to) = some (pc, pfull))
    (hr : Rel db0 db keepV (fun h => !pfull && h == pc) to)
    (inv : PtrInv db0 to) (h : Int) (hh : to ≤ h) (hl : paramsLoadable db0 h = true) :
    paramsLoadable db h = true :=
  serve_params_at db0 db to pc pfull keepV hto hr h hh (fun c e e2 => inv.paramsAgree h c hh e e2)
    inv.paramsFull hl

def Write.key : Write → Key
  | .set k _ => k
  | .del k => k

theorem loadInfo_apply_of_ne (db : DB) (w : Write) (a : Key) (h : w.key ≠ a) :
    loadInfo (apply db w) a = loadInfo db a := by
  cases w with
  | set k v => simp only [Write.key] at h; rw [loadInfo_set, if_neg h]
  | del k => simp only [Write.key] at h; rw [loadInfo_del, if_neg h]

theorem loadInfo_applyAll_of_not_mem (ws : List Write) (db : DB) (a : Key)
    (h : ∀ w ∈ ws, w.key ≠ a) : loadInfo (applyAll db ws) a = loadInfo db a := by
  induction ws generalizing db with
  | nil => rfl
  | cons w ws ih =>
    rw [applyAll_cons, ih _ (fun w' hw' => h w' (List.mem_cons_of_mem _ hw')),
      loadInfo_apply_of_ne _ _ _ (h w List.mem_cons_self)]

/-- the height `save` writes the consensus-params record for (and one below the validator record) -/
def saveNext (s : St) : Int :=
  if s.lastBlockHeight + 1 = 1 then s.initialHeight else s.lastBlockHeight + 1

/-- `save` only writes the validator records of `next` (genesis only) and `next+1`, the params
record of `next`, and the state -/
theorem save_keys (s : St) : ∀ w ∈ (save s).1.flatten,
    w.key = .vals (saveNext s) ∨ w.key = .vals (saveNext s + 1) ∨ w.key = .params (saveNext s) ∨ w.key = .state := by
  intro w hw
  unfold save saveValsInfo saveParamsInfo at hw
  simp only [saveNext]
  by_cases h1 : s.lastBlockHeight + 1 = 1
  · simp only [h1, if_true] at hw ⊢
    split at hw
    · simp at hw
    · rename_i u1 hu1
      split at hw
      · rename_i hu2
        simp only [Int.lt_irrefl, if_false, Option.map_some, Option.some.injEq] at hu1
        subst hu1
        simp at hw
        subst hw; simp [Write.key]
      · rename_i w2 hw2
        simp only [Int.lt_irrefl, if_false, Option.map_some, Option.some.injEq] at hu1
        subst hu1
        split at hw2
        · cases hw2
        · injection hw2 with hw2; subst hw2
          simp at hw
          rcases hw with rfl | rfl | rfl | rfl <;> simp [Write.key]
  · simp only [h1, if_false] at hw ⊢
    split at hw
    · simp at hw
    · rename_i u1 hu1
      split at hu1
      · cases hu1
      · injection hu1 with hu1; subst hu1
        simp at hw
        rcases hw with rfl | rfl | rfl <;> simp [Write.key]

theorem lastStored_le (h c : Int) (hc : c ≤ h) : lastStoredHeightFor h c ≤ h := by
  simp only [lastStoredHeightFor, interval, Facts.c18_valSetCheckpointInterval]
  omega

end Tmv.StateStore
