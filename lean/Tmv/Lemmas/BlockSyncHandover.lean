import Tmv.Lemmas.BlockSync
/-! Lemmas about the hand-over (`CommitToVoteSet`) and full commit verification for C13. -/
namespace Tmv.BlockSync
variable (sigOK : Nat → SignBytes → Nat → Bool)

/-- every non-absent entry of `c` carries the address of the validator at its index and a
signature that verifies — what `CommitToVoteSet` → `AddVote` insists on -/
def FullyChecked (c : Commit) : List Val → List CSig → Prop
  | v :: vs, s :: ss =>
    (s.flag ≠ .absent → s.addr = v.addr ∧ sigOK v.key (signBytes c s) s.sig = true) ∧
      FullyChecked c vs ss
  | _, [] => True
  | [], _ :: _ => False

theorem toVoteSet_ok (c : Commit) : ∀ (vals : List Val) (sigs : List CSig) (s ns : Int),
    FullyChecked sigOK c vals sigs →
    ∃ ns', toVoteSet sigOK c vals sigs s ns = .ok (s + signedPower sigOK c vals sigs, ns') := by
  intro vals
  induction vals with
  | nil =>
    intro sigs s ns h
    cases sigs with
    | nil => exact ⟨ns, by simp [toVoteSet, signedPower]⟩
    | cons a l => simp [FullyChecked] at h
  | cons v vs ih =>
    intro sigs s ns h
    cases sigs with
    | nil => exact ⟨ns, by simp [toVoteSet, signedPower]⟩
    | cons a l =>
      obtain ⟨h1, h2⟩ := h
      unfold toVoteSet
      simp only [signedPower]
      by_cases hf : a.flag = .absent
      · obtain ⟨ns', e⟩ := ih l s ns h2
        refine ⟨ns', ?_⟩
        simp [hf, e]
      · obtain ⟨ha, hs⟩ := h1 hf
        simp only [hf, if_false, ha, ne_eq, not_true_eq_false, hs, Bool.not_true]
        by_cases hc : a.flag = .commit
        · obtain ⟨ns', e⟩ := ih l (s + v.power) ns h2
          refine ⟨ns', ?_⟩
          simp [hc, e]; omega
        · obtain ⟨ns', e⟩ := ih l s (ns + v.power) h2
          refine ⟨ns', ?_⟩
          simp [hc, e]


/-- converse: whatever `CommitToVoteSet` accepts is fully checked (for a commit with one entry
per validator) -/
theorem toVoteSet_fully (c : Commit) : ∀ (vals : List Val) (sigs : List CSig) (s ns : Int)
    (r : Int × Int), sigs.length = vals.length → toVoteSet sigOK c vals sigs s ns = .ok r →
    FullyChecked sigOK c vals sigs := by
  intro vals
  induction vals with
  | nil =>
    intro sigs s ns r hl _
    cases sigs with
    | nil => simp [FullyChecked]
    | cons a l => simp at hl
  | cons v vs ih =>
    intro sigs s ns r hl h
    cases sigs with
    | nil => simp at hl
    | cons a l =>
      have hl' : l.length = vs.length := by simpa using hl
      unfold toVoteSet at h
      simp only [FullyChecked]
      by_cases hf : a.flag = .absent
      · simp only [hf, if_true] at h
        exact ⟨fun hne => absurd hf hne, ih l s ns r hl' h⟩
      · simp only [hf, if_false] at h
        split at h; · cases h
        rename_i ha
        split at h; · cases h
        rename_i hs
        have ha' : a.addr = v.addr := by simpa using ha
        have hs' : sigOK v.key (signBytes c a) a.sig = true := by simpa using hs
        refine ⟨fun _ => ⟨ha', hs'⟩, ?_⟩
        split at h
        · exact ih l _ _ r hl' h
        · exact ih l _ _ r hl' h

/-- `CommitSig.ValidatorAddress` of every non-absent entry is the address of the validator at that
index — compared by `VoteSet.AddVote`, by neither `VerifyCommitLight` nor `VerifyCommit` -/
def AddrMatch : List Val → List CSig → Prop
  | v :: vs, s :: ss => (s.flag ≠ .absent → s.addr = v.addr) ∧ AddrMatch vs ss
  | _, _ => True

/-- every non-absent entry verifies under the key of the validator at its index -/
def AllSigOK (c : Commit) : List Val → List CSig → Prop
  | v :: vs, s :: ss =>
    (s.flag ≠ .absent → sigOK v.key (signBytes c s) s.sig = true) ∧ AllSigOK c vs ss
  | _, _ => True

/-- the loop of `VerifyCommit` succeeds exactly on `AllSigOK`, and then returns the signed power -/
theorem fullLoop_ok_iff (c : Commit) : ∀ (vals : List Val) (sigs : List CSig) (idx : Nat) (tally : Int),
    (∃ t, fullLoop sigOK c vals sigs idx tally = .ok t) ↔ AllSigOK sigOK c vals sigs := by
  intro vals
  induction vals with
  | nil => intro sigs idx tally; simp [fullLoop, AllSigOK]
  | cons v vs ih =>
    intro sigs idx tally
    cases sigs with
    | nil => simp [fullLoop, AllSigOK]
    | cons a l =>
      unfold fullLoop
      simp only [AllSigOK]
      by_cases hf : a.flag = .absent
      · simp only [hf, if_true, ne_eq, not_true_eq_false, false_implies, true_and]
        exact ih l _ _
      · simp only [hf, if_false, ne_eq, not_false_eq_true, true_implies]
        by_cases hs : sigOK v.key (signBytes c a) a.sig = true
        · simp only [hs, Bool.not_true, true_and]
          exact ih l _ _
        · have hs' : sigOK v.key (signBytes c a) a.sig = false := by simpa using hs
          simp [hs']

theorem fullLoop_val (c : Commit) : ∀ (vals : List Val) (sigs : List CSig) (idx : Nat) (tally t : Int),
    fullLoop sigOK c vals sigs idx tally = .ok t → t = tally + signedPower sigOK c vals sigs := by
  intro vals
  induction vals with
  | nil => intro sigs idx tally t h; simp [fullLoop] at h; simp [signedPower, h]
  | cons v vs ih =>
    intro sigs idx tally t h
    cases sigs with
    | nil => simp [fullLoop] at h; simp [signedPower, h]
    | cons a l =>
      unfold fullLoop at h
      simp only [signedPower]
      by_cases hf : a.flag = .absent
      · simp only [hf, if_true] at h
        have := ih l _ _ _ h
        simp [hf]; omega
      · simp only [hf, if_false] at h
        split at h; · cases h
        rename_i hs
        have hs' : sigOK v.key (signBytes c a) a.sig = true := by simpa using hs
        have := ih l _ _ _ h
        by_cases hc : a.flag = .commit
        · simp only [hc, if_true] at this
          simp [hc, hs']; omega
        · simp only [hc, if_false] at this
          simp [hc]; omega

theorem fullyChecked_iff (c : Commit) : ∀ (vals : List Val) (sigs : List CSig),
    sigs.length = vals.length →
    (FullyChecked sigOK c vals sigs ↔ AllSigOK sigOK c vals sigs ∧ AddrMatch vals sigs) := by
  intro vals
  induction vals with
  | nil =>
    intro sigs hl
    cases sigs with
    | nil => simp [FullyChecked, AllSigOK, AddrMatch]
    | cons a l => simp at hl
  | cons v vs ih =>
    intro sigs hl
    cases sigs with
    | nil => simp at hl
    | cons a l =>
      have hl' : l.length = vs.length := by simpa using hl
      simp only [FullyChecked, AllSigOK, AddrMatch, ih l hl']
      constructor
      · rintro ⟨h1, h2, h3⟩
        exact ⟨⟨fun hf => (h1 hf).2, h2⟩, fun hf => (h1 hf).1, h3⟩
      · rintro ⟨⟨h1, h2⟩, h3, h4⟩
        exact ⟨fun hf => ⟨h3 hf, h1 hf⟩, h2, h4⟩

/-- for a commit that has the light quorum, full `VerifyCommit` succeeds exactly when every
non-absent entry verifies -/
theorem verifyCommit_iff_of_quorum (vals : List Val) (id : BlockId) (h : Int) (c : Commit)
    (hq : Quorum sigOK vals id h c) :
    verifyCommit sigOK vals id h c = .ok () ↔ AllSigOK sigOK c vals c.sigs := by
  obtain ⟨q1, q2, q3, q4⟩ := hq
  unfold verifyCommit
  have e1 : ¬ vals.length ≠ c.sigs.length := by omega
  have e2 : ¬ h ≠ c.height := by omega
  have e3 : ¬ id ≠ c.blockId := by simp [q3]
  simp only [e1, e2, e3, if_false]
  rw [← fullLoop_ok_iff sigOK c vals c.sigs 0 0]
  constructor
  · intro hv
    split at hv
    · cases hv
    · rename_i t ht; exact ⟨t, ht⟩
  · rintro ⟨t, ht⟩
    have hval := fullLoop_val sigOK c vals c.sigs 0 0 t ht
    simp only [ht]
    have : ¬ t ≤ needed vals := by unfold needed; omega
    simp [this]

theorem toVoteSet_err (c : Commit) : ∀ (vals : List Val) (sigs : List CSig) (s ns : Int)
    (e : Handover), toVoteSet sigOK c vals sigs s ns = .error e → e ≠ .ok := by
  intro vals
  induction vals with
  | nil =>
    intro sigs
    induction sigs with
    | nil => intro s ns e h; simp [toVoteSet] at h
    | cons a l ihl =>
      intro s ns e h
      unfold toVoteSet at h
      split at h
      · exact ihl s ns e h
      · cases h; simp
  | cons v vs ih =>
    intro sigs s ns e h
    cases sigs with
    | nil => simp [toVoteSet] at h
    | cons a l =>
      unfold toVoteSet at h
      split at h; · exact ih l _ _ e h
      split at h; · cases h; simp
      split at h; · cases h; simp
      split at h
      · exact ih l _ _ e h
      · exact ih l _ _ e h

/-- `reconstructLastCommit` on a store whose newest entry is the state's last block with the light
quorum: no panic exactly when that seen commit is fully checked -/
theorem reconstruct_ok_iff (st : St) (b : Block) (c : Commit) (rest : List (Block × Commit))
    (hh : b.height = st.lastHeight) (hq : Quorum sigOK st.lastVals b.id b.height c) :
    reconstruct sigOK st ((b, c) :: rest) = .ok ↔ FullyChecked sigOK c st.lastVals c.sigs := by
  unfold reconstruct
  simp only [List.find?_cons, hh, decide_true]
  constructor
  · intro h
    cases ht : toVoteSet sigOK c st.lastVals c.sigs 0 0 with
    | error e =>
      simp only [ht] at h
      exact absurd h (toVoteSet_err sigOK c _ _ _ _ e ht)
    | ok r => exact toVoteSet_fully sigOK c _ _ 0 0 r hq.1 ht
  · intro hf
    obtain ⟨ns', e⟩ := toVoteSet_ok sigOK c st.lastVals c.sigs 0 0 hf
    obtain ⟨_, _, _, hq4⟩ := hq
    have : signedPower sigOK c st.lastVals c.sigs ≥ needed st.lastVals + 1 := by
      unfold needed; omega
    simp only [e, Int.zero_add, ge_iff_le]
    rw [if_pos (Or.inl this)]

end Tmv.BlockSync
