import Tmv.Lemmas.LightProv
namespace Tmv.Light

/-- same configuration and the same provider objects in the same roles (call counters and evidence
may differ) -/
def Sim (c c' : Client) : Prop :=
  c'.cfg = c.cfg ∧ c'.primary = c.primary ∧ c'.witnesses = c.witnesses

/-- what `handleConflictingHeaders` can return, and what it appends to the evidence log -/
theorem handle_shape {c : Client} {trace : List LightBlock} {b : LightBlock} {idx : Nat} {now : Int}
    {c' : Client} {r : Option Err} (h : handleConflictingHeaders c trace b idx now = (c', r)) :
    Sim c c' ∧
    ((r = none ∧ c'.evidence = c.evidence) ∨
     (r = some .panic) ∨
     (r = some .attack ∧ ∃ sup ev1 rest, c.witnesses[idx]? = some sup ∧
        c'.evidence = c.evidence ++ (sup.id, ev1) :: rest ∧
        (rest = [] ∨ ∃ ev2, rest = [(c.primary.id, ev2)]))) := by
  unfold handleConflictingHeaders at h
  split at h
  · obtain ⟨rfl, rfl⟩ := Prod.mk.inj h
    exact ⟨⟨rfl, rfl, rfl⟩, Or.inr (Or.inl rfl)⟩
  · rename_i sup hsup
    simp only at h
    split at h
    · obtain ⟨rfl, rfl⟩ := Prod.mk.inj h
      exact ⟨⟨rfl, rfl, rfl⟩, Or.inl ⟨rfl, rfl⟩⟩
    · split at h
      · split at h
        · obtain ⟨rfl, rfl⟩ := Prod.mk.inj h
          exact ⟨⟨rfl, rfl, rfl⟩, Or.inr (Or.inr ⟨rfl, sup, _, [], hsup, rfl, Or.inl rfl⟩)⟩
        · split at h
          · obtain ⟨rfl, rfl⟩ := Prod.mk.inj h
            refine ⟨⟨rfl, rfl, rfl⟩, Or.inr (Or.inr ⟨rfl, sup, ?_, [(c.primary.id, ?_)], hsup, ?_, Or.inr ⟨_, rfl⟩⟩)⟩
            rotate_left 2
            · simp only [List.append_assoc, List.singleton_append]; rfl
          · obtain ⟨rfl, rfl⟩ := Prod.mk.inj h
            exact ⟨⟨rfl, rfl, rfl⟩, Or.inr (Or.inl rfl)⟩
      · obtain ⟨rfl, rfl⟩ := Prod.mk.inj h
        exact ⟨⟨rfl, rfl, rfl⟩, Or.inr (Or.inl rfl)⟩

theorem Sim.trans {a b c : Client} (h1 : Sim a b) (h2 : Sim b c) : Sim a c :=
  ⟨h2.1.trans h1.1, h2.2.1.trans h1.2.1, h2.2.2.trans h1.2.2⟩

/-- **conflict_reported, detector level, every arrival order.** Let witness `i` be one whose reply —
whenever its turn comes, i.e. in every state that has the same providers in the same roles — is a
conflicting header that `handleConflictingHeaders` answers with the attack error (the witness backs
its header along the trace). If `i` occurs anywhere in the arrival order, then for every prefix of
earlier replies (matching, erroring, lying, other conflicts — none of them can pre-empt it) the
cross-check returns `ErrLightClientAttack`, nothing else; the evidence log has grown by an entry
addressed to a current witness, followed by at most one entry addressed to the primary. `hnp`
excludes the code's index-out-of-range corner in the handler (an empty trace needs two different
headers of equal hash). -/
theorem detectLoop_conflict_any_order (trace : List LightBlock) (h : LightBlock) (now : Int)
    (c0 : Client) (i : Nat) (w : Prov) (hw : c0.witnesses[i]? = some w)
    (hconf : ∀ c, Sim c0 c →
      ∃ b idx, (compareNewHeaderWithWitness c.calls h w i).2 = .conflict b idx ∧
        (handleConflictingHeaders { c with calls := (compareNewHeaderWithWitness c.calls h w i).1 }
          trace b idx now).2 = some .attack)
    (hnp : ∀ c, Sim c0 c → ∀ b idx, (handleConflictingHeaders c trace b idx now).2 ≠ some .panic) :
    ∀ (arr : List Nat) (c : Client) (m : Bool) (rm : List Nat), Sim c0 c → i ∈ arr →
      ∃ c', detectLoop trace h now arr c m rm = (c', .error .attack) ∧
        ∃ sup ev1 rest, sup ∈ c0.witnesses ∧ c'.evidence = c.evidence ++ (sup.id, ev1) :: rest ∧
          (rest = [] ∨ ∃ ev2, rest = [(c0.primary.id, ev2)]) := by
  intro arr
  induction arr with
  | nil => intro c m rm _ hi; simp at hi
  | cons j rest ih =>
    intro c m rm hs hi
    simp only [detectLoop]
    cases hj : c.witnesses[j]? with
    | none =>
      simp only []
      have hne : i ≠ j := by
        intro e; subst e; rw [hs.2.2, hw] at hj; cases hj
      have hi' : i ∈ rest := by
        rcases List.mem_cons.mp hi with e | e
        · exact absurd e hne
        · exact e
      exact ih c m rm hs hi'
    | some wj =>
      simp only []
      generalize hcm : compareNewHeaderWithWitness c.calls h wj j = p
      obtain ⟨k, msg⟩ := p
      have hs1 : Sim c0 { c with calls := k } := ⟨hs.1, hs.2.1, hs.2.2⟩
      have attackCase : ∀ b idx, msg = .conflict b idx →
          ∀ c2 e, handleConflictingHeaders { c with calls := k } trace b idx now = (c2, some e) →
          ∃ sup ev1 rest', sup ∈ c0.witnesses ∧ e = .attack ∧
            c2.evidence = c.evidence ++ (sup.id, ev1) :: rest' ∧
            (rest' = [] ∨ ∃ ev2, rest' = [(c0.primary.id, ev2)]) := by
        intro b idx _ c2 e hh
        obtain ⟨_, hsh⟩ := handle_shape hh
        rcases hsh with ⟨hn, _⟩ | hp | ⟨ha, sup, ev1, rest', hsup, hev, hr⟩
        · cases hn
        · exact absurd (by rw [hh]; exact hp) (hnp _ hs1 b idx)
        · injection ha with ha
          refine ⟨sup, ev1, rest', ?_, ha, hev, ?_⟩
          · have : sup ∈ c.witnesses := List.mem_of_getElem? hsup
            rw [hs.2.2] at this; exact this
          · rcases hr with hr | ⟨ev2, hr⟩
            · exact Or.inl hr
            · refine Or.inr ⟨ev2, ?_⟩
              rw [hr]
              have : c.primary = c0.primary := hs.2.1
              simp [this]
      by_cases hij : i = j
      · -- the backed witness's turn
        subst hij
        have hwj : wj = w := by
          rw [hs.2.2, hw] at hj; injection hj with hj; exact hj.symm
        subst hwj
        obtain ⟨b, idx, hc1, hc2⟩ := hconf c hs
        rw [hcm] at hc1 hc2
        simp only at hc1 hc2
        subst hc1
        simp only []
        generalize hh : handleConflictingHeaders { c with calls := k } trace b idx now = q at hc2
        obtain ⟨c2, r⟩ := q
        simp only at hc2
        subst hc2
        obtain ⟨sup, ev1, rest', h1, _, h3, h4⟩ := attackCase b idx rfl c2 _ hh
        exact ⟨c2, rfl, sup, ev1, rest', h1, h3, h4⟩
      · have hi' : i ∈ rest := by
          rcases List.mem_cons.mp hi with e | e
          · exact absurd e hij
          · exact e
        cases msg with
        | matched => exact ih _ true rm hs1 hi'
        | badWitness idx => exact ih _ m _ hs1 hi'
        | benign => exact ih _ m rm hs1 hi'
        | conflict b idx =>
          simp only []
          generalize hh : handleConflictingHeaders { c with calls := k } trace b idx now = q
          obtain ⟨c2, r⟩ := q
          cases r with
          | some e =>
            obtain ⟨sup, ev1, rest', h1, h2, h3, h4⟩ := attackCase b idx rfl c2 e hh
            subst h2
            exact ⟨c2, rfl, sup, ev1, rest', h1, h3, h4⟩
          | none =>
            simp only []
            obtain ⟨hsim, hsh⟩ := handle_shape hh
            have hev : c2.evidence = c.evidence := by
              rcases hsh with ⟨_, he⟩ | hp | ⟨ha, _⟩
              · exact he
              · cases hp
              · cases ha
            have := ih c2 m (rm ++ [idx]) (hs1.trans hsim) hi'
            rw [hev] at this
            exact this

end Tmv.Light
