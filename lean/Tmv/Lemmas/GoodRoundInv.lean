import Tmv.Lemmas.VoteReachRun
import Tmv.Lemmas.SyncNode
/-! Invariant of one good round at one node (used by `Lemmas/GoodRound.lean`): after the complete
valid proposal `b` of round `r` was received the node is in round `r`, step prevote … precommitWait,
holds `b`, is unlocked or locked on `b`, only queues its own votes for `b`, has precommitted `b` as
soon as the round-`r` prevotes have a recorded majority, and decides the moment the round-`r`
precommits get one. One lemma per function the vote handler runs into, then the lift through
`drain` / `step`. -/
namespace Tmv.Cons.GRI

/-! ### vote sets: what a rejected vote leaves unchanged -/

theorem VoteSet.addVerified_cases (c : Cfg) (vs : VoteSet) (idx : Nat) (key : Bid) :
    (vs.addVerified c idx key).2 = true ∨
    vs.addVerified c idx key = (vs.recordVote c idx key, false) := by
  unfold VoteSet.addVerified
  dsimp only
  split
  · split
    · exact Or.inr rfl
    · exact Or.inl rfl
  · split
    · exact Or.inr rfl
    · exact Or.inl rfl

/-- a vote that is not added changes neither the buckets nor the recorded majority -/
theorem VoteSet.addVote_cases (c : Cfg) (vs : VoteSet) (v : Vote) :
    (vs.addVote c v).2 = true ∨
    ((vs.addVote c v).2 = false ∧ (vs.addVote c v).1.byBlock = vs.byBlock ∧
      (vs.addVote c v).1.maj23 = vs.maj23) := by
  unfold VoteSet.addVote
  repeat' split
  all_goals first
    | exact Or.inr ⟨rfl, rfl, rfl⟩
    | (rcases VoteSet.addVerified_cases c vs v.val v.bid with h | h
       · exact Or.inl h
       · rw [h]; exact Or.inr ⟨rfl, VoteSet.recordVote_byBlock c vs v.val v.bid⟩)

theorem HVS.putVoteSet_round (h : HVS) (r : Int) (t : VType) (vs : VoteSet) :
    (h.putVoteSet r t vs).round = h.round := by
  unfold HVS.putVoteSet; split <;> rfl

theorem HVS.addVote_tracked (c : Cfg) (h : HVS) (v : Vote) (peer : Peer) (vs : VoteSet)
    (hg : h.getVoteSet (v.round : Int) v.typ = some vs) :
    h.addVote c v peer = (h.putVoteSet (v.round : Int) v.typ (vs.addVote c v).1, (vs.addVote c v).2) := by
  unfold HVS.addVote
  simp only [hg]

theorem HVS.addVote_round (c : Cfg) (h : HVS) (v : Vote) (peer : Peer)
    (ht : (h.getVoteSet (v.round : Int) v.typ).isSome = true) : (h.addVote c v peer).1.round = h.round := by
  cases hg : h.getVoteSet (v.round : Int) v.typ with
  | none => rw [hg] at ht; cases ht
  | some vs => rw [HVS.addVote_tracked c h v peer vs hg]; exact HVS.putVoteSet_round ..

/-- the set of another (round, type) is untouched -/
theorem HVS.addVote_other (c : Cfg) (h : HVS) (v : Vote) (peer : Peer)
    (ht : (h.getVoteSet (v.round : Int) v.typ).isSome = true) (r' : Int) (t' : VType)
    (hne : ¬ (r' = (v.round : Int) ∧ t' = v.typ)) :
    (h.addVote c v peer).1.getVoteSet r' t' = h.getVoteSet r' t' := by
  cases hg : h.getVoteSet (v.round : Int) v.typ with
  | none => rw [hg] at ht; cases ht
  | some vs =>
    rw [HVS.addVote_tracked c h v peer vs hg]
    show (h.putVoteSet _ _ _).getVoteSet r' t' = _
    rw [getVoteSet_putVoteSet]
    have : ¬ ((h.getRound (v.round : Int)).isSome = true ∧ r' = (v.round : Int) ∧ t' = v.typ) := fun x => hne x.2
    simp only [this, if_false]

/-- a vote that is not added changes no recorded majority and no recorded vote -/
theorem HVS.addVote_false (c : Cfg) (h : HVS) (v : Vote) (peer : Peer)
    (ht : (h.getVoteSet (v.round : Int) v.typ).isSome = true) (hf : (h.addVote c v peer).2 = false)
    (r' : Int) (t' : VType) :
    maj23Of ((h.addVote c v peer).1.getVoteSet r' t') = maj23Of (h.getVoteSet r' t') ∧
    ∀ k u, (h.addVote c v peer).1.has r' t' k u ↔ h.has r' t' k u := by
  by_cases hne : r' = (v.round : Int) ∧ t' = v.typ
  · obtain ⟨e1, e2⟩ := hne
    subst e1; subst e2
    cases hg : h.getVoteSet (v.round : Int) v.typ with
    | none => rw [hg] at ht; cases ht
    | some vs =>
      rw [HVS.addVote_tracked c h v peer vs hg] at hf ⊢
      have hs := getRound_some_of_getVoteSet hg
      have hget : (h.putVoteSet (v.round : Int) v.typ (vs.addVote c v).1).getVoteSet (v.round : Int) v.typ =
          some (vs.addVote c v).1 := by
        rw [getVoteSet_putVoteSet]; simp [hs]
      rcases VoteSet.addVote_cases c vs v with h1 | ⟨_, hb, hm⟩
      · rw [h1] at hf; cases hf
      · refine ⟨?_, ?_⟩
        · show maj23Of ((h.putVoteSet _ _ _).getVoteSet _ _) = _
          rw [hget]
          simp only [maj23Of, Option.bind]
          exact hm
        · intro k u
          unfold HVS.has
          show (∃ x, (h.putVoteSet _ _ _).getVoteSet _ _ = some x ∧ _) ↔ _
          rw [hget, hg]
          constructor
          · rintro ⟨x, e, hx⟩
            cases e
            exact ⟨vs, rfl, (VoteSet.has_congr hb k u).mp hx⟩
          · rintro ⟨x, e, hx⟩
            cases e
            exact ⟨_, rfl, (VoteSet.has_congr hb k u).mpr hx⟩
  · have e := HVS.addVote_other c h v peer ht r' t' hne
    refine ⟨by rw [e], ?_⟩
    intro k u
    unfold HVS.has
    rw [e]

/-! ### the invariant -/


/-- the configuration of a good round: a `MockPV` validator `me`, a valid block `b`, and two sets of
other validators that carry the quorum together with `me` -/
structure GCfg (c : Cfg) (me b : Nat) (Q1 Q2 : List Nat) : Prop where
  self : c.self = some me
  mock : c.checkHRS = false
  meLt : me < c.n
  valid : c.valid b = true
  q1 : (me :: Q1).Nodup ∧ (∀ u ∈ Q1, u < c.n) ∧ c.quorum ≤ ((me :: Q1).map c.power).sum
  q2 : (me :: Q2).Nodup ∧ (∀ u ∈ Q2, u < c.n) ∧ c.quorum ≤ ((me :: Q2).map c.power).sum

/-- the node's own vote of type `t` for `b` in round `r`, as it travels through the queue -/
def grVote (t : VType) (r b me : Nat) : Vote := ⟨t, r, some b, me, true, me, me⟩

/-- the part of the invariant that only talks about the height vote set -/
structure GV (c : Cfg) (me r b : Nat) (Q1 Q2 : List Nat) (h : HVS) : Prop where
  hvsRound : (r : Int) ≤ h.round
  tracked1 : (h.getVoteSet (r : Int) .prevote).isSome = true
  tracked2 : (h.getVoteSet (r : Int) .precommit).isSome = true
  wf : HVS.WF c h
  clean1 : ∀ u, u ∈ me :: Q1 → h.only (r : Int) .prevote (some b) u
  clean2 : ∀ u, u ∈ me :: Q2 → h.only (r : Int) .precommit (some b) u

/-- the part of the invariant that talks about the round state -/
structure GS (r b : Nat) (s : NodeState) : Prop where
  halted : s.halted = false
  undec : s.decided = none
  round : s.round = r
  stepLo : 4 ≤ s.step.rank
  stepHi : s.step.rank < 8
  prop : ∃ p, s.proposal = some p ∧ p.pol < 0
  block : s.proposalBlock = some b
  parts : s.proposalParts = some b
  lock : s.lockedBlock = none ∨ s.lockedBlock = some b

/-- the node has precommitted once the prevotes of the round have a recorded majority -/
def PolkaDone (r : Nat) (s : NodeState) : Prop :=
  ∀ k, maj23Of (s.votes.prevotes (r : Int)) = some k → 6 ≤ s.step.rank

/-- there is a precommit left whose arrival will be noticed: no majority is recorded yet, or the
node's own precommit is not recorded yet -/
def Fresh (me r b : Nat) (h : HVS) : Prop :=
  maj23Of (h.precommits (r : Int)) = none ∨ ¬ h.has (r : Int) .precommit (some b) me

/-- `s'` agrees with `s` on what `GS` reads, except step and lock -/
structure Same (s s' : NodeState) : Prop where
  halted : s'.halted = s.halted
  decided : s'.decided = s.decided
  round : s'.round = s.round
  proposal : s'.proposal = s.proposal
  block : s'.proposalBlock = s.proposalBlock
  parts : s'.proposalParts = s.proposalParts
  votes : s'.votes = s.votes

theorem GS.of_same {r b : Nat} {s s' : NodeState} (h : GS r b s) (e : Same s s')
    (h1 : 4 ≤ s'.step.rank) (h2 : s'.step.rank < 8) (hl : s'.lockedBlock = none ∨ s'.lockedBlock = some b) :
    GS r b s' :=
  ⟨e.halted.trans h.halted, e.decided.trans h.undec, e.round.trans h.round, h1, h2,
    by rw [e.proposal]; exact h.prop, e.block.trans h.block, e.parts.trans h.parts, hl⟩

theorem GS.complete {r b : Nat} {s : NodeState} (h : GS r b s) : isProposalComplete s = true := by
  obtain ⟨p, hp, hpol⟩ := h.prop
  unfold isProposalComplete
  rw [hp, h.block]
  simp [hpol]

variable {c : Cfg} {me r b : Nat} {Q1 Q2 : List Nat}

theorem GV.maj1 {h : HVS} (g : GCfg c me b Q1 Q2) (hv : GV c me r b Q1 Q2 h) (k : Bid)
    (hm : maj23Of (h.prevotes (r : Int)) = some k) : k = some b := by
  unfold HVS.prevotes at hm
  cases hg : h.getVoteSet (r : Int) .prevote with
  | none => rw [hg] at hm; cases hm
  | some vs =>
    rw [hg] at hm
    apply VoteSet.majority_unique (hv.wf _ _ vs hg) (some b) (me :: Q1) g.q1.1 _ g.q1.2.2 k hm
    intro u hu
    refine ⟨?_, hv.clean1 u hu vs hg⟩
    rcases List.mem_cons.mp hu with e | e
    · rw [e]; exact g.meLt
    · exact g.q1.2.1 u e

theorem GV.maj2 {h : HVS} (g : GCfg c me b Q1 Q2) (hv : GV c me r b Q1 Q2 h) (k : Bid)
    (hm : maj23Of (h.precommits (r : Int)) = some k) : k = some b := by
  unfold HVS.precommits at hm
  cases hg : h.getVoteSet (r : Int) .precommit with
  | none => rw [hg] at hm; cases hm
  | some vs =>
    rw [hg] at hm
    apply VoteSet.majority_unique (hv.wf _ _ vs hg) (some b) (me :: Q2) g.q2.1 _ g.q2.2.2 k hm
    intro u hu
    refine ⟨?_, hv.clean2 u hu vs hg⟩
    rcases List.mem_cons.mp hu with e | e
    · rw [e]; exact g.meLt
    · exact g.q2.2.1 u e

/-- a vote for `b` in round `r` keeps the vote-set part of the invariant -/
theorem GV.addVote {h : HVS} (hv : GV c me r b Q1 Q2 h) (v : Vote) (peer : Peer)
    (hr : v.round = r) (hb : v.bid = some b) : GV c me r b Q1 Q2 (h.addVote c v peer).1 := by
  have hx : HExt c (fun _ _ w => w = v) h (h.addVote c v peer).1 := HExt.addVote c _ h v peer rfl
  have ht : (h.getVoteSet (v.round : Int) v.typ).isSome = true := by
    rw [hr]; cases v.typ
    · exact hv.tracked1
    · exact hv.tracked2
  refine ⟨?_, hx.tracked hv.tracked1, hx.tracked hv.tracked2, hx.wf hv.wf, ?_, ?_⟩
  · rw [HVS.addVote_round c h v peer ht]; exact hv.hvsRound
  · intro u hu
    exact hx.only (hv.clean1 u hu) (fun w hw => Or.inr (by rw [hw]; exact hb))
  · intro u hu
    exact hx.only (hv.clean2 u hu) (fun w hw => Or.inr (by rw [hw]; exact hb))

/-! ### the functions the vote handler runs into -/

attribute [local simp] rank_newHeight rank_newRound rank_propose rank_prevote rank_prevoteWait rank_precommit
  rank_precommitWait rank_commit

theorem Same.rfl' (s : NodeState) : Same s s := ⟨rfl, rfl, rfl, rfl, rfl, rfl, rfl⟩

theorem enterPrecommit_noop (s : NodeState) (hr : s.round = r) (hst : 6 ≤ s.step.rank) :
    enterPrecommit c s r = s := by
  unfold enterPrecommit
  split
  · rfl
  · rw [if_pos]
    right; exact ⟨hr, by simpa using hst⟩

/-- `enterPrecommit` on a polka for `b`: lock `b`, sign and queue the precommit for `b` -/
theorem enterPrecommit_polka (g : GCfg c me b Q1 Q2) {s : NodeState} (hs : GS r b s) (hst : s.step.rank < 6)
    (hm : maj23Of (s.votes.prevotes (r : Int)) = some (some b)) (hvr : (r : Int) ≤ s.votes.round) :
    Same s (enterPrecommit c s r) ∧ (enterPrecommit c s r).step = .precommit ∧
    (enterPrecommit c s r).lockedBlock = some b ∧
    (enterPrecommit c s r).queue = s.queue ++ [.vote (grVote .precommit r b me)] := by
  have hh := hs.halted
  have hr := hs.round
  have hg : ¬ (r < s.round ∨ (s.round = r ∧ Step.precommit.rank ≤ s.step.rank)) := by
    simp only [rank_precommit]; omega
  have hpol : ¬ (s.votes.polRound < (r : Int)) := by
    have := polRound_go_ge s.votes r (by rw [hm]; rfl) (s.votes.round + 1).toNat (by omega)
    unfold HVS.polRound; omega
  unfold enterPrecommit
  simp only [hh, Bool.false_eq_true, if_false, hg, hm, hpol]
  rcases hs.lock with hl | hl
  · have h1 : hashesTo s.lockedBlock (some b) = false := by simp [hashesTo, hl]
    have h2 : hashesTo s.proposalBlock (some b) = true := by simp [hashesTo, hs.block]
    simp only [h1, Bool.false_eq_true, if_false, h2, if_true, g.valid, Bool.not_true]
    rw [signAddVote_mock c _ _ _ me (by simp) g.mock g.self]
    refine ⟨⟨?_, ?_, ?_, ?_, ?_, ?_, ?_⟩, ?_, ?_, ?_⟩ <;> simp [hh, hr, hl, hs.block, grVote]
  · have h1 : hashesTo s.lockedBlock (some b) = true := by simp [hashesTo, hl]
    simp only [h1, if_true]
    rw [signAddVote_mock c _ _ _ me (by simp) g.mock g.self]
    refine ⟨⟨?_, ?_, ?_, ?_, ?_, ?_, ?_⟩, ?_, ?_, ?_⟩ <;> simp [hh, hr, hl, hs.block, grVote]

/-- `enterPrecommit` without a polka: sign a nil precommit; round state otherwise unchanged -/
theorem enterPrecommit_nil (g : GCfg c me b Q1 Q2) {s : NodeState} (hs : GS r b s) (hst : s.step.rank < 6)
    (hm : maj23Of (s.votes.prevotes (r : Int)) = none) :
    Same s (enterPrecommit c s r) ∧ (enterPrecommit c s r).step = .precommit ∧
    (enterPrecommit c s r).lockedBlock = s.lockedBlock := by
  have hh := hs.halted
  have hr := hs.round
  have hg : ¬ (r < s.round ∨ (s.round = r ∧ Step.precommit.rank ≤ s.step.rank)) := by
    simp only [rank_precommit]; omega
  unfold enterPrecommit
  simp only [hh, Bool.false_eq_true, if_false, hg, hm]
  rw [signAddVote_mock c _ _ _ me hh g.mock g.self]
  refine ⟨⟨?_, ?_, ?_, ?_, ?_, ?_, ?_⟩, ?_, ?_⟩ <;> simp [hh, hr]

theorem enterNewRound_noop (s : NodeState) (hr : s.round = r) (hst : 4 ≤ s.step.rank) :
    enterNewRound c s r = s := by
  have hne : s.step ≠ .newHeight := by
    intro e; rw [e] at hst; simp at hst
  unfold enterNewRound
  split
  · rfl
  · rw [if_pos]
    right; exact ⟨hr, hne⟩

/-- `onPolka` for `b` at a node that holds `b` and is unlocked or locked on `b` only records the
valid block -/
theorem onPolka_same {s : NodeState} (hs : GS r b s) :
    Same s (onPolka s r (some b)) ∧ (onPolka s r (some b)).step = s.step ∧
    (onPolka s r (some b)).lockedBlock = s.lockedBlock ∧ (onPolka s r (some b)).queue = s.queue := by
  have h1 : (s.lockedBlock.isSome = true ∧ s.lockedRound < (r : Int) ∧ r ≤ s.round ∧
      (!hashesTo s.lockedBlock (some b)) = true) = False := by
    rcases hs.lock with hl | hl <;> simp [hl, hashesTo]
  have h2 : hashesTo s.proposalBlock (some b) = true := by simp [hashesTo, hs.block]
  have h3 : hasHeader s.proposalParts (some b) = true := by simp [hasHeader, hs.parts]
  unfold onPolka
  simp only [h1, if_false, h2, if_true]
  split
  · simp only [h3, Bool.not_true, Bool.false_eq_true, if_false]
    refine ⟨⟨?_, ?_, ?_, ?_, ?_, ?_, ?_⟩, ?_, ?_, ?_⟩ <;> simp
  · exact ⟨Same.rfl' s, rfl, rfl, rfl⟩

/-- how the step and the queue may change when a vote is handled: nothing queued and the node is
still before / after its precommit as it was, or it has just precommitted `b` -/
def QStep (me r b : Nat) (s s' : NodeState) : Prop :=
  (s'.queue = s.queue ∧ (6 ≤ s'.step.rank ↔ 6 ≤ s.step.rank)) ∨
  (s.step.rank < 6 ∧ 6 ≤ s'.step.rank ∧ s'.queue = s.queue ++ [.vote (grVote .precommit r b me)])

theorem QStep.congr {s s1 s' : NodeState} (hq : s1.queue = s.queue) (hst : s1.step = s.step)
    (h : QStep me r b s1 s') : QStep me r b s s' := by
  unfold QStep at h ⊢
  rw [hq, hst] at h
  exact h

theorem enterPrevoteWait_same {s : NodeState} (hs : GS r b s)
    (hany : hasAnyOf c (s.votes.prevotes (r : Int)) = true) :
    Same s (enterPrevoteWait c s r) ∧ 4 ≤ (enterPrevoteWait c s r).step.rank ∧
    (enterPrevoteWait c s r).step.rank < 8 ∧
    (6 ≤ (enterPrevoteWait c s r).step.rank ↔ 6 ≤ s.step.rank) ∧
    (enterPrevoteWait c s r).lockedBlock = s.lockedBlock ∧ (enterPrevoteWait c s r).queue = s.queue := by
  unfold enterPrevoteWait
  simp only [hs.halted, Bool.false_eq_true, if_false, hany, Bool.not_true]
  split
  · exact ⟨Same.rfl' s, hs.stepLo, hs.stepHi, Iff.rfl, rfl, rfl⟩
  · rename_i hg
    have hlt : s.step.rank < 5 := by
      simp only [hs.round, true_and, rank_prevoteWait] at hg
      omega
    refine ⟨⟨?_, ?_, ?_, ?_, ?_, ?_, ?_⟩, ?_, ?_, ?_, ?_, ?_⟩ <;> simp [emit, hs.halted, hs.round]
    omega

theorem prevoteTransitions_GR (g : GCfg c me b Q1 Q2) {s : NodeState} (hs : GS r b s)
    (hv : GV c me r b Q1 Q2 s.votes) :
    GS r b (prevoteTransitions c s r) ∧ (prevoteTransitions c s r).votes = s.votes ∧
    PolkaDone r (prevoteTransitions c s r) ∧ QStep me r b s (prevoteTransitions c s r) := by
  have h1 : ¬ (s.round < r ∧ hasAnyOf c (s.votes.prevotes (r : Int)) = true) := by
    rw [hs.round]; omega
  have h2 : s.round = r ∧ Step.prevote.rank ≤ s.step.rank := ⟨hs.round, by simpa using hs.stepLo⟩
  unfold prevoteTransitions
  dsimp only
  rw [if_neg h1, if_pos h2]
  split
  · rename_i bid hm
    have hb := hv.maj1 g bid hm
    subst hb
    simp only [hs.complete, Bool.true_or, if_true]
    by_cases hst : s.step.rank < 6
    · obtain ⟨e, e1, e2, e3⟩ := enterPrecommit_polka g hs hst hm hv.hvsRound
      refine ⟨hs.of_same e (by rw [e1]; simp) (by rw [e1]; simp) (Or.inr e2), e.votes, ?_, Or.inr ⟨hst, ?_, e3⟩⟩
      · intro k _; rw [e1]; simp
      · rw [e1]; simp
    · rw [enterPrecommit_noop s hs.round (by omega)]
      exact ⟨hs, rfl, fun _ _ => by omega, Or.inl ⟨rfl, Iff.rfl⟩⟩
  · rename_i hm
    split
    · rename_i hany
      obtain ⟨e, e1, e2, e3, e4, e5⟩ := enterPrevoteWait_same (c := c) hs hany
      refine ⟨hs.of_same e e1 e2 (by rw [e4]; exact hs.lock), e.votes, ?_, Or.inl ⟨e5, e3⟩⟩
      intro k hk
      rw [e.votes, hm] at hk; cases hk
    · refine ⟨hs, rfl, ?_, Or.inl ⟨rfl, Iff.rfl⟩⟩
      intro k hk
      rw [hm] at hk; cases hk

/-- **a prevote was added**: the invariant is kept; the node precommits `b` if this gave the polka -/
theorem afterPrevote_GR (g : GCfg c me b Q1 Q2) {s : NodeState} (hs : GS r b s)
    (hv : GV c me r b Q1 Q2 s.votes) :
    GS r b (afterPrevote c s r) ∧ (afterPrevote c s r).votes = s.votes ∧
    PolkaDone r (afterPrevote c s r) ∧ QStep me r b s (afterPrevote c s r) := by
  unfold afterPrevote
  dsimp only
  split
  · rename_i bid hm
    have hb := hv.maj1 g bid hm
    subst hb
    obtain ⟨e, e1, e2, e3⟩ := onPolka_same hs
    have hs1 : GS r b (onPolka s r (some b)) :=
      hs.of_same e (by rw [e1]; exact hs.stepLo) (by rw [e1]; exact hs.stepHi) (by rw [e2]; exact hs.lock)
    obtain ⟨a1, a2, a3, a4⟩ := prevoteTransitions_GR g hs1 (by rw [e.votes]; exact hv)
    exact ⟨a1, a2.trans e.votes, a3, a4.congr e3 e1⟩
  · exact prevoteTransitions_GR g hs hv

theorem enterPrecommitWait_same {s : NodeState} (hs : GS r b s)
    (hany : hasAnyOf c (s.votes.precommits (r : Int)) = true) :
    Same s (enterPrecommitWait c s r) ∧ (enterPrecommitWait c s r).step = s.step ∧
    (enterPrecommitWait c s r).lockedBlock = s.lockedBlock ∧ (enterPrecommitWait c s r).queue = s.queue := by
  unfold enterPrecommitWait
  simp only [hs.halted, Bool.false_eq_true, if_false, hany, Bool.not_true]
  split
  · exact ⟨Same.rfl' s, rfl, rfl, rfl⟩
  · refine ⟨⟨?_, ?_, ?_, ?_, ?_, ?_, ?_⟩, ?_, ?_, ?_⟩ <;> simp [emit, hs.halted]

/-- **a precommit was added**: with a recorded majority the node decides `b` in round `r`;
otherwise the invariant is kept -/
theorem afterPrecommit_GR (g : GCfg c me b Q1 Q2) {s : NodeState} (hs : GS r b s)
    (hv : GV c me r b Q1 Q2 s.votes) (hp : PolkaDone r s) :
    (afterPrecommit c s r).decided = some (b, (r : Int)) ∨
    (maj23Of (s.votes.precommits (r : Int)) = none ∧ GS r b (afterPrecommit c s r) ∧
      (afterPrecommit c s r).votes = s.votes ∧ (afterPrecommit c s r).step = s.step ∧
      (afterPrecommit c s r).queue = s.queue) := by
  unfold afterPrecommit
  dsimp only
  split
  · rename_i bid hm
    left
    have hb := hv.maj2 g bid hm
    subst hb
    rw [enterNewRound_noop s hs.round hs.stepLo]
    simp only [Option.isSome_some, if_true]
    have hheld : s.lockedBlock = some b ∨ (s.proposalBlock = some b ∧ s.proposalParts = some b) :=
      Or.inr ⟨hs.block, hs.parts⟩
    by_cases hst : 6 ≤ s.step.rank
    · rw [enterPrecommit_noop s hs.round hst]
      exact enterCommit_decides c s r b hs.halted (by simpa using hs.stepHi) hm hheld g.valid
    · have hnone : maj23Of (s.votes.prevotes (r : Int)) = none := by
        cases hk : maj23Of (s.votes.prevotes (r : Int)) with
        | none => rfl
        | some k => exact absurd (hp k hk) hst
      obtain ⟨e, e1, e2⟩ := enterPrecommit_nil g hs (by omega) hnone
      apply enterCommit_decides c _ r b (e.halted.trans hs.halted) (by rw [e1]; simp)
        (by rw [e.votes]; exact hm) _ g.valid
      right
      exact ⟨e.block.trans hs.block, e.parts.trans hs.parts⟩
  · rename_i hm
    right
    refine ⟨hm, ?_⟩
    split
    · rename_i hany
      rw [enterNewRound_noop s hs.round hs.stepLo]
      obtain ⟨e, e1, e2, e3⟩ := enterPrecommitWait_same (c := c) hs hany.2
      exact ⟨hs.of_same e (by rw [e1]; exact hs.stepLo) (by rw [e1]; exact hs.stepHi) (by rw [e2]; exact hs.lock),
        e.votes, e1, e3⟩
    · exact ⟨hs, rfl, rfl, rfl⟩

/-! ### one vote of the good round handled by `State.addVote` -/

theorem Fresh.congr {h h' : HVS} (hm : maj23Of (h'.precommits (r : Int)) = maj23Of (h.precommits (r : Int)))
    (hh : h'.has (r : Int) .precommit (some b) me ↔ h.has (r : Int) .precommit (some b) me)
    (hf : Fresh me r b h) : Fresh me r b h' := by
  unfold Fresh at hf ⊢
  rw [hm, hh]; exact hf

theorem GS.setVotes {s : NodeState} (hs : GS r b s) (h : HVS) : GS r b { s with votes := h } :=
  ⟨hs.halted, hs.undec, hs.round, hs.stepLo, hs.stepHi, hs.prop, hs.block, hs.parts, hs.lock⟩

/-- **one vote for `b` of round `r`** — of a validator of `me :: Q1` (prevote) or `me :: Q2`
(precommit) — handled by `State.addVote`: the node decides, or the invariant is kept, the vote is
recorded and the node has queued at most its precommit for `b` -/
theorem addVote_GR (g : GCfg c me b Q1 Q2) {s : NodeState} (hs : GS r b s)
    (hv : GV c me r b Q1 Q2 s.votes) (hp : PolkaDone r s) (hf : Fresh me r b s.votes)
    (t : VType) (u : Nat) (hu : u < c.n)
    (hmem : (t = .prevote → u ∈ me :: Q1) ∧ (t = .precommit → u ∈ me :: Q2)) (peer : Peer) :
    (addVote c s (grVote t r b u) peer).decided = some (b, (r : Int)) ∨
    (GS r b (addVote c s (grVote t r b u) peer) ∧
      GV c me r b Q1 Q2 (addVote c s (grVote t r b u) peer).votes ∧
      PolkaDone r (addVote c s (grVote t r b u) peer) ∧
      Fresh me r b (addVote c s (grVote t r b u) peer).votes ∧
      QStep me r b s (addVote c s (grVote t r b u) peer) ∧
      (addVote c s (grVote t r b u) peer).votes.has (r : Int) t (some b) u ∧
      (∀ r' t' k u', s.votes.has r' t' k u' → (addVote c s (grVote t r b u) peer).votes.has r' t' k u')) := by
  generalize hvdef : grVote t r b u = v
  have hvr : v.round = r := by rw [← hvdef]; rfl
  have hvt : v.typ = t := by rw [← hvdef]; rfl
  have hvb : v.bid = some b := by rw [← hvdef]; rfl
  have hvv : v.val = u := by rw [← hvdef]; rfl
  have hws : v.wellSigned c := by rw [← hvdef]; exact ⟨hu, rfl, rfl, rfl⟩
  have ht : (s.votes.getVoteSet (v.round : Int) v.typ).isSome = true := by
    rw [hvr, hvt]; cases t
    · exact hv.tracked1
    · exact hv.tracked2
  have hgv : GV c me r b Q1 Q2 (s.votes.addVote c v peer).1 := hv.addVote v peer hvr hvb
  have hx : HExt c (fun _ _ w => w = v) s.votes (s.votes.addVote c v peer).1 := HExt.addVote c _ _ v peer rfl
  have hrec : (s.votes.addVote c v peer).1.has (r : Int) t (some b) u := by
    have := HVS.addVote_records hv.wf v peer hws ht (by
      rw [hvr, hvt, hvb, hvv]
      cases t
      · exact hv.clean1 u (hmem.1 rfl)
      · exact hv.clean2 u (hmem.2 rfl))
    rw [hvr, hvt, hvb, hvv] at this; exact this
  have hmono : ∀ r' t' k u', s.votes.has r' t' k u' → (s.votes.addVote c v peer).1.has r' t' k u' :=
    fun _ _ _ _ h => hx.has h
  have hs1 : GS r b { s with votes := (s.votes.addVote c v peer).1 } := hs.setVotes _
  unfold addVote
  dsimp only
  by_cases hadd : (s.votes.addVote c v peer).2 = true
  · simp only [hadd, Bool.not_true, Bool.false_eq_true, if_false]
    rw [hvr, hvt]
    cases t
    · dsimp only
      obtain ⟨a1, a2, a3, a4⟩ := afterPrevote_GR g hs1 hgv
      right
      have hoth := HVS.addVote_other c s.votes v peer ht (r : Int) .precommit (by rw [hvt]; simp)
      refine ⟨a1, by rw [a2]; exact hgv, a3, ?_, a4.congr rfl rfl, by rw [a2]; exact hrec, ?_⟩
      · rw [a2]
        refine Fresh.congr ?_ ?_ hf
        · show maj23Of (HVS.getVoteSet _ _ _) = maj23Of (HVS.getVoteSet _ _ _)
          rw [hoth]
        · unfold HVS.has; rw [hoth]
      · rw [a2]; exact hmono
    · dsimp only
      have hp1 : PolkaDone r { s with votes := (s.votes.addVote c v peer).1 } := by
        have hoth := HVS.addVote_other c s.votes v peer ht (r : Int) .prevote (by rw [hvt]; simp)
        intro k hk
        apply hp k
        rw [← hk]
        show maj23Of (HVS.getVoteSet _ _ _) = maj23Of (HVS.getVoteSet _ _ _)
        rw [hoth]
      rcases afterPrecommit_GR g hs1 hgv hp1 with a | ⟨a0, a1, a2, a3, a4⟩
      · exact Or.inl a
      · right
        refine ⟨a1, by rw [a2]; exact hgv, ?_, ?_, Or.inl ⟨a4, by rw [a3]⟩, by rw [a2]; exact hrec, ?_⟩
        · intro k hk
          rw [a3]
          rw [a2] at hk
          exact hp1 k hk
        · rw [a2]; exact Or.inl a0
        · rw [a2]; exact hmono
  · have hadd' : (s.votes.addVote c v peer).2 = false := by
      cases h : (s.votes.addVote c v peer).2
      · rfl
      · exact absurd h hadd
    simp only [hadd', Bool.not_false, if_true]
    right
    have hfalse := HVS.addVote_false c s.votes v peer ht hadd'
    refine ⟨hs1, hgv, ?_, ?_, Or.inl ⟨rfl, Iff.rfl⟩, hrec, hmono⟩
    · intro k hk
      apply hp k
      rw [← hk]
      exact ((hfalse (r : Int) .prevote).1).symm
    · exact Fresh.congr (hfalse (r : Int) .precommit).1 ((hfalse (r : Int) .precommit).2 _ _) hf

/-! ### the invariant with the queue, through `drain`, `step` and `run` -/

/-- the full invariant; `D t u` = "the vote of type `t` of validator `u` was delivered" -/
structure GR (c : Cfg) (me r b : Nat) (Q1 Q2 : List Nat) (D : VType → Nat → Prop) (s : NodeState) : Prop where
  gs : GS r b s
  gv : GV c me r b Q1 Q2 s.votes
  polka : PolkaDone r s
  fresh : Fresh me r b s.votes
  qAllowed : ∀ m, m ∈ s.queue → ∃ t, m = .vote (grVote t r b me)
  pvDone : Internal.vote (grVote .prevote r b me) ∈ s.queue ∨ s.votes.has (r : Int) .prevote (some b) me
  pcDone : 6 ≤ s.step.rank →
    Internal.vote (grVote .precommit r b me) ∈ s.queue ∨ s.votes.has (r : Int) .precommit (some b) me
  deliv : ∀ t u, D t u → s.votes.has (r : Int) t (some b) u

theorem GR.mono {D D' : VType → Nat → Prop} {s : NodeState} (h : GR c me r b Q1 Q2 D s)
    (hD : ∀ t u, D' t u → D t u) : GR c me r b Q1 Q2 D' s :=
  ⟨h.gs, h.gv, h.polka, h.fresh, h.qAllowed, h.pvDone, h.pcDone, fun t u d => h.deliv t u (hD t u d)⟩

/-- own messages still to be handled: the queue, plus the precommit not signed yet -/
def mu (s : NodeState) : Nat := s.queue.length + (if s.step.rank < 6 then 1 else 0)

theorem QStep.facts {s s' : NodeState} (h : QStep me r b s s') :
    (∀ m, m ∈ s.queue → m ∈ s'.queue) ∧
    (∀ m, m ∈ s'.queue → m ∈ s.queue ∨ m = .vote (grVote .precommit r b me)) ∧
    (6 ≤ s'.step.rank → 6 ≤ s.step.rank ∨ Internal.vote (grVote .precommit r b me) ∈ s'.queue) ∧
    mu s' ≤ mu s := by
  unfold mu
  rcases h with ⟨e, hi⟩ | ⟨h1, h2, e⟩
  · rw [e]
    refine ⟨fun _ h => h, fun _ h => Or.inl h, fun h => Or.inl (hi.mp h), ?_⟩
    by_cases h6 : 6 ≤ s.step.rank
    · have := hi.mpr h6
      rw [if_neg (by omega), if_neg (by omega)]; omega
    · have : ¬ 6 ≤ s'.step.rank := fun x => h6 (hi.mp x)
      rw [if_pos (by omega), if_pos (by omega)]; omega
  · rw [e]
    refine ⟨fun _ h => List.mem_append_left _ h, ?_, fun _ => Or.inr (List.mem_append_right _ (List.mem_singleton.mpr rfl)), ?_⟩
    · intro m hm
      rcases List.mem_append.mp hm with h | h
      · exact Or.inl h
      · exact Or.inr (List.mem_singleton.mp h)
    · rw [if_neg (by omega), if_pos h1]
      simp

theorem GS.setQueue {s : NodeState} (hs : GS r b s) (q : List Internal) : GS r b { s with queue := q } :=
  ⟨hs.halted, hs.undec, hs.round, hs.stepLo, hs.stepHi, hs.prop, hs.block, hs.parts, hs.lock⟩

theorem grVote_inj {t t' : VType} {u u' : Nat} (e : grVote t r b u = grVote t' r b u') : t = t' ∧ u = u' := by
  unfold grVote at e
  injection e with e1 _ _ e4
  exact ⟨e1, e4⟩

/-- **one own message taken off the queue** -/
theorem internal_GR (g : GCfg c me b Q1 Q2) {D : VType → Nat → Prop} {s : NodeState}
    (h : GR c me r b Q1 Q2 D s) (m : Internal) (rest : List Internal) (hq : s.queue = m :: rest) :
    (handleInternal c { s with queue := rest } m).decided = some (b, (r : Int)) ∨
    (GR c me r b Q1 Q2 D (handleInternal c { s with queue := rest } m) ∧
      mu (handleInternal c { s with queue := rest } m) < mu s) := by
  obtain ⟨t, hm⟩ := h.qAllowed m (by rw [hq]; exact List.mem_cons_self ..)
  subst hm
  show (addVote c { s with queue := rest } (grVote t r b me) 0).decided = _ ∨
    (GR c me r b Q1 Q2 D (addVote c { s with queue := rest } (grVote t r b me) 0) ∧
      mu (addVote c { s with queue := rest } (grVote t r b me) 0) < mu s)
  have hp0 : PolkaDone r { s with queue := rest } := h.polka
  rcases addVote_GR g (h.gs.setQueue rest) h.gv hp0 h.fresh t me g.meLt
      ⟨fun _ => List.mem_cons_self .., fun _ => List.mem_cons_self ..⟩ 0 with a | ⟨a1, a2, a3, a4, a5, a6, a7⟩
  · exact Or.inl a
  · right
    obtain ⟨f1, f2, f3, f4⟩ := a5.facts
    have f1' : ∀ x, x ∈ rest → x ∈ (addVote c { s with queue := rest } (grVote t r b me) 0).queue := f1
    have f2' : ∀ x, x ∈ (addVote c { s with queue := rest } (grVote t r b me) 0).queue →
        x ∈ rest ∨ x = .vote (grVote .precommit r b me) := f2
    have f3' : 6 ≤ (addVote c { s with queue := rest } (grVote t r b me) 0).step.rank → 6 ≤ s.step.rank ∨
        Internal.vote (grVote .precommit r b me) ∈ (addVote c { s with queue := rest } (grVote t r b me) 0).queue := f3
    refine ⟨⟨a1, a2, a3, a4, ?_, ?_, ?_, fun t' u' d => a7 _ _ _ _ (h.deliv t' u' d)⟩, ?_⟩
    · intro x hx
      rcases f2' x hx with hx | hx
      · exact h.qAllowed x (by rw [hq]; exact List.mem_cons_of_mem _ hx)
      · exact ⟨_, hx⟩
    · rcases h.pvDone with hpv | hpv
      · rw [hq] at hpv
        rcases List.mem_cons.mp hpv with e | e
        · injection e with e
          have := (grVote_inj e).1
          subst this
          exact Or.inr a6
        · exact Or.inl (f1' _ e)
      · exact Or.inr (a7 _ _ _ _ hpv)
    · intro h6
      rcases f3' h6 with h6 | hin
      · rcases h.pcDone h6 with hpc | hpc
        · rw [hq] at hpc
          rcases List.mem_cons.mp hpc with e | e
          · injection e with e
            have := (grVote_inj e).1
            subst this
            exact Or.inr a6
          · exact Or.inl (f1' _ e)
        · exact Or.inr (a7 _ _ _ _ hpc)
      · exact Or.inl hin
    · have : mu ({ s with queue := rest } : NodeState) + 1 = mu s := by
        unfold mu; rw [hq]; simp only [List.length_cons]; omega
      omega

/-- **one vote of the good round received from a peer** -/
theorem external_GR (g : GCfg c me b Q1 Q2) {D : VType → Nat → Prop} {s : NodeState}
    (h : GR c me r b Q1 Q2 D s) (t : VType) (u : Nat) (hu : u < c.n)
    (hmem : (t = .prevote → u ∈ me :: Q1) ∧ (t = .precommit → u ∈ me :: Q2)) (peer : Peer) :
    (addVote c s (grVote t r b u) peer).decided = some (b, (r : Int)) ∨
    (GR c me r b Q1 Q2 (fun t' u' => D t' u' ∨ (t' = t ∧ u' = u)) (addVote c s (grVote t r b u) peer) ∧
      mu (addVote c s (grVote t r b u) peer) ≤ mu s) := by
  rcases addVote_GR g h.gs h.gv h.polka h.fresh t u hu hmem peer with a | ⟨a1, a2, a3, a4, a5, a6, a7⟩
  · exact Or.inl a
  · right
    obtain ⟨f1, f2, f3, f4⟩ := a5.facts
    refine ⟨⟨a1, a2, a3, a4, ?_, ?_, ?_, ?_⟩, f4⟩
    · intro x hx
      rcases f2 x hx with hx | hx
      · exact h.qAllowed x hx
      · exact ⟨_, hx⟩
    · rcases h.pvDone with hpv | hpv
      · exact Or.inl (f1 _ hpv)
      · exact Or.inr (a7 _ _ _ _ hpv)
    · intro h6
      rcases f3 h6 with h6 | hin
      · rcases h.pcDone h6 with hpc | hpc
        · exact Or.inl (f1 _ hpc)
        · exact Or.inr (a7 _ _ _ _ hpc)
      · exact Or.inl hin
    · intro t' u' d
      rcases d with d | ⟨e1, e2⟩
      · exact a7 _ _ _ _ (h.deliv t' u' d)
      · subst e1; subst e2; exact a6

/-- **the own messages are all handled within the fuel** -/
theorem drain_GR (g : GCfg c me b Q1 Q2) {D : VType → Nat → Prop} : ∀ (fuel : Nat) (s : NodeState),
    GR c me r b Q1 Q2 D s → mu s ≤ fuel →
    (drain c fuel s).decided = some (b, (r : Int)) ∨
      (GR c me r b Q1 Q2 D (drain c fuel s) ∧ (drain c fuel s).queue = []) := by
  intro fuel
  induction fuel with
  | zero =>
    intro s h hmu
    have : s.queue = [] := by
      unfold mu at hmu
      exact List.eq_nil_of_length_eq_zero (by omega)
    exact Or.inr ⟨by unfold drain; exact h, by unfold drain; exact this⟩
  | succ n ih =>
    intro s h hmu
    cases hq : s.queue with
    | nil =>
      rw [drain_succ_stop n s (Or.inr hq)]
      exact Or.inr ⟨h, hq⟩
    | cons m rest =>
      have hlive : ¬ (s.halted = true ∨ s.decided.isSome = true) := by
        rw [h.gs.halted, h.gs.undec]; simp
      rw [drain_succ_cons n s m rest hlive hq]
      rcases internal_GR g h m rest hq with a | ⟨a1, a2⟩
      · rw [drain_decided c n _ (by rw [a]; rfl)]
        exact Or.inl a
      · exact ih _ a1 (by omega)

theorem mu_le_one {s : NodeState} (hq : s.queue = []) : mu s ≤ 1 := by
  unfold mu; rw [hq]; split <;> simp

/-- **one vote of the good round as an input of the receive routine** -/
theorem step_vote_GR (g : GCfg c me b Q1 Q2) {D : VType → Nat → Prop} {s : NodeState}
    (h : GR c me r b Q1 Q2 D s) (hq : s.queue = []) (t : VType) (u : Nat) (hu : u < c.n)
    (hmem : (t = .prevote → u ∈ me :: Q1) ∧ (t = .precommit → u ∈ me :: Q2)) (peer : Peer) :
    (step c s (.vote (grVote t r b u) peer)).decided = some (b, (r : Int)) ∨
    (GR c me r b Q1 Q2 (fun t' u' => D t' u' ∨ (t' = t ∧ u' = u)) (step c s (.vote (grVote t r b u) peer)) ∧
      (step c s (.vote (grVote t r b u) peer)).queue = []) := by
  have hlive : ¬ (s.halted = true ∨ s.decided.isSome = true) := by
    rw [h.gs.halted, h.gs.undec]; simp
  have e : step c s (.vote (grVote t r b u) peer) = drain c drainFuel (addVote c s (grVote t r b u) peer) := by
    unfold step; simp only [hlive, if_false]; rfl
  rw [e]
  rcases external_GR g h t u hu hmem peer with a | ⟨a1, a2⟩
  · rw [drain_decided c _ _ (by rw [a]; rfl)]
    exact Or.inl a
  · have := mu_le_one hq
    exact drain_GR g drainFuel _ a1 (by unfold drainFuel; omega)

theorem run_cons (s : NodeState) (i : Input) (L : List Input) : run c s (i :: L) = run c (step c s i) L := by
  simp [run, List.foldl]

theorem run_decided (L : List Input) (s : NodeState) (x : Nat × Int) (h : s.decided = some x) :
    (run c s L).decided = some x := by
  induction L generalizing s with
  | nil => exact h
  | cons i L ih =>
    rw [run_cons, step_decided c s i (by rw [h]; rfl)]
    exact ih s h

/-- **any sequence of votes of the good round** -/
theorem run_GR (g : GCfg c me b Q1 Q2) : ∀ (L : List Input) (D : VType → Nat → Prop) (s : NodeState),
    (∀ i, i ∈ L → ∃ t u, i = .vote (grVote t r b u) (1 + u) ∧ u < c.n ∧
      (t = .prevote → u ∈ me :: Q1) ∧ (t = .precommit → u ∈ me :: Q2)) →
    (s.decided = some (b, (r : Int)) ∨ (GR c me r b Q1 Q2 D s ∧ s.queue = [])) →
    ((run c s L).decided = some (b, (r : Int)) ∨
      (GR c me r b Q1 Q2 (fun t u => D t u ∨ Input.vote (grVote t r b u) (1 + u) ∈ L) (run c s L) ∧
        (run c s L).queue = [])) := by
  intro L
  induction L with
  | nil =>
    intro D s _ h
    rcases h with h | ⟨h, hq⟩
    · exact Or.inl h
    · refine Or.inr ⟨h.mono ?_, hq⟩
      intro t u d
      rcases d with d | d
      · exact d
      · cases d
  | cons i L ih =>
    intro D s hL h
    rw [run_cons]
    rcases h with h | ⟨h, hq⟩
    · exact Or.inl (run_decided _ _ _ (by rw [step_decided c s i (by rw [h]; rfl)]; exact h))
    · obtain ⟨t, u, hi, hu, hmem⟩ := hL i (List.mem_cons_self ..)
      subst hi
      have hL' := fun j hj => hL j (List.mem_cons_of_mem _ hj)
      rcases ih _ _ hL' (step_vote_GR g h hq t u hu hmem (1 + u)) with a | ⟨a1, a2⟩
      · exact Or.inl a
      · refine Or.inr ⟨a1.mono ?_, a2⟩
        intro t' u' d
        rcases d with d | d
        · exact Or.inl (Or.inl d)
        · rcases List.mem_cons.mp d with e | e
          · injection e with e _
            obtain ⟨e1, e2⟩ := grVote_inj e
            exact Or.inl (Or.inr ⟨e1, e2⟩)
          · exact Or.inr e

/-- **the end of the good round**: with every vote delivered and every own message handled the
invariant cannot hold any more — the node has decided -/
theorem GR.final (g : GCfg c me b Q1 Q2) {D : VType → Nat → Prop} {s : NodeState}
    (h : GR c me r b Q1 Q2 D s) (hq : s.queue = []) (h1 : ∀ u, u ∈ Q1 → D .prevote u)
    (h2 : ∀ u, u ∈ Q2 → D .precommit u) : False := by
  -- the prevotes of `me :: Q1` are recorded: polka
  have hpv : s.votes.has (r : Int) .prevote (some b) me := by
    rcases h.pvDone with x | x
    · rw [hq] at x; cases x
    · exact x
  have hm1 : maj23Of (s.votes.prevotes (r : Int)) = some (some b) := by
    unfold HVS.prevotes
    cases hg : s.votes.getVoteSet (r : Int) .prevote with
    | none => have := h.gv.tracked1; rw [hg] at this; cases this
    | some vs =>
      show vs.maj23 = _
      apply VoteSet.quorum_majority (h.gv.wf _ _ vs hg) (some b) (me :: Q1) g.q1.1 _ g.q1.2.2
      intro u hu
      have hhas : s.votes.has (r : Int) .prevote (some b) u := by
        rcases List.mem_cons.mp hu with e | e
        · rw [e]; exact hpv
        · exact h.deliv _ _ (h1 u e)
      have hlt : u < c.n := by
        rcases List.mem_cons.mp hu with e | e
        · rw [e]; exact g.meLt
        · exact g.q1.2.1 u e
      obtain ⟨vs', hg', hh⟩ := hhas
      rw [hg] at hg'; cases hg'
      exact ⟨hlt, hh, h.gv.clean1 u hu vs hg⟩
  have h6 := h.polka _ hm1
  have hpc : s.votes.has (r : Int) .precommit (some b) me := by
    rcases h.pcDone h6 with x | x
    · rw [hq] at x; cases x
    · exact x
  have hm2 : maj23Of (s.votes.precommits (r : Int)) = some (some b) := by
    unfold HVS.precommits
    cases hg : s.votes.getVoteSet (r : Int) .precommit with
    | none => have := h.gv.tracked2; rw [hg] at this; cases this
    | some vs =>
      show vs.maj23 = _
      apply VoteSet.quorum_majority (h.gv.wf _ _ vs hg) (some b) (me :: Q2) g.q2.1 _ g.q2.2.2
      intro u hu
      have hhas : s.votes.has (r : Int) .precommit (some b) u := by
        rcases List.mem_cons.mp hu with e | e
        · rw [e]; exact hpc
        · exact h.deliv _ _ (h2 u e)
      have hlt : u < c.n := by
        rcases List.mem_cons.mp hu with e | e
        · rw [e]; exact g.meLt
        · exact g.q2.2.1 u e
      obtain ⟨vs', hg', hh⟩ := hhas
      rw [hg] at hg'; cases hg'
      exact ⟨hlt, hh, h.gv.clean2 u hu vs hg⟩
  rcases h.fresh with x | x
  · rw [hm2] at x; cases x
  · exact x hpc

end Tmv.Cons.GRI
