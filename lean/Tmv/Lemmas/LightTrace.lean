import Tmv.Lemmas.LightInv
namespace Tmv.Light

theorem chain_append {R : LightBlock → LightBlock → Prop} :
    ∀ (l : List LightBlock) (a b : LightBlock), Chain R l → l.getLast? = some a → R a b →
      Chain R (l ++ [b]) := by
  intro l
  induction l with
  | nil => intro a b _ h; simp at h
  | cons x r ih =>
    intro a b hc hl hr
    cases r with
    | nil =>
      simp at hl
      subst hl
      exact ⟨hr, trivial⟩
    | cons y r' =>
      have hl' : (y :: r').getLast? = some a := by
        simpa [List.getLast?_cons_cons] using hl
      exact ⟨hc.1, ih a b hc.2 hl' hr⟩

theorem head?_append_of_getLast? {l : List LightBlock} {a b : LightBlock} (h : l.getLast? = some a) :
    (l ++ [b]).head? = l.head? := by
  cases l with
  | nil => simp at h
  | cons x r => simp

theorem skipLoop_trace (cfg : Config) (now : Int) (src : Prov) (new : LightBlock) :
    ∀ (fuel : Nat) (k : Calls) (verified : LightBlock) (tl : List LightBlock) (depth : Nat)
      (trace : List LightBlock) (k' : Calls) (r : Except Err (List LightBlock)),
      Chain (ValidStep cfg now) trace → trace.getLast? = some verified →
      skipLoop cfg now src fuel k verified (new :: tl) depth trace = (k', r) →
      ∀ tr, r = .ok tr →
        Chain (ValidStep cfg now) tr ∧ tr.getLast? = some new ∧ tr.head? = trace.head? := by
  intro fuel
  induction fuel with
  | zero =>
    intro k verified tl depth trace k' r _ _ e tr hr
    simp only [skipLoop] at e
    obtain ⟨_, rfl⟩ := Prod.mk.inj e
    cases hr
  | succ f ih =>
    intro k verified tl depth trace k' r hch hlast e tr hr
    simp only [skipLoop] at e
    split at e
    · obtain ⟨_, rfl⟩ := Prod.mk.inj e; cases hr
    · rename_i cur hcur
      split at e
      · rename_i hv
        have hstep : ValidStep cfg now verified cur := verify_sound (by rw [hv])
        have hch' := chain_append trace verified cur hch hlast hstep
        split at e
        · rename_i hd
          subst hd
          simp at hcur
          subst hcur
          obtain ⟨_, rfl⟩ := Prod.mk.inj e
          injection hr with hr
          subst hr
          exact ⟨hch', by simp, head?_append_of_getLast? hlast⟩
        · rename_i hd
          obtain ⟨d, rfl⟩ := Nat.exists_eq_succ_of_ne_zero hd
          simp only [List.take_succ_cons] at e
          have := ih _ _ _ _ _ _ _ hch' (by simp) e tr hr
          exact ⟨this.1, this.2.1, this.2.2.trans (head?_append_of_getLast? hlast)⟩
      · split at e
        · simp only [ask] at e
          split at e
          · simp only [List.cons_append] at e
            exact ih _ _ _ _ _ _ _ hch hlast e tr hr
          · split at e
            · obtain ⟨_, rfl⟩ := Prod.mk.inj e; cases hr
            · obtain ⟨_, rfl⟩ := Prod.mk.inj e; cases hr
        · exact ih _ _ _ _ _ _ _ hch hlast e tr hr
      · obtain ⟨_, rfl⟩ := Prod.mk.inj e; cases hr

theorem handle_attack {c : Client} {trace : List LightBlock} {b : LightBlock} {idx : Nat} {now : Int}
    {sup : Prov} {k1 : Calls} {wtrace : List LightBlock} {pb : LightBlock}
    (hw : c.witnesses[idx]? = some sup)
    (hex : examine c.cfg now trace b c.calls sup = (k1, some (wtrace, pb)))
    (hne : wtrace ≠ [])
    (hpne : ∀ k2 wb, examine c.cfg now wtrace pb k1 c.primary ≠ (k2, some ([], wb))) :
    ∃ c', handleConflictingHeaders c trace b idx now = (c', some .attack) ∧
      (∃ ev, (sup.id, ev) ∈ c'.evidence ∧ ev.conflicting = pb.hash) ∧
      (∀ k2 ptrace wb, examine c.cfg now wtrace pb k1 c.primary = (k2, some (ptrace, wb)) →
        ptrace ≠ [] → ∃ ev, (c.primary.id, ev) ∈ c'.evidence ∧ ev.conflicting = wb.hash) := by
  unfold handleConflictingHeaders
  rw [hw]
  simp only [hex]
  obtain ⟨common, hcommon⟩ : ∃ x, wtrace.head? = some x := by
    cases wtrace with
    | nil => exact absurd rfl hne
    | cons x r => exact ⟨x, rfl⟩
  obtain ⟨trusted, htrusted⟩ : ∃ x, wtrace.getLast? = some x := by
    cases h : wtrace.getLast? with
    | none => simp at h; exact absurd h hne
    | some x => exact ⟨x, rfl⟩
  simp only [hcommon, htrusted]
  generalize hq : examine c.cfg now wtrace pb k1 c.primary = q
  obtain ⟨k2, r2⟩ := q
  cases r2 with
  | none =>
    refine ⟨_, rfl, ⟨mkEvidence pb trusted common, by simp, rfl⟩, ?_⟩
    intro k2' ptrace wb h; cases h
  | some pr =>
    obtain ⟨ptrace, wb⟩ := pr
    cases hp : ptrace with
    | nil =>
      subst hp
      exact absurd hq (hpne k2 wb)
    | cons x r =>
      obtain ⟨t2, ht2⟩ : ∃ y, (x :: r).getLast? = some y := by
        cases h : (x :: r).getLast? with
        | none => simp at h
        | some y => exact ⟨y, rfl⟩
      simp only [List.head?_cons, ht2]
      refine ⟨_, rfl, ⟨mkEvidence pb trusted common, by simp, rfl⟩, ?_⟩
      intro k2' ptrace' wb' h _
      injection h with _ h2
      injection h2 with h2
      injection h2 with _ h4
      exact ⟨mkEvidence wb t2 x, by simp, by rw [← h4]; rfl⟩

end Tmv.Light
