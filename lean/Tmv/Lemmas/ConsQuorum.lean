import Tmv.Lemmas.ConsLock
/-! A recorded +2/3 majority is backed by a bucket whose power sum reached `total*2/3+1`. -/
namespace Tmv.Cons

/-- a vote set's recorded majority has a bucket with at least the quorum -/
def Qv (c : Cfg) (vs : VoteSet) : Prop := ∀ k, vs.maj23 = some k → c.quorum ≤ vs.blockSum k

theorem Qv.empty (c : Cfg) : Qv c VoteSet.empty := by intro k h; simp [VoteSet.empty] at h

theorem BlockVotes.add_sum_ge (bv : BlockVotes) (idx p : Nat) : bv.sum ≤ (bv.add idx p).sum := by
  unfold BlockVotes.add; split <;> simp

theorem blockSum_aset (vs : VoteSet) (l : List (Bid × BlockVotes)) (key k : Bid) (bv : BlockVotes) :
    ({ vs with byBlock := aset l key bv } : VoteSet).blockSum k =
      if k = key then bv.sum else ({ vs with byBlock := l } : VoteSet).blockSum k := by
  unfold VoteSet.blockSum
  simp only []
  rw [alookup_aset]
  by_cases hk : k = key <;> simp [hk]

theorem VoteSet.finish_Q (c : Cfg) (vs : VoteSet) (idx : Nat) (key : Bid) (bv : BlockVotes)
    (hbv : vs.blockSum key = bv.sum) (h : Qv c vs) : Qv c (VoteSet.finish c vs idx key bv).1 := by
  unfold VoteSet.finish
  simp only []
  have hge := bv.add_sum_ge idx (c.power idx)
  have old : ∀ k, vs.maj23 = some k →
      c.quorum ≤ ({ vs with byBlock := aset vs.byBlock key (bv.add idx (c.power idx)) } : VoteSet).blockSum k := by
    intro k hk
    rw [blockSum_aset]
    split
    · rename_i e; subst e; have := h k hk; omega
    · exact h k hk
  split
  · rename_i hq
    split
    · rename_i hn
      intro k hk
      simp only [] at hk
      cases hk
      show c.quorum ≤ VoteSet.blockSum _ key
      unfold VoteSet.blockSum
      simp only []
      rw [alookup_aset]
      simp
      exact hq.2
    · intro k hk; exact old k hk
  · intro k hk; exact old k hk

theorem VoteSet.addVerified_Q (c : Cfg) (vs : VoteSet) (idx : Nat) (key : Bid) (h : Qv c vs) :
    Qv c (vs.addVerified c idx key).1 := by
  unfold VoteSet.addVerified
  simp only []
  have e1 : (vs.recordVote c idx key).maj23 = vs.maj23 ∧ (vs.recordVote c idx key).byBlock = vs.byBlock := by
    unfold VoteSet.recordVote; repeat' split
    all_goals exact ⟨rfl, rfl⟩
  have h1 : Qv c (vs.recordVote c idx key) := by
    intro k hk
    rw [e1.1] at hk
    have := h k hk
    unfold VoteSet.blockSum at this ⊢
    rw [e1.2]; exact this
  split
  · rename_i bv hb
    split
    · exact h1
    · apply VoteSet.finish_Q c _ idx key bv _ h1
      unfold VoteSet.blockSum; rw [hb]
  · rename_i hb
    split
    · exact h1
    · apply VoteSet.finish_Q c _ idx key _ _ h1
      unfold VoteSet.blockSum; rw [hb]

theorem VoteSet.addVote_Q (c : Cfg) (vs : VoteSet) (v : Vote) (h : Qv c vs) : Qv c (vs.addVote c v).1 := by
  unfold VoteSet.addVote
  repeat' split
  all_goals first | exact h | exact VoteSet.addVerified_Q c vs _ _ h

theorem VoteSet.setPeerMaj23_Q (c : Cfg) (vs : VoteSet) (peer : Peer) (key : Bid) (h : Qv c vs) :
    Qv c (vs.setPeerMaj23 peer key) := by
  unfold VoteSet.setPeerMaj23
  simp only []
  split
  · exact h
  · split
    · rename_i bv hb
      split
      · intro k hk; exact h k hk
      · intro k hk
        have := h k hk
        show c.quorum ≤ VoteSet.blockSum _ k
        unfold VoteSet.blockSum at this ⊢
        simp only []
        rw [alookup_aset]
        by_cases e : k = key
        · subst e; rw [hb] at this; simpa using this
        · simpa [e] using this
    · rename_i hb
      intro k hk
      have := h k hk
      show c.quorum ≤ VoteSet.blockSum _ k
      unfold VoteSet.blockSum at this ⊢
      simp only []
      rw [alookup_append]
      cases hl : alookup vs.byBlock k with
      | some x => rw [hl] at this; simpa using this
      | none => rw [hl] at this; simp at this; unfold Cfg.quorum at this; omega

/-- every vote set of the height vote set satisfies `Qv` -/
def QH (c : Cfg) (h : HVS) : Prop := ∀ (r : Int) rvs, h.getRound r = some rvs → Qv c rvs.prevotes ∧ Qv c rvs.precommits

theorem QH.init (c : Cfg) : QH c HVS.init := by
  intro r rvs hv
  unfold HVS.getRound HVS.init alookup at hv
  simp only [List.find?] at hv
  split at hv
  · simp at hv; subst hv; exact ⟨Qv.empty c, Qv.empty c⟩
  · simp at hv

theorem QH.congr_sets {c : Cfg} {a b : HVS} (h : QH c a) (e : b.sets = a.sets) : QH c b := by
  intro r rvs hv
  apply h r rvs
  unfold HVS.getRound at hv ⊢
  rw [← e]; exact hv

theorem QH.getVoteSet {c : Cfg} {h : HVS} (hq : QH c h) {r : Int} {t : VType} {vs : VoteSet}
    (hg : h.getVoteSet r t = some vs) : Qv c vs := by
  unfold HVS.getVoteSet at hg
  cases hr : h.getRound r with
  | none => rw [hr] at hg; simp at hg
  | some rvs =>
    rw [hr] at hg
    have := hq r rvs hr
    cases t <;> simp at hg <;> subst hg
    · exact this.1
    · exact this.2

theorem HVS.addRound_Q (c : Cfg) (h : HVS) (r : Int) (hq : QH c h) : QH c (h.addRound r) := by
  intro r' rvs hv
  unfold HVS.getRound HVS.addRound at hv
  simp only [] at hv
  rw [alookup_append] at hv
  cases hl : alookup h.sets r' with
  | some y =>
    rw [hl] at hv
    simp at hv; subst hv
    exact hq r' y hl
  | none =>
    rw [hl] at hv
    by_cases e : r' = r
    · simp [e] at hv; subst hv; exact ⟨Qv.empty c, Qv.empty c⟩
    · simp [e] at hv

theorem HVS.putVoteSet_Q (c : Cfg) (h : HVS) (r : Int) (t : VType) (vs : VoteSet) (hvs : Qv c vs) (hq : QH c h) :
    QH c (h.putVoteSet r t vs) := by
  intro r' rvs' hv
  unfold HVS.putVoteSet at hv
  cases hg : h.getRound r with
  | none => rw [hg] at hv; exact hq r' rvs' hv
  | some rvs =>
    rw [hg] at hv
    unfold HVS.getRound at hv
    simp only [] at hv
    rw [alookup_aset] at hv
    have hold := hq r rvs hg
    by_cases hr : r' = r
    · subst hr
      simp only [if_true] at hv
      cases t with
      | prevote => simp at hv; subst hv; exact ⟨hvs, hold.2⟩
      | precommit => simp at hv; subst hv; exact ⟨hold.1, hvs⟩
    · simp only [hr, if_false] at hv
      exact hq r' rvs' hv

theorem HVS.addVote_Q (c : Cfg) (h : HVS) (v : Vote) (peer : Peer) (hq : QH c h) : QH c (h.addVote c v peer).1 := by
  unfold HVS.addVote
  simp only []
  split
  · rename_i vs hg
    exact HVS.putVoteSet_Q _ _ _ _ _ (VoteSet.addVote_Q c vs v (hq.getVoteSet hg)) hq
  · split
    · simp only []
      apply HVS.putVoteSet_Q _ _ _ _ _ (VoteSet.addVote_Q c _ v (Qv.empty c))
      exact (HVS.addRound_Q c h _ hq).congr_sets rfl
    · exact hq

theorem HVS.setPeerMaj23_Q (c : Cfg) (h : HVS) (r : Nat) (t : VType) (peer : Peer) (key : Bid) (hq : QH c h) :
    QH c (h.setPeerMaj23 r t peer key) := by
  unfold HVS.setPeerMaj23
  split
  · rename_i vs hg
    exact HVS.putVoteSet_Q _ _ _ _ _ (VoteSet.setPeerMaj23_Q c vs peer key (hq.getVoteSet hg)) hq
  · exact hq

theorem HVS.foldl_addRound_Q (c : Cfg) (rs : List Int) (h : HVS) (hq : QH c h) :
    QH c (rs.foldl (fun h r => if (h.getRound r).isSome then h else h.addRound r) h) := by
  induction rs generalizing h with
  | nil => exact hq
  | cons a rs ih =>
    simp only [List.foldl]
    apply ih
    split
    · exact hq
    · exact HVS.addRound_Q c h a hq

theorem HVS.setRound_Q (c : Cfg) (h h' : HVS) (round : Int) (hs : h.setRound round = some h') (hq : QH c h) :
    QH c h' := by
  unfold HVS.setRound at hs
  simp only [] at hs
  split at hs
  · cases hs
  · cases hs
    exact (HVS.foldl_addRound_Q c _ h hq).congr_sets rfl


/-! ### every function of the node model keeps `QH` of its vote sets -/

attribute [local irreducible] emit panicWith sign signAddVote decideProposal doPrevote enterPrevote enterPropose
  enterNewRound newRoundReset enterPrevoteWait unlock enterPrecommit enterPrecommitWait finalizeCommit tryFinalizeCommit
  enterCommit setProposal handleCompleteProposal addBlockPart addVote onPolka prevoteTransitions afterPrevote
  afterPrecommit handleInternal handleTimeout
  handleTxsAvailable handleInput drain step run HVS.addVote HVS.setRound HVS.setPeerMaj23 HVS.polRound
  isProposalComplete maj23Of hasAnyOf hashesTo hasHeader

variable {c : Cfg}

syntax "qinv_step" : tactic
macro_rules | `(tactic| qinv_step) => `(tactic| assumption)
macro "qinv" : tactic => `(tactic| repeat' (first | qinv_step | (dsimp only; qinv_step)))

theorem emit_Q {s : NodeState} (o : Output) (h : QH c s.votes) : QH c (emit s o).votes := by
  rw [emit_votes]; exact h
macro_rules | `(tactic| qinv_step) => `(tactic| apply emit_Q)
theorem panicWith_Q {s : NodeState} (w : String) (h : QH c s.votes) : QH c (panicWith s w).votes := by
  rw [panicWith_votes]; exact h
macro_rules | `(tactic| qinv_step) => `(tactic| apply panicWith_Q)
theorem signAddVote_Q {s : NodeState} (t : VType) (b : Bid) (h : QH c s.votes) : QH c (signAddVote c s t b).votes := by
  rw [signAddVote_votes]; exact h
macro_rules | `(tactic| qinv_step) => `(tactic| apply signAddVote_Q)
theorem decideProposal_Q {s : NodeState} (r me : Nat) (h : QH c s.votes) : QH c (decideProposal c s r me).votes := by
  rw [decideProposal_votes]; exact h
macro_rules | `(tactic| qinv_step) => `(tactic| apply decideProposal_Q)
theorem doPrevote_Q {s : NodeState} (h : QH c s.votes) : QH c (doPrevote c s).votes := by
  rw [doPrevote_votes]; exact h
macro_rules | `(tactic| qinv_step) => `(tactic| apply doPrevote_Q)
theorem unlock_Q {s : NodeState} (h : QH c s.votes) : QH c (unlock s).votes := by
  rw [unlock_votes]; exact h
macro_rules | `(tactic| qinv_step) => `(tactic| apply unlock_Q)

theorem enterPrevote_Q {s : NodeState} (r : Nat) (h : QH c s.votes) : QH c (enterPrevote c s r).votes := by
  unfold enterPrevote; (try simp only []); repeat' split
  all_goals qinv
macro_rules | `(tactic| qinv_step) => `(tactic| apply enterPrevote_Q)

theorem enterPropose_Q {s : NodeState} (r : Nat) (h : QH c s.votes) : QH c (enterPropose c s r).votes := by
  unfold enterPropose; (try simp only []); repeat' split
  all_goals qinv
macro_rules | `(tactic| qinv_step) => `(tactic| apply enterPropose_Q)

theorem enterNewRound_Q {s : NodeState} (r : Nat) (h : QH c s.votes) : QH c (enterNewRound c s r).votes := by
  unfold enterNewRound
  split
  · exact h
  · split
    · exact h
    · simp only []
      have hf := newRoundReset_fields s r
      have h' : QH c (newRoundReset s r).votes := by rw [hf.2.1]; exact h
      split
      · qinv
      · rename_i hv hsr
        have h2 : QH c hv := HVS.setRound_Q c _ _ _ hsr h'
        repeat' split
        all_goals qinv
macro_rules | `(tactic| qinv_step) => `(tactic| apply enterNewRound_Q)

theorem enterPrevoteWait_Q {s : NodeState} (r : Nat) (h : QH c s.votes) : QH c (enterPrevoteWait c s r).votes := by
  unfold enterPrevoteWait; (try simp only []); repeat' split
  all_goals qinv
macro_rules | `(tactic| qinv_step) => `(tactic| apply enterPrevoteWait_Q)

theorem enterPrecommit_Q {s : NodeState} (r : Nat) (h : QH c s.votes) : QH c (enterPrecommit c s r).votes := by
  unfold enterPrecommit; (try simp only []); repeat' split
  all_goals qinv
macro_rules | `(tactic| qinv_step) => `(tactic| apply enterPrecommit_Q)

theorem enterPrecommitWait_Q {s : NodeState} (r : Nat) (h : QH c s.votes) : QH c (enterPrecommitWait c s r).votes := by
  unfold enterPrecommitWait; (try simp only []); repeat' split
  all_goals qinv
macro_rules | `(tactic| qinv_step) => `(tactic| apply enterPrecommitWait_Q)

theorem finalizeCommit_Q {s : NodeState} (h : QH c s.votes) : QH c (finalizeCommit c s).votes := by
  unfold finalizeCommit; (try simp only []); repeat' split
  all_goals qinv
macro_rules | `(tactic| qinv_step) => `(tactic| apply finalizeCommit_Q)

theorem tryFinalizeCommit_Q {s : NodeState} (h : QH c s.votes) : QH c (tryFinalizeCommit c s).votes := by
  unfold tryFinalizeCommit; (try simp only []); repeat' split
  all_goals qinv
macro_rules | `(tactic| qinv_step) => `(tactic| apply tryFinalizeCommit_Q)

theorem enterCommit_Q {s : NodeState} (r : Nat) (h : QH c s.votes) : QH c (enterCommit c s r).votes := by
  unfold enterCommit; (try simp only []); repeat' split
  all_goals qinv
macro_rules | `(tactic| qinv_step) => `(tactic| apply enterCommit_Q)

theorem setProposal_Q {s : NodeState} (p : Proposal) (h : QH c s.votes) : QH c (setProposal c s p).votes := by
  unfold setProposal; (try simp only []); repeat' split
  all_goals qinv
macro_rules | `(tactic| qinv_step) => `(tactic| apply setProposal_Q)

theorem handleCompleteProposal_Q {s : NodeState} (h : QH c s.votes) : QH c (handleCompleteProposal c s).votes := by
  unfold handleCompleteProposal; (try simp only []); repeat' split
  all_goals qinv
macro_rules | `(tactic| qinv_step) => `(tactic| apply handleCompleteProposal_Q)

theorem addBlockPart_Q {s : NodeState} (b : Nat) (h : QH c s.votes) : QH c (addBlockPart c s b).votes := by
  unfold addBlockPart; (try simp only []); repeat' split
  all_goals qinv
macro_rules | `(tactic| qinv_step) => `(tactic| apply addBlockPart_Q)

theorem onPolka_Q {s : NodeState} (vr : Nat) (bid : Bid) (h : QH c s.votes) : QH c (onPolka s vr bid).votes := by
  unfold onPolka; (try simp only []); repeat' split
  all_goals qinv
macro_rules | `(tactic| qinv_step) => `(tactic| apply onPolka_Q)

theorem prevoteTransitions_Q {s : NodeState} (vr : Nat) (h : QH c s.votes) : QH c (prevoteTransitions c s vr).votes := by
  unfold prevoteTransitions; (try simp only []); repeat' split
  all_goals qinv
macro_rules | `(tactic| qinv_step) => `(tactic| apply prevoteTransitions_Q)

theorem afterPrevote_Q {s : NodeState} (vr : Nat) (h : QH c s.votes) : QH c (afterPrevote c s vr).votes := by
  unfold afterPrevote; (try simp only []); repeat' split
  all_goals qinv
macro_rules | `(tactic| qinv_step) => `(tactic| apply afterPrevote_Q)

theorem afterPrecommit_Q {s : NodeState} (vr : Nat) (h : QH c s.votes) : QH c (afterPrecommit c s vr).votes := by
  unfold afterPrecommit; (try simp only []); repeat' split
  all_goals qinv
macro_rules | `(tactic| qinv_step) => `(tactic| apply afterPrecommit_Q)

theorem addVote_Q {s : NodeState} (v : Vote) (peer : Peer) (h : QH c s.votes) : QH c (addVote c s v peer).votes := by
  have h' : QH c (s.votes.addVote c v peer).1 := HVS.addVote_Q c _ v peer h
  unfold addVote; simp only []; repeat' split
  all_goals qinv
macro_rules | `(tactic| qinv_step) => `(tactic| apply addVote_Q)

theorem handleInternal_Q {s : NodeState} (m : Internal) (h : QH c s.votes) : QH c (handleInternal c s m).votes := by
  unfold handleInternal; (try simp only []); repeat' split
  all_goals qinv
macro_rules | `(tactic| qinv_step) => `(tactic| apply handleInternal_Q)

theorem handleTimeout_Q {s : NodeState} (r : Nat) (st : Step) (h : QH c s.votes) : QH c (handleTimeout c s r st).votes := by
  unfold handleTimeout; (try simp only []); repeat' split
  all_goals qinv
macro_rules | `(tactic| qinv_step) => `(tactic| apply handleTimeout_Q)

theorem handleTxsAvailable_Q {s : NodeState} (h : QH c s.votes) : QH c (handleTxsAvailable c s).votes := by
  unfold handleTxsAvailable; (try simp only []); repeat' split
  all_goals qinv
macro_rules | `(tactic| qinv_step) => `(tactic| apply handleTxsAvailable_Q)

theorem handleInput_Q {s : NodeState} (i : Input) (h : QH c s.votes) : QH c (handleInput c s i).votes := by
  unfold handleInput
  cases i with
  | timeout r st => exact handleTimeout_Q r st h
  | peerMaj23 r t peer bid => exact HVS.setPeerMaj23_Q c _ _ _ _ _ h
  | proposal p => exact setProposal_Q p h
  | blockComplete b => exact addBlockPart_Q b h
  | vote v peer => exact addVote_Q v peer h
  | txsAvailable => exact handleTxsAvailable_Q h

theorem drain_Q (fuel : Nat) {s : NodeState} (h : QH c s.votes) : QH c (drain c fuel s).votes := by
  induction fuel generalizing s with
  | zero => unfold drain; exact h
  | succ n ih =>
    unfold drain; repeat' split
    all_goals first | exact h | skip
    rename_i m rest hq
    have h' : QH c ({ s with queue := rest } : NodeState).votes := h
    exact ih (handleInternal_Q m h')

theorem step_Q {s : NodeState} (i : Input) (h : QH c s.votes) : QH c (step c s i).votes := by
  unfold step; split
  · exact h
  · exact drain_Q _ (handleInput_Q i h)

theorem run_Q (is : List Input) {s : NodeState} (h : QH c s.votes) : QH c (run c s is).votes := by
  induction is generalizing s with
  | nil => unfold run; exact h
  | cons i is ih =>
    have := ih (step_Q i h)
    unfold run at this ⊢
    simpa [List.foldl] using this

/-- `total*2/3 + 1 ≤ x` is "more than two thirds of the total" -/
theorem quorum_iff (c : Cfg) (x : Nat) : c.quorum ≤ x ↔ 2 * c.total < 3 * x := by
  unfold Cfg.quorum; omega

end Tmv.Cons
