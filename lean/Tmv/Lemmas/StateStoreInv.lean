import Tmv.Lemmas.StateStoreRange
/-! The invariant of the state store's record bookkeeping over whole histories: established by the
genesis `Save`, maintained by every `Save` of a state computed by `updateState` (at every write
prefix), by `SaveABCIResponses`, and by every write prefix of `PruneStates`. -/
namespace Tmv.StateStore

theorem get_apply_of_ne (db : DB) (w : Write) (a : Key) (h : w.key ≠ a) :
    get (apply db w) a = get db a := by
  cases w with
  | set k v => simp only [Write.key] at h; rw [get_set, if_neg h]
  | del k => simp only [Write.key] at h; rw [get_del, if_neg h]

theorem loadState_apply_of_ne (db : DB) (w : Write) (h : w.key ≠ .state) :
    loadState (apply db w) = loadState db := by
  simp only [loadState, get_apply_of_ne _ _ _ h]

theorem loadState_applyAll_of_not_mem (ws : List Write) (db : DB)
    (h : ∀ w ∈ ws, w.key ≠ .state) : loadState (applyAll db ws) = loadState db := by
  induction ws generalizing db with
  | nil => rfl
  | cons w ws ih =>
    rw [applyAll_cons, ih _ (fun w' hw' => h w' (List.mem_cons_of_mem _ hw')),
      loadState_apply_of_ne _ _ (h w List.mem_cons_self)]

/-- the records of heights `lo … saveNext+1` (validators) and `lo … saveNext` (params) are present,
point downwards, carry a full value only at change / checkpoint heights, agree with each other
(LastHeightChanged is monotone), can be loaded, and the newest ones carry the change heights of the
persisted `State`. -/
structure SInv (db : DB) (st : St) (lo : Int) : Prop where
  state : loadState db = some st
  lNonneg : 0 ≤ st.lastBlockHeight
  ihPos : 1 ≤ st.initialHeight
  /-- the state is at genesis or at/above the initial height -/
  lRange : st.lastBlockHeight = 0 ∨ st.initialHeight ≤ st.lastBlockHeight
  vRec : ∀ h, lo ≤ h → h ≤ saveNext st + 1 → ∃ c f, loadInfo db (.vals h) = some (c, f) ∧ c ≤ h ∧
    (f = true → c = h ∨ h % interval = 0)
  vLoad : ∀ h, lo ≤ h → h ≤ saveNext st + 1 → valsLoadable db h = true
  vAgree : ∀ h1 h2 c1 f1 c2 f2, lo ≤ h1 → h1 ≤ h2 → h2 ≤ saveNext st + 1 →
    loadInfo db (.vals h1) = some (c1, f1) → loadInfo db (.vals h2) = some (c2, f2) → c2 ≤ h1 → c1 = c2
  vTop : ∃ f, loadInfo db (.vals (saveNext st + 1)) = some (st.lhcVals, f) ∧ st.lhcVals ≤ saveNext st + 1
  pRec : ∀ h, lo ≤ h → h ≤ saveNext st → ∃ c f, loadInfo db (.params h) = some (c, f) ∧ c ≤ h ∧
    (f = true → c = h)
  pLoad : ∀ h, lo ≤ h → h ≤ saveNext st → paramsLoadable db h = true
  pAgree : ∀ h1 h2 c1 f1 c2 f2, lo ≤ h1 → h1 ≤ h2 → h2 ≤ saveNext st →
    loadInfo db (.params h1) = some (c1, f1) → loadInfo db (.params h2) = some (c2, f2) → c2 ≤ h1 → c1 = c2
  pTop : ∃ f, loadInfo db (.params (saveNext st)) = some (st.lhcParams, f) ∧ st.lhcParams ≤ saveNext st

theorem saveNext_pos (st : St) (h1 : 0 ≤ st.lastBlockHeight) (h2 : 1 ≤ st.initialHeight) :
    1 ≤ saveNext st := by
  unfold saveNext; split <;> omega

theorem SInv.mono {db : DB} {st : St} {lo lo' : Int} (h : SInv db st lo) (hle : lo ≤ lo') :
    SInv db st lo' :=
  { state := h.state, lNonneg := h.lNonneg, ihPos := h.ihPos, lRange := h.lRange
    vRec := fun a h1 h2 => h.vRec a (by omega) h2
    vLoad := fun a h1 h2 => h.vLoad a (by omega) h2
    vAgree := fun a b c1 f1 c2 f2 h1 h2 h3 => h.vAgree a b c1 f1 c2 f2 (by omega) h2 h3
    vTop := h.vTop
    pRec := fun a h1 h2 => h.pRec a (by omega) h2
    pLoad := fun a h1 h2 => h.pLoad a (by omega) h2
    pAgree := fun a b c1 f1 c2 f2 h1 h2 h3 => h.pAgree a b c1 f1 c2 f2 (by omega) h2 h3
    pTop := h.pTop }

theorem valsLoadable_congr (db db' : DB) (h : Int)
    (h1 : loadInfo db' (.vals h) = loadInfo db (.vals h))
    (h2 : ∀ c, loadInfo db (.vals h) = some (c, false) →
      loadInfo db' (.vals (lastStoredHeightFor h c)) = loadInfo db (.vals (lastStoredHeightFor h c))) :
    valsLoadable db' h = valsLoadable db h := by
  unfold valsLoadable
  rw [h1]
  cases e : loadInfo db (.vals h) with
  | none => rfl
  | some p =>
    obtain ⟨c, f⟩ := p
    cases f with
    | true => rfl
    | false => simp only; rw [h2 c e]

theorem paramsLoadable_congr (db db' : DB) (h : Int)
    (h1 : loadInfo db' (.params h) = loadInfo db (.params h))
    (h2 : ∀ c, loadInfo db (.params h) = some (c, false) →
      loadInfo db' (.params c) = loadInfo db (.params c)) :
    paramsLoadable db' h = paramsLoadable db h := by
  unfold paramsLoadable
  rw [h1]
  cases e : loadInfo db (.params h) with
  | none => rfl
  | some p =>
    obtain ⟨c, f⟩ := p
    cases f with
    | true => rfl
    | false => simp only; rw [h2 c e]

/-- writes above the newest records (and to unrelated keys) do not disturb the invariant -/
theorem SInv.congr_upto {db db' : DB} {st : St} {lo : Int} (h : SInv db st lo)
    (hv : ∀ a, a ≤ saveNext st + 1 → loadInfo db' (.vals a) = loadInfo db (.vals a))
    (hp : ∀ a, a ≤ saveNext st → loadInfo db' (.params a) = loadInfo db (.params a))
    (hs : loadState db' = loadState db) : SInv db' st lo := by
  refine { state := hs.trans h.state, lNonneg := h.lNonneg, ihPos := h.ihPos, lRange := h.lRange, vRec := ?_, vLoad := ?_,
           vAgree := ?_, vTop := ?_, pRec := ?_, pLoad := ?_, pAgree := ?_, pTop := ?_ }
  · intro a h1 h2; rw [hv a h2]; exact h.vRec a h1 h2
  · intro a h1 h2
    rw [valsLoadable_congr db db' a (hv a h2), h.vLoad a h1 h2]
    intro c hc
    obtain ⟨c', f', e, hle, _⟩ := h.vRec a h1 h2
    rw [hc] at e; injection e with e; injection e with e1 e2; subst e1
    exact hv _ (by have := lastStored_le a c hle; omega)
  · intro a b c1 f1 c2 f2 h1 h2 h3 e1 e2
    rw [hv a (by omega)] at e1; rw [hv b h3] at e2
    exact h.vAgree a b c1 f1 c2 f2 h1 h2 h3 e1 e2
  · rw [hv _ (Int.le_refl _)]; exact h.vTop
  · intro a h1 h2; rw [hp a h2]; exact h.pRec a h1 h2
  · intro a h1 h2
    rw [paramsLoadable_congr db db' a (hp a h2), h.pLoad a h1 h2]
    intro c hc
    obtain ⟨c', f', e, hle, _⟩ := h.pRec a h1 h2
    rw [hc] at e; injection e with e; injection e with e1 e2; subst e1
    exact hp _ (by omega)
  · intro a b c1 f1 c2 f2 h1 h2 h3 e1 e2
    rw [hp a (by omega)] at e1; rw [hp b h3] at e2
    exact h.pAgree a b c1 f1 c2 f2 h1 h2 h3 e1 e2
  · rw [hp _ (Int.le_refl _)]; exact h.pTop

theorem lastStored_next_same (n c : Int) (hm : ¬ (n + 1 + 1) % interval = 0) :
    lastStoredHeightFor (n + 1 + 1) c = lastStoredHeightFor (n + 1) c := by
  simp only [lastStoredHeightFor, interval, Facts.c18_valSetCheckpointInterval] at *
  omega

theorem lastStored_next_full (n c : Int) (hm : ¬ (n + 1 + 1) % interval = 0)
    (hc : c = n + 1 ∨ (n + 1) % interval = 0) (hle : c ≤ n + 1) :
    lastStoredHeightFor (n + 1 + 1) c = n + 1 := by
  simp only [lastStoredHeightFor, interval, Facts.c18_valSetCheckpointInterval] at *
  omega

/-- **one `Save` step**: the database gets the validator record of `next+2`, the params record of
`next+1` and the new state, with change heights either inherited or set to the new height -/
theorem SInv.extend {db db' : DB} {st st' : St} {lo : Int} (h : SInv db st lo)
    (hlo2 : lo ≤ saveNext st) (fV fP : Bool)
    (hL : st'.lastBlockHeight = saveNext st) (hih : st'.initialHeight = st.initialHeight)
    (hcV : st'.lhcVals = st.lhcVals ∨ st'.lhcVals = saveNext st + 1 + 1)
    (hfV : fV = true ↔ (saveNext st + 1 + 1 = st'.lhcVals ∨ (saveNext st + 1 + 1) % interval = 0))
    (hcP : st'.lhcParams = st.lhcParams ∨ st'.lhcParams = saveNext st + 1)
    (hfP : fP = true ↔ st'.lhcParams = saveNext st + 1)
    (hV : ∀ a, loadInfo db' (.vals a) =
      if saveNext st + 1 + 1 = a then some (st'.lhcVals, fV) else loadInfo db (.vals a))
    (hP : ∀ a, loadInfo db' (.params a) =
      if saveNext st + 1 = a then some (st'.lhcParams, fP) else loadInfo db (.params a))
    (hS : loadState db' = some st') : SInv db' st' lo := by
  have hn := saveNext_pos st h.lNonneg h.ihPos
  have hlo : lo ≤ saveNext st + 1 := by omega
  have hn' : saveNext st' = saveNext st + 1 := by
    unfold saveNext at *
    rw [hL]; split <;> omega
  have hVold : ∀ a, a ≤ saveNext st + 1 → loadInfo db' (.vals a) = loadInfo db (.vals a) := by
    intro a ha; rw [hV, if_neg (by omega)]
  have hPold : ∀ a, a ≤ saveNext st → loadInfo db' (.params a) = loadInfo db (.params a) := by
    intro a ha; rw [hP, if_neg (by omega)]
  have hVnew : loadInfo db' (.vals (saveNext st + 1 + 1)) = some (st'.lhcVals, fV) := by
    rw [hV, if_pos rfl]
  have hPnew : loadInfo db' (.params (saveNext st + 1)) = some (st'.lhcParams, fP) := by
    rw [hP, if_pos rfl]
  obtain ⟨ft, htop, hcle⟩ := h.vTop
  obtain ⟨fpt, hptop, hpcle⟩ := h.pTop
  refine { state := hS, lNonneg := by omega, ihPos := by rw [hih]; exact h.ihPos,
           lRange := by rw [hL, hih]; right; have := h.lRange; unfold saveNext; split <;> omega,
           vRec := ?_, vLoad := ?_,
           vAgree := ?_, vTop := ?_, pRec := ?_, pLoad := ?_, pAgree := ?_, pTop := ?_ }
  · intro a h1 h2
    rw [hn'] at h2
    by_cases ha : a ≤ saveNext st + 1
    · rw [hVold a ha]; exact h.vRec a h1 ha
    · have : a = saveNext st + 1 + 1 := by omega
      subst this
      refine ⟨st'.lhcVals, fV, hVnew, by rcases hcV with e | e <;> omega, ?_⟩
      intro hf
      rcases hfV.1 hf with e | e
      · exact Or.inl e.symm
      · exact Or.inr e
  · intro a h1 h2
    rw [hn'] at h2
    by_cases ha : a ≤ saveNext st + 1
    · rw [valsLoadable_congr db db' a (hVold a ha), h.vLoad a h1 ha]
      intro c hc
      obtain ⟨c', f', e, hle, _⟩ := h.vRec a h1 ha
      rw [hc] at e; injection e with e; injection e with e1 e2; subst e1
      exact hVold _ (by have := lastStored_le a c hle; omega)
    · have : a = saveNext st + 1 + 1 := by omega
      subst this
      unfold valsLoadable
      rw [hVnew]
      cases hfv : fV with
      | true => rfl
      | false =>
        simp only
        have hnf : ¬ (saveNext st + 1 + 1 = st'.lhcVals ∨ (saveNext st + 1 + 1) % interval = 0) := by
          intro e; have := hfV.2 e; rw [hfv] at this; cases this
        have hcv : st'.lhcVals = st.lhcVals := by
          rcases hcV with e | e
          · exact e
          · exact absurd (Or.inl e.symm) hnf
        have hmod : ¬ (saveNext st + 1 + 1) % interval = 0 := fun e => hnf (Or.inr e)
        rw [hcv]
        -- the record the new one points to is the one height next+1 already relied on
        have hl := h.vLoad (saveNext st + 1) hlo (Int.le_refl _)
        unfold valsLoadable at hl
        rw [htop] at hl
        cases ft with
        | false =>
          simp only at hl
          rw [lastStored_next_same _ _ hmod, hVold _ (by have := lastStored_le (saveNext st + 1) st.lhcVals hcle; omega)]
          exact hl
        | true =>
          obtain ⟨c', f', e, _, hfull⟩ := h.vRec (saveNext st + 1) hlo (Int.le_refl _)
          rw [htop] at e; injection e with e; injection e with e1 e2; subst e1; subst e2
          rw [lastStored_next_full _ _ hmod (hfull rfl) hcle, hVold _ (Int.le_refl _), htop]
  · intro a b c1 f1 c2 f2 h1 h2 h3 e1 e2 hle
    rw [hn'] at h3
    by_cases hb : b ≤ saveNext st + 1
    · rw [hVold a (by omega)] at e1; rw [hVold b hb] at e2
      exact h.vAgree a b c1 f1 c2 f2 h1 h2 hb e1 e2 hle
    · have hb' : b = saveNext st + 1 + 1 := by omega
      subst hb'
      rw [hVnew] at e2; injection e2 with e2; injection e2 with e21 e22
      by_cases ha : a ≤ saveNext st + 1
      · rw [hVold a ha] at e1
        rcases hcV with e | e
        · rw [← e21, e]
          exact h.vAgree a (saveNext st + 1) c1 f1 st.lhcVals ft h1 ha (Int.le_refl _) e1 htop (by omega)
        · omega
      · have : a = saveNext st + 1 + 1 := by omega
        subst this
        rw [hVnew] at e1; injection e1 with e1; injection e1 with e11 e12
        omega
  · rw [hn']; exact ⟨fV, hVnew, by rcases hcV with e | e <;> omega⟩
  · intro a h1 h2
    rw [hn'] at h2
    by_cases ha : a ≤ saveNext st
    · rw [hPold a ha]; exact h.pRec a h1 ha
    · have : a = saveNext st + 1 := by omega
      subst this
      exact ⟨st'.lhcParams, fP, hPnew, by rcases hcP with e | e <;> omega, fun hf => hfP.1 hf⟩
  · intro a h1 h2
    rw [hn'] at h2
    by_cases ha : a ≤ saveNext st
    · rw [paramsLoadable_congr db db' a (hPold a ha), h.pLoad a h1 ha]
      intro c hc
      obtain ⟨c', f', e, hle, _⟩ := h.pRec a h1 ha
      rw [hc] at e; injection e with e; injection e with e1 e2; subst e1
      exact hPold _ (by omega)
    · have : a = saveNext st + 1 := by omega
      subst this
      unfold paramsLoadable
      rw [hPnew]
      cases hfp : fP with
      | true => rfl
      | false =>
        simp only
        have hcp : st'.lhcParams = st.lhcParams := by
          rcases hcP with e | e
          · exact e
          · have := hfP.2 e; rw [hfp] at this; cases this
        rw [hcp, hPold _ hpcle]
        -- height `next` already pointed to (or was) that record
        by_cases hlo' : lo ≤ saveNext st
        · have hl := h.pLoad (saveNext st) hlo' (Int.le_refl _)
          unfold paramsLoadable at hl
          rw [hptop] at hl
          cases fpt with
          | false => simpa using hl
          | true =>
            obtain ⟨c', f', e, _, hfull⟩ := h.pRec (saveNext st) hlo' (Int.le_refl _)
            rw [hptop] at e; injection e with e; injection e with e1 e2; subst e1; subst e2
            rw [hfull rfl] at hptop ⊢
            rw [hptop]
        · -- only possible when the range is empty below; excluded by `hlo2`
          exact absurd hlo2 hlo'
  · intro a b c1 f1 c2 f2 h1 h2 h3 e1 e2 hle
    rw [hn'] at h3
    by_cases hb : b ≤ saveNext st
    · rw [hPold a (by omega)] at e1; rw [hPold b hb] at e2
      exact h.pAgree a b c1 f1 c2 f2 h1 h2 hb e1 e2 hle
    · have hb' : b = saveNext st + 1 := by omega
      subst hb'
      rw [hPnew] at e2; injection e2 with e2; injection e2 with e21 e22
      by_cases ha : a ≤ saveNext st
      · rw [hPold a ha] at e1
        rcases hcP with e | e
        · rw [← e21, e]
          exact h.pAgree a (saveNext st) c1 f1 st.lhcParams fpt h1 ha (Int.le_refl _) e1 hptop (by omega)
        · omega
      · have : a = saveNext st + 1 := by omega
        subst this
        rw [hPnew] at e1; injection e1 with e1; injection e1 with e11 e12
        omega
  · rw [hn']; exact ⟨fP, hPnew, by rcases hcP with e | e <;> omega⟩

theorem save_eq (s : St) (h1 : ¬ s.lastBlockHeight + 1 = 1)
    (h2 : ¬ s.lhcVals > s.lastBlockHeight + 1 + 1) :
    save s = ([[.set (.vals (s.lastBlockHeight + 1 + 1)) (.info s.lhcVals
        (decide (s.lastBlockHeight + 1 + 1 = s.lhcVals ∨ (s.lastBlockHeight + 1 + 1) % interval = 0)))],
      [.set (.params (s.lastBlockHeight + 1)) (.info s.lhcParams (decide (s.lhcParams = s.lastBlockHeight + 1)))],
      [.set .state (.state s)]], true) := by
  simp [save, saveValsInfo, saveParamsInfo, h1, h2]

theorem loadState_set_state (db : DB) (s : St) : loadState (apply db (.set .state (.state s))) = some s := by
  simp [loadState, get_set]

/-- **`Save` of the state `updateState` computes maintains the invariant at every write prefix**:
before the state record is written the old state's invariant holds, afterwards the new state's. -/
theorem SInv.save_step {db : DB} {st : St} {lo : Int} (h : SInv db st lo) (hlo : lo ≤ saveNext st)
    (hash : Nat) (vu pu : Bool) (j : Nat) :
    (save (updateState st (saveNext st) hash vu pu)).2 = true ∧
    (SInv (applyAll db ((save (updateState st (saveNext st) hash vu pu)).1.flatten.take j)) st lo ∨
     SInv (applyAll db ((save (updateState st (saveNext st) hash vu pu)).1.flatten.take j))
       (updateState st (saveNext st) hash vu pu) lo) ∧
    SInv (applyAll db (save (updateState st (saveNext st) hash vu pu)).1.flatten)
       (updateState st (saveNext st) hash vu pu) lo := by
  have hn := saveNext_pos st h.lNonneg h.ihPos
  obtain ⟨ft, htop, hcle⟩ := h.vTop
  have hL : (updateState st (saveNext st) hash vu pu).lastBlockHeight = saveNext st := rfl
  have g1 : ¬ (updateState st (saveNext st) hash vu pu).lastBlockHeight + 1 = 1 := by rw [hL]; omega
  have hcV : (updateState st (saveNext st) hash vu pu).lhcVals = st.lhcVals ∨
      (updateState st (saveNext st) hash vu pu).lhcVals = saveNext st + 1 + 1 := by
    simp only [updateState]; cases vu <;> simp
  have hcP : (updateState st (saveNext st) hash vu pu).lhcParams = st.lhcParams ∨
      (updateState st (saveNext st) hash vu pu).lhcParams = saveNext st + 1 := by
    simp only [updateState]; cases pu <;> simp
  have g2 : ¬ (updateState st (saveNext st) hash vu pu).lhcVals >
      (updateState st (saveNext st) hash vu pu).lastBlockHeight + 1 + 1 := by
    rw [hL]; rcases hcV with e | e <;> omega
  rw [save_eq _ g1 g2, hL]
  generalize hst' : updateState st (saveNext st) hash vu pu = st' at *
  -- the three databases
  have hfinal : SInv (applyAll db [.set (.vals (saveNext st + 1 + 1)) (.info st'.lhcVals
        (decide (saveNext st + 1 + 1 = st'.lhcVals ∨ (saveNext st + 1 + 1) % interval = 0))),
      .set (.params (saveNext st + 1)) (.info st'.lhcParams (decide (st'.lhcParams = saveNext st + 1))),
      .set .state (.state st')]) st' lo := by
    apply h.extend hlo
      (decide (saveNext st + 1 + 1 = st'.lhcVals ∨ (saveNext st + 1 + 1) % interval = 0))
      (decide (st'.lhcParams = saveNext st + 1)) hL (by rw [← hst']; rfl) hcV
      decide_eq_true_iff hcP decide_eq_true_iff
    · intro a
      simp only [applyAll_cons, applyAll_nil, loadInfo_set]
      by_cases e : saveNext st + 1 + 1 = a
      · subst e; simp
      · simp [e]
    · intro a
      simp only [applyAll_cons, applyAll_nil, loadInfo_set]
      by_cases e : saveNext st + 1 = a
      · subst e; simp
      · simp [e]
    · simp only [applyAll_cons, applyAll_nil, loadState_set_state]
  refine ⟨rfl, ?_, by simpa using hfinal⟩
  simp only [List.flatten_cons, List.flatten_nil, List.cons_append, List.nil_append]
  match j with
  | 0 => exact Or.inl (by simpa [applyAll_nil] using h)
  | 1 =>
    left
    simp only [List.take_succ_cons, List.take_zero, applyAll_cons, applyAll_nil]
    apply h.congr_upto
    · intro a ha; rw [loadInfo_set, if_neg (by intro e; injection e; omega)]
    · intro a ha; rw [loadInfo_set, if_neg (by intro e; cases e)]
    · exact loadState_apply_of_ne _ _ (by simp [Write.key])
  | 2 =>
    left
    simp only [List.take_succ_cons, List.take_zero, applyAll_cons, applyAll_nil]
    apply h.congr_upto
    · intro a ha
      rw [loadInfo_set, if_neg (by intro e; cases e), loadInfo_set, if_neg (by intro e; injection e; omega)]
    · intro a ha
      rw [loadInfo_set, if_neg (by intro e; injection e; omega), loadInfo_set, if_neg (by intro e; cases e)]
    · rw [loadState_apply_of_ne _ _ (by simp [Write.key]), loadState_apply_of_ne _ _ (by simp [Write.key])]
  | j + 3 =>
    right
    simpa using hfinal

/-- `PruneStates(from, to)` either wrote nothing or every prefix of what it wrote is related to the
original database by `Rel` for the keep-sets computed from the records of `to` -/
theorem pruneStates_prefix_rel (db : DB) (frm to : Int) (j : Nat) :
    applyAll db ((pruneStates db frm to).1.flatten.take j) = db ∨
    ∃ vc vfull pc pfull, loadInfo db (.vals to) = some (vc, vfull) ∧
      loadInfo db (.params to) = some (pc, pfull) ∧
      Rel db (applyAll db ((pruneStates db frm to).1.flatten.take j))
        (fun h => !vfull && (h == vc || h == lastStoredHeightFor to vc)) (fun h => !pfull && h == pc) to := by
  unfold pruneStates
  split
  · left; simp [applyAll_nil]
  · split
    · left; simp [applyAll_nil]
    · split
      · left; simp [applyAll_nil]
      · rename_i vc vfull hv
        split
        · left; simp [applyAll_nil]
        · rename_i pc pfull hp
          right
          refine ⟨vc, vfull, pc, pfull, hv, hp, ?_⟩
          have hshape := pruneLoop_shape db
            (fun h => !vfull && (h == vc || h == lastStoredHeightFor to vc))
            (fun h => !pfull && h == pc) to (to - frm).toNat (to - 1) db [] 0 (by omega)
            (rel_refl _ _ _ _) (fun w hw => by cases hw)
          exact rel_applyAll db _ _ to _ db (rel_refl _ _ _ _)
            (fun w hw => hshape w (List.mem_of_mem_take hw))

/-- **every write prefix of `PruneStates(from, to)` maintains the invariant from `to` upwards** -/
theorem SInv.prune_prefix {db : DB} {st : St} {lo : Int} (h : SInv db st lo) (frm to : Int)
    (hlo : lo ≤ to) (hto : to ≤ saveNext st) (j : Nat) :
    SInv (applyAll db ((pruneStates db frm to).1.flatten.take j)) st to := by
  rcases pruneStates_prefix_rel db frm to j with e | ⟨vc, vfull, pc, pfull, hv, hp, hr⟩
  · rw [e]; exact h.mono hlo
  · generalize applyAll db ((pruneStates db frm to).1.flatten.take j) = db' at hr
    have hst : loadState db' = loadState db := by simp only [loadState, hr.stateKey]
    refine { state := hst.trans h.state, lNonneg := h.lNonneg, ihPos := h.ihPos, lRange := h.lRange, vRec := ?_, vLoad := ?_,
             vAgree := ?_, vTop := ?_, pRec := ?_, pLoad := ?_, pAgree := ?_, pTop := ?_ }
    · intro a h1 h2; rw [hr.vals a h1]; exact h.vRec a (by omega) h2
    · intro a h1 h2
      apply serve_vals_at db db' to vc vfull _ hv hr a h1
      · intro c hc hlt
        obtain ⟨ct, ft, et, _, _⟩ := h.vRec to hlo (by omega)
        have := h.vAgree to a ct ft c false hlo h1 h2 et hc (by omega)
        subst this
        exact ⟨ft, et⟩
      · intro c hc
        obtain ⟨ct, ft, et, _, hfull⟩ := h.vRec to hlo (by omega)
        rw [hc] at et; injection et with et; injection et with e1 e2; subst e1; subst e2
        exact hfull rfl
      · exact h.vLoad a (by omega) h2
    · intro a b c1 f1 c2 f2 h1 h2 h3 e1 e2
      rw [hr.vals a h1] at e1; rw [hr.vals b (by omega)] at e2
      exact h.vAgree a b c1 f1 c2 f2 (by omega) h2 h3 e1 e2
    · rw [hr.vals _ (by omega)]; exact h.vTop
    · intro a h1 h2; rw [hr.params a h1]; exact h.pRec a (by omega) h2
    · intro a h1 h2
      apply serve_params_at db db' to pc pfull _ hp hr a h1
      · intro c hc hlt
        obtain ⟨ct, ft, et, _, _⟩ := h.pRec to hlo hto
        have := h.pAgree to a ct ft c false hlo h1 h2 et hc (by omega)
        subst this
        exact ⟨ft, et⟩
      · intro c hc
        obtain ⟨ct, ft, et, _, hfull⟩ := h.pRec to hlo hto
        rw [hc] at et; injection et with et; injection et with e1 e2; subst e1; subst e2
        exact hfull rfl
      · exact h.pLoad a (by omega) h2
    · intro a b c1 f1 c2 f2 h1 h2 h3 e1 e2
      rw [hr.params a h1] at e1; rw [hr.params b (by omega)] at e2
      exact h.pAgree a b c1 f1 c2 f2 (by omega) h2 h3 e1 e2
    · rw [hr.params _ hto]; exact h.pTop

/-- `SaveABCIResponses` writes only response keys -/
theorem SInv.abci_prefix {db : DB} {st : St} {lo : Int} (h : SInv db st lo) (a : Int) (j : Nat) :
    SInv (applyAll db ((saveAbci a).flatten.take j)) st lo := by
  have hk : ∀ w ∈ (saveAbci a).flatten.take j, w.key = .abci a ∨ w.key = .lastAbci := by
    intro w hw
    have := List.mem_of_mem_take hw
    simp [saveAbci] at this
    rcases this with rfl | rfl <;> simp [Write.key]
  apply h.congr_upto
  · intro b _
    apply loadInfo_applyAll_of_not_mem
    intro w hw; rcases hk w hw with e | e <;> rw [e] <;> intro e2 <;> cases e2
  · intro b _
    apply loadInfo_applyAll_of_not_mem
    intro w hw; rcases hk w hw with e | e <;> rw [e] <;> intro e2 <;> cases e2
  · apply loadState_applyAll_of_not_mem
    intro w hw; rcases hk w hw with e | e <;> rw [e] <;> intro e2 <;> cases e2

theorem loadInfo_empty (k : Key) : loadInfo ({} : DB) k = none := by
  simp [loadInfo, get]

/-- `MakeGenesisState` as far as the records go -/
def genesisSt (ih : Int) : St :=
  { lastBlockHeight := 0, lastBlockHash := 0, initialHeight := ih, lhcVals := ih, lhcParams := ih }

/-- **the genesis `Save` establishes the invariant** (any initial height ≥ 1) -/
theorem SInv.genesis (ih : Int) (hih : 1 ≤ ih) :
    SInv (applyAll {} (save (genesisSt ih)).1.flatten) (genesisSt ih) ih := by
  obtain ⟨f1, hw, hf1⟩ : ∃ f1, (save (genesisSt ih)).1.flatten =
      [.set (.vals ih) (.info ih true), .set (.vals (ih + 1)) (.info ih f1),
       .set (.params ih) (.info ih true), .set .state (.state (genesisSt ih))] ∧
      (f1 = true ↔ (ih + 1) % interval = 0) := by
    refine ⟨decide ((ih + 1) % interval = 0), ?_, decide_eq_true_iff⟩
    have h1 : ¬ ih + 1 < ih := by omega
    have h2 : ¬ ih + 1 = ih := by omega
    simp [save, saveValsInfo, saveParamsInfo, genesisSt, h1, h2]
  rw [hw]
  have hV : ∀ a, loadInfo (applyAll {} [.set (.vals ih) (.info ih true), .set (.vals (ih + 1)) (.info ih f1),
       .set (.params ih) (.info ih true), .set .state (.state (genesisSt ih))])
       (.vals a) = if ih + 1 = a then some (ih, f1) else if ih = a then some (ih, true) else none := by
    intro a
    simp only [applyAll_cons, applyAll_nil, loadInfo_set, loadInfo_empty]
    by_cases e1 : ih + 1 = a
    · subst e1; simp
    · by_cases e2 : ih = a
      · subst e2; simp
      · simp [e1, e2]
  have hP : ∀ a, loadInfo (applyAll {} [.set (.vals ih) (.info ih true), .set (.vals (ih + 1)) (.info ih f1),
       .set (.params ih) (.info ih true), .set .state (.state (genesisSt ih))])
       (.params a) = if ih = a then some (ih, true) else none := by
    intro a
    simp only [applyAll_cons, applyAll_nil, loadInfo_set, loadInfo_empty]
    by_cases e2 : ih = a
    · subst e2; simp
    · simp [e2]
  have hS : loadState (applyAll {} [.set (.vals ih) (.info ih true), .set (.vals (ih + 1)) (.info ih f1),
       .set (.params ih) (.info ih true), .set .state (.state (genesisSt ih))]) = some (genesisSt ih) := by
    simp only [applyAll_cons, applyAll_nil, loadState_set_state]
  generalize applyAll {} _ = db at hV hP hS ⊢
  have hn : saveNext (genesisSt ih) = ih := by simp [saveNext, genesisSt]
  have hne : ¬ ih + 1 = ih := by omega
  refine { state := hS, lNonneg := by simp [genesisSt], ihPos := hih, lRange := Or.inl rfl, vRec := ?_, vLoad := ?_,
           vAgree := ?_, vTop := ?_, pRec := ?_, pLoad := ?_, pAgree := ?_, pTop := ?_ }
  · intro a h1 h2
    rw [hn] at h2
    rw [hV]
    by_cases e1 : ih + 1 = a
    · subst e1
      exact ⟨ih, f1, by simp, by omega, fun hf => Or.inr (hf1.1 hf)⟩
    · have : ih = a := by omega
      subst this
      exact ⟨ih, true, by simp [hne], Int.le_refl _, fun _ => Or.inl rfl⟩
  · intro a h1 h2
    rw [hn] at h2
    unfold valsLoadable
    rw [hV]
    by_cases e1 : ih + 1 = a
    · subst e1
      simp only [if_true]
      cases hd : f1 with
      | true => rfl
      | false =>
        simp only
        have hnm : ¬ (ih + 1) % interval = 0 := by
          intro e; have := hf1.2 e; rw [hd] at this; cases this
        have : lastStoredHeightFor (ih + 1) ih = ih := by
          simp only [lastStoredHeightFor, interval, Facts.c18_valSetCheckpointInterval] at *
          omega
        rw [this, hV]
        simp [hne]
    · have : ih = a := by omega
      subst this
      simp [hne]
  · intro a b c1 f1 c2 f2 h1 h2 h3 e1 e2 hle
    rw [hn] at h3
    rw [hV] at e1 e2
    have hc1 : c1 = ih := by
      split at e1
      · injection e1 with e1; injection e1 with e1 _; exact e1.symm
      · split at e1
        · injection e1 with e1; injection e1 with e1 _; exact e1.symm
        · cases e1
    have hc2 : c2 = ih := by
      split at e2
      · injection e2 with e2; injection e2 with e2 _; exact e2.symm
      · split at e2
        · injection e2 with e2; injection e2 with e2 _; exact e2.symm
        · cases e2
    rw [hc1, hc2]
  · rw [hn, hV]; exact ⟨f1, by simp [genesisSt], by simp only [genesisSt]; omega⟩
  · intro a h1 h2
    rw [hn] at h2
    have : ih = a := by omega
    subst this
    rw [hP]; exact ⟨ih, true, by simp, Int.le_refl _, fun _ => rfl⟩
  · intro a h1 h2
    rw [hn] at h2
    have : ih = a := by omega
    subst this
    unfold paramsLoadable
    rw [hP]; simp
  · intro a b c1 f1 c2 f2 h1 h2 h3 e1 e2 hle
    rw [hn] at h3
    have ha : ih = a := by omega
    have hb : ih = b := by omega
    subst ha; subst hb
    rw [e1] at e2; injection e2 with e2; injection e2 with e2 _
  · rw [hn, hP]; exact ⟨true, by simp [genesisSt], by simp [genesisSt]⟩

end Tmv.StateStore
