import Tmv.Lemmas.ConsHeld
import Tmv.Lemmas.NetVoteSet
/-! Vote-set buckets vs. the history: every entry of every bucket is a distinct validator whose
well-formed vote (its own index, its own address, an intact signature by its own key) was delivered to
the node as an input, or is the node's own signed vote. -/
namespace Tmv.Cons

/-- validator `v`'s well-formed vote `(t, r, bid)` is among the inputs `past` -/
def deliveredBy (past : List Input) (t : VType) (r : Int) (bid : Bid) (v : Nat) : Bool :=
  past.any fun i => match i with
    | .vote w _ => decide (w.typ = t ∧ (w.round : Int) = r ∧ w.bid = bid ∧ w.val = v) && w.sigOK &&
        decide (w.addr = v) && decide (w.signer = v)
    | _ => false

/-- the node is validator `v` and has signed the vote `(t, r, bid)` -/
def ownVote (c : Cfg) (out : List Output) (t : VType) (r : Int) (bid : Bid) (v : Nat) : Bool :=
  decide (c.self = some v) && out.any fun o => match o with
    | .signVote t' r' b' => decide (t' = t ∧ (r' : Int) = r ∧ b' = bid)
    | _ => false

def Ev (c : Cfg) (past : List Input) (out : List Output) (t : VType) (r : Int) (bid : Bid) (v : Nat) : Bool :=
  deliveredBy past t r bid v || ownVote c out t r bid v

theorem ownVote_mono {c : Cfg} {out : List Output} (o : Output) {t r bid v} (h : ownVote c out t r bid v = true) :
    ownVote c (out ++ [o]) t r bid v = true := by
  unfold ownVote at h ⊢
  simp only [Bool.and_eq_true, List.any_append, Bool.or_eq_true] at h ⊢
  exact ⟨h.1, Or.inl h.2⟩

theorem deliveredBy_mono {past : List Input} (i : Input) {t r bid v} (h : deliveredBy past t r bid v = true) :
    deliveredBy (past ++ [i]) t r bid v = true := by
  unfold deliveredBy at h ⊢
  simp only [List.any_append, Bool.or_eq_true] at h ⊢
  exact Or.inl h

theorem Ev_mono_out {c : Cfg} {past : List Input} {out : List Output} (o : Output) {t r bid v}
    (h : Ev c past out t r bid v = true) : Ev c past (out ++ [o]) t r bid v = true := by
  unfold Ev at h ⊢
  simp only [Bool.or_eq_true] at h ⊢
  exact h.imp id (ownVote_mono o)

theorem Ev_mono_past {c : Cfg} {past : List Input} {out : List Output} (i : Input) {t r bid v}
    (h : Ev c past out t r bid v = true) : Ev c (past ++ [i]) out t r bid v = true := by
  unfold Ev at h ⊢
  simp only [Bool.or_eq_true] at h ⊢
  exact h.imp (deliveredBy_mono i) id

/-- `VoteSet.addVote` with the full identity check: a vote that gets in carries its validator's own
address and an intact signature by its own key -/
theorem VoteSet.addVote_MS' (c : Cfg) (E : Bid → Nat → Bool) (vs : VoteSet) (v : Vote) (hm : MSv c E vs)
    (hv : v.val < c.n → v.sigOK = true → v.addr = v.val → v.signer = v.val → E v.bid v.val = true) :
    MSv c E (vs.addVote c v).1 := by
  unfold VoteSet.addVote
  split
  · exact hm
  · rename_i hn
    split
    · exact hm
    · rename_i ha
      split
      · exact hm
      · split
        · exact hm
        · rename_i hs
          have hlt : v.val < c.n := by omega
          have hsig : v.sigOK = true ∧ v.signer = v.val := by
            cases h : v.sigOK
            · simp [h] at hs
            · simp [h] at hs; exact ⟨rfl, hs⟩
          have haddr : v.addr = v.val := by
            cases Nat.decEq v.addr v.val with
            | isTrue e => exact e
            | isFalse e => exact absurd e ha
          exact VoteSet.addVerified_MS c E vs _ _ hlt (hv hlt hsig.1 haddr hsig.2) hm

theorem HVS.addVote_MS' (c : Cfg) (E : VType → Int → Bid → Nat → Bool) (h : HVS) (v : Vote) (peer : Peer)
    (hm : MSh c E h)
    (hv : v.val < c.n → v.sigOK = true → v.addr = v.val → v.signer = v.val → E v.typ (v.round : Int) v.bid v.val = true) :
    MSh c E (h.addVote c v peer).1 := by
  unfold HVS.addVote
  simp only []
  split
  · rename_i vs hg
    exact HVS.putVoteSet_MS _ _ _ _ _ _ (VoteSet.addVote_MS' c _ vs v (hm.getVoteSet hg) hv) hm
  · split
    · simp only []
      apply HVS.putVoteSet_MS _ _ _ _ _ _ (VoteSet.addVote_MS' c _ _ v (MSv.empty c _) hv)
      exact (HVS.addRound_MS c E h _ hm).congr_sets rfl
    · exact hm

attribute [local irreducible] emit panicWith sign signAddVote decideProposal doPrevote enterPrevote enterPropose
  enterNewRound newRoundReset enterPrevoteWait unlock enterPrecommit enterPrecommitWait finalizeCommit tryFinalizeCommit
  enterCommit setProposal handleCompleteProposal addBlockPart addVote onPolka prevoteTransitions afterPrevote
  afterPrecommit handleInternal handleTimeout
  handleTxsAvailable handleInput drain step run HVS.addVote HVS.setRound HVS.setPeerMaj23 HVS.polRound
  isProposalComplete maj23Of hasAnyOf hashesTo hasHeader

/-- (D): buckets list delivered-or-own votes; queued own votes are signed votes -/
structure DI (c : Cfg) (past : List Input) (votes : HVS) (out : List Output) (queue : List Internal) : Prop where
  ms : MSh c (Ev c past out) votes
  q : ∀ w, Internal.vote w ∈ queue → ownVote c out w.typ (w.round : Int) w.bid w.val = true

abbrev D (c : Cfg) (past : List Input) (s : NodeState) : Prop := DI c past s.votes s.out s.queue

theorem DI.push_out {c past votes out queue} (h : DI c past votes out queue) (o : Output) :
    DI c past votes (out ++ [o]) queue :=
  ⟨h.ms.mono (fun _ _ _ _ e => Ev_mono_out o e), fun w hw => ownVote_mono o (h.q w hw)⟩

theorem DI.mono_past {c past votes out queue} (h : DI c past votes out queue) (i : Input) :
    DI c (past ++ [i]) votes out queue :=
  ⟨h.ms.mono (fun _ _ _ _ e => Ev_mono_past i e), h.q⟩

variable {c : Cfg} {past : List Input}

syntax "dinv_step" : tactic
macro_rules | `(tactic| dinv_step) => `(tactic| assumption)
macro "dinv" : tactic => `(tactic| repeat' (first | dinv_step | (dsimp only; dinv_step)))

theorem emit_D {s : NodeState} (o : Output) (h : D c past s) : D c past (emit s o) := by
  rcases emit_shape s o with e | e <;> rw [e]
  · exact h
  · exact h.push_out o
macro_rules | `(tactic| dinv_step) => `(tactic| apply emit_D)

theorem panicWith_D {s : NodeState} (w : String) (h : D c past s) : D c past (panicWith s w) := by
  rcases panicWith_shape s w with e | e <;> rw [e]
  · exact h
  · exact h.push_out _
macro_rules | `(tactic| dinv_step) => `(tactic| apply panicWith_D)

theorem signAddVote_D {s : NodeState} (t : VType) (bid : Bid) (h : D c past s) : D c past (signAddVote c s t bid) := by
  rcases signAddVote_shape c s t bid with e | ⟨l, me, hme, e⟩ <;> rw [e]
  · exact h
  · show DI _ _ _ _ _
    dsimp only
    have h' := h.push_out (.signVote t s.round bid)
    refine ⟨h'.ms, ?_⟩
    intro w hw
    rcases List.mem_append.1 hw with a | a
    · exact h'.q w a
    · simp at a
      subst a
      unfold ownVote
      simp [hme]
macro_rules | `(tactic| dinv_step) => `(tactic| apply signAddVote_D)

theorem decideProposal_D {s : NodeState} (r me : Nat) (h : D c past s) : D c past (decideProposal c s r me) := by
  rcases decideProposal_shape c s r me with e | ⟨l, o, ho, e⟩ <;> rw [e]
  · exact h
  · show DI _ _ _ _ _
    dsimp only
    have h' : DI c past s.votes o s.queue := by
      rcases ho with rfl | rfl
      · exact h
      · exact h.push_out _
    refine ⟨h'.ms, ?_⟩
    intro w hw
    rcases List.mem_append.1 hw with a | a
    · exact h'.q w a
    · simp at a
macro_rules | `(tactic| dinv_step) => `(tactic| apply decideProposal_D)

theorem unlock_D {s : NodeState} (h : D c past s) : D c past (unlock s) := by unfold unlock; exact h
macro_rules | `(tactic| dinv_step) => `(tactic| apply unlock_D)

theorem newRoundReset_D {s : NodeState} (r : Nat) (h : D c past s) : D c past (newRoundReset s r) := by
  unfold newRoundReset; simp only []; split <;> exact h
macro_rules | `(tactic| dinv_step) => `(tactic| apply newRoundReset_D)

theorem doPrevote_D {s : NodeState} (h : D c past s) : D c past (doPrevote c s) := by
  unfold doPrevote; (try simp only []); repeat' split
  all_goals dinv
macro_rules | `(tactic| dinv_step) => `(tactic| apply doPrevote_D)

theorem enterPrevote_D {s : NodeState} (r : Nat) (h : D c past s) : D c past (enterPrevote c s r) := by
  unfold enterPrevote; (try simp only []); repeat' split
  all_goals dinv
macro_rules | `(tactic| dinv_step) => `(tactic| apply enterPrevote_D)

theorem enterPropose_D {s : NodeState} (r : Nat) (h : D c past s) : D c past (enterPropose c s r) := by
  unfold enterPropose; (try simp only []); repeat' split
  all_goals dinv
macro_rules | `(tactic| dinv_step) => `(tactic| apply enterPropose_D)

theorem enterNewRound_D {s : NodeState} (r : Nat) (h : D c past s) : D c past (enterNewRound c s r) := by
  unfold enterNewRound
  split
  · exact h
  · split
    · exact h
    · simp only []
      have h' := newRoundReset_D (c := c) (past := past) r h
      split
      · dinv
      · rename_i hv hsr
        have h2 : DI c past hv (newRoundReset s r).out (newRoundReset s r).queue :=
          ⟨HVS.setRound_MS c _ _ _ _ hsr h'.ms, h'.q⟩
        repeat' split
        all_goals dinv
macro_rules | `(tactic| dinv_step) => `(tactic| apply enterNewRound_D)

theorem enterPrevoteWait_D {s : NodeState} (r : Nat) (h : D c past s) : D c past (enterPrevoteWait c s r) := by
  unfold enterPrevoteWait; (try simp only []); repeat' split
  all_goals dinv
macro_rules | `(tactic| dinv_step) => `(tactic| apply enterPrevoteWait_D)

theorem enterPrecommit_D {s : NodeState} (r : Nat) (h : D c past s) : D c past (enterPrecommit c s r) := by
  unfold enterPrecommit; (try simp only []); repeat' split
  all_goals dinv
macro_rules | `(tactic| dinv_step) => `(tactic| apply enterPrecommit_D)

theorem enterPrecommitWait_D {s : NodeState} (r : Nat) (h : D c past s) : D c past (enterPrecommitWait c s r) := by
  unfold enterPrecommitWait; (try simp only []); repeat' split
  all_goals dinv
macro_rules | `(tactic| dinv_step) => `(tactic| apply enterPrecommitWait_D)

theorem finalizeCommit_D {s : NodeState} (h : D c past s) : D c past (finalizeCommit c s) := by
  unfold finalizeCommit; (try simp only []); repeat' split
  all_goals dinv
macro_rules | `(tactic| dinv_step) => `(tactic| apply finalizeCommit_D)

theorem tryFinalizeCommit_D {s : NodeState} (h : D c past s) : D c past (tryFinalizeCommit c s) := by
  unfold tryFinalizeCommit; (try simp only []); repeat' split
  all_goals dinv
macro_rules | `(tactic| dinv_step) => `(tactic| apply tryFinalizeCommit_D)

theorem enterCommit_D {s : NodeState} (r : Nat) (h : D c past s) : D c past (enterCommit c s r) := by
  unfold enterCommit; (try simp only []); repeat' split
  all_goals dinv
macro_rules | `(tactic| dinv_step) => `(tactic| apply enterCommit_D)

theorem setProposal_D {s : NodeState} (p : Proposal) (h : D c past s) : D c past (setProposal c s p) := by
  unfold setProposal; (try simp only []); repeat' split
  all_goals dinv
macro_rules | `(tactic| dinv_step) => `(tactic| apply setProposal_D)

theorem handleCompleteProposal_D {s : NodeState} (h : D c past s) : D c past (handleCompleteProposal c s) := by
  unfold handleCompleteProposal; (try simp only []); repeat' split
  all_goals dinv
macro_rules | `(tactic| dinv_step) => `(tactic| apply handleCompleteProposal_D)

theorem addBlockPart_D {s : NodeState} (b : Nat) (h : D c past s) : D c past (addBlockPart c s b) := by
  unfold addBlockPart; (try simp only []); repeat' split
  all_goals dinv
macro_rules | `(tactic| dinv_step) => `(tactic| apply addBlockPart_D)

theorem onPolka_D {s : NodeState} (vr : Nat) (bid : Bid) (h : D c past s) : D c past (onPolka s vr bid) := by
  unfold onPolka; (try simp only []); repeat' split
  all_goals dinv
macro_rules | `(tactic| dinv_step) => `(tactic| apply onPolka_D)

theorem prevoteTransitions_D {s : NodeState} (vr : Nat) (h : D c past s) : D c past (prevoteTransitions c s vr) := by
  unfold prevoteTransitions; (try simp only []); repeat' split
  all_goals dinv
macro_rules | `(tactic| dinv_step) => `(tactic| apply prevoteTransitions_D)

theorem afterPrevote_D {s : NodeState} (vr : Nat) (h : D c past s) : D c past (afterPrevote c s vr) := by
  unfold afterPrevote; (try simp only []); repeat' split
  all_goals dinv
macro_rules | `(tactic| dinv_step) => `(tactic| apply afterPrevote_D)

theorem afterPrecommit_D {s : NodeState} (vr : Nat) (h : D c past s) : D c past (afterPrecommit c s vr) := by
  unfold afterPrecommit; (try simp only []); repeat' split
  all_goals dinv
macro_rules | `(tactic| dinv_step) => `(tactic| apply afterPrecommit_D)

theorem addVote_D {s : NodeState} (v : Vote) (peer : Peer)
    (hv : v.val < c.n → v.sigOK = true → v.addr = v.val → v.signer = v.val →
      Ev c past s.out v.typ (v.round : Int) v.bid v.val = true)
    (h : D c past s) : D c past (addVote c s v peer) := by
  have h' : DI c past (s.votes.addVote c v peer).1 s.out s.queue := ⟨HVS.addVote_MS' c _ _ v peer h.ms hv, h.q⟩
  unfold addVote; simp only []; repeat' split
  all_goals dinv

theorem handleInternal_D {s : NodeState} (m : Internal)
    (hm : ∀ w, m = .vote w → ownVote c s.out w.typ (w.round : Int) w.bid w.val = true) (h : D c past s) :
    D c past (handleInternal c s m) := by
  unfold handleInternal
  cases m with
  | proposal p => exact setProposal_D p h
  | part b => exact addBlockPart_D b h
  | vote v =>
    apply addVote_D v 0 _ h
    intro _ _ _ _
    unfold Ev; rw [hm v rfl]; simp

theorem handleTimeout_D {s : NodeState} (r : Nat) (st : Step) (h : D c past s) : D c past (handleTimeout c s r st) := by
  unfold handleTimeout; (try simp only []); repeat' split
  all_goals dinv
macro_rules | `(tactic| dinv_step) => `(tactic| apply handleTimeout_D)

theorem handleTxsAvailable_D {s : NodeState} (h : D c past s) : D c past (handleTxsAvailable c s) := by
  unfold handleTxsAvailable; (try simp only []); repeat' split
  all_goals dinv
macro_rules | `(tactic| dinv_step) => `(tactic| apply handleTxsAvailable_D)

theorem handleInput_D {s : NodeState} (i : Input) (h : D c past s) : D c (past ++ [i]) (handleInput c s i) := by
  have h' := h.mono_past i
  unfold handleInput
  cases i with
  | timeout r st => exact handleTimeout_D r st h'
  | peerMaj23 r t peer bid => exact ⟨HVS.setPeerMaj23_MS c _ _ _ _ _ _ h'.ms, h'.q⟩
  | proposal p => exact setProposal_D p h'
  | blockComplete b => exact addBlockPart_D b h'
  | vote v peer =>
    apply addVote_D v peer _ h'
    intro _ hs ha hk
    unfold Ev deliveredBy
    simp [hs, ha, hk]
  | txsAvailable => exact handleTxsAvailable_D h'

theorem drain_D (fuel : Nat) {s : NodeState} (h : D c past s) : D c past (drain c fuel s) := by
  induction fuel generalizing s with
  | zero => unfold drain; exact h
  | succ n ih =>
    unfold drain; repeat' split
    all_goals first | exact h | skip
    rename_i m rest hq
    have h' : D c past { s with queue := rest } :=
      ⟨h.ms, fun w hw => h.q w (by rw [hq]; exact List.mem_cons_of_mem _ hw)⟩
    exact ih (handleInternal_D m (fun w e => h.q w (by rw [hq, e]; exact List.mem_cons_self ..)) h')

theorem step_D {s : NodeState} (i : Input) (h : D c past s) : D c (past ++ [i]) (step c s i) := by
  unfold step; split
  · exact h.mono_past i
  · exact drain_D _ (handleInput_D i h)

theorem run_D (is : List Input) {s : NodeState} {past : List Input} (h : D c past s) : D c (past ++ is) (run c s is) := by
  induction is generalizing s past with
  | nil => unfold run; simpa using h
  | cons i is ih =>
    have := ih (step_D i h)
    unfold run at this ⊢
    simpa [List.foldl, List.append_assoc] using this

theorem init_D : D c [] NodeState.init :=
  ⟨MSh.init c _, by intro w hw; simp [NodeState.init] at hw⟩

end Tmv.Cons
