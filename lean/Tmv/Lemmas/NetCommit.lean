import Tmv.Lemmas.NetW
import Tmv.Model.Net
/-! The commit a decided node stores verifies (C01): a node that has decided keeps
`VoteSet.MakeCommit()` of the precommits of its commit round (`seenCommit`); the tally of
`VerifyCommit` over its flags (`commitVerifies`) accepts it. Ingredients: (CS) the canonical vote
slots of the members of a recorded majority bucket hold the majority value, through every vote-set /
height-vote-set / node function; `decided` is written only by `finalizeCommit`, for the recorded
precommit majority of `commitRound`; the bucket sum is bounded by the weight of the "commit" flags.
Core Lean only. -/

namespace Tmv.Net
open Tmv.Cons

/-- the canonical slots of the members of the majority bucket hold the majority value -/
def CSv (vs : VoteSet) : Prop :=
  ∀ key bv, vs.maj23 = some key → alookup vs.byBlock key = some bv →
    ∀ i ∈ bv.voted, alookup vs.votes i = some key

def CSh (h : HVS) : Prop := ∀ r rvs, h.getRound r = some rvs → CSv rvs.prevotes ∧ CSv rvs.precommits

theorem CSv.empty : CSv VoteSet.empty := by intro k bv h; simp [VoteSet.empty] at h

theorem foldl_aset_slot (key : Bid) (l : List Nat) (acc : List (Nat × Bid)) (i : Nat)
    (h : i ∈ l ∨ alookup acc i = some key) :
    alookup (l.foldl (fun vv i => aset vv i key) acc) i = some key := by
  induction l generalizing acc with
  | nil => simpa using h
  | cons a l ih =>
    simp only [List.foldl]
    apply ih
    by_cases e : i = a
    · right; rw [alookup_aset]; simp [e]
    · rcases h with h | h
      · left; simpa [e] using h
      · right; rw [alookup_aset]; simp [e, h]

theorem VoteSet.recordVote_fields (c : Cfg) (vs : VoteSet) (idx : Nat) (key : Bid) :
    (vs.recordVote c idx key).maj23 = vs.maj23 ∧ (vs.recordVote c idx key).byBlock = vs.byBlock := by
  unfold VoteSet.recordVote; repeat' split
  all_goals exact ⟨rfl, rfl⟩

theorem VoteSet.recordVote_slot (c : Cfg) (vs : VoteSet) (idx : Nat) (key : Bid)
    (h : alookup vs.votes idx = none ∨ vs.maj23 = some key) :
    alookup (vs.recordVote c idx key).votes idx = some key := by
  unfold VoteSet.recordVote
  split
  · rename_i x hx
    rcases h with h | h
    · rw [h] at hx; cases hx
    · rw [if_pos h]; simp only []; rw [alookup_aset]; simp
  · simp only []; rw [alookup_aset]; simp

theorem VoteSet.recordVote_CS (c : Cfg) (vs : VoteSet) (idx : Nat) (key : Bid) (h : CSv vs) :
    CSv (vs.recordVote c idx key) := by
  intro k bv hk hb i hi
  have e1 := VoteSet.recordVote_fields c vs idx key
  rw [e1.1] at hk
  rw [e1.2] at hb
  have hs := h k bv hk hb i hi
  by_cases e : i = idx
  · subst e
    unfold VoteSet.recordVote
    rw [hs]
    simp only []
    split
    · rename_i hm
      simp only []
      rw [alookup_aset]
      rw [hk] at hm
      simp
      cases hm; rfl
    · exact hs
  · unfold VoteSet.recordVote
    repeat' split
    all_goals try simp only []
    all_goals first | exact hs | (rw [alookup_aset]; simp [e, hs])

theorem VoteSet.finish_CS (c : Cfg) (vs : VoteSet) (idx : Nat) (key : Bid) (bv : BlockVotes)
    (hbv : ∀ i ∈ bv.voted, vs.maj23 = some key → alookup vs.votes i = some key)
    (hidx : vs.maj23 = some key → alookup vs.votes idx = some key) (h : CSv vs) :
    CSv (VoteSet.finish c vs idx key bv).1 := by
  have old : CSv ({ vs with byBlock := aset vs.byBlock key (bv.add idx (c.power idx)) } : VoteSet) := by
    intro k b hk hb i hi
    simp only [] at hk hb ⊢
    rw [alookup_aset] at hb
    by_cases e : k = key
    · subst e
      simp only [if_true] at hb
      cases hb
      unfold BlockVotes.add at hi
      split at hi
      · exact hbv i hi hk
      · simp only [List.mem_append, List.mem_singleton] at hi
        rcases hi with hi | hi
        · exact hbv i hi hk
        · subst hi; exact hidx hk
    · simp only [e, if_false] at hb
      exact h k b hk hb i hi
  unfold VoteSet.finish
  simp only []
  split
  · split
    · intro k b hk hb i hi
      simp only [] at hk hb ⊢
      cases hk
      rw [alookup_aset] at hb
      simp only [if_true] at hb
      cases hb
      exact foldl_aset_slot _ _ _ _ (Or.inl hi)
    · exact old
  · exact old

theorem VoteSet.addVerified_CS (c : Cfg) (vs : VoteSet) (idx : Nat) (key : Bid) (h : CSv vs) :
    CSv (vs.addVerified c idx key).1 := by
  unfold VoteSet.addVerified
  simp only []
  have e1 := VoteSet.recordVote_fields c vs idx key
  have h1 := VoteSet.recordVote_CS c vs idx key h
  have hidx : (vs.recordVote c idx key).maj23 = some key →
      alookup (vs.recordVote c idx key).votes idx = some key := by
    intro hm
    apply VoteSet.recordVote_slot
    right; rw [← e1.1]; exact hm
  split
  · rename_i bv hb
    split
    · exact h1
    · apply VoteSet.finish_CS c _ idx key bv _ hidx h1
      intro i hi hm
      exact h1 key bv hm hb i hi
  · rename_i hb
    split
    · exact h1
    · apply VoteSet.finish_CS c _ idx key _ _ hidx h1
      intro i hi; cases hi

theorem VoteSet.addVote_CS (c : Cfg) (vs : VoteSet) (v : Vote) (h : CSv vs) : CSv (vs.addVote c v).1 := by
  unfold VoteSet.addVote
  repeat' split
  all_goals first | exact h | exact VoteSet.addVerified_CS c vs _ _ h

theorem VoteSet.setPeerMaj23_CS (vs : VoteSet) (peer : Peer) (key : Bid) (h : CSv vs) :
    CSv (vs.setPeerMaj23 peer key) := by
  unfold VoteSet.setPeerMaj23
  simp only []
  split
  · exact h
  · split
    · rename_i bv hb
      split
      · intro k b hk hb' i hi; exact h k b hk hb' i hi
      · intro k b hk hb' i hi
        simp only [] at hk hb' ⊢
        rw [alookup_aset] at hb'
        by_cases e : k = key
        · subst e
          simp only [if_true] at hb'
          cases hb'
          exact h k bv hk hb i hi
        · simp only [e, if_false] at hb'
          exact h k b hk hb' i hi
    · rename_i hb
      intro k b hk hb' i hi
      simp only [] at hk hb' ⊢
      rw [alookup_append] at hb'
      cases hl : alookup vs.byBlock k with
      | some x => rw [hl] at hb'; simp at hb'; subst hb'; exact h k x hk hl i hi
      | none =>
        rw [hl] at hb'
        by_cases e : k = key
        · simp [e] at hb'; subst hb'; cases hi
        · simp [e] at hb'

theorem CSh.init : CSh HVS.init := by
  intro r rvs hv
  unfold HVS.getRound HVS.init alookup at hv
  simp only [List.find?] at hv
  split at hv
  · simp at hv; subst hv; exact ⟨CSv.empty, CSv.empty⟩
  · simp at hv

theorem CSh.congr_sets {a b : HVS} (h : CSh a) (e : b.sets = a.sets) : CSh b := by
  intro r rvs hv
  apply h r rvs
  unfold HVS.getRound at hv ⊢
  rw [← e]; exact hv

theorem CSh.getVoteSet {h : HVS} (hq : CSh h) {r : Int} {t : VType} {vs : VoteSet}
    (hg : h.getVoteSet r t = some vs) : CSv vs := by
  unfold HVS.getVoteSet at hg
  cases hr : h.getRound r with
  | none => rw [hr] at hg; simp at hg
  | some rvs =>
    rw [hr] at hg
    have := hq r rvs hr
    cases t <;> simp at hg <;> subst hg
    · exact this.1
    · exact this.2

theorem HVS.addRound_CS (h : HVS) (r : Int) (hq : CSh h) : CSh (h.addRound r) := by
  intro r' rvs hv
  unfold HVS.getRound HVS.addRound at hv
  simp only [] at hv
  rw [alookup_append] at hv
  cases hl : alookup h.sets r' with
  | some y =>
    rw [hl] at hv
    simp at hv; subst hv
    exact hq r' y hl
  | none =>
    rw [hl] at hv
    by_cases e : r' = r
    · simp [e] at hv; subst hv; exact ⟨CSv.empty, CSv.empty⟩
    · simp [e] at hv

theorem HVS.putVoteSet_CS (h : HVS) (r : Int) (t : VType) (vs : VoteSet) (hvs : CSv vs) (hq : CSh h) :
    CSh (h.putVoteSet r t vs) := by
  intro r' rvs' hv
  unfold HVS.putVoteSet at hv
  cases hg : h.getRound r with
  | none => rw [hg] at hv; exact hq r' rvs' hv
  | some rvs =>
    rw [hg] at hv
    unfold HVS.getRound at hv
    simp only [] at hv
    rw [alookup_aset] at hv
    have hold := hq r rvs hg
    by_cases hr : r' = r
    · subst hr
      simp only [if_true] at hv
      cases t with
      | prevote => simp at hv; subst hv; exact ⟨hvs, hold.2⟩
      | precommit => simp at hv; subst hv; exact ⟨hold.1, hvs⟩
    · simp only [hr, if_false] at hv
      exact hq r' rvs' hv

theorem HVS.addVote_CS (c : Cfg) (h : HVS) (v : Vote) (peer : Peer) (hq : CSh h) : CSh (h.addVote c v peer).1 := by
  unfold HVS.addVote
  simp only []
  split
  · rename_i vs hg
    exact HVS.putVoteSet_CS _ _ _ _ (VoteSet.addVote_CS c vs v (hq.getVoteSet hg)) hq
  · split
    · simp only []
      apply HVS.putVoteSet_CS _ _ _ _ (VoteSet.addVote_CS c _ v CSv.empty)
      exact (HVS.addRound_CS h _ hq).congr_sets rfl
    · exact hq

theorem HVS.setPeerMaj23_CS (h : HVS) (r : Nat) (t : VType) (peer : Peer) (key : Bid) (hq : CSh h) :
    CSh (h.setPeerMaj23 r t peer key) := by
  unfold HVS.setPeerMaj23
  split
  · rename_i vs hg
    exact HVS.putVoteSet_CS _ _ _ _ (VoteSet.setPeerMaj23_CS vs peer key (hq.getVoteSet hg)) hq
  · exact hq

theorem HVS.foldl_addRound_CS (rs : List Int) (h : HVS) (hq : CSh h) :
    CSh (rs.foldl (fun h r => if (h.getRound r).isSome then h else h.addRound r) h) := by
  induction rs generalizing h with
  | nil => exact hq
  | cons a rs ih =>
    simp only [List.foldl]
    apply ih
    split
    · exact hq
    · exact HVS.addRound_CS h a hq

theorem HVS.setRound_CS (h h' : HVS) (round : Int) (hs : h.setRound round = some h') (hq : CSh h) :
    CSh h' := by
  unfold HVS.setRound at hs
  simp only [] at hs
  split at hs
  · cases hs
  · cases hs
    exact (HVS.foldl_addRound_CS _ h hq).congr_sets rfl


/-! ### every function of the node model keeps `CSh` of its vote sets -/

attribute [local irreducible] emit panicWith sign signAddVote decideProposal doPrevote enterPrevote enterPropose
  enterNewRound newRoundReset enterPrevoteWait unlock enterPrecommit enterPrecommitWait finalizeCommit tryFinalizeCommit
  enterCommit setProposal handleCompleteProposal addBlockPart addVote onPolka prevoteTransitions afterPrevote
  afterPrecommit handleInternal handleTimeout
  handleTxsAvailable handleInput drain step run HVS.addVote HVS.setRound HVS.setPeerMaj23 HVS.polRound
  isProposalComplete maj23Of hasAnyOf hashesTo hasHeader

variable {c : Cfg}

syntax "csinv_step" : tactic
macro_rules | `(tactic| csinv_step) => `(tactic| assumption)
macro "csinv" : tactic => `(tactic| repeat' (first | csinv_step | (dsimp only; csinv_step)))

theorem emit_CS {s : NodeState} (o : Output) (h : CSh s.votes) : CSh (emit s o).votes := by
  rw [emit_votes]; exact h
macro_rules | `(tactic| csinv_step) => `(tactic| apply emit_CS)
theorem panicWith_CS {s : NodeState} (w : String) (h : CSh s.votes) : CSh (panicWith s w).votes := by
  rw [panicWith_votes]; exact h
macro_rules | `(tactic| csinv_step) => `(tactic| apply panicWith_CS)
theorem signAddVote_CS {s : NodeState} (t : VType) (b : Bid) (h : CSh s.votes) : CSh (signAddVote c s t b).votes := by
  rw [signAddVote_votes]; exact h
macro_rules | `(tactic| csinv_step) => `(tactic| apply signAddVote_CS)
theorem decideProposal_CS {s : NodeState} (r me : Nat) (h : CSh s.votes) : CSh (decideProposal c s r me).votes := by
  rw [decideProposal_votes]; exact h
macro_rules | `(tactic| csinv_step) => `(tactic| apply decideProposal_CS)
theorem doPrevote_CS {s : NodeState} (h : CSh s.votes) : CSh (doPrevote c s).votes := by
  rw [doPrevote_votes]; exact h
macro_rules | `(tactic| csinv_step) => `(tactic| apply doPrevote_CS)
theorem unlock_CS {s : NodeState} (h : CSh s.votes) : CSh (unlock s).votes := by
  rw [unlock_votes]; exact h
macro_rules | `(tactic| csinv_step) => `(tactic| apply unlock_CS)

theorem enterPrevote_CS {s : NodeState} (r : Nat) (h : CSh s.votes) : CSh (enterPrevote c s r).votes := by
  unfold enterPrevote; (try simp only []); repeat' split
  all_goals csinv
macro_rules | `(tactic| csinv_step) => `(tactic| apply enterPrevote_CS)

theorem enterPropose_CS {s : NodeState} (r : Nat) (h : CSh s.votes) : CSh (enterPropose c s r).votes := by
  unfold enterPropose; (try simp only []); repeat' split
  all_goals csinv
macro_rules | `(tactic| csinv_step) => `(tactic| apply enterPropose_CS)

theorem enterNewRound_CS {s : NodeState} (r : Nat) (h : CSh s.votes) : CSh (enterNewRound c s r).votes := by
  unfold enterNewRound
  split
  · exact h
  · split
    · exact h
    · simp only []
      have hf := newRoundReset_fields s r
      have h' : CSh (newRoundReset s r).votes := by rw [hf.2.1]; exact h
      split
      · csinv
      · rename_i hv hsr
        have h2 : CSh hv := HVS.setRound_CS _ _ _ hsr h'
        repeat' split
        all_goals csinv
macro_rules | `(tactic| csinv_step) => `(tactic| apply enterNewRound_CS)

theorem enterPrevoteWait_CS {s : NodeState} (r : Nat) (h : CSh s.votes) : CSh (enterPrevoteWait c s r).votes := by
  unfold enterPrevoteWait; (try simp only []); repeat' split
  all_goals csinv
macro_rules | `(tactic| csinv_step) => `(tactic| apply enterPrevoteWait_CS)

theorem enterPrecommit_CS {s : NodeState} (r : Nat) (h : CSh s.votes) : CSh (enterPrecommit c s r).votes := by
  unfold enterPrecommit; (try simp only []); repeat' split
  all_goals csinv
macro_rules | `(tactic| csinv_step) => `(tactic| apply enterPrecommit_CS)

theorem enterPrecommitWait_CS {s : NodeState} (r : Nat) (h : CSh s.votes) : CSh (enterPrecommitWait c s r).votes := by
  unfold enterPrecommitWait; (try simp only []); repeat' split
  all_goals csinv
macro_rules | `(tactic| csinv_step) => `(tactic| apply enterPrecommitWait_CS)

theorem finalizeCommit_CS {s : NodeState} (h : CSh s.votes) : CSh (finalizeCommit c s).votes := by
  unfold finalizeCommit; (try simp only []); repeat' split
  all_goals csinv
macro_rules | `(tactic| csinv_step) => `(tactic| apply finalizeCommit_CS)

theorem tryFinalizeCommit_CS {s : NodeState} (h : CSh s.votes) : CSh (tryFinalizeCommit c s).votes := by
  unfold tryFinalizeCommit; (try simp only []); repeat' split
  all_goals csinv
macro_rules | `(tactic| csinv_step) => `(tactic| apply tryFinalizeCommit_CS)

theorem enterCommit_CS {s : NodeState} (r : Nat) (h : CSh s.votes) : CSh (enterCommit c s r).votes := by
  unfold enterCommit; (try simp only []); repeat' split
  all_goals csinv
macro_rules | `(tactic| csinv_step) => `(tactic| apply enterCommit_CS)

theorem setProposal_CS {s : NodeState} (p : Proposal) (h : CSh s.votes) : CSh (setProposal c s p).votes := by
  unfold setProposal; (try simp only []); repeat' split
  all_goals csinv
macro_rules | `(tactic| csinv_step) => `(tactic| apply setProposal_CS)

theorem handleCompleteProposal_CS {s : NodeState} (h : CSh s.votes) : CSh (handleCompleteProposal c s).votes := by
  unfold handleCompleteProposal; (try simp only []); repeat' split
  all_goals csinv
macro_rules | `(tactic| csinv_step) => `(tactic| apply handleCompleteProposal_CS)

theorem addBlockPart_CS {s : NodeState} (b : Nat) (h : CSh s.votes) : CSh (addBlockPart c s b).votes := by
  unfold addBlockPart; (try simp only []); repeat' split
  all_goals csinv
macro_rules | `(tactic| csinv_step) => `(tactic| apply addBlockPart_CS)

theorem onPolka_CS {s : NodeState} (vr : Nat) (bid : Bid) (h : CSh s.votes) : CSh (onPolka s vr bid).votes := by
  unfold onPolka; (try simp only []); repeat' split
  all_goals csinv
macro_rules | `(tactic| csinv_step) => `(tactic| apply onPolka_CS)

theorem prevoteTransitions_CS {s : NodeState} (vr : Nat) (h : CSh s.votes) : CSh (prevoteTransitions c s vr).votes := by
  unfold prevoteTransitions; (try simp only []); repeat' split
  all_goals csinv
macro_rules | `(tactic| csinv_step) => `(tactic| apply prevoteTransitions_CS)

theorem afterPrevote_CS {s : NodeState} (vr : Nat) (h : CSh s.votes) : CSh (afterPrevote c s vr).votes := by
  unfold afterPrevote; (try simp only []); repeat' split
  all_goals csinv
macro_rules | `(tactic| csinv_step) => `(tactic| apply afterPrevote_CS)

theorem afterPrecommit_CS {s : NodeState} (vr : Nat) (h : CSh s.votes) : CSh (afterPrecommit c s vr).votes := by
  unfold afterPrecommit; (try simp only []); repeat' split
  all_goals csinv
macro_rules | `(tactic| csinv_step) => `(tactic| apply afterPrecommit_CS)

theorem addVote_CS {s : NodeState} (v : Vote) (peer : Peer) (h : CSh s.votes) : CSh (addVote c s v peer).votes := by
  have h' : CSh (s.votes.addVote c v peer).1 := HVS.addVote_CS c _ v peer h
  unfold addVote; simp only []; repeat' split
  all_goals csinv
macro_rules | `(tactic| csinv_step) => `(tactic| apply addVote_CS)

theorem handleInternal_CS {s : NodeState} (m : Internal) (h : CSh s.votes) : CSh (handleInternal c s m).votes := by
  unfold handleInternal; (try simp only []); repeat' split
  all_goals csinv
macro_rules | `(tactic| csinv_step) => `(tactic| apply handleInternal_CS)

theorem handleTimeout_CS {s : NodeState} (r : Nat) (st : Step) (h : CSh s.votes) : CSh (handleTimeout c s r st).votes := by
  unfold handleTimeout; (try simp only []); repeat' split
  all_goals csinv
macro_rules | `(tactic| csinv_step) => `(tactic| apply handleTimeout_CS)

theorem handleTxsAvailable_CS {s : NodeState} (h : CSh s.votes) : CSh (handleTxsAvailable c s).votes := by
  unfold handleTxsAvailable; (try simp only []); repeat' split
  all_goals csinv
macro_rules | `(tactic| csinv_step) => `(tactic| apply handleTxsAvailable_CS)

theorem handleInput_CS {s : NodeState} (i : Input) (h : CSh s.votes) : CSh (handleInput c s i).votes := by
  unfold handleInput
  cases i with
  | timeout r st => exact handleTimeout_CS r st h
  | peerMaj23 r t peer bid => exact HVS.setPeerMaj23_CS _ _ _ _ _ h
  | proposal p => exact setProposal_CS p h
  | blockComplete b => exact addBlockPart_CS b h
  | vote v peer => exact addVote_CS v peer h
  | txsAvailable => exact handleTxsAvailable_CS h

theorem handleOwn_CS {s : NodeState} (k : Nat) (h : CSh s.votes) : CSh (handleOwn c s k).votes := by
  unfold handleOwn
  split
  · rename_i m _
    have h' : CSh ({ s with queue := s.queue.eraseIdx k } : NodeState).votes := h
    exact handleInternal_CS m h'
  · exact h

/-! ### `decided` is written only by `finalizeCommit` -/

@[local simp] theorem newRoundReset_decided (s : NodeState) (r : Nat) : (newRoundReset s r).decided = s.decided := by
  unfold newRoundReset; simp only []; split <;> rfl
@[local simp] theorem enterPrevote_decided (c : Cfg) (s : NodeState) (r : Nat) : (enterPrevote c s r).decided = s.decided := by
  unfold enterPrevote; (try simp only []); repeat' split
  all_goals simp
@[local simp] theorem enterPropose_decided (c : Cfg) (s : NodeState) (r : Nat) : (enterPropose c s r).decided = s.decided := by
  unfold enterPropose; (try simp only []); repeat' split
  all_goals simp
@[local simp] theorem enterNewRound_decided (c : Cfg) (s : NodeState) (r : Nat) : (enterNewRound c s r).decided = s.decided := by
  unfold enterNewRound; (try simp only []); repeat' split
  all_goals simp
@[local simp] theorem enterPrevoteWait_decided (c : Cfg) (s : NodeState) (r : Nat) : (enterPrevoteWait c s r).decided = s.decided := by
  unfold enterPrevoteWait; (try simp only []); repeat' split
  all_goals simp
@[local simp] theorem enterPrecommit_decided (c : Cfg) (s : NodeState) (r : Nat) : (enterPrecommit c s r).decided = s.decided := by
  unfold enterPrecommit; (try simp only []); repeat' split
  all_goals simp
@[local simp] theorem enterPrecommitWait_decided (c : Cfg) (s : NodeState) (r : Nat) : (enterPrecommitWait c s r).decided = s.decided := by
  unfold enterPrecommitWait; (try simp only []); repeat' split
  all_goals simp
@[local simp] theorem setProposal_decided (c : Cfg) (s : NodeState) (p : Proposal) : (setProposal c s p).decided = s.decided := by
  unfold setProposal; (try simp only []); repeat' split
  all_goals simp
@[local simp] theorem onPolka_decided (s : NodeState) (vr : Nat) (bid : Bid) : (onPolka s vr bid).decided = s.decided := by
  unfold onPolka; (try simp only []); repeat' split
  all_goals simp
@[local simp] theorem prevoteTransitions_decided (c : Cfg) (s : NodeState) (vr : Nat) : (prevoteTransitions c s vr).decided = s.decided := by
  unfold prevoteTransitions; (try simp only []); repeat' split
  all_goals simp
@[local simp] theorem afterPrevote_decided (c : Cfg) (s : NodeState) (vr : Nat) : (afterPrevote c s vr).decided = s.decided := by
  unfold afterPrevote; (try simp only []); repeat' split
  all_goals simp
@[local simp] theorem handleTimeout_decided (c : Cfg) (s : NodeState) (r : Nat) (st : Step) : (handleTimeout c s r st).decided = s.decided := by
  unfold handleTimeout; (try simp only []); repeat' split
  all_goals simp
@[local simp] theorem handleTxsAvailable_decided (c : Cfg) (s : NodeState) : (handleTxsAvailable c s).decided = s.decided := by
  unfold handleTxsAvailable; (try simp only []); repeat' split
  all_goals simp

/-! ### a fresh decision records the commit round and its precommit majority -/

def PostD (t : NodeState) : Prop :=
  ∀ b r, t.decided = some (b, r) → t.commitRound = r ∧ maj23Of (t.votes.precommits r) = some (some b)

theorem PostD.of_none {t : NodeState} (h : t.decided = none) : PostD t := by
  intro b r e; rw [h] at e; cases e

syntax "dpost_step" : tactic
macro_rules | `(tactic| dpost_step) => `(tactic| (apply PostD.of_none; simp [*]; done))
macro "dpost" : tactic => `(tactic| first | dpost_step | (dsimp only; dpost_step))

theorem finalizeCommit_D {s : NodeState} (h : s.decided = none) : PostD (finalizeCommit c s) := by
  unfold finalizeCommit; (try simp only []); repeat' split
  all_goals first
    | (dpost; done)
    | skip
  rename_i b hm _ _ hv
  intro b' r' e
  simp only [emit_commitRound, emit_votes, Option.some.injEq, Prod.mk.injEq] at e ⊢
  obtain ⟨e1, e2⟩ := e
  subst e1; subst e2
  exact ⟨rfl, hm⟩
macro_rules | `(tactic| dpost_step) => `(tactic| (apply finalizeCommit_D; simp [*]; done))

theorem tryFinalizeCommit_D {s : NodeState} (h : s.decided = none) : PostD (tryFinalizeCommit c s) := by
  unfold tryFinalizeCommit; (try simp only []); repeat' split
  all_goals dpost
macro_rules | `(tactic| dpost_step) => `(tactic| (apply tryFinalizeCommit_D; simp [*]; done))

theorem enterCommit_D {s : NodeState} (r : Nat) (h : s.decided = none) : PostD (enterCommit c s r) := by
  unfold enterCommit; (try simp only []); repeat' split
  all_goals dpost
macro_rules | `(tactic| dpost_step) => `(tactic| (apply enterCommit_D; simp [*]; done))

theorem handleCompleteProposal_D {s : NodeState} (h : s.decided = none) : PostD (handleCompleteProposal c s) := by
  unfold handleCompleteProposal; (try simp only []); repeat' split
  all_goals dpost
macro_rules | `(tactic| dpost_step) => `(tactic| (apply handleCompleteProposal_D; simp [*]; done))

theorem addBlockPart_D {s : NodeState} (b : Nat) (h : s.decided = none) : PostD (addBlockPart c s b) := by
  unfold addBlockPart; (try simp only []); repeat' split
  all_goals dpost
macro_rules | `(tactic| dpost_step) => `(tactic| (apply addBlockPart_D; simp [*]; done))

theorem afterPrecommit_D {s : NodeState} (vr : Nat) (h : s.decided = none) : PostD (afterPrecommit c s vr) := by
  unfold afterPrecommit; (try simp only []); repeat' split
  all_goals dpost
macro_rules | `(tactic| dpost_step) => `(tactic| (apply afterPrecommit_D; simp [*]; done))

theorem addVote_D {s : NodeState} (v : Vote) (peer : Peer) (h : s.decided = none) : PostD (addVote c s v peer) := by
  unfold addVote; (try simp only []); repeat' split
  all_goals dpost
macro_rules | `(tactic| dpost_step) => `(tactic| (apply addVote_D; simp [*]; done))

theorem handleInternal_D {s : NodeState} (m : Internal) (h : s.decided = none) : PostD (handleInternal c s m) := by
  unfold handleInternal
  cases m with
  | proposal p => exact PostD.of_none (by simp [h])
  | part b => exact addBlockPart_D b h
  | vote v => exact addVote_D v 0 h

theorem handleInput_D {s : NodeState} (i : Input) (h : s.decided = none) : PostD (handleInput c s i) := by
  unfold handleInput
  cases i with
  | timeout r st => exact PostD.of_none (by simp [h])
  | peerMaj23 r t peer bid => exact PostD.of_none h
  | proposal p => exact PostD.of_none (by simp [h])
  | blockComplete b => exact addBlockPart_D b h
  | vote v peer => exact addVote_D v peer h
  | txsAvailable => exact PostD.of_none (by simp [h])

theorem handleOwn_D {s : NodeState} (k : Nat) (h : s.decided = none) : PostD (handleOwn c s k) := by
  unfold handleOwn
  split
  · rename_i m _
    have h' : ({ s with queue := s.queue.eraseIdx k } : NodeState).decided = none := h
    exact handleInternal_D m h'
  · exact PostD.of_none h

/-! ### the node invariant -/

def Etrue : VType → Int → Bid → Nat → Bool := fun _ _ _ _ => true

structure CI (c : Cfg) (s : NodeState) : Prop where
  w : W c Etrue s
  cs : CSh s.votes
  d : PostD s

theorem CI.init (c : Cfg) : CI c NodeState.init :=
  ⟨W.init c Etrue, CSh.init, PostD.of_none rfl⟩

theorem handleOwn_W {s : NodeState} (k : Nat) (h : W c Etrue s) : W c Etrue (handleOwn c s k) := by
  unfold handleOwn
  cases s.queue[k]? with
  | none => exact h
  | some m =>
    have h' : W c Etrue ({ s with queue := s.queue.eraseIdx k } : NodeState) := h
    exact handleInternal_W m (by intros; rfl) h'

theorem stepItem_CI {s : NodeState} (it : Item) (h : CI c s) : CI c (stepItem c s it) := by
  unfold stepItem
  split
  · exact h
  · rename_i hn
    have hd : s.decided = none := by
      cases hd : s.decided with
      | none => rfl
      | some x => exfalso; apply hn; right; simp [hd]
    cases it with
    | ext i =>
      exact ⟨handleInput_W i (by intros; rfl) h.w, handleInput_CS i h.cs, handleInput_D i hd⟩
    | own k =>
      exact ⟨handleOwn_W k h.w, handleOwn_CS k h.cs, handleOwn_D k hd⟩

/-- states a node can be in: any sequence of items from the initial state -/
inductive NodeReach (c : Cfg) : NodeState → Prop
  | init : NodeReach c NodeState.init
  | item {s : NodeState} (it : Item) : NodeReach c s → NodeReach c (stepItem c s it)

theorem NodeReach.ci {s : NodeState} (hr : NodeReach c s) : CI c s := by
  induction hr with
  | init => exact CI.init c
  | item it _ ih => exact stepItem_CI it ih

/-! ### the tally -/

theorem getD_map_range (f : Nat → Nat) (n i d : Nat) (h : i < n) : ((List.range n).map f).getD i d = f i := by
  simp [List.getD_eq_getElem?_getD, h]

theorem sum_flag_eq_wt (power : Nat → Nat) (f : Nat → Nat) (n : Nat) :
    ((List.range n).map fun i => if f i = 2 then power i else 0).sum
      = VoteLog.wtUpTo power (fun i => decide (f i = 2)) n := by
  induction n with
  | zero => simp [VoteLog.wtUpTo]
  | succ n ih =>
    rw [List.range_succ, List.map_append, List.sum_append, ih]
    simp [VoteLog.wtUpTo]

/-- the tally of `VerifyCommit` over the flags of `MakeCommit` is the weight of the "commit" flags -/
theorem commitPower_eq (c : Cfg) (vs : VoteSet) :
    commitPower c ((List.range c.n).map (commitFlag vs))
      = VoteLog.wtUpTo c.power (fun i => decide (commitFlag vs i = 2)) c.n := by
  unfold commitPower
  rw [← sum_flag_eq_wt]
  congr 1
  apply List.map_congr_left
  intro i hi
  rw [getD_map_range _ _ _ _ (List.mem_range.mp hi)]

/-- a member of the majority bucket is flagged "commit" -/
theorem commitFlag_member {vs : VoteSet} {b : Nat} {bv : BlockVotes} (hcs : CSv vs)
    (hmaj : vs.maj23 = some (some b)) (hl : alookup vs.byBlock (some b) = some bv) {i : Nat}
    (hi : i ∈ bv.voted) : commitFlag vs i = 2 := by
  have := hcs (some b) bv hmaj hl i hi
  unfold commitFlag
  rw [this]
  simp [hmaj]

/-- **the stored commit verifies**: more than two thirds of the power is flagged "commit" -/
theorem stored_commit_verifies (c : Cfg) (s : NodeState) (hr : NodeReach c s) (b : Nat) (r : Int)
    (hd : s.decided = some (b, r)) :
    ∃ flags, seenCommit c s = some flags ∧ commitVerifies c flags = true := by
  have hci := hr.ci
  obtain ⟨hcr, hm⟩ := hci.d b r hd
  obtain ⟨vs, hg, hmaj⟩ := maj23Of_some hm
  refine ⟨(List.range c.n).map (commitFlag vs), ?_, ?_⟩
  · unfold seenCommit; rw [hcr, hg]; rfl
  · have hg' : s.votes.getVoteSet r .precommit = some vs := hg
    have hq : c.quorum ≤ vs.blockSum (some b) := hci.w.q.getVoteSet hg' _ hmaj
    rw [quorum_iff] at hq
    have hms := hci.w.m.getVoteSet hg'
    have hcs := hci.cs.getVoteSet hg'
    unfold VoteSet.blockSum at hq
    cases hl : alookup vs.byBlock (some b) with
    | none => rw [hl] at hq; simp at hq
    | some bv =>
      rw [hl] at hq
      simp only [] at hq
      obtain ⟨h1, h2, h3⟩ := hms (some b) bv hl
      have hle := sum_le_wtUpTo c.power (fun i => decide (commitFlag vs i = 2)) c.n bv.voted h1 (by
        intro v hv
        exact ⟨(h3 v hv).1, by simp [commitFlag_member hcs hmaj hl hv]⟩)
      unfold commitVerifies
      rw [commitPower_eq]
      simp only [gt_iff_lt, decide_eq_true_eq]
      omega

end Tmv.Net
