import Tmv.Lemmas.Merkle
/-! Traced versions of the Merkle soundness lemmas: the exhibited collision is between two byte
strings that were *actually passed to `H`* while recomputing the path and while computing the real
root. (For a fixed-length `H` some collision exists by counting; a statement "claim ∨ a collision
exists" would then be classically trivial. "claim ∨ a collision among these explicitly listed,
polynomially many hashed inputs" is not: for the inputs of a run there is no counting argument.) -/
namespace Tmv.Merkle
variable (H : Bytes → Bytes)

/-- every byte string hashed while computing `rootF fuel items` -/
def rootPre : Nat → List Bytes → List Bytes
  | 0, _ => [[]]
  | fuel+1, items =>
    match items with
    | [] => [[]]
    | [x] => [0 :: x]
    | _ =>
      let k := splitPoint items.length
      (1 :: (rootF H fuel (items.take k) ++ rootF H fuel (items.drop k))) ::
        (rootPre fuel (items.take k) ++ rootPre fuel (items.drop k))

/-- every byte string hashed by `computeHashFromAunts` (inner nodes of the claimed path) -/
def pathPre : Nat → Nat → Nat → Bytes → List Bytes → List Bytes
  | 0, _, _, _, _ => []
  | fuel+1, index, total, lh, aunts =>
    if index ≥ total ∨ total = 0 then []
    else if total = 1 then []
    else
      match aunts.reverse with
      | [] => []
      | last :: restRev =>
        let rest := restRev.reverse
        let nl := splitPoint total
        if index < nl then
          match fromAunts H fuel index nl lh rest with
          | some l => (1 :: (l ++ last)) :: pathPre fuel index nl lh rest
          | none => pathPre fuel index nl lh rest
        else
          match fromAunts H fuel (index - nl) (total - nl) lh rest with
          | some r => (1 :: (last ++ r)) :: pathPre fuel (index - nl) (total - nl) lh rest
          | none => pathPre fuel (index - nl) (total - nl) lh rest

/-- a collision between a string hashed on the proof side (`as`) and one hashed on the tree side (`bs`) -/
def CollisionIn (as bs : List Bytes) : Prop :=
  ∃ a b, a ∈ as ∧ b ∈ bs ∧ a ≠ b ∧ H a = H b

theorem CollisionIn.mono {as bs as' bs' : List Bytes} (h : CollisionIn H as bs)
    (ha : ∀ x ∈ as, x ∈ as') (hb : ∀ x ∈ bs, x ∈ bs') : CollisionIn H as' bs' := by
  obtain ⟨a, b, h1, h2, h3, h4⟩ := h
  exact ⟨a, b, ha a h1, hb b h2, h3, h4⟩

theorem CollisionIn.toCollision {as bs : List Bytes} (h : CollisionIn H as bs) :
    Nonempty (Collision H) := by
  obtain ⟨a, b, _, _, h3, h4⟩ := h
  exact ⟨⟨a, b, h3, h4⟩⟩

/-- Position binding with a traced collision: the leaf preimage `0 :: leaf` together with the inner
preimages of the claimed path on one side, the preimages of the real tree on the other. -/
theorem fromAunts_position_traced (L : Nat) (hlen : ∀ x, (H x).length = L) :
    ∀ (fuel : Nat) (items : List Bytes) (idx : Nat) (leaf : Bytes) (aunts : List Bytes),
      items.length ≤ fuel → items ≠ [] →
      fromAunts H fuel idx items.length (leafHash H leaf) aunts = some (rootF H fuel items) →
      (∃ h : idx < items.length, leaf = items[idx]) ∨
        CollisionIn H ((0 :: leaf) :: pathPre H fuel idx items.length (leafHash H leaf) aunts)
          (rootPre H fuel items) := by
  intro fuel
  induction fuel with
  | zero =>
    intro items idx leaf aunts hle hne
    cases items with
    | nil => exact absurd rfl hne
    | cons a t => simp at hle
  | succ f ih =>
    intro items idx leaf aunts hle hne h
    have hl : (leafHash H leaf).length = L := by simp [leafHash, hlen]
    match items, hne with
    | [x], _ =>
      simp [fromAunts, rootF] at h
      obtain ⟨hi, _, hh⟩ := h
      by_cases hx : (0 :: leaf : Bytes) = 0 :: x
      · left; subst hi; exact ⟨by simp, by simpa using (List.cons.inj hx).2⟩
      · right; exact ⟨0 :: leaf, 0 :: x, by simp, by simp [rootPre], hx, hh⟩
    | a :: b :: c, _ =>
      have hlen2 : 2 ≤ (a :: b :: c).length := by simp
      obtain ⟨hk0, hk⟩ := splitPoint_lt hlen2
      generalize hitems : (a :: b :: c) = items at *
      have hroot : rootF H (f+1) items =
          innerHash H (rootF H f (items.take (splitPoint items.length)))
                      (rootF H f (items.drop (splitPoint items.length))) := by
        subst hitems; simp [rootF]
      have hpre : rootPre H (f+1) items =
          (1 :: (rootF H f (items.take (splitPoint items.length)) ++ rootF H f (items.drop (splitPoint items.length)))) ::
            (rootPre H f (items.take (splitPoint items.length)) ++ rootPre H f (items.drop (splitPoint items.length))) := by
        subst hitems; simp [rootPre]
      rw [hroot] at h
      rw [hpre]
      unfold fromAunts at h
      unfold pathPre
      have hn1 : ¬ items.length = 1 := by omega
      split at h
      · simp at h
      · rename_i hnot
        simp only [hnot, if_false, hn1]
        simp only [hn1] at h
        split at h
        · cases h
        · rename_i last restRev hrev
          simp only [hrev]
          have hidx : idx < items.length := by
            rcases Nat.lt_or_ge idx items.length with h1 | h1
            · exact h1
            · exact absurd (Or.inl h1) hnot
          split at h
          · rename_i hlt
            simp only [hlt, if_true]
            simp [Option.map_eq_some_iff] at h
            obtain ⟨l, hl1, hl2⟩ := h
            simp only [hl1]
            have hll := fromAunts_len H L hlen _ _ _ _ _ _ hl hl1
            have hrl := rootF_len H L hlen f (items.take (splitPoint items.length))
            by_cases hc : (1 :: (l ++ last) : Bytes) =
                1 :: (rootF H f (items.take (splitPoint items.length)) ++ rootF H f (items.drop (splitPoint items.length)))
            · have hsplit := List.append_inj (List.cons.inj hc).2 (by omega)
              obtain ⟨e1, _⟩ := hsplit
              subst e1
              have htl : (items.take (splitPoint items.length)).length = splitPoint items.length := by
                simp; omega
              have := ih (items.take (splitPoint items.length)) idx leaf restRev.reverse
                (by rw [htl]; omega) (by intro hh; rw [hh] at htl; simp at htl; omega)
                (by rw [htl]; exact hl1)
              rcases this with ⟨hi, he⟩ | hcol
              · left; refine ⟨hidx, ?_⟩
                rw [he]; simp [List.getElem_take]
              · right
                rw [htl] at hcol
                refine hcol.mono H ?_ ?_
                · intro x hx
                  simp only [List.mem_cons] at hx ⊢
                  rcases hx with hx | hx
                  · exact Or.inl hx
                  · exact Or.inr (Or.inr hx)
                · intro x hx
                  simp only [List.mem_cons, List.mem_append]
                  exact Or.inr (Or.inl hx)
            · right
              exact ⟨_, _, by simp, by simp, hc, hl2⟩
          · rename_i hge
            simp only [hge, if_false]
            simp [Option.map_eq_some_iff] at h
            obtain ⟨r, hr1, hr2⟩ := h
            simp only [hr1]
            have hrl := fromAunts_len H L hlen _ _ _ _ _ _ hl hr1
            have hll := rootF_len H L hlen f (items.take (splitPoint items.length))
            have hdr := rootF_len H L hlen f (items.drop (splitPoint items.length))
            by_cases hc : (1 :: (last ++ r) : Bytes) =
                1 :: (rootF H f (items.take (splitPoint items.length)) ++ rootF H f (items.drop (splitPoint items.length)))
            · have h1 := (List.cons.inj hc).2
              have hlastlen : last.length = L := by
                have := congrArg List.length h1
                simp [hrl, hll, hdr] at this
                omega
              obtain ⟨_, e2⟩ := List.append_inj h1 (by omega)
              subst e2
              have hdl : (items.drop (splitPoint items.length)).length = items.length - splitPoint items.length := by
                simp
              have := ih (items.drop (splitPoint items.length)) (idx - splitPoint items.length) leaf restRev.reverse
                (by rw [hdl]; omega) (by intro hh; rw [hh] at hdl; simp at hdl; omega)
                (by rw [hdl]; exact hr1)
              rcases this with ⟨hi, he⟩ | hcol
              · left; refine ⟨hidx, ?_⟩
                rw [he]; simp [List.getElem_drop]
                have : splitPoint items.length + (idx - splitPoint items.length) = idx := by omega
                simp [this]
              · right
                rw [hdl] at hcol
                refine hcol.mono H ?_ ?_
                · intro x hx
                  simp only [List.mem_cons] at hx ⊢
                  rcases hx with hx | hx
                  · exact Or.inl hx
                  · exact Or.inr (Or.inr hx)
                · intro x hx
                  simp only [List.mem_cons, List.mem_append]
                  exact Or.inr (Or.inr hx)
            · right
              exact ⟨_, _, by simp, by simp, hc, hr2⟩

end Tmv.Merkle

namespace Tmv.Merkle
variable (H : Bytes → Bytes)

theorem mem_rootPre_take {f : Nat} {items : List Bytes} (h2 : 2 ≤ items.length) {x : Bytes}
    (hx : x ∈ rootPre H f (items.take (splitPoint items.length))) : x ∈ rootPre H (f+1) items := by
  match items, h2 with
  | a :: b :: c, _ =>
    simp only [rootPre, List.mem_cons, List.mem_append]
    exact Or.inr (Or.inl hx)

theorem mem_rootPre_drop {f : Nat} {items : List Bytes} (h2 : 2 ≤ items.length) {x : Bytes}
    (hx : x ∈ rootPre H f (items.drop (splitPoint items.length))) : x ∈ rootPre H (f+1) items := by
  match items, h2 with
  | a :: b :: c, _ =>
    simp only [rootPre, List.mem_cons, List.mem_append]
    exact Or.inr (Or.inr hx)

theorem head_mem_rootPre {f : Nat} {items : List Bytes} (h2 : 2 ≤ items.length) :
    (1 :: (rootF H f (items.take (splitPoint items.length)) ++ rootF H f (items.drop (splitPoint items.length))))
      ∈ rootPre H (f+1) items := by
  match items, h2 with
  | a :: b :: c, _ => simp [rootPre]

/-- every byte string hashed by `computeHashFromAunts` on ANY claimed shape (same as `pathPre`;
stated separately for the inclusion theorem, whose claimed (index,total) is arbitrary) -/
theorem fromAunts_inclusion_traced (L : Nat) (hlen : ∀ x, (H x).length = L) :
    ∀ (fuel : Nat) (items : List Bytes), items.length ≤ fuel → items ≠ [] →
    ∀ (fuel' idx total : Nat) (leaf : Bytes) (aunts : List Bytes),
      fromAunts H fuel' idx total (leafHash H leaf) aunts = some (rootF H fuel items) →
      leaf ∈ items ∨
        CollisionIn H ((0 :: leaf) :: pathPre H fuel' idx total (leafHash H leaf) aunts)
          (rootPre H fuel items) := by
  intro fuel
  induction fuel with
  | zero =>
    intro items hle hne
    cases items with
    | nil => exact absurd rfl hne
    | cons a t => simp at hle
  | succ f ih =>
    intro items hle hne fuel' idx total leaf aunts h
    have hl : (leafHash H leaf).length = L := by simp [leafHash, hlen]
    cases fuel' with
    | zero => simp [fromAunts] at h
    | succ g =>
    match items, hne with
    | [x], _ =>
      simp only [rootF] at h
      unfold fromAunts at h
      unfold pathPre
      split at h; · cases h
      rename_i hnot
      simp only [hnot, if_false]
      split at h
      · rename_i ht1
        simp only [ht1, if_true]
        split at h
        · simp at h
          by_cases hx : (0 :: leaf : Bytes) = 0 :: x
          · left; simp [(List.cons.inj hx).2]
          · right; exact ⟨0 :: leaf, 0 :: x, by simp, by simp [rootPre], hx, h⟩
        · cases h
      · rename_i ht1
        simp only [ht1, if_false]
        split at h; · cases h
        rename_i last restRev hrev
        simp only [hrev]
        simp only at h
        split at h
        · rename_i hlt
          simp only [hlt, if_true]
          simp [Option.map_eq_some_iff] at h
          obtain ⟨l, hl1, hl2⟩ := h
          simp only [hl1]
          right
          refine ⟨1 :: (l ++ last), 0 :: x, by simp, by simp [rootPre], ?_, hl2⟩
          intro hc; exact absurd (List.cons.inj hc).1 (by decide)
        · rename_i hge
          simp only [hge, if_false]
          simp [Option.map_eq_some_iff] at h
          obtain ⟨r, hr1, hr2⟩ := h
          simp only [hr1]
          right
          refine ⟨1 :: (last ++ r), 0 :: x, by simp, by simp [rootPre], ?_, hr2⟩
          intro hc; exact absurd (List.cons.inj hc).1 (by decide)
    | a :: b :: c, _ =>
      have hlen2 : 2 ≤ (a :: b :: c).length := by simp
      obtain ⟨hk0, hk⟩ := splitPoint_lt hlen2
      generalize hitems : (a :: b :: c) = items at *
      have hroot : rootF H (f+1) items =
          innerHash H (rootF H f (items.take (splitPoint items.length)))
                      (rootF H f (items.drop (splitPoint items.length))) := by
        subst hitems; simp [rootF]
      rw [hroot] at h
      have htl : (items.take (splitPoint items.length)).length = splitPoint items.length := by
        simp; omega
      have hdl : (items.drop (splitPoint items.length)).length = items.length - splitPoint items.length := by
        simp
      have hll := rootF_len H L hlen f (items.take (splitPoint items.length))
      have hdr := rootF_len H L hlen f (items.drop (splitPoint items.length))
      have hhead := head_mem_rootPre H (f := f) hlen2
      unfold fromAunts at h
      unfold pathPre
      split at h; · cases h
      rename_i hnot
      simp only [hnot, if_false]
      split at h
      · rename_i ht1
        simp only [ht1, if_true]
        split at h
        · simp at h
          right
          refine ⟨0 :: leaf, _, by simp, hhead, ?_, h⟩
          intro hc; exact absurd (List.cons.inj hc).1 (by decide)
        · cases h
      · rename_i ht1
        simp only [ht1, if_false]
        split at h; · cases h
        rename_i last restRev hrev
        simp only [hrev]
        simp only at h
        split at h
        · rename_i hlt
          simp only [hlt, if_true]
          simp [Option.map_eq_some_iff] at h
          obtain ⟨l, hl1, hl2⟩ := h
          simp only [hl1]
          have hl' := fromAunts_len H L hlen _ _ _ _ _ _ hl hl1
          by_cases hc : (1 :: (l ++ last) : Bytes) =
              1 :: (rootF H f (items.take (splitPoint items.length)) ++ rootF H f (items.drop (splitPoint items.length)))
          · obtain ⟨e1, _⟩ := List.append_inj (List.cons.inj hc).2 (by omega)
            subst e1
            rcases ih (items.take (splitPoint items.length)) (by rw [htl]; omega)
                (by intro hh; rw [hh] at htl; simp at htl; omega) _ _ _ leaf _ hl1 with hm | hcol
            · left; exact List.mem_of_mem_take hm
            · right
              refine hcol.mono H ?_ ?_
              · intro x hx
                simp only [List.mem_cons] at hx ⊢
                rcases hx with hx | hx
                · exact Or.inl hx
                · exact Or.inr (Or.inr hx)
              · intro x hx; exact mem_rootPre_take H hlen2 hx
          · right; exact ⟨_, _, by simp, hhead, hc, hl2⟩
        · rename_i hge
          simp only [hge, if_false]
          simp [Option.map_eq_some_iff] at h
          obtain ⟨r, hr1, hr2⟩ := h
          simp only [hr1]
          have hrl := fromAunts_len H L hlen _ _ _ _ _ _ hl hr1
          by_cases hc : (1 :: (last ++ r) : Bytes) =
              1 :: (rootF H f (items.take (splitPoint items.length)) ++ rootF H f (items.drop (splitPoint items.length)))
          · have h1 := (List.cons.inj hc).2
            have hlastlen : last.length = L := by
              have := congrArg List.length h1
              simp [hrl, hll, hdr] at this
              omega
            obtain ⟨_, e2⟩ := List.append_inj h1 (by omega)
            subst e2
            rcases ih (items.drop (splitPoint items.length)) (by rw [hdl]; omega)
                (by intro hh; rw [hh] at hdl; simp at hdl; omega) _ _ _ leaf _ hr1 with hm | hcol
            · left; exact List.mem_of_mem_drop hm
            · right
              refine hcol.mono H ?_ ?_
              · intro x hx
                simp only [List.mem_cons] at hx ⊢
                rcases hx with hx | hx
                · exact Or.inl hx
                · exact Or.inr (Or.inr hx)
              · intro x hx; exact mem_rootPre_drop H hlen2 hx
          · right; exact ⟨_, _, by simp, hhead, hc, hr2⟩

end Tmv.Merkle
