import Tmv.Lemmas.ConsVotes
/-! Every block precommit the node signs is backed by a recorded +2/3 prevote majority for that block
in the vote's round — for every input list in which no timeout names a round the node has not reached
(the ticker only fires what the node scheduled for rounds it was in). -/
namespace Tmv.Cons

/-- the fields the signing/emitting primitives never touch -/
def Core (s : NodeState) :=
  (s.round, s.step, s.lockedRound, s.lockedBlock, s.validRound, s.validBlock, s.proposal, s.proposalBlock,
   s.proposalParts, s.partsDone, s.commitRound, s.triggered, s.votes, s.valRound, s.decided)

theorem emit_core (s : NodeState) (o : Output) : Core (emit s o) = Core s := by
  unfold emit; split <;> rfl
theorem panicWith_core (s : NodeState) (w : String) : Core (panicWith s w) = Core s := by
  unfold panicWith; split <;> rfl
theorem sign_core {c : Cfg} {s s' : NodeState} {r cd : Nat} {p : Payload} (h : sign c s r cd p = some s') :
    Core s' = Core s := by
  unfold sign at h
  repeat' split at h
  all_goals first | (cases h; rfl) | simp at h
theorem signAddVote_core (c : Cfg) (s : NodeState) (t : VType) (b : Bid) : Core (signAddVote c s t b) = Core s := by
  unfold signAddVote
  repeat' split
  all_goals first | rfl | skip
  rename_i s' hs
  show Core (emit s' _) = _
  rw [emit_core, sign_core hs]
theorem decideProposal_core (c : Cfg) (s : NodeState) (r me : Nat) : Core (decideProposal c s r me) = Core s := by
  unfold decideProposal
  simp only []
  split
  · rename_i s' hs
    show Core (emit s' _) = _
    rw [emit_core, sign_core hs]
  · rfl
theorem doPrevote_core (c : Cfg) (s : NodeState) : Core (doPrevote c s) = Core s := by
  unfold doPrevote
  repeat' split
  all_goals exact signAddVote_core ..

theorem core_round {s t : NodeState} (h : Core s = Core t) : s.round = t.round := congrArg (·.1) h
theorem core_votes {s t : NodeState} (h : Core s = Core t) : s.votes = t.votes := by
  have := congrArg (fun x => x.2.2.2.2.2.2.2.2.2.2.2.2.1) h; exact this

/-- the output is not a precommit for a block -/
def notBlockPrecommit : Output → Prop
  | .signVote .precommit _ (some _) => False
  | _ => True

/-- invariant: block precommits in `out` are backed by the recorded majority of their round -/
def JI (out : List Output) (votes : HVS) : Prop :=
  ∀ r b, Output.signVote .precommit r (some b) ∈ out → maj23Of (votes.prevotes (r : Int)) = some (some b)

theorem JI.stable {out : List Output} {v v' : HVS} (h : JI out v) (hs : Stable v v') : JI out v' :=
  fun r b hm => hs _ _ (h r b hm)

theorem JI.push {out : List Output} {v : HVS} (h : JI out v) (o : Output)
    (ho : ∀ r b, o = .signVote .precommit r (some b) → maj23Of (v.prevotes (r : Int)) = some (some b)) :
    JI (out ++ [o]) v := by
  intro r b hm
  rcases List.mem_append.1 hm with h1 | h1
  · exact h r b h1
  · simp at h1; exact ho r b h1.symm

attribute [local irreducible] emit panicWith sign signAddVote decideProposal doPrevote enterPrevote enterPropose
  enterNewRound newRoundReset enterPrevoteWait unlock enterPrecommit enterPrecommitWait finalizeCommit tryFinalizeCommit
  enterCommit setProposal handleCompleteProposal addBlockPart addVote onPolka prevoteTransitions afterPrevote
  afterPrecommit handleInternal handleTimeout
  handleTxsAvailable handleInput drain step run HVS.addVote HVS.setRound HVS.setPeerMaj23 HVS.polRound
  isProposalComplete maj23Of hasAnyOf hashesTo hasHeader

syntax "jinv_step" : tactic
macro_rules | `(tactic| jinv_step) => `(tactic| assumption)
macro_rules | `(tactic| jinv_step) => `(tactic| exact True.intro)
macro "jinv" : tactic => `(tactic| repeat' (first | jinv_step | (dsimp only; jinv_step)))

variable {c : Cfg}

theorem emit_J {s : NodeState} (o : Output) (ho : notBlockPrecommit o) (h : JI s.out s.votes) :
    JI (emit s o).out (emit s o).votes := by
  rw [core_votes (emit_core s o)]
  unfold emit; split
  · exact h
  · apply h.push
    intro r b e; subst e; exact ho.elim
macro_rules | `(tactic| jinv_step) => `(tactic| apply emit_J)

theorem panicWith_J {s : NodeState} (w : String) (h : JI s.out s.votes) :
    JI (panicWith s w).out (panicWith s w).votes := by
  rw [core_votes (panicWith_core s w)]
  unfold panicWith; split
  · exact h
  · apply h.push
    intro r b e; cases e
macro_rules | `(tactic| jinv_step) => `(tactic| apply panicWith_J)

theorem sign_out {s s' : NodeState} {r cd : Nat} {p : Payload} (h : sign c s r cd p = some s') :
    s'.out = s.out ∧ s'.halted = s.halted := by
  unfold sign at h
  repeat' split at h
  all_goals first | (cases h; exact ⟨rfl, rfl⟩) | simp at h

/-- signing a vote keeps the invariant when a block precommit is backed by the current round's majority -/
theorem signAddVote_J {s : NodeState} (t : VType) (bid : Bid)
    (hb : t = .precommit → ∀ b, bid = some b → maj23Of (s.votes.prevotes (s.round : Int)) = some (some b))
    (h : JI s.out s.votes) :
    JI (signAddVote c s t bid).out (signAddVote c s t bid).votes := by
  rw [core_votes (signAddVote_core c s t bid)]
  unfold signAddVote
  repeat' split
  all_goals first | exact h | skip
  rename_i s' hs
  show JI (emit s' _).out _
  have ho := sign_out hs
  unfold emit; split
  · rw [ho.1]; exact h
  · show JI (s'.out ++ _) _
    rw [ho.1]
    apply h.push
    intro r b e
    cases e
    exact hb rfl b rfl

theorem signAddVote_prevote_J {s : NodeState} (bid : Bid) (h : JI s.out s.votes) :
    JI (signAddVote c s .prevote bid).out (signAddVote c s .prevote bid).votes :=
  signAddVote_J _ _ (fun e => by cases e) h
macro_rules | `(tactic| jinv_step) => `(tactic| apply signAddVote_prevote_J)

theorem signAddVote_nil_J {s : NodeState} (t : VType) (h : JI s.out s.votes) :
    JI (signAddVote c s t none).out (signAddVote c s t none).votes :=
  signAddVote_J _ _ (fun _ b e => by cases e) h
macro_rules | `(tactic| jinv_step) => `(tactic| apply signAddVote_nil_J)

theorem decideProposal_J {s : NodeState} (round me : Nat) (h : JI s.out s.votes) :
    JI (decideProposal c s round me).out (decideProposal c s round me).votes := by
  rw [core_votes (decideProposal_core c s round me)]
  unfold decideProposal
  simp only []
  split
  · rename_i s' hs
    show JI (emit s' _).out _
    have ho := sign_out hs
    unfold emit; split
    · rw [ho.1]; exact h
    · show JI (s'.out ++ _) _
      rw [ho.1]
      apply h.push
      intro r b e; cases e
  · exact h
macro_rules | `(tactic| jinv_step) => `(tactic| apply decideProposal_J)

theorem doPrevote_J {s : NodeState} (h : JI s.out s.votes) :
    JI (doPrevote c s).out (doPrevote c s).votes := by
  unfold doPrevote; repeat' split
  all_goals jinv
macro_rules | `(tactic| jinv_step) => `(tactic| apply doPrevote_J)

theorem enterPrevote_J {s : NodeState} (r : Nat) (h : JI s.out s.votes) :
    JI (enterPrevote c s r).out (enterPrevote c s r).votes := by
  unfold enterPrevote; (try simp only []); repeat' split
  all_goals jinv
macro_rules | `(tactic| jinv_step) => `(tactic| apply enterPrevote_J)

theorem enterPropose_J {s : NodeState} (r : Nat) (h : JI s.out s.votes) :
    JI (enterPropose c s r).out (enterPropose c s r).votes := by
  unfold enterPropose; (try simp only []); repeat' split
  all_goals jinv
macro_rules | `(tactic| jinv_step) => `(tactic| apply enterPropose_J)

theorem newRoundReset_fields (s : NodeState) (r : Nat) :
    (newRoundReset s r).out = s.out ∧ (newRoundReset s r).votes = s.votes ∧ (newRoundReset s r).round = r ∧
    (newRoundReset s r).lockedRound = s.lockedRound ∧ (newRoundReset s r).lockedBlock = s.lockedBlock ∧
    (newRoundReset s r).halted = s.halted ∧ (newRoundReset s r).step = .newRound := by
  unfold newRoundReset; simp only []; split <;> simp

theorem enterNewRound_J {s : NodeState} (r : Nat) (h : JI s.out s.votes) :
    JI (enterNewRound c s r).out (enterNewRound c s r).votes := by
  unfold enterNewRound
  split
  · exact h
  · split
    · exact h
    · simp only []
      have hf := newRoundReset_fields s r
      have h' : JI (newRoundReset s r).out (newRoundReset s r).votes := by rw [hf.1, hf.2.1]; exact h
      split
      · jinv
      · rename_i hv hsr
        have h2 := h'.stable (HVS.setRound_stable _ _ _ hsr)
        repeat' split
        all_goals jinv
macro_rules | `(tactic| jinv_step) => `(tactic| apply enterNewRound_J)


/-! round bookkeeping of the propose/prevote entry functions -/

theorem enterPrevote_round_ge (s : NodeState) (r : Nat) : s.round ≤ (enterPrevote c s r).round := by
  unfold enterPrevote; repeat' split
  all_goals first | exact Nat.le_refl _ | (dsimp only; omega)

theorem enterPrevote_halted (s : NodeState) (r : Nat) (h : s.halted = true) : (enterPrevote c s r) = s := by
  unfold enterPrevote; simp [h]

theorem enterPropose_round_ge (s : NodeState) (r : Nat) : s.round ≤ (enterPropose c s r).round := by
  unfold enterPropose; simp only []; repeat' split
  all_goals first | exact Nat.le_refl _ | (dsimp only; omega) |
    (refine Nat.le_trans ?_ (enterPrevote_round_ge _ _); dsimp only; omega)

/-- after `enterNewRound c s r` the node is in a round `≥ r` (or halted) -/
theorem enterNewRound_reach (s : NodeState) (r : Nat) :
    (enterNewRound c s r).halted = true ∨ r ≤ (enterNewRound c s r).round := by
  unfold enterNewRound
  split
  · left; assumption
  · split
    · right; omega
    · simp only []
      have hf := newRoundReset_fields s r
      split
      · left
        unfold panicWith; split
        · assumption
        · rfl
      · right
        repeat' split
        all_goals first
          | (rw [core_round (emit_core _ _)]; dsimp only; omega)
          | (dsimp only; omega)
          | (refine Nat.le_trans ?_ (enterPropose_round_ge _ _); dsimp only; omega)

macro_rules | `(tactic| jinv_step) => `(tactic| exact Or.inr (Nat.le_refl _))
macro_rules | `(tactic| jinv_step) => `(tactic| (right; omega))

theorem enterPrevoteWait_J {s : NodeState} (r : Nat) (h : JI s.out s.votes) :
    JI (enterPrevoteWait c s r).out (enterPrevoteWait c s r).votes := by
  unfold enterPrevoteWait; (try simp only []); repeat' split
  all_goals jinv
macro_rules | `(tactic| jinv_step) => `(tactic| apply enterPrevoteWait_J)

theorem enterPrecommit_J {s : NodeState} (round : Nat) (hle : s.halted = true ∨ round ≤ s.round)
    (h : JI s.out s.votes) :
    JI (enterPrecommit c s round).out (enterPrecommit c s round).votes := by
  unfold enterPrecommit
  split
  · exact h
  · rename_i hh
    split
    · exact h
    · rename_i hg
      have hr : round = s.round := by
        rcases hle with hle | hle
        · exact absurd hle hh
        · omega
      subst hr
      simp only []
      split
      · jinv
      · rename_i bid hm
        split
        · jinv
        · split
          · unfold unlock; repeat' split
            all_goals jinv
          · rename_i b
            repeat' split
            all_goals first
              | (jinv; done)
              | (dsimp only; apply signAddVote_J _ _ _ (by assumption)
                 intro _ b' e; cases e; dsimp only; exact hm)
              | (unfold unlock; jinv)
macro_rules | `(tactic| jinv_step) => `(tactic| apply enterPrecommit_J)

theorem enterPrecommitWait_J {s : NodeState} (r : Nat) (h : JI s.out s.votes) :
    JI (enterPrecommitWait c s r).out (enterPrecommitWait c s r).votes := by
  unfold enterPrecommitWait; (try simp only []); repeat' split
  all_goals jinv
macro_rules | `(tactic| jinv_step) => `(tactic| apply enterPrecommitWait_J)

theorem finalizeCommit_J {s : NodeState} (h : JI s.out s.votes) :
    JI (finalizeCommit c s).out (finalizeCommit c s).votes := by
  unfold finalizeCommit; (try simp only []); repeat' split
  all_goals jinv
macro_rules | `(tactic| jinv_step) => `(tactic| apply finalizeCommit_J)

theorem tryFinalizeCommit_J {s : NodeState} (h : JI s.out s.votes) :
    JI (tryFinalizeCommit c s).out (tryFinalizeCommit c s).votes := by
  unfold tryFinalizeCommit; (try simp only []); repeat' split
  all_goals jinv
macro_rules | `(tactic| jinv_step) => `(tactic| apply tryFinalizeCommit_J)

theorem enterCommit_J {s : NodeState} (r : Nat) (h : JI s.out s.votes) :
    JI (enterCommit c s r).out (enterCommit c s r).votes := by
  unfold enterCommit; (try simp only []); repeat' split
  all_goals jinv
macro_rules | `(tactic| jinv_step) => `(tactic| apply enterCommit_J)

theorem setProposal_J {s : NodeState} (p : Proposal) (h : JI s.out s.votes) :
    JI (setProposal c s p).out (setProposal c s p).votes := by
  unfold setProposal; (try simp only []); repeat' split
  all_goals jinv
macro_rules | `(tactic| jinv_step) => `(tactic| apply setProposal_J)

theorem handleCompleteProposal_J {s : NodeState} (h : JI s.out s.votes) :
    JI (handleCompleteProposal c s).out (handleCompleteProposal c s).votes := by
  unfold handleCompleteProposal; (try simp only []); repeat' split
  all_goals jinv
macro_rules | `(tactic| jinv_step) => `(tactic| apply handleCompleteProposal_J)

theorem addBlockPart_J {s : NodeState} (b : Nat) (h : JI s.out s.votes) :
    JI (addBlockPart c s b).out (addBlockPart c s b).votes := by
  unfold addBlockPart; (try simp only []); repeat' split
  all_goals jinv
macro_rules | `(tactic| jinv_step) => `(tactic| apply addBlockPart_J)

theorem unlock_J {s : NodeState} (h : JI s.out s.votes) :
    JI (unlock s).out (unlock s).votes := by
  unfold unlock; (try simp only []); repeat' split
  all_goals jinv
macro_rules | `(tactic| jinv_step) => `(tactic| apply unlock_J)

theorem onPolka_J {s : NodeState} (vr : Nat) (bid : Bid) (h : JI s.out s.votes) :
    JI (onPolka s vr bid).out (onPolka s vr bid).votes := by
  unfold onPolka; (try simp only []); repeat' split
  all_goals jinv
macro_rules | `(tactic| jinv_step) => `(tactic| apply onPolka_J)

theorem prevoteTransitions_J {s : NodeState} (vr : Nat) (h : JI s.out s.votes) :
    JI (prevoteTransitions c s vr).out (prevoteTransitions c s vr).votes := by
  unfold prevoteTransitions; (try simp only []); repeat' split
  all_goals jinv
macro_rules | `(tactic| jinv_step) => `(tactic| apply prevoteTransitions_J)

theorem afterPrevote_J {s : NodeState} (vr : Nat) (h : JI s.out s.votes) :
    JI (afterPrevote c s vr).out (afterPrevote c s vr).votes := by
  unfold afterPrevote; (try simp only []); repeat' split
  all_goals jinv
macro_rules | `(tactic| jinv_step) => `(tactic| apply afterPrevote_J)

theorem afterPrecommit_J {s : NodeState} (vr : Nat) (h : JI s.out s.votes) :
    JI (afterPrecommit c s vr).out (afterPrecommit c s vr).votes := by
  unfold afterPrecommit; simp only []; repeat' split
  all_goals first
    | (jinv; done)
    | (apply enterCommit_J; apply enterPrecommit_J _ (enterNewRound_reach _ _); jinv)
    | (apply enterPrecommitWait_J; apply enterPrecommit_J _ (enterNewRound_reach _ _); jinv)
macro_rules | `(tactic| jinv_step) => `(tactic| apply afterPrecommit_J)

theorem addVote_J {s : NodeState} (v : Vote) (peer : Peer) (h : JI s.out s.votes) :
    JI (addVote c s v peer).out (addVote c s v peer).votes := by
  have h' : JI s.out (s.votes.addVote c v peer).1 := h.stable (HVS.addVote_stable c _ v peer)
  unfold addVote; simp only []; repeat' split
  all_goals jinv
macro_rules | `(tactic| jinv_step) => `(tactic| apply addVote_J)

theorem handleInternal_J {s : NodeState} (m : Internal) (h : JI s.out s.votes) :
    JI (handleInternal c s m).out (handleInternal c s m).votes := by
  unfold handleInternal; repeat' split
  all_goals jinv

theorem handleTimeout_J {s : NodeState} (r : Nat) (st : Step) (hr : r ≤ s.round) (h : JI s.out s.votes) :
    JI (handleTimeout c s r st).out (handleTimeout c s r st).votes := by
  unfold handleTimeout; repeat' split
  all_goals jinv

theorem handleTxsAvailable_J {s : NodeState} (h : JI s.out s.votes) :
    JI (handleTxsAvailable c s).out (handleTxsAvailable c s).votes := by
  unfold handleTxsAvailable; repeat' split
  all_goals jinv

/-- the timeout (if the input is one) is for a round the node has reached -/
def Input.notFuture (s : NodeState) : Input → Prop
  | .timeout r _ => r ≤ s.round
  | _ => True

theorem handleInput_J {s : NodeState} (i : Input) (hi : i.notFuture s) (h : JI s.out s.votes) :
    JI (handleInput c s i).out (handleInput c s i).votes := by
  unfold handleInput
  cases i with
  | timeout r st => exact handleTimeout_J r st hi h
  | peerMaj23 r t peer bid =>
    dsimp only
    exact h.stable (HVS.setPeerMaj23_stable _ _ _ _ _)
  | proposal p => exact setProposal_J p h
  | blockComplete b => exact addBlockPart_J b h
  | vote v peer => exact addVote_J v peer h
  | txsAvailable => exact handleTxsAvailable_J h

theorem drain_J (fuel : Nat) {s : NodeState} (h : JI s.out s.votes) :
    JI (drain c fuel s).out (drain c fuel s).votes := by
  induction fuel generalizing s with
  | zero => unfold drain; exact h
  | succ n ih =>
    unfold drain; repeat' split
    all_goals first | exact h | (apply ih; apply handleInternal_J; exact h)

theorem step_J {s : NodeState} (i : Input) (hi : i.notFuture s) (h : JI s.out s.votes) :
    JI (step c s i).out (step c s i).votes := by
  unfold step; split
  · exact h
  · exact drain_J _ (handleInput_J i hi h)

/-- no timeout in the list names a round the node has not reached when it is delivered -/
def NoFutureTimeout (c : Cfg) : NodeState → List Input → Prop
  | _, [] => True
  | s, i :: is => i.notFuture s ∧ NoFutureTimeout c (step c s i) is

theorem run_J (is : List Input) {s : NodeState} (hnf : NoFutureTimeout c s is) (h : JI s.out s.votes) :
    JI (run c s is).out (run c s is).votes := by
  induction is generalizing s with
  | nil => unfold run; exact h
  | cons i is ih =>
    have := ih hnf.2 (step_J i hnf.1 h)
    unfold run at this ⊢
    simpa [List.foldl] using this

end Tmv.Cons
