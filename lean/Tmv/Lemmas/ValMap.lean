import Tmv.Lemmas.ValSetWF
/-! What the set IS after a successful batch: as a map address → power it is the old map updated
by the batch (entries with power 0 delete). -/
namespace Tmv.ValSet

/-- the set as a map address → power -/
def powerMap (l : List Val) (a : Nat) : Option Int := (findAddr l a).map (·.power)

/-- the map-based specification of applying a batch (unique addresses) -/
def applyBatchMap (old : Nat → Option Int) (batch : List Val) (a : Nat) : Option Int :=
  match findAddr batch a with
  | some e => if e.power = 0 then none else some e.power
  | none => old a

theorem findAddr_of_mem_nodup (l : List Val) (hnd : (l.map (·.addr)).Nodup) (x : Val) (hx : x ∈ l) :
    findAddr l x.addr = some x := by
  cases hf : findAddr l x.addr with
  | none => exact absurd rfl (findAddr_none hf x hx)
  | some w =>
    obtain ⟨hw, hwa⟩ := findAddr_some hf
    rw [nodup_map_inj l hnd w x hw hx hwa]

theorem findAddr_eq_none_of {l : List Val} {a : Nat} (h : ∀ x ∈ l, x.addr ≠ a) : findAddr l a = none := by
  unfold findAddr
  apply List.find?_eq_none.mpr
  intro x hx; simpa using h x hx

theorem powerMap_sameAP {l1 l2 : List Val} (h : SameAP l1 l2) (a : Nat) : powerMap l1 a = powerMap l2 a := by
  induction l1 generalizing l2 with
  | nil =>
    cases l2 with
    | nil => rfl
    | cons y t => simp [SameAP] at h
  | cons x r ih =>
    cases l2 with
    | nil => simp [SameAP] at h
    | cons y t =>
      simp only [SameAP, List.map_cons, List.cons.injEq, Prod.mk.injEq] at h
      obtain ⟨⟨ha, hp⟩, hrest⟩ := h
      unfold powerMap findAddr
      simp only [List.find?_cons, ha]
      by_cases hy : y.addr = a
      · simp [hy, hp]
      · simp only [hy, decide_false]
        exact ih hrest

theorem powerMap_perm {l1 l2 : List Val} (hp : l1.Perm l2) (hnd : (l1.map (·.addr)).Nodup) (a : Nat) :
    powerMap l1 a = powerMap l2 a := by
  have hnd2 : (l2.map (·.addr)).Nodup := (List.Perm.map _ hp).nodup_iff.mp hnd
  unfold powerMap
  cases hf : findAddr l1 a with
  | none =>
    have := findAddr_none hf
    rw [findAddr_eq_none_of (fun x hx => this x (hp.mem_iff.mpr hx))]
  | some x =>
    obtain ⟨hx, hxa⟩ := findAddr_some hf
    have := findAddr_of_mem_nodup l2 hnd2 x (hp.mem_iff.mp hx)
    rw [hxa] at this
    rw [this]

/-- **update_refines_map.** After a successful non-empty batch the set, read as a map
address → power, is the old map updated by the batch: an entry with positive power sets the power
of its address, an entry with power 0 deletes it, every other address keeps its power. -/
theorem update_refines_map (s s' : VSet) (c : List Val) (allow : Bool) (hpre : PreWF s.vals)
    (hc : c ≠ []) (h : updateWithChangeSet s c allow = (s', none)) (a : Nat) :
    powerMap s'.vals a = applyBatchMap (powerMap s.vals) c a := by
  unfold updateWithChangeSet at h
  simp only [hc, if_false] at h
  split at h
  · cases h
  · rename_i u d hproc
    unfold processChanges at hproc
    obtain ⟨_, hl, hus, hds, hup, hdz, hall⟩ := scanChanges_ok _ _ _ _
      (sortBy_pairwise leAddr leAddr_total leAddr_trans c) hproc
    have hperm := sortBy_perm leAddr c
    have hdisj : ∀ y ∈ u, ∀ z ∈ d, y.addr ≠ z.addr := by
      intro y hy z hz hyz
      have := nodup_map_inj _ hl.nodup y z (hus.subset hy) (hds.subset hz) hyz
      have h1 := (hup y hy).1
      have h2 := hdz z hz
      rw [this] at h1; omega
    obtain ⟨removed, tvp, v2, _, _, _, hvals, hv2s, _, _, _, hiff⟩ :=
      updateCore_decomp s s' u d allow hpre (List.Pairwise.sublist hus hl)
        (List.Pairwise.sublist hds hl) (fun v hv => (hup v hv).1) hdisj h
    have hcnp := computeNewPriorities_sameAP u s.vals tvp
    generalize computeNewPriorities u s.vals tvp = cnp at *
    -- the final list has the same map as v2
    have hfin : powerMap s'.vals a = powerMap v2 a := by
      rw [hvals]
      have hap : SameAP (shiftByAvg (rescale v2 (windowFactor * totalPower v2))) v2 :=
        (shiftByAvg_sameAP _).trans (rescale_sameAP _ _)
      rw [← powerMap_sameAP hap a]
      apply (powerMap_perm (sortBy_perm lePower _).symm ?_ a).symm
      rw [hap.addrs]; exact hv2s.nodup
    rw [hfin]
    have hcnd : (c.map (·.addr)).Nodup := (List.Perm.map _ hperm).nodup_iff.mp hl.nodup
    unfold applyBatchMap
    cases hf : findAddr c a with
    | some e =>
      obtain ⟨hec, hea⟩ := findAddr_some hf
      have hel : e ∈ sortBy leAddr c := hperm.mem_iff.mpr hec
      simp only
      rcases hall e hel with heu | hed
      · -- an update: the entry of cnp with the same address and power is in v2
        have hpos := (hup e heu).1
        have hne0 : ¬ e.power = 0 := by omega
        simp only [hne0, if_false]
        have hsym : SameAP u cnp := hcnp.symm
        obtain ⟨e', he', hea', hep'⟩ := hsym.mem e heu
        have hin : e' ∈ v2 := (hiff e').mpr ⟨Or.inl he', fun z hz hze => hdisj e heu z hz (by rw [hze, hea'])⟩
        unfold powerMap
        have := findAddr_of_mem_nodup v2 hv2s.nodup e' hin
        rw [hea', hea] at this
        rw [this]; simp [hep']
      · -- a deletion: no member of v2 has this address
        have h0 := hdz e hed
        simp only [h0, if_true]
        unfold powerMap
        rw [findAddr_eq_none_of (l := v2)]
        · rfl
        · intro x hx hxa
          exact ((hiff x).mp hx).2 e hed (by rw [hea, hxa])
    | none =>
      simp only
      have hnc : ∀ x ∈ c, x.addr ≠ a := findAddr_none hf
      have hnl : ∀ x ∈ sortBy leAddr c, x.addr ≠ a := fun x hx => hnc x (hperm.mem_iff.mp hx)
      have hnu : ∀ x ∈ u, x.addr ≠ a := fun x hx => hnl x (hus.subset hx)
      have hnd : ∀ x ∈ d, x.addr ≠ a := fun x hx => hnl x (hds.subset hx)
      have hncnp : ∀ x ∈ cnp, x.addr ≠ a := by
        intro x hx
        obtain ⟨y, hy, hya, _⟩ := hcnp.mem x hx
        rw [← hya]; exact hnu y hy
      unfold powerMap
      cases hs : findAddr s.vals a with
      | some y =>
        obtain ⟨hy, hya⟩ := findAddr_some hs
        have hin : y ∈ v2 := (hiff y).mpr ⟨Or.inr ⟨hy, fun w hw => by rw [hya]; exact hncnp w hw⟩,
          fun z hz => by rw [hya]; exact hnd z hz⟩
        have := findAddr_of_mem_nodup v2 hv2s.nodup y hin
        rw [hya] at this
        rw [this]
      | none =>
        rw [findAddr_eq_none_of (l := v2)]
        intro x hx
        rcases ((hiff x).mp hx).1 with h1 | ⟨h1, _⟩
        · exact hncnp x h1
        · exact findAddr_none hs x h1

end Tmv.ValSet
