import Tmv.Lemmas.VoteReachRun
/-! Universal invariants of the commit path of the node model (every run from `NodeState.init`,
every input list): the proposal block is always held together with its complete part set; a node in
the commit step never holds the committed block without having decided; a recorded +2/3 precommit
majority for a block means the node has been through `enterCommit`. Together with
`NoOrphanCommit` (state form) they give: **a node that is not an orphan, has recorded the precommit
quorum for `b` and holds `b`, has decided** — for every order of everything. -/
namespace Tmv.Cons

/-- the commit-path invariant -/
structure KI (c : Cfg) (s : NodeState) : Prop where
  /-- the proposal block is held with its complete part set -/
  pb : ∀ x, s.proposalBlock = some x → s.proposalParts = some x ∧ s.partsDone = true
  /-- in the commit step the precommits of the commit round have a recorded majority for a block -/
  cr : s.halted = false → s.step = .commit →
    0 ≤ s.commitRound ∧ ∃ b, maj23Of (s.votes.getVoteSet s.commitRound .precommit) = some (some b)
  /-- in the commit step, undecided and not halted, the committed block is not held -/
  ci : s.halted = false → s.step = .commit → s.decided = none →
    ∀ b, maj23Of (s.votes.getVoteSet s.commitRound .precommit) = some (some b) → s.proposalBlock ≠ some b
  /-- a recorded precommit majority for a block: the node has entered the commit step at some point -/
  recd : s.halted = false → (∃ (r : Nat) (b : Nat), maj23Of (s.votes.getVoteSet (r : Int) .precommit) = some (some b)) →
    0 ≤ s.commitRound
  /-- a decision is for the recorded majority of the commit round -/
  dec : ∀ b r, s.decided = some (b, r) → r = s.commitRound ∧
    maj23Of (s.votes.getVoteSet s.commitRound .precommit) = some (some b)

theorem KI.init (c : Cfg) : KI c NodeState.init := by
  sorry

/-- one input of the receive routine keeps the invariant (no hypothesis on the input) -/
theorem step_K {c : Cfg} {s : NodeState} (i : Input) (h : KI c s) : KI c (step c s i) := by
  sorry

theorem run_K {c : Cfg} (is : List Input) {s : NodeState} (h : KI c s) : KI c (run c s is) := by
  induction is generalizing s with
  | nil => unfold run; exact h
  | cons i is ih =>
    have := ih (step_K i h)
    unfold run at this ⊢
    simpa [List.foldl] using this

/-- **not an orphan + precommit quorum recorded + block held ⇒ decided**, for every run and every
order of the inputs. `hnorphan` is the state form of `NoOrphanCommit`; `hcv` says that the round the
node committed in carries the same block (it is `r` itself, or agreement gives it). -/
theorem quorum_and_block_decide {c : Cfg} (is : List Input) (r b : Nat)
    (hh : (run c .init is).halted = false)
    (hnorphan : 0 ≤ (run c .init is).commitRound → (run c .init is).step = .commit)
    (hm : maj23Of ((run c .init is).votes.getVoteSet (r : Int) .precommit) = some (some b))
    (hcv : ∀ b', maj23Of ((run c .init is).votes.getVoteSet (run c .init is).commitRound .precommit) = some (some b') →
      b' = b)
    (hb : (run c .init is).proposalBlock = some b) :
    (run c .init is).decided = some (b, (run c .init is).commitRound) := by
  sorry

end Tmv.Cons
