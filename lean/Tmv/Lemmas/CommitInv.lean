import Tmv.Lemmas.VoteReachRun
/-! Universal invariants of the commit path of the node model (every run from `NodeState.init`,
every input list): the proposal block is always held together with its complete part set; a node in
the commit step never holds the committed block without having decided; a recorded +2/3 precommit
majority for a block means the node has been through `enterCommit`. Together with
`NoOrphanCommit` (state form) they give: **a node that is not an orphan, has recorded the precommit
quorum for `b` and holds `b`, has decided** — for every order of everything. -/
namespace Tmv.Cons

/-- the commit-path invariant -/
structure KI (c : Cfg) (s : NodeState) : Prop where
  /-- the proposal block is held with its complete part set -/
  pb : ∀ x, s.proposalBlock = some x → s.proposalParts = some x ∧ s.partsDone = true
  /-- in the commit step the precommits of the commit round have a recorded majority for a block -/
  cr : s.halted = false → s.step = .commit →
    0 ≤ s.commitRound ∧ ∃ b, maj23Of (s.votes.getVoteSet s.commitRound .precommit) = some (some b)
  /-- in the commit step, undecided and not halted, the committed block is not held -/
  ci : s.halted = false → s.step = .commit → s.decided = none →
    ∀ b, maj23Of (s.votes.getVoteSet s.commitRound .precommit) = some (some b) → s.proposalBlock ≠ some b
  /-- a recorded precommit majority for a block: the node has entered the commit step at some point -/
  recd : s.halted = false → (∃ (r : Nat) (b : Nat), maj23Of (s.votes.getVoteSet (r : Int) .precommit) = some (some b)) →
    0 ≤ s.commitRound
  /-- a decision is for the recorded majority of the commit round -/
  dec : ∀ b r, s.decided = some (b, r) → r = s.commitRound ∧
    maj23Of (s.votes.getVoteSet s.commitRound .precommit) = some (some b)

theorem maj23Of_some_iff {o : Option VoteSet} {k : Bid} :
    maj23Of o = some k ↔ ∃ vs, o = some vs ∧ vs.maj23 = some k := by
  unfold maj23Of
  cases o with
  | none => simp
  | some vs => simp

/-- with no votes added, the recorded majority is literally the same -/
theorem VReach.maj23_eq {c : Cfg} {a b : VoteSet} (h : VReach c (fun _ => False) a b) : b.maj23 = a.maj23 := by
  induction h with
  | refl => rfl
  | add v _ hb _ => exact hb.elim
  | claim p k _ ih => rw [VoteSet.setPeerMaj23_maj23]; exact ih

/-- no votes added: no new recorded majority -/
theorem HExt.maj23_back {c : Cfg} {a b : HVS} (h : HExt c (fun _ _ _ => False) a b)
    {r : Int} {t : VType} {x : Bid} (hm : maj23Of (b.getVoteSet r t) = some x) :
    maj23Of (a.getVoteSet r t) = some x := by
  obtain ⟨vs', hg', hx⟩ := maj23Of_some_iff.1 hm
  rcases h.bwd r t vs' hg' with ⟨vs, hg, hr⟩ | ⟨_, hr⟩
  · rw [hg]; exact maj23Of_some_iff.2 ⟨vs, rfl, by rw [← hr.maj23_eq]; exact hx⟩
  · have := hr.maj23_eq
    rw [hx] at this; cases this

theorem VoteSet.addVerified_not_added (c : Cfg) (vs : VoteSet) (i : Nat) (k : Bid)
    (h : (vs.addVerified c i k).2 = false) : (vs.addVerified c i k).1.maj23 = vs.maj23 := by
  have h1 : (vs.recordVote c i k).maj23 = vs.maj23 := by
    unfold VoteSet.recordVote; repeat' split
    all_goals rfl
  revert h
  unfold VoteSet.addVerified
  simp only []
  repeat' split
  all_goals first
    | (intro _; exact h1)
    | (intro h; unfold VoteSet.finish at h; simp at h)

theorem VoteSet.addVote_not_added (c : Cfg) (vs : VoteSet) (v : Vote) (h : (vs.addVote c v).2 = false) :
    (vs.addVote c v).1.maj23 = vs.maj23 := by
  revert h
  unfold VoteSet.addVote
  repeat' split
  all_goals first
    | (intro _; rfl)
    | exact VoteSet.addVerified_not_added c vs _ _

/-- a majority recorded after `AddVote` was there before, or is in the set of the vote, which was added -/
theorem HVS.addVote_maj23_new (c : Cfg) (h : HVS) (v : Vote) (peer : Peer) {r : Int} {t : VType} {x : Bid}
    (hm : maj23Of ((h.addVote c v peer).1.getVoteSet r t) = some x) :
    maj23Of (h.getVoteSet r t) = some x ∨ ((r = (v.round : Int) ∧ t = v.typ) ∧ (h.addVote c v peer).2 = true) := by
  unfold HVS.addVote at hm ⊢
  dsimp only at hm ⊢
  split at hm
  · rename_i vs hg
    rw [getVoteSet_putVoteSet] at hm
    split at hm
    · rename_i hc
      obtain ⟨_, e1, e2⟩ := hc
      subst e1; subst e2
      cases ha : (vs.addVote c v).2 with
      | true => right; simp
      | false =>
        left
        rw [hg]
        have := VoteSet.addVote_not_added c vs v ha
        simp only [maj23Of, Option.bind] at hm ⊢
        rw [← this]; exact hm
    · left; exact hm
  · rename_i hg
    split at hm
    · rename_i hl
      rw [getVoteSet_putVoteSet] at hm
      have hn := getRound_none_of_getVoteSet hg
      split at hm
      · rename_i hc
        obtain ⟨_, e1, e2⟩ := hc
        subst e1; subst e2
        cases ha : (VoteSet.empty.addVote c v).2 with
        | true => right; simp [hl]
        | false =>
          have := VoteSet.addVote_not_added c VoteSet.empty v ha
          simp only [maj23Of, Option.bind] at hm
          rw [this] at hm; cases hm
      · change maj23Of ((h.addRound (v.round : Int)).getVoteSet r t) = some x at hm
        rw [getVoteSet_addRound h _ hn] at hm
        split at hm
        · simp [maj23Of, VoteSet.empty] at hm
        · left; exact hm
    · left; exact hm


/-! ### the working forms of the invariant -/

/-- the invariant of an undecided node, on the fields it reads; the rounds in `X` are exempt from
`recd` (the round of a precommit that has just been added, until `afterPrecommit` has run) -/
structure KUI (c : Cfg) (X : Nat → Prop) (pB pP : Option Nat) (pD hl : Bool) (st : Step) (cR : Int) (v : HVS)
    (d : Option (Nat × Int)) : Prop where
  pb : ∀ x, pB = some x → pP = some x ∧ pD = true
  cr : hl = false → st = .commit → 0 ≤ cR ∧ ∃ b, maj23Of (v.getVoteSet cR .precommit) = some (some b)
  ci : hl = false → st = .commit → ∀ b, maj23Of (v.getVoteSet cR .precommit) = some (some b) → pB ≠ some b
  recd : hl = false → (∃ (r : Nat) (b : Nat), ¬ X r ∧ maj23Of (v.getVoteSet (r : Int) .precommit) = some (some b)) →
    0 ≤ cR
  und : d = none

abbrev KU (c : Cfg) (X : Nat → Prop) (s : NodeState) : Prop :=
  KUI c X s.proposalBlock s.proposalParts s.partsDone s.halted s.step s.commitRound s.votes s.decided

/-- the invariant without `ci` (the state between setting the block and `tryFinalizeCommit`) -/
structure KW (c : Cfg) (s : NodeState) : Prop where
  pb : ∀ x, s.proposalBlock = some x → s.proposalParts = some x ∧ s.partsDone = true
  cr : s.halted = false → s.step = .commit →
    0 ≤ s.commitRound ∧ ∃ b, maj23Of (s.votes.getVoteSet s.commitRound .precommit) = some (some b)
  recd : s.halted = false → (∃ (r : Nat) (b : Nat), maj23Of (s.votes.getVoteSet (r : Int) .precommit) = some (some b)) →
    0 ≤ s.commitRound
  dec : ∀ b r, s.decided = some (b, r) → r = s.commitRound ∧
    maj23Of (s.votes.getVoteSet s.commitRound .precommit) = some (some b)

abbrev NoX : Nat → Prop := fun _ => False

variable {c : Cfg} {X : Nat → Prop}

theorem KI.toKW {s : NodeState} (h : KI c s) : KW c s := ⟨h.pb, h.cr, h.recd, h.dec⟩

theorem KI.toKU {s : NodeState} (h : KI c s) (hd : s.decided = none) : KU c NoX s :=
  ⟨h.pb, h.cr, fun hh hs => h.ci hh hs hd, fun hh ⟨r, b, _, hm⟩ => h.recd hh ⟨r, b, hm⟩, hd⟩

/-- in the commit step or halted the exemption is void -/
theorem KU.toKI {s : NodeState} (h : KU c X s) (hx : s.halted = true ∨ s.step = .commit ∨ ∀ r, ¬ X r) : KI c s := by
  refine ⟨h.pb, h.cr, fun hh hs _ => h.ci hh hs, ?_, ?_⟩
  · intro hh ⟨r, b, hm⟩
    rcases hx with hx | hx | hx
    · rw [hx] at hh; cases hh
    · exact (h.cr hh hx).1
    · exact h.recd hh ⟨r, b, hx r, hm⟩
  · intro b r hd; rw [h.und] at hd; cases hd

theorem KU.toKI' {s : NodeState} (h : KU c NoX s) : KI c s := h.toKI (Or.inr (Or.inr fun _ hx => hx))

theorem KU.weaken {s : NodeState} (h : KU c NoX s) : KU c X s :=
  ⟨h.pb, h.cr, h.ci, fun hh ⟨r, b, _, hm⟩ => h.recd hh ⟨r, b, fun hx => hx, hm⟩, h.und⟩

/-- outside the commit step `ci` is void -/
theorem KW.toKU {s : NodeState} (h : KW c s) (hd : s.decided = none) (hs : s.step ≠ .commit) : KU c NoX s :=
  ⟨h.pb, h.cr, fun _ hs' => absurd hs' hs, fun hh ⟨r, b, _, hm⟩ => h.recd hh ⟨r, b, hm⟩, hd⟩

theorem KW.toKI {s : NodeState} (h : KW c s) (hs : s.step ≠ .commit) : KI c s :=
  ⟨h.pb, h.cr, fun _ hs' => absurd hs' hs, h.recd, h.dec⟩

/-! ### the primitives -/

theorem emit_halted_K (s : NodeState) (o : Output) : (emit s o).halted = s.halted := by
  unfold emit; split <;> rfl

theorem sign_halted_K {s s' : NodeState} {r cd : Nat} {p : Payload} (h : sign c s r cd p = some s') :
    s'.halted = s.halted := by
  unfold sign at h
  repeat' split at h
  all_goals first | (cases h; rfl) | simp at h

theorem signAddVote_halted_K (s : NodeState) (t : VType) (b : Bid) : (signAddVote c s t b).halted = s.halted := by
  unfold signAddVote
  repeat' split
  all_goals first | rfl | skip
  rename_i s' hs
  show (emit s' _).halted = _
  rw [emit_halted_K, sign_halted_K hs]

theorem decideProposal_halted_K (s : NodeState) (r me : Nat) : (decideProposal c s r me).halted = s.halted := by
  unfold decideProposal
  simp only []
  split
  · rename_i s' hs
    show (emit s' _).halted = _
    rw [emit_halted_K, sign_halted_K hs]
  · rfl

theorem doPrevote_halted_K (s : NodeState) : (doPrevote c s).halted = s.halted := by
  unfold doPrevote
  repeat' split
  all_goals exact signAddVote_halted_K ..

/-- the invariant only reads `Core` fields and `halted`, and halting makes it easier -/
theorem KU.core {s t : NodeState} (hc : Core t = Core s) (hh : t.halted = false → s.halted = false)
    (h : KU c X s) : KU c X t := by
  unfold Core at hc
  simp only [Prod.mk.injEq] at hc
  obtain ⟨_, est, _, _, _, _, _, epb, epp, epd, ecr, _, ev, _, ed⟩ := hc
  show KUI _ _ _ _ _ _ _ _ _ _
  rw [est, epb, epp, epd, ecr, ev, ed]
  exact ⟨h.pb, fun h1 => h.cr (hh h1), fun h1 => h.ci (hh h1), fun h1 => h.recd (hh h1), h.und⟩

/-! ### changes of the fields the invariant reads -/

section
variable {pb pp : Option Nat} {pd hl : Bool} {st : Step} {cR : Int} {v : HVS} {d : Option (Nat × Int)}

theorem KUI.step (h : KUI c X pb pp pd hl st cR v d) {st' : Step} (hst : st' ≠ .commit) :
    KUI c X pb pp pd hl st' cR v d :=
  ⟨h.pb, fun _ hs => absurd hs hst, fun _ hs => absurd hs hst, h.recd, h.und⟩

/-- dropping the block (and waiting for other parts) -/
theorem KUI.dropBlock (h : KUI c X pb pp pd hl st cR v d) (pp' : Option Nat) (pd' : Bool) :
    KUI c X none pp' pd' hl st cR v d :=
  ⟨fun _ e => (by cases e), h.cr, fun _ _ _ _ e => (by cases e), h.recd, h.und⟩

/-- replacing the part set while no block is held -/
theorem KUI.setParts (h : KUI c X pb pp pd hl st cR v d) (hb : pb = none) (pp' : Option Nat) (pd' : Bool) :
    KUI c X pb pp' pd' hl st cR v d :=
  ⟨fun x e => (by rw [e] at hb; cases hb), h.cr, h.ci, h.recd, h.und⟩

theorem KUI.halt (h : KUI c X pb pp pd hl st cR v d) : KUI c X pb pp pd true st cR v d :=
  ⟨h.pb, fun e => (by cases e), fun e => (by cases e), fun e => (by cases e), h.und⟩

/-- the vote sets move on without a new recorded majority -/
theorem KUI.votes (h : KUI c X pb pp pd hl st cR v d) {v' : HVS} (hx : HExt c (fun _ _ _ => False) v v') :
    KUI c X pb pp pd hl st cR v' d := by
  refine ⟨h.pb, ?_, ?_, ?_, h.und⟩
  · intro h1 h2
    obtain ⟨h3, b, hb⟩ := h.cr h1 h2
    exact ⟨h3, b, hx.maj23 hb⟩
  · intro h1 h2 b hb
    exact h.ci h1 h2 b (hx.maj23_back hb)
  · intro h1 ⟨r, b, hn, hb⟩
    exact h.recd h1 ⟨r, b, hn, hx.maj23_back hb⟩
end

theorem KU.step {B : NodeState} (h : KU c X B) {st' : Step} (hst : st' ≠ .commit) :
    KUI c X B.proposalBlock B.proposalParts B.partsDone B.halted st' B.commitRound B.votes B.decided :=
  KUI.step h hst
theorem KU.dropBlock {B : NodeState} (h : KU c X B) (pp' : Option Nat) (pd' : Bool) :
    KUI c X none pp' pd' B.halted B.step B.commitRound B.votes B.decided :=
  KUI.dropBlock h pp' pd'

theorem hasHeader_self (x : Nat) : hasHeader (some x) (some x) = true := by simp [hasHeader]
theorem hashesTo_eq {ob : Option Nat} {bid : Bid} (h : hashesTo ob bid = true) : ∃ b, ob = some b ∧ bid = some b := by
  unfold hashesTo at h
  split at h
  · rename_i b b'; simp at h; subst h; exact ⟨b, rfl, rfl⟩
  · cases h

/-! ### every function of the node model that cannot decide keeps `KU` -/

attribute [local irreducible] emit panicWith sign signAddVote decideProposal doPrevote enterPrevote enterPropose
  enterNewRound newRoundReset enterPrevoteWait unlock enterPrecommit enterPrecommitWait finalizeCommit tryFinalizeCommit
  enterCommit setProposal handleCompleteProposal addBlockPart addVote onPolka prevoteTransitions afterPrevote
  afterPrecommit handleInternal handleTimeout
  handleTxsAvailable handleInput drain step run HVS.addVote HVS.setRound HVS.setPeerMaj23 HVS.polRound
  isProposalComplete maj23Of hasAnyOf hashesTo hasHeader

syntax "kinv_step" : tactic
macro_rules | `(tactic| kinv_step) => `(tactic| refine KU.dropBlock ?_ _ _)
macro_rules | `(tactic| kinv_step) => `(tactic| refine KU.step ?_ (by decide))
macro_rules | `(tactic| kinv_step) => `(tactic| assumption)
macro "kinv" : tactic => `(tactic| repeat' (first | (dsimp only [KU]; kinv_step) | kinv_step))

theorem emit_U {s : NodeState} (o : Output) (h : KU c X s) : KU c X (emit s o) :=
  h.core (emit_core s o) (by rw [emit_halted_K]; exact id)
macro_rules | `(tactic| kinv_step) => `(tactic| apply emit_U)
theorem panicWith_U {s : NodeState} (w : String) (h : KU c X s) : KU c X (panicWith s w) :=
  h.core (panicWith_core s w) (by rw [panicWith_halted]; intro e; cases e)
macro_rules | `(tactic| kinv_step) => `(tactic| apply panicWith_U)
theorem signAddVote_U {s : NodeState} (t : VType) (b : Bid) (h : KU c X s) : KU c X (signAddVote c s t b) :=
  h.core (signAddVote_core c s t b) (by rw [signAddVote_halted_K]; exact id)
macro_rules | `(tactic| kinv_step) => `(tactic| apply signAddVote_U)
theorem decideProposal_U {s : NodeState} (r me : Nat) (h : KU c X s) : KU c X (decideProposal c s r me) :=
  h.core (decideProposal_core c s r me) (by rw [decideProposal_halted_K]; exact id)
macro_rules | `(tactic| kinv_step) => `(tactic| apply decideProposal_U)
theorem doPrevote_U {s : NodeState} (h : KU c X s) : KU c X (doPrevote c s) :=
  h.core (doPrevote_core c s) (by rw [doPrevote_halted_K]; exact id)
macro_rules | `(tactic| kinv_step) => `(tactic| apply doPrevote_U)
theorem unlock_U {s : NodeState} (h : KU c X s) : KU c X (unlock s) := by
  unfold unlock; exact h
macro_rules | `(tactic| kinv_step) => `(tactic| apply unlock_U)

theorem enterPrevote_U {s : NodeState} (r : Nat) (h : KU c X s) : KU c X (enterPrevote c s r) := by
  unfold enterPrevote; (try simp only []); repeat' split
  all_goals kinv
macro_rules | `(tactic| kinv_step) => `(tactic| apply enterPrevote_U)

theorem enterPropose_U {s : NodeState} (r : Nat) (h : KU c X s) : KU c X (enterPropose c s r) := by
  unfold enterPropose; (try simp only []); repeat' split
  all_goals kinv
macro_rules | `(tactic| kinv_step) => `(tactic| apply enterPropose_U)


theorem newRoundReset_U {s : NodeState} (r : Nat) (h : KU c X s) : KU c X (newRoundReset s r) := by
  unfold newRoundReset; simp only []; split
  · dsimp only [KU]; exact KUI.step h (by decide)
  · dsimp only [KU]; exact KUI.dropBlock (KUI.step h (by decide)) _ _

theorem enterNewRound_U {s : NodeState} (r : Nat) (h : KU c X s) : KU c X (enterNewRound c s r) := by
  unfold enterNewRound
  split
  · exact h
  · split
    · exact h
    · simp only []
      have h' : KU c X (newRoundReset s r) := newRoundReset_U r h
      split
      · kinv
      · rename_i hv hsr
        have h2 : KU c X { newRoundReset s r with votes := hv, triggered := false } :=
          KUI.votes h' (HExt.setRound c _ _ _ _ hsr)
        repeat' split
        all_goals kinv
macro_rules | `(tactic| kinv_step) => `(tactic| apply enterNewRound_U)

theorem enterPrevoteWait_U {s : NodeState} (r : Nat) (h : KU c X s) : KU c X (enterPrevoteWait c s r) := by
  unfold enterPrevoteWait; (try simp only []); repeat' split
  all_goals kinv
macro_rules | `(tactic| kinv_step) => `(tactic| apply enterPrevoteWait_U)

theorem enterPrecommit_U {s : NodeState} (r : Nat) (h : KU c X s) : KU c X (enterPrecommit c s r) := by
  unfold enterPrecommit; (try simp only []); repeat' split
  all_goals kinv
macro_rules | `(tactic| kinv_step) => `(tactic| apply enterPrecommit_U)

theorem enterPrecommitWait_U {s : NodeState} (r : Nat) (h : KU c X s) : KU c X (enterPrecommitWait c s r) := by
  unfold enterPrecommitWait; (try simp only []); repeat' split
  all_goals kinv
macro_rules | `(tactic| kinv_step) => `(tactic| apply enterPrecommitWait_U)


theorem setProposal_U {s : NodeState} (p : Proposal) (h : KU c X s) : KU c X (setProposal c s p) := by
  unfold setProposal; (try simp only []); repeat' split
  all_goals first
    | (kinv; done)
    | skip
  rename_i hn
  dsimp only [KU] at hn ⊢
  refine KUI.setParts h ?_ _ _
  cases hb : s.proposalBlock with
  | none => rfl
  | some x => rw [(h.pb x hb).1] at hn; cases hn
macro_rules | `(tactic| kinv_step) => `(tactic| apply setProposal_U)

theorem onPolka_U {s : NodeState} (vr : Nat) (bid : Bid) (h : KU c X s) : KU c X (onPolka s vr bid) := by
  have key : ∀ t : NodeState, KU c X t → KU c X
      (if bid.isSome ∧ t.validRound < (vr : Int) ∧ vr = t.round then
        (let t' := if hashesTo t.proposalBlock bid then
            { t with validRound := vr, validBlock := t.proposalBlock }
          else { t with proposalBlock := none }
        if !hasHeader t'.proposalParts bid then
          { t' with proposalParts := bid, partsDone := false } else t')
      else t) := by
    intro t ht
    simp only []
    repeat' split
    all_goals first
      | (kinv; done)
      | skip
    rename_i hh hn
    obtain ⟨b, hb, e⟩ := hashesTo_eq hh
    subst e
    dsimp only at hn
    rw [(ht.pb b hb).1, hasHeader_self] at hn
    cases hn
  unfold onPolka
  simp only []
  split
  · exact key _ (unlock_U h)
  · exact key _ h
macro_rules | `(tactic| kinv_step) => `(tactic| apply onPolka_U)

theorem prevoteTransitions_U {s : NodeState} (vr : Nat) (h : KU c X s) : KU c X (prevoteTransitions c s vr) := by
  unfold prevoteTransitions; (try simp only []); repeat' split
  all_goals kinv
macro_rules | `(tactic| kinv_step) => `(tactic| apply prevoteTransitions_U)

theorem afterPrevote_U {s : NodeState} (vr : Nat) (h : KU c X s) : KU c X (afterPrevote c s vr) := by
  unfold afterPrevote; (try simp only []); repeat' split
  all_goals kinv
macro_rules | `(tactic| kinv_step) => `(tactic| apply afterPrevote_U)

theorem handleTimeout_U {s : NodeState} (r : Nat) (st : Step) (h : KU c X s) : KU c X (handleTimeout c s r st) := by
  unfold handleTimeout; (try simp only []); repeat' split
  all_goals kinv

theorem handleTxsAvailable_U {s : NodeState} (h : KU c X s) : KU c X (handleTxsAvailable c s) := by
  unfold handleTxsAvailable; (try simp only []); repeat' split
  all_goals kinv


/-! ### the functions that can decide -/

theorem KW.toKI_of {s : NodeState} (h : KW c s) (hci : s.halted = true ∨ s.step ≠ .commit ∨ s.decided ≠ none) : KI c s := by
  refine ⟨h.pb, h.cr, ?_, h.recd, h.dec⟩
  intro h1 h2 h3
  rcases hci with hci | hci | hci
  · rw [hci] at h1; cases h1
  · exact absurd h2 hci
  · exact absurd h3 hci

theorem KW.core {s t : NodeState} (hc : Core t = Core s) (hh : t.halted = false → s.halted = false)
    (h : KW c s) : KW c t := by
  unfold Core at hc
  simp only [Prod.mk.injEq] at hc
  obtain ⟨_, est, _, _, _, _, _, epb, epp, epd, ecr, _, ev, _, ed⟩ := hc
  refine ⟨?_, ?_, ?_, ?_⟩
  · rw [epb, epp, epd]; exact h.pb
  · intro h1; rw [est, ecr, ev]; exact h.cr (hh h1)
  · intro h1; rw [ecr, ev]; exact h.recd (hh h1)
  · rw [ed, ecr, ev]; exact h.dec

theorem panicWith_K {s : NodeState} (w : String) (h : KW c s) : KI c (panicWith s w) :=
  (h.core (panicWith_core s w) (by rw [panicWith_halted]; intro e; cases e)).toKI_of (Or.inl (panicWith_halted s w))

theorem hashesTo_self (b : Nat) : hashesTo (some b) (some b) = true := by
  unfold hashesTo; simp

theorem rank_commit_le {st : Step} (h : Step.commit.rank ≤ st.rank) : st = .commit := by
  cases st <;> simp [Step.rank] at h ⊢

theorem rank_le_propose {st : Step} (h : st.rank ≤ Step.propose.rank) : st ≠ .commit := by
  cases st <;> simp [Step.rank] at h ⊢

theorem finalizeCommit_K {s : NodeState} (h : KW c s) : KI c (finalizeCommit c s) := by
  unfold finalizeCommit; (try simp only []); repeat' split
  all_goals first
    | exact panicWith_K _ h
    | exact h.toKI_of (Or.inl ‹_›)
    | exact h.toKI_of (Or.inr (Or.inl ‹_›))
    | skip
  rename_i b hm _ _ _
  have he : KW c (emit s (.decide b s.commitRound)) :=
    h.core (emit_core s _) (by rw [emit_halted_K]; exact id)
  have hcr : (emit s (.decide b s.commitRound)).commitRound = s.commitRound :=
    congrArg (fun x => x.2.2.2.2.2.2.2.2.2.2.1) (emit_core s _)
  refine ⟨he.pb, he.cr, ?_, he.recd, ?_⟩
  · intro _ _ hd; cases hd
  · intro b' r' hd
    cases hd
    refine ⟨rfl, ?_⟩
    show maj23Of ((emit s _).votes.getVoteSet (emit s _).commitRound .precommit) = _
    rw [emit_votes, hcr]
    exact hm

theorem tryFinalizeCommit_K {s : NodeState} (h : KW c s) : KI c (tryFinalizeCommit c s) := by
  unfold tryFinalizeCommit; (try simp only []); repeat' split
  all_goals first
    | exact finalizeCommit_K h
    | exact h.toKI_of (Or.inl ‹_›)
    | skip
  all_goals refine ⟨h.pb, h.cr, ?_, h.recd, h.dec⟩
  · rename_i hm
    intro _ _ _ b hb
    have : maj23Of (s.votes.getVoteSet s.commitRound .precommit) = none := hm
    rw [this] at hb; cases hb
  · rename_i hm
    intro _ _ _ b hb
    have : maj23Of (s.votes.getVoteSet s.commitRound .precommit) = some none := hm
    rw [this] at hb; cases hb
  · rename_i _ hm hn
    intro _ _ _ b hb
    have : maj23Of (s.votes.getVoteSet s.commitRound .precommit) = some _ := hm
    rw [this] at hb; cases hb
    intro e
    rw [e, hashesTo_self] at hn
    simp at hn

theorem enterCommit_K {s : NodeState} (r : Nat) (b : Nat) (h : KU c X s)
    (hm : maj23Of (s.votes.getVoteSet (r : Int) .precommit) = some (some b)) : KI c (enterCommit c s r) := by
  unfold enterCommit
  split
  · exact h.toKI (Or.inl ‹_›)
  · split
    · exact h.toKI (Or.inr (Or.inl (rank_commit_le ‹_›)))
    · split
      · rename_i hn
        have : maj23Of (s.votes.getVoteSet (r : Int) .precommit) = none := hn
        rw [this] at hm; cases hm
      · simp only []
        apply tryFinalizeCommit_K
        repeat' split
        all_goals refine ⟨?_, fun _ _ => ⟨Int.natCast_nonneg _, b, hm⟩, fun _ _ => Int.natCast_nonneg _, fun b' r' hd => ?_⟩
        all_goals first
          | (have hu : s.decided = none := h.und
             have hd' : s.decided = some (b', r') := hd
             rw [hu] at hd'; cases hd'; done)
          | exact h.pb
          | (intro x e; cases e; done)
          | (intro x e; exact ⟨e, rfl⟩)


theorem handleCompleteProposal_K {s : NodeState} (h : KW c s) (hd : s.decided = none) :
    KI c (handleCompleteProposal c s) := by
  have hs : s.step.rank ≤ Step.propose.rank → KU c NoX s := fun hr => h.toKU hd (rank_le_propose hr)
  unfold handleCompleteProposal; (try simp only []); repeat' split
  all_goals first
    | (apply tryFinalizeCommit_K; exact ⟨h.pb, h.cr, h.recd, h.dec⟩)
    | (have h1 : KU c NoX s := hs (And.left ‹_›)
       apply KU.toKI'; kinv; done)
    | exact KW.toKI ⟨h.pb, h.cr, h.recd, h.dec⟩ ‹_›

theorem addBlockPart_K {s : NodeState} (b : Nat) (h : KU c NoX s) : KI c (addBlockPart c s b) := by
  unfold addBlockPart; (try simp only []); repeat' split
  all_goals first
    | exact h.toKI'
    | skip
  rename_i x hp hx _
  simp at hx
  subst hx
  apply handleCompleteProposal_K
  · refine ⟨?_, h.cr, fun hh ⟨r, b, hm⟩ => h.recd hh ⟨r, b, fun hx => hx, hm⟩, ?_⟩
    · intro y e; cases e; exact ⟨hp, rfl⟩
    · intro b' r' hd
      have hu : s.decided = none := h.und
      have hd' : s.decided = some (b', r') := hd
      rw [hu] at hd'; cases hd'
  · exact h.und

theorem KU.mono {X' : Nat → Prop} {s : NodeState} (hX : ∀ r, X r → X' r) (h : KU c X s) : KU c X' s :=
  ⟨h.pb, h.cr, h.ci, fun hh ⟨r, b, hn, hm⟩ => h.recd hh ⟨r, b, fun hx => hn (hX r hx), hm⟩, h.und⟩

/-- the exempt round has no recorded majority for a block: nothing is exempt -/
theorem KU.upgrade {s : NodeState} {vr : Nat} (h : KU c (fun r => r = vr) s)
    (hn : ∀ b, maj23Of (s.votes.getVoteSet (vr : Int) .precommit) ≠ some (some b)) : KU c NoX s := by
  refine ⟨h.pb, h.cr, h.ci, ?_, h.und⟩
  intro hh ⟨r, b, _, hm⟩
  by_cases e : r = vr
  · subst e; exact absurd hm (hn b)
  · exact h.recd hh ⟨r, b, e, hm⟩

theorem afterPrecommit_K {s : NodeState} (vr : Nat) (h : KU c (fun r => r = vr) s) :
    KI c (afterPrecommit c s vr) := by
  unfold afterPrecommit; (try simp only [])
  split
  · rename_i bid hm
    have hm' : maj23Of (s.votes.getVoteSet (vr : Int) .precommit) = some bid := hm
    cases bid with
    | none =>
      have h0 : KU c NoX s := h.upgrade (fun b hb => by rw [hm'] at hb; cases hb)
      simp only [Option.isSome_none, Bool.false_eq_true, if_false]
      apply KU.toKI'; kinv
    | some b =>
      simp only [Option.isSome_some, if_true]
      apply enterCommit_K vr b (X := fun r => r = vr)
      · kinv
      · exact (enterPrecommit_X (A := fun _ _ _ => True) vr
          (enterNewRound_X vr (HExt.refl c _ s.votes))).maj23 hm'
  · rename_i hm
    have hm' : maj23Of (s.votes.getVoteSet (vr : Int) .precommit) = none := hm
    have h0 : KU c NoX s := h.upgrade (fun b hb => by rw [hm'] at hb; cases hb)
    repeat' split
    all_goals (apply KU.toKI'; kinv)

theorem addVote_K {s : NodeState} (v : Vote) (peer : Peer) (h : KU c NoX s) : KI c (addVote c s v peer) := by
  have hx : HExt c (fun _ _ _ => True) s.votes (s.votes.addVote c v peer).1 :=
    HExt.addVote c _ s.votes v peer trivial
  have h1 : KU c (fun r => r = v.round ∧ v.typ = .precommit ∧ (s.votes.addVote c v peer).2 = true)
      { s with votes := (s.votes.addVote c v peer).1 } := by
    refine ⟨h.pb, ?_, ?_, ?_, h.und⟩
    · intro hh hs
      obtain ⟨h3, b, hb⟩ := h.cr hh hs
      exact ⟨h3, b, hx.maj23 hb⟩
    · intro hh hs b hb
      obtain ⟨_, b0, hb0⟩ := h.cr hh hs
      have hb1 := hx.maj23 hb0
      have hb' : maj23Of ((s.votes.addVote c v peer).1.getVoteSet s.commitRound .precommit) = some (some b) := hb
      rw [hb1] at hb'
      cases hb'
      exact h.ci hh hs b hb0
    · intro hh ⟨r, b, hn, hm⟩
      rcases HVS.addVote_maj23_new c s.votes v peer hm with ho | ⟨⟨e1, e2⟩, e3⟩
      · exact h.recd hh ⟨r, b, fun hx => hx, ho⟩
      · exact absurd ⟨by omega, e2.symm, e3⟩ hn
  unfold addVote; (try simp only [])
  split
  · rename_i hr
    refine h1.toKI (Or.inr (Or.inr ?_))
    intro r ⟨_, _, e⟩
    rw [e] at hr; simp at hr
  · split
    · rename_i ht
      refine (afterPrevote_U _ h1).toKI (Or.inr (Or.inr ?_))
      intro r ⟨_, e, _⟩
      rw [ht] at e; cases e
    · exact afterPrecommit_K _ (h1.mono fun r hr => hr.1)

theorem handleInternal_K {s : NodeState} (m : Internal) (h : KU c NoX s) : KI c (handleInternal c s m) := by
  unfold handleInternal
  cases m with
  | proposal p => exact (setProposal_U p h).toKI'
  | part b => exact addBlockPart_K b h
  | vote v => exact addVote_K v 0 h

theorem handleInput_K {s : NodeState} (i : Input) (h : KU c NoX s) : KI c (handleInput c s i) := by
  unfold handleInput
  cases i with
  | timeout r st => exact (handleTimeout_U r st h).toKI'
  | peerMaj23 r t peer bid =>
    exact KU.toKI' (s := { s with votes := s.votes.setPeerMaj23 r t peer bid })
      (KUI.votes h (HExt.setPeerMaj23 c _ _ _ _ _ _))
  | proposal p => exact (setProposal_U p h).toKI'
  | blockComplete b => exact addBlockPart_K b h
  | vote v peer => exact addVote_K v peer h
  | txsAvailable => exact (handleTxsAvailable_U h).toKI'

theorem drain_K (fuel : Nat) {s : NodeState} (h : KI c s) : KI c (drain c fuel s) := by
  induction fuel generalizing s with
  | zero => unfold drain; exact h
  | succ n ih =>
    unfold drain; repeat' split
    all_goals first | exact h | skip
    rename_i hg _ m rest hq
    have hd : s.decided = none := by
      cases hdd : s.decided with
      | none => rfl
      | some x => exact absurd (Or.inr (show s.decided.isSome = true by rw [hdd]; rfl)) hg
    have h' : KU c NoX { s with queue := rest } := h.toKU hd
    exact ih (handleInternal_K m h')


theorem KI.init (c : Cfg) : KI c NodeState.init := by
  have hn : ∀ (r : Int) (x : Bid), maj23Of (NodeState.init.votes.getVoteSet r .precommit) ≠ some x := by
    intro r x hm
    obtain ⟨vs, hg, hx⟩ := maj23Of_some_iff.1 hm
    have hg' : HVS.init.getVoteSet r .precommit = some vs := hg
    rw [getVoteSet_init] at hg'
    split at hg'
    · cases hg'; cases hx
    · cases hg'
  refine ⟨?_, ?_, ?_, ?_, ?_⟩
  · intro x e; cases e
  · intro _ e; cases e
  · intro _ e; cases e
  · intro _ ⟨r, b, hm⟩; exact absurd hm (hn _ _)
  · intro b r e; cases e

/-- one input of the receive routine keeps the invariant (no hypothesis on the input) -/
theorem step_K {c : Cfg} {s : NodeState} (i : Input) (h : KI c s) : KI c (step c s i) := by
  unfold step; split
  · exact h
  · rename_i hg
    have hd : s.decided = none := by
      cases hdd : s.decided with
      | none => rfl
      | some x => exact absurd (Or.inr (show s.decided.isSome = true by rw [hdd]; rfl)) hg
    exact drain_K _ (handleInput_K i (h.toKU hd))

theorem run_K {c : Cfg} (is : List Input) {s : NodeState} (h : KI c s) : KI c (run c s is) := by
  induction is generalizing s with
  | nil => unfold run; exact h
  | cons i is ih =>
    have := ih (step_K i h)
    unfold run at this ⊢
    simpa [List.foldl] using this

/-- **not an orphan + precommit quorum recorded + block held ⇒ decided**, for every run and every
order of the inputs. `hnorphan` is the state form of `NoOrphanCommit`; `hcv` says that the round the
node committed in carries the same block (it is `r` itself, or agreement gives it). -/
theorem quorum_and_block_decide {c : Cfg} (is : List Input) (r b : Nat)
    (hh : (run c .init is).halted = false)
    (hnorphan : 0 ≤ (run c .init is).commitRound → (run c .init is).step = .commit)
    (hm : maj23Of ((run c .init is).votes.getVoteSet (r : Int) .precommit) = some (some b))
    (hcv : ∀ b', maj23Of ((run c .init is).votes.getVoteSet (run c .init is).commitRound .precommit) = some (some b') →
      b' = b)
    (hb : (run c .init is).proposalBlock = some b) :
    (run c .init is).decided = some (b, (run c .init is).commitRound) := by
  have hk : KI c (run c .init is) := run_K is (KI.init c)
  have hst := hnorphan (hk.recd hh ⟨r, b, hm⟩)
  obtain ⟨_, b', hm'⟩ := hk.cr hh hst
  have e := hcv b' hm'
  subst e
  cases hd : (run c .init is).decided with
  | none => exact absurd hb (hk.ci hh hst hd b' hm')
  | some x =>
    obtain ⟨b1, r1⟩ := x
    obtain ⟨e1, e2⟩ := hk.dec b1 r1 hd
    rw [hm'] at e2
    cases e2
    rw [e1]

end Tmv.Cons
