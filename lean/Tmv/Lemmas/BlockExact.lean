import Tmv.Lemmas.BlockIndex
import Tmv.Lemmas.MatchA
set_option linter.unusedSimpArgs false
set_option linter.unusedVariables false
/-! Row characterisation of the block index (over the orderedcode tuple model) and the scans of
`BlockerIndexer.Search`. -/
namespace Tmv.BlockIndex
open Tmv.Query Tmv.Index

/-- the height a row's value must be: it is part of the key -/
def hOf : BKey → Nat
  | .primary h => h
  | .event _ _ h _ => h

/-- every value is the height its key carries (so overwriting a key never changes a row) -/
def WF (d : DB) : Prop := ∀ row ∈ d, row.2 = hOf row.1

theorem mem_dbSet_wf (d : DB) (k : BKey) (hw : WF d) (row : BKey × Nat) :
    row ∈ dbSet d k (hOf k) ↔ row ∈ d ∨ row = (k, hOf k) := by
  rw [mem_dbSet]
  constructor
  · rintro (h | ⟨h, _⟩)
    · exact Or.inr h
    · exact Or.inl h
  · rintro (h | h)
    · by_cases e : row.1 = k
      · left
        have := hw row h
        exact Prod.ext e (by rw [this, e])
      · right; exact ⟨h, e⟩
    · exact Or.inl h

theorem wf_dbSet (d : DB) (k : BKey) (hw : WF d) : WF (dbSet d k (hOf k)) := by
  intro row hrow
  rcases (mem_dbSet_wf d k hw row).mp hrow with h | h
  · exact hw row h
  · rw [h]

/-- the (composite key, value) pairs one event contributes to the index -/
def attrsOfEvent (e : Event) : List (Str × Str) :=
  e.attrs.filterMap fun a =>
    if a.key.isEmpty then none
    else if a.index then some (e.type ++ dot :: a.key, a.value) else none

/-- the pairs a list of events contributes (the same function as `Index.indexedAttrs`) -/
def evAttrs (evs : List Event) : List (Str × Str) :=
  evs.flatMap fun e => if e.type.isEmpty then [] else attrsOfEvent e

theorem indexedAttrs_eq (r : TxResult) : indexedAttrs r = evAttrs r.events := rfl

def attrOK (e : Event) (a : Attr) : Bool :=
  a.key.isEmpty || !((e.type ++ dot :: a.key) == blockHeightKey)

/-- no attribute (indexed or not) uses the reserved composite key `block.height` -/
def reservedFree (evs : List Event) : Bool :=
  evs.all fun e => e.type.isEmpty || e.attrs.all (attrOK e)

/-- one event's attributes -/
theorem attrs_spec (e : Event) (typ : Str) (h : Nat) (as : List Attr) (d : DB) (hw : WF d) :
    (as.all (attrOK e) = true →
      ∃ d', as.foldlM (indexAttr e typ h) d = some d' ∧ WF d' ∧
        ∀ row, row ∈ d' ↔ row ∈ d ∨ ∃ kv ∈ (as.filterMap fun a =>
          if a.key.isEmpty then none else if a.index then some (e.type ++ dot :: a.key, a.value) else none),
          row = (BKey.event kv.1 kv.2 h typ, h)) ∧
    (as.all (attrOK e) = false → as.foldlM (indexAttr e typ h) d = none) := by
  induction as generalizing d with
  | nil =>
    refine ⟨fun _ => ⟨d, rfl, hw, by simp⟩, fun h => by simp at h⟩
  | cons a rest ih =>
    simp only [List.all_cons, List.foldlM_cons]
    by_cases h1 : a.key.isEmpty = true
    · have hstep : indexAttr e typ h d a = some d := by simp [indexAttr, h1]
      have hok : attrOK e a = true := by simp [attrOK, h1]
      rw [hstep]
      simp only [hok, Bool.true_and, Option.bind_eq_bind, Option.bind_some, List.filterMap_cons, h1, if_true]
      exact ih d hw
    · by_cases h2 : ((e.type ++ dot :: a.key) == blockHeightKey) = true
      · have hstep : indexAttr e typ h d a = none := by simp [indexAttr, h1, h2]
        have hok : attrOK e a = false := by simp [attrOK, h1, h2]
        rw [hstep]
        simp [hok]
      · have hok : attrOK e a = true := by simp [attrOK, h1, h2]
        by_cases h3 : a.index = true
        · have hstep : indexAttr e typ h d a = some (dbSet d (.event (e.type ++ dot :: a.key) a.value h typ) h) := by
            simp [indexAttr, h1, h2, h3]
          rw [hstep]
          simp only [hok, Bool.true_and, Option.bind_eq_bind, Option.bind_some, List.filterMap_cons, h1, h3, if_true]
          have hw' := wf_dbSet d (.event (e.type ++ dot :: a.key) a.value h typ) hw
          obtain ⟨ih1, ih2⟩ := ih _ hw'
          refine ⟨?_, ih2⟩
          intro hall
          obtain ⟨d', e1, w1, m1⟩ := ih1 hall
          refine ⟨d', e1, w1, ?_⟩
          intro row
          rw [m1, mem_dbSet_wf d _ hw]
          simp only [Bool.false_eq_true, if_false, List.mem_cons, hOf]
          constructor
          · rintro ((h | h) | ⟨kv, hkv, rfl⟩)
            · exact Or.inl h
            · exact Or.inr ⟨_, Or.inl rfl, h⟩
            · exact Or.inr ⟨kv, Or.inr hkv, rfl⟩
          · rintro (h | ⟨kv, (rfl | hkv), rfl⟩)
            · exact Or.inl (Or.inl h)
            · exact Or.inl (Or.inr rfl)
            · exact Or.inr ⟨kv, hkv, rfl⟩
        · have hstep : indexAttr e typ h d a = some d := by simp [indexAttr, h1, h2, h3]
          rw [hstep]
          simp only [hok, Bool.true_and, Option.bind_eq_bind, Option.bind_some, List.filterMap_cons, h1, h3,
            Bool.false_eq_true, if_false]
          exact ih d hw

/-- `indexEvents`: refused iff the reserved key occurs; otherwise it adds exactly the event rows -/
theorem indexEvents_spec (typ : Str) (h : Nat) (evs : List Event) (d : DB) (hw : WF d) :
    (reservedFree evs = true →
      ∃ d', indexEvents d evs typ h = some d' ∧ WF d' ∧
        ∀ row, row ∈ d' ↔ row ∈ d ∨ ∃ kv ∈ evAttrs evs, row = (BKey.event kv.1 kv.2 h typ, h)) ∧
    (reservedFree evs = false → indexEvents d evs typ h = none) := by
  unfold indexEvents reservedFree
  induction evs generalizing d with
  | nil => refine ⟨fun _ => ⟨d, rfl, hw, by simp [evAttrs]⟩, fun h => by simp at h⟩
  | cons e rest ih =>
    simp only [List.all_cons, List.foldlM_cons]
    by_cases h1 : e.type.isEmpty = true
    · have hstep : indexEvent typ h d e = some d := by simp [indexEvent, h1]
      rw [hstep]
      simp only [h1, Bool.true_or, Bool.true_and, Option.bind_eq_bind, Option.bind_some, evAttrs,
        List.flatMap_cons, if_true, List.nil_append]
      exact ih d hw
    · have hstep : indexEvent typ h d e = e.attrs.foldlM (indexAttr e typ h) d := by simp [indexEvent, h1]
      rw [hstep]
      obtain ⟨a1, a2⟩ := attrs_spec e typ h e.attrs d hw
      by_cases hok : e.attrs.all (attrOK e) = true
      · obtain ⟨d1, e1, w1, m1⟩ := a1 hok
        rw [e1]
        simp only [h1, Bool.false_or, hok, Bool.true_and, Option.bind_eq_bind, Option.bind_some]
        obtain ⟨ih1, ih2⟩ := ih d1 w1
        refine ⟨?_, ih2⟩
        intro hall
        obtain ⟨d', e2, w2, m2⟩ := ih1 hall
        refine ⟨d', e2, w2, ?_⟩
        intro row
        rw [m2, m1]
        simp only [evAttrs, List.flatMap_cons, h1, Bool.false_eq_true, if_false, List.mem_append, attrsOfEvent]
        constructor
        · rintro ((h | ⟨kv, hkv, rfl⟩) | ⟨kv, hkv, rfl⟩)
          · exact Or.inl h
          · exact Or.inr ⟨kv, Or.inl hkv, rfl⟩
          · exact Or.inr ⟨kv, Or.inr hkv, rfl⟩
        · rintro (h | ⟨kv, (hkv | hkv), rfl⟩)
          · exact Or.inl (Or.inl h)
          · exact Or.inl (Or.inr ⟨kv, hkv, rfl⟩)
          · exact Or.inr ⟨kv, hkv, rfl⟩
      · have hok' : e.attrs.all (attrOK e) = false := by simpa using hok
        rw [a2 hok']
        simp [h1, hok']


open Tmv.IndexerService

/-- the block index accepts the block: none of its begin/end attributes uses `block.height` -/
def acceptable (b : Block) : Bool := reservedFree b.beginEvents && reservedFree b.endEvents

/-- the rows `Index` writes for an accepted block -/
def RowOf (b : Block) (row : BKey × Nat) : Prop :=
  row = (BKey.primary b.height, b.height) ∨
  (∃ kv ∈ evAttrs b.beginEvents, row = (BKey.event kv.1 kv.2 b.height beginBlock, b.height)) ∨
  (∃ kv ∈ evAttrs b.endEvents, row = (BKey.event kv.1 kv.2 b.height endBlock, b.height))

theorem index_rows (d : DB) (hw : WF d) (b : Block) :
    (acceptable b = true →
      ∃ d', index d b.height b.beginEvents b.endEvents = some d' ∧ WF d' ∧
        ∀ row, row ∈ d' ↔ row ∈ d ∨ RowOf b row) ∧
    (acceptable b = false → index d b.height b.beginEvents b.endEvents = none) := by
  have hw1 : WF (dbSet d (.primary b.height) b.height) := wf_dbSet d (.primary b.height) hw
  have m0 : ∀ row, row ∈ dbSet d (.primary b.height) b.height ↔ row ∈ d ∨ row = (BKey.primary b.height, b.height) :=
    mem_dbSet_wf d (.primary b.height) hw
  obtain ⟨b1, b2⟩ := indexEvents_spec beginBlock b.height b.beginEvents _ hw1
  unfold index acceptable
  simp only [Option.bind_eq_bind]
  by_cases hB : reservedFree b.beginEvents = true
  · obtain ⟨d1, e1, w1, m1⟩ := b1 hB
    obtain ⟨c1, c2⟩ := indexEvents_spec endBlock b.height b.endEvents d1 w1
    rw [e1]
    simp only [Option.bind_some, hB, Bool.true_and]
    refine ⟨?_, c2⟩
    intro hE
    obtain ⟨d2, e2, w2, m2⟩ := c1 hE
    refine ⟨d2, e2, w2, ?_⟩
    intro row
    rw [m2, m1, m0]
    simp only [RowOf, hOf]
    constructor
    · rintro (((h | h) | h) | h)
      · exact Or.inl h
      · exact Or.inr (Or.inl h)
      · exact Or.inr (Or.inr (Or.inl h))
      · exact Or.inr (Or.inr (Or.inr h))
    · rintro (h | h | h | h)
      · exact Or.inl (Or.inl (Or.inl h))
      · exact Or.inl (Or.inl (Or.inr h))
      · exact Or.inl (Or.inr h)
      · exact Or.inr h
  · have hB' : reservedFree b.beginEvents = false := by simpa using hB
    rw [b2 hB']
    simp [hB']

/-- the block index after a history of committed blocks (refused blocks leave it unchanged) -/
def indexAll (d : DB) (bs : List Block) : DB :=
  bs.foldl (fun d b => (index d b.height b.beginEvents b.endEvents).getD d) d

theorem run_bdb_eq (H : Bytes → Bytes) (s : IndexerService.State) (bs : List Block) :
    (run H s bs).bdb = indexAll s.bdb bs := by
  induction bs generalizing s with
  | nil => rfl
  | cons b rest ih =>
    simp only [run, List.foldl_cons, indexAll] at ih ⊢
    rw [ih]
    rfl

theorem indexAll_rows (d : DB) (hw : WF d) (bs : List Block) :
    WF (indexAll d bs) ∧
    ∀ row, row ∈ indexAll d bs ↔ row ∈ d ∨ ∃ b ∈ bs, acceptable b = true ∧ RowOf b row := by
  induction bs generalizing d with
  | nil => exact ⟨hw, by simp [indexAll]⟩
  | cons b rest ih =>
    obtain ⟨r1, r2⟩ := index_rows d hw b
    simp only [indexAll, List.foldl_cons]
    by_cases ha : acceptable b = true
    · obtain ⟨d', e, w, m⟩ := r1 ha
      rw [e]
      simp only [Option.getD_some]
      obtain ⟨w2, m2⟩ := ih d' w
      refine ⟨w2, ?_⟩
      intro row
      have := m2 row
      simp only [indexAll] at this
      rw [this, m]
      simp only [List.mem_cons]
      constructor
      · rintro ((h | h) | ⟨b', hb', ha', hr⟩)
        · exact Or.inl h
        · exact Or.inr ⟨b, Or.inl rfl, ha, h⟩
        · exact Or.inr ⟨b', Or.inr hb', ha', hr⟩
      · rintro (h | ⟨b', (rfl | hb'), ha', hr⟩)
        · exact Or.inl (Or.inl h)
        · exact Or.inl (Or.inr hr)
        · exact Or.inr ⟨b', hb', ha', hr⟩
    · have ha' : acceptable b = false := by simpa using ha
      rw [r2 ha']
      simp only [Option.getD_none]
      obtain ⟨w2, m2⟩ := ih d hw
      refine ⟨w2, ?_⟩
      intro row
      have := m2 row
      simp only [indexAll] at this
      rw [this]
      simp only [List.mem_cons]
      constructor
      · rintro (h | ⟨b', hb', ha'', hr⟩)
        · exact Or.inl h
        · exact Or.inr ⟨b', Or.inr hb', ha'', hr⟩
      · rintro (h | ⟨b', (rfl | hb'), ha'', hr⟩)
        · exact Or.inl h
        · rw [ha'] at ha''; cases ha''
        · exact Or.inr ⟨b', hb', ha'', hr⟩

/-- a scan whose filter looks at the key only: the heights it yields -/
theorem scan_heights (bs : List Block) (tE : Str → Str → Bool) (tP : Nat → Bool) (x : Nat) :
    x ∈ ((indexAll [] bs).filter fun row => match row.1 with
        | .event k v _ _ => tE k v
        | .primary h => tP h).map (·.2) ↔
      ∃ b ∈ bs, acceptable b = true ∧ b.height = x ∧
        ((∃ kv ∈ evAttrs b.beginEvents ++ evAttrs b.endEvents, tE kv.1 kv.2 = true) ∨ tP b.height = true) := by
  have hrows := (indexAll_rows [] (by intro r hr; cases hr) bs).2
  simp only [List.mem_map, List.mem_filter, hrows, List.not_mem_nil, false_or]
  constructor
  · rintro ⟨row, ⟨⟨b, hb, ha, hr⟩, ht⟩, rfl⟩
    refine ⟨b, hb, ha, ?_⟩
    rcases hr with rfl | ⟨kv, hkv, rfl⟩ | ⟨kv, hkv, rfl⟩
    · exact ⟨rfl, Or.inr ht⟩
    · exact ⟨rfl, Or.inl ⟨kv, List.mem_append.mpr (Or.inl hkv), ht⟩⟩
    · exact ⟨rfl, Or.inl ⟨kv, List.mem_append.mpr (Or.inr hkv), ht⟩⟩
  · rintro ⟨b, hb, ha, rfl, (⟨kv, hkv, ht⟩ | ht)⟩
    · rcases List.mem_append.mp hkv with hkv | hkv
      · exact ⟨_, ⟨⟨b, hb, ha, Or.inr (Or.inl ⟨kv, hkv, rfl⟩)⟩, ht⟩, rfl⟩
      · exact ⟨_, ⟨⟨b, hb, ha, Or.inr (Or.inr ⟨kv, hkv, rfl⟩)⟩, ht⟩, rfl⟩
    · exact ⟨_, ⟨⟨b, hb, ha, Or.inl rfl⟩, ht⟩, rfl⟩


/-! ### the event map of a block and the scans of `Search` -/

/-- the attribute list a block is judged by: its indexed begin/end attributes and its height -/
def attrsB (b : Block) : List (Str × Str) :=
  evAttrs b.beginEvents ++ evAttrs b.endEvents ++ [(blockHeightKey, dec b.height)]

theorem evAttrs_key_ne (evs : List Event) (h : reservedFree evs = true) :
    ∀ kv ∈ evAttrs evs, kv.1 ≠ blockHeightKey := by
  intro kv hkv
  simp only [evAttrs, List.mem_flatMap] at hkv
  obtain ⟨e, he, hkv⟩ := hkv
  by_cases h1 : e.type.isEmpty = true
  · simp [h1] at hkv
  · simp only [h1, Bool.false_eq_true, if_false, attrsOfEvent, List.mem_filterMap] at hkv
    obtain ⟨a, ha, hk⟩ := hkv
    simp only [reservedFree, List.all_eq_true] at h
    have := h e he
    simp only [h1, Bool.false_or, List.all_eq_true] at this
    have hok := this a ha
    by_cases h2 : a.key.isEmpty = true
    · simp [h2] at hk
    · by_cases h3 : a.index = true
      · simp only [h2, h3, Bool.false_eq_true, if_false, if_true, Option.some.injEq] at hk
        rw [← hk]
        simp only [attrOK, h2, Bool.false_or, Bool.not_eq_true', beq_eq_false_iff_ne] at hok
        exact hok
      · simp [h2, h3] at hk

theorem ev_keys_ne (b : Block) (ha : acceptable b = true) :
    ∀ kv ∈ evAttrs b.beginEvents ++ evAttrs b.endEvents, kv.1 ≠ blockHeightKey := by
  simp only [acceptable, Bool.and_eq_true] at ha
  intro kv hkv
  rcases List.mem_append.mp hkv with h | h
  · exact evAttrs_key_ne _ ha.1 kv h
  · exact evAttrs_key_ne _ ha.2 kv h

theorem mem_attrsB (b : Block) (kv : Str × Str) :
    kv ∈ attrsB b ↔ kv ∈ evAttrs b.beginEvents ++ evAttrs b.endEvents ∨ kv = (blockHeightKey, dec b.height) := by
  simp [attrsB, List.mem_append, or_assoc]

/-- conditions the block-index theorem covers: the classes of the language, and on the key
`block.height` only `EXISTS` and ranges (`block.height = n` is the shortcut, see
`block_search_by_height`; string conditions on it never match: known finding) -/
def CleanCondB (c : Cond) : Prop :=
  CondClass c ∧ (c.key = blockHeightKey → c.op = .exists ∨ isRangeOp c.op = true)

def heightsOfScan : Scan → List Nat
  | .rows d => d.map (·.2)
  | _ => []

/-- `scan_heights` for any filter that agrees with a key-only filter -/
theorem scan_heights' (bs : List Block) (tE : Str → Str → Bool) (tP : Nat → Bool) (x : Nat)
    (F : BKey × Nat → Bool)
    (hF : ∀ row, F row = (match row.1 with | .event k v _ _ => tE k v | .primary h => tP h)) :
    x ∈ ((indexAll [] bs).filter F).map (·.2) ↔
      ∃ b ∈ bs, acceptable b = true ∧ b.height = x ∧
        ((∃ kv ∈ evAttrs b.beginEvents ++ evAttrs b.endEvents, tE kv.1 kv.2 = true) ∨ tP b.height = true) := by
  have : (indexAll [] bs).filter F = (indexAll [] bs).filter fun row => match row.1 with
      | .event k v _ _ => tE k v | .primary h => tP h :=
    List.filter_congr (fun row _ => hF row)
  rw [this]
  exact scan_heights bs tE tP x

/-- scan of a non-range condition -/
theorem scan_cond_B (bs : List Block) (c : Cond) (hc : CleanCondB c) (hnr : isRangeOp c.op = false) :
    ∃ rows, condRows (indexAll [] bs) c = .rows rows ∧
      ∀ x, x ∈ rows.map (·.2) ↔
        ∃ b ∈ bs, acceptable b = true ∧ b.height = x ∧ holdsA c (attrsB b) = true := by
  obtain ⟨hclass, hkey⟩ := hc
  -- a key other than block.height: the height attribute is irrelevant
  have evOnly : ∀ (b : Block), acceptable b = true → c.key ≠ blockHeightKey → ∀ (t : Str → Bool),
      (∀ v, valTestG c v = t v) →
      ((∃ kv ∈ evAttrs b.beginEvents ++ evAttrs b.endEvents, (kv.1 == c.key && t kv.2) = true) ∨ false = true ↔
        holdsA c (attrsB b) = true) := by
    intro b ha hne t ht
    rw [holdsA_iff]
    constructor
    · rintro (⟨kv, hkv, h⟩ | h)
      · simp only [Bool.and_eq_true, beq_iff_eq] at h
        exact ⟨kv, (mem_attrsB b kv).mpr (Or.inl hkv), h.1, by rw [ht]; exact h.2⟩
      · cases h
    · rintro ⟨kv, hkv, hk, hv⟩
      rcases (mem_attrsB b kv).mp hkv with h | h
      · exact Or.inl ⟨kv, h, by simp [hk, ← ht, hv]⟩
      · rw [h] at hk; exact absurd hk.symm hne
  have eqCase : ∀ t : Str, c.op = .eq → operandStr c.operand = t → (∀ v, valTestG c v = (v == t)) →
      ∃ rows, condRows (indexAll [] bs) c = .rows rows ∧
      ∀ x, x ∈ rows.map (·.2) ↔
        ∃ b ∈ bs, acceptable b = true ∧ b.height = x ∧ holdsA c (attrsB b) = true := by
    intro t hop hos ht
    have hne : c.key ≠ blockHeightKey := by
      intro e
      rcases hkey e with h | h
      · rw [hop] at h; cases h
      · rw [hop] at h; cases h
    refine ⟨_, by simp only [condRows, hop]; rfl, ?_⟩
    intro x
    rw [scan_heights' bs (fun k v => k == c.key && v == t) (fun _ => false) x _
      (by rintro ⟨k, val⟩; cases k <;> simp [hos])]
    constructor
    · rintro ⟨b, hb, ha, hx, h⟩
      exact ⟨b, hb, ha, hx, (evOnly b ha hne (· == t) ht).mp h⟩
    · rintro ⟨b, hb, ha, hx, h⟩
      exact ⟨b, hb, ha, hx, (evOnly b ha hne (· == t) ht).mpr h⟩
  rcases hclass with ⟨hop, s, hso⟩ | ⟨hop, n, hso, _⟩ | ⟨hop, hnone, _⟩ | ⟨hop, s, hso⟩ | ⟨hr, _⟩
  · exact eqCase s hop (by simp [hso, operandStr]) (by intro v; simp [valTestG, hop, hso])
  · exact eqCase (dec n) hop (by simp [hso, operandStr]) (by intro v; simp [valTestG, hop, hso])
  · refine ⟨_, by simp only [condRows, hop]; rfl, ?_⟩
    intro x
    rw [scan_heights' bs (fun k _ => k == c.key) (fun _ => blockHeightKey == c.key) x _
      (by rintro ⟨k, val⟩; cases k <;> simp [firstComp])]
    have hiff : ∀ b, ((∃ kv ∈ evAttrs b.beginEvents ++ evAttrs b.endEvents, (kv.1 == c.key) = true) ∨
        (blockHeightKey == c.key) = true ↔ holdsA c (attrsB b) = true) := by
      intro b
      rw [holdsA_iff]
      have hv : ∀ v, valTestG c v = true := by intro v; simp [valTestG, hop]
      constructor
      · rintro (⟨kv, hkv, h⟩ | h)
        · exact ⟨kv, (mem_attrsB b kv).mpr (Or.inl hkv), by simpa using h, hv _⟩
        · exact ⟨_, (mem_attrsB b _).mpr (Or.inr rfl), by simpa using h, hv _⟩
      · rintro ⟨kv, hkv, hk, _⟩
        rcases (mem_attrsB b kv).mp hkv with h | h
        · exact Or.inl ⟨kv, h, by simp [hk]⟩
        · rw [h] at hk; exact Or.inr (by simpa using hk)
    constructor
    · rintro ⟨b, hb, ha, hx, h⟩; exact ⟨b, hb, ha, hx, (hiff b).mp h⟩
    · rintro ⟨b, hb, ha, hx, h⟩; exact ⟨b, hb, ha, hx, (hiff b).mpr h⟩
  · have hne : c.key ≠ blockHeightKey := by
      intro e
      rcases hkey e with h | h
      · rw [hop] at h; cases h
      · rw [hop] at h; cases h
    refine ⟨_, by simp only [condRows, hop, hso]; rfl, ?_⟩
    intro x
    rw [scan_heights' bs (fun k v => k == c.key && isInfix s v) (fun _ => false) x _
      (by rintro ⟨k, val⟩; cases k <;> simp)]
    have ht : ∀ v, valTestG c v = isInfix s v := by intro v; simp [valTestG, hop, hso]
    constructor
    · rintro ⟨b, hb, ha, hx, h⟩
      exact ⟨b, hb, ha, hx, (evOnly b ha hne (isInfix s) ht).mp h⟩
    · rintro ⟨b, hb, ha, hx, h⟩
      exact ⟨b, hb, ha, hx, (evOnly b ha hne (isInfix s) ht).mpr h⟩
  · rw [hr] at hnr; cases hnr


def testV (r : QRange) (o : Option Str) : Bool :=
  match o.bind parseInt with
  | none => false
  | some v => inRange r v

theorem inRange_eq (r : QRange) (m : Nat) : inRange r (m : Int) = inR r m := rfl

/-- scan of a merged interval in the block index -/
theorem scan_range_B (bs : List Block) (r : QRange)
    (hcan : ∀ b ∈ bs, acceptable b = true → ∀ v ∈ valuesOf (attrsB b) r.key, ∃ m, m ≤ maxInt64 ∧ v = dec m)
    (x : Nat) :
    x ∈ (rangeRows (indexAll [] bs) r).map (·.2) ↔
      ∃ b ∈ bs, acceptable b = true ∧ b.height = x ∧ ∃ m, (r.key, dec m) ∈ attrsB b ∧ inR r m = true := by
  unfold rangeRows
  rw [List.filter_filter]
  rw [scan_heights' bs
    (fun k v => k == r.key && testV r (if r.key == blockHeightKey then none else some v))
    (fun h => blockHeightKey == r.key && testV r (if r.key == blockHeightKey then some (dec h) else none)) x _
    (by rintro ⟨k, val⟩; cases k <;> simp [firstComp, rangeValue, testV, Bool.and_comm] <;> rfl)]
  constructor
  · rintro ⟨b, hb, ha, hx, h⟩
    refine ⟨b, hb, ha, hx, ?_⟩
    rcases h with ⟨kv, hkv, ht⟩ | ht
    · simp only [Bool.and_eq_true, beq_iff_eq] at ht
      obtain ⟨hk, hv⟩ := ht
      have hne : kv.1 ≠ blockHeightKey := ev_keys_ne b ha kv hkv
      have hrk : ¬ r.key = blockHeightKey := by rw [← hk]; exact hne
      have hin : kv ∈ attrsB b := (mem_attrsB b kv).mpr (Or.inl hkv)
      have hval : kv.2 ∈ valuesOf (attrsB b) r.key := by rw [mem_valuesOf, ← hk]; exact hin
      obtain ⟨m, hm, hvm⟩ := hcan b hb ha kv.2 hval
      simp [hrk, testV, hvm, parseInt_dec m hm, inRange_eq] at hv
      exact ⟨m, by rw [← hk, ← hvm]; exact hin, hv⟩
    · simp only [Bool.and_eq_true, beq_iff_eq] at ht
      obtain ⟨hk, hv⟩ := ht
      have hrk : r.key = blockHeightKey := hk.symm
      have hin : (blockHeightKey, dec b.height) ∈ attrsB b := (mem_attrsB b _).mpr (Or.inr rfl)
      have hval : dec b.height ∈ valuesOf (attrsB b) r.key := by rw [mem_valuesOf, ← hk]; exact hin
      obtain ⟨m, hm, hvm⟩ := hcan b hb ha _ hval
      have : m = b.height := (dec_inj hvm).symm
      subst this
      simp [hrk, testV, parseInt_dec _ hm, inRange_eq] at hv
      exact ⟨b.height, by rw [← hk]; exact hin, hv⟩
  · rintro ⟨b, hb, ha, hx, m, hkv, hin⟩
    refine ⟨b, hb, ha, hx, ?_⟩
    have hval : dec m ∈ valuesOf (attrsB b) r.key := (mem_valuesOf _ _ _).mpr hkv
    obtain ⟨m', hm', hvm⟩ := hcan b hb ha _ hval
    have : m' = m := (dec_inj hvm).symm
    subst this
    rcases (mem_attrsB b _).mp hkv with h | h
    · left
      have hne : r.key ≠ blockHeightKey := ev_keys_ne b ha _ h
      exact ⟨_, h, by simp [hne, testV, parseInt_dec _ hm', inRange_eq, hin]⟩
    · right
      simp only [Prod.mk.injEq] at h
      have hd : m' = b.height := dec_inj h.2
      subst hd
      simp [h.1, testV, parseInt_dec _ hm', inRange_eq, hin]

/-! ### the loop and the sort -/

theorem fold_scanStepB {X : Type} (xs : List X) (f : X → Scan)
    (hf : ∀ x ∈ xs, ∃ rows, f x = .rows rows) (st : Option (List Nat)) :
    xs.foldl (fun st x => scanStep st (f x)) (.ok st) =
      .ok (interFold st (xs.map fun x => heightsOfScan (f x))) := by
  induction xs generalizing st with
  | nil => rfl
  | cons x rest ih =>
    obtain ⟨rows, e1⟩ := hf x List.mem_cons_self
    have hstep : scanStep (.ok st) (f x) = .ok (interStep st (heightsOfScan (f x))) := by
      simp only [scanStep, e1, heightsOfScan, interStep]
      by_cases h : (st == some []) = true
      · simp [h]
      · simp [h]
    simp only [List.foldl_cons, List.map_cons, hstep]
    rw [ih (fun y hy => hf y (List.mem_cons_of_mem _ hy))]
    rfl

theorem mem_insertNat (x y : Nat) (l : List Nat) : y ∈ insertNat x l ↔ y = x ∨ y ∈ l := by
  induction l with
  | nil => simp [insertNat]
  | cons a rest ih =>
    unfold insertNat
    split
    · simp
    · simp only [List.mem_cons, ih]
      constructor
      · rintro (h | h | h)
        · exact Or.inr (Or.inl h)
        · exact Or.inl h
        · exact Or.inr (Or.inr h)
      · rintro (h | h | h)
        · exact Or.inr (Or.inl h)
        · exact Or.inl h
        · exact Or.inr (Or.inr h)

theorem mem_sortNat (y : Nat) (l : List Nat) : y ∈ sortNat l ↔ y ∈ l := by
  induction l with
  | nil => simp [sortNat]
  | cons a rest ih =>
    have : sortNat (a :: rest) = insertNat a (sortNat rest) := rfl
    rw [this, mem_insertNat, ih]
    simp

theorem insertNat_sorted (x : Nat) (l : List Nat) (hs : l.Pairwise (· < ·)) (hx : x ∉ l) :
    (insertNat x l).Pairwise (· < ·) := by
  induction l with
  | nil => simp [insertNat]
  | cons a rest ih =>
    have ha := List.pairwise_cons.mp hs
    unfold insertNat
    split
    · rename_i hle
      have hne : x ≠ a := fun e => hx (by simp [e])
      have hlt : x < a := by omega
      refine List.pairwise_cons.mpr ⟨?_, hs⟩
      intro y hy
      rcases List.mem_cons.mp hy with rfl | hy
      · exact hlt
      · exact Nat.lt_trans hlt (ha.1 y hy)
    · rename_i hle
      refine List.pairwise_cons.mpr ⟨?_, ih ha.2 (fun h => hx (List.mem_cons_of_mem _ h))⟩
      intro y hy
      rcases (mem_insertNat x y rest).mp hy with rfl | hy
      · omega
      · exact ha.1 y hy

/-- `sort.Slice` on a duplicate-free list: strictly ascending -/
theorem sortNat_sorted (l : List Nat) (hn : l.Nodup) : (sortNat l).Pairwise (· < ·) := by
  induction l with
  | nil => simp [sortNat]
  | cons a rest ih =>
    have hc := List.nodup_cons.mp hn
    have : sortNat (a :: rest) = insertNat a (sortNat rest) := rfl
    rw [this]
    exact insertNat_sorted a _ (ih hc.2) (fun h => hc.1 ((mem_sortNat a rest).mp h))


/-! ### hypotheses and the computation of `Search` -/

/-- a query the block-index theorem covers, relative to the indexed blocks -/
structure CleanQueryB (bs : List Block) (q : Query) : Prop where
  nonempty : q ≠ []
  conds : ∀ c ∈ q, CleanCondB c
  oneLower : ∀ k, ((rangeConds q).filter fun c => decide (c.key = k) && isLower c.op).length ≤ 1
  oneUpper : ∀ k, ((rangeConds q).filter fun c => decide (c.key = k) && isUpper c.op).length ≤ 1
  canon : ∀ c ∈ q, ∀ b ∈ bs, acceptable b = true → CanonForA c (attrsB b)
  single : ∀ k, 2 ≤ ((rangeConds q).filter fun c => decide (c.key = k)).length →
    ∀ b ∈ bs, acceptable b = true → (valuesOf (attrsB b) k).length ≤ 1

/-- accepted blocks have distinct heights (a height is committed once) -/
def DistinctHeights (bs : List Block) : Prop :=
  ∀ b ∈ bs, ∀ b' ∈ bs, acceptable b = true → acceptable b' = true → b.height = b'.height → b = b'

theorem has_indexAll (bs : List Block) (x : Nat) :
    has (indexAll [] bs) x = true ↔ ∃ b ∈ bs, acceptable b = true ∧ b.height = x := by
  have hrows := (indexAll_rows [] (by intro r hr; cases hr) bs).2
  simp only [has, List.any_eq_true, beq_iff_eq]
  constructor
  · rintro ⟨row, hrow, hk⟩
    rcases (hrows row).mp hrow with h | ⟨b, hb, ha, hr⟩
    · cases h
    · refine ⟨b, hb, ha, ?_⟩
      rcases hr with rfl | ⟨kv, _, rfl⟩ | ⟨kv, _, rfl⟩
      · simpa using hk
      · cases hk
      · cases hk
  · rintro ⟨b, hb, ha, rfl⟩
    exact ⟨_, (hrows _).mpr (Or.inr ⟨b, hb, ha, Or.inl rfl⟩), rfl⟩

/-- `Search` on a clean query without `block.height = n`: the sorted intersection of the scans -/
theorem search_clean_compute_B (bs : List Block) (q : Query) (hq : CleanQueryB bs q) :
    ∃ hs, search (indexAll [] bs) q = .heights hs ∧ hs.Pairwise (· < ·) ∧
      ∀ x, x ∈ hs ↔
        (∀ W ∈ lookForRanges q, ∃ b ∈ bs, acceptable b = true ∧ b.height = x ∧
            ∃ m, (W.key, dec m) ∈ attrsB b ∧ inR W m = true) ∧
        (∀ c ∈ otherConds q, ∃ b ∈ bs, acceptable b = true ∧ b.height = x ∧ holdsA c (attrsB b) = true) := by
  let db := indexAll [] bs
  have h1 : conditionsOK q = true := by
    simp only [conditionsOK, List.all_eq_true]
    intro c hcq
    rcases (hq.conds c hcq).1 with ⟨_, s, hs⟩ | ⟨_, n, hn, hle⟩ | ⟨_, hn, _⟩ | ⟨_, s, hs⟩ | ⟨_, n, hn, hle, _⟩
    · simp [hs]
    · simp [hn, hle]
    · simp [hn]
    · simp [hs]
    · simp [hn, hle]
  have h2 : lookForHeight q = none := by
    simp only [lookForHeight, List.findSome?_eq_none_iff]
    intro c hcq
    by_cases hk : (c.key == blockHeightKey && c.op == .eq) = true
    · simp only [Bool.and_eq_true, beq_iff_eq] at hk
      rcases (hq.conds c hcq).2 hk.1 with h | h
      · rw [hk.2] at h; cases h
      · rw [hk.2] at h; cases h
    · simp [hk]
  -- canonical values for the keys of the merged intervals
  have hcanW : ∀ W ∈ lookForRanges q, ∀ b ∈ bs, acceptable b = true →
      ∀ v ∈ valuesOf (attrsB b) W.key, ∃ m, m ≤ maxInt64 ∧ v = dec m := by
    intro W hW b hb ha
    obtain ⟨c0, hc0, hk0⟩ := (lookForRanges_spec q).onlyKeys W hW
    obtain ⟨hc0q, hr0⟩ := List.mem_filter.mp hc0
    have hok : RangeCondOK c0 := by
      rcases (hq.conds c0 hc0q).1 with ⟨hop, _⟩ | ⟨hop, _⟩ | ⟨hop, _⟩ | ⟨hop, _⟩ | ⟨_, hok⟩
      · rw [hop] at hr0; cases hr0
      · rw [hop] at hr0; cases hr0
      · rw [hop] at hr0; cases hr0
      · rw [hop] at hr0; cases hr0
      · exact hok
    obtain ⟨n0, hn0, _, _⟩ := hok
    have := hq.canon c0 hc0q b hb ha n0 hn0
    rw [hk0] at this
    exact this
  have hfR : ∀ W ∈ lookForRanges q, ∃ rows, (Scan.rows (rangeRows db W)) = .rows rows := fun W _ => ⟨_, rfl⟩
  have hfC : ∀ c ∈ otherConds q, ∃ rows, condRows db c = .rows rows := by
    intro c hcq
    obtain ⟨hcq', hnr⟩ := List.mem_filter.mp hcq
    obtain ⟨rows, e, _⟩ := scan_cond_B bs c (hq.conds c hcq') (by simpa using hnr)
    exact ⟨rows, e⟩
  have e1 := fold_scanStepB (lookForRanges q) (fun W => Scan.rows (rangeRows db W)) hfR none
  have e2 := fold_scanStepB (otherConds q) (fun c => condRows db c) hfC
    (interFold none ((lookForRanges q).map fun W => heightsOfScan (Scan.rows (rangeRows db W))))
  rw [interFold_append] at e2
  have hne : ((lookForRanges q).map fun W => heightsOfScan (Scan.rows (rangeRows db W))) ++
      ((otherConds q).map fun c => heightsOfScan (condRows db c)) ≠ [] := by
    obtain ⟨c0, hc0⟩ := List.exists_mem_of_ne_nil q hq.nonempty
    intro e
    have hh := List.append_eq_nil_iff.mp e
    by_cases hr0 : isRangeOp c0.op = true
    · obtain ⟨W, hW, _⟩ := (lookForRanges_spec q).covers c0 (List.mem_filter.mpr ⟨hc0, hr0⟩)
      rw [List.map_eq_nil_iff.mp hh.1] at hW; cases hW
    · have : c0 ∈ otherConds q := List.mem_filter.mpr ⟨hc0, by simpa using hr0⟩
      rw [List.map_eq_nil_iff.mp hh.2] at this; cases this
  obtain ⟨L, eL, mL⟩ := interFold_none _ hne
  have nL := interFold_none_nodup _ L eL
  refine ⟨sortNat (L.filter (has db)), ?_, sortNat_sorted _ (nL.filter _), ?_⟩
  · simp only [search, h1, h2, Bool.not_true, Bool.false_eq_true, if_false]
    show (match (otherConds q).foldl (fun st c => scanStep st (condRows db c))
        ((lookForRanges q).foldl (fun st r => scanStep st (.rows (rangeRows db r))) (.ok none)) with
      | .error e => e | .ok none => .heights [] | .ok (some hs) => .heights (sortNat (hs.filter (has db))))
        = .heights (sortNat (L.filter (has db)))
    rw [e1, e2, eL]
  · intro x
    rw [mem_sortNat, List.mem_filter, mL]
    simp only [List.mem_append, List.mem_map]
    constructor
    · rintro ⟨hall, _⟩
      refine ⟨?_, ?_⟩
      · intro W hW
        have := hall _ (Or.inl ⟨W, hW, rfl⟩)
        exact (scan_range_B bs W (hcanW W hW) x).mp this
      · intro c hcq
        obtain ⟨hcq', hnr⟩ := List.mem_filter.mp hcq
        obtain ⟨rows, e, hm⟩ := scan_cond_B bs c (hq.conds c hcq') (by simpa using hnr)
        have := hall _ (Or.inr ⟨c, hcq, rfl⟩)
        rw [e] at this
        exact (hm x).mp this
    · rintro ⟨hR, hC⟩
      refine ⟨?_, ?_⟩
      · rintro hs' (⟨W, hW, rfl⟩ | ⟨c, hcq, rfl⟩)
        · exact (scan_range_B bs W (hcanW W hW) x).mpr (hR W hW)
        · obtain ⟨hcq', hnr⟩ := List.mem_filter.mp hcq
          obtain ⟨rows, e, hm⟩ := scan_cond_B bs c (hq.conds c hcq') (by simpa using hnr)
          rw [e]
          exact (hm x).mpr (hC c hcq)
      · -- some scan exists and names an accepted block of this height
        obtain ⟨c0, hc0⟩ := List.exists_mem_of_ne_nil q hq.nonempty
        apply (has_indexAll bs x).mpr
        by_cases hr0 : isRangeOp c0.op = true
        · obtain ⟨W, hW, _⟩ := (lookForRanges_spec q).covers c0 (List.mem_filter.mpr ⟨hc0, hr0⟩)
          obtain ⟨b, hb, ha, hx, _⟩ := hR W hW
          exact ⟨b, hb, ha, hx⟩
        · obtain ⟨b, hb, ha, hx, _⟩ := hC c0 (List.mem_filter.mpr ⟨hc0, by simpa using hr0⟩)
          exact ⟨b, hb, ha, hx⟩

end Tmv.BlockIndex
