import Tmv.Model.SecretFrames
/-! Helper lemmas for C16 (frame layout, writer characterisation, reader steps). -/
namespace Tmv.SecretFrames
open Tmv

theorem total_eq : totalFrameSize = dataMaxSize + dataLenSize := by decide
theorem lenSize_eq : dataLenSize = 4 := by decide
theorem max_lt : dataMaxSize < 2 ^ 32 := by decide
theorem max_pos : 0 < dataMaxSize := by decide
theorem le32_length (n : Nat) : (le32 n).length = 4 := rfl
theorem unle32_le32 (n : Nat) (h : n < 2 ^ 32) (rest : Bytes) : unle32 (le32 n ++ rest) = n := by
  simp [unle32, le32]
  omega
theorem mkFrame_length (chunk junk : Bytes) (h : chunk.length ≤ dataMaxSize) :
    (mkFrame chunk junk).length = totalFrameSize := by
  simp [mkFrame, le32_length, total_eq, lenSize_eq]
  omega
theorem mkFrame_len (chunk junk : Bytes) (h : chunk.length ≤ dataMaxSize) :
    unle32 (mkFrame chunk junk) = chunk.length := by
  unfold mkFrame
  rw [List.append_assoc]
  exact unle32_le32 _ (by have := max_lt; omega) _
theorem mkFrame_chunk (chunk junk : Bytes) :
    ((mkFrame chunk junk).drop dataLenSize).take chunk.length = chunk := by
  unfold mkFrame
  rw [List.append_assoc, List.drop_left' (by simp [le32_length, lenSize_eq])]
  simp
theorem incrNonce_some (c : Nat) (h : c < maxU64) : incrNonce c = some (c + 1) := by
  simp [incrNonce]; omega

variable (enc : Nat → Bytes → Bytes) (dec : Nat → Bytes → Option Bytes) (junk : Nat → Bytes)

/-- decryption inverts encryption -/
def Correct : Prop := ∀ n m, dec n (enc n m) = some m
/-- a sealed frame is `aeadSizeOverhead` longer than its plaintext -/
def LenOK : Prop := ∀ n m, (enc n m).length = m.length + aeadSizeOverhead

theorem read_buf (s : RState) (k : Nat) (h : s.buf ≠ []) :
    read dec s k = ({ s with buf := s.buf.drop k }, .ok (s.buf.take k)) := by
  have : 0 < s.buf.length := List.length_pos_iff.mpr h
  simp [read, this]

theorem read_frame (hc : Correct enc dec) (hl : LenOK enc) (s : RState) (k : Nat) (ch j w : Bytes)
    (hb : s.buf = []) (hw : s.wire = enc s.nonce (mkFrame ch j) ++ w)
    (hch : ch.length ≤ dataMaxSize) (hn : s.nonce < maxU64) :
    read dec s k = (⟨ch.drop k, s.nonce + 1, w⟩, .ok (ch.take k)) := by
  have hlen : (enc s.nonce (mkFrame ch j)).length = sealedFrameSize := by
    rw [hl, mkFrame_length _ _ hch]; rfl
  have hS : 0 < sealedFrameSize := by decide
  have h1 : ¬ (s.wire.length = 0) := by rw [hw, List.length_append, hlen]; omega
  have h2 : ¬ (s.wire.length < sealedFrameSize) := by rw [hw, List.length_append, hlen]; omega
  have h3 : s.wire.take sealedFrameSize = enc s.nonce (mkFrame ch j) := by
    rw [hw]; exact List.take_left' hlen
  have h4 : s.wire.drop sealedFrameSize = w := by
    rw [hw]; exact List.drop_left' hlen
  unfold read
  simp only [hb, List.length_nil, Nat.lt_irrefl, if_false, h1, h2, h3, h4, hc _ _, incrNonce_some _ hn,
    mkFrame_len _ _ hch, mkFrame_chunk]
  have : ¬ (ch.length > dataMaxSize) := by omega
  simp [this]

theorem chunksF_flatten : ∀ (fuel : Nat) (data : Bytes), data.length ≤ fuel →
    (chunksF fuel data).flatten = data := by
  intro fuel
  induction fuel with
  | zero => intro d h; have : d = [] := List.length_eq_zero_iff.mp (by omega); simp [chunksF, this]
  | succ f ih =>
    intro d h
    unfold chunksF
    split
    · rename_i h0; have : d = [] := List.length_eq_zero_iff.mp (by omega); simp [this]
    · split
      · rename_i hlt
        simp only [List.flatten_cons]
        rw [ih _ (by simp; have := max_pos; omega)]
        exact List.take_append_drop _ _
      · simp

theorem chunksF_bounds : ∀ (fuel : Nat) (data : Bytes), ∀ ch ∈ chunksF fuel data,
    0 < ch.length ∧ ch.length ≤ dataMaxSize := by
  intro fuel
  induction fuel with
  | zero => intro d ch h; simp [chunksF] at h
  | succ f ih =>
    intro d ch h
    unfold chunksF at h
    split at h
    · simp at h
    · split at h
      · rename_i hlt
        rcases List.mem_cons.mp h with h1 | h1
        · subst h1; simp; have := max_pos; omega
        · exact ih _ _ h1
      · simp at h; subst h; omega

theorem writeLoop_ok : ∀ (fuel nonce : Nat) (data : Bytes) (n : Nat) (acc : List (Nat × Bytes)),
    data.length ≤ fuel → nonce + (chunksF fuel data).length ≤ maxU64 →
    writeLoop enc junk fuel nonce data true n acc =
      ⟨nonce + (chunksF fuel data).length, acc ++ sealFrom enc junk nonce (chunksF fuel data),
        n + data.length, .ok⟩ := by
  intro fuel
  induction fuel with
  | zero =>
    intro nonce d n acc h _
    have : d = [] := List.length_eq_zero_iff.mp (by omega)
    simp [writeLoop, chunksF, sealFrom, this]
  | succ f ih =>
    intro nonce d n acc h hno
    unfold writeLoop chunksF
    by_cases h0 : 0 < d.length
    · simp only [h0, not_true_eq_false, if_false]
      by_cases hlt : dataMaxSize < d.length
      · simp only [hlt, if_true]
        have hc : (chunksF (f+1) d).length = 1 + (chunksF f (d.drop dataMaxSize)).length := by
          rw [chunksF]; simp [h0, hlt]; omega
        rw [incrNonce_some _ (by omega)]
        dsimp only
        rw [ih _ _ _ _ (by simp; have := max_pos; omega) (by omega)]
        simp [sealFrom]
        refine ⟨by omega, ?_⟩
        have : (d.take dataMaxSize).length = dataMaxSize := by simp; omega
        omega
      · simp only [hlt, if_false]
        have hc : (chunksF (f+1) d).length = 1 := by
          rw [chunksF]; simp [h0, hlt]
        rw [incrNonce_some _ (by omega)]
        dsimp only
        cases f with
        | zero => simp [writeLoop, sealFrom]
        | succ g => simp [writeLoop, sealFrom]
    · have : d = [] := List.length_eq_zero_iff.mp (by omega)
      subst this
      simp [sealFrom]

/-- the reader is in step with an undisturbed sender: its wire starts with the sealed frames of
the chunks `pre` under its own counter, followed by `rest` -/
structure Hon (s : RState) (pre : List Bytes) (rest : Bytes) : Prop where
  wire : s.wire = wireOf (sealFrom enc junk s.nonce pre) ++ rest
  bounds : ∀ ch ∈ pre, 0 < ch.length ∧ ch.length ≤ dataMaxSize
  room : s.nonce + pre.length ≤ maxU64

theorem wireOf_cons (x : Nat × Bytes) (l : List (Nat × Bytes)) : wireOf (x :: l) = x.2 ++ wireOf l := by
  simp [wireOf]

theorem honest_step (hc : Correct enc dec) (hl : LenOK enc) (s : RState) (pre : List Bytes)
    (rest : Bytes) (k : Nat) (h : Hon enc junk s pre rest) (hne : s.buf ≠ [] ∨ pre ≠ []) :
    ∃ s' bs pre', read dec s k = (s', .ok bs) ∧ Hon enc junk s' pre' rest ∧
      bs ++ (s'.buf ++ pre'.flatten) = s.buf ++ pre.flatten ∧ (0 < k → bs ≠ []) ∧
      s'.nonce + pre'.length = s.nonce + pre.length := by
  by_cases hb : s.buf = []
  · rcases hne with hne | hne
    · exact absurd hb hne
    · match pre, hne, h with
      | ch :: pre', _, h =>
        have hbd := h.bounds ch (by simp)
        have hw : s.wire = enc s.nonce (mkFrame ch (junk s.nonce)) ++
            (wireOf (sealFrom enc junk (s.nonce + 1) pre') ++ rest) := by
          rw [h.wire]; simp [sealFrom, wireOf_cons, List.append_assoc]
        have hroom := h.room
        simp at hroom
        refine ⟨_, _, pre', read_frame enc dec hc hl s k ch _ _ hb hw hbd.2 (by omega), ?_, ?_, ?_, ?_⟩
        · exact ⟨rfl, fun c hc' => h.bounds c (by simp [hc']), by simp; omega⟩
        · simp only [hb, List.nil_append, List.flatten_cons]
          rw [← List.append_assoc, List.take_append_drop]
        · intro hk h0
          have : ch.take k = [] := h0
          simp at this
          rcases this with h1 | h1
          · omega
          · subst h1; simp at hbd
        · simp; omega
  · refine ⟨_, _, pre, read_buf dec s k hb, ⟨h.wire, h.bounds, h.room⟩, ?_, ?_, rfl⟩
    · show s.buf.take k ++ (s.buf.drop k ++ pre.flatten) = s.buf ++ pre.flatten
      rw [← List.append_assoc, List.take_append_drop]
    · intro hk h0
      have : s.buf.take k = [] := h0
      simp at this
      rcases this with h1 | h1
      · omega
      · exact hb h1


theorem runReads_cons (s : RState) (k : Nat) (ks : List Nat) :
    runReads dec s (k :: ks) =
      ((read dec s k).2 :: (runReads dec (read dec s k).1 ks).1, (runReads dec (read dec s k).1 ks).2) := by
  simp [runReads]

theorem runReads_append (s : RState) (a b : List Nat) :
    runReads dec s (a ++ b) =
      ((runReads dec s a).1 ++ (runReads dec (runReads dec s a).2 b).1,
        (runReads dec (runReads dec s a).2 b).2) := by
  induction a generalizing s with
  | nil => simp [runReads]
  | cons k ks ih => simp [runReads_cons, ih]

theorem okBytes_append (a b : List RResult) : okBytes (a ++ b) = okBytes a ++ okBytes b := by
  induction a with
  | nil => simp [okBytes]
  | cons r rs ih =>
    cases r with
    | ok x => simp [okBytes, ih]
    | error e => simp [okBytes, ih]

/-- As long as honest frames (or buffered bytes) remain, every `Read` succeeds and hands out the
next bytes; the schedule `rs` splits into the part served from honest frames and what follows
from the boundary state `⟨[], nonce + |pre|, rest⟩`. -/
theorem honest_run (hc : Correct enc dec) (hl : LenOK enc) (rest : Bytes) :
    ∀ (rs : List Nat) (s : RState) (pre : List Bytes), Hon enc junk s pre rest →
    ∃ rs1 rs2 res1 s1, rs = rs1 ++ rs2 ∧ runReads dec s rs1 = (res1, s1) ∧
      (∀ r ∈ res1, isOk r = true) ∧
      ((∀ k ∈ rs1, 0 < k) → rs1.length ≤ (okBytes res1).length) ∧
      ((rs2 = [] ∧ ∃ pre', Hon enc junk s1 pre' rest ∧
          okBytes res1 ++ (s1.buf ++ pre'.flatten) = s.buf ++ pre.flatten) ∨
       (okBytes res1 = s.buf ++ pre.flatten ∧ s1 = ⟨[], s.nonce + pre.length, rest⟩)) := by
  intro rs
  induction rs with
  | nil =>
    intro s pre h
    exact ⟨[], [], [], s, rfl, rfl, by simp, by simp [okBytes], Or.inl ⟨rfl, pre, h, by simp [okBytes]⟩⟩
  | cons k ks ih =>
    intro s pre h
    by_cases hne : s.buf ≠ [] ∨ pre ≠ []
    · obtain ⟨s', bs, pre', hrd, hh, hpend, hprog, hnon⟩ := honest_step enc dec junk hc hl s pre rest k h hne
      obtain ⟨rs1, rs2, res1, s1, hsplit, hrun, hok, hlen, hbr⟩ := ih s' pre' hh
      refine ⟨k :: rs1, rs2, .ok bs :: res1, s1, by simp [hsplit], ?_, ?_, ?_, ?_⟩
      · simp [runReads_cons, hrd, hrun]
      · intro r hr
        rcases List.mem_cons.mp hr with h1 | h1
        · subst h1; rfl
        · exact hok r h1
      · intro hpos
        have hk : 0 < k := hpos k (by simp)
        have h1 := hlen (fun x hx => hpos x (by simp [hx]))
        have h2 : bs ≠ [] := hprog hk
        have h3 : 0 < bs.length := List.length_pos_iff.mpr h2
        simp [okBytes]; omega
      · rcases hbr with ⟨h2, pre'', hh', he⟩ | ⟨he, hs1⟩
        · left
          refine ⟨h2, pre'', hh', ?_⟩
          simp only [okBytes, List.append_assoc]
          rw [he]; exact hpend
        · right
          refine ⟨?_, ?_⟩
          · simp only [okBytes]; rw [he]; exact hpend
          · rw [hs1, hnon]
    · have hb : s.buf = [] := by
        rcases Decidable.em (s.buf = []) with h1 | h1
        · exact h1
        · exact absurd (Or.inl h1) hne
      have hp : pre = [] := by
        rcases Decidable.em (pre = []) with h1 | h1
        · exact h1
        · exact absurd (Or.inr h1) hne
      subst hp
      refine ⟨[], k :: ks, [], s, rfl, rfl, by simp, by simp [okBytes], Or.inr ⟨by simp [okBytes, hb], ?_⟩⟩
      have hw := h.wire
      simp [sealFrom, wireOf] at hw
      cases s
      simp_all

theorem read_eof (s : RState) (k : Nat) (hb : s.buf = []) (hw : s.wire = []) :
    read dec s k = (s, .error .eof) := by
  simp [read, hb, hw]

theorem run_eof (n : Nat) : ∀ rs : List Nat,
    runReads dec ⟨[], n, []⟩ rs = (rs.map (fun _ => .error .eof), ⟨[], n, []⟩) := by
  intro rs
  induction rs with
  | nil => simp [runReads]
  | cons k ks ih => simp [runReads_cons, read_eof, ih]

theorem okBytes_eofs (rs : List Nat) : okBytes (rs.map (fun _ => (.error .eof : RResult))) = [] := by
  induction rs with
  | nil => rfl
  | cons k ks ih => simpa [okBytes] using ih

/-- a ciphertext that opens under a counter although the sender never produced it under that
counter (the INT-CTXT winning condition) -/
structure Forgery (sent : List (Nat × Bytes)) where
  n : Nat
  c : Bytes
  m : Bytes
  opens : dec n c = some m
  fresh : (n, c) ∉ sent

theorem mem_sealFrom : ∀ (l : List Bytes) (c n : Nat) (b : Bytes),
    (n, b) ∈ sealFrom enc junk c l ↔
      ∃ i, ∃ h : i < l.length, n = c + i ∧ b = enc (c + i) (mkFrame l[i] (junk (c + i))) := by
  intro l
  induction l with
  | nil => intro c n b; simp [sealFrom]
  | cons x xs ih =>
    intro c n b
    simp only [sealFrom, List.mem_cons, Prod.mk.injEq, ih]
    constructor
    · rintro (⟨h1, h2⟩ | ⟨i, hi, h1, h2⟩)
      · exact ⟨0, by simp, by simpa using h1, by simpa using h2⟩
      · refine ⟨i + 1, by simp; omega, by omega, ?_⟩
        have : c + (i + 1) = c + 1 + i := by omega
        simp only [this, List.getElem_cons_succ]; exact h2
    · rintro ⟨i, hi, h1, h2⟩
      cases i with
      | zero => left; exact ⟨by simpa using h1, by simpa using h2⟩
      | succ j =>
        right
        refine ⟨j, by simp at hi; omega, by omega, ?_⟩
        have : c + (j + 1) = c + 1 + j := by omega
        simp only [this, List.getElem_cons_succ] at h2; exact h2

/-- at the boundary: a block that the sender did not produce under the reader's counter makes
`Read` fail (or is a forgery) -/
theorem boundary_fails (sent : List (Nat × Bytes)) (n : Nat) (rest : Bytes) (k : Nat)
    (hfresh : (n, rest.take sealedFrameSize) ∉ sent) :
    (∃ e, (read dec ⟨[], n, rest⟩ k).2 = .error e ∧ (e = .eof ∨ e = .ueof ∨ e = .decrypt)) ∨
      Nonempty (Forgery dec sent) := by
  unfold read
  simp only [List.length_nil, Nat.lt_irrefl, if_false]
  split
  · left; exact ⟨_, rfl, Or.inl rfl⟩
  · split
    · left; exact ⟨_, rfl, Or.inr (Or.inl rfl)⟩
    · split
      · left; exact ⟨_, rfl, Or.inr (Or.inr rfl)⟩
      · rename_i frame hopen
        right; exact ⟨⟨n, _, frame, hopen, hfresh⟩⟩


theorem incrNonce_eq (c n : Nat) (h : incrNonce c = some n) : n = c + 1 := by
  unfold incrNonce at h
  split at h
  · cases h
  · exact (Option.some.inj h).symm

/-- whatever is on the wire: the reader's counter is `c + i` for some `i`, and what it has been
handed (`D`) plus what it buffers is exactly the first `i` chunks the sender sealed -/
def Pfx (c : Nat) (cs : List Bytes) (D : Bytes) (s : RState) : Prop :=
  ∃ i, i ≤ cs.length ∧ s.nonce = c + i ∧ D ++ s.buf = (cs.take i).flatten

theorem pfx_step (hc : Correct enc dec) (c : Nat) (cs : List Bytes)
    (hb : ∀ ch ∈ cs, ch.length ≤ dataMaxSize)
    (hno : ¬ Nonempty (Forgery dec (sealFrom enc junk c cs)))
    (D : Bytes) (s : RState) (k : Nat) (h : Pfx c cs D s) :
    Pfx c cs (D ++ okBytes [(read dec s k).2]) (read dec s k).1 := by
  obtain ⟨i, hi, hn, hd⟩ := h
  unfold read
  split
  · refine ⟨i, hi, hn, ?_⟩
    simp only [okBytes, List.append_nil, List.append_assoc, List.take_append_drop]
    exact hd
  · rename_i hbuf
    have hbuf' : s.buf = [] := List.length_eq_zero_iff.mp (by omega)
    split
    · exact ⟨i, hi, hn, by simpa [okBytes] using hd⟩
    · split
      · exact ⟨i, hi, hn, by simpa [okBytes] using hd⟩
      · simp only
        split
        · exact ⟨i, hi, hn, by simpa [okBytes] using hd⟩
        · rename_i frame hopen
          split
          · exact ⟨i, hi, hn, by simpa [okBytes] using hd⟩
          · rename_i n' hincr
            have hn' := incrNonce_eq _ _ hincr
            -- the block is one the sender produced under this counter
            have hmem : (s.nonce, s.wire.take sealedFrameSize) ∈ sealFrom enc junk c cs := by
              rcases Decidable.em ((s.nonce, s.wire.take sealedFrameSize) ∈ sealFrom enc junk c cs) with h1 | h1
              · exact h1
              · exact absurd ⟨⟨_, _, frame, hopen, h1⟩⟩ hno
            obtain ⟨i', hi', he1, he2⟩ := (mem_sealFrom enc junk cs c _ _).mp hmem
            have hii : i' = i := by omega
            subst hii
            have hfr : frame = mkFrame cs[i'] (junk (c + i')) := by
              rw [he2, hn, hc (c + i') _] at hopen
              exact (Option.some.inj hopen).symm
            have hbd := hb cs[i'] (List.getElem_mem hi')
            have hlen : unle32 frame = cs[i'].length := by rw [hfr]; exact mkFrame_len _ _ hbd
            have hchunk : (frame.drop dataLenSize).take cs[i'].length = cs[i'] := by
              rw [hfr]; exact mkFrame_chunk _ _
            have hnl : ¬ (dataMaxSize < cs[i'].length) := by omega
            simp only [hlen, hchunk, gt_iff_lt, hnl, if_false]
            refine ⟨i' + 1, by omega, by simp only []; omega, ?_⟩
            simp only [okBytes, List.append_nil, List.append_assoc, List.take_append_drop]
            rw [hbuf'] at hd
            simp only [List.append_nil] at hd
            rw [hd, List.take_succ_eq_append_getElem hi', List.flatten_append]
            simp

theorem pfx_run (hc : Correct enc dec) (c : Nat) (cs : List Bytes)
    (hb : ∀ ch ∈ cs, ch.length ≤ dataMaxSize)
    (hno : ¬ Nonempty (Forgery dec (sealFrom enc junk c cs))) :
    ∀ (rs : List Nat) (D : Bytes) (s : RState), Pfx c cs D s →
      Pfx c cs (D ++ okBytes (runReads dec s rs).1) (runReads dec s rs).2 := by
  intro rs
  induction rs with
  | nil => intro D s h; simpa [runReads, okBytes] using h
  | cons k ks ih =>
    intro D s h
    have h1 := pfx_step enc dec junk hc c cs hb hno D s k h
    have h2 := ih _ _ h1
    rw [runReads_cons]
    simp only []
    have : D ++ okBytes ((read dec s k).2 :: (runReads dec (read dec s k).1 ks).1) =
        D ++ okBytes [(read dec s k).2] ++ okBytes (runReads dec (read dec s k).1 ks).1 := by
      rw [List.append_assoc, ← okBytes_append]; rfl
    rw [this]; exact h2

/-- frames handed to the conn so far: counters strictly increasing, all in `[lo, hi)`, each frame
sealed under the counter it is listed with -/
def NonceOK (lo hi : Nat) (l : List (Nat × Bytes)) : Prop :=
  List.Pairwise (· < ·) (l.map (·.1)) ∧ ∀ x ∈ l, lo ≤ x.1 ∧ x.1 < hi ∧ ∃ m, x.2 = enc x.1 m

theorem nonceOK_mono (lo hi hi' : Nat) (l : List (Nat × Bytes)) (h : NonceOK enc lo hi l) (hh : hi ≤ hi') :
    NonceOK enc lo hi' l :=
  ⟨h.1, fun x hx => ⟨(h.2 x hx).1, by have := (h.2 x hx).2.1; omega, (h.2 x hx).2.2⟩⟩

theorem nonceOK_snoc (lo n : Nat) (l : List (Nat × Bytes)) (m : Bytes) (h : NonceOK enc lo n l) (hlo : lo ≤ n) :
    NonceOK enc lo (n + 1) (l ++ [(n, enc n m)]) := by
  refine ⟨?_, ?_⟩
  · rw [List.map_append, List.pairwise_append]
    refine ⟨h.1, by simp, ?_⟩
    intro a ha b hb
    simp at hb; subst hb
    obtain ⟨x, hx, rfl⟩ := List.mem_map.mp ha
    exact (h.2 x hx).2.1
  · intro x hx
    rcases List.mem_append.mp hx with h1 | h1
    · exact ⟨(h.2 x h1).1, by have := (h.2 x h1).2.1; omega, (h.2 x h1).2.2⟩
    · simp at h1; subst h1; exact ⟨hlo, by simp, m, rfl⟩

theorem writeLoop_nonces (lo : Nat) : ∀ (fuel nonce : Nat) (data : Bytes) (ok : Bool) (n : Nat)
    (acc : List (Nat × Bytes)), NonceOK enc lo nonce acc → lo ≤ nonce → nonce ≤ maxU64 →
    NonceOK enc lo (writeLoop enc junk fuel nonce data ok n acc).nonce
        (writeLoop enc junk fuel nonce data ok n acc).frames ∧
      nonce ≤ (writeLoop enc junk fuel nonce data ok n acc).nonce ∧
      (writeLoop enc junk fuel nonce data ok n acc).nonce ≤ maxU64 := by
  intro fuel
  induction fuel with
  | zero => intro nonce data ok n acc h hlo hmax; exact ⟨h, Nat.le_refl _, hmax⟩
  | succ f ih =>
    intro nonce data ok n acc h hlo hmax
    unfold writeLoop
    split
    · exact ⟨h, Nat.le_refl _, hmax⟩
    · simp only
      split
      · exact ⟨h, Nat.le_refl _, hmax⟩
      · rename_i nonce' hincr
        have hn' := incrNonce_eq _ _ hincr
        have hlt : nonce < maxU64 := by
          unfold incrNonce at hincr
          split at hincr
          · cases hincr
          · omega
        subst hn'
        split
        · exact ⟨nonceOK_mono enc lo nonce _ acc h (Nat.le_succ _), Nat.le_succ _, hlt⟩
        · have hsn := fun m => nonceOK_snoc enc lo nonce acc m h hlo
          refine ⟨?_, ?_, ?_⟩
          · exact (ih _ _ _ _ _ (hsn _) (by omega) (by omega)).1
          · exact Nat.le_trans (Nat.le_succ _) (ih _ _ _ _ _ (hsn _) (by omega) (by omega)).2.1
          · exact (ih _ _ _ _ _ (hsn _) (by omega) (by omega)).2.2

theorem writeAll_nonces : ∀ (calls : List (Bytes × Bool)) (c : Nat), c ≤ maxU64 →
    NonceOK enc c (writeAll enc junk c calls).1 (writeAll enc junk c calls).2 ∧
      c ≤ (writeAll enc junk c calls).1 ∧ (writeAll enc junk c calls).1 ≤ maxU64 := by
  intro calls
  induction calls with
  | nil => intro c hc; exact ⟨⟨by simp [writeAll], by simp [writeAll]⟩, Nat.le_refl _, hc⟩
  | cons x xs ih =>
    intro c hc
    obtain ⟨d, ok⟩ := x
    have h1 := writeLoop_nonces enc junk c d.length c d ok 0 [] ⟨by simp, by simp⟩ (Nat.le_refl _) hc
    have h2 := ih (write enc junk c d ok).nonce h1.2.2
    simp only [writeAll]
    refine ⟨⟨?_, ?_⟩, ?_, h2.2.2⟩
    · rw [List.map_append, List.pairwise_append]
      refine ⟨h1.1.1, h2.1.1, ?_⟩
      intro a ha b hb
      obtain ⟨x, hx, rfl⟩ := List.mem_map.mp ha
      obtain ⟨y, hy, rfl⟩ := List.mem_map.mp hb
      have := (h1.1.2 x hx).2.1
      have := (h2.1.2 y hy).1
      unfold write at *
      omega
    · intro x hx
      rcases List.mem_append.mp hx with h3 | h3
      · have a1 := h1.1.2 x h3
        have a2 := h2.2.1
        unfold write at *
        exact ⟨by omega, by omega, a1.2.2⟩
      · have a1 := h2.1.2 x h3
        have a2 := h1.2.1
        unfold write at *
        exact ⟨by omega, by omega, a1.2.2⟩
    · have := h1.2.1; have := h2.2.1; unfold write at *; omega

theorem sealFrom_append : ∀ (a b : List Bytes) (c : Nat),
    sealFrom enc junk c (a ++ b) = sealFrom enc junk c a ++ sealFrom enc junk (c + a.length) b := by
  intro a
  induction a with
  | nil => intro b c; simp [sealFrom]
  | cons x xs ih =>
    intro b c
    simp only [List.cons_append, sealFrom, ih, List.length_cons]
    have : c + 1 + xs.length = c + (xs.length + 1) := by omega
    rw [this]

theorem writeAll_ok : ∀ (ws : List Bytes) (c : Nat), c + (ws.flatMap chunks).length ≤ maxU64 →
    writeAll enc junk c (ws.map (·, true)) =
      (c + (ws.flatMap chunks).length, sealFrom enc junk c (ws.flatMap chunks)) := by
  intro ws
  induction ws with
  | nil => intro c _; simp [writeAll, sealFrom]
  | cons d ds ih =>
    intro c h
    simp only [List.flatMap_cons, List.length_append] at h
    have hw : write enc junk c d true =
        ⟨c + (chunks d).length, sealFrom enc junk c (chunks d), d.length, .ok⟩ := by
      unfold write chunks
      rw [writeLoop_ok enc junk _ _ _ _ _ (Nat.le_refl _) (by unfold chunks at h; omega)]
      simp
    simp only [List.map_cons, writeAll, hw]
    rw [ih _ (by omega)]
    simp only [List.flatMap_cons, List.length_append, sealFrom_append]
    refine Prod.ext ?_ rfl
    show c + (chunks d).length + (ds.flatMap chunks).length = c + ((chunks d).length + (ds.flatMap chunks).length)
    omega

theorem count_le_flatten : ∀ (l : List Bytes), (∀ x ∈ l, 0 < x.length) → l.length ≤ l.flatten.length := by
  intro l
  induction l with
  | nil => simp
  | cons x xs ih =>
    intro h
    have h1 := h x (by simp)
    have h2 := ih (fun y hy => h y (by simp [hy]))
    simp only [List.flatten_cons, List.length_append, List.length_cons]; omega

theorem chunks_flatten (d : Bytes) : (chunks d).flatten = d := chunksF_flatten _ _ (Nat.le_refl _)
theorem chunks_bounds (d : Bytes) : ∀ ch ∈ chunks d, 0 < ch.length ∧ ch.length ≤ dataMaxSize :=
  chunksF_bounds _ _

theorem allChunks_flatten (ws : List Bytes) : (ws.flatMap chunks).flatten = ws.flatten := by
  induction ws with
  | nil => rfl
  | cons d ds ih => simp [List.flatMap_cons, chunks_flatten, ih]

theorem allChunks_bounds (ws : List Bytes) : ∀ ch ∈ ws.flatMap chunks, 0 < ch.length ∧ ch.length ≤ dataMaxSize := by
  intro ch h
  obtain ⟨d, _, hd⟩ := List.mem_flatMap.mp h
  exact chunks_bounds d ch hd

theorem allChunks_count (ws : List Bytes) : (ws.flatMap chunks).length ≤ ws.flatten.length := by
  rw [← allChunks_flatten]
  exact count_le_flatten _ (fun x hx => (allChunks_bounds ws x hx).1)

end Tmv.SecretFrames
