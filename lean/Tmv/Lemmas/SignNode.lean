import Tmv.Model.SignNode
/-! Invariant of the receive-routine wrapper (`Tmv.SignNode`): every request ever issued was issued
while handling a record that is in the *synced* prefix of the WAL, and is a function of the
records up to it. -/
namespace Tmv.SignNode
open Tmv.Sign

variable {S I : Type}

theorem runCore_append (k : Core S I) (s : S) (w : List I) (i : I) :
    runCore k s (w ++ [i]) = (k.step (runCore k s w) i).1 := by
  induction w generalizing s with
  | nil => rfl
  | cons a w ih => exact ih _

theorem reqsAt_append (k : Core S I) (w r : List I) (j : Nat) (hj : j < w.length) :
    reqsAt k (w ++ r) j = reqsAt k w j := by
  unfold reqsAt
  rw [List.getElem?_append_left hj, List.take_append_of_le_length (Nat.le_of_lt hj)]

theorem reqsAt_last (k : Core S I) (w : List I) (i : I) :
    reqsAt k (w ++ [i]) w.length = (k.step (runCore k k.init w) i).2 := by
  unfold reqsAt
  simp

structure NInv (k : Core S I) (n : Node S I) : Prop where
  state : n.s = runCore k k.init n.wal
  synced : n.synced ≤ n.wal.length
  log : ∀ p ∈ n.log, p.1 < n.synced ∧ ∃ q0 ∈ reqsAt k n.wal p.1, p.2 = stamp p.2.ts q0

theorem ninv_start (k : Core S I) : NInv k (start k) :=
  { state := rfl, synced := Nat.le_refl _, log := (by intro p hp; cases hp) }

theorem ninv_handle (k : Core S I) {n : Node S I} (h : NInv k n) (i : I) (t : Int) :
    NInv k (handle k n i t) := by
  have hs' : n.synced ≤ (handle k n i t).synced := by
    simp only [handle]
    split
    · exact Nat.le_succ_of_le h.synced
    · exact Nat.le_refl _
  refine ⟨?_, ?_, ?_⟩
  · simp only [handle]
    rw [runCore_append, ← h.state]
  · simp only [handle, List.length_append, List.length_singleton]
    split
    · exact Nat.le_refl _
    · exact Nat.le_succ_of_le h.synced
  · intro p hp
    simp only [handle] at hp
    rcases List.mem_append.1 hp with hp | hp
    · obtain ⟨h1, q0, hq0, h2⟩ := h.log p hp
      refine ⟨Nat.lt_of_lt_of_le h1 hs', q0, ?_, h2⟩
      simp only [handle]
      rw [reqsAt_append k n.wal [i] p.1 (Nat.lt_of_lt_of_le h1 h.synced)]
      exact hq0
    · obtain ⟨q0, hq0, rfl⟩ := List.mem_map.1 hp
      have hne : (k.step n.s i).2.isEmpty = false := by
        cases hl : (k.step n.s i).2 with
        | nil => rw [hl] at hq0; cases hq0
        | cons a l => rfl
      refine ⟨?_, q0, ?_, rfl⟩
      · simp [handle, hne]
      · simp only [handle]
        rw [reqsAt_last, ← h.state]
        exact hq0

theorem ninv_run (k : Core S I) {n : Node S I} (h : NInv k n) (is : List (I × Int)) :
    NInv k (runNode k n is) := by
  induction is generalizing n with
  | nil => exact h
  | cons a is ih => exact ih (ninv_handle k h a.1 a.2)

theorem signBytes_stamp_eqModTs {q : Req} {t : Int} {a : SB} (ha : signBytes q = some a) :
    ∃ b, signBytes (stamp t q) = some b ∧ eqModTs a b = true := by
  unfold signBytes at ha ⊢
  unfold stamp
  simp only
  split at ha
  · rename_i hv
    simp only [hv, if_true]
    cases hk : q.kind <;> simp only [hk] at ha ⊢
    · injection ha with ha; subst ha
      exact ⟨_, rfl, by simp [eqModTs]⟩
    · injection ha with ha; subst ha
      exact ⟨_, rfl, by simp [eqModTs]⟩
  · cases ha

theorem reqStep_stamp (q : Req) (t : Int) : reqStep (stamp t q) = reqStep q := rfl

theorem runNode_wal (k : Core S I) (n : Node S I) (is : List (I × Int)) :
    (runNode k n is).wal = n.wal ++ is.map (·.1) := by
  induction is generalizing n with
  | nil => simp [runNode]
  | cons a is ih =>
    obtain ⟨i, t⟩ := a
    show (runNode k (handle k n i t) is).wal = _
    rw [ih]
    simp [handle]

/-- bridge to the byte-level WAL (C15): if the records a crash+recovery leaves (`hw'`, encoded) are a
prefix of the written ones and contain the durable ones (`Props.C15.durable_returned`:
`durableHead … <+: hw'`, `hw' <+: hs`), and the records this model counts as synced are among the
durable ones (`hist_sync`: FlushAndSync moves everything written under the fsync watermark), then
the decoded survivors are `Survives` -/
theorem survives_of_durable {B : Type} (enc : I → B) (dec : B → Option I) (hdec : ∀ a, dec (enc a) = some a)
    (n : Node S I) (hw' durable : List B) (h1 : durable <+: hw') (h2 : hw' <+: n.wal.map enc)
    (h3 : n.synced ≤ durable.length) : Survives n (hw'.filterMap dec) := by
  have hk : hw' = (n.wal.take hw'.length).map enc := by
    rw [List.map_take]
    exact List.prefix_iff_eq_take.1 h2
  have hfm : ∀ l : List I, (l.map enc).filterMap dec = l := by
    intro l
    induction l with
    | nil => rfl
    | cons a l ih => simp [hdec, ih]
  have hf : hw'.filterMap dec = n.wal.take hw'.length := by
    conv => lhs; rw [hk]
    exact hfm _
  have hlen : hw'.length ≤ n.wal.length := by
    have := h2.length_le; simpa using this
  refine ⟨?_, ?_⟩
  · rw [hf]; exact List.take_prefix _ _
  · rw [hf, List.length_take, Nat.min_eq_left hlen]
    exact Nat.le_trans h3 h1.length_le

end Tmv.SignNode
