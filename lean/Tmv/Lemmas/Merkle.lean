import Tmv.Model.Merkle
namespace Tmv.Merkle
variable (H : Bytes → Bytes)

theorem splitPoint_lt {n : Nat} (h : 2 ≤ n) : 0 < splitPoint n ∧ splitPoint n < n := by
  unfold splitPoint
  have hpos : 0 < 2 ^ Nat.log2 n := Nat.pow_pos (by decide)
  have hle : 2 ^ Nat.log2 n ≤ n := Nat.log2_self_le (by omega)
  simp only
  split
  · rename_i heq
    constructor
    · have : 2 ≤ 2 ^ Nat.log2 n := by omega
      omega
    · omega
  · constructor
    · exact hpos
    · omega

/-- inner hashes equal ⇒ components equal (given equal-length left parts) or a collision -/
theorem inner_inj (hl : Nat) {l1 r1 l2 r2 : Bytes} (h1 : l1.length = hl) (h2 : l2.length = hl)
    (h : innerHash H l1 r1 = innerHash H l2 r2) :
    (l1 = l2 ∧ r1 = r2) ∨ Nonempty (Collision H) := by
  by_cases hc : (1 :: (l1 ++ r1) : Bytes) = 1 :: (l2 ++ r2)
  · left
    have := List.cons.inj hc |>.2
    exact List.append_inj this (by omega)
  · right
    exact ⟨⟨_, _, hc, h⟩⟩

theorem leaf_inner_ne (x l r : Bytes) (h : leafHash H x = innerHash H l r) :
    Nonempty (Collision H) := by
  refine ⟨⟨0 :: x, 1 :: (l ++ r), ?_, h⟩⟩
  intro hc
  have := (List.cons.inj hc).1
  exact absurd this (by decide)

theorem rootF_len (L : Nat) (hlen : ∀ x, (H x).length = L) (fuel : Nat) (items : List Bytes) :
    (rootF H fuel items).length = L := by
  cases fuel with
  | zero => simp [rootF, hlen]
  | succ f =>
    match items with
    | [] => simp [rootF, hlen]
    | [x] => simp [rootF, leafHash, hlen]
    | a :: b :: c => simp [rootF, innerHash, hlen]

theorem fromAunts_len (L : Nat) (hlen : ∀ x, (H x).length = L) :
    ∀ (fuel idx total : Nat) (lh : Bytes) (aunts : List Bytes) (out : Bytes),
      lh.length = L → fromAunts H fuel idx total lh aunts = some out → out.length = L := by
  intro fuel
  induction fuel with
  | zero => intro idx total lh aunts out _ h; simp [fromAunts] at h
  | succ f ih =>
    intro idx total lh aunts out hl h
    unfold fromAunts at h
    split at h
    · simp at h
    · split at h
      · split at h
        · simp at h; subst h; exact hl
        · simp at h
      · split at h
        · simp at h
        · simp only at h
          split at h
          · simp [Option.map_eq_some_iff] at h
            obtain ⟨l, _, rfl⟩ := h
            simp [innerHash, hlen]
          · simp [Option.map_eq_some_iff] at h
            obtain ⟨l, _, rfl⟩ := h
            simp [innerHash, hlen]

/-- Position binding at the level of `computeHashFromAunts`. -/
theorem fromAunts_position (L : Nat) (hlen : ∀ x, (H x).length = L) :
    ∀ (fuel : Nat) (items : List Bytes) (idx : Nat) (lh : Bytes) (aunts : List Bytes),
      items.length ≤ fuel → items ≠ [] → lh.length = L →
      fromAunts H fuel idx items.length lh aunts = some (rootF H fuel items) →
      (∃ h : idx < items.length, lh = leafHash H (items[idx])) ∨ Nonempty (Collision H) := by
  intro fuel
  induction fuel with
  | zero =>
    intro items idx lh aunts hle hne
    cases items with
    | nil => exact absurd rfl hne
    | cons a t => simp at hle
  | succ f ih =>
    intro items idx lh aunts hle hne hl h
    match items, hne with
    | [x], _ =>
      simp [fromAunts, rootF] at h
      obtain ⟨rfl, _, rfl⟩ := h
      left
      exact ⟨by simp, by simp⟩
    | a :: b :: c, _ =>
      have hlen2 : 2 ≤ (a :: b :: c).length := by simp
      obtain ⟨hk0, hk⟩ := splitPoint_lt hlen2
      generalize hitems : (a :: b :: c) = items at *
      have hroot : rootF H (f+1) items =
          innerHash H (rootF H f (items.take (splitPoint items.length)))
                      (rootF H f (items.drop (splitPoint items.length))) := by
        subst hitems; simp [rootF]
      rw [hroot] at h
      unfold fromAunts at h
      have hn1 : ¬ items.length = 1 := by omega
      have hn0 : ¬ items.length = 0 := by omega
      split at h
      · simp at h
      · rename_i hnot
        simp only [hn1] at h
        split at h
        · cases h
        · rename_i last restRev _
          have hidx : idx < items.length := by
            rcases Nat.lt_or_ge idx items.length with h1 | h1
            · exact h1
            · exact absurd (Or.inl h1) hnot
          split at h
          · rename_i hlt
            simp [Option.map_eq_some_iff] at h
            obtain ⟨l, hl1, hl2⟩ := h
            have hll := fromAunts_len H L hlen _ _ _ _ _ _ hl hl1
            have hrl := rootF_len H L hlen f (items.take (splitPoint items.length))
            rcases inner_inj H L hll hrl hl2 with ⟨e1, _⟩ | hc
            · subst e1
              have htl : (items.take (splitPoint items.length)).length = splitPoint items.length := by
                simp; omega
              have := ih (items.take (splitPoint items.length)) idx lh restRev.reverse
                (by rw [htl]; omega) (by intro hh; rw [hh] at htl; simp at htl; omega) hl
                (by rw [htl]; exact hl1)
              rcases this with ⟨hi, he⟩ | hc
              · left; refine ⟨hidx, ?_⟩
                rw [he]; simp [List.getElem_take]
              · right; exact hc
            · right; exact hc
          · rename_i hge
            simp [Option.map_eq_some_iff] at h
            obtain ⟨r, hr1, hr2⟩ := h
            have hrl := fromAunts_len H L hlen _ _ _ _ _ _ hl hr1
            have hll := rootF_len H L hlen f (items.take (splitPoint items.length))
            by_cases hlastlen : last.length = L
            · rcases inner_inj H L hlastlen hll hr2 with ⟨_, e2⟩ | hc
              · subst e2
                have hdl : (items.drop (splitPoint items.length)).length = items.length - splitPoint items.length := by
                  simp
                have := ih (items.drop (splitPoint items.length)) (idx - splitPoint items.length) lh restRev.reverse
                  (by rw [hdl]; omega) (by intro hh; rw [hh] at hdl; simp at hdl; omega) hl
                  (by rw [hdl]; exact hr1)
                rcases this with ⟨hi, he⟩ | hc
                · left; refine ⟨hidx, ?_⟩
                  rw [he]; simp [List.getElem_drop]
                  have : splitPoint items.length + (idx - splitPoint items.length) = idx := by omega
                  simp [this]
                · right; exact hc
              · right; exact hc
            · right
              refine ⟨⟨1 :: (last ++ r), 1 :: (rootF H f (items.take (splitPoint items.length)) ++ rootF H f (items.drop (splitPoint items.length))), ?_, hr2⟩⟩
              intro hc
              have h1 := (List.cons.inj hc).2
              have := congrArg List.length h1
              simp [hrl, hll, rootF_len H L hlen] at this
              exact hlastlen this

end Tmv.Merkle
