import Tmv.Lemmas.LightConfirm
namespace Tmv.Light

/-- the header commits to the validator set attached to it -/
def Committed (b : LightBlock) : Prop := b.hdr.valsHash = b.vals.hash

/-- provider contract (both providers in /repo enforce it with `LightBlock.ValidateBasic`): every
light block handed to the client carries the validator set its header commits to -/
def ProvOK (p : Prov) : Prop := ∀ n ht lb, p.script n ht = .ok lb → Committed lb

def POK (c : Client) : Prop := ProvOK c.primary ∧ ∀ w ∈ c.witnesses, ProvOK w

theorem eraseIdxs_mem : ∀ (idxs : List Nat) (ws : List Prov) (w : Prov), w ∈ eraseIdxs ws idxs → w ∈ ws := by
  intro idxs
  induction idxs with
  | nil => intro ws w h; exact h
  | cons i r ih =>
    intro ws w h
    simp only [eraseIdxs] at h
    have h1 := ih _ _ h
    have h2 := List.dropLast_subset _ h1
    rcases List.mem_or_eq_of_mem_set h2 with h3 | h3
    · exact h3
    · cases ws with
      | nil => simp at h2
      | cons x xs =>
        rw [h3, List.getLastD_cons]
        exact List.getLastD_mem_cons

theorem removeWitnesses_mem {ws ws' : List Prov} {idxs : List Nat} (h : removeWitnesses ws idxs = some ws')
    (w : Prov) (hw : w ∈ ws') : w ∈ ws := by
  unfold removeWitnesses at h
  split at h
  · cases h
  · injection h with h; subst h; exact eraseIdxs_mem _ _ _ hw


theorem findLoop_pok (remove : Bool) (height : Int) :
    ∀ (arr : List Nat) (c : Client) (rm : List Nat) (last : Option PErr) (c' : Client)
      (r : Except Err LightBlock), POK c →
      findLoop remove height arr c rm last = (c', r) →
      POK c' ∧ ∀ lb, r = .ok lb → Committed lb := by
  intro arr
  induction arr with
  | nil =>
    intro c rm last c' r hp h
    simp only [findLoop] at h
    obtain ⟨rfl, rfl⟩ := Prod.mk.inj h
    refine ⟨?_, ?_⟩
    · split
      · rename_i ws hr
        exact ⟨hp.1, fun w hw => hp.2 w (removeWitnesses_mem hr w hw)⟩
      · exact hp
    · intro lb hlb; split at hlb <;> cases hlb
  | cons i rest ih =>
    intro c rm last c' r hp h
    simp only [findLoop] at h
    split at h
    · exact ih _ _ _ _ _ hp h
    · rename_i w hw
      have hwok : ProvOK w := hp.2 w (List.mem_of_getElem? hw)
      split at h
      · rename_i lb hr
        have hc : Committed lb := hwok _ _ _ hr
        have hws : ∀ x ∈ (if remove = true then c.witnesses else c.witnesses ++ [c.primary]), ProvOK x := by
          intro x hx
          split at hx
          · exact hp.2 x hx
          · rcases List.mem_append.mp hx with h1 | h1
            · exact hp.2 x h1
            · simp at h1; rw [h1]; exact hp.1
        split at h
        · obtain ⟨rfl, rfl⟩ := Prod.mk.inj h
          exact ⟨⟨hwok, fun x hx => by simp at hx⟩, fun lb h => by cases h⟩
        · rename_i ws' hr'
          obtain ⟨rfl, rfl⟩ := Prod.mk.inj h
          refine ⟨⟨hwok, fun x hx => hws x (removeWitnesses_mem hr' x hx)⟩, fun lb' h' => ?_⟩
          injection h' with h'
          rw [← h']; exact hc
      · split at h
        · refine ih _ _ _ _ _ ?_ h; exact ⟨hp.1, hp.2⟩
        · refine ih _ _ _ _ _ ?_ h; exact ⟨hp.1, hp.2⟩

theorem findNewPrimary_pok {c : Client} {height : Int} {remove : Bool} {c' : Client}
    {r : Except Err LightBlock} (hp : POK c) (h : findNewPrimary c height remove = (c', r)) :
    POK c' ∧ ∀ lb, r = .ok lb → Committed lb := by
  unfold findNewPrimary at h
  split at h
  · obtain ⟨rfl, rfl⟩ := Prod.mk.inj h; exact ⟨hp, fun lb h => by cases h⟩
  · exact findLoop_pok _ _ _ _ _ _ _ _ hp h

theorem lightBlockFromPrimary_pok {c : Client} {height : Int} {c' : Client}
    {r : Except Err LightBlock} (hp : POK c) (h : lightBlockFromPrimary c height = (c', r)) :
    POK c' ∧ ∀ lb, r = .ok lb → Committed lb := by
  unfold lightBlockFromPrimary at h
  simp only [ask] at h
  split at h
  · rename_i lb hr
    obtain ⟨rfl, rfl⟩ := Prod.mk.inj h
    refine ⟨⟨hp.1, hp.2⟩, fun lb' h' => ?_⟩
    injection h' with h'
    rw [← h']; exact hp.1 _ _ _ hr
  · refine findNewPrimary_pok ?_ h; exact ⟨hp.1, hp.2⟩


theorem handle_sameProv {c : Client} {trace : List LightBlock} {b : LightBlock}
    {idx : Nat} {now : Int} {c' : Client} {r : Option Err}
    (h : handleConflictingHeaders c trace b idx now = (c', r)) :
    c'.primary = c.primary ∧ c'.witnesses = c.witnesses := by
  unfold handleConflictingHeaders at h
  split at h
  · obtain ⟨rfl, _⟩ := Prod.mk.inj h; exact ⟨rfl, rfl⟩
  · simp only at h
    split at h
    · obtain ⟨rfl, _⟩ := Prod.mk.inj h; exact ⟨rfl, rfl⟩
    · split at h
      · split at h
        · obtain ⟨rfl, _⟩ := Prod.mk.inj h; exact ⟨rfl, rfl⟩
        · split at h
          · obtain ⟨rfl, _⟩ := Prod.mk.inj h; exact ⟨rfl, rfl⟩
          · obtain ⟨rfl, _⟩ := Prod.mk.inj h; exact ⟨rfl, rfl⟩
      · obtain ⟨rfl, _⟩ := Prod.mk.inj h; exact ⟨rfl, rfl⟩

theorem detectLoop_pok (trace : List LightBlock) (h : LightBlock) (now : Int) :
    ∀ (arr : List Nat) (c : Client) (matched : Bool) (rm : List Nat) (c' : Client)
      (r : Except Err Unit), POK c →
      detectLoop trace h now arr c matched rm = (c', r) → POK c' := by
  intro arr
  induction arr with
  | nil =>
    intro c matched rm c' r hp e
    simp only [detectLoop] at e
    split at e
    · obtain ⟨rfl, _⟩ := Prod.mk.inj e; exact hp
    · rename_i ws hr
      obtain ⟨rfl, _⟩ := Prod.mk.inj e
      exact ⟨hp.1, fun w hw => hp.2 w (removeWitnesses_mem hr w hw)⟩
  | cons i rest ih =>
    intro c matched rm c' r hp e
    simp only [detectLoop] at e
    split at e
    · exact ih _ _ _ _ _ hp e
    · split at e
      · refine ih _ _ _ _ _ ?_ e; exact ⟨hp.1, hp.2⟩
      · split at e
        · rename_i c2 err hh
          obtain ⟨rfl, _⟩ := Prod.mk.inj e
          have := handle_sameProv hh
          exact ⟨this.1 ▸ hp.1, this.2 ▸ hp.2⟩
        · rename_i c2 hh
          have := handle_sameProv hh
          refine ih _ _ _ _ _ ?_ e
          exact ⟨this.1 ▸ hp.1, this.2 ▸ hp.2⟩
      · refine ih _ _ _ _ _ ?_ e; exact ⟨hp.1, hp.2⟩
      · refine ih _ _ _ _ _ ?_ e; exact ⟨hp.1, hp.2⟩

theorem detectDivergence_pok {c : Client} {trace : List LightBlock} {now : Int} {c' : Client}
    {r : Except Err Unit} (hp : POK c) (e : detectDivergence c trace now = (c', r)) : POK c' := by
  unfold detectDivergence at e
  split at e
  · obtain ⟨rfl, _⟩ := Prod.mk.inj e; exact hp
  · split at e
    · obtain ⟨rfl, _⟩ := Prod.mk.inj e; exact hp
    · split at e
      · obtain ⟨rfl, _⟩ := Prod.mk.inj e; exact hp
      · exact detectLoop_pok _ _ _ _ _ _ _ _ _ hp e

theorem firstLoop_pok (h : LightBlock) :
    ∀ (arr : List Nat) (c : Client) (rm : List Nat) (c' : Client) (r : Except Err Unit), POK c →
      firstLoop h arr c rm = (c', r) → POK c' := by
  intro arr
  induction arr with
  | nil =>
    intro c rm c' r hp e
    simp only [firstLoop] at e
    obtain ⟨rfl, _⟩ := Prod.mk.inj e
    split
    · rename_i ws hr
      exact ⟨hp.1, fun w hw => hp.2 w (removeWitnesses_mem hr w hw)⟩
    · exact hp
  | cons i rest ih =>
    intro c rm c' r hp e
    simp only [firstLoop] at e
    split at e
    · exact ih _ _ _ _ hp e
    · split at e
      · refine ih _ _ _ _ ?_ e; exact ⟨hp.1, hp.2⟩
      · obtain ⟨rfl, _⟩ := Prod.mk.inj e; exact ⟨hp.1, hp.2⟩
      · refine ih _ _ _ _ ?_ e; exact ⟨hp.1, hp.2⟩
      · refine ih _ _ _ _ ?_ e; exact ⟨hp.1, hp.2⟩

theorem compareFirst_pok {c : Client} {h : LightBlock} {c' : Client} {r : Except Err Unit}
    (hp : POK c) (e : compareFirstHeaderWithWitnesses c h = (c', r)) : POK c' := by
  unfold compareFirstHeaderWithWitnesses at e
  split at e
  · obtain ⟨rfl, _⟩ := Prod.mk.inj e; exact hp
  · exact firstLoop_pok _ _ _ _ _ _ hp e


theorem seqLoop_pok (now : Int) (new : LightBlock) :
    ∀ (fuel : Nat) (c : Client) (verified : LightBlock) (height : Int) (trace : List LightBlock)
      (c' : Client) (r : Except Err (List LightBlock)), POK c →
      seqLoop now new fuel c verified height trace = (c', r) → POK c' := by
  intro fuel
  induction fuel with
  | zero =>
    intro c verified height trace c' r hp e
    simp only [seqLoop] at e
    obtain ⟨rfl, _⟩ := Prod.mk.inj e; exact hp
  | succ f ih =>
    intro c verified height trace c' r hp e
    simp only [seqLoop] at e
    split at e
    · obtain ⟨rfl, _⟩ := Prod.mk.inj e; exact hp
    · generalize hq : (if height = new.height then (c, Except.ok new) else lightBlockFromPrimary c height) = p at e
      obtain ⟨c1, ir⟩ := p
      have hp1 : POK c1 := by
        split at hq
        · obtain ⟨rfl, _⟩ := Prod.mk.inj hq; exact hp
        · exact (lightBlockFromPrimary_pok hp hq).1
      simp only at e
      split at e
      · obtain ⟨rfl, _⟩ := Prod.mk.inj e; exact hp1
      · split at e
        · exact ih _ _ _ _ _ _ hp1 e
        · split at e
          · split at e
            · obtain ⟨rfl, _⟩ := Prod.mk.inj e; exact hp1
            · split at e
              · rename_i c2 _ hf
                obtain ⟨rfl, _⟩ := Prod.mk.inj e
                exact (findNewPrimary_pok hp1 hf).1
              · rename_i c2 repl hf
                have hp2 := (findNewPrimary_pok hp1 hf).1
                split at e
                · obtain ⟨rfl, _⟩ := Prod.mk.inj e; exact hp2
                · exact ih _ _ _ _ _ _ hp2 e
          · obtain ⟨rfl, _⟩ := Prod.mk.inj e; exact hp1

theorem verifySequential_pok {c : Client} {trusted new : LightBlock} {now : Int} {c' : Client}
    {r : Except Err Unit} (hp : POK c) (e : verifySequential c trusted new now = (c', r)) : POK c' := by
  unfold verifySequential at e
  split at e
  · rename_i c1 _ hs
    obtain ⟨rfl, _⟩ := Prod.mk.inj e
    exact seqLoop_pok _ _ _ _ _ _ _ _ _ hp hs
  · rename_i c1 _ hs
    exact detectDivergence_pok (seqLoop_pok _ _ _ _ _ _ _ _ _ hp hs) e

theorem vsap_pok (now : Int) (trusted : LightBlock) :
    ∀ (fuel : Nat) (c : Client) (new : LightBlock) (c' : Client) (r : Except Err Unit), POK c →
      verifySkippingAgainstPrimary now trusted fuel c new = (c', r) → POK c' := by
  intro fuel
  induction fuel with
  | zero =>
    intro c new c' r hp e
    simp only [verifySkippingAgainstPrimary] at e
    obtain ⟨rfl, _⟩ := Prod.mk.inj e; exact hp
  | succ f ih =>
    intro c new c' r hp e
    simp only [verifySkippingAgainstPrimary] at e
    have hp1 : ∀ k, POK { c with calls := k } := fun k => ⟨hp.1, hp.2⟩
    split at e
    · exact detectDivergence_pok (hp1 _) e
    · split at e
      · split at e
        · obtain ⟨rfl, _⟩ := Prod.mk.inj e; exact hp1 _
        · split at e
          · rename_i c2 _ hf
            obtain ⟨rfl, _⟩ := Prod.mk.inj e
            exact (findNewPrimary_pok (hp1 _) hf).1
          · rename_i c2 repl hf
            have hp2 := (findNewPrimary_pok (hp1 _) hf).1
            split at e
            · obtain ⟨rfl, _⟩ := Prod.mk.inj e; exact hp2
            · exact ih _ _ _ _ hp2 e
      · obtain ⟨rfl, _⟩ := Prod.mk.inj e; exact hp1 _
    · exact detectDivergence_pok (hp1 _) e

theorem backwards_pok :
    ∀ (fuel : Nat) (c : Client) (verified new : LightBlock) (c' : Client) (r : Except Err Unit), POK c →
      backwards fuel c verified new = (c', r) → POK c' := by
  intro fuel
  induction fuel with
  | zero =>
    intro c verified new c' r hp e
    simp only [backwards] at e
    obtain ⟨rfl, _⟩ := Prod.mk.inj e; exact hp
  | succ f ih =>
    intro c verified new c' r hp e
    simp only [backwards] at e
    split at e
    · obtain ⟨rfl, _⟩ := Prod.mk.inj e; exact hp
    · split at e
      · rename_i c1 _ hl
        obtain ⟨rfl, _⟩ := Prod.mk.inj e
        exact (lightBlockFromPrimary_pok hp hl).1
      · rename_i c1 interim hl
        have hp1 := (lightBlockFromPrimary_pok hp hl).1
        split at e
        · split at e
          · rename_i c2 _ hf
            obtain ⟨rfl, _⟩ := Prod.mk.inj e
            exact (findNewPrimary_pok hp1 hf).1
          · rename_i c2 np hf
            have hp2 := (findNewPrimary_pok hp1 hf).1
            split at e
            · obtain ⟨rfl, _⟩ := Prod.mk.inj e; exact hp2
            · exact ih _ _ _ _ _ hp2 e
        · exact ih _ _ _ _ _ hp1 e


/-- providers obey the contract and every trusted block carries the validator set its header commits to -/
def CInv (c : Client) : Prop :=
  POK c ∧ (∀ b ∈ c.store.blocks, Committed b) ∧ (∀ l, c.latest = some l → Committed l)

theorem updateTrusted_cinv {c : Client} {l : LightBlock} (h : CInv c) (hl : Committed l) :
    CInv (updateTrustedLightBlock c l) := by
  obtain ⟨h1, h2, h3⟩ := h
  unfold updateTrustedLightBlock
  refine ⟨⟨h1.1, h1.2⟩, ?_, ?_⟩
  · intro b hb
    simp only at hb
    have hb' : b ∈ (c.store.save l).blocks := by
      split at hb
      · exact mem_prune hb
      · exact hb
    rcases mem_insertBlock hb' with rfl | hm
    · exact hl
    · exact h2 b hm
  · intro x hx
    simp only at hx
    split at hx
    · injection hx with hx; rw [← hx]; exact hl
    · rename_i t ht
      split at hx
      · injection hx with hx; rw [← hx]; exact hl
      · injection hx with hx; rw [← hx]; exact h3 t ht

theorem CInv.of {c c' : Client} (h : CInv c) (hs : SameTrust c c') (hp : POK c') : CInv c' := by
  refine ⟨hp, ?_, ?_⟩
  · rw [hs.2.1]; exact h.2.1
  · rw [hs.2.2]; exact h.2.2

theorem verifyLightBlock_cinv {c : Client} {new : LightBlock} {now : Int}
    {c' : Client} {r : Except Err Unit} (h : CInv c) (hn : Committed new)
    (e : verifyLightBlock c new now = (c', r)) : CInv c' := by
  unfold verifyLightBlock at e
  split at e
  · obtain ⟨rfl, _⟩ := Prod.mk.inj e; exact h
  · rename_i latest hl
    simp only at e
    generalize hp : (if new.height ≥ latest.height then
        if c.cfg.sequential = true then verifySequential c latest new now
        else verifySkippingAgainstPrimary now latest c.cfg.fuel c new
      else if new.height < c.store.firstHeight then
        match c.store.get c.store.firstHeight with
        | none => (c, Except.error (Err.msg "first"))
        | some fb => backwards c.cfg.fuel c fb new
      else
        match c.store.before new.height with
        | none => (c, Except.error (Err.msg "before"))
        | some cb =>
          if c.cfg.sequential = true then verifySequential c cb new now
          else verifySkippingAgainstPrimary now cb c.cfg.fuel c new) = p at e
    obtain ⟨c1, r1⟩ := p
    have key : SameTrust c c1 ∧ POK c1 := by
      split at hp
      · split at hp
        · exact ⟨(verifySequential_spec c.cfg (· = latest.hash) rfl (Reach.root _ rfl) hp).1, verifySequential_pok h.1 hp⟩
        · exact ⟨(vsap_spec c.cfg (· = latest.hash) now latest _ _ _ _ _ rfl (Reach.root _ rfl) hp).1,
            vsap_pok now latest _ _ _ _ _ h.1 hp⟩
      · split at hp
        · split at hp
          · obtain ⟨rfl, rfl⟩ := Prod.mk.inj hp
            exact ⟨⟨rfl, rfl, rfl⟩, h.1⟩
          · rename_i fb hfb
            exact ⟨(backwards_spec c.cfg (· = fb.hash) _ _ _ _ _ _ (Reach.root _ rfl) hp).1,
              backwards_pok _ _ _ _ _ _ h.1 hp⟩
        · split at hp
          · obtain ⟨rfl, rfl⟩ := Prod.mk.inj hp
            exact ⟨⟨rfl, rfl, rfl⟩, h.1⟩
          · rename_i cb hcb
            split at hp
            · exact ⟨(verifySequential_spec c.cfg (· = cb.hash) rfl (Reach.root _ rfl) hp).1, verifySequential_pok h.1 hp⟩
            · exact ⟨(vsap_spec c.cfg (· = cb.hash) now cb _ _ _ _ _ rfl (Reach.root _ rfl) hp).1,
                vsap_pok now cb _ _ _ _ _ h.1 hp⟩
    have hi1 : CInv c1 := h.of key.1 key.2
    simp only at e
    split at e
    · obtain ⟨rfl, _⟩ := Prod.mk.inj e; exact hi1
    · obtain ⟨rfl, _⟩ := Prod.mk.inj e
      exact updateTrusted_cinv hi1 hn

theorem verifyLightBlockAtHeight_cinv {c : Client} {height now : Int}
    {c' : Client} {r : Except Err LightBlock} (h : CInv c)
    (e : verifyLightBlockAtHeight c height now = (c', r)) : CInv c' := by
  unfold verifyLightBlockAtHeight at e
  split at e
  · obtain ⟨rfl, _⟩ := Prod.mk.inj e; exact h
  · simp only at e
    split at e
    · obtain ⟨rfl, _⟩ := Prod.mk.inj e; exact h
    · split at e
      · rename_i c1 _ hl
        obtain ⟨rfl, _⟩ := Prod.mk.inj e
        exact h.of (lightBlockFromPrimary_same hl) (lightBlockFromPrimary_pok h.1 hl).1
      · rename_i c1 l hl
        have hp := lightBlockFromPrimary_pok h.1 hl
        have h1 := h.of (lightBlockFromPrimary_same hl) hp.1
        split at e
        · rename_i c2 _ hv
          obtain ⟨rfl, _⟩ := Prod.mk.inj e
          exact verifyLightBlock_cinv h1 (hp.2 l rfl) hv
        · rename_i c2 _ hv
          obtain ⟨rfl, _⟩ := Prod.mk.inj e
          exact verifyLightBlock_cinv h1 (hp.2 l rfl) hv

theorem update_cinv {c : Client} {now : Int} {c' : Client} {r : Except Err (Option LightBlock)}
    (h : CInv c) (e : update c now = (c', r)) : CInv c' := by
  unfold update at e
  simp only at e
  split at e
  · obtain ⟨rfl, _⟩ := Prod.mk.inj e; exact h
  · split at e
    · rename_i c1 _ hl
      obtain ⟨rfl, _⟩ := Prod.mk.inj e
      exact h.of (lightBlockFromPrimary_same hl) (lightBlockFromPrimary_pok h.1 hl).1
    · rename_i c1 l hl
      have hp := lightBlockFromPrimary_pok h.1 hl
      have h1 := h.of (lightBlockFromPrimary_same hl) hp.1
      split at e
      · split at e
        · rename_i c2 _ hv
          obtain ⟨rfl, _⟩ := Prod.mk.inj e
          exact verifyLightBlock_cinv h1 (hp.2 l rfl) hv
        · rename_i c2 _ hv
          obtain ⟨rfl, _⟩ := Prod.mk.inj e
          exact verifyLightBlock_cinv h1 (hp.2 l rfl) hv
      · obtain ⟨rfl, _⟩ := Prod.mk.inj e; exact h1

theorem newClient_cinv {cfg : Config} {primary : Prov} {witnesses : List Prov}
    {sched : List Prov → List Nat} {period height : Int} {root : Hash} {c : Client}
    (hp0 : ProvOK primary) (hw0 : ∀ w ∈ witnesses, ProvOK w)
    (e : newClient cfg primary witnesses sched period height root = .ok c) : CInv c := by
  unfold newClient at e
  split at e
  · cases e
  · split at e
    · cases e
    · split at e
      · cases e
      · split at e
        · cases e
        · simp only at e
          split at e
          · cases e
          · rename_i c1 l hl
            have hpk := lightBlockFromPrimary_pok (by exact ⟨hp0, hw0⟩) hl
            have hs1 := lightBlockFromPrimary_same hl
            split at e
            · cases e
            · split at e
              · cases e
              · split at e
                · cases e
                · split at e
                  · cases e
                  · rename_i c2 _ hc
                    have hs2 := compareFirst_same hc
                    have hp2 := compareFirst_pok hpk.1 hc
                    injection e with e
                    subst e
                    have hs := hs1.trans hs2
                    have hi0 : CInv c2 := by
                      refine ⟨hp2, ?_, ?_⟩
                      · rw [hs.2.1]; intro b hb; simp at hb
                      · rw [hs.2.2]; intro l hl; simp at hl
                    exact updateTrusted_cinv hi0 (hpk.2 l rfl)

end Tmv.Light
