import Tmv.Model.MempoolV0
import Tmv.Lemmas.MempoolList
/-! Invariants of the v0 mempool model and their preservation by every operation. -/
namespace Tmv.Mempool.V0
open Tmv Tmv.Mempool

/-- structural invariant on (pool list, key index, byte counter) -/
structure InvC (txs : List MemTx) (map : List Bytes) (bytes : Int) : Prop where
  nodup : (txs.map (·.tx)).Nodup
  map : map.Perm (txs.map (·.tx))
  bytes : bytes = bytesOf (txs.map (·.tx))

def Inv (s : State) : Prop := InvC s.txs s.txsMap s.txsBytes

/-- the configured limits hold -/
def Bounded (s : State) : Prop :=
  (s.txs.length : Int) ≤ s.cfg.size ∧ s.txsBytes ≤ s.cfg.maxTxsBytes

/-- `MempoolConfig.ValidateBasic` (the part about these limits) -/
def CfgValid (c : Cfg) : Prop := 0 ≤ c.size ∧ 0 ≤ c.maxTxsBytes

theorem inv_init (cfg : Cfg) (h : Int) : Inv (init cfg h) :=
  ⟨by simp [init], by simp [init], by simp [init, bytesOf]⟩

theorem bounded_init (cfg : Cfg) (h : Int) (hv : CfgValid cfg) : Bounded (init cfg h) := by
  unfold Bounded init; simp; exact hv

theorem mem_map_iff {s : State} (hi : Inv s) (k : Bytes) : k ∈ s.txsMap ↔ k ∈ keys s :=
  hi.map.mem_iff

/-! ### addTx / removeTx -/

theorem keys_addTx (s : State) (m : MemTx) : keys (addTx s m) = keys s ++ [m.tx] := by
  simp [keys, addTx]

theorem keys_removeTx (s : State) (tx : Bytes) (b : Bool) :
    keys (removeTx s tx b) = (keys s).erase tx := by
  simp only [keys, removeTx]
  exact map_eraseP_key (fun e : MemTx => e.tx) tx s.txs

theorem inv_addTx {s : State} (hi : Inv s) (m : MemTx) (hn : m.tx ∉ s.txsMap) :
    Inv (addTx s m) := by
  have hk : m.tx ∉ keys s := fun h => hn ((mem_map_iff hi _).2 h)
  refine ⟨?_, ?_, ?_⟩
  · show (keys (addTx s m)).Nodup
    rw [keys_addTx, List.nodup_append]
    refine ⟨hi.nodup, by simp, ?_⟩
    intro a ha b hb
    simp at hb; subst hb
    intro e; subst e; exact hk ha
  · show (mapStore s.txsMap m.tx).Perm (keys (addTx s m))
    rw [keys_addTx]
    simp only [mapStore, hn, if_false]
    exact hi.map.append_right _
  · show s.txsBytes + (m.tx.length : Int) = bytesOf (keys (addTx s m))
    rw [keys_addTx, bytesOf_append, hi.bytes]; rfl

theorem inv_removeTx {s : State} (hi : Inv s) (tx : Bytes) (b : Bool) (hm : tx ∈ keys s) :
    Inv (removeTx s tx b) := by
  refine ⟨?_, ?_, ?_⟩
  · show (keys (removeTx s tx b)).Nodup
    rw [keys_removeTx]; exact hi.nodup.erase _
  · show (s.txsMap.erase tx).Perm (keys (removeTx s tx b))
    rw [keys_removeTx]; exact hi.map.erase _
  · show s.txsBytes - (tx.length : Int) = bytesOf (keys (removeTx s tx b))
    rw [keys_removeTx, bytesOf_erase _ _ hm, hi.bytes]; rfl

theorem not_mem_removeTx {s : State} (hi : Inv s) (tx : Bytes) (b : Bool) :
    tx ∉ keys (removeTx s tx b) := by
  rw [keys_removeTx]
  intro h
  exact ((hi.nodup.mem_erase_iff).1 h).1 rfl

theorem keys_removeTx_sub (s : State) (tx : Bytes) (b : Bool) :
    ∀ k, k ∈ keys (removeTx s tx b) → k ∈ keys s := by
  intro k h; rw [keys_removeTx] at h; exact List.mem_of_mem_erase h

theorem bounded_removeTx {s : State} (hb : Bounded s) (tx : Bytes) (b : Bool) :
    Bounded (removeTx s tx b) := by
  unfold Bounded at *
  simp only [removeTx]
  have h1 : (s.txs.eraseP (fun e => decide (e.tx = tx))).length ≤ s.txs.length :=
    List.length_eraseP_le
  constructor <;> omega

theorem bounded_addTx {s : State} (hb : Bounded s) (m : MemTx)
    (hf : isFull s m.tx.length = false) : Bounded (addTx s m) := by
  unfold Bounded at *
  unfold isFull at hf
  simp at hf
  simp only [addTx, List.length_append, List.length_cons, List.length_nil]
  constructor <;> omega

/-! ### resCbFirstTime / checkTx -/

theorem inv_resCbFirstTime {s : State} (hi : Inv s) (tx : Bytes) (v : Verdict) :
    Inv (resCbFirstTime s tx v) := by
  unfold resCbFirstTime
  split
  · split
    · exact hi
    · split
      · exact hi
      · rename_i hn; exact inv_addTx hi _ hn
  · split
    · exact hi
    · exact hi

theorem bounded_resCbFirstTime {s : State} (hb : Bounded s) (tx : Bytes) (v : Verdict) :
    Bounded (resCbFirstTime s tx v) := by
  unfold resCbFirstTime
  split
  · split
    · exact hb
    · split
      · exact hb
      · rename_i hf _
        exact bounded_addTx hb _ (by simpa using hf)
  · split
    · exact hb
    · exact hb

theorem inv_checkTx {s : State} (hi : Inv s) (tx : Bytes) (v : Verdict) :
    Inv (checkTx s tx v).1 := by
  unfold checkTx
  split
  · exact hi
  · split
    · exact hi
    · split
      · exact hi
      · simp only
        split
        · exact hi
        · exact inv_resCbFirstTime (s := { s with cache := (s.cache.push tx).1 }) hi tx v

theorem bounded_checkTx {s : State} (hb : Bounded s) (tx : Bytes) (v : Verdict) :
    Bounded (checkTx s tx v).1 := by
  unfold checkTx
  split
  · exact hb
  · split
    · exact hb
    · split
      · exact hb
      · simp only
        split
        · exact hb
        · exact bounded_resCbFirstTime (s := { s with cache := (s.cache.push tx).1 }) hb tx v

/-! ### Update -/

theorem inv_commitOne {s : State} (hi : Inv s) (c : Bytes × Nat) : Inv (commitOne s c) := by
  unfold commitOne
  simp only
  split
  · rename_i hm
    exact inv_removeTx (s := { s with cache := _ }) hi c.1 false ((mem_map_iff hi _).1 hm)
  · exact hi

theorem bounded_commitOne {s : State} (hb : Bounded s) (c : Bytes × Nat) :
    Bounded (commitOne s c) := by
  unfold commitOne
  simp only
  split
  · exact bounded_removeTx (s := { s with cache := _ }) hb c.1 false
  · exact hb

theorem keys_commitOne_sub (s : State) (c : Bytes × Nat) :
    ∀ k, k ∈ keys (commitOne s c) → k ∈ keys s := by
  unfold commitOne
  simp only
  split
  · exact keys_removeTx_sub { s with cache := _ } c.1 false
  · intro k h; exact h

theorem not_mem_commitOne {s : State} (hi : Inv s) (c : Bytes × Nat) :
    c.1 ∉ keys (commitOne s c) := by
  unfold commitOne
  simp only
  split
  · exact not_mem_removeTx (s := { s with cache := _ }) hi c.1 false
  · rename_i hn
    intro h; exact hn ((mem_map_iff hi _).2 h)

theorem inv_commitAll (block : List (Bytes × Nat)) : ∀ {s : State}, Inv s →
    Inv (block.foldl commitOne s) := by
  induction block with
  | nil => intro s h; exact h
  | cons c r ih => intro s h; exact ih (inv_commitOne h c)

theorem bounded_commitAll (block : List (Bytes × Nat)) : ∀ {s : State}, Bounded s →
    Bounded (block.foldl commitOne s) := by
  induction block with
  | nil => intro s h; exact h
  | cons c r ih => intro s h; exact ih (bounded_commitOne h c)

theorem keys_commitAll_sub (block : List (Bytes × Nat)) : ∀ (s : State),
    ∀ k, k ∈ keys (block.foldl commitOne s) → k ∈ keys s := by
  induction block with
  | nil => intro s k h; exact h
  | cons c r ih => intro s k h; exact keys_commitOne_sub s c k (ih _ k h)

theorem not_mem_commitAll (block : List (Bytes × Nat)) : ∀ {s : State}, Inv s →
    ∀ c ∈ block, c.1 ∉ keys (block.foldl commitOne s) := by
  induction block with
  | nil => intro s _ c hc; cases hc
  | cons d r ih =>
    intro s hi c hc
    cases hc with
    | head => intro h; exact not_mem_commitOne hi _ (keys_commitAll_sub r _ _ h)
    | tail _ hc => exact ih (inv_commitOne hi d) c hc

/-- commitOne / removeTx never touch cfg, post -/
theorem cfg_removeTx (s : State) (tx : Bytes) (b : Bool) :
    (removeTx s tx b).cfg = s.cfg ∧ (removeTx s tx b).post = s.post := ⟨rfl, rfl⟩

theorem cfg_commitOne (s : State) (c : Bytes × Nat) :
    (commitOne s c).cfg = s.cfg ∧ (commitOne s c).post = s.post := by
  unfold commitOne; simp only; split <;> exact ⟨rfl, rfl⟩

theorem cfg_commitAll (block : List (Bytes × Nat)) : ∀ (s : State),
    (block.foldl commitOne s).cfg = s.cfg ∧ (block.foldl commitOne s).post = s.post := by
  induction block with
  | nil => intro s; exact ⟨rfl, rfl⟩
  | cons c r ih =>
    intro s
    have h1 := ih (commitOne s c)
    have h2 := cfg_commitOne s c
    exact ⟨h1.1.trans h2.1, h1.2.trans h2.2⟩

theorem cfg_resCbRecheck (s : State) (tx : Bytes) (v : Verdict) :
    (resCbRecheck s tx v).cfg = s.cfg ∧ (resCbRecheck s tx v).post = s.post := by
  unfold resCbRecheck; split <;> exact ⟨rfl, rfl⟩

/-- the recheck fold over a snapshot `l` of entries that are all still in the pool -/
theorem recheck_fold (rv : Bytes → Verdict) (l : List MemTx) : ∀ (st : State), Inv st →
    (∀ e ∈ l, e.tx ∈ keys st) → (l.map (·.tx)).Nodup →
    let r := l.foldl (fun st e => resCbRecheck st e.tx (rv e.tx)) st
    Inv r ∧ r.cfg = st.cfg ∧ r.post = st.post ∧ (∀ k, k ∈ keys r → k ∈ keys st) ∧
    (∀ k, k ∈ keys r → k ∈ l.map (·.tx) → accepted st.post (rv k) = true) ∧
    (∀ k, k ∉ keys st → st.cache.has k = true → r.cache.has k = true) := by
  induction l with
  | nil => intro st hi _ _; exact ⟨hi, rfl, rfl, fun _ h => h, fun _ _ h => (by cases h), fun _ _ h => h⟩
  | cons e rest ih =>
    intro st hi hmem hnd
    simp only [List.foldl_cons]
    have hnd' : (rest.map (·.tx)).Nodup := (List.nodup_cons.1 hnd).2
    have hne : ∀ e' ∈ rest, e'.tx ≠ e.tx := by
      intro e' he' heq
      have hm : e'.tx ∈ rest.map (·.tx) := List.mem_map_of_mem (f := (·.tx)) he'
      rw [heq] at hm
      exact (List.nodup_cons.1 hnd).1 hm
    by_cases hacc : accepted st.post (rv e.tx) = true
    · have hst : resCbRecheck st e.tx (rv e.tx) = st := by simp [resCbRecheck, hacc]
      rw [hst]
      obtain ⟨h1, h2, h3, h4, h5, h6⟩ := ih st hi (fun e' he' => hmem e' (List.mem_cons_of_mem _ he')) hnd'
      refine ⟨h1, h2, h3, h4, ?_, h6⟩
      intro k hk hkl
      simp only [List.map_cons, List.mem_cons] at hkl
      rcases hkl with rfl | hkl
      · exact hacc
      · exact h5 k hk hkl
    · have hst : resCbRecheck st e.tx (rv e.tx) = removeTx st e.tx (!st.cfg.keepInvalid) := by
        simp [resCbRecheck, hacc]
      rw [hst]
      have hin : e.tx ∈ keys st := hmem e (List.mem_cons_self)
      have hi1 := inv_removeTx hi e.tx (!st.cfg.keepInvalid) hin
      have hmem1 : ∀ e' ∈ rest, e'.tx ∈ keys (removeTx st e.tx (!st.cfg.keepInvalid)) := by
        intro e' he'
        rw [keys_removeTx]
        exact (List.mem_erase_of_ne (hne e' he')).2 (hmem e' (List.mem_cons_of_mem _ he'))
      obtain ⟨h1, h2, h3, h4, h5, h6⟩ := ih _ hi1 hmem1 hnd'
      refine ⟨h1, h2, h3, fun k hk => keys_removeTx_sub _ _ _ k (h4 k hk), ?_, ?_⟩
      rotate_left
      · intro k hkn hkc
        apply h6 k (fun h => hkn (keys_removeTx_sub _ _ _ k h))
        have hkne : k ≠ e.tx := fun h => hkn (h ▸ hin)
        show (if (!st.cfg.keepInvalid) = true then st.cache.remove e.tx else st.cache).has k = true
        split
        · exact Cache.remove_has_ne _ _ _ hkne hkc
        · exact hkc
      intro k hk hkl
      have hk1 := h4 k hk
      have hkne : k ≠ e.tx := fun h => not_mem_removeTx hi e.tx (!st.cfg.keepInvalid) (h ▸ hk1)
      simp only [List.map_cons, List.mem_cons] at hkl
      rcases hkl with rfl | hkl
      · exact absurd rfl hkne
      · exact h5 k hk hkl

theorem bounded_recheck_fold (rv : Bytes → Verdict) (l : List MemTx) : ∀ (st : State),
    Bounded st → Bounded (l.foldl (fun st e => resCbRecheck st e.tx (rv e.tx)) st) := by
  induction l with
  | nil => intro st h; exact h
  | cons e rest ih =>
    intro st h
    simp only [List.foldl_cons]
    apply ih
    unfold resCbRecheck
    split
    · exact h
    · exact bounded_removeTx h _ _

theorem recheckTxs_spec {s : State} (hi : Inv s) (rv : Bytes → Verdict) :
    Inv (recheckTxs s rv) ∧ (recheckTxs s rv).cfg = s.cfg ∧ (recheckTxs s rv).post = s.post ∧
    (∀ k, k ∈ keys (recheckTxs s rv) → k ∈ keys s) ∧
    (∀ k, k ∈ keys (recheckTxs s rv) → accepted s.post (rv k) = true) ∧
    (∀ k, k ∉ keys s → s.cache.has k = true → (recheckTxs s rv).cache.has k = true) := by
  have h := recheck_fold rv s.txs s hi (fun e he => List.mem_map_of_mem (f := (·.tx)) he) hi.nodup
  obtain ⟨h1, h2, h3, h4, h5, h6⟩ := h
  exact ⟨h1, h2, h3, h4, fun k hk => h5 k hk (h4 k hk), h6⟩

/-- the state `Update` works on after setting height and filters -/
def updHead (s : State) (h : Int) (pre post : Option Int) : State :=
  { s with height := h, pre := newFilter pre s.pre, post := newFilter post s.post }

theorem update_eq (s : State) (h : Int) (block : List (Bytes × Nat)) (pre post : Option Int)
    (rv : Bytes → Verdict) :
    update s h block pre post rv =
      (let s2 := block.foldl commitOne (updHead s h pre post)
       if s2.txs.length > 0 then (if s2.cfg.recheck then recheckTxs s2 rv else s2) else s2) := rfl

theorem inv_update {s : State} (hi : Inv s) (h : Int) (block : List (Bytes × Nat))
    (pre post : Option Int) (rv : Bytes → Verdict) : Inv (update s h block pre post rv) := by
  rw [update_eq]
  have h2 : Inv (block.foldl commitOne (updHead s h pre post)) :=
    inv_commitAll block (s := updHead s h pre post) hi
  simp only
  split
  · split
    · exact (recheckTxs_spec h2 rv).1
    · exact h2
  · exact h2

theorem bounded_update {s : State} (hb : Bounded s) (h : Int) (block : List (Bytes × Nat))
    (pre post : Option Int) (rv : Bytes → Verdict) : Bounded (update s h block pre post rv) := by
  rw [update_eq]
  have h2 : Bounded (block.foldl commitOne (updHead s h pre post)) :=
    bounded_commitAll block (s := updHead s h pre post) hb
  simp only
  split
  · split
    · exact bounded_recheck_fold rv _ _ h2
    · exact h2
  · exact h2

theorem inv_flush (s : State) : Inv (flush s) :=
  ⟨by simp [flush], by simp [flush], by simp [flush, bytesOf]⟩

/-! ### cfg is never changed -/

theorem cfg_resCbFirstTime (s : State) (tx : Bytes) (v : Verdict) :
    (resCbFirstTime s tx v).cfg = s.cfg := by
  unfold resCbFirstTime
  split
  · split
    · rfl
    · split <;> rfl
  · split <;> rfl

theorem cfg_checkTx (s : State) (tx : Bytes) (v : Verdict) : (checkTx s tx v).1.cfg = s.cfg := by
  unfold checkTx
  split
  · rfl
  · split
    · rfl
    · split
      · rfl
      · simp only
        split
        · rfl
        · exact cfg_resCbFirstTime _ tx v

theorem cfg_recheck_fold (rv : Bytes → Verdict) (l : List MemTx) : ∀ (st : State),
    (l.foldl (fun st e => resCbRecheck st e.tx (rv e.tx)) st).cfg = st.cfg := by
  induction l with
  | nil => intro st; rfl
  | cons e rest ih =>
    intro st
    simp only [List.foldl_cons]
    rw [ih]; exact (cfg_resCbRecheck st e.tx (rv e.tx)).1

theorem cfg_update (s : State) (h : Int) (block : List (Bytes × Nat)) (pre post : Option Int)
    (rv : Bytes → Verdict) : (update s h block pre post rv).cfg = s.cfg := by
  rw [update_eq]
  have h2 : (block.foldl commitOne (updHead s h pre post)).cfg = s.cfg :=
    (cfg_commitAll block (updHead s h pre post)).1
  simp only
  split
  · split
    · unfold recheckTxs; rw [cfg_recheck_fold]; exact h2
    · exact h2
  · exact h2

/-! ### sender bookkeeping leaves everything the invariants look at alone -/

theorem recordSender_map (s : State) (tx : Bytes) (p : Nat) :
    (recordSender s tx p).txs.map (·.tx) = s.txs.map (·.tx) := by
  simp only [recordSender, List.map_map]
  apply List.map_congr_left
  intro e _
  simp only [Function.comp]
  split
  · split <;> rfl
  · rfl

theorem recordSender_has (s : State) (tx : Bytes) (p : Nat) :
    ∀ e ∈ (recordSender s tx p).txs, e.tx = tx → p ∈ e.senders := by
  intro e he hetx
  simp only [recordSender, List.mem_map] at he
  obtain ⟨e0, _, rfl⟩ := he
  by_cases h0 : e0.tx = tx
  · by_cases hp : p ∈ e0.senders <;> simp [h0, hp]
  · simp only [h0, if_false] at hetx

theorem checkTxFrom_core (s : State) (tx : Bytes) (v : Verdict) (p : Nat) :
    (checkTxFrom s tx v p).1.txs.map (·.tx) = (checkTx s tx v).1.txs.map (·.tx) ∧
    (checkTxFrom s tx v p).1.txsMap = (checkTx s tx v).1.txsMap ∧
    (checkTxFrom s tx v p).1.txsBytes = (checkTx s tx v).1.txsBytes ∧
    (checkTxFrom s tx v p).1.cfg = (checkTx s tx v).1.cfg ∧
    (checkTxFrom s tx v p).1.cache = (checkTx s tx v).1.cache ∧
    (checkTxFrom s tx v p).2 = (checkTx s tx v).2 := by
  unfold checkTxFrom
  simp only
  split
  · exact ⟨recordSender_map _ _ _, rfl, rfl, rfl, rfl, rfl⟩
  · split
    · exact ⟨recordSender_map _ _ _, rfl, rfl, rfl, rfl, rfl⟩
    · exact ⟨rfl, rfl, rfl, rfl, rfl, rfl⟩
  · exact ⟨rfl, rfl, rfl, rfl, rfl, rfl⟩

theorem inv_checkTxFrom {s : State} (hi : Inv s) (tx : Bytes) (v : Verdict) (p : Nat) :
    Inv (checkTxFrom s tx v p).1 := by
  obtain ⟨h1, h2, h3, _⟩ := checkTxFrom_core s tx v p
  have := inv_checkTx hi tx v
  unfold Inv at *
  obtain ⟨a, b, c⟩ := this
  exact ⟨h1 ▸ a, by rw [h1, h2]; exact b, by rw [h1, h3]; exact c⟩

theorem bounded_checkTxFrom {s : State} (hb : Bounded s) (tx : Bytes) (v : Verdict) (p : Nat) :
    Bounded (checkTxFrom s tx v p).1 := by
  obtain ⟨h1, _, h3, h4, _⟩ := checkTxFrom_core s tx v p
  have := bounded_checkTx hb tx v
  unfold Bounded at *
  have hl : (checkTxFrom s tx v p).1.txs.length = (checkTx s tx v).1.txs.length := by
    have := congrArg List.length h1; simpa using this
  rw [hl, h3, h4]; exact this

theorem cfg_flush (s : State) : (flush s).cfg = s.cfg := rfl

theorem cfg_step (s : State) (op : Op) : (step s op).cfg = s.cfg := by
  cases op with
  | check tx v p => exact (checkTxFrom_core s tx v p).2.2.2.1.trans (cfg_checkTx s tx v)
  | update h b pre post rv => exact cfg_update s h b pre post rv
  | flush => rfl

theorem cfg_run (ops : List Op) : ∀ (s : State), (run s ops).cfg = s.cfg := by
  induction ops with
  | nil => intro s; rfl
  | cons o r ih => intro s; exact (ih (step s o)).trans (cfg_step s o)

theorem inv_step {s : State} (hi : Inv s) (op : Op) : Inv (step s op) := by
  cases op with
  | check tx v p => exact inv_checkTxFrom hi tx v p
  | update h b pre post rv => exact inv_update hi h b pre post rv
  | flush => exact inv_flush s

theorem inv_run (ops : List Op) : ∀ {s : State}, Inv s → Inv (run s ops) := by
  induction ops with
  | nil => intro s h; exact h
  | cons o r ih => intro s h; exact ih (inv_step h o)

theorem bounded_flush {s : State} (hb : Bounded s) (hv : CfgValid s.cfg) : Bounded (flush s) := by
  unfold Bounded flush; simp; exact hv

theorem bounded_step {s : State} (hb : Bounded s) (hv : CfgValid s.cfg) (op : Op) :
    Bounded (step s op) := by
  cases op with
  | check tx v p => exact bounded_checkTxFrom hb tx v p
  | update h b pre post rv => exact bounded_update hb h b pre post rv
  | flush => exact bounded_flush hb hv

theorem bounded_run (ops : List Op) : ∀ {s : State}, Bounded s → CfgValid s.cfg →
    Bounded (run s ops) := by
  induction ops with
  | nil => intro s h _; exact h
  | cons o r ih =>
    intro s h hv
    exact ih (bounded_step h hv o) (by rw [cfg_step]; exact hv)

/-! ### commit and the cache -/

theorem commitOne_remembers (s : State) (tx : Bytes) (h : s.cache.size > 0) :
    (commitOne s (tx, codeOK)).cache.has tx = true := by
  unfold commitOne
  simp only [if_true]
  split
  · exact Cache.push_has s.cache tx h
  · exact Cache.push_has s.cache tx h

theorem cache_size_commitOne (s : State) (c : Bytes × Nat) :
    (commitOne s c).cache.size = s.cache.size := by
  unfold commitOne
  simp only
  have hc : (if c.2 = codeOK then (s.cache.push c.1).1
      else if (!s.cfg.keepInvalid) = true then s.cache.remove c.1 else s.cache).size = s.cache.size := by
    split
    · exact Cache.push_size _ _
    · split
      · exact Cache.remove_size _ _
      · rfl
  split
  · exact hc
  · exact hc

theorem cache_size_commitAll (block : List (Bytes × Nat)) : ∀ (s : State),
    (block.foldl commitOne s).cache.size = s.cache.size := by
  induction block with
  | nil => intro s; rfl
  | cons c r ih => intro s; exact (ih _).trans (cache_size_commitOne s c)

/-! ### reaping -/

def protoSum : List MemTx → Int
  | [] => 0
  | e :: r => protoSize e.tx.length + protoSum r

def gasSum : List MemTx → Int
  | [] => 0
  | e :: r => e.gas + gasSum r

theorem reapGo_spec (mb mg : Int) : ∀ (l : List MemTx) (sz g : Int),
    (mb > -1 → sz ≤ mb) → (mg > -1 → g ≤ mg) →
    ∃ k, k ≤ l.length ∧ reapGo mb mg l sz g = (l.take k).map (·.tx) ∧
      (mb > -1 → sz + protoSum (l.take k) ≤ mb) ∧ (mg > -1 → g + gasSum (l.take k) ≤ mg) ∧
      (∀ e, l[k]? = some e →
        (mb > -1 ∧ sz + protoSum (l.take k) + protoSize e.tx.length > mb) ∨
        (mg > -1 ∧ g + gasSum (l.take k) + e.gas > mg)) := by
  intro l
  induction l with
  | nil =>
    intro sz g h1 h2
    exact ⟨0, by simp, by simp [reapGo], by simpa [protoSum] using h1, by simpa [gasSum] using h2,
      by intro e he; simp at he⟩
  | cons e rest ih =>
    intro sz g h1 h2
    by_cases hb : mb > -1 ∧ sz + protoSize e.tx.length > mb
    · refine ⟨0, by simp, by simp [reapGo, hb], by simpa [protoSum] using h1,
        by simpa [gasSum] using h2, ?_⟩
      intro e' he'
      simp at he'; subst he'
      left; simp [protoSum]; exact hb
    · by_cases hg : mg > -1 ∧ g + e.gas > mg
      · refine ⟨0, by simp, by simp [reapGo, hb, hg], by simpa [protoSum] using h1,
          by simpa [gasSum] using h2, ?_⟩
        intro e' he'
        simp at he'; subst he'
        right; simp [gasSum]; exact hg
      · obtain ⟨k, hk, he, hbb, hgg, hmax⟩ := ih (sz + protoSize e.tx.length) (g + e.gas)
          (by intro h; omega) (by intro h; omega)
        refine ⟨k + 1, by simp; omega, ?_, ?_, ?_, ?_⟩
        · simp [reapGo, hb, hg, he]
        · intro h; have := hbb h; simp [protoSum]; omega
        · intro h; have := hgg h; simp [gasSum]; omega
        · intro e' he'
          simp at he'
          rcases hmax e' he' with h | h
          · left; simp [protoSum]; omega
          · right; simp [gasSum]; omega

theorem reapNGo_spec (max : Int) : ∀ (l : List MemTx) (acc : List Bytes),
    reapNGo max l acc = acc ++ (l.take (max - (acc.length : Int)).toNat).map (·.tx) := by
  intro l
  induction l with
  | nil => intro acc; simp [reapNGo]
  | cons e rest ih =>
    intro acc
    unfold reapNGo
    split
    · rename_i h
      rw [ih]
      have : (max - (acc.length : Int)).toNat = (max - ((acc ++ [e.tx]).length : Int)).toNat + 1 := by
        simp; omega
      rw [this]; simp
    · rename_i h
      have : (max - (acc.length : Int)).toNat = 0 := by omega
      rw [this]; simp

/-! ### the cache stays duplicate-free and within its size -/

theorem cacheOK_removeTx {n : Int} {s : State} (h : s.cache.OKn n) (tx : Bytes) (b : Bool) :
    (removeTx s tx b).cache.OKn n := by
  show (if b = true then s.cache.remove tx else s.cache).OKn n
  split
  · exact Cache.okn_remove _ _ h
  · exact h

theorem cacheOK_resCbFirstTime {n : Int} {s : State} (h : s.cache.OKn n) (tx : Bytes) (v : Verdict) :
    (resCbFirstTime s tx v).cache.OKn n := by
  unfold resCbFirstTime
  split
  · split
    · exact Cache.okn_remove _ _ h
    · split
      · exact h
      · exact h
  · split
    · exact Cache.okn_remove _ _ h
    · exact h

theorem cacheOK_checkTx {n : Int} {s : State} (h : s.cache.OKn n) (tx : Bytes) (v : Verdict) :
    (checkTx s tx v).1.cache.OKn n := by
  unfold checkTx
  split
  · exact h
  · split
    · exact h
    · split
      · exact h
      · simp only
        split
        · exact Cache.okn_push _ _ h
        · exact cacheOK_resCbFirstTime (s := { s with cache := (s.cache.push tx).1 })
            (Cache.okn_push _ _ h) tx v

theorem cacheOK_commitOne {n : Int} {s : State} (h : s.cache.OKn n) (c : Bytes × Nat) :
    (commitOne s c).cache.OKn n := by
  unfold commitOne
  simp only
  have hc : (if c.2 = codeOK then (s.cache.push c.1).1
      else if (!s.cfg.keepInvalid) = true then s.cache.remove c.1 else s.cache).OKn n := by
    split
    · exact Cache.okn_push _ _ h
    · split
      · exact Cache.okn_remove _ _ h
      · exact h
  split
  · exact cacheOK_removeTx (s := { s with cache := _ }) hc c.1 false
  · exact hc

theorem cacheOK_resCbRecheck {n : Int} {s : State} (h : s.cache.OKn n) (tx : Bytes) (v : Verdict) :
    (resCbRecheck s tx v).cache.OKn n := by
  unfold resCbRecheck
  split
  · exact h
  · exact cacheOK_removeTx h _ _

theorem cacheOK_update {n : Int} {s : State} (h : s.cache.OKn n) (ht : Int) (block : List (Bytes × Nat))
    (pre post : Option Int) (rv : Bytes → Verdict) : (update s ht block pre post rv).cache.OKn n := by
  rw [update_eq]
  have h2 : (block.foldl commitOne (updHead s ht pre post)).cache.OKn n :=
    foldl_pred (fun st : State => st.cache.OKn n) commitOne (fun st c hq => cacheOK_commitOne hq c) block _ h
  simp only
  split
  · split
    · exact foldl_pred (fun st : State => st.cache.OKn n) _
        (fun st e hq => cacheOK_resCbRecheck hq e.tx (rv e.tx)) _ _ h2
    · exact h2
  · exact h2

theorem cacheOK_step {n : Int} {s : State} (h : s.cache.OKn n) (op : Op) : (step s op).cache.OKn n := by
  cases op with
  | check tx v p => exact (checkTxFrom_core s tx v p).2.2.2.2.1 ▸ cacheOK_checkTx h tx v
  | update ht b pre post rv => exact cacheOK_update h ht b pre post rv
  | flush => exact Cache.okn_reset _ h

theorem cacheOK_run {n : Int} (ops : List Op) (s : State) (h : s.cache.OKn n) : (run s ops).cache.OKn n :=
  foldl_pred (fun st : State => st.cache.OKn n) step (fun st o hq => cacheOK_step hq o) ops s h

end Tmv.Mempool.V0
