import Tmv.Model.Syncer
/-! Helper lemmas for C14: the snapshot pool never lists anything blacklisted. -/
namespace Tmv.StateSync.Thm
open Tmv Tmv.StateSync Tmv.StateSync.Pool

/-- nothing listed in the pool is blacklisted -/
structure Clean (p : Pool) : Prop where
  snapKey : ∀ s ∈ p.snaps, keyOf s ∉ p.blSnap
  snapFormat : ∀ s ∈ p.snaps, s.format ∉ p.blFormat
  peer : ∀ kp ∈ p.peers, kp.2 ∉ p.blPeer

/-- `q` lists a subset of what `p` lists -/
def Sub (q p : Pool) : Prop := (∀ s ∈ q.snaps, s ∈ p.snaps) ∧ (∀ kp ∈ q.peers, kp ∈ p.peers)

theorem Sub.refl (p : Pool) : Sub p p := ⟨fun _ h => h, fun _ h => h⟩
theorem Sub.trans {a b c : Pool} (h1 : Sub a b) (h2 : Sub b c) : Sub a c :=
  ⟨fun s h => h2.1 s (h1.1 s h), fun s h => h2.2 s (h1.2 s h)⟩

theorem removeSnapshot_bl (p : Pool) (k : Key) :
    (p.removeSnapshot k).blSnap = p.blSnap ∧ (p.removeSnapshot k).blFormat = p.blFormat ∧
    (p.removeSnapshot k).blPeer = p.blPeer := by
  unfold removeSnapshot; split <;> simp

theorem removeSnapshot_sub (p : Pool) (k : Key) : Sub (p.removeSnapshot k) p := by
  unfold removeSnapshot
  split
  · exact ⟨fun s h => (List.mem_filter.mp h).1, fun s h => (List.mem_filter.mp h).1⟩
  · exact Sub.refl p

theorem removeSnapshot_nokey (p : Pool) (k : Key) : ∀ s ∈ (p.removeSnapshot k).snaps, keyOf s ≠ k := by
  unfold removeSnapshot
  split
  · intro s h; simpa using (List.mem_filter.mp h).2
  · rename_i hk
    intro s h heq
    apply hk
    simp only [hasKey, List.any_eq_true]
    exact ⟨s, h, by simp [heq]⟩

theorem Clean.of_sub {q p : Pool} (hc : Clean p) (hs : Sub q p) (h1 : q.blSnap = p.blSnap)
    (h2 : q.blFormat = p.blFormat) (h3 : q.blPeer = p.blPeer) : Clean q :=
  ⟨fun s h => h1 ▸ hc.snapKey s (hs.1 s h), fun s h => h2 ▸ hc.snapFormat s (hs.1 s h),
   fun kp h => h3 ▸ hc.peer kp (hs.2 kp h)⟩

theorem clean_removeSnapshot {p : Pool} (hc : Clean p) (k : Key) : Clean (p.removeSnapshot k) :=
  have ⟨a, b, c⟩ := removeSnapshot_bl p k
  hc.of_sub (removeSnapshot_sub p k) a b c

theorem clean_empty : Clean Pool.empty := ⟨by simp [Pool.empty], by simp [Pool.empty], by simp [Pool.empty]⟩

theorem clean_addPeer {p : Pool} (hc : Clean p) (k : Key) (peer : String) (hp : peer ∉ p.blPeer) :
    Clean (p.addPeer k peer) ∧ (p.addPeer k peer).blSnap = p.blSnap ∧
    (p.addPeer k peer).blFormat = p.blFormat ∧ (p.addPeer k peer).blPeer = p.blPeer ∧
    (p.addPeer k peer).snaps = p.snaps := by
  unfold addPeer
  split
  · exact ⟨hc, rfl, rfl, rfl, rfl⟩
  · refine ⟨⟨hc.snapKey, hc.snapFormat, ?_⟩, rfl, rfl, rfl, rfl⟩
    intro kp hkp
    simp only [List.mem_append, List.mem_singleton] at hkp
    rcases hkp with h | h
    · exact hc.peer kp h
    · subst h; exact hp

theorem clean_addSnap {p : Pool} (hc : Clean p) (s : Snapshot) (hk : keyOf s ∉ p.blSnap)
    (hf : s.format ∉ p.blFormat) :
    Clean (p.addSnap s).1 ∧ (p.addSnap s).1.blSnap = p.blSnap ∧
    (p.addSnap s).1.blFormat = p.blFormat ∧ (p.addSnap s).1.blPeer = p.blPeer := by
  unfold addSnap
  split
  · exact ⟨hc, rfl, rfl, rfl⟩
  · refine ⟨⟨?_, ?_, hc.peer⟩, rfl, rfl, rfl⟩
    · intro s' hs'
      simp only [List.mem_append, List.mem_singleton] at hs'
      rcases hs' with h | h
      · exact hc.snapKey s' h
      · subst h; exact hk
    · intro s' hs'
      simp only [List.mem_append, List.mem_singleton] at hs'
      rcases hs' with h | h
      · exact hc.snapFormat s' h
      · subst h; exact hf

/-- `Add` never lists anything blacklisted and never changes the blacklists -/
theorem clean_add {p : Pool} (hc : Clean p) (recent : Nat) (peer : String) (s : Snapshot) :
    Clean (p.add recent peer s).1 ∧ (p.add recent peer s).1.blSnap = p.blSnap ∧
    (p.add recent peer s).1.blFormat = p.blFormat ∧ (p.add recent peer s).1.blPeer = p.blPeer := by
  unfold Pool.add
  split
  · exact ⟨hc, rfl, rfl, rfl⟩
  · rename_i hf
    split
    · exact ⟨hc, rfl, rfl, rfl⟩
    · rename_i hp
      split
      · exact ⟨hc, rfl, rfl, rfl⟩
      · rename_i hk
        split
        · exact ⟨hc, rfl, rfl, rfl⟩
        · have hf' : s.format ∉ p.blFormat := by simpa using hf
          have hp' : peer ∉ p.blPeer := by simpa using hp
          have hk' : keyOf s ∉ p.blSnap := by simpa using hk
          obtain ⟨c1, b1, b2, b3, _⟩ := clean_addPeer hc (keyOf s) peer hp'
          obtain ⟨c2, d1, d2, d3⟩ := clean_addSnap c1 s (b1 ▸ hk') (b2 ▸ hf')
          exact ⟨c2, d1.trans b1, d2.trans b2, d3.trans b3⟩

/-- **rejected_never_reused** (pool, a rejected sender): `Add` refuses anything a blacklisted peer
advertises, anything of a blacklisted format, and a blacklisted snapshot -/
theorem add_refuses_rejected (recent : Nat) (p : Pool) (peer : String) (s : Snapshot)
    (h : peer ∈ p.blPeer ∨ s.format ∈ p.blFormat ∨ keyOf s ∈ p.blSnap) :
    p.add recent peer s = (p, false) := by
  unfold Pool.add
  split
  · rfl
  · rename_i hf
    split
    · rfl
    · rename_i hp
      split
      · rfl
      · rename_i hk
        exfalso
        have hf' : s.format ∉ p.blFormat := by simpa using hf
        have hp' : peer ∉ p.blPeer := by simpa using hp
        have hk' : keyOf s ∉ p.blSnap := by simpa using hk
        rcases h with h | h | h
        · exact hp' h
        · exact hf' h
        · exact hk' h

theorem clean_reject {p : Pool} (hc : Clean p) (s : Snapshot) :
    Clean (p.reject s) ∧ keyOf s ∈ (p.reject s).blSnap ∧ (∀ k ∈ p.blSnap, k ∈ (p.reject s).blSnap) ∧
    (p.reject s).blFormat = p.blFormat ∧ (p.reject s).blPeer = p.blPeer := by
  unfold Pool.reject
  obtain ⟨b1, b2, b3⟩ := removeSnapshot_bl { p with blSnap := keyOf s :: p.blSnap } (keyOf s)
  have hsub := removeSnapshot_sub { p with blSnap := keyOf s :: p.blSnap } (keyOf s)
  have hno := removeSnapshot_nokey { p with blSnap := keyOf s :: p.blSnap } (keyOf s)
  refine ⟨⟨?_, ?_, ?_⟩, ?_, ?_, b2, b3⟩
  · intro s' hs'
    rw [b1]
    simp only [List.mem_cons, not_or]
    exact ⟨hno s' hs', hc.snapKey s' (hsub.1 s' hs')⟩
  · intro s' hs'; rw [b2]; exact hc.snapFormat s' (hsub.1 s' hs')
  · intro kp hkp; rw [b3]; exact hc.peer kp (hsub.2 kp hkp)
  · rw [b1]; simp
  · intro k hk; rw [b1]; simp [hk]

theorem foldl_removeSnapshot (ks : List Key) : ∀ (p : Pool),
    Sub (ks.foldl removeSnapshot p) p ∧ (ks.foldl removeSnapshot p).blSnap = p.blSnap ∧
    (ks.foldl removeSnapshot p).blFormat = p.blFormat ∧ (ks.foldl removeSnapshot p).blPeer = p.blPeer ∧
    ∀ k ∈ ks, ∀ s ∈ (ks.foldl removeSnapshot p).snaps, keyOf s ≠ k := by
  induction ks with
  | nil => intro p; exact ⟨Sub.refl p, rfl, rfl, rfl, by simp⟩
  | cons k rest ih =>
    intro p
    obtain ⟨s1, a1, a2, a3, a4⟩ := ih (p.removeSnapshot k)
    obtain ⟨b1, b2, b3⟩ := removeSnapshot_bl p k
    refine ⟨s1.trans (removeSnapshot_sub p k), a1.trans b1, a2.trans b2, a3.trans b3, ?_⟩
    intro k' hk' s hs
    simp only [List.mem_cons] at hk'
    rcases hk' with h | h
    · subst h; exact removeSnapshot_nokey p k' s (s1.1 s hs)
    · exact a4 k' h s hs

theorem clean_rejectFormat {p : Pool} (hc : Clean p) (f : Nat) :
    Clean (p.rejectFormat f) ∧ f ∈ (p.rejectFormat f).blFormat ∧
    (∀ g ∈ p.blFormat, g ∈ (p.rejectFormat f).blFormat) ∧
    (p.rejectFormat f).blSnap = p.blSnap ∧ (p.rejectFormat f).blPeer = p.blPeer := by
  unfold Pool.rejectFormat
  obtain ⟨hsub, b1, b2, b3, hno⟩ := foldl_removeSnapshot
    ((p.snaps.filter (fun s => s.format = f)).map keyOf) { p with blFormat := f :: p.blFormat }
  refine ⟨⟨?_, ?_, ?_⟩, ?_, ?_, b1, b3⟩
  · intro s hs; rw [b1]; exact hc.snapKey s (hsub.1 s hs)
  · intro s hs
    rw [b2]
    simp only [List.mem_cons, not_or]
    refine ⟨?_, hc.snapFormat s (hsub.1 s hs)⟩
    intro hf
    have hmem : keyOf s ∈ (p.snaps.filter (fun s => s.format = f)).map keyOf := by
      apply List.mem_map.mpr
      exact ⟨s, List.mem_filter.mpr ⟨hsub.1 s hs, by simpa using hf⟩, rfl⟩
    exact hno _ hmem s hs rfl
  · intro kp hkp; rw [b3]; exact hc.peer kp (hsub.2 kp hkp)
  · rw [b2]; simp
  · intro g hg; rw [b2]; simp [hg]


def rmStep (peer : String) (p : Pool) (k : Key) : Pool :=
  let p1 := { p with peers := p.peers.filter (fun kp => !(kp.1 = k && kp.2 = peer)) }
  if (p1.keyPeers k).isEmpty then removeSnapshot p1 k else p1

theorem removePeer_eq (p : Pool) (peer : String) :
    p.removePeer peer = (p.peerKeys peer).foldl (rmStep peer) p := rfl

theorem rmStep_spec (peer : String) (p : Pool) (k : Key) :
    Sub (rmStep peer p k) p ∧ (rmStep peer p k).blSnap = p.blSnap ∧
    (rmStep peer p k).blFormat = p.blFormat ∧ (rmStep peer p k).blPeer = p.blPeer ∧
    (k, peer) ∉ (rmStep peer p k).peers := by
  unfold rmStep
  simp only
  have hsub1 : Sub { p with peers := p.peers.filter (fun kp => !(kp.1 = k && kp.2 = peer)) } p :=
    ⟨fun _ h => h, fun kp h => (List.mem_filter.mp h).1⟩
  have hno1 : (k, peer) ∉ ({ p with peers := p.peers.filter (fun kp => !(kp.1 = k && kp.2 = peer)) } : Pool).peers := by
    intro h
    have := (List.mem_filter.mp h).2
    simp at this
  split
  · obtain ⟨b1, b2, b3⟩ := removeSnapshot_bl { p with peers := p.peers.filter (fun kp => !(kp.1 = k && kp.2 = peer)) } k
    have hs2 := removeSnapshot_sub { p with peers := p.peers.filter (fun kp => !(kp.1 = k && kp.2 = peer)) } k
    exact ⟨hs2.trans hsub1, b1, b2, b3, fun h => hno1 (hs2.2 _ h)⟩
  · exact ⟨hsub1, rfl, rfl, rfl, hno1⟩

theorem foldl_rmStep (peer : String) (ks : List Key) : ∀ (p : Pool),
    Sub (ks.foldl (rmStep peer) p) p ∧ (ks.foldl (rmStep peer) p).blSnap = p.blSnap ∧
    (ks.foldl (rmStep peer) p).blFormat = p.blFormat ∧ (ks.foldl (rmStep peer) p).blPeer = p.blPeer ∧
    ∀ k ∈ ks, (k, peer) ∉ (ks.foldl (rmStep peer) p).peers := by
  induction ks with
  | nil => intro p; exact ⟨Sub.refl p, rfl, rfl, rfl, by simp⟩
  | cons k rest ih =>
    intro p
    obtain ⟨s1, a1, a2, a3, a4⟩ := ih (rmStep peer p k)
    obtain ⟨s0, b1, b2, b3, b4⟩ := rmStep_spec peer p k
    refine ⟨s1.trans s0, a1.trans b1, a2.trans b2, a3.trans b3, ?_⟩
    intro k' hk'
    simp only [List.mem_cons] at hk'
    rcases hk' with h | h
    · subst h; exact fun hm => b4 (s1.2 _ hm)
    · exact a4 k' h

theorem removePeer_spec (p : Pool) (peer : String) :
    Sub (p.removePeer peer) p ∧ (p.removePeer peer).blSnap = p.blSnap ∧
    (p.removePeer peer).blFormat = p.blFormat ∧ (p.removePeer peer).blPeer = p.blPeer ∧
    ∀ kp ∈ (p.removePeer peer).peers, kp.2 ≠ peer := by
  rw [removePeer_eq]
  obtain ⟨s1, a1, a2, a3, a4⟩ := foldl_rmStep peer (p.peerKeys peer) p
  refine ⟨s1, a1, a2, a3, ?_⟩
  intro kp hkp heq
  have hin : kp ∈ p.peers := s1.2 kp hkp
  have hk : kp.1 ∈ p.peerKeys peer := by
    unfold peerKeys
    apply List.mem_map.mpr
    exact ⟨kp, List.mem_filter.mpr ⟨hin, by simp [heq]⟩, rfl⟩
  apply a4 kp.1 hk
  have : kp = (kp.1, peer) := by cases kp; simp at heq; simp [heq]
  rw [← this]; exact hkp

theorem clean_removePeer {p : Pool} (hc : Clean p) (peer : String) : Clean (p.removePeer peer) :=
  have ⟨s, a, b, c, _⟩ := removePeer_spec p peer
  hc.of_sub s a b c

theorem clean_rejectPeer {p : Pool} (hc : Clean p) (peer : String) :
    Clean (p.rejectPeer peer) ∧ (peer ≠ "" → peer ∈ (p.rejectPeer peer).blPeer) ∧
    (∀ q ∈ p.blPeer, q ∈ (p.rejectPeer peer).blPeer) ∧
    (p.rejectPeer peer).blSnap = p.blSnap ∧ (p.rejectPeer peer).blFormat = p.blFormat := by
  unfold Pool.rejectPeer
  split
  · rename_i h; exact ⟨hc, fun hne => absurd h hne, fun _ h => h, rfl, rfl⟩
  · obtain ⟨s, a, b, c, d⟩ := removePeer_spec p peer
    have hc1 := clean_removePeer hc peer
    refine ⟨⟨?_, ?_, ?_⟩, fun _ => by simp, ?_, a, b⟩
    · exact hc1.snapKey
    · exact hc1.snapFormat
    · intro kp hkp
      simp only [List.mem_cons, not_or]
      exact ⟨d kp hkp, hc1.peer kp hkp⟩
    · intro q hq; simp only [List.mem_cons]; right; rw [c]; exact hq

theorem foldl_rejectPeer {ps : List String} : ∀ {p : Pool}, Clean p →
    Clean (ps.foldl Pool.rejectPeer p) ∧ (∀ x ∈ ps, x ≠ "" → x ∈ (ps.foldl Pool.rejectPeer p).blPeer) ∧
    (∀ q ∈ p.blPeer, q ∈ (ps.foldl Pool.rejectPeer p).blPeer) ∧
    (ps.foldl Pool.rejectPeer p).blSnap = p.blSnap ∧ (ps.foldl Pool.rejectPeer p).blFormat = p.blFormat := by
  induction ps with
  | nil => intro p hc; exact ⟨hc, by simp, fun _ h => h, rfl, rfl⟩
  | cons x rest ih =>
    intro p hc
    obtain ⟨c1, m1, k1, e1, e2⟩ := clean_rejectPeer hc x
    obtain ⟨c2, m2, k2, f1, f2⟩ := ih c1
    refine ⟨c2, ?_, fun q hq => k2 q (k1 q hq), f1.trans e1, f2.trans e2⟩
    intro y hy hne
    simp only [List.mem_cons] at hy
    rcases hy with h | h
    · subst h; exact k2 y (m1 hne)
    · exact m2 y h hne

theorem mem_insertRanked (p : Pool) (x : Snapshot) (l : List Snapshot) (y : Snapshot) :
    y ∈ insertRanked p x l ↔ y = x ∨ y ∈ l := by
  induction l with
  | nil => simp [insertRanked]
  | cons z zs ih =>
    unfold insertRanked
    split
    · simp only [List.mem_cons, ih]
      constructor
      · rintro (h | h | h) <;> simp [h]
      · rintro (h | h | h) <;> simp [h]
    · simp [List.mem_cons]

theorem mem_ranked (p : Pool) (y : Snapshot) : y ∈ p.ranked ↔ y ∈ p.snaps := by
  unfold ranked
  induction p.snaps with
  | nil => simp
  | cons x xs ih => simp only [List.foldr_cons, mem_insertRanked, ih, List.mem_cons]

/-- the canonical `Best` returns a listed snapshot (and so does any choice among the ranking) -/
theorem best_mem {p : Pool} {s : Snapshot} (h : p.best = some s) : s ∈ p.snaps := by
  unfold best at h
  have : s ∈ p.ranked := List.mem_of_head? h
  exact (mem_ranked p s).mp this

theorem mem_insertStr (x : String) (l : List String) (y : String) :
    y ∈ insertStr x l ↔ y = x ∨ y ∈ l := by
  induction l with
  | nil => simp [insertStr]
  | cons z zs ih =>
    unfold insertStr
    split
    · simp only [List.mem_cons, ih]
      constructor
      · rintro (h | h | h) <;> simp [h]
      · rintro (h | h | h) <;> simp [h]
    · simp [List.mem_cons]

theorem getPeers_mem {p : Pool} {s : Snapshot} {x : String} (h : x ∈ p.getPeers s) :
    (keyOf s, x) ∈ p.peers := by
  unfold getPeers at h
  have : ∀ (l : List String), x ∈ l.foldr insertStr [] → x ∈ l := by
    intro l
    induction l with
    | nil => simp
    | cons a as ih => simp only [List.foldr_cons, mem_insertStr, List.mem_cons]; rintro (h | h); exact Or.inl h; exact Or.inr (ih h)
  have hx := this _ h
  unfold keyPeers at hx
  obtain ⟨kp, hkp, rfl⟩ := List.mem_map.mp hx
  obtain ⟨hin, hk⟩ := List.mem_filter.mp hkp
  have : kp = (keyOf s, kp.2) := by cases kp; simp at hk; simp [hk]
  rw [← this]; exact hin

end Tmv.StateSync.Thm
