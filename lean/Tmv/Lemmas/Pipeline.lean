import Tmv.Model.Pipeline
/-! Helper lemmas for C05: the journal automaton over appended calls, the recording application's
calls against the automaton, effect lists with every-prefix predicates. -/
namespace Tmv.Pipeline

theorem jrun_append (c : Chain) (s : JState) (a b : List Call) :
    jrun c s (a ++ b) = (jrun c s a).bind fun s' => jrun c s' b := by
  induction a generalizing s with
  | nil => simp [jrun]
  | cons k ks ih =>
    simp only [List.cons_append, jrun]
    cases h : jstep c s k with
    | none => simp
    | some s' => simpa using ih s'

/-! ## block indexes: the k-th block of the chain (k ≥ 1) has height `ht c k`; `ht c 0 = 0` is
"nothing yet" -/

def ht (c : Chain) (k : Nat) : Nat := if k = 0 then 0 else c.ihPred + k

/-- history after the first `k` blocks -/
def histK (c : Chain) (k : Nat) : Hist := (List.range k).map fun i => (c.ih + i, c (c.ih + i))

@[simp] theorem ht_zero (c : Chain) : ht c 0 = 0 := rfl
theorem ht_succ (c : Chain) (k : Nat) : ht c (k + 1) = c.ihPred + k + 1 := by simp [ht]; omega
theorem ht_pos (c : Chain) (k : Nat) : 0 < ht c (k + 1) := by rw [ht_succ]; omega

theorem nxt_ht (c : Chain) (k : Nat) : nxt c (ht c k) = ht c (k + 1) := by
  cases k with
  | zero => simp [nxt, ht, Chain.ih]
  | succ k => simp [nxt, ht_succ]; omega

theorem ht_lt (c : Chain) {a b : Nat} (h : a < b) : ht c a < ht c b := by
  cases b with
  | zero => omega
  | succ b =>
    cases a with
    | zero => simpa using ht_pos c b
    | succ a => rw [ht_succ, ht_succ]; omega

theorem ht_inj (c : Chain) {a b : Nat} (h : ht c a = ht c b) : a = b := by
  rcases Nat.lt_trichotomy a b with h1 | h1 | h1
  · have := ht_lt c h1; omega
  · exact h1
  · have := ht_lt c h1; omega

theorem hist_ht (c : Chain) (k : Nat) : hist c (ht c k) = histK c k := by
  cases k with
  | zero => simp [hist, histK, ht, Chain.ih]
  | succ k =>
    have : ht c (k + 1) + 1 - c.ih = k + 1 := by rw [ht_succ]; simp [Chain.ih]; omega
    simp [hist, histK, this]

/-- the app hash carried by block `k+1`'s header -/
theorem hist_pred_ht (c : Chain) (k : Nat) : hist c (ht c (k + 1) - 1) = histK c k := by
  have : ht c (k + 1) - 1 + 1 - c.ih = k := by rw [ht_succ]; simp [Chain.ih]
  simp [hist, histK, this]

theorem histK_succ (c : Chain) (k : Nat) :
    histK c (k + 1) = histK c k ++ [(ht c (k + 1), c (ht c (k + 1)))] := by
  have : c.ih + k = ht c (k + 1) := by rw [ht_succ]; simp [Chain.ih]; omega
  simp [histK, List.range_succ, this]

theorem histK_length (c : Chain) (k : Nat) : (histK c k).length = k := by simp [histK]

theorem histK_take (c : Chain) (k j : Nat) : (histK c k).take (k - j) = histK c (k - j) := by
  simp only [histK, ← List.map_take, List.take_range]
  congr 2
  omega

theorem reported_histK (c : Chain) (k : Nat) : reportedHeight (histK c k) = ht c k := by
  cases k with
  | zero => simp [reportedHeight, histK]
  | succ k =>
    rw [histK_succ]
    have := ht_pos c k
    simp [reportedHeight]
    omega

/-- the application has committed the first `k` blocks (canonical history), reports their height,
has the open execution `p`, and its journal drives the grammar automaton to exactly that state -/
structure AppAt (c : Chain) (a : App) (k : Nat) (p : Option Pending) : Prop where
  height : a.height = ht c k
  hash : a.hash = histK c k
  pending : a.pending = p
  run : jrun c ⟨0, none⟩ a.journal = some ⟨ht c k, p⟩

theorem AppAt.restart {c a n p} (h : AppAt c a n p) : AppAt c (a.call .restart) n none := by
  refine ⟨?_, ?_, ?_, ?_⟩
  · simp [App.call, h.height]
  · simp [App.call, h.hash]
  · simp [App.call]
  · simp [App.call, jrun_append, h.run, jrun, jstep]

theorem AppAt.initChain {c a} (h : AppAt c a 0 none) : AppAt c (a.call .initChain) 0 none := by
  refine ⟨?_, ?_, ?_, ?_⟩
  · simp [App.call, h.height]
  · simp [App.call, h.hash]
  · simp [App.call]
  · have := h.run
    simp only [ht_zero] at this
    simp [App.call, jrun_append, this, jrun, jstep]

theorem AppAt.begin {c a n} (h : AppAt c a n none) :
    AppAt c (a.call (.begin (ht c (n + 1)))) n (some ⟨ht c (n + 1), [], false⟩) := by
  refine ⟨?_, ?_, ?_, ?_⟩
  · simp [App.call, h.height]
  · simp [App.call, h.hash]
  · simp [App.call]
  · simp [App.call, jrun_append, h.run, jrun, jstep, nxt_ht]

theorem AppAt.deliver {c a n hh txs tx} (h : AppAt c a n (some ⟨hh, txs, false⟩))
    (ht' : (c hh)[txs.length]? = some tx) :
    AppAt c (a.call (.deliver tx)) n (some ⟨hh, txs ++ [tx], false⟩) := by
  refine ⟨?_, ?_, ?_, ?_⟩
  · simp [App.call, h.height]
  · simp [App.call, h.hash]
  · simp [App.call, h.pending]
  · simp [App.call, jrun_append, h.run, jrun, jstep, ht']

theorem AppAt.endBlock {c a n hh} (h : AppAt c a n (some ⟨hh, c hh, false⟩)) :
    AppAt c (a.call (.endBlock hh)) n (some ⟨hh, c hh, true⟩) := by
  refine ⟨?_, ?_, ?_, ?_⟩
  · simp [App.call, h.height]
  · simp [App.call, h.hash]
  · simp [App.call, h.pending]
  · simp [App.call, jrun_append, h.run, jrun, jstep]

theorem AppAt.commit {c a n} (h : AppAt c a n (some ⟨ht c (n + 1), c (ht c (n + 1)), true⟩)) :
    AppAt c (a.call .commit) (n + 1) none := by
  refine ⟨?_, ?_, ?_, ?_⟩
  · simp [App.call, h.pending]
  · simp [App.call, h.pending, h.hash, histK_succ]
  · simp [App.call, h.pending]
  · have hp := h.pending
    simp only [App.call, hp]
    simp [jrun_append, h.run, jrun, jstep]

/-- an older snapshot of the application itself -/
theorem AppAt.restore {c a n p} (h : AppAt c a n p) (j : Nat) : AppAt c (a.restore j) (n - j) none := by
  have hl : a.hash.length = n := by rw [h.hash, histK_length]
  have hh : a.hash.take (a.hash.length - j) = histK c (n - j) := by
    rw [hl, h.hash, histK_take]
  refine ⟨?_, ?_, ?_, ?_⟩
  · simp [App.restore, hh, reported_histK]
  · simp [App.restore, hh]
  · simp [App.restore, App.call]
  · simp [App.restore, App.call, hh, reported_histK, jrun_append, h.run, jrun, jstep]

/-! ## every-prefix predicates over effect lists -/

/-- `Q` holds of the disk after every prefix of `es` (including the empty and the full one) -/
def PrefAll (Q : Disk → Prop) : Disk → List Eff → Prop
  | d, [] => Q d
  | d, e :: es => Q d ∧ PrefAll Q (applyEff d e) es

theorem PrefAll.take {Q d es} (h : PrefAll Q d es) (k : Nat) : Q (applyEffs d (es.take k)) := by
  induction es generalizing d k with
  | nil => simpa [applyEffs, PrefAll] using h
  | cons e es ih =>
    cases k with
    | zero => simpa [applyEffs] using h.1
    | succ k => simpa [applyEffs] using ih h.2 k

theorem PrefAll.append {Q d es fs} (h1 : PrefAll Q d es) (h2 : PrefAll Q (applyEffs d es) fs) :
    PrefAll Q d (es ++ fs) := by
  induction es generalizing d with
  | nil => simpa [applyEffs] using h2
  | cons e es ih =>
    exact ⟨h1.1, ih h1.2 (by simpa [applyEffs] using h2)⟩

theorem applyEffs_append (d : Disk) (a b : List Eff) :
    applyEffs d (a ++ b) = applyEffs (applyEffs d a) b := by
  simp [applyEffs]

theorem PrefAll.head {Q d es} (h : PrefAll Q d es) : Q d := by
  cases es with
  | nil => exact h
  | cons e es => exact h.1

end Tmv.Pipeline
