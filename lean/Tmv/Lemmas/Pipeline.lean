import Tmv.Model.Pipeline
/-! Helper lemmas for C05: the journal automaton over appended calls, the recording application's
calls against the automaton, effect lists with every-prefix predicates. -/
namespace Tmv.Pipeline

theorem jrun_append (c : Chain) (s : JState) (a b : List Call) :
    jrun c s (a ++ b) = (jrun c s a).bind fun s' => jrun c s' b := by
  induction a generalizing s with
  | nil => simp [jrun]
  | cons k ks ih =>
    simp only [List.cons_append, jrun]
    cases h : jstep c s k with
    | none => simp
    | some s' => simpa using ih s'

theorem hist_succ (c : Chain) (n : Nat) : hist c (n + 1) = hist c n ++ [(n + 1, c (n + 1))] := by
  simp [hist, List.range_succ]

theorem hist_length (c : Chain) (n : Nat) : (hist c n).length = n := by simp [hist]

/-- the application is at committed height `n` with the canonical history, has the open execution
`p`, and its journal drives the grammar automaton to exactly that state -/
structure AppAt (c : Chain) (a : App) (n : Nat) (p : Option Pending) : Prop where
  height : a.height = n
  hash : a.hash = hist c n
  pending : a.pending = p
  run : jrun c ⟨0, none⟩ a.journal = some ⟨n, p⟩

theorem AppAt.restart {c a n p} (h : AppAt c a n p) : AppAt c (a.call .restart) n none := by
  refine ⟨?_, ?_, ?_, ?_⟩
  · simp [App.call, h.height]
  · simp [App.call, h.hash]
  · simp [App.call]
  · simp [App.call, jrun_append, h.run, jrun, jstep]

theorem AppAt.initChain {c a} (h : AppAt c a 0 none) : AppAt c (a.call .initChain) 0 none := by
  refine ⟨?_, ?_, ?_, ?_⟩
  · simp [App.call, h.height]
  · simp [App.call, h.hash]
  · simp [App.call]
  · simp [App.call, jrun_append, h.run, jrun, jstep]

theorem AppAt.begin {c a n} (h : AppAt c a n none) :
    AppAt c (a.call (.begin (n + 1))) n (some ⟨n + 1, [], false⟩) := by
  refine ⟨?_, ?_, ?_, ?_⟩
  · simp [App.call, h.height]
  · simp [App.call, h.hash]
  · simp [App.call]
  · simp [App.call, jrun_append, h.run, jrun, jstep]

theorem AppAt.deliver {c a n hh txs tx} (h : AppAt c a n (some ⟨hh, txs, false⟩))
    (ht : (c hh)[txs.length]? = some tx) :
    AppAt c (a.call (.deliver tx)) n (some ⟨hh, txs ++ [tx], false⟩) := by
  refine ⟨?_, ?_, ?_, ?_⟩
  · simp [App.call, h.height]
  · simp [App.call, h.hash]
  · simp [App.call, h.pending]
  · simp [App.call, jrun_append, h.run, jrun, jstep, ht]

theorem AppAt.endBlock {c a n hh} (h : AppAt c a n (some ⟨hh, c hh, false⟩)) :
    AppAt c (a.call (.endBlock hh)) n (some ⟨hh, c hh, true⟩) := by
  refine ⟨?_, ?_, ?_, ?_⟩
  · simp [App.call, h.height]
  · simp [App.call, h.hash]
  · simp [App.call, h.pending]
  · simp [App.call, jrun_append, h.run, jrun, jstep]

theorem AppAt.commit {c a n} (h : AppAt c a n (some ⟨n + 1, c (n + 1), true⟩)) :
    AppAt c (a.call .commit) (n + 1) none := by
  refine ⟨?_, ?_, ?_, ?_⟩
  · simp [App.call, h.pending, h.height]
  · simp [App.call, h.pending, h.hash, hist_succ]
  · simp [App.call, h.pending]
  · have hp := h.pending
    simp only [App.call, hp]
    simp [jrun_append, h.run, jrun, jstep]

/-! ## every-prefix predicates over effect lists -/

/-- `Q` holds of the disk after every prefix of `es` (including the empty and the full one) -/
def PrefAll (Q : Disk → Prop) : Disk → List Eff → Prop
  | d, [] => Q d
  | d, e :: es => Q d ∧ PrefAll Q (applyEff d e) es

theorem PrefAll.take {Q d es} (h : PrefAll Q d es) (k : Nat) : Q (applyEffs d (es.take k)) := by
  induction es generalizing d k with
  | nil => simpa [applyEffs, PrefAll] using h
  | cons e es ih =>
    cases k with
    | zero => simpa [applyEffs] using h.1
    | succ k => simpa [applyEffs] using ih h.2 k

theorem PrefAll.append {Q d es fs} (h1 : PrefAll Q d es) (h2 : PrefAll Q (applyEffs d es) fs) :
    PrefAll Q d (es ++ fs) := by
  induction es generalizing d with
  | nil => simpa [applyEffs] using h2
  | cons e es ih =>
    exact ⟨h1.1, ih h1.2 (by simpa [applyEffs] using h2)⟩

theorem applyEffs_append (d : Disk) (a b : List Eff) :
    applyEffs d (a ++ b) = applyEffs (applyEffs d a) b := by
  simp [applyEffs]

theorem PrefAll.head {Q d es} (h : PrefAll Q d es) : Q d := by
  cases es with
  | nil => exact h
  | cons e es => exact h.1

end Tmv.Pipeline
