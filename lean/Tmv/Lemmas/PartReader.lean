import Tmv.Model.PartSet
/-! `PartSetReader.Read`: whatever buffer sizes the caller uses, the bytes delivered are, in order
and without gaps, the concatenation of the parts. -/
namespace Tmv.PartSet
open Tmv.Merkle

/-- One `Read` with a non-empty buffer: delivers exactly the next `n` bytes of the concatenation
(fewer only when fewer remain), leaves exactly the rest, and flags EOF iff fewer than `n` remained. -/
theorem rd_spec : ∀ (rest : List Bytes) (cur : Bytes) (n : Nat), 0 < n →
    (rd rest cur n).1 = (cur ++ rest.flatten).take n ∧
    (rd rest cur n).2.1 ++ (rd rest cur n).2.2.1.flatten = (cur ++ rest.flatten).drop n ∧
    ((rd rest cur n).2.2.2 = true ↔ (cur ++ rest.flatten).length < n) := by
  intro rest
  induction rest with
  | nil =>
    intro cur n hn
    unfold rd
    by_cases h : cur.length ≥ n
    · have hne : cur ≠ [] := by intro h0; subst h0; simp at h; omega
      simp only [h, if_true, hne, if_false, List.flatten_nil, List.append_nil]
      refine ⟨trivial, trivial, ?_⟩
      constructor
      · intro hf; cases hf
      · intro hl; omega
    · simp only [h, if_false, List.flatten_nil, List.append_nil]
      have hle : cur.length ≤ n := by omega
      refine ⟨(List.take_of_length_le hle).symm, (List.drop_of_length_le hle).symm, ?_⟩
      constructor
      · intro _; omega
      · intro _; trivial
  | cons c rest' ih =>
    intro cur n hn
    unfold rd
    by_cases h : cur.length ≥ n
    · have hne : cur ≠ [] := by intro h0; subst h0; simp at h; omega
      simp only [h, if_true, hne, if_false]
      refine ⟨?_, ?_, ?_⟩
      · rw [List.take_append_of_le_length h]
      · rw [List.drop_append_of_le_length h]
      · constructor
        · intro hf; cases hf
        · intro hl; simp at hl; omega
    · simp only [h, if_false]
      have hlt : cur.length < n := by omega
      have hpos : 0 < n - cur.length := by omega
      obtain ⟨h1, h2, h3⟩ := ih c (n - cur.length) hpos
      have hle : cur.length ≤ n := by omega
      have kt : ∀ X : Bytes, List.take n (cur ++ X) = cur ++ List.take (n - cur.length) X := by
        intro X; rw [List.take_append, List.take_of_length_le hle]
      have kd : ∀ X : Bytes, List.drop n (cur ++ X) = List.drop (n - cur.length) X := by
        intro X; rw [List.drop_append, List.drop_of_length_le hle]; simp
      refine ⟨?_, ?_, ?_⟩
      · show cur ++ (rd rest' c (n - cur.length)).1 = _
        rw [h1, List.flatten_cons, kt]
      · show (rd rest' c (n - cur.length)).2.1 ++ (rd rest' c (n - cur.length)).2.2.1.flatten = _
        rw [h2, List.flatten_cons, kd]
      · show (rd rest' c (n - cur.length)).2.2.2 = true ↔ _
        rw [h3]
        simp only [List.flatten_cons, List.length_append]
        omega

/-- Any schedule of non-empty reads: the chunks, concatenated, are the first `sum sizes` bytes of the
concatenation of the parts. -/
theorem rdSeq_flatten : ∀ (sizes : List Nat), (∀ n ∈ sizes, 0 < n) → ∀ (cur : Bytes) (rest : List Bytes),
    ((rdSeq sizes cur rest).map Prod.fst).flatten = (cur ++ rest.flatten).take sizes.sum := by
  intro sizes
  induction sizes with
  | nil => intro _ cur rest; simp [rdSeq]
  | cons n ns ih =>
    intro hp cur rest
    have hn : 0 < n := hp n List.mem_cons_self
    obtain ⟨h1, h2, _⟩ := rd_spec rest cur n hn
    simp only [rdSeq, List.map_cons, List.flatten_cons, List.sum_cons]
    rw [ih (fun m hm => hp m (List.mem_cons_of_mem _ hm)), h1, h2]
    rw [← List.take_add]

/-- EOF is reported by the `k`-th read of a schedule exactly when fewer bytes than asked remained. -/
theorem rdSeq_eof : ∀ (sizes : List Nat), (∀ n ∈ sizes, 0 < n) → ∀ (cur : Bytes) (rest : List Bytes)
    (k : Nat) (hk : k < sizes.length),
    (((rdSeq sizes cur rest)[k]?).map Prod.snd = some true ↔
      (cur ++ rest.flatten).length < (sizes.take (k+1)).sum) := by
  intro sizes
  induction sizes with
  | nil => intro _ _ _ k hk; simp at hk
  | cons n ns ih =>
    intro hp cur rest k hk
    have hn : 0 < n := hp n List.mem_cons_self
    obtain ⟨_, h2, h3⟩ := rd_spec rest cur n hn
    cases k with
    | zero => simp [rdSeq, h3]
    | succ k =>
      have hk' : k < ns.length := by simpa using hk
      have := ih (fun m hm => hp m (List.mem_cons_of_mem _ hm)) (rd rest cur n).2.1 (rd rest cur n).2.2.1 k hk'
      simp only [rdSeq, List.getElem?_cons_succ, List.take_succ_cons, List.sum_cons]
      rw [this, h2, List.length_drop]
      have : (List.take (k + 1) ns).sum ≥ 1 := by
        cases ns with
        | nil => simp at hk'
        | cons m ms =>
          have := hp m (by simp)
          simp only [List.take_succ_cons, List.sum_cons]; omega
      omega

end Tmv.PartSet
