import Tmv.Lemmas.VoteArith
/-! How the vote sets of a `HeightVoteSet` evolve: every set of a later stage is obtained from the
set of the earlier stage (or from the empty set, for a round that was not tracked before) by adding
votes and recording majority claims (`VReach`, `HExt`). Every `VoteSet` fact that is preserved by
`addVote` / `setPeerMaj23` therefore lifts to the height vote set, and — through one structural lemma
per function of the node model (Lemmas/VoteReachNode.lean) — to every run of a node. -/
namespace Tmv.Cons

/-- `vs'` is obtained from `vs` by adding votes satisfying `B` and recording majority claims -/
inductive VReach (c : Cfg) (B : Vote → Prop) : VoteSet → VoteSet → Prop
  | refl (vs : VoteSet) : VReach c B vs vs
  | add {vs vs' : VoteSet} (v : Vote) : VReach c B vs vs' → B v → VReach c B vs (vs'.addVote c v).1
  | claim {vs vs' : VoteSet} (peer : Peer) (key : Bid) : VReach c B vs vs' →
      VReach c B vs (vs'.setPeerMaj23 peer key)

theorem VReach.trans {c : Cfg} {B : Vote → Prop} {a b d : VoteSet} (h₁ : VReach c B a b) (h₂ : VReach c B b d) :
    VReach c B a d := by
  induction h₂ with
  | refl => exact h₁
  | add v _ hb ih => exact VReach.add v ih hb
  | claim p k _ ih => exact VReach.claim p k ih

theorem VReach.mono {c : Cfg} {B B' : Vote → Prop} {a b : VoteSet} (hB : ∀ w, B w → B' w) (h : VReach c B a b) :
    VReach c B' a b := by
  induction h with
  | refl => exact VReach.refl _
  | add v _ hb ih => exact VReach.add v ih (hB v hb)
  | claim p k _ ih => exact VReach.claim p k ih

theorem VReach.wf {c : Cfg} {B : Vote → Prop} {a b : VoteSet} (h : VReach c B a b) (hw : a.WF c) : b.WF c := by
  induction h with
  | refl => exact hw
  | add v _ _ ih => exact ih.addVote v
  | claim p k _ ih => exact ih.setPeerMaj23 p k

theorem VReach.has {c : Cfg} {B : Vote → Prop} {a b : VoteSet} (h : VReach c B a b) {k : Bid} {u : Nat}
    (hh : a.has k u) : b.has k u := by
  induction h with
  | refl => exact hh
  | add v _ _ ih => exact VoteSet.has_addVote v ih
  | claim p key _ ih => exact VoteSet.has_setPeerMaj23 p key ih

theorem VReach.only {c : Cfg} {B : Vote → Prop} {a b : VoteSet} (h : VReach c B a b) {key : Bid} {u : Nat}
    (ho : a.only key u) (hB : ∀ w, B w → w.val ≠ u ∨ w.bid = key) : b.only key u := by
  induction h with
  | refl => exact ho
  | add v _ hb ih => exact VoteSet.only_addVote v ih (hB v hb)
  | claim p k _ ih => exact VoteSet.only_setPeerMaj23 p k ih


/-- a recorded majority is never replaced -/
theorem VReach.maj23 {c : Cfg} {B : Vote → Prop} {a b : VoteSet} (h : VReach c B a b) {x : Bid}
    (hm : a.maj23 = some x) : b.maj23 = some x := by
  induction h with
  | refl => exact hm
  | add v _ _ ih => exact VoteSet.addVote_maj23 c _ v x ih
  | claim p k _ ih => rw [VoteSet.setPeerMaj23_maj23]; exact ih


/-- a recorded vote of a later stage was recorded before or is one of the added votes -/
theorem VReach.has_back {c : Cfg} {B : Vote → Prop} {a b : VoteSet} (h : VReach c B a b) {k : Bid} {u : Nat}
    (hh : b.has k u) : a.has k u ∨ ∃ w, B w ∧ w.bid = k ∧ w.val = u := by
  induction h with
  | refl => exact Or.inl hh
  | add v _ hb ih =>
    rcases (VoteSet.addVote_has c _ v k u).1 hh with h1 | ⟨e1, e2⟩
    · exact ih h1
    · exact Or.inr ⟨v, hb, e1.symm, e2.symm⟩
  | claim p key _ ih => exact ih (((VoteSet.setPeerMaj23_bucket _ p key k).2 u).1 hh)

theorem VoteSet.empty_has (k : Bid) (u : Nat) : ¬ VoteSet.empty.has k u := by
  intro ⟨bv, hb, _⟩
  simp [VoteSet.empty, alookup] at hb

/-! ### the height vote set -/

def HVS.has (h : HVS) (r : Int) (t : VType) (key : Bid) (v : Nat) : Prop :=
  ∃ vs, h.getVoteSet r t = some vs ∧ vs.has key v

def HVS.only (h : HVS) (r : Int) (t : VType) (key : Bid) (v : Nat) : Prop :=
  ∀ vs, h.getVoteSet r t = some vs → vs.only key v

def HVS.WF (c : Cfg) (h : HVS) : Prop := ∀ r t vs, h.getVoteSet r t = some vs → vs.WF c


/-- executable form of `HVS.has` (for concrete instances) -/
def HVS.hasB (h : HVS) (r : Int) (t : VType) (key : Bid) (v : Nat) : Bool :=
  match h.getVoteSet r t with
  | some vs => (match alookup vs.byBlock key with
    | some bv => bv.voted.contains v
    | none => false)
  | none => false

theorem HVS.has_of_hasB {h : HVS} {r : Int} {t : VType} {key : Bid} {v : Nat}
    (hb : h.hasB r t key v = true) : h.has r t key v := by
  unfold HVS.hasB at hb
  cases hg : h.getVoteSet r t with
  | none => rw [hg] at hb; cases hb
  | some vs =>
    rw [hg] at hb
    dsimp only at hb
    cases hl : alookup vs.byBlock key with
    | none => rw [hl] at hb; cases hb
    | some bv =>
      rw [hl] at hb
      exact ⟨vs, hg, bv, hl, by simpa using hb⟩

/-- `h'` is a later stage of `h`: `A r t` bounds the votes that were added to the set of (r, t) -/
structure HExt (c : Cfg) (A : Int → VType → Vote → Prop) (h h' : HVS) : Prop where
  fwd : ∀ r t vs, h.getVoteSet r t = some vs → ∃ vs', h'.getVoteSet r t = some vs' ∧ VReach c (A r t) vs vs'
  bwd : ∀ r t vs', h'.getVoteSet r t = some vs' →
      (∃ vs, h.getVoteSet r t = some vs ∧ VReach c (A r t) vs vs') ∨
      (h.getVoteSet r t = none ∧ VReach c (A r t) VoteSet.empty vs')

theorem HExt.refl (c : Cfg) (A : Int → VType → Vote → Prop) (h : HVS) : HExt c A h h :=
  ⟨fun _ _ vs hg => ⟨vs, hg, VReach.refl vs⟩, fun _ _ vs' hg => Or.inl ⟨vs', hg, VReach.refl vs'⟩⟩

theorem HExt.trans {c : Cfg} {A : Int → VType → Vote → Prop} {a b d : HVS} (h₁ : HExt c A a b) (h₂ : HExt c A b d) :
    HExt c A a d := by
  refine ⟨?_, ?_⟩
  · intro r t vs hg
    obtain ⟨vs', hg', hr⟩ := h₁.fwd r t vs hg
    obtain ⟨vs'', hg'', hr'⟩ := h₂.fwd r t vs' hg'
    exact ⟨vs'', hg'', hr.trans hr'⟩
  · intro r t vs'' hg''
    rcases h₂.bwd r t vs'' hg'' with ⟨vs', hg', hr'⟩ | ⟨hn, hr'⟩
    · rcases h₁.bwd r t vs' hg' with ⟨vs, hg, hr⟩ | ⟨hn, hr⟩
      · exact Or.inl ⟨vs, hg, hr.trans hr'⟩
      · exact Or.inr ⟨hn, hr.trans hr'⟩
    · right
      refine ⟨?_, hr'⟩
      cases hg : a.getVoteSet r t with
      | none => rfl
      | some vs =>
        obtain ⟨vs', hg', _⟩ := h₁.fwd r t vs hg
        rw [hn] at hg'; cases hg'

theorem HExt.mono {c : Cfg} {A A' : Int → VType → Vote → Prop} {a b : HVS}
    (hA : ∀ r t w, A r t w → A' r t w) (h : HExt c A a b) : HExt c A' a b := by
  refine ⟨?_, ?_⟩
  · intro r t vs hg
    obtain ⟨vs', hg', hr⟩ := h.fwd r t vs hg
    exact ⟨vs', hg', hr.mono (hA r t)⟩
  · intro r t vs' hg'
    rcases h.bwd r t vs' hg' with ⟨vs, hg, hr⟩ | ⟨hn, hr⟩
    · exact Or.inl ⟨vs, hg, hr.mono (hA r t)⟩
    · exact Or.inr ⟨hn, hr.mono (hA r t)⟩

theorem HExt.wf {c : Cfg} {A : Int → VType → Vote → Prop} {a b : HVS} (h : HExt c A a b) (hw : a.WF c) : b.WF c := by
  intro r t vs' hg'
  rcases h.bwd r t vs' hg' with ⟨vs, hg, hr⟩ | ⟨_, hr⟩
  · exact hr.wf (hw r t vs hg)
  · exact hr.wf (VoteSet.WF.empty c)

theorem HExt.has {c : Cfg} {A : Int → VType → Vote → Prop} {a b : HVS} (h : HExt c A a b)
    {r : Int} {t : VType} {k : Bid} {u : Nat} (hh : a.has r t k u) : b.has r t k u := by
  obtain ⟨vs, hg, hv⟩ := hh
  obtain ⟨vs', hg', hr⟩ := h.fwd r t vs hg
  exact ⟨vs', hg', hr.has hv⟩


theorem HExt.maj23 {c : Cfg} {A : Int → VType → Vote → Prop} {a b : HVS} (h : HExt c A a b)
    {r : Int} {t : VType} {x : Bid} (hm : maj23Of (a.getVoteSet r t) = some x) :
    maj23Of (b.getVoteSet r t) = some x := by
  cases hg : a.getVoteSet r t with
  | none => rw [hg] at hm; simp [maj23Of] at hm
  | some vs =>
    rw [hg] at hm
    obtain ⟨vs', hg', hr⟩ := h.fwd r t vs hg
    rw [hg']
    simp only [maj23Of, Option.bind] at hm ⊢
    exact hr.maj23 hm


theorem HExt.has_back {c : Cfg} {A : Int → VType → Vote → Prop} {a b : HVS} (h : HExt c A a b)
    {r : Int} {t : VType} {k : Bid} {u : Nat} (hh : b.has r t k u) :
    a.has r t k u ∨ ∃ w, A r t w ∧ w.bid = k ∧ w.val = u := by
  obtain ⟨vs', hg', hv⟩ := hh
  rcases h.bwd r t vs' hg' with ⟨vs, hg, hr⟩ | ⟨_, hr⟩
  · rcases hr.has_back hv with h1 | h1
    · exact Or.inl ⟨vs, hg, h1⟩
    · exact Or.inr h1
  · rcases hr.has_back hv with h1 | h1
    · exact absurd h1 (VoteSet.empty_has k u)
    · exact Or.inr h1

theorem HExt.tracked {c : Cfg} {A : Int → VType → Vote → Prop} {a b : HVS} (h : HExt c A a b)
    {r : Int} {t : VType} (ht : (a.getVoteSet r t).isSome = true) : (b.getVoteSet r t).isSome = true := by
  cases hg : a.getVoteSet r t with
  | none => rw [hg] at ht; cases ht
  | some vs =>
    obtain ⟨vs', hg', _⟩ := h.fwd r t vs hg
    rw [hg']; rfl

theorem HExt.only {c : Cfg} {A : Int → VType → Vote → Prop} {a b : HVS} (h : HExt c A a b)
    {r : Int} {t : VType} {key : Bid} {u : Nat} (ho : a.only r t key u)
    (hA : ∀ w, A r t w → w.val ≠ u ∨ w.bid = key) : b.only r t key u := by
  intro vs' hg'
  rcases h.bwd r t vs' hg' with ⟨vs, hg, hr⟩ | ⟨_, hr⟩
  · exact hr.only (ho vs hg) hA
  · exact hr.only (VoteSet.only_empty key u) hA

/-! ### the three operations on a height vote set -/

theorem getVoteSet_congr_sets {a b : HVS} (e : b.sets = a.sets) (r : Int) (t : VType) :
    b.getVoteSet r t = a.getVoteSet r t := by
  unfold HVS.getVoteSet HVS.getRound; rw [e]

theorem getVoteSet_putVoteSet (h : HVS) (r : Int) (t : VType) (vs : VoteSet) (r' : Int) (t' : VType) :
    (h.putVoteSet r t vs).getVoteSet r' t' =
      if (h.getRound r).isSome = true ∧ r' = r ∧ t' = t then some vs else h.getVoteSet r' t' := by
  unfold HVS.putVoteSet
  cases hg : h.getRound r with
  | none => simp
  | some rvs =>
    simp only [Option.isSome_some, true_and]
    unfold HVS.getVoteSet HVS.getRound
    dsimp only
    rw [alookup_aset]
    by_cases hr : r' = r
    · subst hr
      have hl : alookup h.sets r' = some rvs := hg
      simp only [if_true, hl, Option.map_some, true_and]
      cases t <;> cases t' <;> simp
    · simp [hr]

theorem getVoteSet_addRound (h : HVS) (r : Int) (hn : h.getRound r = none) (r' : Int) (t' : VType) :
    (h.addRound r).getVoteSet r' t' = if r' = r then some VoteSet.empty else h.getVoteSet r' t' := by
  unfold HVS.getVoteSet HVS.getRound HVS.addRound
  dsimp only
  rw [alookup_append]
  by_cases hr : r' = r
  · subst hr
    have hl : alookup h.sets r' = none := hn
    simp only [hl, if_true]
    cases t' <;> rfl
  · cases hl : alookup h.sets r' <;> simp [hr]

theorem getRound_none_of_getVoteSet {h : HVS} {r : Int} {t : VType} (hg : h.getVoteSet r t = none) :
    h.getRound r = none := by
  unfold HVS.getVoteSet at hg
  cases hr : h.getRound r with
  | none => rfl
  | some y => simp [hr] at hg

theorem getRound_some_of_getVoteSet {h : HVS} {r : Int} {t : VType} {vs : VoteSet} (hg : h.getVoteSet r t = some vs) :
    (h.getRound r).isSome = true := by
  unfold HVS.getVoteSet at hg
  cases hr : h.getRound r with
  | none => simp [hr] at hg
  | some y => rfl

/-- replacing the set of (r, t) by a later stage of it -/
theorem HExt.put {c : Cfg} {A : Int → VType → Vote → Prop} (h : HVS) (r : Int) (t : VType) (vs vs' : VoteSet)
    (hg : h.getVoteSet r t = some vs) (hr : VReach c (A r t) vs vs') : HExt c A h (h.putVoteSet r t vs') := by
  have hs := getRound_some_of_getVoteSet hg
  refine ⟨?_, ?_⟩
  · intro r' t' x hx
    rw [getVoteSet_putVoteSet]
    by_cases he : r' = r ∧ t' = t
    · obtain ⟨e1, e2⟩ := he
      subst e1; subst e2
      rw [hg] at hx; cases hx
      exact ⟨vs', by simp [hs], hr⟩
    · have : ¬ ((h.getRound r).isSome = true ∧ r' = r ∧ t' = t) := fun hh => he hh.2
      exact ⟨x, by simp only [this, if_false]; exact hx, VReach.refl x⟩
  · intro r' t' x hx
    rw [getVoteSet_putVoteSet] at hx
    by_cases he : r' = r ∧ t' = t
    · obtain ⟨e1, e2⟩ := he
      subst e1; subst e2
      simp only [hs, and_self, if_true] at hx
      cases hx
      exact Or.inl ⟨vs, hg, hr⟩
    · have : ¬ ((h.getRound r).isSome = true ∧ r' = r ∧ t' = t) := fun hh => he hh.2
      simp only [this, if_false] at hx
      exact Or.inl ⟨x, hx, VReach.refl x⟩

/-- starting to track round `r` -/
theorem HExt.addRound (c : Cfg) (A : Int → VType → Vote → Prop) (h : HVS) (r : Int) (hn : h.getRound r = none) :
    HExt c A h (h.addRound r) := by
  refine ⟨?_, ?_⟩
  · intro r' t' x hx
    rw [getVoteSet_addRound h r hn]
    by_cases he : r' = r
    · subst he
      unfold HVS.getVoteSet at hx; rw [hn] at hx; simp at hx
    · exact ⟨x, by simp [he, hx], VReach.refl x⟩
  · intro r' t' x hx
    rw [getVoteSet_addRound h r hn] at hx
    by_cases he : r' = r
    · subst he
      simp only [if_true] at hx; cases hx
      refine Or.inr ⟨?_, VReach.refl _⟩
      unfold HVS.getVoteSet; rw [hn]; rfl
    · simp only [he, if_false] at hx
      exact Or.inl ⟨x, hx, VReach.refl x⟩

theorem HExt.congr_sets {c : Cfg} {A : Int → VType → Vote → Prop} {a b b' : HVS} (h : HExt c A a b)
    (e : b'.sets = b.sets) : HExt c A a b' := by
  refine ⟨?_, ?_⟩
  · intro r t vs hg
    obtain ⟨vs', hg', hr⟩ := h.fwd r t vs hg
    exact ⟨vs', by rw [getVoteSet_congr_sets e]; exact hg', hr⟩
  · intro r t vs' hg'
    rw [getVoteSet_congr_sets e] at hg'
    exact h.bwd r t vs' hg'

/-- `HeightVoteSet.AddVote` -/
theorem HExt.addVote (c : Cfg) (A : Int → VType → Vote → Prop) (h : HVS) (v : Vote) (peer : Peer)
    (ha : A (v.round : Int) v.typ v) : HExt c A h (h.addVote c v peer).1 := by
  unfold HVS.addVote
  dsimp only
  split
  · rename_i vs hg
    exact HExt.put h _ _ vs _ hg (VReach.add v (VReach.refl vs) ha)
  · rename_i hg
    split
    · have hn := getRound_none_of_getVoteSet hg
      have h1 : HExt c A h (h.addRound (v.round : Int)) := HExt.addRound c A h _ hn
      have h2 : HExt c A h { (h.addRound (v.round : Int)) with
          catchup := aset h.catchup peer ((alookup h.catchup peer).getD [] ++ [(v.round : Int)]) } :=
        h1.congr_sets rfl
      refine h2.trans ?_
      have hg2 : ({ (h.addRound (v.round : Int)) with
          catchup := aset h.catchup peer ((alookup h.catchup peer).getD [] ++ [(v.round : Int)]) } : HVS).getVoteSet
            (v.round : Int) v.typ = some VoteSet.empty :=
        (getVoteSet_congr_sets (a := h.addRound (v.round : Int)) rfl _ _).trans
          (by rw [getVoteSet_addRound h _ hn]; simp)
      exact HExt.put _ _ _ _ _ hg2 (VReach.add v (VReach.refl _) ha)
    · exact HExt.refl c A h

/-- `HeightVoteSet.SetPeerMaj23` -/
theorem HExt.setPeerMaj23 (c : Cfg) (A : Int → VType → Vote → Prop) (h : HVS) (r : Nat) (t : VType) (peer : Peer)
    (key : Bid) : HExt c A h (h.setPeerMaj23 r t peer key) := by
  unfold HVS.setPeerMaj23
  split
  · rename_i vs hg
    exact HExt.put h _ _ vs _ hg (VReach.claim peer key (VReach.refl vs))
  · exact HExt.refl c A h

theorem HExt.foldl_addRound (c : Cfg) (A : Int → VType → Vote → Prop) (rs : List Int) (h : HVS) :
    HExt c A h (rs.foldl (fun h r => if (h.getRound r).isSome then h else h.addRound r) h) := by
  induction rs generalizing h with
  | nil => exact HExt.refl c A h
  | cons a rs ih =>
    simp only [List.foldl]
    refine HExt.trans ?_ (ih _)
    split
    · exact HExt.refl c A h
    · rename_i hn
      apply HExt.addRound
      cases hg : h.getRound a with
      | none => rfl
      | some y => simp [hg] at hn

/-- `HeightVoteSet.SetRound` -/
theorem HExt.setRound (c : Cfg) (A : Int → VType → Vote → Prop) (h h' : HVS) (round : Int)
    (hs : h.setRound round = some h') : HExt c A h h' := by
  unfold HVS.setRound at hs
  simp only [] at hs
  split at hs
  · cases hs
  · cases hs
    exact (HExt.foldl_addRound c A _ h).congr_sets rfl

theorem getVoteSet_init (r : Int) (t : VType) :
    HVS.init.getVoteSet r t = if r = 0 then some VoteSet.empty else none := by
  unfold HVS.getVoteSet HVS.getRound HVS.init alookup
  by_cases h : r = 0
  · subst h; cases t <;> simp [List.find?]
  · have h' : ¬ (0 : Int) = r := fun e => h e.symm
    cases t <;> simp [List.find?, h, h']

theorem HVS.WF.init (c : Cfg) : HVS.WF c HVS.init := by
  intro r t vs hg
  rw [getVoteSet_init] at hg
  split at hg
  · cases hg; exact VoteSet.WF.empty c
  · cases hg

theorem HVS.only_init (r : Int) (t : VType) (key : Bid) (u : Nat) : HVS.init.only r t key u := by
  intro vs hg
  rw [getVoteSet_init] at hg
  split at hg
  · cases hg; exact VoteSet.only_empty key u
  · cases hg

/-- **a well-signed vote for a tracked round, of a validator with no conflicting vote in that set,
is recorded** -/
theorem HVS.addVote_records {c : Cfg} {h : HVS} (hw : h.WF c) (v : Vote) (peer : Peer) (hv : v.wellSigned c)
    (ht : (h.getVoteSet (v.round : Int) v.typ).isSome = true)
    (ho : h.only (v.round : Int) v.typ v.bid v.val) :
    (h.addVote c v peer).1.has (v.round : Int) v.typ v.bid v.val := by
  cases hg : h.getVoteSet (v.round : Int) v.typ with
  | none => rw [hg] at ht; cases ht
  | some vs =>
    refine ⟨(vs.addVote c v).1, ?_, VoteSet.addVote_records (hw _ _ vs hg) v hv (ho vs hg)⟩
    unfold HVS.addVote
    simp only [hg]
    rw [getVoteSet_putVoteSet]
    simp [getRound_some_of_getVoteSet hg]

end Tmv.Cons
