import Tmv.Lemmas.ConsQuorum
import Tmv.Model.VoteLog
/-! Vote-set membership invariant (C01): every bucket of every vote set lists distinct validators,
its power sum is the sum of their powers, and each listed validator's vote satisfies `E`
(later: "is in the network log"). -/
namespace Tmv.Cons

def MSb (c : Cfg) (E : Nat → Bool) (bv : BlockVotes) : Prop :=
  bv.voted.Nodup ∧ bv.sum = (bv.voted.map c.power).sum ∧ ∀ v ∈ bv.voted, v < c.n ∧ E v = true

def MSv (c : Cfg) (E : Bid → Nat → Bool) (vs : VoteSet) : Prop :=
  ∀ key bv, alookup vs.byBlock key = some bv → MSb c (E key) bv

def MSh (c : Cfg) (E : VType → Int → Bid → Nat → Bool) (h : HVS) : Prop :=
  ∀ r rvs, h.getRound r = some rvs → MSv c (E .prevote r) rvs.prevotes ∧ MSv c (E .precommit r) rvs.precommits

theorem MSb.nil (c : Cfg) (E : Nat → Bool) (b : Bool) : MSb c E ⟨b, [], 0⟩ := by
  refine ⟨List.nodup_nil, rfl, ?_⟩
  intro v hv; cases hv

theorem MSv.empty (c : Cfg) (E : Bid → Nat → Bool) : MSv c E VoteSet.empty := by
  intro key bv h; simp [VoteSet.empty, alookup] at h

theorem MSb.add (c : Cfg) (E : Nat → Bool) (bv : BlockVotes) (idx : Nat) (hm : MSb c E bv)
    (hi : idx < c.n) (he : E idx = true) : MSb c E (bv.add idx (c.power idx)) := by
  unfold BlockVotes.add
  split
  · exact hm
  · rename_i hc
    obtain ⟨h1, h2, h3⟩ := hm
    have hni : idx ∉ bv.voted := by simpa using hc
    refine ⟨?_, ?_, ?_⟩
    · show (bv.voted ++ [idx]).Nodup
      rw [List.nodup_append]
      refine ⟨h1, by simp, ?_⟩
      intro a ha b hb
      simp at hb; subst hb
      intro e; subst e; exact hni ha
    · show bv.sum + c.power idx = ((bv.voted ++ [idx]).map c.power).sum
      rw [List.map_append, List.sum_append, h2]; simp
    · intro v hv
      have hv' : v ∈ bv.voted ++ [idx] := hv
      rw [List.mem_append] at hv'
      rcases hv' with hv' | hv'
      · exact h3 v hv'
      · simp at hv'; subst hv'; exact ⟨hi, he⟩

theorem VoteSet.finish_byBlock (c : Cfg) (vs : VoteSet) (idx : Nat) (key : Bid) (bv : BlockVotes) :
    (VoteSet.finish c vs idx key bv).1.byBlock = aset vs.byBlock key (bv.add idx (c.power idx)) := by
  unfold VoteSet.finish
  simp only []
  repeat' split
  all_goals rfl

theorem VoteSet.finish_MS (c : Cfg) (E : Bid → Nat → Bool) (vs : VoteSet) (idx : Nat) (key : Bid) (bv : BlockVotes)
    (hbv : MSb c (E key) bv) (hi : idx < c.n) (he : E key idx = true) (hm : MSv c E vs) :
    MSv c E (VoteSet.finish c vs idx key bv).1 := by
  intro k b hk
  rw [VoteSet.finish_byBlock, alookup_aset] at hk
  by_cases e : k = key
  · subst e
    simp only [if_true] at hk
    cases hk
    exact MSb.add c _ bv idx hbv hi he
  · simp only [e, if_false] at hk
    exact hm k b hk

theorem VoteSet.addVerified_MS (c : Cfg) (E : Bid → Nat → Bool) (vs : VoteSet) (idx : Nat) (key : Bid)
    (hi : idx < c.n) (he : E key idx = true) (hm : MSv c E vs) :
    MSv c E (vs.addVerified c idx key).1 := by
  unfold VoteSet.addVerified
  simp only []
  have e1 : (vs.recordVote c idx key).byBlock = vs.byBlock := by
    unfold VoteSet.recordVote; repeat' split
    all_goals rfl
  have h1 : MSv c E (vs.recordVote c idx key) := by
    intro k b hk
    rw [e1] at hk
    exact hm k b hk
  split
  · rename_i bv hb
    split
    · exact h1
    · exact VoteSet.finish_MS c E _ idx key bv (h1 key bv hb) hi he h1
  · rename_i hb
    split
    · exact h1
    · exact VoteSet.finish_MS c E _ idx key _ (MSb.nil c _ false) hi he h1

/-- adding a vote: if it is really added (index in range and signature ok) its validator must satisfy E -/
theorem VoteSet.addVote_MS (c : Cfg) (E : Bid → Nat → Bool) (vs : VoteSet) (v : Vote) (hm : MSv c E vs)
    (hv : v.val < c.n → v.sigOK = true → E v.bid v.val = true) : MSv c E (vs.addVote c v).1 := by
  unfold VoteSet.addVote
  split
  · exact hm
  · rename_i hn
    split
    · exact hm
    · split
      · exact hm
      · split
        · exact hm
        · rename_i hs
          have hlt : v.val < c.n := by omega
          have hsig : v.sigOK = true := by
            cases h : v.sigOK
            · simp [h] at hs
            · rfl
          exact VoteSet.addVerified_MS c E vs _ _ hlt (hv hlt hsig) hm

theorem VoteSet.setPeerMaj23_MS (c : Cfg) (E) (vs : VoteSet) (peer : Peer) (key : Bid) (hm : MSv c E vs) :
    MSv c E (vs.setPeerMaj23 peer key) := by
  unfold VoteSet.setPeerMaj23
  simp only []
  split
  · exact hm
  · split
    · rename_i bv hb
      split
      · intro k b hk; exact hm k b hk
      · intro k b hk
        simp only [] at hk
        rw [alookup_aset] at hk
        by_cases e : k = key
        · subst e
          simp only [if_true] at hk
          cases hk
          exact hm k bv hb
        · simp only [e, if_false] at hk
          exact hm k b hk
    · rename_i hb
      intro k b hk
      simp only [] at hk
      rw [alookup_append] at hk
      cases hl : alookup vs.byBlock k with
      | some x => rw [hl] at hk; simp at hk; subst hk; exact hm k x hl
      | none =>
        rw [hl] at hk
        by_cases e : k = key
        · simp [e] at hk; subst hk; exact MSb.nil c _ true
        · simp [e] at hk

theorem MSh.init (c : Cfg) (E) : MSh c E HVS.init := by
  intro r rvs hv
  unfold HVS.getRound HVS.init alookup at hv
  simp only [List.find?] at hv
  split at hv
  · simp at hv; subst hv; exact ⟨MSv.empty c _, MSv.empty c _⟩
  · simp at hv

theorem MSb.mono {c : Cfg} {E E' : Nat → Bool} {bv : BlockVotes}
    (hE : ∀ v, E v = true → E' v = true) (hm : MSb c E bv) : MSb c E' bv :=
  ⟨hm.1, hm.2.1, fun v hv => ⟨(hm.2.2 v hv).1, hE v (hm.2.2 v hv).2⟩⟩

theorem MSv.mono {c : Cfg} {E E' : Bid → Nat → Bool} {vs : VoteSet}
    (hE : ∀ k v, E k v = true → E' k v = true) (hm : MSv c E vs) : MSv c E' vs :=
  fun k b hk => (hm k b hk).mono (hE k)

theorem MSh.mono {c : Cfg} {E E' : VType → Int → Bid → Nat → Bool} {h : HVS}
    (hE : ∀ t r k v, E t r k v = true → E' t r k v = true) (hm : MSh c E h) : MSh c E' h :=
  fun r rvs hr => ⟨(hm r rvs hr).1.mono (hE _ _), (hm r rvs hr).2.mono (hE _ _)⟩

theorem MSh.congr_sets {c : Cfg} {E} {a b : HVS} (h : MSh c E a) (e : b.sets = a.sets) : MSh c E b := by
  intro r rvs hv
  apply h r rvs
  unfold HVS.getRound at hv ⊢
  rw [← e]; exact hv

theorem MSh.getVoteSet {c : Cfg} {E} {h : HVS} (hq : MSh c E h) {r : Int} {t : VType} {vs : VoteSet}
    (hg : h.getVoteSet r t = some vs) : MSv c (E t r) vs := by
  unfold HVS.getVoteSet at hg
  cases hr : h.getRound r with
  | none => rw [hr] at hg; simp at hg
  | some rvs =>
    rw [hr] at hg
    have := hq r rvs hr
    cases t <;> simp at hg <;> subst hg
    · exact this.1
    · exact this.2

theorem HVS.addRound_MS (c : Cfg) (E) (h : HVS) (r : Int) (hq : MSh c E h) : MSh c E (h.addRound r) := by
  intro r' rvs hv
  unfold HVS.getRound HVS.addRound at hv
  simp only [] at hv
  rw [alookup_append] at hv
  cases hl : alookup h.sets r' with
  | some y =>
    rw [hl] at hv
    simp at hv; subst hv
    exact hq r' y hl
  | none =>
    rw [hl] at hv
    by_cases e : r' = r
    · simp [e] at hv; subst hv; exact ⟨MSv.empty c _, MSv.empty c _⟩
    · simp [e] at hv

theorem HVS.putVoteSet_MS (c : Cfg) (E) (h : HVS) (r : Int) (t : VType) (vs : VoteSet)
    (hvs : MSv c (E t r) vs) (hq : MSh c E h) :
    MSh c E (h.putVoteSet r t vs) := by
  intro r' rvs' hv
  unfold HVS.putVoteSet at hv
  cases hg : h.getRound r with
  | none => rw [hg] at hv; exact hq r' rvs' hv
  | some rvs =>
    rw [hg] at hv
    unfold HVS.getRound at hv
    simp only [] at hv
    rw [alookup_aset] at hv
    have hold := hq r rvs hg
    by_cases hr : r' = r
    · subst hr
      simp only [if_true] at hv
      cases t with
      | prevote => simp at hv; subst hv; exact ⟨hvs, hold.2⟩
      | precommit => simp at hv; subst hv; exact ⟨hold.1, hvs⟩
    · simp only [hr, if_false] at hv
      exact hq r' rvs' hv

theorem HVS.addVote_MS (c : Cfg) (E : VType → Int → Bid → Nat → Bool) (h : HVS) (v : Vote) (peer : Peer)
    (hm : MSh c E h) (hv : v.val < c.n → v.sigOK = true → E v.typ (v.round : Int) v.bid v.val = true) :
    MSh c E (h.addVote c v peer).1 := by
  unfold HVS.addVote
  simp only []
  split
  · rename_i vs hg
    exact HVS.putVoteSet_MS _ _ _ _ _ _ (VoteSet.addVote_MS c _ vs v (hm.getVoteSet hg) hv) hm
  · split
    · simp only []
      apply HVS.putVoteSet_MS _ _ _ _ _ _ (VoteSet.addVote_MS c _ _ v (MSv.empty c _) hv)
      exact (HVS.addRound_MS c E h _ hm).congr_sets rfl
    · exact hm

theorem HVS.setPeerMaj23_MS (c : Cfg) (E) (h : HVS) (r : Nat) (t : VType) (peer : Peer) (key : Bid)
    (hm : MSh c E h) : MSh c E (h.setPeerMaj23 r t peer key) := by
  unfold HVS.setPeerMaj23
  split
  · rename_i vs hg
    exact HVS.putVoteSet_MS _ _ _ _ _ _ (VoteSet.setPeerMaj23_MS c _ vs peer key (hm.getVoteSet hg)) hm
  · exact hm

theorem HVS.foldl_addRound_MS (c : Cfg) (E) (rs : List Int) (h : HVS) (hq : MSh c E h) :
    MSh c E (rs.foldl (fun h r => if (h.getRound r).isSome then h else h.addRound r) h) := by
  induction rs generalizing h with
  | nil => exact hq
  | cons a rs ih =>
    simp only [List.foldl]
    apply ih
    split
    · exact hq
    · exact HVS.addRound_MS c E h a hq

theorem HVS.setRound_MS (c : Cfg) (E) (h h' : HVS) (round : Int) (hs : h.setRound round = some h')
    (hm : MSh c E h) : MSh c E h' := by
  unfold HVS.setRound at hs
  simp only [] at hs
  split at hs
  · cases hs
  · cases hs
    exact (HVS.foldl_addRound_MS c E _ h hm).congr_sets rfl

theorem sum_map_perm (f : Nat → Nat) {l l' : List Nat} (hp : l.Perm l') : (l.map f).sum = (l'.map f).sum := by
  induction hp with
  | nil => rfl
  | cons x _ ih => simp [ih]
  | swap x y l => simp; omega
  | trans _ _ ih1 ih2 => exact ih1.trans ih2

/-- the arithmetic: distinct members below n that all satisfy p weigh at most the weight of p -/
theorem sum_le_wtUpTo (power : Nat → Nat) (p : Nat → Bool) (n : Nat) (l : List Nat) (hn : l.Nodup)
    (hl : ∀ v ∈ l, v < n ∧ p v = true) : (l.map power).sum ≤ VoteLog.wtUpTo power p n := by
  induction n generalizing l with
  | zero =>
    cases l with
    | nil => simp [VoteLog.wtUpTo]
    | cons a l => have := (hl a (List.mem_cons_self ..)).1; omega
  | succ n ih =>
    unfold VoteLog.wtUpTo
    by_cases hmem : n ∈ l
    · have hperm := List.perm_cons_erase hmem
      rw [sum_map_perm power hperm]
      have hpn : p n = true := (hl n hmem).2
      have hne : (l.erase n).Nodup := hn.erase n
      have := ih (l.erase n) hne (by
        intro v hv
        have hvl : v ∈ l := List.mem_of_mem_erase hv
        have hvn : v ≠ n := by
          intro e; subst e
          exact (List.Nodup.not_mem_erase hn) hv
        have := hl v hvl
        exact ⟨by omega, this.2⟩)
      simp only [List.map_cons, List.sum_cons, hpn, if_true]
      omega
    · have := ih l hn (by
        intro v hv
        have h2 := hl v hv
        have hvn : v ≠ n := by intro e; subst e; exact hmem hv
        exact ⟨by omega, h2.2⟩)
      omega

theorem MSh.blockSum_le {c : Cfg} {E} {h : HVS} (hm : MSh c E h) {r : Int} {t : VType} {vs : VoteSet}
    (hg : h.getVoteSet r t = some vs) (key : Bid) :
    vs.blockSum key ≤ VoteLog.wtUpTo c.power (E t r key) c.n := by
  have hv := hm.getVoteSet hg
  unfold VoteSet.blockSum
  cases hl : alookup vs.byBlock key with
  | none => exact Nat.zero_le _
  | some bv =>
    obtain ⟨h1, h2, h3⟩ := hv key bv hl
    show bv.sum ≤ _
    rw [h2]
    exact sum_le_wtUpTo c.power _ c.n bv.voted h1 h3

theorem total_eq_wt (c : Cfg) : c.total = VoteLog.wtUpTo c.power (fun _ => true) c.n := by
  unfold Cfg.total
  generalize c.n = n
  induction n with
  | zero => simp [VoteLog.wtUpTo]
  | succ n ih =>
    rw [List.range_succ, List.map_append, List.sum_append, ih]
    simp [VoteLog.wtUpTo]

end Tmv.Cons
