import Tmv.Model.SignCons
import Tmv.Lemmas.Sign
import Tmv.Lemmas.ConsSign
import Tmv.Lemmas.ConsChain
/-! Lemmas for the composition `Tmv.Node04`: whatever the consensus model, the WAL and the crashes
do, the signer component only ever moves by events of the signer machine; and the abstract signer
inside `Tmv.Cons` agrees with the real one call by call. -/
namespace Tmv.Node04
open Tmv.Sign

variable {Sig : Type}

theorem call_run (sigOf : SB → Sig) (c : Sign.Cfg Sig) (q : Req) (k : Option Nat) :
    ∃ es, (call sigOf c q k).1 = Sign.run sigOf c es := by
  cases k with
  | none =>
    obtain ⟨es, h⟩ := ticks_is_run sigOf 8 (Sign.step sigOf c (.req q)).1 (Sign.step sigOf c (.req q)).2
    exact ⟨.req q :: es, h⟩
  | some k =>
    cases k with
    | zero => exact ⟨[.crash], rfl⟩
    | succ k =>
      obtain ⟨es, h⟩ := ticksHold_is_run sigOf k (Sign.step sigOf c (.req q)).1
      refine ⟨.req q :: (es ++ [.crash]), ?_⟩
      show (Sign.step sigOf (ticksHold sigOf k (Sign.step sigOf c (.req q)).1) .crash).1 =
        Sign.run sigOf (Sign.step sigOf c (.req q)).1 (es ++ [.crash])
      rw [run_append, ← h]; rfl

theorem signAll_run (sigOf : SB → Sig) (g : Sign.Cfg Sig) (qs : List Req) :
    ∃ es, signAll sigOf g qs = Sign.run sigOf g es := by
  induction qs generalizing g with
  | nil => exact ⟨[], rfl⟩
  | cons q qs ih =>
    obtain ⟨e1, h1⟩ := call_run sigOf g q none
    obtain ⟨e2, h2⟩ := ih (call sigOf g q none).1
    refine ⟨e1 ++ e2, ?_⟩
    show signAll sigOf (call sigOf g q none).1 qs = _
    rw [h2, h1, run_append]

theorem signCrash_run (sigOf : SB → Sig) (g : Sign.Cfg Sig) (qs : List Req) (j k : Nat) :
    ∃ es, signCrash sigOf g qs j k = Sign.run sigOf g es := by
  unfold signCrash
  obtain ⟨e1, h1⟩ := signAll_run sigOf g (qs.take j)
  simp only
  split
  · rename_i q _
    obtain ⟨e2, h2⟩ := call_run sigOf (signAll sigOf g (qs.take j)) q (some k)
    exact ⟨e1 ++ e2, by rw [h2, h1, run_append]⟩
  · exact ⟨e1 ++ [.crash], by rw [h1, run_append]; rfl⟩

/-- one event of the composed system moves the signer by a run of the signer machine -/
theorem step_sg_run (e : Env) (c : Cons.Cfg) (sigOf : SB → Sig) (s : St Sig) (ev : Ev) :
    ∃ es, (step e c sigOf s ev).sg = Sign.run sigOf s.sg es := by
  cases ev with
  | input i t =>
    simp only [step]
    split
    · exact signAll_run sigOf s.sg _
    · exact ⟨[], rfl⟩
  | replayNext t =>
    simp only [step]
    split
    · exact ⟨[], rfl⟩
    · exact signAll_run sigOf s.sg _
  | crash w => exact ⟨[.crash], rfl⟩
  | crashInInput i t j k w =>
    simp only [step]
    split
    · exact signCrash_run sigOf s.sg _ j k
    · exact ⟨[], rfl⟩
  | crashInReplay t j k w =>
    simp only [step]
    split
    · exact ⟨[], rfl⟩
    · exact signCrash_run sigOf s.sg _ j k

theorem run_sg_run (e : Env) (c : Cons.Cfg) (sigOf : SB → Sig) (s : St Sig) (evs : List Ev) :
    ∃ es, (run e c sigOf s evs).sg = Sign.run sigOf s.sg es := by
  induction evs generalizing s with
  | nil => exact ⟨[], rfl⟩
  | cons ev evs ih =>
    obtain ⟨e1, h1⟩ := step_sg_run e c sigOf s ev
    obtain ⟨e2, h2⟩ := ih (step e c sigOf s ev)
    exact ⟨e1 ++ e2, by show (run e c sigOf (step e c sigOf s ev) evs).sg = _; rw [h2, h1, run_append]⟩

/-! ### the abstract signer of `Tmv.Cons` is the abstraction of the real one -/

structure EnvOK (e : Env) : Prop where
  valid : ∀ b, bidValid (e.blk b) = true
  nonzero : ∀ b, bidIsZero (e.blk b) = false
  inv : ∀ b, e.unblk (e.blk b) = b

/-- sign-bytes content of a request of the consensus model -/
def Env.sbOf (e : Env) (t : Int) : Cons.Output → Option SB
  | .signProposal r b pol =>
    some { typ := proposalType, h := e.H, r := r, pol := pol, bid := some (e.blk b), ts := t, chain := e.chain }
  | .signVote ty r bid =>
    some { typ := vtyp ty, h := e.H, r := r, pol := 0, bid := bid.map e.blk, ts := t, chain := e.chain }
  | _ => none

theorem signBytes_reqOf {e : Env} (he : EnvOK e) {t : Int} {o : Cons.Output} {q : Req}
    (hq : e.reqOf t o = some q) : signBytes q = e.sbOf t o := by
  cases o with
  | signProposal r b pol =>
    simp only [Env.reqOf, Option.some.injEq] at hq; subst hq
    simp [signBytes, he.valid b, canonBid, he.nonzero b, Env.sbOf]
  | signVote ty r bid =>
    simp only [Env.reqOf, Option.some.injEq] at hq; subst hq
    cases bid with
    | none => simp [signBytes, Env.bid, zeroBid, bidValid, validHash, canonBid, bidIsZero, Env.sbOf]
    | some b => simp [signBytes, Env.bid, he.valid b, canonBid, he.nonzero b, Env.sbOf]
  | schedule => simp [Env.reqOf] at hq
  | decide => simp [Env.reqOf] at hq
  | panic => simp [Env.reqOf] at hq

theorem vtyp_ne_proposal (ty : Cons.VType) : vtyp ty ≠ proposalType := by
  cases ty <;> decide

theorem step_vtyp (ty : Cons.VType) : stepOfTyp (vtyp ty) = (ty.code : Int) := by
  cases ty <;> decide

theorem reqStep_vote (ty : Cons.VType) (h r pol : Int) (bid : BlockID) (ts : Int) (chain : String) :
    reqStep ⟨.vote, vtyp ty, h, r, pol, bid, ts, chain⟩ = some (ty.code : Int) := by
  cases ty <;> rfl

theorem sigKey_inj {o o' : Cons.Output} {k : Nat × Nat × Cons.Payload}
    (h : Cons.sigKey o = some k) (h' : Cons.sigKey o' = some k) : o = o' := by
  have hh := h.trans h'.symm
  cases o <;> cases o' <;> simp [Cons.sigKey] at hh ⊢
  all_goals (try (cases ‹Cons.VType›))
  all_goals (try (cases ‹Cons.VType›))
  all_goals simp_all [Cons.VType.code, Cons.sigKey]

theorem payloadOf_sbOf {e : Env} (he : EnvOK e) {t : Int} {o : Cons.Output} {sb : SB}
    {r cd : Nat} {p : Cons.Payload} (hs : e.sbOf t o = some sb) (hk : Cons.sigKey o = some (r, cd, p)) :
    e.payloadOf sb = p ∧ sb.h = e.H ∧ sb.r = r ∧ stepOfTyp sb.typ = cd := by
  cases o with
  | signProposal r' b pol =>
    simp only [Env.sbOf, Option.some.injEq] at hs; subst hs
    simp only [Cons.sigKey, Option.some.injEq, Prod.mk.injEq] at hk
    obtain ⟨rfl, rfl, rfl⟩ := hk
    refine ⟨by simp [Env.payloadOf, he.inv], rfl, rfl, ?_⟩
    show stepOfTyp proposalType = ((1 : Nat) : Int)
    decide
  | signVote ty r' bid =>
    simp only [Env.sbOf, Option.some.injEq] at hs; subst hs
    simp only [Cons.sigKey, Option.some.injEq, Prod.mk.injEq] at hk
    obtain ⟨rfl, rfl, rfl⟩ := hk
    refine ⟨?_, rfl, rfl, ?_⟩
    · simp only [Env.payloadOf, vtyp_ne_proposal ty, if_false]
      cases bid <;> simp [he.inv]
    · exact step_vtyp ty
  | schedule => simp [Env.sbOf] at hs
  | decide => simp [Env.sbOf] at hs
  | panic => simp [Env.sbOf] at hs

theorem reqStep_reqOf {e : Env} {t : Int} {o : Cons.Output} {q : Req} {r cd : Nat} {p : Cons.Payload}
    (hq : e.reqOf t o = some q) (hk : Cons.sigKey o = some (r, cd, p)) :
    reqStep q = some (cd : Int) ∧ q.h = e.H ∧ q.r = r := by
  cases o with
  | signProposal r' b pol =>
    simp only [Env.reqOf, Option.some.injEq] at hq; subst hq
    simp only [Cons.sigKey, Option.some.injEq, Prod.mk.injEq] at hk
    obtain ⟨rfl, rfl, rfl⟩ := hk
    exact ⟨rfl, rfl, rfl⟩
  | signVote ty r' bid =>
    simp only [Env.reqOf, Option.some.injEq] at hq; subst hq
    simp only [Cons.sigKey, Option.some.injEq, Prod.mk.injEq] at hk
    obtain ⟨rfl, rfl, rfl⟩ := hk
    exact ⟨reqStep_vote ty _ _ _ _ _ _, rfl, rfl⟩
  | schedule => simp [Env.reqOf] at hq
  | decide => simp [Env.reqOf] at hq
  | panic => simp [Env.reqOf] at hq

/-- two requests of the model for the same key differ only in the timestamp; for different
payloads they differ in more -/
theorem sbOf_eqModTs {e : Env} (he : EnvOK e) {t t' : Int} {o o' : Cons.Output} {a b : SB}
    {r cd : Nat} {p p' : Cons.Payload}
    (ha : e.sbOf t o = some a) (hb : e.sbOf t' o' = some b)
    (hk : Cons.sigKey o = some (r, cd, p)) (hk' : Cons.sigKey o' = some (r, cd, p')) :
    eqModTs a b = true ↔ p = p' := by
  constructor
  · intro h
    obtain ⟨h1, _, _, h4, h5, _⟩ := eqModTs_fields h
    have pa := (payloadOf_sbOf he ha hk).1
    have pb := (payloadOf_sbOf he hb hk').1
    rw [← pa, ← pb]
    simp only [Env.payloadOf, h1, h4, h5]
  · intro h
    subst h
    have : o = o' := sigKey_inj hk hk'
    subst this
    cases o <;> simp [Env.sbOf] at ha hb
    all_goals (subst ha; subst hb; simp [eqModTs])

/-! explicit answers of one complete call on an idle signer -/

theorem checkHRS_fresh_of_lt {l : LSS Sig} {h r st : Int} (hlt : hrsLt (lssHRS l) (h, r, st)) :
    checkHRS l h r st = .fresh := by
  unfold hrsLt lssHRS at hlt
  simp only at hlt
  unfold checkHRS
  repeat' split
  all_goals first | rfl | omega

theorem call_fresh (sigOf : SB → Sig) (disk : LSS Sig) (rel : List (Rel Sig)) (q : Req) (st : Int) (sb : SB)
    (hst : reqStep q = some st) (hchk : checkHRS disk q.h q.r st = .fresh) (hsb : signBytes q = some sb) :
    call sigOf ⟨disk, disk, .idle, rel⟩ q none =
      (⟨⟨q.h, q.r, st, some (sigOf sb), some sb⟩, ⟨q.h, q.r, st, some (sigOf sb), some sb⟩, .idle,
        ⟨sb, sb, sigOf sb⟩ :: rel⟩, .ok sb (sigOf sb)) := by
  simp [call, Sign.step, begin, hst, hchk, hsb, ticks]

theorem call_err (sigOf : SB → Sig) (disk : LSS Sig) (rel : List (Rel Sig)) (q : Req) (st : Int) (er : Err)
    (hst : reqStep q = some st) (hchk : checkHRS disk q.h q.r st = .err er) :
    call sigOf ⟨disk, disk, .idle, rel⟩ q none = (⟨disk, disk, .idle, rel⟩, .err er) := by
  simp [call, Sign.step, begin, hst, hchk, ticks]

theorem call_same (sigOf : SB → Sig) (disk : LSS Sig) (rel : List (Rel Sig)) (q : Req) (st : Int)
    (sb lsb : SB) (g : Sig)
    (hst : reqStep q = some st) (hchk : checkHRS disk q.h q.r st = .same) (hsb : signBytes q = some sb)
    (hl : disk.sb = some lsb) (hg : disk.sig = some g) :
    call sigOf ⟨disk, disk, .idle, rel⟩ q none =
      if eqModTs lsb sb = true then (⟨disk, disk, .idle, ⟨sb, lsb, g⟩ :: rel⟩, .ok lsb g)
      else (⟨disk, disk, .idle, rel⟩, .err .conflict) := by
  by_cases hts : eqModTs lsb sb = true
  · have hb : begin ⟨disk, disk, .idle, rel⟩ q = (⟨disk, disk, .reusing sb lsb g, rel⟩, .none) := by
      simp only [begin, hst, hchk, hsb, hl, hg, hts]
      split <;> rfl
    simp only [call, Sign.step, hb, ticks, hts, if_true]
  · have hne : sb ≠ lsb := by
      intro h; subst h; exact hts (eqModTs_refl _)
    simp [call, Sign.step, begin, hst, hchk, hsb, hl, hg, hts, hne, ticks]

theorem hrsLt_same_h (H a b c d : Int) : hrsLt (H, a, b) (H, c, d) ↔ a < c ∨ (a = c ∧ b < d) := by
  show (H < H ∨ (H = H ∧ (a < c ∨ (a = c ∧ b < d)))) ↔ _
  omega

/-- a state file the composed system can be in: of a lower height, or of this height holding the
sign bytes of a request of the consensus model -/
def Good (e : Env) (l : LSS Sig) : Prop :=
  l.h < e.H ∨ (l.h = e.H ∧ ∃ o t sb g, ∃ lr lc : Nat, ∃ lp,
    Cons.sigKey o = some (lr, lc, lp) ∧ e.sbOf t o = some sb ∧ l.r = lr ∧ l.step = lc ∧
    l.sb = some sb ∧ l.sig = some g)

theorem absLss_low {e : Env} {l : LSS Sig} (h : l.h < e.H) : e.absLss l = none := by
  unfold Env.absLss
  have : ¬ l.h = e.H := by omega
  simp [this]

theorem absLss_at {e : Env} (he : EnvOK e) {l : LSS Sig} {o : Cons.Output} {t : Int} {sb : SB}
    {lr lc : Nat} {lp : Cons.Payload} (hh : l.h = e.H) (hk : Cons.sigKey o = some (lr, lc, lp))
    (hs : e.sbOf t o = some sb) (hr : l.r = lr) (hc : l.step = lc) (hsb : l.sb = some sb) :
    e.absLss l = some (lr, lc, lp) := by
  unfold Env.absLss
  simp [hh, hsb, hr, hc, (payloadOf_sbOf he hs hk).1]

/-- **The two signers agree.** For an idle real signer in a `Good` state and the consensus model's
abstract signer holding its abstraction: `Cons.sign` releases a signature exactly when one complete
call of the real signer returns one, the new states again correspond (and are `Good`), and a
refusal of the abstract signer is an error answer of the real one that changes nothing. -/
theorem sign_refines {e : Env} (he : EnvOK e) {c : Cons.Cfg} (hc : c.checkHRS = true) (sigOf : SB → Sig)
    (disk : LSS Sig) (rel : List (Rel Sig)) (hg : Good e disk)
    (s : Cons.NodeState) (hs : s.lss = e.absLss disk)
    (o : Cons.Output) (round code : Nat) (p : Cons.Payload) (hk : Cons.sigKey o = some (round, code, p))
    (t : Int) (q : Req) (hq : e.reqOf t o = some q) :
    (∀ s', Cons.sign c s round code p = some s' →
      ∃ disk' rel' sb sig, call sigOf ⟨disk, disk, .idle, rel⟩ q none = (⟨disk', disk', .idle, rel'⟩, .ok sb sig) ∧
        s'.lss = e.absLss disk' ∧ Good e disk' ∧ rel'.length = rel.length + 1) ∧
    (Cons.sign c s round code p = none →
      ∃ er, call sigOf ⟨disk, disk, .idle, rel⟩ q none = (⟨disk, disk, .idle, rel⟩, .err er)) := by
  obtain ⟨hst, hqh, hqr⟩ := reqStep_reqOf hq hk
  have hsbq : signBytes q = e.sbOf t o := signBytes_reqOf he hq
  obtain ⟨sb, hsb⟩ : ∃ sb, e.sbOf t o = some sb := by
    cases o <;> simp [Cons.sigKey] at hk <;> exact ⟨_, rfl⟩
  rw [hsb] at hsbq
  -- the state a fresh signature leaves behind
  have fresh_ok : checkHRS disk q.h q.r (code : Int) = .fresh →
      ∃ disk' rel' sb' sig, call sigOf ⟨disk, disk, .idle, rel⟩ q none = (⟨disk', disk', .idle, rel'⟩, .ok sb' sig) ∧
        some (round, code, p) = e.absLss disk' ∧ Good e disk' ∧ rel'.length = rel.length + 1 := by
    intro hchk
    refine ⟨_, _, _, _, call_fresh sigOf disk rel q _ sb hst hchk hsbq, ?_, ?_, rfl⟩
    · exact (absLss_at he hqh hk hsb hqr rfl rfl).symm
    · exact Or.inr ⟨hqh, o, t, sb, sigOf sb, round, code, p, hk, hsb, hqr, rfl, rfl, rfl⟩
  rcases hg with hlow | ⟨hh, lo, lt, lsb, g, lr, lc, lp, hlk, hlsb, hlr, hlc, hdsb, hdsig⟩
  · -- nothing signed at this height yet
    have habs : s.lss = none := by rw [hs, absLss_low hlow]
    have hchk : checkHRS disk q.h q.r (code : Int) = .fresh :=
      checkHRS_fresh_of_lt (Or.inl (by rw [hqh]; exact hlow))
    constructor
    · intro s' hs'
      unfold Cons.sign at hs'
      simp only [hc, habs, Bool.not_true, Bool.false_eq_true, if_false] at hs'
      cases hs'
      exact fresh_ok hchk
    · intro hn
      unfold Cons.sign at hn
      simp [hc, habs] at hn
  · have habs : s.lss = some (lr, lc, lp) := by rw [hs]; exact absLss_at he hh hlk hlsb hlr hlc hdsb
    have hHRS : lssHRS disk = (e.H, (lr : Int), (lc : Int)) := by simp [lssHRS, hh, hlr, hlc]
    constructor
    · intro s' hs'
      rcases Cons.sign_some hc hs' with ⟨rfl, hl⟩ | ⟨rfl, hl⟩
      · -- same (round, step, payload): the stored signature is reused
        rw [habs] at hl
        simp only [Option.some.injEq, Prod.mk.injEq] at hl
        obtain ⟨h1, h2, h3⟩ := hl
        subst h1; subst h2; subst h3
        have hchk : checkHRS disk q.h q.r (lc : Int) = .same :=
          checkHRS_eq_same (by rw [hHRS, hqh, hqr]) hdsb hdsig
        have hts : eqModTs lsb sb = true := (sbOf_eqModTs he hlsb hsb hlk hk).2 rfl
        refine ⟨disk, ⟨sb, lsb, g⟩ :: rel, lsb, g, ?_, hs, Or.inr ⟨hh, lo, lt, lsb, g, lr, lc, lp, hlk, hlsb, hlr, hlc, hdsb, hdsig⟩, rfl⟩
        rw [call_same sigOf disk rel q _ sb lsb g hst hchk hsbq hdsb hdsig, if_pos hts]
      · rcases hl with hn | ⟨lr', lc', lp', hl', hlt⟩
        · rw [habs] at hn; cases hn
        · rw [habs] at hl'
          simp only [Option.some.injEq, Prod.mk.injEq] at hl'
          obtain ⟨h1, h2, _⟩ := hl'
          subst h1; subst h2
          have hchk : checkHRS disk q.h q.r (code : Int) = .fresh := by
            apply checkHRS_fresh_of_lt
            rw [hHRS, hqh, hqr]
            exact (hrsLt_same_h _ _ _ _ _).2 (by omega)
          exact fresh_ok hchk
    · intro hn
      unfold Cons.sign at hn
      simp only [hc, habs, Bool.not_true, Bool.false_eq_true, if_false] at hn
      split at hn
      · -- round regression
        rename_i hgt
        obtain ⟨er, her⟩ := checkHRS_regression (l := disk) (h := q.h) (r := q.r) (st := (code : Int))
          (by rw [hHRS, hqh, hqr]; exact (hrsLt_same_h _ _ _ _ _).2 (by omega))
        exact ⟨er, call_err sigOf disk rel q _ er hst her⟩
      · split at hn
        · split at hn
          · rename_i hgt
            obtain ⟨er, her⟩ := checkHRS_regression (l := disk) (h := q.h) (r := q.r) (st := (code : Int))
              (by rw [hHRS, hqh, hqr]; exact (hrsLt_same_h _ _ _ _ _).2 (by omega))
            exact ⟨er, call_err sigOf disk rel q _ er hst her⟩
          · split at hn
            · split at hn
              · cases hn
              · -- same round and step, other payload: conflicting data
                rename_i hr hc1 hc2 hne
                have h1 : lr = round := hr
                have h2 : lc = code := hc2
                subst h1; subst h2
                have hchk : checkHRS disk q.h q.r (lc : Int) = .same :=
                  checkHRS_eq_same (by rw [hHRS, hqh, hqr]) hdsb hdsig
                have hts : ¬ eqModTs lsb sb = true := fun h => hne ((sbOf_eqModTs he hlsb hsb hlk hk).1 h)
                refine ⟨.conflict, ?_⟩
                rw [call_same sigOf disk rel q _ sb lsb g hst hchk hsbq hdsb hdsig, if_neg hts]
            · cases hn
        · cases hn

/-! ### the agreement chained through a whole step of the consensus model -/

theorem reqOf_none {e : Env} {t : Int} {o : Cons.Output} (h : Cons.sigKey o = none) : e.reqOf t o = none := by
  cases o <;> simp [Cons.sigKey] at h <;> rfl

theorem reqOf_some {e : Env} {t : Int} {o : Cons.Output} {k : Nat × Nat × Cons.Payload}
    (h : Cons.sigKey o = some k) : ∃ q, e.reqOf t o = some q := by
  cases o <;> simp [Cons.sigKey] at h <;> exact ⟨_, rfl⟩

theorem signAll_append (sigOf : SB → Sig) (g : Sign.Cfg Sig) (qs : List Req) (q : Req) :
    signAll sigOf g (qs ++ [q]) = (call sigOf (signAll sigOf g qs) q none).1 := by
  simp [signAll, List.foldl_append]

/-- relation kept through a step: the real signer, driven by the requests released so far in this
step, is idle, `Good`, every call was answered with a signature, and its abstraction is the
consensus model's `lss` -/
def StepRel (e : Env) (t : Int) (sigOf : SB → Sig) (sg0 : Sign.Cfg Sig) (out0 : List Cons.Output)
    (out : List Cons.Output) (lss : Option (Nat × Nat × Cons.Payload)) : Prop :=
  ∃ disk rel, out0 <+: out ∧
    signAll sigOf sg0 ((out.drop out0.length).filterMap (e.reqOf t)) = ⟨disk, disk, .idle, rel⟩ ∧
    Good e disk ∧ lss = e.absLss disk ∧
    rel.length = sg0.rel.length + ((out.drop out0.length).filterMap (e.reqOf t)).length

theorem stepRel_closed {e : Env} (he : EnvOK e) {c : Cons.Cfg} (hc : c.checkHRS = true) (t : Int)
    (sigOf : SB → Sig) (sg0 : Sign.Cfg Sig) (out0 : List Cons.Output) :
    Cons.ChainClosed c (StepRel e t sigOf sg0 out0) := by
  constructor
  · intro out lss o ⟨disk, rel, hpre, hsa, hg, hl, hlen⟩ ho
    refine ⟨disk, rel, hpre.trans (List.prefix_append _ _), ?_, hg, hl, ?_⟩
    · rw [List.drop_append_of_le_length hpre.length_le, List.filterMap_append]
      simp [reqOf_none ho, hsa]
    · rw [List.drop_append_of_le_length hpre.length_le, List.filterMap_append]
      simp [reqOf_none ho, hlen]
  · intro s s' r cd p o ⟨disk, rel, hpre, hsa, hg, hl, hlen⟩ hsig ho
    obtain ⟨q, hq⟩ := reqOf_some (e := e) (t := t) ho
    obtain ⟨disk', rel', sb, sig, hcall, hl', hg', hlen'⟩ :=
      (sign_refines he hc sigOf disk rel hg s hl o r cd p ho t q hq).1 s' hsig
    have hout : s'.out = s.out := (Cons.sign_fields hsig).2.1
    rw [hout]
    refine ⟨disk', rel', hpre.trans (List.prefix_append _ _), ?_, hg', hl', ?_⟩
    · rw [List.drop_append_of_le_length hpre.length_le, List.filterMap_append]
      simp only [List.filterMap_cons, hq, List.filterMap_nil]
      rw [signAll_append, hsa, hcall]
    · rw [List.drop_append_of_le_length hpre.length_le, List.filterMap_append]
      simp only [List.filterMap_cons, hq, List.filterMap_nil, List.length_append, List.length_singleton]
      omega

/-- **Refinement of a whole step.** On an idle, `Good` real signer: set the consensus model's
abstract signer to its abstraction, handle any input (`Cons.step`, which may sign several times
and drain the node's own messages), put the released requests to the real signer in order. Unless
the node panicked, EVERY one of them is answered with a signature (the journal grows by exactly
their number), the real signer is idle and `Good` again, and its abstraction is the abstract
signer's final state — so re-abstracting before the next input changes nothing. -/
theorem step_refines {e : Env} (he : EnvOK e) {c : Cons.Cfg} (hc : c.checkHRS = true) (sigOf : SB → Sig)
    (disk : LSS Sig) (rel : List (Rel Sig)) (hg : Good e disk) (ns : Cons.NodeState) (i : Cons.Input) (t : Int)
    (hh : (consStep e c ns ⟨disk, disk, .idle, rel⟩ i t).1.halted = false) :
    ∃ disk' rel', signAll sigOf ⟨disk, disk, .idle, rel⟩ (consStep e c ns ⟨disk, disk, .idle, rel⟩ i t).2 =
        ⟨disk', disk', .idle, rel'⟩ ∧ Good e disk' ∧
      (consStep e c ns ⟨disk, disk, .idle, rel⟩ i t).1.lss = e.absLss disk' ∧
      rel'.length = rel.length + (consStep e c ns ⟨disk, disk, .idle, rel⟩ i t).2.length := by
  let ns0 : Cons.NodeState := { ns with lss := e.absLss disk }
  have h0 : ns0.halted = true ∨ StepRel e t sigOf ⟨disk, disk, .idle, rel⟩ ns0.out ns0.out ns0.lss :=
    Or.inr ⟨disk, rel, List.prefix_refl _, by simp [signAll], hg, rfl, by simp⟩
  have h1 := Cons.step_chain (stepRel_closed he hc t sigOf ⟨disk, disk, .idle, rel⟩ ns0.out) i h0
  rcases h1 with h1 | ⟨disk', rel', _, hsa, hg', hl', hlen⟩
  · have : (consStep e c ns ⟨disk, disk, .idle, rel⟩ i t).1.halted = true := h1
    rw [hh] at this; cases this
  · exact ⟨disk', rel', hsa, hg', hl', hlen⟩

end Tmv.Node04
