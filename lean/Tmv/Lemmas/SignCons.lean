import Tmv.Model.SignCons
import Tmv.Lemmas.Sign
import Tmv.Lemmas.ConsSign
/-! Lemmas for the composition `Tmv.Node04`: whatever the consensus model, the WAL and the crashes
do, the signer component only ever moves by events of the signer machine; and the abstract signer
inside `Tmv.Cons` agrees with the real one call by call. -/
namespace Tmv.Node04
open Tmv.Sign

variable {Sig : Type}

theorem call_run (sigOf : SB → Sig) (c : Sign.Cfg Sig) (q : Req) (k : Option Nat) :
    ∃ es, (call sigOf c q k).1 = Sign.run sigOf c es := by
  cases k with
  | none =>
    obtain ⟨es, h⟩ := ticks_is_run sigOf 8 (Sign.step sigOf c (.req q)).1 (Sign.step sigOf c (.req q)).2
    exact ⟨.req q :: es, h⟩
  | some k =>
    cases k with
    | zero => exact ⟨[.crash], rfl⟩
    | succ k =>
      obtain ⟨es, h⟩ := ticksHold_is_run sigOf k (Sign.step sigOf c (.req q)).1
      refine ⟨.req q :: (es ++ [.crash]), ?_⟩
      show (Sign.step sigOf (ticksHold sigOf k (Sign.step sigOf c (.req q)).1) .crash).1 =
        Sign.run sigOf (Sign.step sigOf c (.req q)).1 (es ++ [.crash])
      rw [run_append, ← h]; rfl

theorem signAll_run (sigOf : SB → Sig) (g : Sign.Cfg Sig) (qs : List Req) :
    ∃ es, signAll sigOf g qs = Sign.run sigOf g es := by
  induction qs generalizing g with
  | nil => exact ⟨[], rfl⟩
  | cons q qs ih =>
    obtain ⟨e1, h1⟩ := call_run sigOf g q none
    obtain ⟨e2, h2⟩ := ih (call sigOf g q none).1
    refine ⟨e1 ++ e2, ?_⟩
    show signAll sigOf (call sigOf g q none).1 qs = _
    rw [h2, h1, run_append]

theorem signCrash_run (sigOf : SB → Sig) (g : Sign.Cfg Sig) (qs : List Req) (j k : Nat) :
    ∃ es, signCrash sigOf g qs j k = Sign.run sigOf g es := by
  unfold signCrash
  obtain ⟨e1, h1⟩ := signAll_run sigOf g (qs.take j)
  simp only
  split
  · rename_i q _
    obtain ⟨e2, h2⟩ := call_run sigOf (signAll sigOf g (qs.take j)) q (some k)
    exact ⟨e1 ++ e2, by rw [h2, h1, run_append]⟩
  · exact ⟨e1 ++ [.crash], by rw [h1, run_append]; rfl⟩

/-- one event of the composed system moves the signer by a run of the signer machine -/
theorem step_sg_run (e : Env) (c : Cons.Cfg) (sigOf : SB → Sig) (s : St Sig) (ev : Ev) :
    ∃ es, (step e c sigOf s ev).sg = Sign.run sigOf s.sg es := by
  cases ev with
  | input i t =>
    simp only [step]
    split
    · exact signAll_run sigOf s.sg _
    · exact ⟨[], rfl⟩
  | replayNext t =>
    simp only [step]
    split
    · exact ⟨[], rfl⟩
    · exact signAll_run sigOf s.sg _
  | crash keep => exact ⟨[.crash], rfl⟩
  | crashInInput i t j k keep =>
    simp only [step]
    split
    · exact signCrash_run sigOf s.sg _ j k
    · exact ⟨[], rfl⟩
  | crashInReplay t j k keep =>
    simp only [step]
    split
    · exact ⟨[], rfl⟩
    · exact signCrash_run sigOf s.sg _ j k

theorem run_sg_run (e : Env) (c : Cons.Cfg) (sigOf : SB → Sig) (s : St Sig) (evs : List Ev) :
    ∃ es, (run e c sigOf s evs).sg = Sign.run sigOf s.sg es := by
  induction evs generalizing s with
  | nil => exact ⟨[], rfl⟩
  | cons ev evs ih =>
    obtain ⟨e1, h1⟩ := step_sg_run e c sigOf s ev
    obtain ⟨e2, h2⟩ := ih (step e c sigOf s ev)
    exact ⟨e1 ++ e2, by show (run e c sigOf (step e c sigOf s ev) evs).sg = _; rw [h2, h1, run_append]⟩

/-! ### the abstract signer of `Tmv.Cons` is the abstraction of the real one -/

structure EnvOK (e : Env) : Prop where
  valid : ∀ b, bidValid (e.blk b) = true
  nonzero : ∀ b, bidIsZero (e.blk b) = false
  inv : ∀ b, e.unblk (e.blk b) = b

/-- sign-bytes content of a request of the consensus model -/
def Env.sbOf (e : Env) (t : Int) : Cons.Output → Option SB
  | .signProposal r b pol =>
    some { typ := proposalType, h := e.H, r := r, pol := pol, bid := some (e.blk b), ts := t, chain := e.chain }
  | .signVote ty r bid =>
    some { typ := vtyp ty, h := e.H, r := r, pol := 0, bid := bid.map e.blk, ts := t, chain := e.chain }
  | _ => none

theorem signBytes_reqOf {e : Env} (he : EnvOK e) {t : Int} {o : Cons.Output} {q : Req}
    (hq : e.reqOf t o = some q) : signBytes q = e.sbOf t o := by
  cases o with
  | signProposal r b pol =>
    simp only [Env.reqOf, Option.some.injEq] at hq; subst hq
    simp [signBytes, he.valid b, canonBid, he.nonzero b, Env.sbOf]
  | signVote ty r bid =>
    simp only [Env.reqOf, Option.some.injEq] at hq; subst hq
    cases bid with
    | none => simp [signBytes, Env.bid, zeroBid, bidValid, validHash, canonBid, bidIsZero, Env.sbOf]
    | some b => simp [signBytes, Env.bid, he.valid b, canonBid, he.nonzero b, Env.sbOf]
  | schedule => simp [Env.reqOf] at hq
  | decide => simp [Env.reqOf] at hq
  | panic => simp [Env.reqOf] at hq

theorem vtyp_ne_proposal (ty : Cons.VType) : vtyp ty ≠ proposalType := by
  cases ty <;> decide

theorem payloadOf_sbOf {e : Env} (he : EnvOK e) {t : Int} {o : Cons.Output} {sb : SB}
    {r cd : Nat} {p : Cons.Payload} (hs : e.sbOf t o = some sb) (hk : Cons.sigKey o = some (r, cd, p)) :
    e.payloadOf sb = p ∧ sb.h = e.H ∧ sb.r = r ∧ stepOfTyp sb.typ = cd := by
  cases o with
  | signProposal r' b pol =>
    simp only [Env.sbOf, Option.some.injEq] at hs; subst hs
    simp only [Cons.sigKey, Option.some.injEq, Prod.mk.injEq] at hk
    obtain ⟨rfl, rfl, rfl⟩ := hk
    refine ⟨by simp [Env.payloadOf, he.inv], rfl, rfl, ?_⟩
    show stepOfTyp proposalType = ((1 : Nat) : Int)
    decide
  | signVote ty r' bid =>
    simp only [Env.sbOf, Option.some.injEq] at hs; subst hs
    simp only [Cons.sigKey, Option.some.injEq, Prod.mk.injEq] at hk
    obtain ⟨rfl, rfl, rfl⟩ := hk
    refine ⟨?_, rfl, rfl, ?_⟩
    · simp only [Env.payloadOf, vtyp_ne_proposal ty, if_false]
      cases bid <;> simp [he.inv]
    · cases ty <;> decide
  | schedule => simp [Env.sbOf] at hs
  | decide => simp [Env.sbOf] at hs
  | panic => simp [Env.sbOf] at hs

theorem reqStep_reqOf {e : Env} {t : Int} {o : Cons.Output} {q : Req} {r cd : Nat} {p : Cons.Payload}
    (hq : e.reqOf t o = some q) (hk : Cons.sigKey o = some (r, cd, p)) :
    reqStep q = some (cd : Int) ∧ q.h = e.H ∧ q.r = r := by
  cases o with
  | signProposal r' b pol =>
    simp only [Env.reqOf, Option.some.injEq] at hq; subst hq
    simp only [Cons.sigKey, Option.some.injEq, Prod.mk.injEq] at hk
    obtain ⟨rfl, rfl, rfl⟩ := hk
    exact ⟨by decide, rfl, rfl⟩
  | signVote ty r' bid =>
    simp only [Env.reqOf, Option.some.injEq] at hq; subst hq
    simp only [Cons.sigKey, Option.some.injEq, Prod.mk.injEq] at hk
    obtain ⟨rfl, rfl, rfl⟩ := hk
    refine ⟨?_, rfl, rfl⟩
    cases ty <;> decide
  | schedule => simp [Env.reqOf] at hq
  | decide => simp [Env.reqOf] at hq
  | panic => simp [Env.reqOf] at hq

/-- two requests of the model for the same key differ only in the timestamp; for different
payloads they differ in more -/
theorem sbOf_eqModTs {e : Env} (he : EnvOK e) {t t' : Int} {o o' : Cons.Output} {a b : SB}
    {r cd : Nat} {p p' : Cons.Payload}
    (ha : e.sbOf t o = some a) (hb : e.sbOf t' o' = some b)
    (hk : Cons.sigKey o = some (r, cd, p)) (hk' : Cons.sigKey o' = some (r, cd, p')) :
    eqModTs a b = true ↔ p = p' := by
  constructor
  · intro h
    obtain ⟨h1, _, _, h4, h5, _⟩ := eqModTs_fields h
    have pa := (payloadOf_sbOf he ha hk).1
    have pb := (payloadOf_sbOf he hb hk').1
    rw [← pa, ← pb]
    simp only [Env.payloadOf, h1, h4, h5]
  · intro h
    subst h
    have : o = o' := by
      cases o <;> cases o' <;> simp [Cons.sigKey] at hk hk' <;> try (obtain ⟨rfl, rfl, rfl⟩ := hk; obtain ⟨h1, h2, h3⟩ := hk')
      all_goals first
        | (subst h1; cases h3; rfl)
        | (subst h1; cases h3; rename_i t1 _ _ t2 _ _; cases t1 <;> cases t2 <;> simp [Cons.VType.code] at h2 <;> rfl)
        | (simp [Cons.VType.code] at h2)
        | (rename_i t1 _ _ ; cases t1 <;> simp [Cons.VType.code] at h2)
    subst this
    cases o <;> simp [Env.sbOf] at ha hb
    all_goals (subst ha; subst hb; simp [eqModTs])

end Tmv.Node04
