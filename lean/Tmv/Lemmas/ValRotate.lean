import Tmv.Lemmas.ValSetWF
/-! Rotation arithmetic for C08: under `total ≤ MaxTotalVotingPower` and bounded priorities no
clamp (`safeAddClip/safeSubClip`) and no int64 wrap is ever taken; rescaling brings the spread
into the window `2·total`; centring and rotation keep the sum of priorities in `[0, n)`. -/
namespace Tmv.ValSet

theorem tdiv_spread (a b r D : Int) (hr : 1 ≤ r) (hD : 0 ≤ D) (hab : a - b ≤ r * D) :
    Int.tdiv a r - Int.tdiv b r ≤ D := by
  have hr0 : 0 < r := by omega
  have ea := Int.mul_tdiv_add_tmod a r
  have eb := Int.mul_tdiv_add_tmod b r
  apply Classical.byContradiction
  intro hcon
  have hk : D + 1 ≤ Int.tdiv a r - Int.tdiv b r := by omega
  have hmul := Int.mul_le_mul_of_nonneg_left hk (by omega : (0:Int) ≤ r)
  rw [Int.mul_sub, Int.mul_add, Int.mul_one] at hmul
  -- remainders
  have ha1 : Int.tmod a r < r := Int.tmod_lt_of_pos a hr0
  have hb1 : Int.tmod b r < r := Int.tmod_lt_of_pos b hr0
  have ha2 : -r < Int.tmod a r := by
    have := Int.tmod_lt_of_pos (-a) hr0
    rw [Int.neg_tmod] at this; omega
  have hb2 : -r < Int.tmod b r := by
    have := Int.tmod_lt_of_pos (-b) hr0
    rw [Int.neg_tmod] at this; omega
  -- rb - ra ≥ r
  have hrr : r ≤ Int.tmod b r - Int.tmod a r := by omega
  have hbpos : 0 < Int.tmod b r := by omega
  have haneg : Int.tmod a r < 0 := by omega
  -- signs
  have hb0 : 0 < b := by
    apply Classical.byContradiction; intro h
    have : Int.tmod b r ≤ 0 := by
      have := Int.tmod_nonneg r (by omega : 0 ≤ -b)
      rw [Int.neg_tmod] at this; omega
    omega
  have ha0 : a < 0 := by
    apply Classical.byContradiction; intro h
    have := Int.tmod_nonneg r (by omega : 0 ≤ a)
    omega
  have hqb : 0 ≤ Int.tdiv b r := Int.tdiv_nonneg (by omega) (by omega)
  have hqa : Int.tdiv a r ≤ 0 := by
    have := Int.tdiv_nonneg (by omega : 0 ≤ -a) (by omega : 0 ≤ r)
    rw [Int.neg_tdiv] at this; omega
  omega

theorem wrap64_id (x : Int) (h1 : -9223372036854775808 ≤ x) (h2 : x ≤ 9223372036854775807) :
    wrap64 x = x := by
  unfold wrap64; omega

theorem tdiv_between (a r lo hi : Int) (hr : 1 ≤ r) (hlo : lo ≤ 0) (hhi : 0 ≤ hi)
    (h1 : lo ≤ a) (h2 : a ≤ hi) : lo ≤ Int.tdiv a r ∧ Int.tdiv a r ≤ hi := by
  have hr0 : 0 < r := by omega
  have ea := Int.mul_tdiv_add_tmod a r
  by_cases ha : 0 ≤ a
  · have q0 : 0 ≤ Int.tdiv a r := Int.tdiv_nonneg ha (by omega)
    have r0 := Int.tmod_nonneg r ha
    have : Int.tdiv a r ≤ r * Int.tdiv a r := by
      have := Int.mul_le_mul_of_nonneg_right hr q0
      rw [Int.one_mul] at this; exact this
    omega
  · have hna : 0 ≤ -a := by omega
    have q0 : 0 ≤ Int.tdiv (-a) r := Int.tdiv_nonneg hna (by omega)
    have r0 := Int.tmod_nonneg r hna
    rw [Int.neg_tdiv] at q0
    rw [Int.neg_tmod] at r0
    have : -(Int.tdiv a r) ≤ r * -(Int.tdiv a r) := by
      have := Int.mul_le_mul_of_nonneg_right hr q0
      rw [Int.one_mul] at this; exact this
    rw [Int.mul_neg] at this
    omega

/-! ### max / min folds -/

theorem maxPrioFrom_ge (l : List Val) (m : Int) :
    m ≤ maxPrioFrom m l ∧ ∀ v ∈ l, v.prio ≤ maxPrioFrom m l := by
  induction l generalizing m with
  | nil => simp [maxPrioFrom]
  | cons v r ih =>
    unfold maxPrioFrom
    by_cases hc : v.prio > m
    · simp only [hc, if_true]
      obtain ⟨h1, h2⟩ := ih v.prio
      refine ⟨by omega, ?_⟩
      intro w hw
      rcases List.mem_cons.mp hw with e | hw'
      · rw [e]; exact h1
      · exact h2 w hw'
    · simp only [hc, if_false]
      obtain ⟨h1, h2⟩ := ih m
      refine ⟨h1, ?_⟩
      intro w hw
      rcases List.mem_cons.mp hw with e | hw'
      · rw [e]; omega
      · exact h2 w hw'

theorem maxPrioFrom_le (l : List Val) (m hi : Int) (hm : m ≤ hi) (hl : ∀ v ∈ l, v.prio ≤ hi) :
    maxPrioFrom m l ≤ hi := by
  induction l generalizing m with
  | nil => simpa [maxPrioFrom] using hm
  | cons v r ih =>
    unfold maxPrioFrom
    apply ih
    · have := hl v List.mem_cons_self; split <;> omega
    · intro w hw; exact hl w (List.mem_cons_of_mem _ hw)

theorem minPrioFrom_le (l : List Val) (m : Int) :
    minPrioFrom m l ≤ m ∧ ∀ v ∈ l, minPrioFrom m l ≤ v.prio := by
  induction l generalizing m with
  | nil => simp [minPrioFrom]
  | cons v r ih =>
    unfold minPrioFrom
    by_cases hc : v.prio < m
    · simp only [hc, if_true]
      obtain ⟨h1, h2⟩ := ih v.prio
      refine ⟨by omega, ?_⟩
      intro w hw
      rcases List.mem_cons.mp hw with e | hw'
      · rw [e]; exact h1
      · exact h2 w hw'
    · simp only [hc, if_false]
      obtain ⟨h1, h2⟩ := ih m
      refine ⟨h1, ?_⟩
      intro w hw
      rcases List.mem_cons.mp hw with e | hw'
      · rw [e]; omega
      · exact h2 w hw'

theorem minPrioFrom_ge (l : List Val) (m lo : Int) (hm : lo ≤ m) (hl : ∀ v ∈ l, lo ≤ v.prio) :
    lo ≤ minPrioFrom m l := by
  induction l generalizing m with
  | nil => simpa [minPrioFrom] using hm
  | cons v r ih =>
    unfold minPrioFrom
    apply ih
    · have := hl v List.mem_cons_self; split <;> omega
    · intro w hw; exact hl w (List.mem_cons_of_mem _ hw)

/-- priorities within `[-P, P]` -/
def PBound (P : Int) (l : List Val) : Prop := ∀ v ∈ l, -P ≤ v.prio ∧ v.prio ≤ P
/-- spread at most `D` -/
def Spread (D : Int) (l : List Val) : Prop := ∀ v ∈ l, ∀ w ∈ l, v.prio - w.prio ≤ D

/-- `computeMaxMinPriorityDiff` does not wrap and bounds every pairwise difference -/
theorem prioDiff_spec (l : List Val) (P : Int) (hne : l ≠ []) (hP : 0 ≤ P)
    (hP2 : P ≤ 3458764513820540925) (hb : PBound P l) :
    0 ≤ prioDiff l ∧ prioDiff l ≤ 2 * P ∧ Spread (prioDiff l) l ∧
    prioDiff l = maxPrioFrom minI64 l - minPrioFrom maxI64 l := by
  obtain ⟨v0, hv0⟩ := List.exists_mem_of_ne_nil l hne
  have hmx1 := maxPrioFrom_ge l minI64
  have hmx2 := maxPrioFrom_le l minI64 P (by unfold minI64; omega) (fun v hv => (hb v hv).2)
  have hmn1 := minPrioFrom_le l maxI64
  have hmn2 := minPrioFrom_ge l maxI64 (-P) (by unfold maxI64; omega) (fun v hv => (hb v hv).1)
  have h0a := hmx1.2 v0 hv0
  have h0b := hmn1.2 v0 hv0
  have hd : prioDiff l = maxPrioFrom minI64 l - minPrioFrom maxI64 l := by
    unfold prioDiff
    simp only
    rw [wrap64_id _ (by omega) (by omega)]
    split
    · omega
    · rfl
  refine ⟨by omega, by omega, ?_, hd⟩
  intro v hv w hw
  have := hmx1.2 v hv
  have := hmn1.2 w hw
  omega

theorem mem_map_setPrio {l : List Val} {f : Val → Int} {x : Val}
    (hx : x ∈ l.map (fun v => setPrio v (f v))) : ∃ v ∈ l, x = setPrio v (f v) := by
  obtain ⟨v, hv, e⟩ := List.mem_map.mp hx
  exact ⟨v, hv, e.symm⟩

/-- `RescalePriorities(2·T)`: afterwards the spread is within the window, bounds are kept -/
theorem rescale_spec (l : List Val) (P T : Int) (hne : l ≠ []) (hP : 0 ≤ P)
    (hP2 : P ≤ 3458764513820540925) (hT : 0 < T) (hT2 : T ≤ 1152921504606846975)
    (hb : PBound P l) :
    PBound P (rescale l (2 * T)) ∧ Spread (2 * T) (rescale l (2 * T)) := by
  obtain ⟨d0, d1, d2, _⟩ := prioDiff_spec l P hne hP hP2 hb
  unfold rescale
  have hdm : ¬ 2 * T ≤ 0 := by omega
  simp only [hdm, if_false]
  by_cases hgt : prioDiff l > 2 * T
  · simp only [hgt, if_true]
    generalize hD : prioDiff l = D at *
    rw [wrap64_id (D + 2 * T) (by omega) (by omega), wrap64_id (D + 2 * T - 1) (by omega) (by omega)]
    have hx0 : 0 ≤ D + 2 * T - 1 := by omega
    rw [Int.tdiv_eq_ediv_of_nonneg hx0]
    generalize hr : (D + 2 * T - 1) / (2 * T) = r
    have hdm0 : 0 < 2 * T := by omega
    have e1 := Int.mul_ediv_add_emod (D + 2 * T - 1) (2 * T)
    have e2 := Int.emod_lt_of_pos (D + 2 * T - 1) hdm0
    rw [hr] at e1
    have hr1 : 1 ≤ r := by
      rw [← hr]; apply Int.le_ediv_of_mul_le hdm0; omega
    have hcov : D ≤ r * (2 * T) := by rw [Int.mul_comm]; omega
    constructor
    · intro x hx
      obtain ⟨v, hv, e⟩ := mem_map_setPrio hx
      rw [e]; simp only [setPrio]
      have := hb v hv
      exact tdiv_between v.prio r (-P) P hr1 (by omega) hP this.1 this.2
    · intro x hx y hy
      obtain ⟨v, hv, e⟩ := mem_map_setPrio hx
      obtain ⟨w, hw, e'⟩ := mem_map_setPrio hy
      rw [e, e']; simp only [setPrio]
      apply tdiv_spread _ _ r (2 * T) hr1 (by omega)
      have := d2 v hv w hw; omega
  · simp only [hgt, if_false]
    refine ⟨hb, ?_⟩
    intro v hv w hw
    have := d2 v hv w hw; omega

/-! ### centring -/

theorem prioSum_bounds (l : List Val) (lo hi : Int) (h : ∀ v ∈ l, lo ≤ v.prio ∧ v.prio ≤ hi) :
    lo * (l.length : Int) ≤ prioSum l ∧ prioSum l ≤ hi * (l.length : Int) := by
  induction l with
  | nil => simp [prioSum]
  | cons v r ih =>
    have hv := h v List.mem_cons_self
    obtain ⟨i1, i2⟩ := ih (fun w hw => h w (List.mem_cons_of_mem _ hw))
    simp only [prioSum, List.length_cons, Int.natCast_succ, Int.mul_add, Int.mul_one]
    omega

theorem avgPrio_bounds (l : List Val) (lo hi : Int) (hne : l ≠ [])
    (h : ∀ v ∈ l, lo ≤ v.prio ∧ v.prio ≤ hi) : lo ≤ avgPrio l ∧ avgPrio l ≤ hi := by
  have hn : 0 < (l.length : Int) := by
    cases l with
    | nil => exact absurd rfl hne
    | cons a b => simp only [List.length_cons, Int.natCast_succ]; omega
  obtain ⟨i1, i2⟩ := prioSum_bounds l lo hi h
  unfold avgPrio
  exact ⟨Int.le_ediv_of_mul_le hn i1, Int.ediv_le_of_le_mul hn i2⟩

theorem prioSum_map_sub (l : List Val) (a : Int) :
    prioSum (l.map (fun v => setPrio v (v.prio - a))) = prioSum l - a * (l.length : Int) := by
  induction l with
  | nil => simp [prioSum]
  | cons v r ih =>
    simp only [List.map_cons, prioSum, List.length_cons, Int.natCast_succ, Int.mul_add,
      Int.mul_one]
    rw [ih]
    simp only [setPrio]
    omega

/-- `shiftByAvgProposerPriority` never clamps, leaves everybody within the spread and the sum
of priorities in `[0, n)` -/
theorem shift_spec (l : List Val) (P D : Int) (hne : l ≠ []) (hP : 0 ≤ P)
    (hP2 : P ≤ 3458764513820540925) (hb : PBound P l) (hs : Spread D l) :
    shiftByAvg l = l.map (fun v => setPrio v (v.prio - avgPrio l)) ∧
    PBound D (shiftByAvg l) ∧
    0 ≤ prioSum (shiftByAvg l) ∧ prioSum (shiftByAvg l) < (l.length : Int) := by
  have hn : 0 < (l.length : Int) := by
    cases l with
    | nil => exact absurd rfl hne
    | cons a b => simp only [List.length_cons, Int.natCast_succ]; omega
  obtain ⟨a1, a2⟩ := avgPrio_bounds l (-P) P hne hb
  have heq : shiftByAvg l = l.map (fun v => setPrio v (v.prio - avgPrio l)) := by
    unfold shiftByAvg
    simp only
    apply List.map_congr_left
    intro v hv
    have := hb v hv
    congr 1
    unfold safeSubClip maxI64 minI64
    split
    · omega
    · split <;> omega
  refine ⟨heq, ?_, ?_⟩
  · rw [heq]
    intro x hx
    obtain ⟨v, hv, e⟩ := mem_map_setPrio hx
    rw [e]; simp only [setPrio]
    -- the average lies within D of v
    obtain ⟨b1, b2⟩ := avgPrio_bounds l (v.prio - D) (v.prio + D) hne (by
      intro w hw
      have := hs v hv w hw
      have := hs w hw v hv
      omega)
    omega
  · rw [heq, prioSum_map_sub]
    unfold avgPrio
    have e1 := Int.mul_ediv_add_emod (prioSum l) (l.length : Int)
    have e2 := Int.emod_lt_of_pos (prioSum l) hn
    have e3 := Int.emod_nonneg (prioSum l) (by omega : (l.length : Int) ≠ 0)
    rw [Int.mul_comm] at e1
    omega

/-! ### one rotation -/

theorem mostFrom_isSome' (l : List Val) (hne : l ≠ []) : ∃ m, mostFrom none l = some m := by
  cases l with
  | nil => exact absurd rfl hne
  | cons v r =>
    have : ∀ (r : List Val) (res : Val), ∃ m, mostFrom (some res) r = some m := by
      intro r
      induction r with
      | nil => intro res; exact ⟨res, rfl⟩
      | cons w t ih => intro res; exact ih _
    exact this r _

theorem cmpPrio_cases (r : Option Val) (v : Val) : cmpPrio r v = v ∨ r = some (cmpPrio r v) := by
  unfold cmpPrio
  cases r with
  | none => left; rfl
  | some x =>
    simp only
    split
    · right; rfl
    · split
      · left; rfl
      · split
        · right; rfl
        · split
          · left; rfl
          · right; rfl

theorem mostFrom_mem (l : List Val) (res : Option Val) :
    ∀ x, mostFrom res l = some x → x ∈ l ∨ res = some x := by
  induction l generalizing res with
  | nil => intro x hx; right; simpa [mostFrom] using hx
  | cons v r ih =>
    intro x hx
    unfold mostFrom at hx
    rcases ih _ x hx with h | h
    · left; exact List.mem_cons_of_mem _ h
    · rcases cmpPrio_cases res v with e | e
      · left; rw [e] at h; cases h; exact List.mem_cons_self
      · right; rw [e]; exact h

theorem map_id_of_addr_ne (r : List Val) (m m' : Val) (h : ∀ w ∈ r, w.addr ≠ m.addr) :
    r.map (fun v => if v.addr = m.addr then m' else v) = r := by
  induction r with
  | nil => rfl
  | cons w t ih =>
    simp only [List.map_cons]
    rw [ih (fun x hx => h x (List.mem_cons_of_mem _ hx))]
    simp [h w List.mem_cons_self]

theorem prioSum_replace (l : List Val) (m : Val) (q : Int) (hnd : (l.map (·.addr)).Nodup)
    (hm : m ∈ l) :
    prioSum (l.map (fun v => if v.addr = m.addr then setPrio m q else v)) = prioSum l - m.prio + q := by
  induction l with
  | nil => cases hm
  | cons v r ih =>
    simp only [List.map_cons, List.nodup_cons] at hnd
    simp only [List.map_cons, prioSum]
    rcases List.mem_cons.mp hm with e | hm'
    · subst e
      have hne : ∀ w ∈ r, w.addr ≠ m.addr := by
        intro w hw e; apply hnd.1; rw [← e]; exact List.mem_map.mpr ⟨w, hw, rfl⟩
      rw [map_id_of_addr_ne r m _ hne]
      simp only [if_true, setPrio]
      omega
    · have hva : ¬ v.addr = m.addr := by
        intro e; apply hnd.1; rw [e]; exact List.mem_map.mpr ⟨m, hm', rfl⟩
      simp only [hva, if_false]
      rw [ih hnd.2 hm']
      omega

theorem prioSum_map_add (l : List Val) :
    prioSum (l.map (fun v => setPrio v (v.prio + v.power))) = prioSum l + sumPower l := by
  induction l with
  | nil => simp [prioSum, sumPower]
  | cons v r ih =>
    simp only [List.map_cons, prioSum, sumPower, List.sum_cons]
    rw [ih]
    simp only [setPrio, sumPower]
    omega

/-- what one `incrementProposerPriority()` does when nothing clamps -/
structure IncrOut (l : List Val) (T : Int) (out : List Val × Option Val) : Prop where
  sameAP : SameAP out.1 l
  prop : ∃ p, out.2 = some p ∧ p ∈ out.1
  sum : prioSum out.1 = prioSum l + sumPower l - T
  exact : ∃ m, m ∈ l.map (fun v => setPrio v (v.prio + v.power)) ∧
    mostPrio (l.map (fun v => setPrio v (v.prio + v.power))) = some m ∧
    out.1 = (l.map (fun v => setPrio v (v.prio + v.power))).map
      (fun v => if v.addr = m.addr then setPrio m (m.prio - T) else v) ∧
    out.2 = some (setPrio m (m.prio - T))

theorem incrOnce_spec' (l : List Val) (T B : Int) (hne : l ≠ []) (hnd : (l.map (·.addr)).Nodup)
    (hB : 0 ≤ B) (hB2 : B ≤ 3458764513820540925) (hT : 0 ≤ T) (hT2 : T ≤ 1152921504606846975)
    (hpow : ∀ v ∈ l, 0 ≤ v.power ∧ v.power ≤ T) (hb : PBound B l) :
    IncrOut l T (incrOnce l T) ∧ PBound (B + T) (incrOnce l T).1 := by
  have hl1 : l.map (fun v => setPrio v (safeAddClip v.prio v.power)) =
      l.map (fun v => setPrio v (v.prio + v.power)) := by
    apply List.map_congr_left
    intro v hv
    have := hb v hv; have := hpow v hv
    congr 1
    unfold safeAddClip maxI64 minI64
    split
    · omega
    · split <;> omega
  generalize hl1d : l.map (fun v => setPrio v (v.prio + v.power)) = l1 at *
  have hap1 : SameAP l1 l := hl1d ▸ sameAP_map_setPrio l _
  have hl1ne : l1 ≠ [] := by rw [← hl1d]; simpa using hne
  have hnd1 : (l1.map (·.addr)).Nodup := by rw [hap1.addrs]; exact hnd
  have hb1 : ∀ x ∈ l1, -B ≤ x.prio ∧ x.prio ≤ B + T := by
    intro x hx
    rw [← hl1d] at hx
    obtain ⟨v, hv, e⟩ := mem_map_setPrio hx
    rw [e]; simp only [setPrio]
    have := hb v hv; have := hpow v hv
    omega
  have hsome := mostFrom_isSome' l1 hl1ne
  obtain ⟨m, hm⟩ := hsome
  have hmem : m ∈ l1 := by
    rcases mostFrom_mem l1 none m hm with h | h
    · exact h
    · cases h
  have hmb := hb1 m hmem
  have hsub : safeSubClip m.prio T = m.prio - T := by
    unfold safeSubClip maxI64 minI64
    split
    · omega
    · split <;> omega
  have hout : incrOnce l T = (l1.map (fun v => if v.addr = m.addr then setPrio m (m.prio - T) else v),
      some (setPrio m (m.prio - T))) := by
    unfold incrOnce
    simp only [hl1]
    have : mostPrio l1 = some m := hm
    rw [this]
    simp only [hsub]
  rw [hout]
  have hap2 : SameAP (l1.map (fun v => if v.addr = m.addr then setPrio m (m.prio - T) else v)) l1 := by
    unfold SameAP
    rw [List.map_map]
    apply List.map_congr_left
    intro v hv
    simp only [Function.comp]
    split
    · rename_i hva
      have := nodup_map_inj l1 hnd1 v m hv hmem hva
      rw [this]; rfl
    · rfl
  constructor
  · refine ⟨hap2.trans hap1, ⟨_, rfl, ?_⟩, ?_, by rw [hl1d]; exact ⟨m, hmem, hm, rfl, rfl⟩⟩
    · exact List.mem_map.mpr ⟨m, hmem, by simp⟩
    · simp only
      rw [prioSum_replace l1 m _ hnd1 hmem, ← hl1d, prioSum_map_add]
      omega
  · intro x hx
    simp only at hx
    obtain ⟨v, hv, e⟩ := List.mem_map.mp hx
    have hvb := hb1 v hv
    split at e
    · rw [← e]; simp only [setPrio]; omega
    · rw [← e]; omega

/-! ### `IncrementProposerPriority(1)` on a well-formed set with bounded priorities -/

theorem sumPower_nonneg (l : List Val) (hp : ∀ v ∈ l, 0 ≤ v.power) : 0 ≤ sumPower l := by
  induction l with
  | nil => simp [sumPower]
  | cons w t ih =>
    have h1 := hp w List.mem_cons_self
    have h2 := ih (fun x hx => hp x (List.mem_cons_of_mem _ hx))
    simp only [sumPower, List.map_cons, List.sum_cons] at h2 ⊢; omega

theorem totalFrom_eq (l : List Val) (acc : Int) (hacc : 0 ≤ acc) (hp : ∀ v ∈ l, 0 ≤ v.power)
    (hs : acc + sumPower l ≤ 9223372036854775807) : totalFrom acc l = acc + sumPower l := by
  induction l generalizing acc with
  | nil => simp [totalFrom, sumPower]
  | cons v r ih =>
    have hv := hp v List.mem_cons_self
    have hr : ∀ w ∈ r, 0 ≤ w.power := fun w hw => hp w (List.mem_cons_of_mem _ hw)
    have hrs : 0 ≤ sumPower r := sumPower_nonneg r hr
    simp only [sumPower, List.map_cons, List.sum_cons] at hs
    simp only [sumPower] at hrs
    have hclip : safeAddClip acc v.power = acc + v.power := by
      unfold safeAddClip maxI64 minI64
      split
      · omega
      · split <;> omega
    unfold totalFrom
    rw [hclip, ih (acc + v.power) (by omega) hr (by simp only [sumPower]; omega)]
    simp only [sumPower, List.map_cons, List.sum_cons]; omega

theorem power_le_sum (l : List Val) (hp : ∀ v ∈ l, 0 ≤ v.power) : ∀ v ∈ l, v.power ≤ sumPower l := by
  induction l with
  | nil => intro v hv; cases hv
  | cons w r ih =>
    have hr : ∀ x ∈ r, 0 ≤ x.power := fun x hx => hp x (List.mem_cons_of_mem _ hx)
    have hrs : 0 ≤ sumPower r := sumPower_nonneg r hr
    intro v hv
    simp only [sumPower, List.map_cons, List.sum_cons]
    simp only [sumPower] at hrs
    rcases List.mem_cons.mp hv with e | hv'
    · rw [e]; omega
    · have h3 := ih hr v hv'
      have h4 := hp w List.mem_cons_self
      simp only [sumPower] at h3; omega

theorem lePower_pairwise_sameAP {a b : List Val} (h : SameAP a b)
    (hb : b.Pairwise (fun x y => lePower x y = true)) : a.Pairwise (fun x y => lePower x y = true) := by
  have key : ∀ l : List Val, l.Pairwise (fun x y => lePower x y = true) ↔
      (l.map (fun v => (v.addr, v.power))).Pairwise
        (fun p q => (decide (p.2 > q.2 ∨ (p.2 = q.2 ∧ p.1 ≤ q.1))) = true) := by
    intro l; rw [List.pairwise_map]; rfl
  rw [key, h, ← key]; exact hb

theorem WF.of_sameAP {a b : List Val} (h : SameAP a b) (hb : WF b) : WF a := by
  refine ⟨by rw [h.addrs]; exact hb.nodup, ?_, lePower_pairwise_sameAP h hb.sorted, ?_, by
    rw [h.sumPower]; exact hb.total_le, by rw [h.sumPower]; exact hb.total_pos⟩
  · intro v hv
    obtain ⟨y, hy, _, e⟩ := h.mem v hv
    rw [← e]; exact hb.pos y hy
  · intro e
    have := h.length
    rw [e] at this
    exact hb.ne (List.eq_nil_of_length_eq_zero this.symm)

/-- the constant bound on priorities of reachable sets: `3 · MaxTotalVotingPower` -/
def prioCap : Int := 3458764513820540925

/-- Everything `IncrementProposerPriority(1)` does on a well-formed set whose priorities are
within `prioCap`: no clamp or wrap is taken (the intermediate values are the exact integer
formulas), membership/powers/order are untouched, the new priorities are within `3·total`, their
sum stays in `[0, n)`, and the proposer is a member. -/
theorem increment_one_spec (s : VSet) (hwf : WF s.vals) (hb : PBound prioCap s.vals) :
    ∃ s', increment s 1 = some s' ∧ WF s'.vals ∧ SameAP s'.vals s.vals ∧
      PBound (3 * sumPower s.vals) s'.vals ∧ PBound prioCap s'.vals ∧
      0 ≤ prioSum s'.vals ∧ prioSum s'.vals < (s'.vals.length : Int) ∧
      (∃ p, s'.proposer = some p ∧ p ∈ s'.vals) ∧
      -- dead clamp branches
      totalPower s.vals = sumPower s.vals ∧
      shiftByAvg (rescale s.vals (2 * sumPower s.vals)) =
        (rescale s.vals (2 * sumPower s.vals)).map
          (fun v => setPrio v (v.prio - avgPrio (rescale s.vals (2 * sumPower s.vals)))) ∧
      IncrOut (normalize s.vals) (sumPower s.vals) (incrOnce (normalize s.vals) (sumPower s.vals)) := by
  have hT1 := hwf.total_pos
  have hT2 := hwf.total_le
  rw [maxTotal_eq] at hT2
  have hpos : ∀ v ∈ s.vals, 0 ≤ v.power := fun v hv => by have := hwf.pos v hv; omega
  have htot : totalPower s.vals = sumPower s.vals := by
    unfold totalPower
    rw [totalFrom_eq s.vals 0 (by omega) hpos (by omega)]; omega
  obtain ⟨r1, r2⟩ := rescale_spec s.vals prioCap (sumPower s.vals) hwf.ne (by unfold prioCap; omega)
    (by unfold prioCap; omega) hT1 hT2 hb
  have hrap := rescale_sameAP s.vals (2 * sumPower s.vals)
  have hrne : rescale s.vals (2 * sumPower s.vals) ≠ [] := by
    intro e; have := hrap.length; rw [e] at this
    exact hwf.ne (List.eq_nil_of_length_eq_zero this.symm)
  obtain ⟨s1, s2, s3, s4⟩ := shift_spec _ prioCap (2 * sumPower s.vals) hrne (by unfold prioCap; omega)
    (by unfold prioCap; omega) r1 r2
  have hnorm : normalize s.vals = shiftByAvg (rescale s.vals (2 * sumPower s.vals)) := by
    unfold normalize; rw [windowFactor_eq, htot]
  have hnap : SameAP (normalize s.vals) s.vals := by
    rw [hnorm]; exact (shiftByAvg_sameAP _).trans hrap
  have hnne : normalize s.vals ≠ [] := by
    intro e; have := hnap.length; rw [e] at this
    exact hwf.ne (List.eq_nil_of_length_eq_zero this.symm)
  have hnpow : ∀ v ∈ normalize s.vals, 0 ≤ v.power ∧ v.power ≤ sumPower s.vals := by
    intro v hv
    obtain ⟨y, hy, _, e⟩ := hnap.mem v hv
    rw [← e]
    exact ⟨hpos y hy, power_le_sum s.vals hpos y hy⟩
  obtain ⟨i1, i2⟩ := incrOnce_spec' (normalize s.vals) (sumPower s.vals) (2 * sumPower s.vals) hnne
    (by rw [hnap.addrs]; exact hwf.nodup) (by omega) (by omega) (by omega) hT2 hnpow
    (by rw [hnorm]; exact s2)
  refine ⟨⟨(incrOnce (normalize s.vals) (sumPower s.vals)).1, (incrOnce (normalize s.vals) (sumPower s.vals)).2⟩,
    ?_, ?_, ?_, ?_, ?_, ?_, ?_, ?_, htot, s1, i1⟩
  · unfold increment
    simp only [hwf.ne, if_false]
    have : ¬ ((1 : Int) ≤ 0) := by omega
    simp only [this, if_false]
    have : (1 : Int).toNat = 1 := rfl
    rw [this, htot]
    simp only [incrLoop]
  · exact WF.of_sameAP (i1.sameAP.trans hnap) hwf
  · exact i1.sameAP.trans hnap
  · intro v hv
    have := i2 v hv
    omega
  · intro v hv
    have := i2 v hv
    unfold prioCap; omega
  · simp only
    rw [i1.sum, hnap.sumPower, hnorm]; omega
  · simp only
    rw [i1.sum, hnap.sumPower, i1.sameAP.length, hnorm]
    have := (shiftByAvg_sameAP (rescale s.vals (2 * sumPower s.vals))).length
    rw [this]; omega
  · exact i1.prop

end Tmv.ValSet
