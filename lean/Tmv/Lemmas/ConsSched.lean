import Tmv.Lemmas.ConsGuard
/-! The ticker discipline: every timeout the node asks for is for a round it has reached, so a history
in which only scheduled timeouts are delivered has no timeout for a round not yet reached. -/
namespace Tmv.Cons
attribute [local irreducible] emit panicWith sign signAddVote decideProposal doPrevote enterPrevote enterPropose
  enterNewRound newRoundReset enterPrevoteWait unlock enterPrecommit enterPrecommitWait finalizeCommit tryFinalizeCommit
  enterCommit setProposal handleCompleteProposal addBlockPart addVote onPolka prevoteTransitions afterPrevote
  afterPrecommit handleInternal handleTimeout
  handleTxsAvailable handleInput drain step run HVS.addVote HVS.setRound HVS.setPeerMaj23 HVS.polRound
  isProposalComplete maj23Of hasAnyOf hashesTo hasHeader

/-- (S): scheduled timeouts are for rounds the node has reached -/
def SI (r : Nat) (out : List Output) : Prop := ∀ r' st, Output.schedule r' st ∈ out → r' ≤ r
abbrev S (s : NodeState) : Prop := SI s.round s.out

theorem SI.mono {r r' out} (h : SI r out) (hr : r ≤ r') : SI r' out := fun a st hm => Nat.le_trans (h a st hm) hr
theorem SI.push {r out} (h : SI r out) (o : Output) (ho : ∀ r' st, o = .schedule r' st → r' ≤ r) : SI r (out ++ [o]) := by
  intro r' st hm
  rcases List.mem_append.1 hm with a | a
  · exact h r' st a
  · simp at a; exact ho r' st a.symm

variable {c : Cfg}

syntax "sched_step" : tactic
macro_rules | `(tactic| sched_step) => `(tactic| assumption)
macro_rules | `(tactic| sched_step) => `(tactic| (intro _ _ e; cases e))
macro "sched" : tactic => `(tactic| repeat' (first | sched_step | (dsimp only; sched_step)))

theorem emit_S {s : NodeState} (o : Output) (ho : ∀ r' st, o = .schedule r' st → r' ≤ s.round) (h : S s) : S (emit s o) := by
  show SI _ _
  rw [emit_round]
  rcases emit_out s o with e | e <;> rw [e]
  · exact h
  · exact h.push o ho
macro_rules | `(tactic| sched_step) => `(tactic| apply emit_S)

theorem panicWith_S {s : NodeState} (w : String) (h : S s) : S (panicWith s w) := by
  show SI _ _
  rw [panicWith_round]
  unfold panicWith; split
  · exact h
  · exact h.push _ (by intro _ _ e; cases e)
macro_rules | `(tactic| sched_step) => `(tactic| apply panicWith_S)

theorem signAddVote_S {s : NodeState} (t : VType) (b : Bid) (h : S s) : S (signAddVote c s t b) := by
  show SI _ _
  rw [signAddVote_round]
  rcases signAddVote_out c s t b with e | e <;> rw [e]
  · exact h
  · exact h.push _ (by intro _ _ e; cases e)
macro_rules | `(tactic| sched_step) => `(tactic| apply signAddVote_S)

theorem decideProposal_S {s : NodeState} (r me : Nat) (h : S s) : S (decideProposal c s r me) := by
  show SI _ _
  rw [decideProposal_round]
  rcases decideProposal_out c s r me with e | e <;> rw [e]
  · exact h
  · exact h.push _ (by intro _ _ e; cases e)
macro_rules | `(tactic| sched_step) => `(tactic| apply decideProposal_S)

theorem doPrevote_S {s : NodeState} (h : S s) : S (doPrevote c s) := by
  unfold doPrevote; (try simp only []); repeat' split
  all_goals sched
macro_rules | `(tactic| sched_step) => `(tactic| apply doPrevote_S)

theorem enterPrevote_S {s : NodeState} (r : Nat) (h : S s) : S (enterPrevote c s r) := by
  unfold enterPrevote
  repeat' split
  all_goals first | exact h | skip
  rename_i hg
  have := doPrevote_S (c := c) h
  show SI _ _
  dsimp only
  refine SI.mono this ?_
  rw [doPrevote_round]; omega
macro_rules | `(tactic| sched_step) => `(tactic| apply enterPrevote_S)

theorem enterPropose_S {s : NodeState} (r : Nat) (h : S s) : S (enterPropose c s r) := by
  unfold enterPropose
  split
  · exact h
  · split
    · exact h
    · rename_i hg
      simp only []
      have h0 : SI r (emit s (.schedule r .propose)).out := by
        rcases emit_out s (.schedule r .propose) with e | e <;> rw [e]
        · exact SI.mono h (by omega)
        · exact (SI.mono h (by omega)).push _ (by intro _ _ e; cases e; exact Nat.le_refl _)
      have key : ∀ t : NodeState, SI r t.out → S { t with round := r, step := .propose } := fun t ht => ht
      have hd : ∀ me, SI r (decideProposal c (emit s (.schedule r .propose)) r me).out := by
        intro me
        rcases decideProposal_out c (emit s (.schedule r .propose)) r me with e | e <;> rw [e]
        · exact h0
        · exact h0.push _ (by intro _ _ e; cases e)
      repeat' split
      all_goals (try apply enterPrevote_S)
      all_goals apply key
      all_goals first | exact h0 | exact hd _
macro_rules | `(tactic| sched_step) => `(tactic| apply enterPropose_S)

theorem enterNewRound_S {s : NodeState} (r : Nat) (h : S s) : S (enterNewRound c s r) := by
  unfold enterNewRound
  split
  · exact h
  · split
    · exact h
    · rename_i hg
      simp only []
      have hf := newRoundReset_fields s r
      have h' : S (newRoundReset s r) := by
        show SI _ _
        rw [hf.2.2.1, hf.1]
        exact SI.mono h (by omega)
      split
      · sched
      · repeat' split
        all_goals first
          | (sched; done)
          | (apply emit_S
             · intro _ _ e; cases e; dsimp only; rw [hf.2.2.1]; exact Nat.le_refl _
             · exact h')
macro_rules | `(tactic| sched_step) => `(tactic| apply enterNewRound_S)

theorem enterPrevoteWait_S {s : NodeState} (r : Nat) (h : S s) : S (enterPrevoteWait c s r) := by
  unfold enterPrevoteWait
  repeat' split
  all_goals first | exact h | (sched; done) | skip
  rename_i hg _
  show SI _ _
  dsimp only
  rcases emit_out s (.schedule r .prevoteWait) with e | e <;> rw [e]
  · exact SI.mono h (by omega)
  · exact (SI.mono h (by omega)).push _ (by intro _ _ e; cases e; exact Nat.le_refl _)
macro_rules | `(tactic| sched_step) => `(tactic| apply enterPrevoteWait_S)

theorem unlock_S {s : NodeState} (h : S s) : S (unlock s) := by
  show SI _ _; rw [unlock_round, unlock_out]; exact h
macro_rules | `(tactic| sched_step) => `(tactic| apply unlock_S)

theorem enterPrecommit_S {s : NodeState} (r : Nat) (h : S s) : S (enterPrecommit c s r) := by
  unfold enterPrecommit
  split
  · exact h
  · split
    · exact h
    · rename_i hg
      have key : ∀ (t : NodeState) (x : Bid), t.round = s.round → t.out = s.out →
          S { (signAddVote c t .precommit x) with round := r, step := .precommit } := by
        intro t x hr ho
        show SI _ _
        dsimp only
        rcases signAddVote_out c t .precommit x with e | e <;> rw [e, ho]
        · exact SI.mono h (by omega)
        · exact (SI.mono h (by omega)).push _ (by intro _ _ e; cases e)
      (try simp only [])
      repeat' split
      all_goals first
        | (sched; done)
        | (apply key <;> first | rfl | (simp; done) | (split <;> first | rfl | simp))
macro_rules | `(tactic| sched_step) => `(tactic| apply enterPrecommit_S)

/-- `enterPrecommitWait` for a round the node has reached -/
theorem enterPrecommitWait_S {s : NodeState} (r : Nat) (hle : s.halted = true ∨ r ≤ s.round) (h : S s) :
    S (enterPrecommitWait c s r) := by
  unfold enterPrecommitWait
  split
  · exact h
  · rename_i hh
    repeat' split
    all_goals first | exact h | (sched; done) | skip
    show SI _ _
    dsimp only
    rw [emit_round]
    rcases emit_out s (.schedule r .precommitWait) with e | e <;> rw [e]
    · exact h
    · refine h.push _ ?_
      intro _ _ e; cases e
      rcases hle with hle | hle
      · exact absurd hle hh
      · exact hle
macro_rules | `(tactic| sched_step) => `(tactic| apply enterPrecommitWait_S)
macro_rules | `(tactic| sched_step) => `(tactic| exact Or.inr (Nat.le_refl _))
macro_rules | `(tactic| sched_step) => `(tactic| (right; omega))

theorem finalizeCommit_S {s : NodeState} (h : S s) : S (finalizeCommit c s) := by
  unfold finalizeCommit; (try simp only []); repeat' split
  all_goals sched
macro_rules | `(tactic| sched_step) => `(tactic| apply finalizeCommit_S)

theorem tryFinalizeCommit_S {s : NodeState} (h : S s) : S (tryFinalizeCommit c s) := by
  unfold tryFinalizeCommit; (try simp only []); repeat' split
  all_goals sched
macro_rules | `(tactic| sched_step) => `(tactic| apply tryFinalizeCommit_S)

theorem enterCommit_S {s : NodeState} (r : Nat) (h : S s) : S (enterCommit c s r) := by
  unfold enterCommit; (try simp only []); repeat' split
  all_goals sched
macro_rules | `(tactic| sched_step) => `(tactic| apply enterCommit_S)

theorem setProposal_S {s : NodeState} (p : Proposal) (h : S s) : S (setProposal c s p) := by
  unfold setProposal; (try simp only []); repeat' split
  all_goals sched
macro_rules | `(tactic| sched_step) => `(tactic| apply setProposal_S)

theorem handleCompleteProposal_S {s : NodeState} (h : S s) : S (handleCompleteProposal c s) := by
  unfold handleCompleteProposal; (try simp only []); repeat' split
  all_goals sched
macro_rules | `(tactic| sched_step) => `(tactic| apply handleCompleteProposal_S)

theorem addBlockPart_S {s : NodeState} (b : Nat) (h : S s) : S (addBlockPart c s b) := by
  unfold addBlockPart; (try simp only []); repeat' split
  all_goals sched
macro_rules | `(tactic| sched_step) => `(tactic| apply addBlockPart_S)

theorem onPolka_S {s : NodeState} (vr : Nat) (bid : Bid) (h : S s) : S (onPolka s vr bid) := by
  unfold onPolka; (try simp only []); repeat' split
  all_goals sched
macro_rules | `(tactic| sched_step) => `(tactic| apply onPolka_S)

theorem prevoteTransitions_S {s : NodeState} (vr : Nat) (h : S s) : S (prevoteTransitions c s vr) := by
  unfold prevoteTransitions; (try simp only []); repeat' split
  all_goals sched
macro_rules | `(tactic| sched_step) => `(tactic| apply prevoteTransitions_S)

theorem afterPrevote_S {s : NodeState} (vr : Nat) (h : S s) : S (afterPrevote c s vr) := by
  unfold afterPrevote; (try simp only []); repeat' split
  all_goals sched
macro_rules | `(tactic| sched_step) => `(tactic| apply afterPrevote_S)

/-- after `enterPrecommit c s r` for a reached round the node is (still) in a round `≥ r`, or halted -/
theorem enterPrecommit_reach (s : NodeState) (r : Nat) (hle : s.halted = true ∨ r ≤ s.round) :
    (enterPrecommit c s r).halted = true ∨ r ≤ (enterPrecommit c s r).round := by
  unfold enterPrecommit
  split
  · left; assumption
  · rename_i hh
    split
    · rcases hle with hle | hle
      · exact absurd hle hh
      · right; exact hle
    · (try simp only [])
      repeat' split
      all_goals first
        | (right; dsimp only; exact Nat.le_refl _)
        | (left; unfold panicWith; split <;> first | assumption | rfl)

theorem afterPrecommit_S {s : NodeState} (vr : Nat) (h : S s) : S (afterPrecommit c s vr) := by
  unfold afterPrecommit; simp only []; repeat' split
  all_goals first
    | (sched; done)
    | (apply enterCommit_S; sched)
    | (exact enterPrecommitWait_S _ (enterPrecommit_reach _ _ (enterNewRound_reach _ _))
        (enterPrecommit_S _ (enterNewRound_S _ h)))
    | (apply enterPrecommitWait_S _ (enterNewRound_reach _ _) (enterNewRound_S _ h))
macro_rules | `(tactic| sched_step) => `(tactic| apply afterPrecommit_S)

theorem addVote_S {s : NodeState} (v : Vote) (peer : Peer) (h : S s) : S (addVote c s v peer) := by
  unfold addVote; (try simp only []); repeat' split
  all_goals sched
macro_rules | `(tactic| sched_step) => `(tactic| apply addVote_S)

theorem handleInternal_S {s : NodeState} (m : Internal) (h : S s) : S (handleInternal c s m) := by
  unfold handleInternal; (try simp only []); repeat' split
  all_goals sched
macro_rules | `(tactic| sched_step) => `(tactic| apply handleInternal_S)

theorem handleTimeout_S {s : NodeState} (r : Nat) (st : Step) (h : S s) : S (handleTimeout c s r st) := by
  unfold handleTimeout; (try simp only []); repeat' split
  all_goals sched
macro_rules | `(tactic| sched_step) => `(tactic| apply handleTimeout_S)

theorem handleTxsAvailable_S {s : NodeState} (h : S s) : S (handleTxsAvailable c s) := by
  unfold handleTxsAvailable; repeat' split
  all_goals first | (sched; done) | (apply emit_S _ _ h; intro _ _ e; cases e; exact Nat.zero_le _)

theorem handleInput_S {s : NodeState} (i : Input) (h : S s) : S (handleInput c s i) := by
  unfold handleInput
  cases i with
  | timeout r st => exact handleTimeout_S r st h
  | peerMaj23 r t peer bid => exact h
  | proposal p => exact setProposal_S p h
  | blockComplete b => exact addBlockPart_S b h
  | vote v peer => exact addVote_S v peer h
  | txsAvailable => exact handleTxsAvailable_S h

theorem drain_S (fuel : Nat) {s : NodeState} (h : S s) : S (drain c fuel s) := by
  induction fuel generalizing s with
  | zero => unfold drain; exact h
  | succ n ih =>
    unfold drain; repeat' split
    all_goals first | exact h | skip
    rename_i m rest hq
    have h' : S { s with queue := rest } := h
    exact ih (handleInternal_S m h')

theorem step_S {s : NodeState} (i : Input) (h : S s) : S (step c s i) := by
  unfold step; split
  · exact h
  · exact drain_S _ (handleInput_S i h)

/-- the input discipline of a faithful ticker: a delivered timeout was scheduled by the node earlier
(`schedule r st` is among its outputs so far), or is for round 0 (the start-of-height timeout
`scheduleRound0`, which is scheduled outside the state machine) -/
def TimeoutsWereScheduled (c : Cfg) : NodeState → List Input → Prop
  | _, [] => True
  | s, i :: is =>
    (match i with
     | .timeout r st => Output.schedule r st ∈ s.out ∨ r = 0
     | _ => True) ∧ TimeoutsWereScheduled c (step c s i) is

theorem scheduled_noFuture (is : List Input) {s : NodeState} (hS : S s) (h : TimeoutsWereScheduled c s is) :
    NoFutureTimeout c s is := by
  induction is generalizing s with
  | nil => trivial
  | cons i is ih =>
    refine ⟨?_, ih (step_S i hS) h.2⟩
    cases i with
    | timeout r st =>
      rcases h.1 with hm | h0
      · exact hS r st hm
      · show r ≤ s.round; omega
    | _ => trivial

theorem init_S : S NodeState.init := by intro r st h; simp [NodeState.init] at h

end Tmv.Cons
