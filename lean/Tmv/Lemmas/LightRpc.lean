import Tmv.Lemmas.Merkle
import Tmv.Lemmas.MerkleInclusion
import Tmv.Model.LightRpc
/-! Helper lemmas for C20: the Merkle root determines the whole list (or exhibits a collision),
facts about the light-client interface model. -/
namespace Tmv.Merkle
variable (H : Bytes → Bytes)

theorem empty_leaf_ne (x : Bytes) (h : H [] = leafHash H x) : Nonempty (Collision H) :=
  ⟨⟨[], 0 :: x, by simp, h⟩⟩

theorem empty_inner_ne (l r : Bytes) (h : H [] = innerHash H l r) : Nonempty (Collision H) :=
  ⟨⟨[], 1 :: (l ++ r), by simp, h⟩⟩

theorem rootF_cons2 (f : Nat) (a b : Bytes) (c : List Bytes) :
    rootF H (f+1) (a :: b :: c) =
      innerHash H (rootF H f ((a :: b :: c).take (splitPoint (a :: b :: c).length)))
                  (rootF H f ((a :: b :: c).drop (splitPoint (a :: b :: c).length))) := by
  simp [rootF]

/-- The root determines the list of leaves, whatever the two lengths are. -/
theorem rootF_inj (L : Nat) (hlen : ∀ x, (H x).length = L) :
    ∀ (f1 f2 : Nat) (xs ys : List Bytes), xs.length ≤ f1 → ys.length ≤ f2 →
      rootF H f1 xs = rootF H f2 ys → xs = ys ∨ Nonempty (Collision H) := by
  intro f1
  induction f1 with
  | zero =>
    intro f2 xs ys hx hy h
    have hxs : xs = [] := List.length_eq_zero_iff.mp (by omega)
    subst hxs
    cases f2 with
    | zero =>
      have : ys = [] := List.length_eq_zero_iff.mp (by omega)
      left; exact this.symm
    | succ g =>
      match ys with
      | [] => left; rfl
      | [y] => right; simp only [rootF] at h; exact empty_leaf_ne H y h
      | a :: b :: c => right; rw [rootF_cons2] at h; simp only [rootF] at h; exact empty_inner_ne H _ _ h
  | succ f ih =>
    intro f2 xs ys hx hy h
    cases f2 with
    | zero =>
      have hys : ys = [] := List.length_eq_zero_iff.mp (by omega)
      subst hys
      match xs with
      | [] => left; rfl
      | [x] => right; simp only [rootF] at h; exact empty_leaf_ne H x h.symm
      | a :: b :: c => right; rw [rootF_cons2] at h; simp only [rootF] at h; exact empty_inner_ne H _ _ h.symm
    | succ g =>
      match xs, ys with
      | [], [] => left; rfl
      | [], [y] => right; simp only [rootF] at h; exact empty_leaf_ne H y h
      | [], a :: b :: c => right; rw [rootF_cons2] at h; simp only [rootF] at h; exact empty_inner_ne H _ _ h
      | [x], [] => right; simp only [rootF] at h; exact empty_leaf_ne H x h.symm
      | a :: b :: c, [] => right; rw [rootF_cons2] at h; simp only [rootF] at h; exact empty_inner_ne H _ _ h.symm
      | [x], [y] =>
        simp only [rootF] at h
        by_cases hxy : (0 :: x : Bytes) = 0 :: y
        · left; simp [(List.cons.inj hxy).2]
        · right; exact ⟨⟨_, _, hxy, h⟩⟩
      | [x], a :: b :: c =>
        right; rw [rootF_cons2] at h; simp only [rootF] at h; exact leaf_inner_ne H x _ _ h
      | a :: b :: c, [y] =>
        right; rw [rootF_cons2] at h; simp only [rootF] at h; exact leaf_inner_ne H y _ _ h.symm
      | a :: b :: c, a' :: b' :: c' =>
        rw [rootF_cons2, rootF_cons2] at h
        generalize hX : (a :: b :: c) = X at *
        generalize hY : (a' :: b' :: c') = Y at *
        have hX2 : 2 ≤ X.length := by subst hX; simp
        have hY2 : 2 ≤ Y.length := by subst hY; simp
        obtain ⟨hkx0, hkx⟩ := splitPoint_lt hX2
        obtain ⟨hky0, hky⟩ := splitPoint_lt hY2
        have hl1 := rootF_len H L hlen f (X.take (splitPoint X.length))
        have hl2 := rootF_len H L hlen g (Y.take (splitPoint Y.length))
        rcases inner_inj H L hl1 hl2 h with ⟨e1, e2⟩ | hc
        · have t1 : (X.take (splitPoint X.length)).length ≤ f := by simp; omega
          have t2 : (Y.take (splitPoint Y.length)).length ≤ g := by simp; omega
          have d1 : (X.drop (splitPoint X.length)).length ≤ f := by simp; omega
          have d2 : (Y.drop (splitPoint Y.length)).length ≤ g := by simp; omega
          rcases ih g _ _ t1 t2 e1 with et | hc
          · rcases ih g _ _ d1 d2 e2 with ed | hc
            · left
              rw [← List.take_append_drop (splitPoint X.length) X, ← List.take_append_drop (splitPoint Y.length) Y, et, ed]
            · right; exact hc
          · right; exact hc
        · right; exact hc

theorem root_inj (L : Nat) (hlen : ∀ x, (H x).length = L) (xs ys : List Bytes)
    (h : root H xs = root H ys) : xs = ys ∨ Nonempty (Collision H) :=
  rootF_inj H L hlen _ _ xs ys (Nat.le_refl _) (Nat.le_refl _) h

theorem map_hash_inj : ∀ (xs ys : List Bytes), xs.map H = ys.map H → xs = ys ∨ Nonempty (Collision H)
  | [], [], _ => Or.inl rfl
  | [], _ :: _, h => by simp at h
  | _ :: _, [], h => by simp at h
  | x :: xs, y :: ys, h => by
    simp only [List.map_cons, List.cons.injEq] at h
    by_cases hxy : x = y
    · rcases map_hash_inj xs ys h.2 with e | c
      · left; rw [hxy, e]
      · right; exact c
    · right; exact ⟨⟨x, y, hxy, h.1⟩⟩

/-- a non-empty tree's root is not the empty-tree hash (or a collision is exhibited) -/
theorem fromAunts_ne_emptyHash (leaf : Bytes) :
    ∀ (fuel idx total : Nat) (aunts : List Bytes),
      fromAunts H fuel idx total (leafHash H leaf) aunts = some (H []) → Nonempty (Collision H) := by
  intro fuel idx total aunts h
  cases fuel with
  | zero => simp [fromAunts] at h
  | succ g =>
    unfold fromAunts at h
    split at h; · cases h
    split at h
    · split at h
      · simp at h; exact empty_leaf_ne H leaf h.symm
      · cases h
    · split at h; · cases h
      simp only at h
      split at h
      · simp [Option.map_eq_some_iff] at h
        obtain ⟨l, _, hl2⟩ := h
        exact empty_inner_ne H _ _ hl2.symm
      · simp [Option.map_eq_some_iff] at h
        obtain ⟨r, _, hr2⟩ := h
        exact empty_inner_ne H _ _ hr2.symm

end Tmv.Merkle

namespace Tmv.LightRpc
open Tmv.Merkle

theorem trusted?_some (lc : LC) (h : Int) (b : LightBlock) (ht : lc.trusted? h = some b) :
    ∃ k, lc.at? k = some b := by
  unfold LC.trusted? at ht
  by_cases h1 : h > lc.latest ∨ h < 0
  · simp [h1] at ht
  · simp only [h1, if_false] at ht
    by_cases h2 : lc.stored.contains (if h = 0 then lc.latest else h) = true
    · simp only [h2, if_true] at ht
      exact ⟨_, ht⟩
    · simp at ht
      exact ⟨_, ht.2⟩

/-- whatever `updateLightClientIfNeededTo` returns is a block of the chain the providers serve, at
the requested height when one was requested; the chain itself never changes -/
theorem updateTo_ok (lc lc' : LC) (req : Option Int) (b : LightBlock)
    (h : updateTo lc req = .ok b lc') :
    lc'.chain = lc.chain ∧ (∃ k, lc.at? k = some b) ∧ (∀ k, req = some k → lc.at? k = some b) := by
  unfold updateTo at h
  cases req with
  | none =>
    simp only at h
    split at h
    · rename_i b0 lc0 hu
      injection h with e1 e2
      subst e1; subst e2
      unfold LC.update at hu
      split at hu
      · split at hu
        · rename_i b1 hat
          simp only [Option.some.injEq, Prod.mk.injEq] at hu
          obtain ⟨e1, e2⟩ := hu
          subst e1; subst e2
          exact ⟨rfl, ⟨_, hat⟩, by intro k hk; cases hk⟩
        · cases hu
      · cases hu
    · split at h
      · rename_i b0 ht
        injection h with e1 e2
        subst e1; subst e2
        exact ⟨rfl, trusted?_some lc 0 b0 ht, by intro k hk; cases hk⟩
      · cases h
  | some k =>
    simp only at h
    split at h
    · rename_i b0 lc0 hv
      injection h with e1 e2
      subst e1; subst e2
      unfold LC.verifyAt at hv
      split at hv; · cases hv
      rename_i b1 hat
      simp only [Option.some.injEq, Prod.mk.injEq] at hv
      obtain ⟨e1, e2⟩ := hv
      subst e1; subst e2
      refine ⟨?_, ⟨_, hat⟩, ?_⟩
      · split <;> rfl
      · intro k' hk'; cases hk'; exact hat
    · cases h

theorem at?_of_chain_eq (lc lc' : LC) (h : lc'.chain = lc.chain) (k : Int) : lc'.at? k = lc.at? k := by
  unfold LC.at?; rw [h]

/-- a height the providers have is always verifiable -/
theorem updateTo_some_complete (lc : LC) (k : Int) (b : LightBlock) (h : lc.at? k = some b) :
    ∃ lc', updateTo lc (some k) = .ok b lc' := by
  unfold updateTo LC.verifyAt
  simp only [h]
  exact ⟨_, rfl⟩

end Tmv.LightRpc
