import Tmv.Model.CommitVerify
/-! Lemmas for C07: int64 arithmetic of the commit-verification model, the specification
vocabulary (`sumPower`, `pickedPower`, `GoodPick`), and the loop invariants. Core-only. -/
namespace Tmv.CommitVerify

theorem wrap64_id {x : Int} (h1 : minInt64 ≤ x) (h2 : x ≤ maxInt64) : wrap64 x = x := by
  unfold wrap64; unfold minInt64 at h1; unfold maxInt64 at h2; omega

theorem maxTotal_bound : 0 ≤ maxTotalVotingPower ∧ maxTotalVotingPower * 8 ≤ maxInt64 := by decide

theorem two_thirds_exact {T t : Int} (h : 0 ≤ T) : t > Int.tdiv (T*2) 3 ↔ 3*t > 2*T := by
  rw [Int.tdiv_eq_ediv_of_nonneg (by omega)]; omega

theorem frac_exact {x d t : Int} (hx : 0 ≤ x) (hd : 0 < d) : t > Int.tdiv x d ↔ t * d > x := by
  rw [Int.tdiv_eq_ediv_of_nonneg hx]
  have := @Int.le_ediv_iff_mul_le t x d hd
  constructor
  · intro h; apply Int.lt_of_not_ge; intro h2; have := this.mpr h2; omega
  · intro h; apply Int.lt_of_not_ge; intro h2; have := this.mp h2; omega

theorem safeMul_spec {a b : Int} (ha : 0 ≤ a) (hb : 0 ≤ b) (h : (safeMul a b).2 = false) :
    (safeMul a b).1 = a * b ∧ a * b ≤ maxInt64 := by
  unfold safeMul at h ⊢
  by_cases h0 : a = 0 ∨ b = 0
  · simp only [if_pos h0]
    rcases h0 with h0 | h0 <;> subst h0 <;> simp [maxInt64]
  · have ha' : ¬ a < 0 := by omega
    have hb' : ¬ b < 0 := by omega
    have hbpos : 0 < b := by omega
    simp only [if_neg h0, if_neg ha', if_neg hb'] at h ⊢
    by_cases hle : a > maxInt64.tdiv b
    · simp [if_pos hle] at h
    · simp only [if_neg hle]
      rw [Int.tdiv_eq_ediv_of_nonneg (by decide)] at hle
      have hle' : a ≤ maxInt64 / b := by omega
      have hm : a * b ≤ maxInt64 := (Int.le_ediv_iff_mul_le hbpos).mp hle'
      have h0 : 0 ≤ a * b := Int.mul_nonneg ha hb
      exact ⟨wrap64_id (by unfold minInt64; omega) hm, hm⟩

/-! ### specification vocabulary -/

def sumPower (vs : List Validator) : Int := (vs.map (·.power)).sum

def powerAt (vs : List Validator) (j : Nat) : Int :=
  match vs[j]? with
  | some v => v.power
  | none => 0

def pickedPower (vs : List Validator) (js : List Nat) : Int := (js.map (powerAt vs)).sum

def NonNeg (vs : List Validator) : Prop := ∀ v ∈ vs, 0 ≤ v.power

theorem powerAt_nonneg {vs : List Validator} (h : NonNeg vs) (j : Nat) : 0 ≤ powerAt vs j := by
  unfold powerAt
  split
  · rename_i v hv; exact h v (List.mem_of_getElem? hv)
  · omega

theorem pickedPower_nonneg {vs : List Validator} (h : NonNeg vs) (js : List Nat) :
    0 ≤ pickedPower vs js := by
  induction js with
  | nil => simp [pickedPower]
  | cons j js ih =>
    have := powerAt_nonneg h j
    simp only [pickedPower, List.map_cons, List.sum_cons] at ih ⊢; omega

theorem sumPower_nonneg {vs : List Validator} (h : NonNeg vs) : 0 ≤ sumPower vs := by
  induction vs with
  | nil => simp [sumPower]
  | cons v vs ih =>
    have h1 := h v (by simp)
    have h2 := ih (fun w hw => h w (by simp [hw]))
    simp only [sumPower, List.map_cons, List.sum_cons] at h2 ⊢; omega

/-- Lemma A: distinct positions never carry more than the whole set -/
theorem pickedPower_le_sum : ∀ (vs : List Validator), NonNeg vs → ∀ js : List Nat, js.Nodup →
    pickedPower vs js ≤ sumPower vs := by
  intro vs
  induction vs with
  | nil =>
    intro _ js _
    have : ∀ js : List Nat, pickedPower [] js = 0 := by
      intro js; induction js with
      | nil => rfl
      | cons j js ih => simp only [pickedPower, List.map_cons, List.sum_cons] at ih ⊢; simp [powerAt, ih]
    simp [this, sumPower]
  | cons v vs ih =>
    intro hnn js hnd
    have hv : 0 ≤ v.power := hnn v (by simp)
    have hnn' : NonNeg vs := fun w hw => hnn w (by simp [hw])
    -- split js into the occurrences of 0 and the shifted rest
    have key : ∀ js : List Nat, js.Nodup →
        ∃ js' : List Nat, js'.Nodup ∧ pickedPower (v :: vs) js ≤ v.power + pickedPower vs js' ∧
          (0 ∉ js → pickedPower (v :: vs) js = pickedPower vs js') ∧ (∀ k, k ∈ js' ↔ k + 1 ∈ js) := by
      intro js
      induction js with
      | nil => intro _; exact ⟨[], List.nodup_nil, by simp [pickedPower]; omega, by simp [pickedPower], by simp⟩
      | cons j js ihj =>
        intro hnd
        rw [List.nodup_cons] at hnd
        obtain ⟨js', hnd', hle, h0, hmem⟩ := ihj hnd.2
        cases j with
        | zero =>
          refine ⟨js', hnd', ?_, ?_, ?_⟩
          · have := h0 hnd.1
            simp only [pickedPower, List.map_cons, List.sum_cons] at this ⊢
            simp only [powerAt, List.getElem?_cons_zero]; omega
          · intro h; simp at h
          · intro k; rw [hmem k]; simp
        | succ j =>
          refine ⟨j :: js', ?_, ?_, ?_, ?_⟩
          · rw [List.nodup_cons]; exact ⟨fun h => hnd.1 ((hmem j).mp h), hnd'⟩
          · simp only [pickedPower, List.map_cons, List.sum_cons] at hle ⊢
            have : powerAt (v :: vs) (j + 1) = powerAt vs j := by simp [powerAt]
            omega
          · intro h
            have h' : 0 ∉ js := fun hh => h (by simp [hh])
            have := h0 h'
            simp only [pickedPower, List.map_cons, List.sum_cons] at this ⊢
            have : powerAt (v :: vs) (j + 1) = powerAt vs j := by simp [powerAt]
            omega
          · intro k; simp [hmem k]
    obtain ⟨js', hnd', hle, _, _⟩ := key js hnd
    have := ih hnn' js' hnd'
    simp only [sumPower, List.map_cons, List.sum_cons] at this ⊢; omega

/-! ### TotalVotingPower -/

theorem totalLoop_spec : ∀ (vs : List Validator) (s T : Int), NonNeg vs → 0 ≤ s → s ≤ maxTotalVotingPower →
    totalLoop vs s = some T → T = s + sumPower vs ∧ T ≤ maxTotalVotingPower := by
  intro vs
  induction vs with
  | nil => intro s T _ _ hs h; simp [totalLoop] at h; subst h; simp [sumPower, hs]
  | cons v vs ih =>
    intro s T hnn h0 hs h
    have hv : 0 ≤ v.power := hnn v (by simp)
    have hnn' : NonNeg vs := fun w hw => hnn w (by simp [hw])
    have hb := maxTotal_bound
    unfold maxInt64 at hb
    simp only [totalLoop] at h
    split at h
    · cases h
    · rename_i hle
      have hclip : safeAddClip s v.power = s + v.power := by
        unfold safeAddClip safeAdd at hle ⊢
        by_cases c1 : v.power > 0 ∧ s > maxInt64 - v.power
        · simp only [if_pos c1] at hle; simp at hle
          have : ¬ v.power < 0 := by omega
          simp only [this, if_false] at hle; unfold maxInt64 at hle; omega
        · have c2 : ¬ (v.power < 0 ∧ s < minInt64 - v.power) := by omega
          simp [if_neg c1, if_neg c2]
      rw [hclip] at h hle
      have := ih (s + v.power) T hnn' (by omega) (by omega) h
      simp only [sumPower, List.map_cons, List.sum_cons] at this ⊢; omega

theorem total_spec {vs : List Validator} {T : Int} (hnn : NonNeg vs) (h : totalVotingPower vs = some T) :
    T = sumPower vs ∧ T ≤ maxTotalVotingPower := by
  have := totalLoop_spec vs 0 T hnn (by omega) maxTotal_bound.1 h
  omega

/-! ### loop invariants -/

section
variable {σ : Type}

/-- the record a for-block signature of this commit must verify against -/
def expectSB (chainID : String) (c : Commit σ) (ts : Int) : SignBytes :=
  { type := precommitType, height := c.height, round := c.round,
    blockID := canonBlockID c.blockID, ts := ts, chainID := chainID }

/-- validator number `p.1` has a qualifying signature in slot `p.2`: the slot is flagged
for-the-block, (when members are looked up by address) carries that validator's address, and its
signature verifies under the validator's key over exactly this commit's canonical vote -/
def GoodPick (sigOK : Nat → SignBytes → σ → Bool) (vs : List Validator) (chainID : String)
    (c : Commit σ) (byAddr : Bool) (p : Nat × Nat) : Prop :=
  ∃ v s, vs[p.1]? = some v ∧ c.sigs[p.2]? = some s ∧ s.flag = flagCommit ∧
    (byAddr = true → s.addr = v.addr) ∧ sigOK v.key (expectSB chainID c s.ts) s.sig = true

theorem voteSignBytes_commit {chainID : String} {c : Commit σ} {s : CommitSig σ} {sb : SignBytes}
    (hf : s.flag = flagCommit) (h : voteSignBytes chainID c s = .ok sb) :
    sb = expectSB chainID c s.ts := by
  unfold voteSignBytes sigBlockID at h
  have h1 : ¬ s.flag = flagAbsent := by rw [hf]; decide
  simp only [if_neg h1, if_pos hf] at h
  split at h
  · cases h
  · injection h with h; exact h.symm

theorem tally_step {vs : List Validator} (hnn : NonNeg vs) (hT : sumPower vs ≤ maxTotalVotingPower)
    {picks : List Nat} {j : Nat} {v : Validator} (hnd : (j :: picks).Nodup) (hv : vs[j]? = some v) :
    wrap64 (pickedPower vs picks + v.power) = pickedPower vs (j :: picks) := by
  have h1 := pickedPower_le_sum vs hnn _ hnd
  have h2 := pickedPower_nonneg hnn (j :: picks)
  have hp : powerAt vs j = v.power := by simp [powerAt, hv]
  have hb := maxTotal_bound
  simp only [pickedPower, List.map_cons, List.sum_cons, hp] at h1 h2 ⊢
  unfold maxInt64 at hb
  rw [wrap64_id (by unfold minInt64; omega) (by unfold maxInt64; omega)]; omega

variable (sigOK : Nat → SignBytes → σ → Bool) (vs : List Validator) (chainID : String) (c : Commit σ)

theorem fullLoop_sound (hnn : NonNeg vs) (hT : sumPower vs ≤ maxTotalVotingPower) :
    ∀ (ss : List (CommitSig σ)) (idx : Nat) (tally t : Int) (picks : List Nat),
      (∀ k, ss[k]? = c.sigs[idx + k]?) → picks.Nodup → (∀ i ∈ picks, i < idx) →
      (∀ i ∈ picks, GoodPick sigOK vs chainID c false (i, i)) → tally = pickedPower vs picks →
      fullLoop sigOK vs chainID c ss idx tally = .ok t →
      ∃ picks' : List Nat, picks'.Nodup ∧ (∀ i ∈ picks', GoodPick sigOK vs chainID c false (i, i)) ∧
        t = pickedPower vs picks' := by
  intro ss
  induction ss with
  | nil =>
    intro idx tally t picks _ hnd _ hg ht h
    simp only [fullLoop] at h
    injection h with h; subst h
    exact ⟨picks, hnd, hg, ht⟩
  | cons s ss ih =>
    intro idx tally t picks hal hnd hlt hg ht h
    have hs : c.sigs[idx]? = some s := by have := hal 0; simpa using this.symm
    have hal' : ∀ k, ss[k]? = c.sigs[idx + 1 + k]? := by
      intro k; have := hal (k + 1); simp only [List.getElem?_cons_succ] at this; rw [this]; congr 1; omega
    have hlt' : ∀ i ∈ picks, i < idx + 1 := fun i hi => Nat.lt_succ_of_lt (hlt i hi)
    simp only [fullLoop] at h
    split at h
    · exact ih (idx + 1) tally t picks hal' hnd hlt' hg ht h
    · split at h
      · cases h
      · rename_i v hv
        split at h
        · cases h
        · rename_i sb hsb
          split at h
          · cases h
          · rename_i hok
            have hok' : sigOK v.key sb s.sig = true := by simpa using hok
            by_cases hf : s.flag = flagCommit
            · simp only [if_pos hf] at h
              have hnd' : (idx :: picks).Nodup := by
                rw [List.nodup_cons]; exact ⟨fun hm => Nat.lt_irrefl _ (hlt idx hm), hnd⟩
              have hstep := tally_step hnn hT hnd' hv
              rw [ht, hstep] at h
              refine ih (idx + 1) _ t (idx :: picks) hal' hnd' ?_ ?_ rfl h
              · intro i hi; rcases List.mem_cons.mp hi with rfl | hi
                · omega
                · exact hlt' i hi
              · intro i hi; rcases List.mem_cons.mp hi with rfl | hi
                · refine ⟨v, s, hv, hs, hf, by simp, ?_⟩
                  rw [← voteSignBytes_commit hf hsb]; exact hok'
                · exact hg i hi
            · simp only [if_neg hf] at h
              exact ih (idx + 1) tally t picks hal' hnd hlt' hg ht h

theorem lightLoop_sound (hnn : NonNeg vs) (hT : sumPower vs ≤ maxTotalVotingPower) (needed : Int) :
    ∀ (ss : List (CommitSig σ)) (idx : Nat) (tally : Int) (picks : List Nat),
      (∀ k, ss[k]? = c.sigs[idx + k]?) → picks.Nodup → (∀ i ∈ picks, i < idx) →
      (∀ i ∈ picks, GoodPick sigOK vs chainID c false (i, i)) → tally = pickedPower vs picks →
      lightLoop sigOK vs chainID c needed ss idx tally = .error .ok →
      ∃ picks' : List Nat, picks'.Nodup ∧ (∀ i ∈ picks', GoodPick sigOK vs chainID c false (i, i)) ∧
        pickedPower vs picks' > needed := by
  intro ss
  induction ss with
  | nil => intro idx tally picks _ _ _ _ _ h; simp [lightLoop] at h
  | cons s ss ih =>
    intro idx tally picks hal hnd hlt hg ht h
    have hs : c.sigs[idx]? = some s := by have := hal 0; simpa using this.symm
    have hal' : ∀ k, ss[k]? = c.sigs[idx + 1 + k]? := by
      intro k; have := hal (k + 1); simp only [List.getElem?_cons_succ] at this; rw [this]; congr 1; omega
    have hlt' : ∀ i ∈ picks, i < idx + 1 := fun i hi => Nat.lt_succ_of_lt (hlt i hi)
    simp only [lightLoop] at h
    split at h
    · exact ih (idx + 1) tally picks hal' hnd hlt' hg ht h
    · rename_i hf
      have hf : s.flag = flagCommit := by simpa using hf
      split at h
      · cases h
      · rename_i v hv
        split at h
        · rename_i p hp; injection h with h; subst h
          -- voteSignBytes never returns `.error .ok`
          exfalso; unfold voteSignBytes at hp
          split at hp
          · cases hp
          · split at hp <;> cases hp
        · rename_i sb hsb
          split at h
          · cases h
          · rename_i hok
            have hok' : sigOK v.key sb s.sig = true := by simpa using hok
            have hnd' : (idx :: picks).Nodup := by
              rw [List.nodup_cons]; exact ⟨fun hm => Nat.lt_irrefl _ (hlt idx hm), hnd⟩
            have hstep := tally_step hnn hT hnd' hv
            rw [ht, hstep] at h
            have hlt2 : ∀ i ∈ idx :: picks, i < idx + 1 := by
              intro i hi; rcases List.mem_cons.mp hi with rfl | hi
              · omega
              · exact hlt' i hi
            have hg2 : ∀ i ∈ idx :: picks, GoodPick sigOK vs chainID c false (i, i) := by
              intro i hi; rcases List.mem_cons.mp hi with rfl | hi
              · refine ⟨v, s, hv, hs, hf, by simp, ?_⟩
                rw [← voteSignBytes_commit hf hsb]; exact hok'
              · exact hg i hi
            split at h
            · rename_i hgt; exact ⟨idx :: picks, hnd', hg2, hgt⟩
            · exact ih (idx + 1) _ (idx :: picks) hal' hnd' hlt2 hg2 rfl h

theorem findByAddr_spec : ∀ (vs : List Validator) (a : Bytes) (i j : Nat) (v : Validator),
    findByAddr vs a i = some (j, v) → ∃ k, j = i + k ∧ vs[k]? = some v ∧ v.addr = a := by
  intro vs
  induction vs with
  | nil => intro a i j v h; simp [findByAddr] at h
  | cons w vs ih =>
    intro a i j v h
    simp only [findByAddr] at h
    split at h
    · rename_i hw; injection h with h; injection h with h1 h2; subst h1; subst h2
      exact ⟨0, by omega, by simp, hw⟩
    · obtain ⟨k, hk, hv, ha⟩ := ih a (i + 1) j v h
      exact ⟨k + 1, by omega, by simpa using hv, ha⟩

theorem trustLoop_sound (hnn : NonNeg vs) (hT : sumPower vs ≤ maxTotalVotingPower) (needed : Int) :
    ∀ (ss : List (CommitSig σ)) (idx : Nat) (seen : List (Nat × Nat)) (tally : Int),
      (∀ k, ss[k]? = c.sigs[idx + k]?) → (seen.map Prod.fst).Nodup →
      (∀ p ∈ seen, GoodPick sigOK vs chainID c true p) → tally = pickedPower vs (seen.map Prod.fst) →
      trustLoop sigOK vs chainID c needed ss idx seen tally = .error .ok →
      ∃ picks : List (Nat × Nat), (picks.map Prod.fst).Nodup ∧
        (∀ p ∈ picks, GoodPick sigOK vs chainID c true p) ∧
        pickedPower vs (picks.map Prod.fst) > needed := by
  intro ss
  induction ss with
  | nil => intro idx seen tally _ _ _ _ h; simp [trustLoop] at h
  | cons s ss ih =>
    intro idx seen tally hal hnd hg ht h
    have hs : c.sigs[idx]? = some s := by have := hal 0; simpa using this.symm
    have hal' : ∀ k, ss[k]? = c.sigs[idx + 1 + k]? := by
      intro k; have := hal (k + 1); simp only [List.getElem?_cons_succ] at this; rw [this]; congr 1; omega
    simp only [trustLoop] at h
    split at h
    · exact ih (idx + 1) seen tally hal' hnd hg ht h
    · rename_i hf
      have hf : s.flag = flagCommit := by simpa using hf
      split at h
      · exact ih (idx + 1) seen tally hal' hnd hg ht h
      · rename_i j v hfind
        obtain ⟨k, hk, hv, ha⟩ := findByAddr_spec vs s.addr 0 j v hfind
        have hjk : j = k := by omega
        subst hjk
        split at h
        · cases h
        · rename_i hlook
          have hnotin : j ∉ seen.map Prod.fst := by
            intro hm
            obtain ⟨p, hp, hpj⟩ := List.mem_map.mp hm
            have := (List.lookup_eq_none_iff.mp hlook) p hp
            simp [hpj] at this
          split at h
          · rename_i p hp; injection h with h; subst h
            exfalso; unfold voteSignBytes at hp
            split at hp
            · cases hp
            · split at hp <;> cases hp
          · rename_i sb hsb
            split at h
            · cases h
            · rename_i hok
              have hok' : sigOK v.key sb s.sig = true := by simpa using hok
              have hnd' : (((j, idx) :: seen).map Prod.fst).Nodup := by
                simp only [List.map_cons]; rw [List.nodup_cons]; exact ⟨hnotin, hnd⟩
              have hstep := tally_step hnn hT (List.nodup_cons.mpr ⟨hnotin, hnd⟩) hv
              rw [ht, hstep] at h
              have hg2 : ∀ p ∈ (j, idx) :: seen, GoodPick sigOK vs chainID c true p := by
                intro p hp; rcases List.mem_cons.mp hp with rfl | hp
                · refine ⟨v, s, hv, hs, hf, fun _ => ha.symm, ?_⟩
                  rw [← voteSignBytes_commit hf hsb]; exact hok'
                · exact hg p hp
              split at h
              · rename_i hgt; exact ⟨(j, idx) :: seen, hnd', hg2, by simpa using hgt⟩
              · exact ih (idx + 1) ((j, idx) :: seen) _ hal' hnd' hg2 (by simp) h
end
/-! ### thresholds -/

theorem BlockID.equals_iff {a b : BlockID} : a.equals b = true ↔ a = b := by
  cases a; cases b; simp [BlockID.equals]

theorem div64_nonneg {a b : Int} (ha : 0 ≤ a) (ha' : a ≤ maxInt64) (hb : 0 < b) :
    div64 a b = a / b ∧ 0 ≤ a / b := by
  unfold div64
  rw [Int.tdiv_eq_ediv_of_nonneg ha]
  have h1 : 0 ≤ a / b := Int.ediv_nonneg ha (by omega)
  have h2 : a / b ≤ a := Int.ediv_le_self b ha
  exact ⟨wrap64_id (by unfold minInt64; omega) (by omega), h1⟩

/-- the 2/3 threshold both index-based variants compute, for a total in range -/
theorem needed_two_thirds {T : Int} (h0 : 0 ≤ T) (hT : T ≤ maxTotalVotingPower) :
    div64 (wrap64 (T * 2)) 3 = (T * 2) / 3 ∧ 0 ≤ (T * 2) / 3 := by
  have hb := maxTotal_bound
  unfold maxInt64 at hb
  have hw : wrap64 (T * 2) = T * 2 := wrap64_id (by unfold minInt64; omega) (by unfold maxInt64; omega)
  rw [hw]
  exact div64_nonneg (by omega) (by unfold maxInt64; omega) (by omega)

/-! ### the full and the early-exit loop on commits whose signatures are all valid -/
section
variable {σ : Type}

/-- power of the for-block slots of `ss`, slot `k` of `ss` belonging to validator `idx + k` -/
def fbSum (vs : List Validator) : List (CommitSig σ) → Nat → Int
  | [], _ => 0
  | s :: ss, idx => (if s.flag = flagCommit then powerAt vs idx else 0) + fbSum vs ss (idx + 1)

theorem fbSum_nonneg {vs : List Validator} (hnn : NonNeg vs) :
    ∀ (ss : List (CommitSig σ)) (idx : Nat), 0 ≤ fbSum vs ss idx := by
  intro ss; induction ss with
  | nil => intro idx; simp [fbSum]
  | cons s ss ih =>
    intro idx
    have := ih (idx + 1)
    have := powerAt_nonneg hnn idx
    simp only [fbSum]; split <;> omega

theorem sumPower_drop (vs : List Validator) (idx : Nat) :
    sumPower (vs.drop idx) = powerAt vs idx + sumPower (vs.drop (idx + 1)) := by
  unfold powerAt
  cases hv : vs[idx]? with
  | none =>
    have hl : vs.length ≤ idx := by simpa using hv
    rw [List.drop_eq_nil_of_le hl, List.drop_eq_nil_of_le (by omega)]; simp [sumPower]
  | some v =>
    obtain ⟨hl, hv'⟩ := List.getElem?_eq_some_iff.mp hv
    rw [List.drop_eq_getElem_cons hl]
    simp [sumPower, hv']

theorem fbSum_le {vs : List Validator} (hnn : NonNeg vs) :
    ∀ (ss : List (CommitSig σ)) (idx : Nat), fbSum vs ss idx ≤ sumPower (vs.drop idx) := by
  intro ss; induction ss with
  | nil =>
    intro idx
    have : NonNeg (vs.drop idx) := fun v hv => hnn v (List.mem_of_mem_drop hv)
    simpa [fbSum] using sumPower_nonneg this
  | cons s ss ih =>
    intro idx
    have h1 := ih (idx + 1)
    have h2 := powerAt_nonneg hnn idx
    rw [sumPower_drop]
    simp only [fbSum]; split <;> omega

variable (sigOK : Nat → SignBytes → σ → Bool) (vs : List Validator) (chainID : String) (c : Commit σ)

/-- every non-absent slot carries a signature that verifies under the validator of its position
(for-block slots over the commit's block id, nil slots over nil) -/
def AllValid : Prop :=
  ∀ (i : Nat) (v : Validator) (s : CommitSig σ), vs[i]? = some v → c.sigs[i]? = some s →
    s.flag ≠ flagAbsent →
    ∃ sb, voteSignBytes chainID c s = .ok sb ∧ sigOK v.key sb s.sig = true

theorem fullLoop_allValid (hall : AllValid sigOK vs chainID c) (hlen : vs.length = c.sigs.length)
    (hnn : NonNeg vs) :
    ∀ (ss : List (CommitSig σ)) (idx : Nat) (tally : Int),
      (∀ k, ss[k]? = c.sigs[idx + k]?) → 0 ≤ tally → tally + fbSum vs ss idx ≤ maxInt64 →
      fullLoop sigOK vs chainID c ss idx tally = .ok (tally + fbSum vs ss idx) := by
  intro ss; induction ss with
  | nil => intro idx tally _ _ _; simp [fullLoop, fbSum]
  | cons s ss ih =>
    intro idx tally hal h0 hmax
    have hs : c.sigs[idx]? = some s := by have := hal 0; simpa using this.symm
    have hal' : ∀ k, ss[k]? = c.sigs[idx + 1 + k]? := by
      intro k; have := hal (k + 1); simp only [List.getElem?_cons_succ] at this; rw [this]; congr 1; omega
    have hidx : idx < vs.length := by
      rw [hlen]; exact (List.getElem?_eq_some_iff.mp hs).1
    have hv : vs[idx]? = some vs[idx] := List.getElem?_eq_getElem hidx
    have hp : powerAt vs idx = vs[idx].power := by simp [powerAt, hv]
    have hf0 := fbSum_nonneg hnn ss (idx + 1)
    have hp0 := powerAt_nonneg hnn idx
    simp only [fullLoop, fbSum] at hmax ⊢
    by_cases ha : s.flag = flagAbsent
    · have : ¬ s.flag = flagCommit := by rw [ha]; decide
      simp only [if_pos ha, if_neg this] at hmax ⊢
      rw [ih (idx + 1) tally hal' h0 (by omega)]; congr 1; omega
    · obtain ⟨sb, hsb, hok⟩ := hall idx vs[idx] s hv hs ha
      simp only [if_neg ha, hv, hsb, hok]
      by_cases hf : s.flag = flagCommit
      · simp only [if_pos hf] at hmax ⊢
        have hw : wrap64 (tally + vs[idx].power) = tally + vs[idx].power :=
          wrap64_id (by unfold minInt64; omega) (by omega)
        simp only [Bool.not_true, Bool.false_eq_true, if_false, hw]
        rw [ih (idx + 1) _ hal' (by omega) (by omega)]; congr 1; omega
      · simp only [if_neg hf] at hmax ⊢
        simp only [Bool.not_true, Bool.false_eq_true, if_false]
        rw [ih (idx + 1) tally hal' h0 (by omega)]; congr 1; omega

theorem lightLoop_allValid (hall : AllValid sigOK vs chainID c) (hlen : vs.length = c.sigs.length)
    (hnn : NonNeg vs) (needed : Int) :
    ∀ (ss : List (CommitSig σ)) (idx : Nat) (tally : Int),
      (∀ k, ss[k]? = c.sigs[idx + k]?) → 0 ≤ tally → tally ≤ needed →
      tally + fbSum vs ss idx ≤ maxInt64 →
      lightLoop sigOK vs chainID c needed ss idx tally =
        if tally + fbSum vs ss idx > needed then .error .ok else .ok (tally + fbSum vs ss idx) := by
  intro ss; induction ss with
  | nil =>
    intro idx tally _ _ hn _
    have : ¬ tally > needed := by omega
    simp [lightLoop, fbSum, this]
  | cons s ss ih =>
    intro idx tally hal h0 hn hmax
    have hs : c.sigs[idx]? = some s := by have := hal 0; simpa using this.symm
    have hal' : ∀ k, ss[k]? = c.sigs[idx + 1 + k]? := by
      intro k; have := hal (k + 1); simp only [List.getElem?_cons_succ] at this; rw [this]; congr 1; omega
    have hidx : idx < vs.length := by
      rw [hlen]; exact (List.getElem?_eq_some_iff.mp hs).1
    have hv : vs[idx]? = some vs[idx] := List.getElem?_eq_getElem hidx
    have hp : powerAt vs idx = vs[idx].power := by simp [powerAt, hv]
    have hf0 := fbSum_nonneg hnn ss (idx + 1)
    have hp0 := powerAt_nonneg hnn idx
    simp only [lightLoop, fbSum] at hmax ⊢
    by_cases hf : s.flag = flagCommit
    · have ha : s.flag ≠ flagAbsent := by rw [hf]; decide
      obtain ⟨sb, hsb, hok⟩ := hall idx vs[idx] s hv hs ha
      have hnf : ¬ s.flag ≠ flagCommit := by simpa using hf
      simp only [if_neg hnf, hv, hsb, hok]
      simp only [if_pos hf] at hmax ⊢
      have hw : wrap64 (tally + vs[idx].power) = tally + vs[idx].power :=
        wrap64_id (by unfold minInt64; omega) (by omega)
      simp only [Bool.not_true, Bool.false_eq_true, if_false, hw]
      by_cases hgt : tally + vs[idx].power > needed
      · have : tally + (powerAt vs idx + fbSum vs ss (idx + 1)) > needed := by omega
        simp only [if_pos hgt, if_pos this]
      · simp only [if_neg hgt]
        rw [ih (idx + 1) _ hal' (by omega) (by omega) (by omega)]
        have e : tally + vs[idx].power + fbSum vs ss (idx + 1) =
            tally + (powerAt vs idx + fbSum vs ss (idx + 1)) := by omega
        rw [e]
    · have hnf : s.flag ≠ flagCommit := hf
      simp only [if_pos hnf, if_neg hf] at hmax ⊢
      rw [ih (idx + 1) tally hal' h0 hn (by omega)]
      have e : tally + fbSum vs ss (idx + 1) = tally + (0 + fbSum vs ss (idx + 1)) := by omega
      rw [e]

end
/-! ### the trusting loop over a prefix; `seenVals` -/
section
variable {σ : Type} (sigOK : Nat → SignBytes → σ → Bool) (vs : List Validator) (chainID : String)

theorem trustLoop_congr (c c' : Commit σ) (needed : Int)
    (h : ∀ s, voteSignBytes chainID c s = voteSignBytes chainID c' s) :
    ∀ (ss : List (CommitSig σ)) (idx : Nat) (seen : List (Nat × Nat)) (tally : Int),
      trustLoop sigOK vs chainID c needed ss idx seen tally =
        trustLoop sigOK vs chainID c' needed ss idx seen tally := by
  intro ss; induction ss with
  | nil => intro idx seen tally; simp [trustLoop]
  | cons s ss ih => intro idx seen tally; simp only [trustLoop, h, ih]

variable (c : Commit σ) (needed : Int)

theorem trustLoop_append : ∀ (pre rest : List (CommitSig σ)) (idx : Nat) (seen : List (Nat × Nat))
    (tally : Int),
    trustLoop sigOK vs chainID c needed (pre ++ rest) idx seen tally =
      match trustLoop sigOK vs chainID c needed pre idx seen tally with
      | .error r => .error r
      | .ok (seen', tally') => trustLoop sigOK vs chainID c needed rest (idx + pre.length) seen' tally' := by
  intro pre; induction pre with
  | nil => intro rest idx seen tally; simp [trustLoop]
  | cons s pre ih =>
    intro rest idx seen tally
    have e : idx + (pre.length + 1) = idx + 1 + pre.length := by omega
    simp only [List.cons_append, trustLoop, List.length_cons, e]
    by_cases hf : s.flag ≠ flagCommit
    · simp only [if_pos hf]; exact ih rest (idx + 1) seen tally
    · simp only [if_neg hf]
      cases hfind : findByAddr vs s.addr 0 with
      | none => simp only []; exact ih rest (idx + 1) seen tally
      | some jv =>
        obtain ⟨j, v⟩ := jv
        simp only []
        cases hl : seen.lookup j with
        | some first => simp only []
        | none =>
          simp only []
          cases hsb : voteSignBytes chainID c s with
          | error p => simp only []
          | ok sb =>
            simp only []
            by_cases hok : (!sigOK v.key sb s.sig) = true
            · simp only [if_pos hok]
            · simp only [if_neg hok]
              by_cases hgt : wrap64 (tally + v.power) > needed
              · simp only [if_pos hgt]
              · simp only [if_neg hgt]; exact ih rest (idx + 1) _ _

/-- after falling through a prefix, every known for-block signer of the prefix is in `seenVals` -/
theorem trustLoop_seen : ∀ (pre : List (CommitSig σ)) (idx : Nat) (seen seen' : List (Nat × Nat))
    (tally tally' : Int),
    trustLoop sigOK vs chainID c needed pre idx seen tally = .ok (seen', tally') →
    (∀ j, (seen.lookup j).isSome → (seen'.lookup j).isSome) ∧
    ∀ s ∈ pre, s.flag = flagCommit → ∀ j v, findByAddr vs s.addr 0 = some (j, v) →
      (seen'.lookup j).isSome := by
  intro pre; induction pre with
  | nil =>
    intro idx seen seen' tally tally' h
    simp only [trustLoop] at h; injection h with h; injection h with h1 h2; subst h1
    exact ⟨fun _ h => h, by simp⟩
  | cons s pre ih =>
    intro idx seen seen' tally tally' h
    simp only [trustLoop] at h
    split at h
    · rename_i hf
      obtain ⟨m, t⟩ := ih _ _ _ _ _ h
      refine ⟨m, ?_⟩
      intro s' hs' hf' j v hfind
      rcases List.mem_cons.mp hs' with rfl | hs'
      · exact absurd hf' hf
      · exact t s' hs' hf' j v hfind
    · split at h
      · rename_i hnone
        obtain ⟨m, t⟩ := ih _ _ _ _ _ h
        refine ⟨m, ?_⟩
        intro s' hs' hf' j v hfind
        rcases List.mem_cons.mp hs' with rfl | hs'
        · rw [hnone] at hfind; cases hfind
        · exact t s' hs' hf' j v hfind
      · rename_i j v hfind0
        split at h
        · cases h
        · split at h
          · cases h
          · split at h
            · cases h
            · split at h
              · cases h
              · obtain ⟨m, t⟩ := ih _ _ _ _ _ h
                have mj : ((List.lookup j ((j, idx) :: seen))).isSome := by simp
                refine ⟨?_, ?_⟩
                · intro k hk; apply m
                  simp only [List.lookup_cons]; split
                  · simp
                  · exact hk
                · intro s' hs' hf' j' v' hfind
                  rcases List.mem_cons.mp hs' with rfl | hs'
                  · rw [hfind0] at hfind; injection hfind with hfind; injection hfind with h1 h2
                    subst h1; exact m j mj
                  · exact t s' hs' hf' j' v' hfind
end
section
variable {σ : Type} (sigOK : Nat → SignBytes → σ → Bool) (vs : List Validator) (chainID : String)
  (c : Commit σ) (needed : Int)

theorem voteSignBytes_ne_notEnough {s : CommitSig σ} {p : Res}
    (h : voteSignBytes chainID c s = .error p) : (∀ g n, p ≠ .notEnough g n) ∧ p ≠ .ok := by
  unfold voteSignBytes at h
  split at h
  · injection h with h; subst h; exact ⟨(by intro g n hc; cases hc), (by intro hc; cases hc)⟩
  · split at h
    · injection h with h; subst h; exact ⟨(by intro g n hc; cases hc), (by intro hc; cases hc)⟩
    · cases h

theorem trustLoop_error_ne_notEnough : ∀ (ss : List (CommitSig σ)) (idx : Nat)
    (seen : List (Nat × Nat)) (tally : Int) (r : Res),
    trustLoop sigOK vs chainID c needed ss idx seen tally = .error r → ∀ g n, r ≠ .notEnough g n := by
  intro ss; induction ss with
  | nil => intro idx seen tally r h; simp [trustLoop] at h
  | cons s ss ih =>
    intro idx seen tally r h
    simp only [trustLoop] at h
    split at h
    · exact ih _ _ _ _ h
    · split at h
      · exact ih _ _ _ _ h
      · split at h
        · injection h with h; subst h; intro g n hc; cases hc
        · split at h
          · rename_i p hp; injection h with h; subst h; exact (voteSignBytes_ne_notEnough chainID c hp).1
          · split at h
            · injection h with h; subst h; intro g n hc; cases hc
            · split at h
              · injection h with h; subst h; intro g n hc; cases hc
              · exact ih _ _ _ _ h
end

theorem totalLoop_complete : ∀ (vs : List Validator) (s : Int), NonNeg vs → 0 ≤ s →
    s + sumPower vs ≤ maxTotalVotingPower → totalLoop vs s = some (s + sumPower vs) := by
  intro vs; induction vs with
  | nil => intro s _ _ _; simp [totalLoop, sumPower]
  | cons v vs ih =>
    intro s hnn h0 hm
    have hv : 0 ≤ v.power := hnn v (by simp)
    have hnn' : NonNeg vs := fun w hw => hnn w (by simp [hw])
    have hr := sumPower_nonneg hnn'
    have hb := maxTotal_bound
    unfold maxInt64 at hb
    simp only [sumPower, List.map_cons, List.sum_cons] at hm hr ⊢
    have hclip : safeAddClip s v.power = s + v.power := by
      unfold safeAddClip safeAdd
      have c1 : ¬ (v.power > 0 ∧ s > maxInt64 - v.power) := by unfold maxInt64; omega
      have c2 : ¬ (v.power < 0 ∧ s < minInt64 - v.power) := by omega
      simp [if_neg c1, if_neg c2]
    simp only [totalLoop, hclip]
    have : ¬ s + v.power > maxTotalVotingPower := by omega
    simp only [if_neg this]
    have := ih (s + v.power) hnn' (by omega) (by simp only [sumPower]; omega)
    rw [this]; simp only [sumPower]; congr 1; omega

theorem total_complete {vs : List Validator} (hnn : NonNeg vs) (h : sumPower vs ≤ maxTotalVotingPower) :
    totalVotingPower vs = some (sumPower vs) := by
  have := totalLoop_complete vs 0 hnn (by omega) (by omega)
  simpa [totalVotingPower] using this

/-- positive picked power needs at least one pick -/
theorem pickedPower_pos_nonempty {vs : List Validator} {js : List Nat} (h : 0 < pickedPower vs js) :
    ∃ j, j ∈ js := by
  cases js with
  | nil => simp [pickedPower] at h
  | cons j js => exact ⟨j, by simp⟩

section
variable {σ : Type} (sigOK : Nat → SignBytes → σ → Bool) (vs : List Validator) (chainID : String)
  (c : Commit σ)

/-- if the full loop falls through, every non-absent slot it passed carried a valid signature -/
theorem fullLoop_ok_valid : ∀ (ss : List (CommitSig σ)) (idx : Nat) (tally t : Int),
    fullLoop sigOK vs chainID c ss idx tally = .ok t →
    ∀ (k : Nat) (s : CommitSig σ) (v : Validator), ss[k]? = some s → vs[idx + k]? = some v →
      s.flag ≠ flagAbsent → ∃ sb, voteSignBytes chainID c s = .ok sb ∧ sigOK v.key sb s.sig = true := by
  intro ss; induction ss with
  | nil => intro idx tally t _ k s v hs; simp at hs
  | cons s0 ss ih =>
    intro idx tally t h k s v hs hv hf
    simp only [fullLoop] at h
    cases k with
    | zero =>
      simp only [List.getElem?_cons_zero, Option.some.injEq] at hs; subst hs
      simp only [Nat.add_zero] at hv
      simp only [if_neg hf, hv] at h
      split at h
      · cases h
      · rename_i sb hsb
        split at h
        · cases h
        · rename_i hok; exact ⟨sb, hsb, by simpa using hok⟩
    | succ k =>
      simp only [List.getElem?_cons_succ] at hs
      have hv' : vs[idx + 1 + k]? = some v := by rw [← hv]; congr 1; omega
      split at h
      · exact ih _ _ _ h k s v hs hv' hf
      · split at h
        · cases h
        · split at h
          · cases h
          · split at h
            · cases h
            · exact ih _ _ _ h k s v hs hv' hf
end
/-! ### light ⇒ trusting; subsets of positions -/

theorem findByAddr_distinct : ∀ (vs : List Validator) (k i : Nat) (v : Validator),
    (vs.map (·.addr)).Nodup → vs[i]? = some v → findByAddr vs v.addr k = some (k + i, v) := by
  intro vs; induction vs with
  | nil => intro k i v _ h; simp at h
  | cons w vs ih =>
    intro k i v hd h
    simp only [List.map_cons, List.nodup_cons] at hd
    cases i with
    | zero =>
      simp only [List.getElem?_cons_zero, Option.some.injEq] at h; subst h
      simp [findByAddr]
    | succ i =>
      simp only [List.getElem?_cons_succ] at h
      have hm : v.addr ∈ vs.map (·.addr) := List.mem_map.mpr ⟨v, List.mem_of_getElem? h, rfl⟩
      have hne : ¬ w.addr = v.addr := fun e => hd.1 (e ▸ hm)
      simp only [findByAddr, if_neg hne]
      rw [ih (k + 1) i v hd.2 h]; congr 2; omega

theorem safeMul_no_overflow {a b : Int} (ha : 0 ≤ a) (hb : 0 ≤ b) (h : a * b ≤ maxInt64) :
    (safeMul a b).2 = false := by
  unfold safeMul
  by_cases h0 : a = 0 ∨ b = 0
  · simp [h0]
  · have ha' : ¬ a < 0 := by omega
    have hb' : ¬ b < 0 := by omega
    have hbpos : 0 < b := by omega
    simp only [if_neg h0, if_neg ha', if_neg hb']
    have hle : a ≤ maxInt64 / b := (Int.le_ediv_iff_mul_le hbpos).mpr h
    rw [Int.tdiv_eq_ediv_of_nonneg (by decide)]
    have : ¬ a > maxInt64 / b := by omega
    simp [this]

section
variable {σ : Type} (sigOK : Nat → SignBytes → σ → Bool) (vs : List Validator) (chainID : String)
  (c : Commit σ)

/-- every for-block slot carries the address of the validator of its position -/
def AddrConsistent : Prop :=
  ∀ (i : Nat) (v : Validator) (s : CommitSig σ), vs[i]? = some v → c.sigs[i]? = some s →
    s.flag = flagCommit → s.addr = v.addr

theorem trustLoop_of_lightLoop (hd : (vs.map (·.addr)).Nodup) (hc : AddrConsistent vs c)
    (needed : Int) :
    ∀ (ss : List (CommitSig σ)) (idx : Nat) (seen : List (Nat × Nat)) (tally : Int),
      (∀ k, ss[k]? = c.sigs[idx + k]?) → (∀ p ∈ seen, p.1 < idx) →
      lightLoop sigOK vs chainID c needed ss idx tally = .error .ok →
      trustLoop sigOK vs chainID c needed ss idx seen tally = .error .ok := by
  intro ss; induction ss with
  | nil => intro idx seen tally _ _ h; simp [lightLoop] at h
  | cons s ss ih =>
    intro idx seen tally hal hlt h
    have hs : c.sigs[idx]? = some s := by have := hal 0; simpa using this.symm
    have hal' : ∀ k, ss[k]? = c.sigs[idx + 1 + k]? := by
      intro k; have := hal (k + 1); simp only [List.getElem?_cons_succ] at this; rw [this]; congr 1; omega
    have hlt' : ∀ p ∈ seen, p.1 < idx + 1 := fun p hp => Nat.lt_succ_of_lt (hlt p hp)
    simp only [lightLoop] at h
    simp only [trustLoop]
    by_cases hf : s.flag ≠ flagCommit
    · simp only [if_pos hf] at h ⊢; exact ih _ _ _ hal' hlt' h
    · simp only [if_neg hf] at h ⊢
      have hf' : s.flag = flagCommit := by simpa using hf
      cases hv : vs[idx]? with
      | none => simp [hv] at h
      | some v =>
        simp only [hv] at h
        have ha : s.addr = v.addr := hc idx v s hv hs hf'
        have hfind := findByAddr_distinct vs 0 idx v hd hv
        simp only [Nat.zero_add] at hfind
        rw [ha, hfind]
        have hlook : seen.lookup idx = none := by
          rw [List.lookup_eq_none_iff]; intro p hp
          have := hlt p hp
          simp; omega
        simp only [hlook]
        cases hsb : voteSignBytes chainID c s with
        | error p =>
          simp only [hsb] at h
          injection h with h; subst h
          exact absurd rfl (voteSignBytes_ne_notEnough chainID c hsb).2
        | ok sb =>
          simp only [hsb] at h ⊢
          by_cases hok : (!sigOK v.key sb s.sig) = true
          · simp [hok] at h
          · simp only [if_neg hok] at h ⊢
            by_cases hgt : wrap64 (tally + v.power) > needed
            · simp only [if_pos hgt]
            · simp only [if_neg hgt] at h ⊢
              refine ih _ _ _ hal' ?_ h
              intro p hp; rcases List.mem_cons.mp hp with rfl | hp
              · simp
              · exact hlt' p hp
end

theorem pickedPower_erase (vs : List Validator) : ∀ (F : List Nat) (j : Nat), j ∈ F →
    pickedPower vs F = powerAt vs j + pickedPower vs (F.erase j) := by
  intro F; induction F with
  | nil => intro j h; simp at h
  | cons a F ih =>
    intro j h
    by_cases e : a = j
    · subst e; simp [pickedPower]
    · have hj : j ∈ F := by
        rcases List.mem_cons.mp h with h | h
        · exact absurd h.symm e
        · exact h
      have : (a :: F).erase j = a :: F.erase j := by simp [e]
      rw [this]
      have := ih j hj
      simp only [pickedPower, List.map_cons, List.sum_cons] at this ⊢
      omega

/-- distinct positions inside `F` never carry more than `F` -/
theorem pickedPower_subset_le {vs : List Validator} (hnn : NonNeg vs) :
    ∀ (js F : List Nat), js.Nodup → (∀ j ∈ js, j ∈ F) → pickedPower vs js ≤ pickedPower vs F := by
  intro js; induction js with
  | nil => intro F _ _; simpa [pickedPower] using pickedPower_nonneg hnn F
  | cons j js ih =>
    intro F hnd hsub
    rw [List.nodup_cons] at hnd
    have hj : j ∈ F := hsub j (by simp)
    rw [pickedPower_erase vs F j hj]
    have := ih (F.erase j) hnd.2 (by
      intro k hk
      have hne : k ≠ j := fun e => hnd.1 (e ▸ hk)
      exact (List.mem_erase_of_ne hne).mpr (hsub k (by simp [hk])))
    simp only [pickedPower, List.map_cons, List.sum_cons] at this ⊢
    omega


end Tmv.CommitVerify
