import Tmv.Lemmas.VoteReachRun
/-! Node-level part of "own votes are recorded" (C03): two invariants kept by every function of the
node model,

* (RT) the node's round is at most the height vote set's round, and every round up to that one is
  tracked (`SetRound` adds every missing round) — for inputs without future-round timeouts;
* (OQ) every vote the node signed is recorded in its vote sets or still waits in its queue;

and their lift through `drain` / `step`: the own vote taken off the queue is for a tracked round, well
signed, and the only vote the node signed of that type in that round (`G`), so `HVS.addVote` records
it. -/
namespace Tmv.Cons

/-! ### the height vote set: tracked rounds -/

/-- every round `0 … h.round` is tracked -/
def HVS.Trk (h : HVS) : Prop :=
  ∀ k : Nat, (k : Int) ≤ h.round → ∀ t, (h.getVoteSet (k : Int) t).isSome = true

theorem getVoteSet_isSome (h : HVS) (r : Int) (t : VType) :
    (h.getVoteSet r t).isSome = (h.getRound r).isSome := by
  unfold HVS.getVoteSet; cases h.getRound r <;> rfl

theorem HVS.putVoteSet_round_eq (h : HVS) (r : Int) (t : VType) (vs : VoteSet) :
    (h.putVoteSet r t vs).round = h.round := by
  unfold HVS.putVoteSet; split <;> rfl

theorem HVS.addVote_round_eq (c : Cfg) (h : HVS) (v : Vote) (peer : Peer) :
    (h.addVote c v peer).1.round = h.round := by
  unfold HVS.addVote
  dsimp only
  split
  · exact HVS.putVoteSet_round_eq ..
  · split
    · exact (HVS.putVoteSet_round_eq ..).trans rfl
    · rfl

theorem HVS.setPeerMaj23_round_eq (h : HVS) (r : Nat) (t : VType) (peer : Peer) (key : Bid) :
    (h.setPeerMaj23 r t peer key).round = h.round := by
  unfold HVS.setPeerMaj23
  split
  · exact HVS.putVoteSet_round_eq ..
  · rfl

theorem HVS.Trk.ext {c : Cfg} {A : Int → VType → Vote → Prop} {h h' : HVS} (ht : h.Trk)
    (hx : HExt c A h h') (hr : h'.round = h.round) : h'.Trk := by
  intro k hk t
  rw [hr] at hk
  exact hx.tracked (ht k hk t)

theorem HVS.Trk.init : HVS.init.Trk := by
  intro k hk t
  rw [getVoteSet_init]
  have : (k : Int) = 0 := by
    have : HVS.init.round = 0 := rfl
    omega
  simp [this]

theorem foldl_addRound_tracks (c : Cfg) (rs : List Int) (h : HVS) :
    ∀ r ∈ rs, ∀ t,
      ((rs.foldl (fun h r => if (h.getRound r).isSome then h else h.addRound r) h).getVoteSet r t).isSome = true := by
  induction rs generalizing h with
  | nil => intro r hr; cases hr
  | cons a rs ih =>
    intro r hr t
    simp only [List.foldl]
    rcases List.mem_cons.1 hr with e | hm
    · subst e
      apply (HExt.foldl_addRound c (fun _ _ _ => True) rs _).tracked
      split
      · rename_i hs
        rw [getVoteSet_isSome]; exact hs
      · rename_i hs
        have hn : h.getRound r = none := by
          cases hg : h.getRound r with
          | none => rfl
          | some y => simp [hg] at hs
        rw [getVoteSet_addRound h r hn]; simp
    · exact ih _ r hm t

theorem HVS.setRound_none {h : HVS} {x : Int} (hs : h.setRound x = none) : x < h.round - 1 := by
  unfold HVS.setRound at hs
  simp only [] at hs
  split at hs
  · rename_i hc; exact hc.2
  · cases hs

/-- `SetRound`: the new round is set, and every round up to it is tracked -/
theorem HVS.setRound_spec (c : Cfg) {h h' : HVS} {x : Int} (hs : h.setRound x = some h') (ht : h.Trk) :
    h'.round = x ∧ h'.Trk := by
  unfold HVS.setRound at hs
  simp only [] at hs
  split at hs
  · cases hs
  · cases hs
    refine ⟨rfl, ?_⟩
    intro k hk t
    have hk' : (k : Int) ≤ x := hk
    have key : ∀ F : HVS, (F.getVoteSet (k : Int) t).isSome = true →
        ((⟨x, F.sets, F.catchup⟩ : HVS).getVoteSet (k : Int) t).isSome = true := by
      intro F hF
      rw [getVoteSet_congr_sets (a := F) (b := ⟨x, F.sets, F.catchup⟩) rfl]; exact hF
    apply key
    by_cases hold : (k : Int) ≤ h.round
    · exact (HExt.foldl_addRound c (fun _ _ _ => True) _ h).tracked (ht k hold t)
    · apply foldl_addRound_tracks c
      refine List.mem_map.2 ⟨((k : Int) - (h.round - 1)).toNat, List.mem_range.2 (by omega), by omega⟩

/-! ### (RT) -/

structure RTI (round : Nat) (v : HVS) : Prop where
  le : (round : Int) ≤ v.round
  trk : v.Trk

abbrev RT (s : NodeState) : Prop := RTI s.round s.votes

theorem RTI.init : RT NodeState.init := ⟨Int.le_refl _, HVS.Trk.init⟩

theorem RTI.ext {c : Cfg} {A : Int → VType → Vote → Prop} {r : Nat} {v v' : HVS} (h : RTI r v)
    (hx : HExt c A v v') (hr : v'.round = v.round) : RTI r v' :=
  ⟨by rw [hr]; exact h.le, h.trk.ext hx hr⟩

attribute [local irreducible] emit panicWith sign signAddVote decideProposal doPrevote enterPrevote enterPropose
  enterNewRound newRoundReset enterPrevoteWait unlock enterPrecommit enterPrecommitWait finalizeCommit tryFinalizeCommit
  enterCommit setProposal handleCompleteProposal addBlockPart addVote onPolka prevoteTransitions afterPrevote
  afterPrecommit handleInternal handleTimeout
  handleTxsAvailable handleInput drain step run HVS.addVote HVS.setRound HVS.setPeerMaj23 HVS.polRound
  isProposalComplete maj23Of hasAnyOf hashesTo hasHeader

variable {c : Cfg}

syntax "rtinv_step" : tactic
macro_rules | `(tactic| rtinv_step) => `(tactic| assumption)
macro_rules | `(tactic| rtinv_step) => `(tactic| rfl)
macro "rtinv" : tactic => `(tactic| repeat' (first | rtinv_step | (dsimp only; rtinv_step)))

theorem emit_RT {s : NodeState} (o : Output) (h : RT s) : RT (emit s o) := by
  show RTI _ _
  rw [emit_round, emit_votes]; exact h
macro_rules | `(tactic| rtinv_step) => `(tactic| apply emit_RT)

theorem panicWith_RT {s : NodeState} (w : String) (h : RT s) : RT (panicWith s w) := by
  show RTI _ _
  rw [panicWith_round, panicWith_votes]; exact h
macro_rules | `(tactic| rtinv_step) => `(tactic| apply panicWith_RT)

theorem signAddVote_RT {s : NodeState} (t : VType) (b : Bid) (h : RT s) : RT (signAddVote c s t b) := by
  show RTI _ _
  rw [signAddVote_round, signAddVote_votes]; exact h
macro_rules | `(tactic| rtinv_step) => `(tactic| apply signAddVote_RT)

theorem decideProposal_RT {s : NodeState} (r me : Nat) (h : RT s) : RT (decideProposal c s r me) := by
  show RTI _ _
  rw [decideProposal_round, decideProposal_votes]; exact h
macro_rules | `(tactic| rtinv_step) => `(tactic| apply decideProposal_RT)

theorem doPrevote_RT {s : NodeState} (h : RT s) : RT (doPrevote c s) := by
  show RTI _ _
  rw [doPrevote_round, doPrevote_votes]; exact h
macro_rules | `(tactic| rtinv_step) => `(tactic| apply doPrevote_RT)

theorem unlock_RT {s : NodeState} (h : RT s) : RT (unlock s) := by
  unfold unlock; exact h
macro_rules | `(tactic| rtinv_step) => `(tactic| apply unlock_RT)

/-- `enterPrevote` for a round the node has reached -/
theorem enterPrevote_RT {s : NodeState} (r : Nat) (hle : s.halted = true ∨ r ≤ s.round) (h : RT s) :
    RT (enterPrevote c s r) := by
  unfold enterPrevote
  split
  · exact h
  · rename_i hh
    split
    · exact h
    · rename_i hg
      have hr : r = s.round := by
        rcases hle with hle | hle
        · exact absurd hle hh
        · omega
      subst hr
      show RTI _ _
      dsimp only
      rw [doPrevote_votes]; exact h
macro_rules | `(tactic| rtinv_step) => `(tactic| apply enterPrevote_RT)

macro_rules | `(tactic| rtinv_step) => `(tactic| exact Or.inr (Nat.le_refl _))
macro_rules | `(tactic| rtinv_step) => `(tactic| (right; omega))

theorem enterPropose_RT {s : NodeState} (r : Nat) (hle : s.halted = true ∨ r ≤ s.round) (h : RT s) :
    RT (enterPropose c s r) := by
  unfold enterPropose
  split
  · exact h
  · rename_i hh
    split
    · exact h
    · rename_i hg
      have hr : r = s.round := by
        rcases hle with hle | hle
        · exact absurd hle hh
        · omega
      subst hr
      (try simp only [])
      have key : ∀ t : NodeState, RT t → t.round = s.round → RT { t with round := s.round, step := .propose } := by
        intro t ht hr
        show RTI _ _
        dsimp only
        rw [← hr]; exact ht
      repeat' split
      all_goals (try apply enterPrevote_RT _ (Or.inr (Nat.le_refl _)))
      all_goals apply key
      all_goals first | (rtinv; done) | (simp; done)
macro_rules | `(tactic| rtinv_step) => `(tactic| apply enterPropose_RT)

theorem enterNewRound_RT {s : NodeState} (r : Nat) (h : RT s) : RT (enterNewRound c s r) := by
  unfold enterNewRound
  split
  · exact h
  · split
    · exact h
    · rename_i hg
      simp only []
      have hf := newRoundReset_fields s r
      split
      · rename_i hsr
        rw [hf.2.1] at hsr
        have := HVS.setRound_none hsr
        apply panicWith_RT
        show RTI _ _
        rw [hf.2.2.1, hf.2.1]
        exact ⟨by omega, h.trk⟩
      · rename_i hv hsr
        rw [hf.2.1] at hsr
        obtain ⟨e1, e2⟩ := HVS.setRound_spec c hsr h.trk
        have h2 : RT { newRoundReset s r with votes := hv, triggered := false } := by
          show RTI _ _
          dsimp only
          rw [hf.2.2.1]
          exact ⟨by omega, e2⟩
        repeat' split
        all_goals first
          | (rtinv; done)
          | (apply enterPropose_RT _ (Or.inr (by dsimp only; omega)); exact h2)
macro_rules | `(tactic| rtinv_step) => `(tactic| apply enterNewRound_RT)

theorem enterPrevoteWait_RT {s : NodeState} (r : Nat) (hle : s.halted = true ∨ r ≤ s.round) (h : RT s) :
    RT (enterPrevoteWait c s r) := by
  unfold enterPrevoteWait
  split
  · exact h
  · rename_i hh
    split
    · exact h
    · rename_i hg
      have hr : r = s.round := by
        rcases hle with hle | hle
        · exact absurd hle hh
        · omega
      subst hr
      split
      · rtinv
      · show RTI _ _
        dsimp only
        rw [emit_votes]; exact h
macro_rules | `(tactic| rtinv_step) => `(tactic| apply enterPrevoteWait_RT)

theorem enterPrecommit_RT {s : NodeState} (r : Nat) (hle : s.halted = true ∨ r ≤ s.round) (h : RT s) :
    RT (enterPrecommit c s r) := by
  unfold enterPrecommit
  split
  · exact h
  · rename_i hh
    split
    · exact h
    · rename_i hg
      have hr : r = s.round := by
        rcases hle with hle | hle
        · exact absurd hle hh
        · omega
      subst hr
      have key : ∀ (t : NodeState) (x : Bid), t.round = s.round → t.votes = s.votes →
          RT { (signAddVote c t .precommit x) with round := s.round, step := .precommit } := by
        intro t x hr hv
        show RTI _ _
        dsimp only
        rw [signAddVote_votes, hv]; exact h
      (try simp only [])
      repeat' split
      all_goals first
        | (rtinv; done)
        | (apply key <;> first | rfl | (simp; done) | (split <;> first | rfl | simp))
macro_rules | `(tactic| rtinv_step) => `(tactic| apply enterPrecommit_RT)

theorem enterPrecommitWait_RT {s : NodeState} (r : Nat) (h : RT s) : RT (enterPrecommitWait c s r) := by
  unfold enterPrecommitWait; (try simp only []); repeat' split
  all_goals rtinv
macro_rules | `(tactic| rtinv_step) => `(tactic| apply enterPrecommitWait_RT)

theorem finalizeCommit_RT {s : NodeState} (h : RT s) : RT (finalizeCommit c s) := by
  unfold finalizeCommit; (try simp only []); repeat' split
  all_goals rtinv
macro_rules | `(tactic| rtinv_step) => `(tactic| apply finalizeCommit_RT)

theorem tryFinalizeCommit_RT {s : NodeState} (h : RT s) : RT (tryFinalizeCommit c s) := by
  unfold tryFinalizeCommit; (try simp only []); repeat' split
  all_goals rtinv
macro_rules | `(tactic| rtinv_step) => `(tactic| apply tryFinalizeCommit_RT)

theorem enterCommit_RT {s : NodeState} (r : Nat) (h : RT s) : RT (enterCommit c s r) := by
  unfold enterCommit
  split
  · exact h
  · split
    · exact h
    · split
      · rtinv
      · simp only []
        apply tryFinalizeCommit_RT
        show RTI _ _
        repeat' split
        all_goals exact h
macro_rules | `(tactic| rtinv_step) => `(tactic| apply enterCommit_RT)

theorem setProposal_RT {s : NodeState} (p : Proposal) (h : RT s) : RT (setProposal c s p) := by
  unfold setProposal; (try simp only []); repeat' split
  all_goals rtinv
macro_rules | `(tactic| rtinv_step) => `(tactic| apply setProposal_RT)

theorem handleCompleteProposal_RT {s : NodeState} (h : RT s) : RT (handleCompleteProposal c s) := by
  unfold handleCompleteProposal; (try simp only []); repeat' split
  all_goals rtinv
macro_rules | `(tactic| rtinv_step) => `(tactic| apply handleCompleteProposal_RT)

theorem addBlockPart_RT {s : NodeState} (b : Nat) (h : RT s) : RT (addBlockPart c s b) := by
  unfold addBlockPart; (try simp only []); repeat' split
  all_goals rtinv
macro_rules | `(tactic| rtinv_step) => `(tactic| apply addBlockPart_RT)

theorem onPolka_RT {s : NodeState} (vr : Nat) (bid : Bid) (h : RT s) : RT (onPolka s vr bid) := by
  unfold onPolka; (try simp only []); repeat' split
  all_goals rtinv
macro_rules | `(tactic| rtinv_step) => `(tactic| apply onPolka_RT)

theorem prevoteTransitions_RT {s : NodeState} (vr : Nat) (h : RT s) : RT (prevoteTransitions c s vr) := by
  unfold prevoteTransitions; (try simp only []); repeat' split
  all_goals rtinv
macro_rules | `(tactic| rtinv_step) => `(tactic| apply prevoteTransitions_RT)

theorem afterPrevote_RT {s : NodeState} (vr : Nat) (h : RT s) : RT (afterPrevote c s vr) := by
  unfold afterPrevote; (try simp only []); repeat' split
  all_goals rtinv
macro_rules | `(tactic| rtinv_step) => `(tactic| apply afterPrevote_RT)

theorem afterPrecommit_RT {s : NodeState} (vr : Nat) (h : RT s) : RT (afterPrecommit c s vr) := by
  unfold afterPrecommit; simp only []; repeat' split
  all_goals first
    | (rtinv; done)
    | (apply enterCommit_RT; apply enterPrecommit_RT _ (enterNewRound_reach _ _); rtinv)
    | (apply enterPrecommitWait_RT; apply enterPrecommit_RT _ (enterNewRound_reach _ _); rtinv)
macro_rules | `(tactic| rtinv_step) => `(tactic| apply afterPrecommit_RT)

theorem addVote_RT {s : NodeState} (v : Vote) (peer : Peer) (h : RT s) : RT (addVote c s v peer) := by
  have h' : RTI s.round (s.votes.addVote c v peer).1 :=
    h.ext (HExt.addVote c (fun _ _ _ => True) _ v peer trivial) (HVS.addVote_round_eq c _ v peer)
  unfold addVote; simp only []; repeat' split
  all_goals rtinv
macro_rules | `(tactic| rtinv_step) => `(tactic| apply addVote_RT)

theorem handleInternal_RT {s : NodeState} (m : Internal) (h : RT s) : RT (handleInternal c s m) := by
  unfold handleInternal; (try simp only []); repeat' split
  all_goals rtinv

theorem handleTimeout_RT {s : NodeState} (r : Nat) (st : Step) (hr : r ≤ s.round) (h : RT s) :
    RT (handleTimeout c s r st) := by
  unfold handleTimeout; repeat' split
  all_goals rtinv

theorem handleTxsAvailable_RT {s : NodeState} (h : RT s) : RT (handleTxsAvailable c s) := by
  unfold handleTxsAvailable; repeat' split
  all_goals rtinv

theorem handleInput_RT {s : NodeState} (i : Input) (hi : i.notFuture s) (h : RT s) : RT (handleInput c s i) := by
  unfold handleInput
  cases i with
  | timeout r st => exact handleTimeout_RT r st hi h
  | peerMaj23 r t peer bid =>
    show RTI _ _
    dsimp only
    exact h.ext (HExt.setPeerMaj23 c (fun _ _ _ => True) _ _ _ _ _) (HVS.setPeerMaj23_round_eq ..)
  | proposal p => exact setProposal_RT p h
  | blockComplete b => exact addBlockPart_RT b h
  | vote v peer => exact addVote_RT v peer h
  | txsAvailable => exact handleTxsAvailable_RT h

/-! ### (OQ) -/

/-- every signed vote is recorded or still queued -/
def OQI (me : Nat) (out : List Output) (v : HVS) (q : List Internal) : Prop :=
  ∀ t r b, Output.signVote t r b ∈ out →
    v.has (r : Int) t b me ∨ Internal.vote ⟨t, r, b, me, true, me, me⟩ ∈ q

abbrev OQ (me : Nat) (s : NodeState) : Prop := OQI me s.out s.votes s.queue

variable {me : Nat}

theorem OQI.init (me : Nat) : OQ me NodeState.init := by
  intro t r b h; cases h

theorem OQI.ext {A : Int → VType → Vote → Prop} {out : List Output} {v v' : HVS} {q : List Internal}
    (h : OQI me out v q) (hx : HExt c A v v') : OQI me out v' q :=
  fun t r b hm => (h t r b hm).imp hx.has id

theorem OQI.push_other {out : List Output} {v : HVS} {q : List Internal} (h : OQI me out v q) (o : Output)
    (ho : ¬ isVote o) : OQI me (out ++ [o]) v q := by
  intro t r b hm
  rcases List.mem_append.1 hm with a | a
  · exact h t r b a
  · simp at a; subst a; exact absurd trivial ho

theorem OQI.push_queue {out : List Output} {v : HVS} {q : List Internal} (h : OQI me out v q)
    (ms : List Internal) : OQI me out v (q ++ ms) :=
  fun t r b hm => (h t r b hm).imp id (List.mem_append_left _)

theorem OQI.push_vote {out : List Output} {v : HVS} {q : List Internal} (h : OQI me out v q)
    (t : VType) (r : Nat) (b : Bid) :
    OQI me (out ++ [.signVote t r b]) v (q ++ [.vote ⟨t, r, b, me, true, me, me⟩]) := by
  intro t' r' b' hm
  rcases List.mem_append.1 hm with a | a
  · exact (h t' r' b' a).imp id (List.mem_append_left _)
  · simp at a
    obtain ⟨e1, e2, e3⟩ := a
    subst e1; subst e2; subst e3
    exact Or.inr (List.mem_append_right _ (List.mem_singleton.2 rfl))

-- `hc` is taken (explicitly, first) by every lemma with a `c`, also where unused, so that `oqinv_step` can always apply them
set_option linter.unusedVariables false

syntax "oqinv_step" : tactic
macro_rules | `(tactic| oqinv_step) => `(tactic| assumption)
macro_rules | `(tactic| oqinv_step) => `(tactic| exact (fun h => h))
macro "oqinv" : tactic => `(tactic| repeat' (first | oqinv_step | (dsimp only; oqinv_step)))

theorem emit_OQ {s : NodeState} (o : Output) (ho : ¬ isVote o) (h : OQ me s) : OQ me (emit s o) := by
  show OQI _ _ _ _
  rw [emit_votes, emit_queue]
  rcases emit_out s o with e | e <;> rw [e]
  · exact h
  · exact h.push_other o ho
macro_rules | `(tactic| oqinv_step) => `(tactic| apply emit_OQ)

theorem panicWith_OQ {s : NodeState} (w : String) (h : OQ me s) : OQ me (panicWith s w) := by
  show OQI _ _ _ _
  rw [panicWith_votes, panicWith_queue]
  unfold panicWith; split
  · exact h
  · exact h.push_other _ (fun h => h)
macro_rules | `(tactic| oqinv_step) => `(tactic| apply panicWith_OQ)

theorem signAddVote_OQ (hc : c.self = some me) {s : NodeState} (t : VType) (b : Bid) (h : OQ me s) :
    OQ me (signAddVote c s t b) := by
  unfold signAddVote
  split
  · exact h
  · rename_i hh
    split
    · exact h
    · rename_i me' hme
      rw [hc] at hme; cases hme
      split
      · rename_i s' hs
        have hf := sign_out hs
        have hq := sign_queue hs
        have hl : s'.halted = false := by rw [hf.2]; simpa using hh
        show OQI _ _ _ _
        dsimp only
        rw [emit_votes, emit_queue, emit_out_live _ _ hl, core_votes (sign_core hs), hf.1, hq]
        exact h.push_vote t s.round b
      · exact h
macro_rules | `(tactic| oqinv_step) => `(tactic| apply signAddVote_OQ)

theorem decideProposal_OQ (hc : c.self = some me) {s : NodeState} (r me' : Nat) (h : OQ me s) :
    OQ me (decideProposal c s r me') := by
  unfold decideProposal
  simp only []
  split
  · rename_i s' hs
    have hf := sign_out hs
    have hq := sign_queue hs
    show OQI _ _ _ _
    dsimp only
    rw [emit_votes, emit_queue, core_votes (sign_core hs), hq]
    rcases emit_out s' (.signProposal r (s.validBlock.getD c.ownBlock) s.validRound) with e | e <;> rw [e, hf.1]
    · exact h.push_queue _
    · exact (h.push_other (.signProposal r (s.validBlock.getD c.ownBlock) s.validRound)
        (fun h => h)).push_queue _
  · exact h
macro_rules | `(tactic| oqinv_step) => `(tactic| apply decideProposal_OQ)

theorem doPrevote_OQ (hc : c.self = some me) {s : NodeState} (h : OQ me s) : OQ me (doPrevote c s) := by
  unfold doPrevote; repeat' split
  all_goals oqinv
macro_rules | `(tactic| oqinv_step) => `(tactic| apply doPrevote_OQ)

theorem unlock_OQ {s : NodeState} (h : OQ me s) : OQ me (unlock s) := by
  unfold unlock; exact h
macro_rules | `(tactic| oqinv_step) => `(tactic| apply unlock_OQ)

theorem enterPrevote_OQ (hc : c.self = some me) {s : NodeState} (r : Nat) (h : OQ me s) :
    OQ me (enterPrevote c s r) := by
  unfold enterPrevote; (try simp only []); repeat' split
  all_goals oqinv
macro_rules | `(tactic| oqinv_step) => `(tactic| apply enterPrevote_OQ)

theorem enterPropose_OQ (hc : c.self = some me) {s : NodeState} (r : Nat) (h : OQ me s) :
    OQ me (enterPropose c s r) := by
  unfold enterPropose; (try simp only []); repeat' split
  all_goals oqinv
macro_rules | `(tactic| oqinv_step) => `(tactic| apply enterPropose_OQ)

theorem enterNewRound_OQ (hc : c.self = some me) {s : NodeState} (r : Nat) (h : OQ me s) :
    OQ me (enterNewRound c s r) := by
  unfold enterNewRound
  split
  · exact h
  · split
    · exact h
    · simp only []
      have hf := newRoundReset_fields s r
      have h' : OQ me (newRoundReset s r) := by
        show OQI _ _ _ _
        rw [hf.1, hf.2.1, newRoundReset_queue]; exact h
      split
      · oqinv
      · rename_i hv hsr
        have h2 : OQ me { newRoundReset s r with votes := hv, triggered := false } :=
          OQI.ext h' (HExt.setRound c (fun _ _ _ => True) _ _ _ hsr)
        repeat' split
        all_goals oqinv
macro_rules | `(tactic| oqinv_step) => `(tactic| apply enterNewRound_OQ)

theorem enterPrevoteWait_OQ (hc : c.self = some me) {s : NodeState} (r : Nat) (h : OQ me s) :
    OQ me (enterPrevoteWait c s r) := by
  unfold enterPrevoteWait; (try simp only []); repeat' split
  all_goals oqinv
macro_rules | `(tactic| oqinv_step) => `(tactic| apply enterPrevoteWait_OQ)

theorem enterPrecommit_OQ (hc : c.self = some me) {s : NodeState} (r : Nat) (h : OQ me s) :
    OQ me (enterPrecommit c s r) := by
  unfold enterPrecommit; (try simp only []); repeat' split
  all_goals oqinv
macro_rules | `(tactic| oqinv_step) => `(tactic| apply enterPrecommit_OQ)

theorem enterPrecommitWait_OQ (hc : c.self = some me) {s : NodeState} (r : Nat) (h : OQ me s) :
    OQ me (enterPrecommitWait c s r) := by
  unfold enterPrecommitWait; (try simp only []); repeat' split
  all_goals oqinv
macro_rules | `(tactic| oqinv_step) => `(tactic| apply enterPrecommitWait_OQ)

theorem finalizeCommit_OQ (hc : c.self = some me) {s : NodeState} (h : OQ me s) : OQ me (finalizeCommit c s) := by
  unfold finalizeCommit; (try simp only []); repeat' split
  all_goals oqinv
macro_rules | `(tactic| oqinv_step) => `(tactic| apply finalizeCommit_OQ)

theorem tryFinalizeCommit_OQ (hc : c.self = some me) {s : NodeState} (h : OQ me s) :
    OQ me (tryFinalizeCommit c s) := by
  unfold tryFinalizeCommit; (try simp only []); repeat' split
  all_goals oqinv
macro_rules | `(tactic| oqinv_step) => `(tactic| apply tryFinalizeCommit_OQ)

theorem enterCommit_OQ (hc : c.self = some me) {s : NodeState} (r : Nat) (h : OQ me s) :
    OQ me (enterCommit c s r) := by
  unfold enterCommit
  split
  · exact h
  · split
    · exact h
    · split
      · oqinv
      · simp only []
        apply tryFinalizeCommit_OQ hc
        show OQI _ _ _ _
        repeat' split
        all_goals exact h
macro_rules | `(tactic| oqinv_step) => `(tactic| apply enterCommit_OQ)

theorem setProposal_OQ (hc : c.self = some me) {s : NodeState} (p : Proposal) (h : OQ me s) :
    OQ me (setProposal c s p) := by
  unfold setProposal; (try simp only []); repeat' split
  all_goals oqinv
macro_rules | `(tactic| oqinv_step) => `(tactic| apply setProposal_OQ)

theorem handleCompleteProposal_OQ (hc : c.self = some me) {s : NodeState} (h : OQ me s) :
    OQ me (handleCompleteProposal c s) := by
  unfold handleCompleteProposal; (try simp only []); repeat' split
  all_goals oqinv
macro_rules | `(tactic| oqinv_step) => `(tactic| apply handleCompleteProposal_OQ)

theorem addBlockPart_OQ (hc : c.self = some me) {s : NodeState} (b : Nat) (h : OQ me s) :
    OQ me (addBlockPart c s b) := by
  unfold addBlockPart; (try simp only []); repeat' split
  all_goals oqinv
macro_rules | `(tactic| oqinv_step) => `(tactic| apply addBlockPart_OQ)

theorem onPolka_OQ {s : NodeState} (vr : Nat) (bid : Bid) (h : OQ me s) : OQ me (onPolka s vr bid) := by
  unfold onPolka; (try simp only []); repeat' split
  all_goals oqinv
macro_rules | `(tactic| oqinv_step) => `(tactic| apply onPolka_OQ)

theorem prevoteTransitions_OQ (hc : c.self = some me) {s : NodeState} (vr : Nat) (h : OQ me s) :
    OQ me (prevoteTransitions c s vr) := by
  unfold prevoteTransitions; (try simp only []); repeat' split
  all_goals oqinv
macro_rules | `(tactic| oqinv_step) => `(tactic| apply prevoteTransitions_OQ)

theorem afterPrevote_OQ (hc : c.self = some me) {s : NodeState} (vr : Nat) (h : OQ me s) :
    OQ me (afterPrevote c s vr) := by
  unfold afterPrevote; (try simp only []); repeat' split
  all_goals oqinv
macro_rules | `(tactic| oqinv_step) => `(tactic| apply afterPrevote_OQ)

theorem afterPrecommit_OQ (hc : c.self = some me) {s : NodeState} (vr : Nat) (h : OQ me s) :
    OQ me (afterPrecommit c s vr) := by
  unfold afterPrecommit; simp only []; repeat' split
  all_goals oqinv
macro_rules | `(tactic| oqinv_step) => `(tactic| apply afterPrecommit_OQ)

/-- `State.addVote` once the vote went through `HeightVoteSet.AddVote` -/
theorem addVote_OQ_of (hc : c.self = some me) {s : NodeState} (v : Vote) (peer : Peer)
    (h' : OQI me s.out (s.votes.addVote c v peer).1 s.queue) : OQ me (addVote c s v peer) := by
  unfold addVote; simp only []; repeat' split
  all_goals oqinv

theorem addVote_OQ (hc : c.self = some me) {s : NodeState} (v : Vote) (peer : Peer) (h : OQ me s) :
    OQ me (addVote c s v peer) :=
  addVote_OQ_of hc v peer (OQI.ext h (HExt.addVote c (fun _ _ _ => True) _ v peer trivial))
macro_rules | `(tactic| oqinv_step) => `(tactic| apply addVote_OQ)

theorem handleInternal_OQ (hc : c.self = some me) {s : NodeState} (m : Internal) (h : OQ me s) :
    OQ me (handleInternal c s m) := by
  unfold handleInternal; (try simp only []); repeat' split
  all_goals oqinv

theorem handleTimeout_OQ (hc : c.self = some me) {s : NodeState} (r : Nat) (st : Step) (h : OQ me s) :
    OQ me (handleTimeout c s r st) := by
  unfold handleTimeout; repeat' split
  all_goals oqinv

theorem handleTxsAvailable_OQ (hc : c.self = some me) {s : NodeState} (h : OQ me s) :
    OQ me (handleTxsAvailable c s) := by
  unfold handleTxsAvailable; repeat' split
  all_goals oqinv

theorem handleInput_OQ (hc : c.self = some me) {s : NodeState} (i : Input) (h : OQ me s) :
    OQ me (handleInput c s i) := by
  unfold handleInput
  cases i with
  | timeout r st => exact handleTimeout_OQ hc r st h
  | peerMaj23 r t peer bid =>
    show OQI _ _ _ _
    dsimp only
    exact OQI.ext h (HExt.setPeerMaj23 c (fun _ _ _ => True) _ _ _ _ _)
  | proposal p => exact setProposal_OQ hc p h
  | blockComplete b => exact addBlockPart_OQ hc b h
  | vote v peer => exact addVote_OQ hc v peer h
  | txsAvailable => exact handleTxsAvailable_OQ hc h

/-! ### the lift through `drain` / `step` -/

/-- a recorded vote of the node itself is one it signed -/
def Mine (me : Nat) (s : NodeState) : Prop :=
  ∀ (r : Nat) t k, s.votes.has (r : Int) t k me → Output.signVote t r k ∈ s.out

/-- votes that may be added: a vote carrying the node's own index was signed by it (is in `O`) -/
def AM (me : Nat) (O : List Output) : Int → VType → Vote → Prop :=
  fun r t w => (w.round : Int) = r ∧ w.typ = t ∧ (w.val = me → Output.signVote w.typ w.round w.bid ∈ O)

theorem Mine.ext {s s' : NodeState} (h : Mine me s) (hx : HExt c (AM me s.out) s.votes s'.votes)
    (hsub : ∀ o ∈ s.out, o ∈ s'.out) : Mine me s' := by
  intro r t k hh
  rcases hx.has_back hh with h1 | ⟨w, ⟨hr, ht, hs⟩, hb, hu⟩
  · exact hsub _ (h r t k h1)
  · have hr' : w.round = r := by exact_mod_cast hr
    have := hs hu
    rw [ht, hr', hb] at this
    exact hsub _ this

/-- everything that is carried through one `step` -/
structure Mid (c : Cfg) (me : Nat) (s : NodeState) : Prop where
  g : G s
  n : N me [] s
  wf : HVS.WF c s.votes
  mine : Mine me s
  rt : RT s
  own : OQ me s

theorem handleInput_Mid (hc : c.self = some me) {s : NodeState} (i : Input) (hi : i.notFuture s)
    (hE : ∀ v peer, i = .vote v peer → v.val ≠ me) (h : Mid c me s) : Mid c me (handleInput c s i) := by
  have hsub : ∀ o ∈ s.out, o ∈ (handleInput c s i).out := by
    obtain ⟨new, e⟩ := (handleInput_N hc i h.n.rebase).ext
    intro o ho; rw [e]; exact List.mem_append_left _ ho
  refine ⟨handleInput_G i hi h.g, handleInput_N hc i h.n, ?_, ?_, handleInput_RT i hi h.rt,
    handleInput_OQ hc i h.own⟩
  · exact (handleInput_X (A := fun _ _ _ => True) i (fun _ _ _ => trivial) (HExt.refl c _ _)).wf h.wf
  · refine h.mine.ext (c := c) ?_ hsub
    refine handleInput_X i ?_ (HExt.refl c _ _)
    intro v peer hv
    exact ⟨rfl, rfl, fun e => absurd e (hE v peer hv)⟩

/-- **the head of the queue is handled**: the node's own vote is recorded -/
theorem pop_Mid (hc : c.self = some me) (hlt : me < c.n) {s : NodeState} {m : Internal} {rest : List Internal}
    (hq : s.queue = m :: rest) (h : Mid c me s) :
    Mid c me (handleInternal c { s with queue := rest } m) := by
  have hn0 : NI me [] s.round (m :: rest) s.out := by
    have h0 : NI me [] s.round s.queue s.out := h.n
    rw [hq] at h0; exact h0
  have hn' : N me [] { s with queue := rest } := hn0.pop
  have hnr : N me s.out { s with queue := rest } := hn0.rebase.pop
  have hsub : ∀ o ∈ s.out, o ∈ (handleInternal c { s with queue := rest } m).out := by
    obtain ⟨new, e⟩ := (handleInternal_N hc m hnr).ext
    intro o ho; rw [e]; exact List.mem_append_left _ ho
  have hg' : G { s with queue := rest } := h.g
  have hrt' : RT { s with queue := rest } := h.rt
  have hmine' : Mine me { s with queue := rest } := h.mine
  refine ⟨handleInternal_G m hg', handleInternal_N hc m hn', ?_, ?_, handleInternal_RT m hrt', ?_⟩
  · exact (handleInternal_X (A := fun _ _ _ => True) (s := { s with queue := rest }) m
      (fun _ _ => trivial) (HExt.refl c _ _)).wf h.wf
  · refine hmine'.ext (c := c) ?_ hsub
    refine handleInternal_X (s := { s with queue := rest }) m ?_ (HExt.refl c _ _)
    intro v hv
    subst hv
    exact ⟨rfl, rfl, fun _ => (hn0.qi v (List.mem_cons_self ..)).2.2⟩
  · cases m with
    | proposal p =>
      apply handleInternal_OQ hc
      intro t r b hm
      rcases h.own t r b hm with h1 | h1
      · exact Or.inl h1
      · rw [hq] at h1
        rcases List.mem_cons.1 h1 with e | e
        · cases e
        · exact Or.inr e
    | part x =>
      apply handleInternal_OQ hc
      intro t r b hm
      rcases h.own t r b hm with h1 | h1
      · exact Or.inl h1
      · rw [hq] at h1
        rcases List.mem_cons.1 h1 with e | e
        · cases e
        · exact Or.inr e
    | vote v =>
      unfold handleInternal
      apply addVote_OQ_of hc v 0
      intro t r b hm
      have hm' : Output.signVote t r b ∈ s.out := hm
      rcases h.own t r b hm' with h1 | h1
      · exact Or.inl ((HExt.addVote c (fun _ _ _ => True) _ v 0 trivial).has h1)
      · rw [hq] at h1
        rcases List.mem_cons.1 h1 with e | e
        · left
          cases e
          have hr : r ≤ s.round := h.n.a4 t r b hm'
          have hle := h.rt.le
          have ht : (s.votes.getVoteSet (r : Int) t).isSome = true := h.rt.trk r (by omega) t
          have ho : s.votes.only (r : Int) t b me := by
            intro vs hg k hk
            have hk' : Output.signVote t r k ∈ s.out := h.mine r t k ⟨vs, hg, hk⟩
            cases t with
            | prevote =>
              have := h.g.uniq _ hk' _ hm' 4 rfl rfl rfl
              cases this; rfl
            | precommit =>
              have := h.g.uniq _ hk' _ hm' 6 rfl rfl rfl
              cases this; rfl
          exact HVS.addVote_records (c := c) h.wf ⟨t, r, b, me, true, me, me⟩ 0 ⟨hlt, rfl, rfl, rfl⟩ ht ho
        · exact Or.inr e

theorem drain_Mid (hc : c.self = some me) (hlt : me < c.n) (fuel : Nat) {s : NodeState} (h : Mid c me s) :
    Mid c me (drain c fuel s) := by
  induction fuel generalizing s with
  | zero => unfold drain; exact h
  | succ n ih =>
    by_cases h1 : s.halted = true ∨ s.decided.isSome = true
    · rw [drain_succ_stop n s (Or.inl h1)]; exact h
    · cases hq : s.queue with
      | nil => rw [drain_succ_stop n s (Or.inr hq)]; exact h
      | cons m rest =>
        rw [drain_succ_cons n s m rest h1 hq]
        exact ih (pop_Mid hc hlt hq h)

/-- **one input of the receive routine** (not a future-round timeout, not a vote carrying the node's
own index) keeps: every vote the node signed is recorded or still queued -/
theorem step_Mid (hc : c.self = some me) (hlt : me < c.n) {s : NodeState} (i : Input) (hi : i.notFuture s)
    (hE : ∀ v peer, i = .vote v peer → v.val ≠ me) (h : Mid c me s) : Mid c me (step c s i) := by
  unfold step; split
  · exact h
  · exact drain_Mid hc hlt _ (handleInput_Mid hc i hi hE h)

end Tmv.Cons
