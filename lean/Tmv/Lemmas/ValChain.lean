import Tmv.Lemmas.ValStore
/-! The chain + store system of C08 (`Sys`), its events (blocks with update batches, prunes), the
recorded set in force at every height (`truth`, ghost), and the invariant that makes
`LoadValidators` exact on the retained range. -/
namespace Tmv.ValStore
open Tmv.ValSet

/-- height of the next block (`InitialHeight` for the first one) -/
def blockHeight (st : State) : Int :=
  if st.lastBlockHeight = 0 then st.initialHeight else st.lastBlockHeight + 1

/-- the highest height a validator set is known for: `NextValidators` is for `blockHeight + 1` -/
def tip (st : State) : Int := blockHeight st + 1

structure Sys where
  db : DB
  st : State
  /-- ghost: the set in force at each height, as the chain computed it -/
  truth : Int → Option VSet
  /-- lowest retained height -/
  base : Int
  /-- ghost: no `Rollback` so far (then no record exists above the tip) -/
  clean : Bool

inductive Ev
  | block (ch : List Val)
  | prune (frm to : Int)
  | rollback

/-- the first `Save` of a start state on an empty database; the recorded sets are the state's
`Validators` (initial height) and `NextValidators` (initial height + 1) -/
def Sys.ofInitial (ih : Int) (st : State) : Option Sys :=
  if st.validators.vals = [] then none else   -- a start without validators is out of scope
  match save DB.empty st with
  | none => none
  | some db =>
    some ⟨db, st, fun k => if k = ih then some st.validators
                           else if k = ih + 1 then some st.nextValidators else none, ih, true⟩

/-- genesis: `MakeGenesisState` + `Save` on an empty database -/
def Sys.init (ih : Int) (valz : List Val) : Option Sys :=
  match genesisState ih valz with
  | .error _ => none
  | .ok st => Sys.ofInitial ih st

/-- genesis through the node's handshake: `MakeGenesisState`, then `Handshaker.ReplayBlocks` with an
application whose InitChain returns the validator list `iv` (possibly empty), then `Save` -/
def Sys.initHandshake (ih : Int) (valz iv : List Val) : Option Sys :=
  match genesisState ih valz with
  | .error _ => none
  | .ok st =>
    match handshakeInit st valz iv with
    | .ok st' => Sys.ofInitial ih st'
    | _ => none

def Sys.step (s : Sys) : Ev → Sys
  | .block ch =>
    match updateState s.st (blockHeight s.st) ch with
    | .ok st' =>
      match save s.db st' with
      | some db' =>
        ⟨db', st', fun k => if k = blockHeight s.st + 2 then some st'.nextValidators else s.truth k, s.base, s.clean⟩
      | none => s
    | _ => s
  | .prune a b =>
    let r := pruneStates s.db a b
    ⟨r.1, s.st, s.truth,
      if r.2 = .errArgs ∨ r.2 = .errNoVals ∨ r.2 = .errNoParams then s.base
      else if s.base ≤ b then b else s.base, s.clean⟩
  | .rollback =>
    -- `state.Rollback` with the block store at the state's height; the recorded history is kept
    -- (the rolled-back block may be re-applied with other updates later)
    match rollback s.db s.st with
    | .ok db' st' => ⟨db', st', s.truth, s.base, false⟩
    | _ => s

def Sys.run (s : Sys) (evs : List Ev) : Sys := evs.foldl Sys.step s

/-! ### invariant -/

theorem lsf_eq (h c : Int) (hh : 0 ≤ h) :
    lastStoredHeightFor h c = if h - h % 100000 ≥ c then h - h % 100000 else c := by
  unfold lastStoredHeightFor
  simp only [interval_eq, Int.tmod_eq_emod_of_nonneg hh]

/-- what a record at a retained height `h` guarantees -/
structure Good (t : Tbl Info) (rec : Int → Option VSet) (h : Int) (info : Info) : Prop where
  stored : ∀ p, info.set = some p → rec h = some p ∧ Full p
  pointer : info.set = none →
    lastStoredHeightFor h info.lhc < h ∧
    ∃ i2 p2 v, t.get (lastStoredHeightFor h info.lhc) = some i2 ∧ i2.set = some p2 ∧ Full p2 ∧
      incrTimes (h - lastStoredHeightFor h info.lhc).toNat p2 = some v ∧ rec h = some v

/-- structural facts about every record present in the table -/
structure GRec (t : Tbl Info) (top : Int) (k : Int) (info : Info) : Prop where
  pos : 1 ≤ k
  lhc_le : info.lhc ≤ k
  set_iff : info.set.isSome ↔ (k = info.lhc ∨ k % 100000 = 0)
  mono : ∀ k2 i2, k ≤ k2 → k2 ≤ top → t.get k2 = some i2 →
    info.lhc ≤ i2.lhc ∧ (i2.lhc ≤ k → info.lhc = i2.lhc)

structure Inv (s : Sys) : Prop where
  base_pos : 1 ≤ s.base
  base_le : s.base ≤ tip s.st
  ih_pos : 1 ≤ s.st.initialHeight
  lbh_nonneg : 0 ≤ s.st.lastBlockHeight
  next_full : Full s.st.nextValidators
  rec_tip : s.truth (tip s.st) = some s.st.nextValidators
  lhvc_tip : ∀ info, s.db.vals.get (tip s.st) = some info → info.lhc = s.st.lhvc
  good : ∀ h, s.base ≤ h → h ≤ tip s.st → ∃ info, s.db.vals.get h = some info ∧ Good s.db.vals s.truth h info
  grec : ∀ k info, k ≤ tip s.st → s.db.vals.get k = some info → GRec s.db.vals (tip s.st) k info
  above : s.clean = true → ∀ k, tip s.st < k → s.db.vals.get k = none
  cur_full : Full s.st.validators
  last_full : s.st.lastBlockHeight ≠ 0 → Full s.st.lastValidators
  cur_truth : s.base ≤ tip s.st - 1 → s.truth (tip s.st - 1) = some s.st.validators
  last_truth : s.st.lastBlockHeight ≠ 0 → s.base ≤ tip s.st - 2 →
    s.truth (tip s.st - 2) = some s.st.lastValidators

theorem blockHeight_pos (s : Sys) (hi : Inv s) : 1 ≤ blockHeight s.st := by
  unfold blockHeight
  have := hi.ih_pos; have := hi.lbh_nonneg
  split <;> omega

/-- the invariant gives exactness of `LoadValidators` on the retained range -/
theorem load_of_inv (s : Sys) (hi : Inv s) (h : Int) (h1 : s.base ≤ h) (h2 : h ≤ tip s.st) :
    ∃ v, s.truth h = some v ∧ loadValidators s.db.vals h = .ok v := by
  obtain ⟨info, hget, hg⟩ := hi.good h h1 h2
  unfold loadValidators
  rw [hget]
  simp only
  cases hs : info.set with
  | some p =>
    obtain ⟨ht, hf⟩ := hg.stored p hs
    exact ⟨p, ht, by simp [fromProto_full p hf]⟩
  | none =>
    obtain ⟨_, i2, p2, v, hg2, hs2, hf2, hinc, ht⟩ := hg.pointer hs
    refine ⟨v, ht, ?_⟩
    simp only [hg2, hs2, fromProto_full p2 hf2, hinc]

/-! ### block step -/

theorem updateState_ok (st st' : State) (H : Int) (ch : List Val) (h : updateState st H ch = .ok st') :
    ∃ nv nv' c, increment nv 1 = some nv' ∧
      st' = { st with lastBlockHeight := H, nextValidators := nv', validators := st.nextValidators,
                      lastValidators := st.validators, lhvc := c } ∧
      (c = H + 1 + 1 ∨ (c = st.lhvc ∧ nv = st.nextValidators)) := by
  unfold updateState at h
  simp only at h
  split at h
  · cases h
  · rename_i hu
    split at h
    · cases h
    · rename_i nv' hinc
      simp only [StepRes.ok.injEq] at h
      refine ⟨_, nv', _, hinc, h.symm, ?_⟩
      by_cases hch : ch ≠ []
      · left; simp [hch]
      · right; simp [hch]

theorem save_ok (db db' : DB) (st : State) (hl : 1 ≤ st.lastBlockHeight) (hf : Full st.nextValidators)
    (h : save db st = some db') :
    st.lhvc ≤ st.lastBlockHeight + 2 ∧
    db'.vals = db.vals.put (st.lastBlockHeight + 2)
      ⟨st.lhvc, if st.lastBlockHeight + 2 = st.lhvc ∨ (st.lastBlockHeight + 2) % 100000 = 0
                then some st.nextValidators else none⟩ := by
  unfold save at h
  have hne : ¬ st.lastBlockHeight + 1 = 1 := by omega
  simp only [hne, if_false] at h
  unfold saveValidatorsInfo at h
  have e1 : st.lastBlockHeight + 1 + 1 = st.lastBlockHeight + 2 := by omega
  rw [e1] at h
  have hnn : 0 ≤ st.lastBlockHeight + 2 := by omega
  simp only [interval_eq, Int.tmod_eq_emod_of_nonneg hnn, toProto_full _ hf] at h
  by_cases hc : st.lhvc > st.lastBlockHeight + 2
  · simp [hc] at h
  · simp only [hc, if_false] at h
    refine ⟨by omega, ?_⟩
    by_cases hcond : st.lastBlockHeight + 2 = st.lhvc ∨ (st.lastBlockHeight + 2) % 100000 = 0
    · simp only [hcond, if_true, Option.some.injEq] at h ⊢
      rw [← h]
    · simp only [hcond, if_false, Option.some.injEq] at h ⊢
      rw [← h]

theorem incrTimes_one (p v : VSet) (h : increment p 1 = some v) : incrTimes 1 p = some v := by
  simp [incrTimes, h]

/-- the pointer record written for height `tip+1` when nothing changed and it is no checkpoint -/
theorem good_new (s : Sys) (hi : Inv s) (nv' : VSet)
    (hinc : increment s.st.nextValidators 1 = some nv')
    (hn1 : ¬ tip s.st + 1 = s.st.lhvc) (hn2 : ¬ (tip s.st + 1) % 100000 = 0) :
    Good (s.db.vals.put (tip s.st + 1) ⟨s.st.lhvc, none⟩)
      (fun k => if k = tip s.st + 1 then some nv' else s.truth k) (tip s.st + 1) ⟨s.st.lhvc, none⟩ := by
  have hT : 2 ≤ tip s.st := by have := blockHeight_pos s hi; unfold tip; omega
  obtain ⟨infoT, hgetT, hgT⟩ := hi.good (tip s.st) hi.base_le (Int.le_refl _)
  have hc : infoT.lhc = s.st.lhvc := hi.lhvc_tip _ hgetT
  have hG := hi.grec _ _ (Int.le_refl _) hgetT
  have hcle : s.st.lhvc ≤ tip s.st := hc ▸ hG.lhc_le
  constructor
  · intro p hp; cases hp
  · intro _
    simp only
    generalize hTT : tip s.st = T at *
    generalize hcc : s.st.lhvc = c at *
    have hls' := lsf_eq (T + 1) c (by omega)
    cases hset : infoT.set with
    | some p =>
      obtain ⟨htr, hfull⟩ := hgT.stored p hset
      have hp : p = s.st.nextValidators := by
        have := hi.rec_tip; rw [hTT, htr] at this; exact Option.some.inj this
      have hiff := hG.set_iff.mp (by simp [hset])
      rw [hc] at hiff
      have hlsT : lastStoredHeightFor (T + 1) c = T := by
        rw [hls']; split <;> omega
      rw [hlsT]
      refine ⟨by omega, infoT, p, nv', ?_, hset, hfull, ?_, by simp⟩
      · rw [Tbl.get_put]; have : ¬ T = T + 1 := by omega
        simp [this, hgetT]
      · have : (T + 1 - T).toNat = 1 := by omega
        rw [this]; exact incrTimes_one _ _ (hp ▸ hinc)
    | none =>
      obtain ⟨hlt, i2, p2, v, hg2, hs2, hf2, hinc2, htr⟩ := hgT.pointer hset
      rw [hc] at hlt hg2 hinc2
      have hv : v = s.st.nextValidators := by
        have := hi.rec_tip; rw [hTT, htr] at this; exact Option.some.inj this
      have hlsT := lsf_eq T c (by omega)
      have hls : lastStoredHeightFor (T + 1) c = lastStoredHeightFor T c := by
        rw [hls', hlsT]; split <;> split <;> omega
      rw [hls]
      refine ⟨by omega, i2, p2, nv', ?_, hs2, hf2, ?_, by simp⟩
      · rw [Tbl.get_put]; have : ¬ lastStoredHeightFor T c = T + 1 := by omega
        simp [this, hg2]
      · have : (T + 1 - lastStoredHeightFor T c).toNat = (T - lastStoredHeightFor T c).toNat + 1 := by omega
        rw [this, incrTimes_succ, hinc2]
        simp [hv, hinc]

theorem Good.frame {t t' : Tbl Info} {rec rec' : Int → Option VSet} {h : Int} {info : Info}
    (hg : Good t rec h info) (ht : ∀ k, k ≤ h → t'.get k = t.get k) (hr : rec' h = rec h) :
    Good t' rec' h info := by
  constructor
  · intro p hp; rw [hr]; exact hg.stored p hp
  · intro hn
    obtain ⟨hlt, i2, p2, v, h1, h2, h3, h4, h5⟩ := hg.pointer hn
    exact ⟨hlt, i2, p2, v, by rw [ht _ (by omega)]; exact h1, h2, h3, h4, by rw [hr]; exact h5⟩

theorem inv_block (s : Sys) (hi : Inv s) (ch : List Val) : Inv (s.step (.block ch)) := by
  show Inv (match updateState s.st (blockHeight s.st) ch with
    | .ok st' =>
      match save s.db st' with
      | some db' =>
        ⟨db', st', fun k => if k = blockHeight s.st + 2 then some st'.nextValidators else s.truth k, s.base, s.clean⟩
      | none => s
    | _ => s)
  cases hu : updateState s.st (blockHeight s.st) ch with
  | err e => exact hi
  | panic => exact hi
  | ok st' =>
    simp only
    cases hs : save s.db st' with
    | none => exact hi
    | some db' =>
      simp only
      have hH := blockHeight_pos s hi
      obtain ⟨nv, nv', c, hinc, hst', hcc⟩ := updateState_ok _ _ _ _ hu
      have hfull' : Full nv' := increment_full _ _ _ hinc
      have hlbh : st'.lastBlockHeight = blockHeight s.st := by rw [hst']
      have hnext : st'.nextValidators = nv' := by rw [hst']
      have hlhvc : st'.lhvc = c := by rw [hst']
      have hih : st'.initialHeight = s.st.initialHeight := by rw [hst']
      obtain ⟨hcle, hdb⟩ := save_ok s.db db' st' (by omega) (hnext ▸ hfull') hs
      rw [hlbh, hlhvc, hnext] at hdb
      rw [hlbh, hlhvc] at hcle
      have htip' : tip st' = tip s.st + 1 := by
        unfold tip blockHeight; rw [hlbh]
        have : ¬ blockHeight s.st = 0 := by omega
        simp only [this, if_false]
        unfold blockHeight; omega
      have hT : tip s.st = blockHeight s.st + 1 := rfl
      have hkey : blockHeight s.st + 2 = tip s.st + 1 := by omega
      rw [hkey] at hdb hcle
      have hgetlow : ∀ k, k ≤ tip s.st → db'.vals.get k = s.db.vals.get k := by
        intro k hk; rw [hdb, Tbl.get_put]
        have : ¬ k = tip s.st + 1 := by omega
        simp [this]
      have hgetnew : db'.vals.get (tip s.st + 1) = some ⟨c, if tip s.st + 1 = c ∨ (tip s.st + 1) % 100000 = 0 then some nv' else none⟩ := by
        rw [hdb, Tbl.get_put]; simp
      -- the record at the old tip
      obtain ⟨infoT, hgetT, hgT⟩ := hi.good (tip s.st) hi.base_le (Int.le_refl _)
      have hcT : infoT.lhc = s.st.lhvc := hi.lhvc_tip _ hgetT
      have hGT := hi.grec _ _ (Int.le_refl _) hgetT
      have hval : st'.validators = s.st.nextValidators := by rw [hst']
      have hlast : st'.lastValidators = s.st.validators := by rw [hst']
      refine ⟨hi.base_pos, by show s.base ≤ tip st'; rw [htip']; have := hi.base_le; omega,
        hih ▸ hi.ih_pos, by show 0 ≤ st'.lastBlockHeight; omega,
        hnext ▸ hfull', ?_, ?_, ?_, ?_, ?_, by show Full st'.validators; rw [hval]; exact hi.next_full,
        by intro _; show Full st'.lastValidators; rw [hlast]; exact hi.cur_full, ?_, ?_⟩
      · -- rec_tip
        rw [htip', hnext]; simp [hkey]
      · -- lhvc_tip
        intro info hinfo
        rw [htip', hgetnew] at hinfo
        rw [hlhvc]; cases hinfo; rfl
      · -- good
        intro h h1 h2
        rw [htip'] at h2
        by_cases hh : h = tip s.st + 1
        · subst hh
          refine ⟨_, hgetnew, ?_⟩
          by_cases hcond : tip s.st + 1 = c ∨ (tip s.st + 1) % 100000 = 0
          · simp only [hcond, if_true]
            constructor
            · intro p hp; cases hp
              exact ⟨by simp [hkey, hnext], hfull'⟩
            · intro hn; cases hn
          · simp only [hcond, if_false]
            have hc2 : c = s.st.lhvc ∧ nv = s.st.nextValidators := by
              rcases hcc with hc1 | hc2
              · exfalso; apply hcond; left; omega
              · exact hc2
            obtain ⟨hc3, hnv⟩ := hc2
            have := good_new s hi nv' (hnv ▸ hinc) (by rw [← hc3]; exact fun e => hcond (Or.inl e))
              (fun e => hcond (Or.inr e))
            have hdb2 : db'.vals = s.db.vals.put (tip s.st + 1) ⟨c, none⟩ := by
              rw [hdb]; simp [hcond]
            rw [hdb2, hkey, hnext, hc3]
            exact this
        · have hle : h ≤ tip s.st := by omega
          obtain ⟨info, hget, hg⟩ := hi.good h h1 hle
          refine ⟨info, by rw [hgetlow h hle]; exact hget, ?_⟩
          apply hg.frame
          · intro k hk; exact hgetlow k (by omega)
          · have : ¬ h = blockHeight s.st + 2 := by omega
            simp [this]
      · -- grec
        intro k info hkt hk
        have hkt' : k ≤ tip s.st + 1 := by rw [← htip']; exact hkt
        show GRec db'.vals (tip st') k info
        rw [htip']
        by_cases hh : k = tip s.st + 1
        · subst hh
          rw [hgetnew] at hk
          have hinfo : info.lhc = c := by cases hk; rfl
          have hT2 : 2 ≤ tip s.st := by omega
          constructor
          · omega
          · rw [hinfo]; exact hcle
          · cases hk
            by_cases hcond : tip s.st + 1 = c ∨ (tip s.st + 1) % 100000 = 0
            · simp [hcond]
            · simp [hcond]
          · intro k2 i2 hk2 hk2t hget2
            have hk2e : k2 = tip s.st + 1 := by omega
            subst hk2e; rw [hgetnew] at hget2
            have : i2.lhc = c := by cases hget2; rfl
            rw [hinfo, this]; exact ⟨Int.le_refl _, fun _ => rfl⟩
        · have hkle : k ≤ tip s.st := by omega
          rw [hgetlow k hkle] at hk
          have hG := hi.grec k info hkle hk
          refine ⟨hG.pos, hG.lhc_le, hG.set_iff, ?_⟩
          intro k2 i2 hk2 hk2t hget2
          by_cases hk2e : k2 = tip s.st + 1
          · subst hk2e; rw [hgetnew] at hget2
            have hi2 : i2.lhc = c := by cases hget2; rfl
            rw [hi2]
            rcases hcc with hc1 | ⟨hc2, _⟩
            · have := hG.lhc_le
              constructor
              · omega
              · intro hle; omega
            · have := hG.mono (tip s.st) infoT hkle (Int.le_refl _) hgetT
              rw [hcT, ← hc2] at this
              exact this
          · have hk2le : k2 ≤ tip s.st := by omega
            rw [hgetlow k2 hk2le] at hget2
            exact hG.mono k2 i2 hk2 hk2le hget2
      · -- above
        intro hcl k hk
        have hk' : tip st' < k := hk
        rw [htip'] at hk'
        show db'.vals.get k = none
        rw [hdb, Tbl.get_put]
        have : ¬ k = tip s.st + 1 := by omega
        simp only [this, if_false]
        exact hi.above hcl k (by omega)
      · -- cur_truth
        intro _
        show (if tip st' - 1 = blockHeight s.st + 2 then _ else s.truth (tip st' - 1)) = some st'.validators
        rw [htip', hval]
        have : ¬ tip s.st + 1 - 1 = blockHeight s.st + 2 := by omega
        simp only [this, if_false]
        have : tip s.st + 1 - 1 = tip s.st := by omega
        rw [this]; exact hi.rec_tip
      · -- last_truth
        intro _ hb
        have hb' : s.base ≤ tip st' - 2 := hb
        rw [htip'] at hb'
        show (if tip st' - 2 = blockHeight s.st + 2 then _ else s.truth (tip st' - 2)) = some st'.lastValidators
        rw [htip', hlast]
        have : ¬ tip s.st + 1 - 2 = blockHeight s.st + 2 := by omega
        simp only [this, if_false]
        have e : tip s.st + 1 - 2 = tip s.st - 1 := by omega
        rw [e]; exact hi.cur_truth (by omega)

/-! ### genesis -/

theorem newValidatorSet_full (valz : List Val) (vs : VSet) (h : newValidatorSet valz = .ok vs)
    (hne : vs.vals ≠ []) : Full vs := by
  unfold newValidatorSet at h
  split at h
  · cases h
  · rename_i s0 hu
    split at h
    · rename_i hv
      subst hv
      simp [updateWithChangeSet] at hu
      cases h
      rw [← hu] at hne
      exact absurd rfl hne
    · split at h
      · rename_i s' hinc
        cases h
        exact increment_full _ _ _ hinc
      · rename_i hinc
        cases h
        unfold increment at hinc
        simp [hne] at hinc

theorem genesisState_ok (ih : Int) (valz : List Val) (st : State) (h : genesisState ih valz = .ok st) :
    ∃ vs, newValidatorSet valz = .ok vs ∧
      st = { initialHeight := ih, lastBlockHeight := 0, lastValidators := VSet.empty, validators := vs,
             nextValidators := (match increment vs 1 with | some s => s | none => vs),
             lhvc := ih, lhpc := ih } := by
  unfold genesisState at h
  split at h
  · cases h
  · split at h
    · cases h
    · rename_i vs hvs
      cases h
      exact ⟨vs, hvs, rfl⟩

/-- what `load_exact` needs from a start state: height 0, last change at the initial height,
and `NextValidators` exactly ONE rotation ahead of `Validators` -/
structure Initial (ih : Int) (st : State) : Prop where
  hih : st.initialHeight = ih
  hlbh : st.lastBlockHeight = 0
  hlhvc : st.lhvc = ih
  hnext : increment st.validators 1 = some st.nextValidators

theorem inv_ofInitial (ih : Int) (hih : 1 ≤ ih) (st : State) (hinit : Initial ih st)
    (hfull0 : st.validators.vals ≠ [] → Full st.validators) (s0 : Sys)
    (h : Sys.ofInitial ih st = some s0) : Inv s0 := by
  unfold Sys.ofInitial at h
  split at h
  · cases h
  · rename_i hne
    have hfull : Full st.validators := hfull0 hne
    have hnxt := hinit.hnext
    have hfulln : Full st.nextValidators := increment_full _ _ _ hnxt
    have hIH := hinit.hih
    have hLBH := hinit.hlbh
    have hC := hinit.hlhvc
    generalize hV : st.validators = vs at *
    generalize hN : st.nextValidators = nxt at *
    split at h
    · cases h
    · rename_i db hsave
      simp only [Option.some.injEq] at h
      subst h
      -- compute the saved table
      unfold save at hsave
      simp only [hLBH, hIH, hV, hN, hC, Int.zero_add, if_true] at hsave
      unfold saveValidatorsInfo at hsave
      have hnn : 0 ≤ ih + 1 := by omega
      simp only [Int.lt_irrefl, gt_iff_lt, if_false, true_or, if_true, toProto_full _ hfull,
        toProto_full _ hfulln, interval_eq, Int.tmod_eq_emod_of_nonneg hnn] at hsave
      have hgt : ¬ ih > ih + 1 := by omega
      have hne1 : ¬ ih + 1 = ih := by omega
      simp only [gt_iff_lt] at hgt
      simp only [hgt, if_false, hne1, false_or] at hsave
      have hdb : db.vals = (Tbl.put (Tbl.put ([] : Tbl Info) ih ⟨ih, some vs⟩) (ih + 1)
          ⟨ih, if (ih + 1) % 100000 = 0 then some nxt else none⟩) := by
        by_cases hc : (ih + 1) % 100000 = 0
        · simp only [hc, if_true, Option.some.injEq] at hsave ⊢
          rw [← hsave]; rfl
        · simp only [hc, if_false, Option.some.injEq] at hsave ⊢
          rw [← hsave]; rfl
      have hget : ∀ k, db.vals.get k =
          if k = ih + 1 then some ⟨ih, if (ih + 1) % 100000 = 0 then some nxt else none⟩
          else if k = ih then some ⟨ih, some vs⟩ else none := by
        intro k
        rw [hdb, Tbl.get_put, Tbl.get_put]
        simp [Tbl.get]
      have htip : tip st = ih + 1 := by
        simp [tip, blockHeight, hLBH, hIH]
      have hgood1 : Good db.vals (fun k => if k = ih then some vs else if k = ih + 1 then some nxt else none)
          (ih + 1) ⟨ih, if (ih + 1) % 100000 = 0 then some nxt else none⟩ := by
        by_cases hc : (ih + 1) % 100000 = 0
        · simp only [hc, if_true]
          constructor
          · intro p hp; cases hp
            exact ⟨by simp [hne1], hfulln⟩
          · intro hn; cases hn
        · simp only [hc, if_false]
          constructor
          · intro p hp; cases hp
          · intro _
            have hls : lastStoredHeightFor (ih + 1) ih = ih := by
              rw [lsf_eq _ _ hnn]; split <;> omega
            simp only [hls]
            refine ⟨by omega, ⟨ih, some vs⟩, vs, nxt, ?_, rfl, hfull, ?_, by simp [hne1]⟩
            · rw [hget]
              have : ¬ ih = ih + 1 := by omega
              simp [this]
            · have : (ih + 1 - ih).toNat = 1 := by omega
              rw [this]; exact incrTimes_one _ _ hnxt
      refine ⟨hih, by show ih ≤ tip st; rw [htip]; omega, by show 1 ≤ st.initialHeight; omega,
        by show 0 ≤ st.lastBlockHeight; omega, by show Full st.nextValidators; rw [hN]; exact hfulln,
        by show (if tip st = ih then _ else _) = _; rw [htip, hN]; simp [hne1], ?_, ?_, ?_, ?_,
        by show Full st.validators; rw [hV]; exact hfull,
        by intro h; exact absurd hLBH h, ?_, by intro h; exact absurd hLBH h⟩
      · intro info hinfo
        show info.lhc = st.lhvc
        have hinfo' : db.vals.get (tip st) = some info := hinfo
        rw [htip, hget] at hinfo'
        simp at hinfo'
        rw [← hinfo', hC]
      · intro k hk1 hk2
        have hk2' : k ≤ tip st := hk2
        rw [htip] at hk2'
        have hk1' : ih ≤ k := hk1
        by_cases hk : k = ih + 1
        · subst hk
          exact ⟨_, by rw [hget]; simp, hgood1⟩
        · have hk' : k = ih := by omega
          subst hk'
          refine ⟨⟨k, some vs⟩, by rw [hget]; simp [hk], ?_⟩
          constructor
          · intro p hp; cases hp; exact ⟨by simp, hfull⟩
          · intro hn; cases hn
      · intro k info _ hk
        have hk : db.vals.get k = some info := hk
        show GRec db.vals (tip st) k info
        rw [hget] at hk
        by_cases hk1 : k = ih + 1
        · subst hk1
          simp at hk
          subst hk
          refine ⟨by omega, by show ih ≤ ih + 1; omega, ?_, ?_⟩
          · by_cases hc : (ih + 1) % 100000 = 0 <;> simp [hc, hne1]
          · intro k2 i2 hk2 _ hg2
            rw [hget] at hg2
            by_cases hk2e : k2 = ih + 1
            · simp [hk2e] at hg2; subst hg2; exact ⟨Int.le_refl _, fun _ => rfl⟩
            · have : ¬ k2 = ih := by omega
              simp [hk2e, this] at hg2
        · by_cases hk0 : k = ih
          · subst hk0
            simp [hk1] at hk
            subst hk
            refine ⟨hih, Int.le_refl _, by simp, ?_⟩
            intro k2 i2 hk2 _ hg2
            rw [hget] at hg2
            by_cases hk2e : k2 = k + 1
            · simp [hk2e] at hg2; subst hg2; exact ⟨Int.le_refl _, fun _ => rfl⟩
            · by_cases hk2f : k2 = k
              · subst hk2f
                simp [hk1] at hg2; subst hg2; exact ⟨Int.le_refl _, fun _ => rfl⟩
              · simp [hk2e, hk2f] at hg2
          · simp [hk1, hk0] at hk
      · intro _ k hk
        have hk' : tip st < k := hk
        rw [htip] at hk'
        show db.vals.get k = none
        rw [hget]
        have h1 : ¬ k = ih + 1 := by omega
        have h2 : ¬ k = ih := by omega
        simp [h1, h2]
      · intro _
        show (if tip st - 1 = ih then _ else _) = some st.validators
        rw [htip, hV]
        have : ih + 1 - 1 = ih := by omega
        simp [this]

theorem initial_of_genesis (ih : Int) (valz : List Val) (st : State)
    (h : genesisState ih valz = .ok st) (hne : st.validators.vals ≠ []) :
    Initial ih st ∧ Full st.validators := by
  obtain ⟨vs, hvs, hst'⟩ := genesisState_ok _ _ _ h
  have hvsne : vs.vals ≠ [] := by rw [hst'] at hne; exact hne
  have hfull : Full vs := newValidatorSet_full _ _ hvs hvsne
  obtain ⟨nxt, hnxt⟩ := increment_isSome vs hvsne
  rw [hnxt] at hst'
  simp only at hst'
  subst hst'
  exact ⟨⟨rfl, rfl, rfl, hnxt⟩, hfull⟩

theorem inv_init (ih : Int) (hih : 1 ≤ ih) (valz : List Val) (s0 : Sys)
    (h : Sys.init ih valz = some s0) : Inv s0 := by
  unfold Sys.init at h
  split at h
  · cases h
  · rename_i st hst
    apply inv_ofInitial ih hih st ?_ ?_ s0 h
    · by_cases hne : st.validators.vals = []
      · unfold Sys.ofInitial at h; simp [hne] at h
      · exact (initial_of_genesis ih valz st hst hne).1
    · intro hne; exact (initial_of_genesis ih valz st hst hne).2

theorem handshakeInit_ok (st st' : State) (gv iv : List Val) (h : handshakeInit st gv iv = .ok st') :
    (iv = [] ∧ st' = st) ∨
    (∃ vs nx, newValidatorSet iv = .ok vs ∧ increment vs 1 = some nx ∧
      st' = { st with validators := vs, nextValidators := nx }) := by
  unfold handshakeInit at h
  split at h
  · split at h
    · cases h
    · rename_i vs hvs
      split at h
      · cases h
      · rename_i nx hnx
        simp only [HsRes.ok.injEq] at h
        exact Or.inr ⟨vs, nx, hvs, hnx, h.symm⟩
  · rename_i hiv
    split at h
    · cases h
    · simp only [HsRes.ok.injEq] at h
      exact Or.inl ⟨by simpa using hiv, h.symm⟩

theorem inv_initHandshake (ih : Int) (hih : 1 ≤ ih) (valz iv : List Val) (s0 : Sys)
    (h : Sys.initHandshake ih valz iv = some s0) : Inv s0 := by
  unfold Sys.initHandshake at h
  split at h
  · cases h
  · rename_i st hst
    split at h
    · rename_i st' hhs
      rcases handshakeInit_ok _ _ _ _ hhs with ⟨_, e⟩ | ⟨vs, nx, hvs, hnx, e⟩
      · subst e
        apply inv_ofInitial ih hih st' ?_ ?_ s0 h
        · by_cases hne : st'.validators.vals = []
          · unfold Sys.ofInitial at h; simp [hne] at h
          · exact (initial_of_genesis ih valz st' hst hne).1
        · intro hne; exact (initial_of_genesis ih valz st' hst hne).2
      · obtain ⟨vs0, _, hst0⟩ := genesisState_ok _ _ _ hst
        apply inv_ofInitial ih hih st' ?_ ?_ s0 h
        · subst e; subst hst0
          exact ⟨rfl, rfl, rfl, hnx⟩
        · intro hne
          subst e
          exact newValidatorSet_full _ _ hvs hne
    · cases h

end Tmv.ValStore
