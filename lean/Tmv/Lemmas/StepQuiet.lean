import Tmv.Lemmas.VoteReachRun
/-! Round-monotonicity of a node across one input of its receive routine, and what a step that is
"quiet" (same round, same step, nothing emitted) can change: a relational invariant `Quiet s s'`
("`s'` is a later stage of `s`") kept by every function of the node model, hence by `Cons.step` and
`Cons.run`. Used by the fixpoint argument of the gossip closure for proposals and block parts
(Lemmas/SyncClosureMsgs.lean). -/
namespace Tmv.Cons

/-- only the initial state is in step `NewHeight` -/
def NHI (s : NodeState) : Prop := s.step = .newHeight → s.round = 0

/-- `s'` is a later stage of `s` -/
structure Quiet (s s' : NodeState) : Prop where
  /-- the round never decreases -/
  round : s.round ≤ s'.round
  /-- outputs are only appended -/
  out : s.out.length ≤ s'.out.length
  /-- halted and decided are absorbing -/
  halted : s.halted = true → s'.halted = true
  decided : s.decided.isSome = true → s'.decided.isSome = true
  /-- a recorded +2/3 majority is never replaced -/
  maj : ∀ (r : Int) (t : VType) (x : Bid), maj23Of (s.votes.getVoteSet r t) = some x →
    maj23Of (s'.votes.getVoteSet r t) = some x
  /-- within one round: the proposer-priority count is fixed, the step only moves forward, an accepted
  proposal stays -/
  sameRound : s'.round = s.round →
    s'.valRound = s.valRound ∧ s.step.rank ≤ s'.step.rank ∧ (∀ p, s.proposal = some p → s'.proposal = some p)
  /-- within one round and step and with nothing emitted, a known part-set header stays (and a complete
  part set stays complete) unless it is replaced by the header of the round's polka -/
  quiet : s'.round = s.round → s'.step.rank = s.step.rank → s'.out.length = s.out.length →
    ∀ h, s.proposalParts = some h →
      (s'.proposalParts = some h ∧ (s.partsDone = true → s'.partsDone = true)) ∨
      (∃ x, x ≠ h ∧ maj23Of (s'.votes.prevotes (s'.round : Int)) = some (some x) ∧ s'.proposalParts = some x)

theorem Quiet.refl (s : NodeState) : Quiet s s :=
  ⟨Nat.le_refl _, Nat.le_refl _, id, id, fun _ _ _ h => h,
   fun _ => ⟨rfl, Nat.le_refl _, fun _ e => e⟩, fun _ _ _ _ e => Or.inl ⟨e, id⟩⟩

theorem Quiet.trans {a b d : NodeState} (h₁ : Quiet a b) (h₂ : Quiet b d) : Quiet a d := by
  refine ⟨Nat.le_trans h₁.round h₂.round, Nat.le_trans h₁.out h₂.out, fun h => h₂.halted (h₁.halted h),
    fun h => h₂.decided (h₁.decided h), fun r t x h => h₂.maj r t x (h₁.maj r t x h), ?_, ?_⟩
  · intro hr
    have hr1 : b.round = a.round := Nat.le_antisymm (hr ▸ h₂.round) h₁.round
    have hr2 : d.round = b.round := hr.trans hr1.symm
    obtain ⟨v1, s1, p1⟩ := h₁.sameRound hr1
    obtain ⟨v2, s2, p2⟩ := h₂.sameRound hr2
    exact ⟨v2.trans v1, Nat.le_trans s1 s2, fun p hp => p2 p (p1 p hp)⟩
  · intro hr hs ho h hh
    have hr1 : b.round = a.round := Nat.le_antisymm (hr ▸ h₂.round) h₁.round
    have hr2 : d.round = b.round := hr.trans hr1.symm
    obtain ⟨_, s1, _⟩ := h₁.sameRound hr1
    obtain ⟨_, s2, _⟩ := h₂.sameRound hr2
    have hs1 : b.step.rank = a.step.rank := by omega
    have hs2 : d.step.rank = b.step.rank := by omega
    have ho1 : b.out.length = a.out.length := by have := h₁.out; have := h₂.out; omega
    have ho2 : d.out.length = b.out.length := by omega
    rcases h₁.quiet hr1 hs1 ho1 h hh with ⟨e1, d1⟩ | ⟨x, hx, mx, ex⟩
    · rcases h₂.quiet hr2 hs2 ho2 h e1 with ⟨e2, d2⟩ | ⟨y, hy, my, ey⟩
      · exact Or.inl ⟨e2, fun hd => d2 (d1 hd)⟩
      · exact Or.inr ⟨y, hy, my, ey⟩
    · have mx' : maj23Of (d.votes.prevotes (d.round : Int)) = some (some x) := by
        rw [hr2]; exact h₂.maj _ _ _ mx
      rcases h₂.quiet hr2 hs2 ho2 x ex with ⟨e2, _⟩ | ⟨y, hy, my, _⟩
      · exact Or.inr ⟨x, hx, mx', e2⟩
      · rw [mx'] at my
        cases my
        exact absurd rfl hy

theorem NHI.init : NHI NodeState.init := fun _ => rfl

/-! ### the working form: `Quiet s0 · ∧ NHI ·` on the fields it reads -/

structure QI (s0 : NodeState) (r : Nat) (st : Step) (ol : Nat) (hl : Bool) (d : Option (Nat × Int)) (vr : Nat)
    (p : Option Proposal) (pp : Option Nat) (pd : Bool) (v : HVS) : Prop where
  round : s0.round ≤ r
  out : s0.out.length ≤ ol
  halted : s0.halted = true → hl = true
  decided : s0.decided.isSome = true → d.isSome = true
  maj : ∀ (r' : Int) (t : VType) (x : Bid), maj23Of (s0.votes.getVoteSet r' t) = some x →
    maj23Of (v.getVoteSet r' t) = some x
  sameRound : r = s0.round →
    vr = s0.valRound ∧ s0.step.rank ≤ st.rank ∧ (∀ q, s0.proposal = some q → p = some q)
  quiet : r = s0.round → st.rank = s0.step.rank → ol = s0.out.length →
    ∀ h, s0.proposalParts = some h →
      (pp = some h ∧ (s0.partsDone = true → pd = true)) ∨
      (∃ x, x ≠ h ∧ maj23Of (v.prevotes (r : Int)) = some (some x) ∧ pp = some x)
  nhi : st = .newHeight → r = 0

abbrev QN (s0 s : NodeState) : Prop :=
  QI s0 s.round s.step s.out.length s.halted s.decided s.valRound s.proposal s.proposalParts s.partsDone s.votes

theorem QN.quiet' {s0 s : NodeState} (h : QN s0 s) : Quiet s0 s :=
  ⟨h.round, h.out, h.halted, h.decided, h.maj, h.sameRound, h.quiet⟩

theorem QN.nhi' {s0 s : NodeState} (h : QN s0 s) : NHI s := h.nhi

theorem QN.mk' {s0 s : NodeState} (h : Quiet s0 s) (hn : NHI s) : QN s0 s :=
  ⟨h.round, h.out, h.halted, h.decided, h.maj, h.sameRound, h.quiet, hn⟩

theorem QN.refl {s : NodeState} (hn : NHI s) : QN s s := QN.mk' (Quiet.refl s) hn

theorem hasHeader_false_ne {pp : Option Nat} {x : Nat} (h : (!hasHeader pp (some x)) = true) : pp ≠ some x := by
  intro e; subst e; simp [hasHeader] at h

theorem emit_halted_SQ (s : NodeState) (o : Output) : (emit s o).halted = s.halted := by
  unfold emit; split <;> rfl

theorem emit_out_le_SQ (s : NodeState) (o : Output) : s.out.length ≤ (emit s o).out.length := by
  unfold emit; split
  · exact Nat.le_refl _
  · simp

theorem panicWith_out_le_SQ (s : NodeState) (w : String) : s.out.length ≤ (panicWith s w).out.length := by
  unfold panicWith; split
  · exact Nat.le_refl _
  · simp

theorem sign_halted_SQ {c : Cfg} {s s' : NodeState} {r cd : Nat} {p : Payload} (h : sign c s r cd p = some s') :
    s'.halted = s.halted := (sign_out h).2

theorem signAddVote_halted_SQ (c : Cfg) (s : NodeState) (t : VType) (b : Bid) :
    (signAddVote c s t b).halted = s.halted := by
  unfold signAddVote
  repeat' split
  all_goals first | rfl | skip
  rename_i s' hs
  show (emit s' _).halted = _
  rw [emit_halted_SQ, sign_halted_SQ hs]

theorem decideProposal_halted_SQ (c : Cfg) (s : NodeState) (r me : Nat) :
    (decideProposal c s r me).halted = s.halted := by
  unfold decideProposal
  simp only []
  split
  · rename_i s' hs
    show (emit s' _).halted = _
    rw [emit_halted_SQ, sign_halted_SQ hs]
  · rfl

theorem doPrevote_halted_SQ (c : Cfg) (s : NodeState) : (doPrevote c s).halted = s.halted := by
  unfold doPrevote
  repeat' split
  all_goals exact signAddVote_halted_SQ ..

section
variable {s0 : NodeState} {r : Nat} {st : Step} {ol : Nat} {hl : Bool} {d : Option (Nat × Int)} {vr : Nat}
  {p : Option Proposal} {pp : Option Nat} {pd : Bool} {v : HVS}

/-- more outputs, possibly halted -/
theorem QI.grow (h : QI s0 r st ol hl d vr p pp pd v) {ol' : Nat} {hl' : Bool} (ho : ol ≤ ol')
    (hh : hl = true → hl' = true) : QI s0 r st ol' hl' d vr p pp pd v := by
  refine ⟨h.round, Nat.le_trans h.out ho, fun e => hh (h.halted e), h.decided, h.maj, h.sameRound, ?_, h.nhi⟩
  intro e1 e2 e3
  have := h.out
  exact h.quiet e1 e2 (by omega)

/-- a strict move forward (later round, or later step of the same round): the part set is free -/
theorem QI.move (h : QI s0 r st ol hl d vr p pp pd v) {r' : Nat} {st' : Step} {vr' : Nat} {p' : Option Proposal}
    {pp' : Option Nat} {pd' : Bool}
    (hlt : r < r' ∨ (r = r' ∧ st.rank < st'.rank)) (hst : st' ≠ .newHeight)
    (hvr : r = r' → vr' = vr) (hp : r = r' → ∀ q, p = some q → p' = some q) :
    QI s0 r' st' ol hl d vr' p' pp' pd' v := by
  have hr := h.round
  refine ⟨by omega, h.out, h.halted, h.decided, h.maj, ?_, ?_, fun e => absurd e hst⟩
  · intro e
    have e' : r = r' := by omega
    obtain ⟨_, hs⟩ := hlt.resolve_left (by omega)
    obtain ⟨a1, a2, a3⟩ := h.sameRound (e'.trans e)
    exact ⟨(hvr e').trans a1, by omega, fun q hq => hp e' q (a3 q hq)⟩
  · intro e e2
    have e' : r = r' := by omega
    obtain ⟨_, hs⟩ := hlt.resolve_left (by omega)
    obtain ⟨_, a2, _⟩ := h.sameRound (e'.trans e)
    omega

theorem QI.setProp (h : QI s0 r st ol hl d vr p pp pd v) (hn : p = none) (p' : Option Proposal) :
    QI s0 r st ol hl d vr p' pp pd v := by
  refine ⟨h.round, h.out, h.halted, h.decided, h.maj, ?_, h.quiet, h.nhi⟩
  intro e
  obtain ⟨a1, a2, a3⟩ := h.sameRound e
  refine ⟨a1, a2, fun q hq => ?_⟩
  have := a3 q hq
  rw [hn] at this; cases this

theorem QI.setParts (h : QI s0 r st ol hl d vr p pp pd v) (hn : pp = none) (pp' : Option Nat) (pd' : Bool) :
    QI s0 r st ol hl d vr p pp' pd' v := by
  refine ⟨h.round, h.out, h.halted, h.decided, h.maj, h.sameRound, ?_, h.nhi⟩
  intro e1 e2 e3 x hx
  rcases h.quiet e1 e2 e3 x hx with ⟨a, _⟩ | ⟨y, _, _, a⟩
  · rw [hn] at a; cases a
  · rw [hn] at a; cases a

theorem QI.done (h : QI s0 r st ol hl d vr p pp pd v) : QI s0 r st ol hl d vr p pp true v := by
  refine ⟨h.round, h.out, h.halted, h.decided, h.maj, h.sameRound, ?_, h.nhi⟩
  intro e1 e2 e3 x hx
  rcases h.quiet e1 e2 e3 x hx with ⟨a, _⟩ | a
  · exact Or.inl ⟨a, fun _ => rfl⟩
  · exact Or.inr a

theorem QI.decide (h : QI s0 r st ol hl d vr p pp pd v) (z : Nat × Int) : QI s0 r st ol hl (some z) vr p pp pd v :=
  ⟨h.round, h.out, h.halted, fun _ => rfl, h.maj, h.sameRound, h.quiet, h.nhi⟩

/-- the header is replaced by the value of the round's polka -/
theorem QI.polka (h : QI s0 r st ol hl d vr p pp pd v) {x : Nat}
    (hm : maj23Of (v.prevotes (r : Int)) = some (some x)) (hne : pp ≠ some x) (pd' : Bool) :
    QI s0 r st ol hl d vr p (some x) pd' v := by
  refine ⟨h.round, h.out, h.halted, h.decided, h.maj, h.sameRound, ?_, h.nhi⟩
  intro e1 e2 e3 y hy
  rcases h.quiet e1 e2 e3 y hy with ⟨a, _⟩ | ⟨z, _, mz, a⟩
  · refine Or.inr ⟨x, ?_, hm, rfl⟩
    intro e; subst e; exact hne a
  · rw [hm] at mz; cases mz
    exact absurd a hne

/-- the vote sets move on -/
theorem QI.votes (h : QI s0 r st ol hl d vr p pp pd v) {c : Cfg} {A : Int → VType → Vote → Prop} {v' : HVS}
    (hx : HExt c A v v') : QI s0 r st ol hl d vr p pp pd v' := by
  refine ⟨h.round, h.out, h.halted, h.decided, fun r' t x hm => hx.maj23 (h.maj r' t x hm), h.sameRound, ?_, h.nhi⟩
  intro e1 e2 e3 y hy
  rcases h.quiet e1 e2 e3 y hy with a | ⟨z, hz, mz, a⟩
  · exact Or.inl a
  · have mz' : maj23Of (v.getVoteSet (r : Int) .prevote) = some (some z) := mz
    exact Or.inr ⟨z, hz, hx.maj23 mz', a⟩

end

variable {c : Cfg} {s0 : NodeState}

/-- the relation only reads `Core` fields, `out.length` and `halted` -/
theorem QN.core {s t : NodeState} (hc : Core t = Core s) (ho : s.out.length ≤ t.out.length)
    (hh : s.halted = true → t.halted = true) (h : QN s0 s) : QN s0 t := by
  unfold Core at hc
  simp only [Prod.mk.injEq] at hc
  obtain ⟨er, est, _, _, _, _, ep, _, epp, epd, _, _, ev, evr, ed⟩ := hc
  show QI _ _ _ _ _ _ _ _ _ _ _
  rw [er, est, ep, epp, epd, ev, evr, ed]
  exact QI.grow h ho hh

theorem QN.done {B : NodeState} (h : QN s0 B) :
    QI s0 B.round B.step B.out.length B.halted B.decided B.valRound B.proposal B.proposalParts true B.votes :=
  QI.done h

theorem QN.decide {B : NodeState} (h : QN s0 B) (z : Nat × Int) :
    QI s0 B.round B.step B.out.length B.halted (some z) B.valRound B.proposal B.proposalParts B.partsDone B.votes :=
  QI.decide h z

/-! ### every function of the node model keeps `QN s0` -/

attribute [local irreducible] emit panicWith sign signAddVote decideProposal doPrevote enterPrevote enterPropose
  enterNewRound newRoundReset enterPrevoteWait enterPrecommit enterPrecommitWait finalizeCommit tryFinalizeCommit
  enterCommit setProposal handleCompleteProposal addBlockPart addVote onPolka prevoteTransitions afterPrevote
  afterPrecommit handleInternal handleTimeout
  handleTxsAvailable handleInput drain step run HVS.addVote HVS.setRound HVS.setPeerMaj23 HVS.polRound
  isProposalComplete maj23Of hasAnyOf hashesTo hasHeader

syntax "sq_step" : tactic
macro_rules | `(tactic| sq_step) => `(tactic| refine QN.done ?_)
macro_rules | `(tactic| sq_step) => `(tactic| refine QN.decide ?_ _)
macro_rules | `(tactic| sq_step) => `(tactic| assumption)
macro "sq" : tactic => `(tactic| repeat' (first | (dsimp only [QN, unlock]; sq_step) | sq_step))

theorem emit_SQ {s : NodeState} (o : Output) (h : QN s0 s) : QN s0 (emit s o) :=
  h.core (emit_core s o) (emit_out_le_SQ s o) (by rw [emit_halted_SQ]; exact id)
macro_rules | `(tactic| sq_step) => `(tactic| apply emit_SQ)

theorem panicWith_SQ {s : NodeState} (w : String) (h : QN s0 s) : QN s0 (panicWith s w) :=
  h.core (panicWith_core s w) (panicWith_out_le_SQ s w) (by rw [panicWith_halted]; intro _; rfl)
macro_rules | `(tactic| sq_step) => `(tactic| apply panicWith_SQ)

theorem signAddVote_out_le_SQ (s : NodeState) (t : VType) (b : Bid) :
    s.out.length ≤ (signAddVote c s t b).out.length := by
  rcases signAddVote_out c s t b with e | e <;> rw [e] <;> simp

theorem signAddVote_SQ {s : NodeState} (t : VType) (b : Bid) (h : QN s0 s) : QN s0 (signAddVote c s t b) :=
  h.core (signAddVote_core c s t b) (signAddVote_out_le_SQ s t b) (by rw [signAddVote_halted_SQ]; exact id)
macro_rules | `(tactic| sq_step) => `(tactic| apply signAddVote_SQ)

theorem decideProposal_SQ {s : NodeState} (r me : Nat) (h : QN s0 s) : QN s0 (decideProposal c s r me) :=
  h.core (decideProposal_core c s r me)
    (by rcases decideProposal_out c s r me with e | e <;> rw [e] <;> simp)
    (by rw [decideProposal_halted_SQ]; exact id)
macro_rules | `(tactic| sq_step) => `(tactic| apply decideProposal_SQ)

theorem doPrevote_SQ {s : NodeState} (h : QN s0 s) : QN s0 (doPrevote c s) :=
  h.core (doPrevote_core c s)
    (by rcases doPrevote_out c s with e | ⟨x, e⟩ <;> rw [e] <;> simp)
    (by rw [doPrevote_halted_SQ]; exact id)
macro_rules | `(tactic| sq_step) => `(tactic| apply doPrevote_SQ)

theorem unlock_SQ {s : NodeState} (h : QN s0 s) : QN s0 (unlock s) := h

theorem enterPrevote_SQ {s : NodeState} (r : Nat) (h : QN s0 s) : QN s0 (enterPrevote c s r) := by
  unfold enterPrevote; (try simp only []); repeat' split
  all_goals first | (sq; done) | skip
  rename_i hg
  have h1 : QN s0 (doPrevote c s) := doPrevote_SQ h
  dsimp only [QN] at h1 ⊢
  refine QI.move h1 ?_ (by decide) (fun _ => rfl) (fun _ _ e => e)
  rw [doPrevote_round, doPrevote_step]
  ranks; omega
macro_rules | `(tactic| sq_step) => `(tactic| apply enterPrevote_SQ)

theorem enterPropose_SQ {s : NodeState} (r : Nat) (h : QN s0 s) : QN s0 (enterPropose c s r) := by
  unfold enterPropose
  split
  · exact h
  · split
    · exact h
    · rename_i hg
      (try simp only [])
      have key : ∀ t : NodeState, QN s0 t → t.round = s.round → t.step = s.step →
          QN s0 { t with round := r, step := .propose } := by
        intro t ht e1 e2
        dsimp only [QN] at ht ⊢
        refine QI.move ht ?_ (by decide) (fun _ => rfl) (fun _ _ e => e)
        rw [e1, e2]
        ranks; omega
      repeat' split
      all_goals (try apply enterPrevote_SQ)
      all_goals apply key
      all_goals first
        | (sq; done)
        | (simp; done)
macro_rules | `(tactic| sq_step) => `(tactic| apply enterPropose_SQ)

theorem newRoundReset_SQ {s : NodeState} (r : Nat)
    (hg : ¬ (r < s.round ∨ (s.round = r ∧ s.step ≠ .newHeight))) (h : QN s0 s) : QN s0 (newRoundReset s r) := by
  have hle : s.round ≤ r := Nat.le_of_not_lt (fun h' => hg (Or.inl h'))
  have hst : s.round = r → s.step = .newHeight :=
    fun e => Decidable.byContradiction (fun hn => hg (Or.inr ⟨e, hn⟩))
  unfold newRoundReset; simp only []; split
  · dsimp only [QN]
    refine QI.move h ?_ (by decide) ?_ (fun _ _ e => e)
    · by_cases e : s.round = r
      · right; refine ⟨e, ?_⟩; rw [hst e]; decide
      · left; omega
    · intro e; rw [if_neg (by omega)]
  · rename_i h0
    have hlt : s.round < r := by
      by_cases e : s.round = r
      · have := h.nhi (hst e); omega
      · omega
    dsimp only [QN]
    exact QI.move h (Or.inl hlt) (by decide) (fun e => absurd e (by omega)) (fun e => absurd e (by omega))

theorem enterNewRound_SQ {s : NodeState} (r : Nat) (h : QN s0 s) : QN s0 (enterNewRound c s r) := by
  unfold enterNewRound
  split
  · exact h
  · split
    · exact h
    · rename_i hg
      simp only []
      have h' : QN s0 (newRoundReset s r) := newRoundReset_SQ r hg h
      split
      · sq
      · rename_i hv hsr
        have h2 : QN s0 { newRoundReset s r with votes := hv, triggered := false } :=
          QI.votes h' (HExt.setRound c (fun _ _ _ => True) _ _ _ hsr)
        repeat' split
        all_goals sq
macro_rules | `(tactic| sq_step) => `(tactic| apply enterNewRound_SQ)

theorem enterPrevoteWait_SQ {s : NodeState} (r : Nat) (h : QN s0 s) : QN s0 (enterPrevoteWait c s r) := by
  unfold enterPrevoteWait; (try simp only []); repeat' split
  all_goals first | (sq; done) | skip
  rename_i hg _
  have h1 : QN s0 (emit s (.schedule r .prevoteWait)) := emit_SQ _ h
  dsimp only [QN] at h1 ⊢
  refine QI.move h1 ?_ (by decide) (fun _ => rfl) (fun _ _ e => e)
  rw [emit_round, emit_step]
  ranks; omega
macro_rules | `(tactic| sq_step) => `(tactic| apply enterPrevoteWait_SQ)

theorem enterPrecommit_SQ {s : NodeState} (r : Nat) (h : QN s0 s) : QN s0 (enterPrecommit c s r) := by
  unfold enterPrecommit
  split
  · exact h
  · split
    · exact h
    · rename_i hg
      have key : ∀ (t : NodeState) (x : Bid), t.round = s.round → t.step = s.step → t.out = s.out →
          t.halted = s.halted → t.decided = s.decided → t.valRound = s.valRound → t.proposal = s.proposal →
          t.votes = s.votes →
          QN s0 { signAddVote c t .precommit x with round := r, step := .precommit } := by
        intro t x e1 e2 e3 e4 e5 e6 e7 e8
        have hc := signAddVote_core c t .precommit x
        unfold Core at hc
        simp only [Prod.mk.injEq] at hc
        obtain ⟨_, _, _, _, _, _, c7, _, _, _, _, _, c13, c14, c15⟩ := hc
        dsimp only [QN]
        rw [c15, c14, c7, c13, e5, e6, e7, e8]
        have h0 : QI s0 r .precommit s.out.length s.halted s.decided s.valRound s.proposal
            (signAddVote c t .precommit x).proposalParts (signAddVote c t .precommit x).partsDone s.votes := by
          refine QI.move h ?_ (by decide) (fun _ => rfl) (fun _ _ e => e)
          ranks; omega
        refine h0.grow ?_ ?_
        · rw [← e3]; exact signAddVote_out_le_SQ t _ _
        · rw [signAddVote_halted_SQ, e4]; exact id
      (try simp only [])
      repeat' split
      all_goals first
        | (sq; done)
        | (apply key <;> rfl)
macro_rules | `(tactic| sq_step) => `(tactic| apply enterPrecommit_SQ)

theorem enterPrecommitWait_SQ {s : NodeState} (r : Nat) (h : QN s0 s) : QN s0 (enterPrecommitWait c s r) := by
  unfold enterPrecommitWait; (try simp only []); repeat' split
  all_goals sq
macro_rules | `(tactic| sq_step) => `(tactic| apply enterPrecommitWait_SQ)

theorem finalizeCommit_SQ {s : NodeState} (h : QN s0 s) : QN s0 (finalizeCommit c s) := by
  unfold finalizeCommit; (try simp only []); repeat' split
  all_goals sq
macro_rules | `(tactic| sq_step) => `(tactic| apply finalizeCommit_SQ)

theorem tryFinalizeCommit_SQ {s : NodeState} (h : QN s0 s) : QN s0 (tryFinalizeCommit c s) := by
  unfold tryFinalizeCommit; (try simp only []); repeat' split
  all_goals sq
macro_rules | `(tactic| sq_step) => `(tactic| apply tryFinalizeCommit_SQ)

theorem enterCommit_SQ {s : NodeState} (r : Nat) (h : QN s0 s) : QN s0 (enterCommit c s r) := by
  unfold enterCommit
  split
  · exact h
  · split
    · exact h
    · rename_i hg
      split
      · sq
      · simp only []
        apply tryFinalizeCommit_SQ
        repeat' split
        all_goals
          dsimp only [QN]
          refine QI.move h (Or.inr ⟨rfl, ?_⟩) (by decide) (fun _ => rfl) (fun _ _ e => e)
          ranks; omega
macro_rules | `(tactic| sq_step) => `(tactic| apply enterCommit_SQ)

theorem setProposal_SQ {s : NodeState} (p : Proposal) (h : QN s0 s) : QN s0 (setProposal c s p) := by
  unfold setProposal; (try simp only []); repeat' split
  all_goals first | (sq; done) | skip
  all_goals
    rename_i hn _ _ _ hpp
    have hpn : s.proposal = none := by
      cases hp : s.proposal with
      | none => rfl
      | some q => rw [hp] at hn; exact absurd rfl hn
  · have hppn : s.proposalParts = none := by
      cases hq : s.proposalParts with
      | none => rfl
      | some q =>
        have : (s.proposalParts.isNone) = true := hpp
        rw [hq] at this; cases this
    dsimp only [QN]
    exact (QI.setProp h hpn _).setParts hppn _ _
  · dsimp only [QN]
    exact QI.setProp h hpn _
macro_rules | `(tactic| sq_step) => `(tactic| apply setProposal_SQ)

theorem handleCompleteProposal_SQ {s : NodeState} (h : QN s0 s) : QN s0 (handleCompleteProposal c s) := by
  unfold handleCompleteProposal; (try simp only []); repeat' split
  all_goals sq
macro_rules | `(tactic| sq_step) => `(tactic| apply handleCompleteProposal_SQ)

theorem addBlockPart_SQ {s : NodeState} (b : Nat) (h : QN s0 s) : QN s0 (addBlockPart c s b) := by
  unfold addBlockPart; (try simp only []); repeat' split
  all_goals sq
macro_rules | `(tactic| sq_step) => `(tactic| apply addBlockPart_SQ)

/-- `onPolka` is called with the recorded prevote majority of round `vr` -/
theorem onPolka_SQ {s : NodeState} (vr : Nat) (bid : Bid) (hm : maj23Of (s.votes.prevotes (vr : Int)) = some bid)
    (h : QN s0 s) : QN s0 (onPolka s vr bid) := by
  have key : ∀ t : NodeState, QN s0 t → maj23Of (t.votes.prevotes (vr : Int)) = some bid → QN s0
      (if bid.isSome ∧ t.validRound < (vr : Int) ∧ vr = t.round then
        (let t' := if hashesTo t.proposalBlock bid then
            { t with validRound := vr, validBlock := t.proposalBlock }
          else { t with proposalBlock := none }
        if !hasHeader t'.proposalParts bid then
          { t' with proposalParts := bid, partsDone := false } else t')
      else t) := by
    intro t ht hmt
    simp only []
    repeat' split
    all_goals first
      | (sq; done)
      | skip
    all_goals
      rename_i hc _ hh
      obtain ⟨hb, _, hvr⟩ := hc
      cases bid with
      | none => cases hb
      | some x =>
        subst hvr
        dsimp only [QN] at hh ⊢
        exact QI.polka ht hmt (hasHeader_false_ne hh) _
  unfold onPolka
  simp only []
  split
  · exact key _ (unlock_SQ h) hm
  · exact key _ h hm

theorem prevoteTransitions_SQ {s : NodeState} (vr : Nat) (h : QN s0 s) : QN s0 (prevoteTransitions c s vr) := by
  unfold prevoteTransitions; (try simp only []); repeat' split
  all_goals sq
macro_rules | `(tactic| sq_step) => `(tactic| apply prevoteTransitions_SQ)

theorem afterPrevote_SQ {s : NodeState} (vr : Nat) (h : QN s0 s) : QN s0 (afterPrevote c s vr) := by
  unfold afterPrevote; (try simp only [])
  split
  · rename_i bid hm
    exact prevoteTransitions_SQ vr (onPolka_SQ vr bid hm h)
  · exact prevoteTransitions_SQ vr h
macro_rules | `(tactic| sq_step) => `(tactic| apply afterPrevote_SQ)

theorem afterPrecommit_SQ {s : NodeState} (vr : Nat) (h : QN s0 s) : QN s0 (afterPrecommit c s vr) := by
  unfold afterPrecommit; (try simp only []); repeat' split
  all_goals sq
macro_rules | `(tactic| sq_step) => `(tactic| apply afterPrecommit_SQ)

theorem addVote_SQ {s : NodeState} (v : Vote) (peer : Peer) (h : QN s0 s) : QN s0 (addVote c s v peer) := by
  have h' : QN s0 { s with votes := (s.votes.addVote c v peer).1 } :=
    QI.votes h (HExt.addVote c (fun _ _ _ => True) _ v peer trivial)
  unfold addVote; simp only []; repeat' split
  all_goals sq
macro_rules | `(tactic| sq_step) => `(tactic| apply addVote_SQ)

theorem handleInternal_SQ {s : NodeState} (m : Internal) (h : QN s0 s) : QN s0 (handleInternal c s m) := by
  unfold handleInternal
  cases m with
  | proposal p => exact setProposal_SQ p h
  | part b => exact addBlockPart_SQ b h
  | vote v => exact addVote_SQ v 0 h

theorem handleTimeout_SQ {s : NodeState} (r : Nat) (st : Step) (h : QN s0 s) : QN s0 (handleTimeout c s r st) := by
  unfold handleTimeout; (try simp only []); repeat' split
  all_goals sq

theorem handleTxsAvailable_SQ {s : NodeState} (h : QN s0 s) : QN s0 (handleTxsAvailable c s) := by
  unfold handleTxsAvailable; (try simp only []); repeat' split
  all_goals sq

theorem handleInput_SQ {s : NodeState} (i : Input) (h : QN s0 s) : QN s0 (handleInput c s i) := by
  unfold handleInput
  cases i with
  | timeout r st => exact handleTimeout_SQ r st h
  | peerMaj23 r t peer bid =>
    exact (QI.votes h (HExt.setPeerMaj23 c (fun _ _ _ => True) _ _ _ _ _) :
      QN s0 { s with votes := s.votes.setPeerMaj23 r t peer bid })
  | proposal p => exact setProposal_SQ p h
  | blockComplete b => exact addBlockPart_SQ b h
  | vote v peer => exact addVote_SQ v peer h
  | txsAvailable => exact handleTxsAvailable_SQ h

theorem drain_SQ (fuel : Nat) {s : NodeState} (h : QN s0 s) : QN s0 (drain c fuel s) := by
  induction fuel generalizing s with
  | zero => unfold drain; exact h
  | succ n ih =>
    by_cases h1 : s.halted = true ∨ s.decided.isSome = true
    · rw [drain_succ_stop n s (Or.inl h1)]; exact h
    · cases hq : s.queue with
      | nil => rw [drain_succ_stop n s (Or.inr hq)]; exact h
      | cons m rest =>
        rw [drain_succ_cons n s m rest h1 hq]
        have h' : QN s0 { s with queue := rest } := h
        exact ih (handleInternal_SQ m h')

theorem step_SQ {s : NodeState} (i : Input) (h : QN s0 s) : QN s0 (step c s i) := by
  unfold step; split
  · exact h
  · exact drain_SQ _ (handleInput_SQ i h)

/-! ### the exported statements -/

/-- **one input of the receive routine** (any input): the state after it is a later stage -/
theorem step_Quiet (c : Cfg) (s : NodeState) (i : Input) (hn : NHI s) :
    Quiet s (step c s i) ∧ NHI (step c s i) :=
  have h := step_SQ (c := c) i (QN.refl hn)
  ⟨h.quiet', h.nhi'⟩

/-- the receive routine taking the node's own messages off its queue -/
theorem drain_Quiet (c : Cfg) (fuel : Nat) (s : NodeState) (hn : NHI s) :
    Quiet s (drain c fuel s) ∧ NHI (drain c fuel s) :=
  have h := drain_SQ (c := c) fuel (QN.refl hn)
  ⟨h.quiet', h.nhi'⟩

theorem handleCompleteProposal_Quiet (c : Cfg) (s : NodeState) (hn : NHI s) :
    Quiet s (handleCompleteProposal c s) ∧ NHI (handleCompleteProposal c s) :=
  have h := handleCompleteProposal_SQ (c := c) (QN.refl hn)
  ⟨h.quiet', h.nhi'⟩

/-- the general form: every function keeps "later stage of `s0`" -/
theorem step_Quiet_from (c : Cfg) (s0 s : NodeState) (i : Input) (hq : Quiet s0 s) (hn : NHI s) :
    Quiet s0 (step c s i) ∧ NHI (step c s i) :=
  have h := step_SQ (c := c) i (QN.mk' hq hn)
  ⟨h.quiet', h.nhi'⟩

end Tmv.Cons
