import Tmv.Lemmas.ValBootstrap
import Tmv.Lemmas.ValIncrK
import Tmv.Lemmas.ValMap
import Tmv.Lemmas.ValUpdBound
/-! C08 — validator-set updates, proposer rotation and historical lookup are exact.
Theorems about the model of `types/validator_set.go`, `state/store.go`, `state/execution.go`
(`Tmv.Model.ValSet`, `Tmv.Model.ValStore`); the model is tied to the Go code by the differential
stream `harness/cmd/c08` and the facts in `Tmv.Expect.C08`. -/
namespace Tmv.Props.C08
open Tmv.ValSet Tmv.ValStore

/-! ## historical lookup -/

/-- side conditions under which a step keeps `LoadValidators` exact: none for blocks; a prune
must not target a stale record above the tip (impossible before the first rollback); a rollback
must be `RollbackSafe` (no validator change by the rolled-back block or its predecessor) -/
def SafeEv (s : Sys) : Ev → Prop
  | .block _ => True
  | .prune _ b => s.clean = true ∨ b ≤ tip s.st ∨ s.db.vals.get b = none
  | .rollback => RollbackSafe s

def SafeRun : Sys → List Ev → Prop
  | _, [] => True
  | s, e :: r => SafeEv s e ∧ SafeRun (s.step e) r

theorem inv_run (s : Sys) (hi : Inv s) (evs : List Ev) (hs : SafeRun s evs) : Inv (s.run evs) := by
  unfold Sys.run
  induction evs generalizing s with
  | nil => exact hi
  | cons e r ih =>
    simp only [List.foldl]
    obtain ⟨h1, h2⟩ := hs
    apply ih _ _ h2
    cases e with
    | block ch => exact inv_block s hi ch
    | prune a b => exact inv_prune s hi a b h1
    | rollback => exact inv_rollback s hi h1

/-- histories of blocks and prunes only -/
def NoRollback (evs : List Ev) : Prop := ∀ e ∈ evs, e ≠ Ev.rollback

theorem step_clean (s : Sys) (e : Ev) (he : e ≠ Ev.rollback) : (s.step e).clean = s.clean := by
  cases e with
  | block ch =>
    show (match updateState s.st (blockHeight s.st) ch with
      | .ok st' =>
        match save s.db st' with
        | some db' =>
          (⟨db', st', fun k => if k = blockHeight s.st + 2 then some st'.nextValidators else s.truth k, s.base, s.clean⟩ : Sys)
        | none => s
      | _ => s).clean = s.clean
    cases updateState s.st (blockHeight s.st) ch with
    | ok st' => simp only; cases save s.db st' <;> rfl
    | err e => rfl
    | panic => rfl
  | prune a b => rfl
  | rollback => exact absurd rfl he

theorem safe_of_noRollback (s : Sys) (hc : s.clean = true) (evs : List Ev) (h : NoRollback evs) :
    SafeRun s evs := by
  induction evs generalizing s with
  | nil => trivial
  | cons e r ih =>
    have he : e ≠ Ev.rollback := h e List.mem_cons_self
    refine ⟨?_, ih _ (by rw [step_clean s e he]; exact hc) (fun x hx => h x (List.mem_cons_of_mem _ hx))⟩
    cases e with
    | block ch => trivial
    | prune a b => exact Or.inl hc
    | rollback => exact absurd rfl he

theorem ofInitial_clean (ih : Int) (st : State) (s0 : Sys) (h : Sys.ofInitial ih st = some s0) :
    s0.clean = true := by
  unfold Sys.ofInitial at h
  split at h
  · cases h
  · split at h
    · cases h
    · cases h; rfl

theorem init_clean (ih : Int) (valz : List Val) (s0 : Sys) (h : Sys.init ih valz = some s0) :
    s0.clean = true := by
  unfold Sys.init at h
  split at h
  · cases h
  · exact ofInitial_clean _ _ _ h

theorem initHandshake_clean (ih : Int) (valz iv : List Val) (s0 : Sys)
    (h : Sys.initHandshake ih valz iv = some s0) : s0.clean = true := by
  unfold Sys.initHandshake at h
  split at h
  · cases h
  · split at h
    · exact ofInitial_clean _ _ _ h
    · cases h

/-- **load_exact.** For every genesis (initial height ≥ 1, at least one validator), every history
of blocks carrying arbitrary update batches (failing batches leave the state unchanged, as in
`ApplyBlock`) interleaved with arbitrary `PruneStates(from,to)` calls (valid or not, successful or
failing half-way; no `state.Rollback`, see `rollback_breaks_load`), and every height between the lowest retained height and the tip:
`LoadValidators h` returns exactly the set, proposer and priorities included, that the chain had
in force at `h`. -/
theorem load_exact (ih : Int) (hih : 1 ≤ ih) (valz : List Val) (s0 : Sys)
    (h0 : Sys.init ih valz = some s0) (evs : List Ev) (hnr : NoRollback evs) (h : Int)
    (hb : (s0.run evs).base ≤ h) (ht : h ≤ tip (s0.run evs).st) :
    ∃ v, (s0.run evs).truth h = some v ∧ loadValidators (s0.run evs).db.vals h = .ok v :=
  load_of_inv _ (inv_run s0 (inv_init ih hih valz s0 h0) evs
    (safe_of_noRollback s0 (init_clean ih valz s0 h0) evs hnr)) h hb ht

/-- **load_exact_rollback_partial.** Histories that also contain `state.Rollback` steps: exactness
holds provided every rollback is `RollbackSafe` — the set of height `LastBlockHeight+1` last
changed at or below `LastBlockHeight` (neither the rolled-back block nor its predecessor carried
validator updates) and that height is retained — and no prune targets a stale record above the
tip. Without the first condition the statement is false: `rollback_breaks_load`. -/
theorem load_exact_rollback_partial (ih : Int) (hih : 1 ≤ ih) (valz : List Val) (s0 : Sys)
    (h0 : Sys.init ih valz = some s0) (evs : List Ev) (hs : SafeRun s0 evs) (h : Int)
    (hb : (s0.run evs).base ≤ h) (ht : h ≤ tip (s0.run evs).st) :
    ∃ v, (s0.run evs).truth h = some v ∧ loadValidators (s0.run evs).db.vals h = .ok v :=
  load_of_inv _ (inv_run s0 (inv_init ih hih valz s0 h0) evs hs) h hb ht

/-- **load_exact (handshake genesis).** The same for a chain started by the node's handshake with
an application whose InitChain returns its own validator list (`Handshaker.ReplayBlocks`):
exactness rests on `NextValidators` being exactly ONE rotation ahead of `Validators` in the first
saved state (`Initial.hnext`). -/
theorem load_exact_handshake (ih : Int) (hih : 1 ≤ ih) (valz iv : List Val) (s0 : Sys)
    (h0 : Sys.initHandshake ih valz iv = some s0) (evs : List Ev) (hnr : NoRollback evs) (h : Int)
    (hb : (s0.run evs).base ≤ h) (ht : h ≤ tip (s0.run evs).st) :
    ∃ v, (s0.run evs).truth h = some v ∧ loadValidators (s0.run evs).db.vals h = .ok v :=
  load_of_inv _ (inv_run s0 (inv_initHandshake ih hih valz iv s0 h0) evs
    (safe_of_noRollback s0 (initHandshake_clean ih valz iv s0 h0) evs hnr)) h hb ht

/-- **load_exact (state-sync bootstrap).** A node that starts from `store.Bootstrap(state)` at an
arbitrary height (`Bootable`: the three sets of heights `LastBlockHeight..+2` with proposers,
`LastHeightValidatorsChanged = LastBlockHeight + 2` as the state provider sets it) and then applies
blocks and prunes: `LoadValidators` is exact from `LastBlockHeight` up to the tip. -/
theorem load_exact_bootstrap (st : State) (hb : Bootable st) (s0 : Sys)
    (h0 : Sys.ofBootstrap st = some s0) (evs : List Ev) (hnr : NoRollback evs) (h : Int)
    (hbase : (s0.run evs).base ≤ h) (ht : h ≤ tip (s0.run evs).st) :
    ∃ v, (s0.run evs).truth h = some v ∧ loadValidators (s0.run evs).db.vals h = .ok v :=
  load_of_inv _ (inv_run s0 (inv_ofBootstrap st hb s0 h0) evs
    (safe_of_noRollback s0 (ofBootstrap_clean st s0 h0) evs hnr)) h hbase ht

/-- non-vacuity: a bootable state at height 1000 (checked by evaluation) -/
example : (Sys.ofBootstrap ⟨1, 1000, ⟨[⟨1, 5, 0⟩], some ⟨1, 5, 0⟩⟩, ⟨[⟨1, 5, 0⟩], some ⟨1, 5, 0⟩⟩,
    ⟨[⟨1, 5, 0⟩], some ⟨1, 5, 0⟩⟩, 1002, 1⟩).isSome = true := by
  decide

/-- non-vacuity: empty genesis list, validators from InitChain -/
example : (Sys.initHandshake 5 [] [⟨1, 10, 0⟩, ⟨2, 1, 0⟩]).isSome = true := by decide

/-- the recorded set at the tip is the state's `NextValidators`, and the retained range is
never empty -/
theorem truth_tip (ih : Int) (hih : 1 ≤ ih) (valz : List Val) (s0 : Sys)
    (h0 : Sys.init ih valz = some s0) (evs : List Ev) (hs : SafeRun s0 evs) :
    (s0.run evs).truth (tip (s0.run evs).st) = some (s0.run evs).st.nextValidators ∧
    (s0.run evs).base ≤ tip (s0.run evs).st :=
  let hi := inv_run s0 (inv_init ih hih valz s0 h0) evs hs
  ⟨hi.rec_tip, hi.base_le⟩

/-- **rpc_validators_exact.** What the `/validators` RPC reports under height `h` (latest or
explicit, node caught up or block-syncing) is exactly the set in force at `h`, for every retained
`h`: the reported height never exceeds the tip and the set is `LoadValidators h`. -/
theorem rpc_validators_exact (s : Sys) (hi : Inv s) (syncing : Bool) (h : Option Int) (x : Int)
    (r : LoadRes) (hr : rpcValidators s.db s.st syncing h = some (x, r)) (hb : s.base ≤ x) :
    ∃ v, s.truth x = some v ∧ r = .ok v := by
  unfold rpcValidators at hr
  cases hh : rpcHeight s.st syncing h with
  | none => rw [hh] at hr; cases hr
  | some y =>
    rw [hh] at hr
    simp only [Option.map_some, Option.some.injEq, Prod.mk.injEq] at hr
    obtain ⟨e1, e2⟩ := hr
    subst e1
    have hle : y ≤ tip s.st := by
      have h0 := hi.lbh_nonneg
      have h1 := hi.ih_pos
      have hlat : (if syncing = true then s.st.lastBlockHeight else s.st.lastBlockHeight + 1)
          ≤ s.st.lastBlockHeight + 1 := by split <;> omega
      have hy : y ≤ s.st.lastBlockHeight + 1 := by
        unfold rpcHeight at hh
        simp only at hh
        cases h with
        | none => simp only [Option.some.injEq] at hh; omega
        | some z =>
          simp only at hh
          by_cases hc : z ≤ 0 ∨ z > (if syncing = true then s.st.lastBlockHeight else s.st.lastBlockHeight + 1) ∨
              z < s.st.initialHeight
          · simp only [hc, if_true] at hh; cases hh
          · simp only [hc, if_false, Option.some.injEq] at hh
            omega
      unfold tip blockHeight
      split <;> omega
    obtain ⟨v, hv1, hv2⟩ := load_of_inv s hi y hb hle
    exact ⟨v, hv1, by rw [← e2, hv2]⟩

/-- the history of the replayed scenario: two validators, a third joins in block 5, block 6 is
rolled back -/
def rollbackWitness : Option Sys :=
  (Sys.init 1 [⟨1, 10, 0⟩, ⟨2, 7, 0⟩]).map fun s =>
    s.run [.block [], .block [], .block [], .block [], .block [⟨3, 5, 0⟩], .block [], .rollback]

theorem rollbackWitness_eval :
    rollbackWitness.map (fun s => (decide (s.base ≤ 7 ∧ 7 ≤ tip s.st), loadValidators s.db.vals 7)) =
      some (true, .notFound) := by decide +kernel

/-- **rollback_breaks_load.** `load_exact` is FALSE of histories with arbitrary `state.Rollback`
steps (known finding `state.Rollback.last-change-height-clamped-one-too-low`): after rolling
back the block that follows a validator change, height 7 is retained but `LoadValidators 7`
fails ("couldn't find validators at height 6"). -/
theorem rollback_breaks_load :
    ¬ (∀ (ih : Int) (valz : List Val) (s0 : Sys) (evs : List Ev) (h : Int), 1 ≤ ih →
        Sys.init ih valz = some s0 → (s0.run evs).base ≤ h → h ≤ tip (s0.run evs).st →
        ∃ v, (s0.run evs).truth h = some v ∧ loadValidators (s0.run evs).db.vals h = .ok v) := by
  intro hall
  have hw := rollbackWitness_eval
  unfold rollbackWitness at hw
  cases hinit : Sys.init 1 [⟨1, 10, 0⟩, ⟨2, 7, 0⟩] with
  | none => rw [hinit] at hw; simp at hw
  | some s0 =>
    rw [hinit] at hw
    simp only [Option.map_some, Option.some.injEq, Prod.mk.injEq, decide_eq_true_eq] at hw
    obtain ⟨⟨hb, ht⟩, hl⟩ := hw
    obtain ⟨v, _, hv⟩ := hall 1 _ s0 _ 7 (by omega) hinit hb ht
    rw [hl] at hv
    cases hv

/-- non-vacuity: a genesis just below the checkpoint boundary exists -/
example : (Sys.init 99999 [⟨1, 10, 0⟩, ⟨2, 1, 0⟩]).isSome = true := by decide

/-! ## updates are atomic -/

/-- **update_atomic.** If `updateWithChangeSet` returns an error the receiver is unchanged
(`panicTotal` is the `updateTotalVotingPower` panic after the mutation; `update_no_total_panic`
shows it is dead for well-formed sets). -/
theorem update_atomic (s : VSet) (changes : List Val) (allow : Bool) (e : UpdErr)
    (h : (updateWithChangeSet s changes allow).2 = some e) (hne : e ≠ .panicTotal) :
    (updateWithChangeSet s changes allow).1 = s := by
  generalize hr : updateWithChangeSet s changes allow = r at h ⊢
  unfold updateWithChangeSet updateCore at hr
  repeat' split at hr
  all_goals (subst hr; simp only at h ⊢)
  all_goals first
    | rfl
    | (cases h; exact absurd rfl hne)
    | cases h
    | (split at h <;> first | (cases h; exact absurd rfl hne) | cases h)

/-! ## updates do not depend on the order of the batch -/

theorem perm_nil_iff {c1 c2 : List Val} (hp : c1.Perm c2) : c1 = [] ↔ c2 = [] := by
  have := hp.length_eq
  constructor
  · intro e; subst e; exact List.eq_nil_of_length_eq_zero (by simpa using this.symm)
  · intro e; subst e; exact List.eq_nil_of_length_eq_zero (by simpa using this)

/-- a batch without repeated addresses: every order gives the very same result (set and error) -/
theorem update_perm_eq (s : VSet) (c1 c2 : List Val) (allow : Bool) (hp : c1.Perm c2)
    (hnd : (c1.map (·.addr)).Nodup) :
    updateWithChangeSet s c1 allow = updateWithChangeSet s c2 allow := by
  have hs : sortBy leAddr c1 = sortBy leAddr c2 := sortBy_leAddr_perm_eq _ _ hp hnd
  unfold updateWithChangeSet processChanges
  rw [hs]
  by_cases h1 : c1 = []
  · have h2 := (perm_nil_iff hp).mp h1
    simp [h1, h2]
  · have h2 : ¬ c2 = [] := fun e => h1 ((perm_nil_iff hp).mpr e)
    simp [h1, h2]

/-- a batch with a repeated address is rejected in every order, leaving the set untouched -/
theorem update_dup_rejected (s : VSet) (c : List Val) (allow : Bool)
    (hd : ¬ (c.map (·.addr)).Nodup) :
    (updateWithChangeSet s c allow).1 = s ∧ (updateWithChangeSet s c allow).2 ≠ none := by
  have hne : c ≠ [] := by intro e; subst e; simp at hd
  have hd' : ¬ ((sortBy leAddr c).map (·.addr)).Nodup := by
    intro h; apply hd
    exact (List.Perm.map _ (sortBy_perm leAddr c)).nodup_iff.mp h
  obtain ⟨e, he⟩ := scanChanges_dup (sortBy leAddr c) none
    (sortBy_pairwise leAddr leAddr_total leAddr_trans c) hd'
  unfold updateWithChangeSet processChanges
  simp [hne, he]

/-- **update_perm_invariant.** Applying a batch in any order either fails (leaving the set
untouched) in every order or succeeds in every order with the same resulting set. -/
theorem update_perm_invariant (s : VSet) (c1 c2 : List Val) (allow : Bool) (hp : c1.Perm c2) :
    (updateWithChangeSet s c1 allow).1 = (updateWithChangeSet s c2 allow).1 ∧
    ((updateWithChangeSet s c1 allow).2 = none ↔ (updateWithChangeSet s c2 allow).2 = none) := by
  by_cases hnd : (c1.map (·.addr)).Nodup
  · rw [update_perm_eq s c1 c2 allow hp hnd]; exact ⟨rfl, Iff.rfl⟩
  · have hnd2 : ¬ (c2.map (·.addr)).Nodup := by
      intro h; apply hnd
      exact (List.Perm.map _ hp).nodup_iff.mpr h
    obtain ⟨a1, a2⟩ := update_dup_rejected s c1 allow hnd
    obtain ⟨b1, b2⟩ := update_dup_rejected s c2 allow hnd2
    rw [a1, b1]
    exact ⟨rfl, ⟨fun h => absurd h a2, fun h => absurd h b2⟩⟩

/-- non-vacuity: a two-entry batch (one add, one power change) succeeds, in both orders -/
example : (updateWithChangeSet ⟨[⟨1, 10, 0⟩], none⟩ [⟨2, 5, 0⟩, ⟨1, 7, 0⟩] true).2 = none ∧
    (updateWithChangeSet ⟨[⟨1, 10, 0⟩], none⟩ [⟨1, 7, 0⟩, ⟨2, 5, 0⟩] true).1.vals =
      [⟨1, 7, 7⟩, ⟨2, 5, -6⟩] := by decide

/-! ## a successful update yields a well-formed set -/

/-- **update_wellformed.** From any receiver with unique addresses and positive powers (the empty
receiver of `NewValidatorSet` included), a non-empty batch that is accepted yields a set with
unique addresses, no zero-power member, canonical order (power descending, address ascending),
`0 < total ≤ MaxTotalVotingPower`, and at least one member. -/
theorem update_wellformed (s s' : VSet) (c : List Val) (allow : Bool) (hpre : PreWF s.vals)
    (hc : c ≠ []) (h : updateWithChangeSet s c allow = (s', none)) : WF s'.vals := by
  unfold updateWithChangeSet at h
  simp only [hc, if_false] at h
  split at h
  · cases h
  · rename_i u d hproc
    unfold processChanges at hproc
    obtain ⟨_, hl, hus, hds, hup, hdz, _⟩ := scanChanges_ok _ _ _ _
      (sortBy_pairwise leAddr leAddr_total leAddr_trans c) hproc
    apply updateCore_wf s s' u d allow hpre (List.Pairwise.sublist hus hl)
      (List.Pairwise.sublist hds hl) (fun v hv => (hup v hv).1) ?_ h
    intro y hy z hz hyz
    have := nodup_map_inj _ hl.nodup y z (hus.subset hy) (hds.subset hz) hyz
    have h1 := (hup y hy).1
    have h2 := hdz z hz
    rw [this] at h1; omega

/-- non-vacuity: the receiver and batch of the earlier example satisfy the hypotheses -/
example : PreWF [(⟨1, 10, 0⟩ : Val)] := ⟨by decide, by decide⟩

/-! ## rotation: exact weighted round-robin, no overflow, centred -/

/-- **priorities_no_clip (rotation).** On every well-formed set whose priorities are within
`3·MaxTotalVotingPower` (`Reach`; all sets of a chain are, see `chain_reach`),
`IncrementProposerPriority(1)` takes no clamp branch of `safeAddClip/safeSubClip` and no int64
wrap: the cached total is the plain sum, centring subtracts the exact floor-average, the rotation
is exactly "everybody gains its power, the validator with the most priority (ties: lowest
address) pays the total and becomes proposer" (`IncrOut.exact`), members/powers/order are
unchanged, the new priorities lie within `3·total` (so within int64 by a factor > 2), and their
sum stays in `[0, n)` (**sum/centre invariant**). -/
theorem priorities_no_clip (s : VSet) (hr : Reach s.vals) :
    ∃ s', increment s 1 = some s' ∧ Reach s'.vals ∧ SameAP s'.vals s.vals ∧
      PBound (3 * sumPower s.vals) s'.vals ∧
      0 ≤ prioSum s'.vals ∧ prioSum s'.vals < (s'.vals.length : Int) ∧
      (∃ p, s'.proposer = some p ∧ p ∈ s'.vals) ∧
      totalPower s.vals = sumPower s.vals ∧
      shiftByAvg (rescale s.vals (2 * sumPower s.vals)) =
        (rescale s.vals (2 * sumPower s.vals)).map
          (fun v => setPrio v (v.prio - avgPrio (rescale s.vals (2 * sumPower s.vals)))) ∧
      IncrOut (normalize s.vals) (sumPower s.vals) (incrOnce (normalize s.vals) (sumPower s.vals)) := by
  obtain ⟨s', h1, h2, h3, h4, h5, h6, h7, h8, h9, h10, h11⟩ := increment_one_spec s hr.wf hr.bound
  exact ⟨s', h1, ⟨h2, h5⟩, h3, h4, h6, h7, h8, h9, h10, h11⟩

/-- **priorities_no_clip (update).** A successful update of a reachable (or empty) receiver
yields a reachable set whose priorities are within the window `2·total'` and centred
(sum in `[0, n)`): the penalty `-(tvp + tvp>>3)` of new validators (`0 ≤ tvp ≤ 2·Max`) and the
rescale/centre arithmetic stay far inside int64. -/
theorem update_reach (s s' : VSet) (c : List Val) (allow : Bool)
    (hr : Reach s.vals ∨ s.vals = []) (hc : c ≠ [])
    (h : updateWithChangeSet s c allow = (s', none)) :
    Reach s'.vals ∧ PBound (2 * sumPower s'.vals) s'.vals ∧
    0 ≤ prioSum s'.vals ∧ prioSum s'.vals < (s'.vals.length : Int) := by
  have hpre : PreWF s.vals := by
    rcases hr with h1 | h1
    · exact h1.wf.pre
    · rw [h1]; exact ⟨by simp, by simp⟩
  have htot : totalPower s.vals = sumPower s.vals := by
    rcases hr with h1 | h1
    · exact h1.wf.total_eq
    · rw [h1]; rfl
  have hle : sumPower s.vals ≤ maxTotal := by
    rcases hr with h1 | h1
    · exact h1.wf.total_le
    · rw [h1]; decide
  have hb : PBound prioCap s.vals := by
    rcases hr with h1 | h1
    · exact h1.bound
    · rw [h1]; intro v hv; cases hv
  have hwf := update_wellformed s s' c allow hpre hc h
  unfold updateWithChangeSet at h
  simp only [hc, if_false] at h
  split at h
  · cases h
  · rename_i u d hproc
    unfold processChanges at hproc
    obtain ⟨_, hl, hus, hds, hup, hdz, _⟩ := scanChanges_ok _ _ _ _
      (sortBy_pairwise leAddr leAddr_total leAddr_trans c) hproc
    obtain ⟨r1, r2, r3, r4⟩ := updateCore_reach s s' u d allow hpre htot hle hb
      (List.Pairwise.sublist hus hl) (List.Pairwise.sublist hds hl) (fun v hv => (hup v hv).1) (by
        intro y hy z hz hyz
        have := nodup_map_inj _ hl.nodup y z (hus.subset hy) (hds.subset hz) hyz
        have h1 := (hup y hy).1
        have h2 := hdz z hz
        rw [this] at h1; omega) h
    exact ⟨⟨hwf, r2⟩, r1, r3, r4⟩

/-- `NewValidatorSet` of a non-empty list yields a reachable set (or panics) -/
theorem newValidatorSet_reach (valz : List Val) (vs : VSet) (hne : valz ≠ [])
    (h : newValidatorSet valz = .ok vs) : Reach vs.vals := by
  unfold newValidatorSet at h
  split at h
  · cases h
  · rename_i s0 hu
    simp only [hne, if_false] at h
    obtain ⟨hr, _⟩ := update_reach VSet.empty s0 valz false (Or.inr rfl) hne hu
    obtain ⟨s1, hs1, hr1, _⟩ := priorities_no_clip s0 hr
    rw [hs1] at h
    cases h
    exact hr1

/-- the validator part of a chain state is reachable -/
structure StateReach (st : State) : Prop where
  cur : Reach st.validators.vals
  next : Reach st.nextValidators.vals

theorem genesis_reach (ih : Int) (valz : List Val) (st : State) (hne : st.validators.vals ≠ [])
    (h : genesisState ih valz = .ok st) : StateReach st := by
  obtain ⟨vs, hvs, hst⟩ := genesisState_ok ih valz st h
  have hv : st.validators = vs := by rw [hst]
  have hvalz : valz ≠ [] := by
    intro e; subst e
    have : vs = VSet.empty := by
      simp [newValidatorSet, updateWithChangeSet] at hvs; exact hvs.symm
    rw [hv, this] at hne; exact hne rfl
  have hr := newValidatorSet_reach valz vs hvalz hvs
  obtain ⟨s1, hs1, hr1, _⟩ := priorities_no_clip vs hr
  constructor
  · rw [hv]; exact hr
  · rw [hst]; simp only [hs1]; exact hr1

theorem updateState_reach (st st' : State) (H : Int) (ch : List Val) (hr : StateReach st)
    (h : updateState st H ch = .ok st') : StateReach st' := by
  unfold updateState at h
  simp only at h
  split at h
  · cases h
  · rename_i hu
    split at h
    · cases h
    · rename_i nv' hinc
      simp only [StepRes.ok.injEq] at h
      subst h
      refine ⟨hr.next, ?_⟩
      simp only
      by_cases hce : ch = []
      · subst hce
        simp only [ne_eq, not_true_eq_false, if_false] at hinc
        obtain ⟨s1, hs1, hr1, _⟩ := priorities_no_clip _ hr.next
        rw [hs1] at hinc; cases hinc; exact hr1
      · have hch : ch ≠ [] := hce
        simp only [ne_eq, hce, not_false_eq_true, if_true] at hu hinc
        have hupd : updateWithChangeSet st.nextValidators ch true =
            ((updateWithChangeSet st.nextValidators ch true).1, none) := by
          rw [← hu]
        obtain ⟨hr2, _⟩ := update_reach _ _ ch true (Or.inl hr.next) hch hupd
        obtain ⟨s1, hs1, hr1, _⟩ := priorities_no_clip _ hr2
        rw [hs1] at hinc; cases hinc; exact hr1

theorem ofInitial_st (ih : Int) (st : State) (s0 : Sys) (h : Sys.ofInitial ih st = some s0) :
    s0.st = st ∧ st.validators.vals ≠ [] := by
  unfold Sys.ofInitial at h
  split at h
  · cases h
  · rename_i hne
    split at h
    · cases h
    · cases h; exact ⟨rfl, hne⟩

theorem run_reach (s0 : Sys) (hinit : StateReach s0.st) (evs : List Ev) (hnr : NoRollback evs) :
    StateReach (s0.run evs).st := by
  unfold Sys.run
  induction evs generalizing s0 with
  | nil => exact hinit
  | cons e r ihh =>
    simp only [List.foldl]
    have he : e ≠ Ev.rollback := hnr e List.mem_cons_self
    apply ihh _ _ (fun x hx => hnr x (List.mem_cons_of_mem _ hx))
    cases e with
    | rollback => exact absurd rfl he
    | block ch =>
      show StateReach (match updateState s0.st (blockHeight s0.st) ch with
        | .ok st' =>
          match save s0.db st' with
          | some db' =>
            (⟨db', st', fun k => if k = blockHeight s0.st + 2 then some st'.nextValidators else s0.truth k, s0.base, s0.clean⟩ : Sys)
          | none => s0
        | _ => s0).st
      cases hu : updateState s0.st (blockHeight s0.st) ch with
      | err e => exact hinit
      | panic => exact hinit
      | ok st' =>
        simp only
        cases hs : save s0.db st' with
        | none => exact hinit
        | some db' => exact updateState_reach _ _ _ _ hinit hu
    | prune a b => exact hinit

/-- **chain_reach.** Along every history (genesis, blocks with arbitrary update batches, prunes)
the current and next validator sets are well-formed (unique addresses, positive powers, canonical
order, `0 < total ≤ MaxTotalVotingPower`, non-empty) with priorities within
`3·MaxTotalVotingPower` — so `priorities_no_clip` applies at every height. -/
theorem chain_reach (ih : Int) (valz : List Val) (s0 : Sys) (h0 : Sys.init ih valz = some s0)
    (evs : List Ev) (hnr : NoRollback evs) : StateReach (s0.run evs).st := by
  apply run_reach _ _ _ hnr
  unfold Sys.init at h0
  split at h0
  · cases h0
  · rename_i st hst
    obtain ⟨e, hne⟩ := ofInitial_st ih st s0 h0
    rw [e]; exact genesis_reach ih valz st hne hst

/-- `chain_reach` for a chain whose first sets come from the application's InitChain response -/
theorem chain_reach_handshake (ih : Int) (valz iv : List Val) (s0 : Sys)
    (h0 : Sys.initHandshake ih valz iv = some s0) (evs : List Ev) (hnr : NoRollback evs) :
    StateReach (s0.run evs).st := by
  apply run_reach _ _ _ hnr
  unfold Sys.initHandshake at h0
  split at h0
  · cases h0
  · rename_i st hst
    split at h0
    · rename_i st' hhs
      obtain ⟨e, hne⟩ := ofInitial_st ih st' s0 h0
      rw [e]
      rcases handshakeInit_ok _ _ _ _ hhs with ⟨_, e2⟩ | ⟨vs, nx, hvs, hnx, e2⟩
      · subst e2; exact genesis_reach ih valz st' hne hst
      · subst e2
        have hiv : iv ≠ [] := by
          intro e3; subst e3
          have : vs = VSet.empty := by
            simp [newValidatorSet, updateWithChangeSet] at hvs; exact hvs.symm
          rw [this] at hne; exact hne rfl
        have hr := newValidatorSet_reach iv vs hiv hvs
        obtain ⟨s1, hs1, hr1, _⟩ := priorities_no_clip vs hr
        rw [hs1] at hnx; cases hnx
        exact ⟨hr, hr1⟩
    · cases h0

/-! ## what the set is after a batch -/

/-- **update_refines_map.** After a successful non-empty batch the set, read as a map
address → power, is the old map updated by the batch (`applyBatchMap`): an entry with positive
power sets the power of its address, an entry with power 0 deletes it, every other address keeps
its power. Together with `update_wellformed` (unique addresses, canonical order) this determines
the validator list up to priorities; with `update_perm_invariant` it is independent of order. -/
theorem update_refines_map (s s' : VSet) (c : List Val) (allow : Bool) (hpre : PreWF s.vals)
    (hc : c ≠ []) (h : updateWithChangeSet s c allow = (s', none)) (a : Nat) :
    powerMap s'.vals a = applyBatchMap (powerMap s.vals) c a :=
  Tmv.ValSet.update_refines_map s s' c allow hpre hc h a

/-- non-vacuity / sanity: add 2, change 1 -/
example : (fun a => powerMap (updateWithChangeSet ⟨[⟨1, 10, 0⟩], none⟩ [⟨2, 5, 0⟩, ⟨1, 7, 0⟩] true).1.vals a) 2
    = some 5 := by decide

/-! ## arbitrary round counts -/

/-- **rounds_no_overflow.** Any number `k` of consecutive single rotations (what consensus does
for `k` rounds and the chain for `k` heights since d716447/781020d) from a reachable set: all `k`
succeed, the set stays reachable, and from the first rotation on every priority is within
`3·total` — a bound independent of `k`, a factor > 2 inside int64. -/
theorem rounds_no_overflow (k : Nat) (s : VSet) (hr : Reach s.vals) :
    ∃ sk, rotations k s = some sk ∧ Reach sk.vals ∧ sumPower sk.vals = sumPower s.vals ∧
      (1 ≤ k → PBound (3 * sumPower s.vals) sk.vals) := by
  induction k generalizing s with
  | zero => exact ⟨s, rfl, hr, rfl, fun h => by omega⟩
  | succ j ih =>
    obtain ⟨s1, h1, hr1, hap, hb1, _⟩ := priorities_no_clip s hr
    obtain ⟨sk, h2, hrk, hT, hbk⟩ := ih s1 hr1
    have hT1 : sumPower s1.vals = sumPower s.vals := hap.sumPower
    refine ⟨sk, by simp only [rotations, h1]; exact h2, hrk, by rw [hT, hT1], fun _ => ?_⟩
    cases j with
    | zero => simp only [rotations, Option.some.injEq] at h2; rw [← h2]; exact hb1
    | succ j' => rw [← hT1]; exact hbk (by omega)

/-- **increment_k_partial.** One call `IncrementProposerPriority(k)` with arbitrary `k ≥ 1`
(exported; no production caller passes `k > 1` any more): no clamp at any inner rotation, sum of
priorities in `[0, n)`, every priority within `[−2·total, 2·total·n + n]` for all `k` — under
`n·(2·total + 1) ≤ 3·MaxTotalVotingPower`. MISSING for full strength: an upper bound independent of
the number `n` of validators (measured: `|priority| ≤ 1.08·total`), which would remove the
hypothesis. -/
theorem increment_k_partial (s : VSet) (hr : Reach s.vals) (k : Int) (hk : 1 ≤ k)
    (hB : 2 * (sumPower s.vals * (s.vals.length : Int)) + (s.vals.length : Int) ≤ prioCap) :
    ∃ s', increment s k = some s' ∧ SameAP s'.vals s.vals ∧
      0 ≤ prioSum s'.vals ∧ prioSum s'.vals < (s.vals.length : Int) ∧
      (∃ q, s'.proposer = some q ∧ q ∈ s'.vals) ∧
      ∀ v ∈ s'.vals, -(2 * sumPower s.vals) ≤ v.prio ∧
        v.prio ≤ 2 * (sumPower s.vals * (s.vals.length : Int)) + (s.vals.length : Int) :=
  increment_k_bounded s hr k hk hB

/-- non-vacuity: 150 validators with total 10^15 satisfy the hypothesis -/
example : 2 * ((1000000000000000 : Int) * 150) + 150 ≤ prioCap := by decide

/-! ## turns are proportional to voting power -/

/-- in a window without set changes only a RESCALE can be an event: on a reachable, centred set
(every set after a rotation or update is centred) the centring alone never changes a priority -/
theorem event_is_rescale (s : VSet) (hr : Reach s.vals) (hc : Centred s.vals)
    (he : normalize s.vals ≠ s.vals) : ¬ NoRescale s.vals := by
  intro hn
  exact he (normalize_calm s.vals prioCap hr.wf.ne (by unfold prioCap; omega) (by unfold prioCap; omega)
    hr.bound hr.wf.total_eq hr.wf.total_pos hc hn)


/-- **turns_proportional (no rescale in the window).** `k` consecutive single rotations without
set changes from a reachable, centred set, no rescale triggering: for every validator
`|k·power − turns·total| ≤ 5·total`; the rotation itself is the closed form `rotate`
(`increment_calm`) and `priority_k = priority_0 + k·power − turns·total` (`turns_identity`). -/
theorem turns_proportional_no_rescale (k : Nat) (s : VSet) (hr : Reach s.vals) (hc : Centred s.vals)
    (hcalm : CalmRun k s) (v : Val) (hv : v ∈ s.vals) :
    -(5 * sumPower s.vals) ≤ (k : Int) * v.power - turns v.addr k s * sumPower s.vals ∧
    (k : Int) * v.power - turns v.addr k s * sumPower s.vals ≤ 5 * sumPower s.vals :=
  turns_proportional_calm k s hr hc hcalm v hv

/-- **turns_proportional.** Any window of `k` consecutive single rotations without set changes,
from any reachable set with priorities within `3·total` (every set produced by a rotation):
`|k·power − turns·total| ≤ (6 + 5·E)·total`, `E` = number of rotations in the window at which the
normalisation (rescale / centring) changed a priority. -/
theorem turns_proportional_events (k : Nat) (s : VSet) (hr : Reach s.vals)
    (hb : PBound (3 * sumPower s.vals) s.vals) (v : Val) (hv : v ∈ s.vals) :
    -(6 * sumPower s.vals + 5 * sumPower s.vals * events k s) ≤
      (k : Int) * v.power - turns v.addr k s * sumPower s.vals ∧
    (k : Int) * v.power - turns v.addr k s * sumPower s.vals ≤
      6 * sumPower s.vals + 5 * sumPower s.vals * events k s := by
  obtain ⟨sk, _, _, _, hbk, _, hid⟩ := turns_proportional k s hr hb
  have h0 := hb v hv
  have h1 := hid v hv
  have hk : -(3 * sumPower s.vals) ≤ prioOf sk.vals v.addr ∧ prioOf sk.vals v.addr ≤ 3 * sumPower s.vals := by
    unfold prioOf
    cases hf : findAddr sk.vals v.addr with
    | none => have := hr.wf.total_pos; simp only; omega
    | some w => exact hbk w (findAddr_some hf).1
  omega

/-- non-vacuity: the witness set below is reachable, and a calm window exists -/
example : CalmRun 1 ⟨[⟨1, 3, 1⟩, ⟨2, 1, -1⟩], none⟩ ∧ Centred [(⟨1, 3, 1⟩ : Val), ⟨2, 1, -1⟩] :=
  ⟨⟨by unfold NoRescale; decide, fun _ _ => trivial⟩, by unfold Centred; decide⟩

/-- a reachable set taken from a replayed run of the real state store (height 200007 of
`replays/C08-oracle-59c8d9950487550f.json`, addresses renumbered in order) -/
def witnessSet : VSet :=
  ⟨[⟨5, 39596, 26749⟩, ⟨4, 27319, 67608⟩, ⟨1, 75, -62823⟩, ⟨6, 62, -24823⟩, ⟨3, 38, -14583⟩,
    ⟨2, 2, 7877⟩], some ⟨5, 39596, 26749⟩⟩

/-- **one_shot_increment_differs** (why `LoadValidators` must replay single increments — the
defect fixed in /repo): on a reachable set ONE `IncrementProposerPriority(4)` is not four
`IncrementProposerPriority(1)` (different priorities), and from 5 steps on even the proposer
differs; `load_exact` is false of a store that uses the former. The same
holds for any caller that jumps several rotations at once. -/
theorem one_shot_increment_differs :
    Reach witnessSet.vals ∧ increment witnessSet 4 ≠ incrTimes 4 witnessSet ∧
    (increment witnessSet 5).map (·.proposer.map (·.addr)) ≠
      (incrTimes 5 witnessSet).map (·.proposer.map (·.addr)) := by
  refine ⟨⟨⟨by decide, by decide, by decide, by decide, by decide, by decide⟩,
    by unfold PBound prioCap; decide⟩, by decide +kernel, by decide +kernel⟩

end Tmv.Props.C08
