import Tmv.Lemmas.WalGroup
/-! # C15 — The consensus write-ahead log returns what was durably written, in order

Property theorems only. The model (`Tmv.Wal`, files `Model/Wal.lean`, `Model/Group.lean`) is the
repaired code (two `fix:` commits, see known-findings.json). Parameters: `P.crc` an arbitrary
function returning 4 bytes, `P.parse` an arbitrary message decoder that rejects the empty payload,
`P.maxLen < 2^32` (`Good P`). Nothing is assumed about the checksum's strength: where the code
relies on it (the repair zero-fills a torn record) the theorems conclude "claim ∨ an explicit
collision". The round-state clause of the property (replay restores height/round/step/lock/votes)
belongs to the consensus model and is not stated here (partial). -/
namespace Tmv.Props.C15
open Tmv Tmv.Wal

/-! ## roundtrip -/

/-- `Encode` accepts a record within the size limit and both decoders (group reader, plain file)
return exactly that record and leave the rest of the stream untouched. -/
theorem roundtrip (P : Params) (G : Good P) (d rest : Bytes) (hv : ValidRec P d) :
    encode P d = some (frame P d) ∧ decodeG P (frame P d ++ rest) = (.msg d, rest) ∧
      decodeF P (frame P d ++ rest) = (.msg d, rest) :=
  ⟨encode_valid P d hv.2.1, decodeG_frame P G d rest hv, decodeF_frame P G d rest hv⟩

/-- A stream of records reads back as the same records, in order, and ends with a clean EOF. -/
theorem roundtrip_stream (P : Params) (G : Good P) (ds : List Bytes) (hv : ∀ d ∈ ds, ValidRec P d) :
    readAllG P (frames P ds) = (ds, .eof) := readAllG_frames P G ds hv

/-- A record above the limit is refused and nothing is written. -/
theorem too_big_refused (P : Params) (S : Nat) (g : Group) (d : Bytes) (h : P.maxLen < d.length) :
    write P S g d = none := by
  unfold write encode
  simp [h]

/-! ## reader soundness -/

/-- Any prefix of the written byte stream (= what a crash can leave) reads back as a prefix of the
written records: exactly those whose frames are whole, in write order, byte-identical; the reader
then stops (never a record that was not written). -/
theorem reader_sound_stream (P : Params) (G : Good P) (ds : List Bytes)
    (hv : ∀ d ∈ ds, ValidRec P d) (n : Nat) :
    ∃ r, r.isMsg = false ∧ readAllG P ((frames P ds).take n) = (ds.take (whole P ds n), r) :=
  readAllG_prefix P G ds hv n

/-- A reader over the whole group (`NewReader(MinIndex)`), when every rotated file holds whole
records and the head file is a prefix of the frames of the records `hs` written to it, returns
the records of the files `minIndex … maxIndex-1` in index order followed by the head records
whose frames are whole — nothing else, and it does not change what is on disk. -/
theorem reader_sound (P : Params) (G : Good P) (g : Group) (hf : FilesOK P g) (hs : List Bytes)
    (hv : ∀ d ∈ hs, ValidRec P d) (n : Nat) (hh : g.head = (frames P hs).take n) :
    (∃ r, r.isMsg = false ∧ (readAll P g).1 =
      (fileRecs P g (List.range' g.minIndex (g.maxIndex - g.minIndex)) ++ hs.take (whole P hs n), r))
      ∧ SameDisk g (readAll P g).2 :=
  ⟨stream_read P G g hf hs hv n hh g.minIndex, sameDisk_touch g g.minIndex⟩

/-- The repair (`repairWalFile`: decode from a plain file until the first error, re-encode) of a
torn log keeps every whole record and adds nothing that was not written — or a checksum
collision between two different payloads of equal length is exhibited. -/
theorem repair_sound (P : Params) (G : Good P) (ds : List Bytes) (hv : ∀ d ∈ ds, ValidRec P d)
    (n : Nat) :
    (∃ k, whole P ds n ≤ k ∧ k ≤ ds.length ∧ repair P ((frames P ds).take n) = frames P (ds.take k))
      ∨ Collision P := repair_prefix P G ds hv n

/-! ## durability across crash, reopen and recovery -/

theorem take_prefix_take {α : Type} (l : List α) {m n : Nat} (h : m ≤ n) : l.take m <+: l.take n := by
  have : l.take m = (l.take n).take m := by rw [List.take_take, Nat.min_eq_left h]
  rw [this]; exact List.take_prefix _ _

/-- `whole P hs g.synced` records of the head are on stable storage (their frames end at or before
the fsync watermark); all records of rotated files are. -/
def durableHead (P : Params) (g : Group) (hs : List Bytes) : List Bytes :=
  hs.take (whole P hs g.synced)

/-- One crash/restart cycle. Before: rotated files hold whole records, `hs` are the records
handed to the head (file + write buffer). The process dies (`crash`, any cut of the unsynced
tail, also inside an unfinished `FlushAndSync`), the WAL is reopened and started, and the
catch-up loop of `State.OnStart` reports success (directly or after one repair). Then:
every rotated file is unchanged, the head holds whole records only (`hw'`), every durable head
record is among them in order (`durableHead … <+: hw'`), and they are written records
(`hw' <+: hs`) or the single height-0 marker `OnStart` puts into an empty head — or a checksum
collision is exhibited. The conclusion re-establishes the hypotheses (`FilesOK`, head ++ buffer =
frames of valid records), and `hist_write`, `hist_sync`, `hist_rotate`, `prune_whole_oldest_files_only`
keep them, so the theorem applies again at the next of any number of successive cycles. -/
theorem durable_returned (P : Params) (G : Good P) (S : Nat) (g : Group) (hf : FilesOK P g)
    (hs : List Bytes) (hv : ∀ d ∈ hs, ValidRec P d) (hc : g.head ++ g.buf = frames P hs)
    (cut hl tl : Nat) (h : Int) (e0 : Bytes) (he : ValidRec P e0) (res : RecoverRes) (g' : Group)
    (dhl dtl : Nat)
    (hrec : recover P S dhl dtl (onStart P S (openGroup (crash g cut) hl tl) e0).1 h e0 = (res, g'))
    (hok : RecoveredOK res) :
    (∀ j, fileAt g' j = fileAt g j) ∧ g'.buf = [] ∧
      ((∃ hw', (∀ d ∈ hw', ValidRec P d) ∧ g'.head = frames P hw' ∧
          durableHead P g hs <+: hw' ∧ (hw' <+: hs ∨ hw' = [e0])) ∨ Collision P) := by
  obtain ⟨k, t, hk1, hk2, hrep, hshape⟩ := crash_rep P G g hs hv hc cut
  -- the reopened group
  have hgo_head : (openGroup (crash g cut) hl tl).head = (crash g cut).head := rfl
  have hgo_buf : (openGroup (crash g cut) hl tl).buf = [] := rfl
  have hgo_files : (openGroup (crash g cut) hl tl).files = g.files := rfl
  -- the torn record, if any
  have hd0 : t = [] ∨ (ValidRec P ((hs[k]?).getD []) ∧ (t.length) < (frame P ((hs[k]?).getD [])).length ∧
      t = (frame P ((hs[k]?).getD [])).take t.length) := by
    rcases hshape with h0 | ⟨d, m, hd, hm, ht⟩
    · exact Or.inl h0
    · right
      rw [hd]
      simp only [Option.getD_some]
      have hl : t.length = m := by rw [ht]; simp [List.length_take]; omega
      exact ⟨hv d (List.mem_of_getElem? hd), by omega, by rw [hl]; exact ht⟩
  -- OnStart: writes the height-0 marker only into an empty head
  have hstart : ∃ hw2 t2 g2, (onStart P S (openGroup (crash g cut) hl tl) e0).1 = g2 ∧
      HeadRep P g2 hw2 t2 ∧ g2.buf = [] ∧ g2.files = g.files ∧
      ((hw2 = hs.take k ∧ t2 = t) ∨ (hs.take k = [] ∧ t = [] ∧ hw2 = [e0] ∧ t2 = [])) := by
    by_cases h0 : (openGroup (crash g cut) hl tl).head.length = 0
    · have hnil : (crash g cut).head = [] := by
        rw [hgo_head] at h0; exact List.length_eq_zero_iff.mp h0
      have hboth : frames P (hs.take k) = [] ∧ t = [] := by
        have := hrep.eq; rw [hnil] at this
        exact List.append_eq_nil_iff.mp this.symm
      have hwnil : hs.take k = [] := by
        cases hq : hs.take k with
        | nil => rfl
        | cons a b =>
          have h8 := hboth.1
          rw [hq, frames_cons] at h8
          have := congrArg List.length h8
          simp [frame_length P G] at this
      obtain ⟨hw3, h3head, h3buf, h3files, _, _, h3shape, _⟩ :=
        onStart_rep P S (openGroup (crash g cut) hl tl) e0 he [] (by rw [hgo_head, hnil]; rfl) hgo_buf G
      have hw3e : hw3 = [e0] := by
        rcases h3shape with h | ⟨_, h⟩
        · exfalso
          unfold onStart at h3head
          simp only [h0, if_true] at h3head
          subst h
          unfold writeSync at h3head
          cases hwr : write P S (openGroup (crash g cut) hl tl) e0 with
          | none =>
            unfold write at hwr
            rw [encode_valid P e0 he.2.1] at hwr
            simp at hwr
          | some g1 =>
            rw [hwr] at h3head
            obtain ⟨h1, _⟩ := write_concat P S _ g1 e0 he.2.1 hwr
            simp only [Option.map_some] at h3head
            have : g1.head ++ g1.buf = [] := h3head
            rw [h1] at this
            have := congrArg List.length this
            simp [frame_length P G] at this
        · exact h
      subst hw3e
      refine ⟨[e0], [], _, rfl, ⟨?_, by rw [h3head]; simp, Or.inl rfl⟩, h3buf, h3files.trans hgo_files,
        Or.inr ⟨hwnil, hboth.2, rfl, rfl⟩⟩
      intro d hd; simp at hd; subst hd; exact he
    · refine ⟨hs.take k, t, _, rfl, ?_, ?_, ?_, Or.inl ⟨rfl, rfl⟩⟩
      · unfold onStart; simp only [h0, if_false]
        exact ⟨hrep.valid, hrep.eq, hrep.torn⟩
      · unfold onStart; simp only [h0, if_false]; rfl
      · unfold onStart; simp only [h0, if_false]; rfl
  obtain ⟨hw2, t2, g2, hg2, hr2, hb2, hfiles2, hcase⟩ := hstart
  rw [hg2] at hrec
  have hf2 : FilesOK P g2 := by
    intro j; rw [fileAt_congr hfiles2 j]; exact hf j
  have hd02 : t2 = [] ∨ (ValidRec P ((hs[k]?).getD []) ∧ (t.length) < (frame P ((hs[k]?).getD [])).length ∧
      t2 = (frame P ((hs[k]?).getD [])).take t.length) := by
    rcases hcase with ⟨_, rfl⟩ | ⟨_, _, _, rfl⟩
    · exact hd0
    · exact Or.inl rfl
  obtain ⟨c1, c2, c3⟩ := recover_clean P G S g2 h e0 he hf2 hw2 t2 hr2 _ _ hd02 hb2 dhl dtl res g' hrec hok
  refine ⟨fun j => (c1 j).trans (fileAt_congr hfiles2 j), c2, ?_⟩
  rcases c3 with ⟨hw', hv', hhead', hafter⟩ | hcol
  · left
    refine ⟨hw', hv', hhead', ?_⟩
    have hdur : durableHead P g hs <+: hs.take k := by
      unfold durableHead
      exact take_prefix_take hs hk1
    rcases hcase with ⟨rfl, rfl⟩ | ⟨hnil, htnil, rfl, rfl⟩
    · rcases hafter with rfl | ⟨htn, rfl⟩ | ⟨hnil, rfl⟩
      · exact ⟨hdur, Or.inl (List.take_prefix _ _)⟩
      · -- the torn record was restored by zero-filling: it is the next written record
        rcases hshape with h0 | ⟨d, m, hd, hm, ht⟩
        · exact absurd h0 htn
        · rw [hd]
          simp only [Option.getD_some]
          have : hs.take k ++ [d] = hs.take (k + 1) := by
            rw [List.take_add_one, hd]; simp
          rw [this]
          exact ⟨hdur.trans (take_prefix_take hs (Nat.le_succ k)),
            Or.inl (List.take_prefix _ _)⟩
      · rw [hnil] at hdur
        exact ⟨hdur.trans (List.nil_prefix), Or.inr rfl⟩
    · rw [hnil] at hdur
      rcases hafter with rfl | ⟨htn, _⟩ | ⟨hx, _⟩
      · exact ⟨hdur.trans (List.nil_prefix), Or.inr rfl⟩
      · exact absurd rfl htn
      · simp at hx
  · right; exact hcol

/-- A write of a valid record between two cycles appends its frame to what was handed to the head;
rotated files, the fsync watermark and the indices do not change. -/
theorem hist_write (P : Params) (S : Nat) (g g' : Group) (d : Bytes) (hd : ValidRec P d)
    (hw : write P S g d = some g') :
    g'.head ++ g'.buf = g.head ++ g.buf ++ frame P d ∧ g'.files = g.files ∧ g'.synced = g.synced ∧
      g'.minIndex = g.minIndex ∧ g'.maxIndex = g.maxIndex ∧ (∃ x, g'.head = g.head ++ x) :=
  write_concat P S g g' d hd.2.1 hw

/-- `FlushAndSync` moves everything handed to the head under the fsync watermark. -/
theorem hist_sync (g : Group) :
    (flushAndSync g).head ++ (flushAndSync g).buf = g.head ++ g.buf ∧
      (flushAndSync g).synced = (g.head ++ g.buf).length ∧ (flushAndSync g).files = g.files := by
  simp [flushAndSync]

/-- A rotation turns everything handed to the head into the rotated file `maxIndex` (fsynced
before the rename) and leaves every other file as it is; the new head is empty. -/
theorem hist_rotate (g : Group) :
    (∀ j, fileAt (rotateFile g) j = if j = g.maxIndex then g.head ++ g.buf else fileAt g j) ∧
      (rotateFile g).head = [] ∧ (rotateFile g).buf = [] ∧ (rotateFile g).maxIndex = g.maxIndex + 1 := by
  refine ⟨?_, rfl, rfl, rfl⟩
  intro j
  unfold fileAt rotateFile
  simp only [flushAndSync]
  rw [lookup_setFile]
  split <;> simp

/-- The marker-missing branch of `catchupReplay` (it writes the previous height's marker) is
not taken by a recovery that reported a successful replay: `durable_returned` is about the state
the real start-up leaves. -/
theorem recover_marker_branch_inert (P : Params) (S dhl dtl : Nat) (g : Group) (h : Int)
    (e0 em : Bytes) (hok : RecoveredOK (recover P S dhl dtl g h e0).1) :
    recoverW P S dhl dtl g h e0 em = recover P S dhl dtl g h e0 := by
  unfold recoverW
  cases hr : recover P S dhl dtl g h e0 with
  | mk res g' =>
    rw [hr] at hok
    simp only
    cases res with
    | first r => cases r <;> first | rfl | exact hok.elim
    | repaired e r w => cases r <;> first | rfl | exact hok.elim

/-! ## pruning -/

/-- The size limit (`checkTotalSizeLimit`) discards only whole oldest files: the head, its buffer
and the indices are untouched; every rotated file is afterwards either exactly as before or gone;
the removed ones existed, are never the head's index, and every file that remains has a larger
index than every removed one. -/
theorem prune_whole_oldest_files_only (k : Nat) (g g' : Group) (rem : List Nat)
    (hr : checkTotalSizeLimit k g = (g', rem)) :
    g'.head = g.head ∧ g'.buf = g.buf ∧ g'.synced = g.synced ∧
    g'.minIndex = g.minIndex ∧ g'.maxIndex = g.maxIndex ∧
    (∀ j, lookupFile g'.files j = if j ∈ rem then none else lookupFile g.files j) ∧
    (∀ x ∈ rem, (lookupFile g.files x).isSome = true ∧ x ≠ (readGroupInfo g).maxIndex) ∧
    (∀ j, (lookupFile g'.files j).isSome = true → ∀ x ∈ rem, x < j) := by
  unfold checkTotalSizeLimit at hr
  split at hr
  · simp only [Prod.mk.injEq] at hr
    obtain ⟨rfl, rfl⟩ := hr
    simp
  · obtain ⟨new, h1, h2, h3, h4⟩ := pruneLoop_spec g.totalLimit (readGroupInfo g) k 0
      (readGroupInfo g).totalSize g.files []
    simp only [List.nil_append] at h1
    simp only [Prod.mk.injEq] at hr
    obtain ⟨rfl, rfl⟩ := hr
    refine ⟨rfl, rfl, rfl, rfl, rfl, ?_, ?_, ?_⟩
    · intro j; rw [h1]; exact h2 j
    · intro x hx; rw [h1] at hx; exact h3 x hx
    · intro j hj x hx
      rw [h1] at hx
      have hjs : (lookupFile g.files j).isSome = true := by
        have := h2 j
        split at this
        · rw [this] at hj; simp at hj
        · rw [this] at hj; exact hj
      exact h4 j (by have := (readGroupInfo_range g j hjs).1; omega) hj x hx

/-! ## searching for the end-height marker -/

/-- `SearchForEndHeight` succeeds only for a marker that was written and is still on disk as a
whole record, and the reader it hands back is positioned right after that marker: what follows
are the written records after it and the head's torn tail, if any. -/
theorem search_sound (P : Params) (G : Good P) (g : Group) (hf : FilesOK P g) (hw : List Bytes)
    (t : Bytes) (hr : HeadRep P g hw t) (h : Int) (ign : Bool) (rest : Bytes)
    (hx : (search P g h ign).1 = .found rest) :
    ∃ suf, (∀ d ∈ suf, ValidRec P d) ∧ rest = frames P suf ++ t ∧ SameDisk g (search P g h ign).2 := by
  obtain ⟨suf, h1, h2⟩ := search_found P G g hf hw t hr h ign rest hx
  exact ⟨suf, h1, h2, search_sameDisk P g h ign⟩

/-- Searching for the end-of-height marker succeeds exactly when the marker is on disk as a whole
record of a file the group still has (by `reader_sound`/`durable_returned` this includes every
fsynced marker whose file was not pruned): `logFrom … minIndex` are the records of the rotated
files `minIndex…` and of the head. Hypotheses, as the code needs them: the search tolerates
corruption (`ign`, as `catchupReplay` calls it) or the head has no torn tail; heights are written
in increasing order, i.e. after a marker `h` only the height-0 marker of `OnStart` or higher
markers follow (otherwise the early exit `0 < lastHeightFound < height` gives up too soon). -/
theorem search_iff_durable_marker (P : Params) (G : Good P) (g : Group) (hf : FilesOK P g)
    (hw : List Bytes) (t : Bytes) (hr : HeadRep P g hw t) (hmin : g.minIndex ≤ g.maxIndex)
    (h : Int) (ign : Bool) (hign : ign = true ∨ t = [])
    (hinc : ∀ pre m suf, logFrom P g hw g.minIndex = pre ++ m :: suf → P.parse m = some (some h) →
      MarkersAbove P h suf) :
    (∃ rest, (search P g h ign).1 = .found rest) ↔
      (∃ d ∈ logFrom P g hw g.minIndex, P.parse d = some (some h)) :=
  search_iff P G g hf hw t hr hmin h ign hign hinc

/-! ## the hypotheses are satisfiable (non-vacuity) -/

/-- a toy instance: checksum = length, a message = any non-empty payload, `[k]` with k<10 = marker k -/
def exP : Params :=
  { crc := fun d => be32 d.length,
    parse := fun d => match d with
      | [] => none
      | [k] => if k.toNat < 10 then some (some k.toNat) else some none
      | _ => some none,
    maxLen := 100 }

example : Good exP := ⟨fun _ => rfl, by decide, rfl⟩
example : ValidRec exP [1] ∧ ValidRec exP [7, 7] := by unfold ValidRec; decide
example : Collision exP := ⟨[1], [2], by decide, rfl, rfl⟩

def exE0 : Bytes := [0]
/-- head file: marker 0, marker 1, a message whose frame is written but not fsynced -/
def exG : Group :=
  { head := frames exP [[0], [1], [7, 7, 0]], synced := 18, isOpen := true }

example : exG.head ++ exG.buf = frames exP [[0], [1], [7, 7, 0]] := rfl
example : FilesOK exP exG := fun _ => ⟨[], by simp, rfl⟩
example : HeadRep exP exG [[0], [1], [7, 7, 0]] [] :=
  ⟨by intro d hd; simp at hd; rcases hd with rfl | rfl | rfl <;> (unfold ValidRec; decide),
   by simp [exG], Or.inl rfl⟩
/-- a crash that tears the last record inside its checksum: repaired, both durable markers kept -/
example : ∃ e ds w, (recover exP 40960 0 0 (onStart exP 40960 (openGroup (crash exG 9) 0 0) exE0).1 2 exE0).1
    = .repaired e (.ok ds) w := ⟨_, _, _, rfl⟩
example : (recover exP 40960 0 0 (onStart exP 40960 (openGroup (crash exG 9) 0 0) exE0).1 2 exE0).2.head
    = frames exP [[0], [1]] := by decide
/-- a crash that loses only the record's last byte, which was zero: the repair restores it -/
example : (recover exP 40960 0 0 (onStart exP 40960 (openGroup (crash exG 1) 0 0) exE0).1 2 exE0).2.head
    = frames exP [[0], [1], [7, 7, 0]] := by decide
/-- the search finds the durable marker 1 and not the never written 2 -/
example : (∃ rest, (search exP exG 1 true).1 = .found rest) := ⟨_, rfl⟩

end Tmv.Props.C15
