import Tmv.Lemmas.WalHistory
import Tmv.Lemmas.WalReader
/-! # C15 — The consensus write-ahead log returns what was durably written, in order

Property theorems only. The model (`Tmv.Wal`, files `Model/Wal.lean`, `Model/Group.lean`) is the
repaired code (two `fix:` commits, see known-findings.json). Parameters: `P.crc` an arbitrary
function returning 4 bytes, `P.parse` an arbitrary message decoder that rejects the empty payload,
`P.maxLen < 2^32` (`Good P`). Nothing is assumed about the checksum's strength: where the code
relies on it (the repair zero-fills a torn record) the theorems conclude "claim ∨ an explicit
collision". The round-state clause of the property (replay restores height/round/step/lock/votes)
belongs to the consensus model and is not stated here (partial). -/
namespace Tmv.Props.C15
open Tmv Tmv.Wal

/-! ## roundtrip -/

/-- `Encode` accepts a record within the size limit and both decoders (group reader, plain file)
return exactly that record and leave the rest of the stream untouched. -/
theorem roundtrip (P : Params) (G : Good P) (d rest : Bytes) (hv : ValidRec P d) :
    encode P d = some (frame P d) ∧ decodeG P (frame P d ++ rest) = (.msg d, rest) ∧
      decodeF P (frame P d ++ rest) = (.msg d, rest) :=
  ⟨encode_valid P d hv.2.1, decodeG_frame P G d rest hv, decodeF_frame P G d rest hv⟩

/-- A stream of records reads back as the same records, in order, and ends with a clean EOF. -/
theorem roundtrip_stream (P : Params) (G : Good P) (ds : List Bytes) (hv : ∀ d ∈ ds, ValidRec P d) :
    readAllG P (frames P ds) = (ds, .eof) := readAllG_frames P G ds hv

/-- A record above the limit is refused and nothing is written. -/
theorem too_big_refused (P : Params) (S : Nat) (g : Group) (d : Bytes) (h : P.maxLen < d.length) :
    write P S g d = none := by
  unfold write encode
  simp [h]

/-! ## reader soundness -/

/-- Any prefix of the written byte stream (= what a crash can leave) reads back as a prefix of the
written records: exactly those whose frames are whole, in write order, byte-identical; the reader
then stops (never a record that was not written). -/
theorem reader_sound_stream (P : Params) (G : Good P) (ds : List Bytes)
    (hv : ∀ d ∈ ds, ValidRec P d) (n : Nat) :
    ∃ r, r.isMsg = false ∧ readAllG P ((frames P ds).take n) = (ds.take (whole P ds n), r) :=
  readAllG_prefix P G ds hv n

/-- A reader over the whole group (`NewReader(MinIndex)`), when every rotated file holds whole
records and the head file is a prefix of the frames of the records `hs` written to it, returns
the records of the files `minIndex … maxIndex-1` in index order followed by the head records
whose frames are whole — nothing else, and it does not change what is on disk. -/
theorem reader_sound (P : Params) (G : Good P) (g : Group) (hf : FilesOK P g) (hs : List Bytes)
    (hv : ∀ d ∈ hs, ValidRec P d) (n : Nat) (hh : g.head = (frames P hs).take n) :
    (∃ r, r.isMsg = false ∧ (readAll P g).1 =
      (fileRecs P g (List.range' g.minIndex (g.maxIndex - g.minIndex)) ++ hs.take (whole P hs n), r))
      ∧ SameDisk g (readAll P g).2 :=
  ⟨stream_read P G g hf hs hv n hh g.minIndex, sameDisk_touch g g.minIndex⟩

/-- The repair (`repairWalFile`: decode from a plain file until the first error, re-encode) of a
torn log keeps every whole record and adds nothing that was not written — or a checksum
collision between two different payloads of equal length is exhibited. -/
theorem repair_sound (P : Params) (G : Good P) (ds : List Bytes) (hv : ∀ d ∈ ds, ValidRec P d)
    (n : Nat) :
    (∃ k, whole P ds n ≤ k ∧ k ≤ ds.length ∧ repair P ((frames P ds).take n) = frames P (ds.take k))
      ∨ Collision P := repair_prefix P G ds hv n

/-! ## durability across crash, reopen and recovery -/

/-- One crash/restart cycle. Before: rotated files hold whole records, `hs` are the records
handed to the head (file + write buffer). The process dies (`crash`, any cut of the unsynced
tail, also inside an unfinished `FlushAndSync`), the WAL is reopened and started, and the
catch-up loop of `State.OnStart` reports success (directly or after one repair). Then:
every rotated file is unchanged, the head holds whole records only (`hw'`), every durable head
record is among them in order (`durableHead … <+: hw'`), and they are written records
(`hw' <+: hs`) or the single height-0 marker `OnStart` puts into an empty head — or a checksum
collision is exhibited. The conclusion re-establishes the hypotheses (`FilesOK`, head ++ buffer =
frames of valid records), and `hist_write`, `hist_sync`, `hist_rotate`, `prune_whole_oldest_files_only`
keep them, so the theorem applies again at the next of any number of successive cycles. -/
theorem durable_returned (P : Params) (G : Good P) (S : Nat) (g : Group) (hf : FilesOK P g)
    (hs : List Bytes) (hv : ∀ d ∈ hs, ValidRec P d) (hc : g.head ++ g.buf = frames P hs)
    (cut hl tl : Nat) (h : Int) (e0 : Bytes) (he : ValidRec P e0) (res : RecoverRes) (g' : Group)
    (dhl dtl : Nat)
    (hrec : recover P S dhl dtl (onStart P S (openGroup (crash g cut) hl tl) e0).1 h e0 = (res, g'))
    (hok : RecoveredOK res) :
    (∀ j, fileAt g' j = fileAt g j) ∧ g'.buf = [] ∧
      ((∃ hw', (∀ d ∈ hw', ValidRec P d) ∧ g'.head = frames P hw' ∧
          durableHead P g hs <+: hw' ∧ (hw' <+: hs ∨ hw' = [e0])) ∨ Collision P) :=
  cycle_clean P G S g hf hs hv hc cut hl tl h e0 he res g' dhl dtl hrec hok

/-- A write of a valid record between two cycles appends its frame to what was handed to the head;
rotated files, the fsync watermark and the indices do not change. -/
theorem hist_write (P : Params) (S : Nat) (g g' : Group) (d : Bytes) (hd : ValidRec P d)
    (hw : write P S g d = some g') :
    g'.head ++ g'.buf = g.head ++ g.buf ++ frame P d ∧ g'.files = g.files ∧ g'.synced = g.synced ∧
      g'.minIndex = g.minIndex ∧ g'.maxIndex = g.maxIndex ∧ (∃ x, g'.head = g.head ++ x) :=
  write_concat P S g g' d hd.2.1 hw

/-- `FlushAndSync` moves everything handed to the head under the fsync watermark. -/
theorem hist_sync (g : Group) :
    (flushAndSync g).head ++ (flushAndSync g).buf = g.head ++ g.buf ∧
      (flushAndSync g).synced = (g.head ++ g.buf).length ∧ (flushAndSync g).files = g.files := by
  simp [flushAndSync]

/-- A rotation turns everything handed to the head into the rotated file `maxIndex` (fsynced
before the rename) and leaves every other file as it is; the new head is empty. -/
theorem hist_rotate (g : Group) :
    (∀ j, fileAt (rotateFile g) j = if j = g.maxIndex then g.head ++ g.buf else fileAt g j) ∧
      (rotateFile g).head = [] ∧ (rotateFile g).buf = [] ∧ (rotateFile g).maxIndex = g.maxIndex + 1 := by
  refine ⟨?_, rfl, rfl, rfl⟩
  intro j
  unfold fileAt rotateFile
  simp only [flushAndSync]
  rw [lookup_setFile]
  split <;> simp

/-- **History theorem** (`Step`, `Steps`, `HInv`, `dlog`/`wlog` in Lemmas/WalHistory.lean). Let a
group satisfy the invariant (`HInv`: rotated files hold whole valid records, head ++ buffer are the
frames of the records handed to it, indices cover the files). Run ANY history `ops1` of writes,
synced writes, syncs, rotations (`checkHeadSizeLimit`), prunings (`checkTotalSizeLimit`), readers
and searches, and crash/reopen/recover cycles (every cut of the unsynced tail, also inside an
unfinished `FlushAndSync`; any limits at reopen; the catch-up loop reported success), reaching
`g1`; then ANY further history `ops2`, reaching `g'`. Then a reader over the whole group at the end
returns `R` with: the durable log of `g1` (`dlog`: everything a successful fsync had covered by
then — rotated files and the head up to the watermark) is `dropped ++ kept`, where `dropped` is
empty unless `ops2` contains a pruning (and then consists of whole oldest files,
`prune_whole_oldest_files_only`), and `kept` is a prefix of `R` — every acknowledged record not in
a pruned file is returned, in write order; and `R` is a sublist of what the log held at the start
followed by what the operations wrote, in that order — nothing unwritten is returned. Or a
checksum collision is exhibited (the repair's zero-filling). -/
theorem durable_returned_history (P : Params) (G : Good P) (S dhl dtl k : Nat) (ops1 ops2 : List HOp)
    (g g1 g' : Group) (hs : List Bytes) (hi : HInv P g hs)
    (st1 : Steps P S dhl dtl k g ops1 g1) (st2 : Steps P S dhl dtl k g1 ops2 g') :
    (∃ dropped kept R e, dlog P g1 = dropped ++ kept ∧ (ops2.any HOp.isPrune = false → dropped = []) ∧
        (readAll P g').1 = (R, e) ∧ e.isMsg = false ∧ kept <+: R ∧
        R.Sublist (wlog P g ++ (ops1 ++ ops2).flatMap HOp.recs))
      ∨ Collision P := by
  rcases history P G S dhl dtl k ops1 g g1 hs hi st1 with ⟨hs1, i1, _, _⟩ | hc
  · rcases history P G S dhl dtl k ops2 g1 g' hs1 i1 st2 with ⟨hs2, i2, ⟨dr, kept, new, e1, e2, e3⟩, _⟩ | hc
    · rcases history P G S dhl dtl k (ops1 ++ ops2) g g' hs hi (Steps.append st1 st2) with ⟨hs3, _, _, w3⟩ | hc
      · obtain ⟨e, he, hr, hdr, hrw⟩ := readAll_inv P G g' hs2 i2
        refine Or.inl ⟨dr, kept, rlog P g', e, e1, e3, hr, he, ?_, (hrw.sublist).trans w3⟩
        exact (List.prefix_append kept new).trans (e2 ▸ hdr)
      · exact Or.inr hc
    · exact Or.inr hc
  · exact Or.inr hc

/-- What `dlog` means right after a successful fsync: everything written so far. -/
theorem sync_makes_durable (P : Params) (G : Good P) (g : Group) (hs : List Bytes) (hi : HInv P g hs) :
    dlog P (flushAndSync g) = wlog P g ∧ wlog P g = filesPart P g ++ hs :=
  ⟨(sync_step P G g hs hi).2.1, wlog_eq P G g hs hi⟩

/-- The marker-missing branch of `catchupReplay` (it writes the previous height's marker) is
not taken by a recovery that reported a successful replay: `durable_returned` is about the state
the real start-up leaves. -/
theorem recover_marker_branch_inert (P : Params) (S dhl dtl : Nat) (g : Group) (h : Int)
    (e0 em : Bytes) (hok : RecoveredOK (recover P S dhl dtl g h e0).1) :
    recoverW P S dhl dtl g h e0 em = recover P S dhl dtl g h e0 := by
  unfold recoverW
  cases hr : recover P S dhl dtl g h e0 with
  | mk res g' =>
    rw [hr] at hok
    simp only
    cases res with
    | first r => cases r <;> first | rfl | exact hok.elim
    | repaired e r w => cases r <;> first | rfl | exact hok.elim

/-! ## pruning -/

/-- The size limit (`checkTotalSizeLimit`) discards only whole oldest files: the head, its buffer
and the indices are untouched; every rotated file is afterwards either exactly as before or gone;
the removed ones existed, are never the head's index, and every file that remains has a larger
index than every removed one. -/
theorem prune_whole_oldest_files_only (k : Nat) (g g' : Group) (rem : List Nat)
    (hr : checkTotalSizeLimit k g = (g', rem)) :
    g'.head = g.head ∧ g'.buf = g.buf ∧ g'.synced = g.synced ∧
    g'.minIndex = g.minIndex ∧ g'.maxIndex = g.maxIndex ∧
    (∀ j, lookupFile g'.files j = if j ∈ rem then none else lookupFile g.files j) ∧
    (∀ x ∈ rem, (lookupFile g.files x).isSome = true ∧ x ≠ (readGroupInfo g).maxIndex) ∧
    (∀ j, (lookupFile g'.files j).isSome = true → ∀ x ∈ rem, x < j) := by
  unfold checkTotalSizeLimit at hr
  split at hr
  · simp only [Prod.mk.injEq] at hr
    obtain ⟨rfl, rfl⟩ := hr
    simp
  · obtain ⟨new, h1, h2, h3, h4⟩ := pruneLoop_spec g.totalLimit (readGroupInfo g) k 0
      (readGroupInfo g).totalSize g.files []
    simp only [List.nil_append] at h1
    simp only [Prod.mk.injEq] at hr
    obtain ⟨rfl, rfl⟩ := hr
    refine ⟨rfl, rfl, rfl, rfl, rfl, ?_, ?_, ?_⟩
    · intro j; rw [h1]; exact h2 j
    · intro x hx; rw [h1] at hx; exact h3 x hx
    · intro j hj x hx
      rw [h1] at hx
      have hjs : (lookupFile g.files j).isSome = true := by
        have := h2 j
        split at this
        · rw [this] at hj; simp at hj
        · rw [this] at hj; exact hj
      exact h4 j (by have := (readGroupInfo_range g j hjs).1; omega) hj x hx

/-! ## searching for the end-height marker -/

/-- `SearchForEndHeight` succeeds only for a marker that was written and is still on disk as a
whole record, and the reader it hands back is positioned right after that marker: what follows
are the written records after it and the head's torn tail, if any. -/
theorem search_sound (P : Params) (G : Good P) (g : Group) (hf : FilesOK P g) (hw : List Bytes)
    (t : Bytes) (hr : HeadRep P g hw t) (h : Int) (ign : Bool) (rest : Bytes)
    (hx : (search P g h ign).1 = .found rest) :
    ∃ suf, (∀ d ∈ suf, ValidRec P d) ∧ rest = frames P suf ++ t ∧ SameDisk g (search P g h ign).2 := by
  obtain ⟨suf, h1, h2⟩ := search_found P G g hf hw t hr h ign rest hx
  exact ⟨suf, h1, h2, search_sameDisk P g h ign⟩

/-- Searching for the end-of-height marker succeeds exactly when the marker is on disk as a whole
record of a file the group still has (by `reader_sound`/`durable_returned` this includes every
fsynced marker whose file was not pruned): `logFrom … minIndex` are the records of the rotated
files `minIndex…` and of the head. Hypotheses, as the code needs them: the search tolerates
corruption (`ign`, as `catchupReplay` calls it) or the head has no torn tail; heights are written
in increasing order, i.e. after a marker `h` only the height-0 marker of `OnStart` or higher
markers follow (otherwise the early exit `0 < lastHeightFound < height` gives up too soon). -/
theorem search_iff_durable_marker (P : Params) (G : Good P) (g : Group) (hf : FilesOK P g)
    (hw : List Bytes) (t : Bytes) (hr : HeadRep P g hw t) (hmin : g.minIndex ≤ g.maxIndex)
    (h : Int) (ign : Bool) (hign : ign = true ∨ t = [])
    (hinc : ∀ pre m suf, logFrom P g hw g.minIndex = pre ++ m :: suf → P.parse m = some (some h) →
      MarkersAbove P h suf) :
    (∃ rest, (search P g h ign).1 = .found rest) ↔
      (∃ d ∈ logFrom P g hw g.minIndex, P.parse d = some (some h)) :=
  search_iff P G g hf hw t hr hmin h ign hign hinc

/-- `search_iff_durable_marker` across histories: after any history (as in
`durable_returned_history`) the search for `#ENDHEIGHT h` succeeds exactly when the marker is among
the records a reader returns (`rlog`: rotated files the group still has + whole records of the head
file); in particular every marker of the durable log — fsynced and not pruned — is found.
Hypotheses as in `search_iff_durable_marker`: tolerant search or nothing in the write buffer, and
heights written in increasing order. -/
theorem search_iff_after_history (P : Params) (G : Good P) (S dhl dtl k : Nat) (ops : List HOp)
    (g g' : Group) (hs : List Bytes) (hi : HInv P g hs) (st : Steps P S dhl dtl k g ops g')
    (h : Int) (ign : Bool) (hign : ign = true ∨ g'.buf = [])
    (hinc : ∀ pre m suf, rlog P g' = pre ++ m :: suf → P.parse m = some (some h) → MarkersAbove P h suf) :
    (((∃ rest, (search P g' h ign).1 = .found rest) ↔ (∃ d ∈ rlog P g', P.parse d = some (some h))) ∧
      ((∃ d ∈ dlog P g', P.parse d = some (some h)) → ∃ rest, (search P g' h ign).1 = .found rest))
      ∨ Collision P := by
  rcases history P G S dhl dtl k ops g g' hs hi st with ⟨hs', i', _, _⟩ | hc
  · left
    obtain ⟨t, hrep, hbuf⟩ := headRep_inv P g' hs' i'
    have hlog : logFrom P g' (hs'.take (whole P hs' g'.head.length)) g'.minIndex = rlog P g' := by
      rw [rlog_eq P G g' hs' i']; rfl
    have hign' : ign = true ∨ t = [] := hign.imp id hbuf
    have key := search_iff P G g' i'.filesOK _ t hrep i'.idx.2 h ign hign' (by rw [hlog]; exact hinc)
    rw [hlog] at key
    refine ⟨key, ?_⟩
    rintro ⟨d, hd, hp⟩
    obtain ⟨_, _, _, hpre, _⟩ := readAll_inv P G g' hs' i'
    exact key.mpr ⟨d, hpre.subset hd, hp⟩
  · exact Or.inr hc

/-! ## readers that stay open -/

/-- **An open reader returns exactly the records from its position on, in order.** The reader model
(`Reader`: file index, offset, pinned content of a file unlinked under it; `readerRead` mirrors
`GroupReader.Read` with the next file chosen under the group lock from the live `maxIndex`;
`readerDecode`/`readerNext` mirror `WALDecoder.Decode` on it). If the bytes ahead of the cursor
are the frames of the valid records `ds` followed by a torn tail, then `rnext n` returns the first
`n` of them (all of them, and why it stopped, when `n` is larger), the cursor is then in front of
the remaining ones, stays inside its file, and the disk is unchanged but for empty files created. -/
theorem open_reader_sound (P : Params) (G : Good P) (t : Bytes) (ht : TornTail P t) (n : Nat)
    (ds : List Bytes) (g : Group) (r : Reader) (hok : ReaderOK g r) (hv : ∀ d ∈ ds, ValidRec P d)
    (hs : readerStream g r = frames P ds ++ t) :
    ∃ e r' g', readerNext P n g r = (ds.take n, e, r', g') ∧ SameDisk g g' ∧ ReaderOK g' r' ∧
      ((n ≤ ds.length ∧ e = none ∧ readerStream g' r' = frames P (ds.drop n) ++ t) ∨
       (ds.length < n ∧ e = some (decodeG P t).1 ∧ readerStream g' r' = [])) := by
  obtain ⟨e, r', g', h1, h2, h3, h4⟩ := readerNext_frames P G t ht n ds g r hok.1 hv hs
  have h5 := readerNext_ok P n g r hok.2
  rw [h1] at h5
  exact ⟨e, r', g', h1, h2, ⟨h3, h5⟩, h4⟩

/-- A reader opened at index `i` (`NewReader(i)`) has ahead of it the records of the rotated files
`i …` and the whole records of the head, in order (`logFrom`), then the head's torn tail. -/
theorem open_reader_start (P : Params) (G : Good P) (g : Group) (hf : FilesOK P g) (hw : List Bytes)
    (t : Bytes) (hr : HeadRep P g hw t) (i : Nat) (hi : i ≤ g.maxIndex) :
    readerStream (readerOpen g i) { idx := i } = frames P (logFrom P g hw i) ++ t ∧
      (∀ d ∈ logFrom P g hw i, ValidRec P d) ∧ ReaderOK (readerOpen g i) { idx := i } := by
  have sd := sameDisk_readerOpen g i
  have hs := streamFrom_rep P G (readerOpen g i) (sd.filesOK hf) hw t (sd.headRep hr) i
  refine ⟨?_, ?_, ⟨by rw [sd.maxIndex]; exact hi, Nat.zero_le _⟩⟩
  · rw [readerStream_fresh _ i (by rw [sd.maxIndex]; exact hi), hs.1]
    unfold logFrom
    rw [sd.fileRecs_eq, sd.maxIndex]
  · intro d hd
    apply hs.2
    unfold logFrom at hd
    rw [sd.fileRecs_eq, sd.maxIndex]
    exact hd

/-- Across the writer's operations an open reader loses nothing and sees nothing out of order:
what was ahead of it stays ahead, and what the operation put into the head file is appended —
for a write that flushed part of the buffer or a `FlushAndSync` (the head file grew by `x`) … -/
theorem open_reader_across_head_growth (g g' : Group) (r : Reader) (x : Bytes)
    (hf : g'.files = g.files) (hm : g'.maxIndex = g.maxIndex) (hh : g'.head = g.head ++ x)
    (hok : ReaderOK g r) (hp : r.idx = g.maxIndex → r.pinned = none) :
    readerStream g' r = readerStream g r ++ x := readerStream_grow g g' r x hf hm hh hok hp

/-- … and for a rotation (the reader's index keeps naming the same file, which is now a rotated
one; the next file is looked up with the new `maxIndex`). -/
theorem open_reader_across_rotate (g : Group) (r : Reader) (hok : ReaderOK g r)
    (hp : r.idx = g.maxIndex → r.pinned = none) :
    readerStream (rotateFile g) r = readerStream g r ++ g.buf := readerStream_rotate g r hok hp

/-- Under pruning (the stated relaxation): the reader keeps reading the file it is in even if that
file was removed; each file ahead of it is either unchanged or, if removed, gone as a whole. -/
theorem open_reader_under_prune (k : Nat) (g g' : Group) (rem : List Nat) (r : Reader)
    (hr : checkTotalSizeLimit k g = (g', rem)) :
    (∀ p ∈ pinReaders g rem [("r", r)], readerContent g' p.2 = readerContent g r ∧ p.2.off = r.off ∧
      p.2.idx = r.idx) ∧
    (∀ j, fileAt g' j = if j ∈ rem then [] else fileAt g j) ∧ g'.head = g.head ∧
      g'.maxIndex = g.maxIndex := reader_prune k g g' rem r hr

/-! ## single-byte corruption -/

/-- Hypothesis `DetectsByteFlips P`: changing one byte of a payload changes its checksum. It is
true of CRC-32C (every error burst of at most 32 bits is detected), hence of the driver's
instance; it is not proved here and is used by `flip_detected` only.

`flip_detected`: one byte of one record's frame is changed (`i` = offset in the frame), records
`pre` before and `post` after it are intact.
* checksum field (`i < 4`) or payload (`8 ≤ i`): a reader returns exactly `pre` and stops with
  "checksums do not match" at the damaged record; the decoder is left exactly at the next record
  (so `SearchForEndHeight` with `IgnoreDataCorruptionErrors` goes on with `post`);
* length field (`4 ≤ i < 8`): the reader returns exactly `pre` and stops at the damaged record
  (too big / short read / checksum / decoder), unless the bytes the wrong length selects carry
  the written record's checksum — two byte strings of different length with the same checksum.
In no case is something returned that was not written, short of such a collision. -/
theorem flip_detected (P : Params) (G : Good P) (hdet : DetectsByteFlips P)
    (pre post : List Bytes) (d : Bytes) (hpre : ∀ x ∈ pre, ValidRec P x) (hd : ValidRec P d)
    (i : Nat) (b : UInt8) (hne : (frame P d).set i b ≠ frame P d) :
    ((i < 4 ∨ 8 ≤ i) →
      readAllG P (frames P pre ++ ((frame P d).set i b ++ frames P post)) = (pre, .corrupt .crcMismatch) ∧
      decodeG P ((frame P d).set i b ++ frames P post) = (.corrupt .crcMismatch, frames P post)) ∧
    ((4 ≤ i ∧ i < 8) →
      (readAllG P (frames P pre ++ ((frame P d).set i b ++ frames P post))).1 = pre ∨
        ∃ x, x.length ≠ d.length ∧ P.crc x = P.crc d) :=
  flip_detected_stream P G hdet pre post d hpre hd i b hne

/-- per region: payload, checksum field, length field -/
theorem flip_payload_rejected (P : Params) (G : Good P) (hdet : DetectsByteFlips P) (d rest : Bytes)
    (hv : ValidRec P d) (i : Nat) (b : UInt8) (hne : d.set i b ≠ d) :
    decodeG P (P.crc d ++ (be32 d.length ++ (d.set i b ++ rest))) = (.corrupt .crcMismatch, rest) :=
  flip_payload P G hdet d rest hv i b hne

theorem flip_crc_rejected (P : Params) (G : Good P) (d rest : Bytes) (hv : ValidRec P d) (i : Nat)
    (b : UInt8) (hne : (P.crc d).set i b ≠ P.crc d) :
    decodeG P ((P.crc d).set i b ++ (be32 d.length ++ (d ++ rest))) = (.corrupt .crcMismatch, rest) :=
  flip_crc P G d rest hv i b hne

theorem flip_length_rejected_or_collision (P : Params) (G : Good P) (d rest : Bytes) (i : Nat)
    (b : UInt8) (hne : (be32 d.length).set i b ≠ be32 d.length) :
    (decodeG P (P.crc d ++ ((be32 d.length).set i b ++ (d ++ rest)))).1.isMsg = false ∨
      ∃ x, (decodeG P (P.crc d ++ ((be32 d.length).set i b ++ (d ++ rest)))).1 = .msg x ∧
        x.length ≠ d.length ∧ P.crc x = P.crc d :=
  flip_length P G d rest i b hne

/-! ## the hypotheses are satisfiable (non-vacuity) -/

/-- a toy instance: checksum = length, a message = any non-empty payload, `[k]` with k<10 = marker k -/
def exP : Params :=
  { crc := fun d => be32 d.length,
    parse := fun d => match d with
      | [] => none
      | [k] => if k.toNat < 10 then some (some k.toNat) else some none
      | _ => some none,
    maxLen := 100 }

example : Good exP := ⟨fun _ => rfl, by decide, rfl⟩
example : ValidRec exP [1] ∧ ValidRec exP [7, 7] := by unfold ValidRec; decide
example : Collision exP := ⟨[1], [2], by decide, rfl, rfl⟩

def exE0 : Bytes := [0]
/-- head file: marker 0, marker 1, a message whose frame is written but not fsynced -/
def exG : Group :=
  { head := frames exP [[0], [1], [7, 7, 0]], synced := 18, isOpen := true }

example : exG.head ++ exG.buf = frames exP [[0], [1], [7, 7, 0]] := rfl
example : FilesOK exP exG := fun _ => ⟨[], by simp, rfl⟩
example : HeadRep exP exG [[0], [1], [7, 7, 0]] [] :=
  ⟨by intro d hd; simp at hd; rcases hd with rfl | rfl | rfl <;> (unfold ValidRec; decide),
   by simp [exG], Or.inl rfl⟩
/-- a crash that tears the last record inside its checksum: repaired, both durable markers kept -/
example : ∃ e ds w, (recover exP 40960 0 0 (onStart exP 40960 (openGroup (crash exG 9) 0 0) exE0).1 2 exE0).1
    = .repaired e (.ok ds) w := ⟨_, _, _, rfl⟩
example : (recover exP 40960 0 0 (onStart exP 40960 (openGroup (crash exG 9) 0 0) exE0).1 2 exE0).2.head
    = frames exP [[0], [1]] := by decide
/-- a crash that loses only the record's last byte, which was zero: the repair restores it -/
example : (recover exP 40960 0 0 (onStart exP 40960 (openGroup (crash exG 1) 0 0) exE0).1 2 exE0).2.head
    = frames exP [[0], [1], [7, 7, 0]] := by decide
/-- the search finds the durable marker 1 and not the never written 2 -/
example : (∃ rest, (search exP exG 1 true).1 = .found rest) := ⟨_, rfl⟩

theorem ex_sum_set (d : Bytes) : ∀ (i : Nat) (b : UInt8) (hi : i < d.length),
    ((d.set i b).map UInt8.toNat).sum + (d[i]).toNat = (d.map UInt8.toNat).sum + b.toNat := by
  induction d with
  | nil => intro i b hi; simp at hi
  | cons a t ih =>
    intro i b hi
    cases i with
    | zero => simp; omega
    | succ j =>
      have := ih j b (by simpa using hi)
      simp only [List.set_cons_succ, List.map_cons, List.sum_cons, List.getElem_cons_succ]
      omega

/-- a toy checksum that detects single-byte changes: the byte sum modulo 256 -/
def exQ : Params := { exP with crc := fun d => be32 ((d.map UInt8.toNat).sum % 256) }

example : DetectsByteFlips exQ := by
  intro d i b hne hcrc
  have hi : i < d.length := by
    rcases Nat.lt_or_ge i d.length with h | h
    · exact h
    · exact absurd (List.set_eq_of_length_le h) hne
  have hb : b ≠ d[i] := by
    intro e; apply hne; rw [e]; exact List.set_getElem_self hi
  have hs := ex_sum_set d i b hi
  simp only [List.map_set] at hs
  have h4 := congrArg (fun l => (l.getD 3 0).toNat) hcrc
  simp [exQ, be32, List.getD] at h4
  have h1 := b.toNat_lt
  have h2 := (d[i]).toNat_lt
  apply hb
  apply UInt8.toNat_inj.mp
  omega

example : HInv exP exG [[0], [1], [7, 7, 0]] :=
  ⟨fun _ => ⟨[], by simp, rfl⟩, ⟨fun j hj => absurd rfl hj, Nat.le_refl _⟩,
   by intro d hd; simp at hd; rcases hd with rfl | rfl | rfl <;> (unfold ValidRec; decide),
   by simp [exG], by decide⟩

/-- an open reader on the toy instance: in front of three records, it returns the first two -/
example : ReaderOK exG { idx := 0 } ∧ readerStream exG { idx := 0 } = frames exP [[0], [1], [7, 7, 0]] ++ [] :=
  ⟨⟨by decide, by decide⟩, by decide⟩
example : (readerNext exP 2 exG { idx := 0 }).1 = [[0], [1]] := by decide

/-- a history on the toy instance: a synced write, then a crash that tears nothing durable, the
reopening and a successful catch-up -/
example : ∃ g', Steps exP 40960 0 0 4 exG [.writeSync [8, 8], .restart 5 0 0 2 exE0] g' := by
  have hv : ValidRec exP [8, 8] := by unfold ValidRec; decide
  have he : ValidRec exP exE0 := by unfold ValidRec; decide
  refine ⟨_, Steps.cons (Step.writeSync (g' := ((writeSync exP 40960 exG [8, 8]).getD exG)) hv rfl)
    (Steps.cons (Step.restart (res := (recover exP 40960 0 0 (onStart exP 40960 (openGroup (crash
      ((writeSync exP 40960 exG [8, 8]).getD exG) 5) 0 0) exE0).1 2 exE0).1) he rfl ?_) Steps.nil)⟩
  have : (recover exP 40960 0 0 (onStart exP 40960 (openGroup (crash
      ((writeSync exP 40960 exG [8, 8]).getD exG) 5) 0 0) exE0).1 2 exE0).1 = .first (.ok [[7, 7, 0], [8, 8]]) := rfl
  rw [this]; trivial


end Tmv.Props.C15
