import Tmv.Lemmas.LightRestart
/-! C09 — the light client only trusts headers reachable by valid verification steps; a header is
accepted by the forward paths only if some witness returned the identical header; a backed
conflicting header yields the attack error with evidence. Theorems about the model
`Tmv/Model/Light.lean` (statement-by-statement model of light/verifier.go, client.go, detector.go,
store/db), quantified over all providers (arbitrary functions of call history and height), all
schedulers (arrival orders of witness replies), all client call sequences and all fuel values. -/
namespace Tmv.Props.C09
open Tmv.Light

/-! ## trust level -/

/-- `ValidateTrustLevel` accepts only fractions in [1/3, 1] — despite the wrapping uint64
multiplication `Numerator*3`. -/
theorem trust_level_sound (l : Fraction) (hn : l.num < 2 ^ 64) (hd : l.den < 2 ^ 64)
    (h : validateTrustLevel l = true) : 0 < l.den ∧ l.num ≤ l.den ∧ l.den ≤ 3 * l.num := by
  simp [validateTrustLevel] at h
  obtain ⟨⟨h1, h2⟩, h3⟩ := h
  refine ⟨by omega, h2, ?_⟩
  by_cases hw : l.num * 3 < 2 ^ 64
  · rw [Nat.mod_eq_of_lt hw] at h1; omega
  · omega

example : validateTrustLevel ⟨1, 3⟩ = true ∧ validateTrustLevel ⟨2 ^ 63, 2 ^ 63 + 1⟩ = false := by decide

/-! ## verification steps -/

/-- whatever `Verify` accepts is a valid step of the statement -/
theorem verified_step_valid {cfg : Config} {t u : LightBlock} {now : Int}
    (h : verify cfg t u now = .ok ()) : ValidStep cfg now t u := verify_sound h

/-- whatever `VerifyBackwards` accepts is a hash-link step -/
theorem verified_backstep_valid {u t : LightBlock} (h : verifyBackwards u t = true) : BackStep t u :=
  verifyBackwards_sound h

/-! ## trusting period -/

/-- the statement's "within the trusting period" is the code's notion: the TRUSTED header of the step
is not expired at the local time `now` (`HeaderExpired`: expiration time `time + period` not after
`now`), with the boundary on the expired side -/
theorem valid_step_within_trusting_period {cfg : Config} {now : Int} {a b : LightBlock}
    (h : ValidStep cfg now a b) : headerExpired a cfg.period now = false := by
  have := h.2.2.2.2.2.2.2.2.2
  simp [headerExpired]; omega

theorem header_expired_iff (t : LightBlock) (p now : Int) :
    headerExpired t p now = true ↔ t.time + p ≤ now := headerExpired_iff t p now

/-- from an expired trusted header no forward step is accepted at all — adjacent or skipping, for any
new header, however well signed -/
theorem expired_header_never_steps {cfg : Config} {t u : LightBlock} {now : Int}
    (h : headerExpired t cfg.period now = true) : verify cfg t u now = .error .expired :=
  verify_expired ((headerExpired_iff _ _ _).mp h)

/-- so with an expired latest trusted block `verifyLightBlock` (and with it `Update` and
`VerifyLightBlockAtHeight` at or above the latest height) stores nothing new, in both modes, whatever
the providers serve (long gaps cannot be bridged once the period is over) -/
theorem forward_from_expired_rejected {c : Client} {latest new : LightBlock} {now : Int}
    (hl : c.latest = some latest) (hge : new.height ≥ latest.height)
    (h : headerExpired latest c.cfg.period now = true) :
    (verifyLightBlock c new now).2 ≠ .ok () := by
  have h' := (headerExpired_iff _ _ _).mp h
  intro e
  unfold verifyLightBlock at e
  simp only [hl, if_pos hge] at e
  cases hseq : c.cfg.sequential with
  | true =>
    simp only [hseq, if_true] at e
    have := verifySequential_expired (new := new) h'
    cases hv : (verifySequential c latest new now).2 with
    | ok u => exact this hv
    | error er => rw [hv] at e; cases e
  | false =>
    simp only [hseq, Bool.false_eq_true, if_false] at e
    have := vsap_expired now latest c.cfg.fuel c new h'
    cases hv : (verifySkippingAgainstPrimary now latest c.cfg.fuel c new).2 with
    | ok u => exact this hv
    | error er => rw [hv] at e; cases e

/-! ## the trusted store -/

/-- a client call of the public API, with the arrival-order scheduler in force during the call -/
inductive Op
  | verify (height now : Int) (sched : List Prov → List Nat)
  | update (now : Int) (sched : List Prov → List Nat)

def runOp (c : Client) : Op → Client
  | .verify h now s => (verifyLightBlockAtHeight { c with sched := s } h now).1
  | .update now s => (update { c with sched := s } now).1

def runOps (c : Client) (ops : List Op) : Client := ops.foldl runOp c

theorem runOp_inv {cfg : Config} {root : Hash → Prop} {c : Client} (h : Inv cfg root c) (op : Op) :
    Inv cfg root (runOp c op) := by
  have h' : ∀ s, Inv cfg root { c with sched := s } := fun s => ⟨h.1, h.2.1, h.2.2⟩
  cases op with
  | verify ht now s => exact verifyLightBlockAtHeight_inv (h' s) (Prod.ext rfl rfl)
  | update now s => exact update_inv (h' s) (Prod.ext rfl rfl)

/-- **stored_reachable.** After `NewClient` with trust hash `root` and ANY sequence of
`VerifyLightBlockAtHeight` / `Update` calls — for every behaviour of the primary and the witnesses,
every arrival order of witness replies, every `now`, every primary replacement — every light block
in the trusted store (and the cached latest block) is reachable from the trust root by steps that
`Verify` / `VerifyBackwards` accepted, i.e. by valid steps of the statement. -/
theorem stored_reachable {cfg : Config} {primary : Prov} {witnesses : List Prov}
    {sched : List Prov → List Nat} {period height : Int} {root : Hash} {c0 : Client}
    (hnew : newClient cfg primary witnesses sched period height root = .ok c0) (ops : List Op) :
    (∀ b ∈ (runOps c0 ops).store.blocks, Reach cfg (· = root) b) ∧
    (∀ l, (runOps c0 ops).latest = some l → Reach cfg (· = root) l) := by
  have : ∀ (ops : List Op) (c : Client), Inv cfg (· = root) c → Inv cfg (· = root) (runOps c ops) := by
    intro ops
    induction ops with
    | nil => intro c h; exact h
    | cons op rest ih => intro c h; exact ih _ (runOp_inv h op)
  exact (this ops c0 (newClient_inv hnew)).2

/-- the first stored block is the trust root itself -/
theorem new_client_stores_root {cfg : Config} {primary : Prov} {witnesses : List Prov}
    {sched : List Prov → List Nat} {period height : Int} {root : Hash} {c0 : Client}
    (hnew : newClient cfg primary witnesses sched period height root = .ok c0) :
    ∀ b ∈ c0.store.blocks, Reach cfg (· = root) b := (newClient_inv hnew).2.1

theorem runOp_cinv {c : Client} (h : CInv c) (op : Op) : CInv (runOp c op) := by
  have h' : ∀ s, CInv { c with sched := s } := fun s => ⟨⟨h.1.1, h.1.2⟩, h.2.1, h.2.2⟩
  cases op with
  | verify ht now s => exact verifyLightBlockAtHeight_cinv (h' s) (Prod.ext rfl rfl)
  | update now s => exact update_cinv (h' s) (Prod.ext rfl rfl)

/-- **stored_valsets_committed.** If the providers obey their contract (every light block they hand
over carries the validator set its header commits to — what `LightBlock.ValidateBasic` in both
providers of /repo enforces), then after `NewClient` and any sequence of calls every trusted block
(store and cached latest) carries the validator set its header commits to — also the blocks stored
by backwards verification and after primary replacement, where the client itself does not check it.
Hence the "previous trusted set" of every later `ValidStep` from a stored block is the set named by
that trusted header. -/
theorem stored_valsets_committed {cfg : Config} {primary : Prov} {witnesses : List Prov}
    {sched : List Prov → List Nat} {period height : Int} {root : Hash} {c0 : Client}
    (hp : ProvOK primary) (hw : ∀ w ∈ witnesses, ProvOK w)
    (hnew : newClient cfg primary witnesses sched period height root = .ok c0) (ops : List Op) :
    (∀ b ∈ (runOps c0 ops).store.blocks, Committed b) ∧
    (∀ l, (runOps c0 ops).latest = some l → Committed l) := by
  have : ∀ (ops : List Op) (c : Client), CInv c → CInv (runOps c ops) := by
    intro ops
    induction ops with
    | nil => intro c h; exact h
    | cons op rest ih => intro c h; exact ih _ (runOp_cinv h op)
  exact (this ops c0 (newClient_cinv hp hw hnew)).2

/-! ### the whole life of a trusted store: restarts, rollback, cleanup, `VerifyHeader`, pruning -/

/-- everything that can happen to a trusted store between its creation and now -/
inductive SOp
  | call (op : Op)
  /-- `VerifyHeader` for a header given by hash and height -/
  | verifyHeader (hash : Hash) (height now : Int) (sched : List Prov → List Nat)
  /-- `Cleanup` -/
  | cleanup
  /-- `NewClientFromTrustedStore` over the existing store (possibly other providers) -/
  | restart (primary : Prov) (witnesses : List Prov) (sched : List Prov → List Nat)
  /-- `NewClient` with trust options over the existing store: `checkTrustedHeaderUsingOptions`
  (comparison with the primary, rollback by `cleanupAfter`, `Cleanup` on mismatch) and, if needed,
  `initializeWithTrustOptions` -/
  | restartWithOptions (primary : Prov) (witnesses : List Prov) (sched : List Prov → List Nat)
      (period height : Int) (hash : Hash)

/-- a failing constructor leaves the store as the constructor left it; the session goes on with it -/
def runSOp (cfg : Config) (c : Client) : SOp → Client
  | .call op => runOp c op
  | .verifyHeader hash height now s => (verifyHeader { c with sched := s } hash height now).1
  | .cleanup => cleanup c
  | .restart p ws s => (newClientOn c cfg p ws s false 0 0 0).1
  | .restartWithOptions p ws s period height hash => (newClientOn c cfg p ws s true period height hash).1

def runSOps (cfg : Config) (c : Client) (ops : List SOp) : Client := ops.foldl (runSOp cfg) c

/-- the trust hashes the user supplied during the session -/
def suppliedRoots (root0 : Hash) (ops : List SOp) (h : Hash) : Prop :=
  h = root0 ∨ ∃ p ws s period height, SOp.restartWithOptions p ws s period height h ∈ ops

/-- **stored_reachable over the whole life of the store.** Start with `NewClient` (trust hash
`root0`) and apply ANY sequence of public operations — verification calls, `VerifyHeader`, `Cleanup`,
restarts from the existing store with or without new trust options (including rollback to an older
height and the wipe on a hash mismatch), with the store pruned to its maximum size after every
insertion (`cfg.pruning`): at every moment every block left in the store, and the cached latest
block, is reachable by valid steps from a header whose hash the user supplied as a trust option at
some (re)start. Pruning and rollback only remove blocks; what stays keeps its chain (the chain may
run through blocks that have been pruned since). The configuration (`cfg`: trusting period, trust
level, drift, mode) is the same at every restart. -/
theorem stored_reachable_session {cfg : Config} {primary : Prov} {witnesses : List Prov}
    {sched : List Prov → List Nat} {period height : Int} {root0 : Hash} {c0 : Client}
    (hnew : newClient cfg primary witnesses sched period height root0 = .ok c0) (ops : List SOp) :
    (∀ b ∈ (runSOps cfg c0 ops).store.blocks, Reach cfg (suppliedRoots root0 ops) b) ∧
    (∀ l, (runSOps cfg c0 ops).latest = some l → Reach cfg (suppliedRoots root0 ops) l) := by
  have step : ∀ (R : Hash → Prop) (c : Client) (op : SOp), Inv cfg R c →
      (∀ p ws s period height h, op = SOp.restartWithOptions p ws s period height h → R h) →
      Inv cfg R (runSOp cfg c op) := by
    intro R c op hi hr
    cases op with
    | call op => exact runOp_inv hi op
    | verifyHeader hash height now s =>
      exact verifyHeader_inv (c := { c with sched := s }) ⟨hi.1, hi.2.1, hi.2.2⟩
    | cleanup => exact cleanup_inv hi
    | restart p ws s => exact newClientOn_inv hi (fun h => by cases h)
    | restartWithOptions p ws s period height hash =>
      exact newClientOn_inv hi (fun _ => hr p ws s period height hash rfl)
  have all : ∀ (R : Hash → Prop) (ops : List SOp) (c : Client), Inv cfg R c →
      (∀ p ws s period height h, SOp.restartWithOptions p ws s period height h ∈ ops → R h) →
      Inv cfg R (runSOps cfg c ops) := by
    intro R ops
    induction ops with
    | nil => intro c h _; exact h
    | cons op rest ih =>
      intro c h hr
      refine ih _ (step R c op h ?_) ?_
      · intro p ws s period height hh e
        exact hr p ws s period height hh (by rw [e]; exact List.mem_cons_self)
      · intro p ws s period height hh e
        exact hr p ws s period height hh (List.mem_cons_of_mem _ e)
  have h0 : Inv cfg (suppliedRoots root0 ops) c0 := by
    have := newClient_inv hnew
    exact ⟨this.1, fun b hb => (this.2.1 b hb).mono (fun h e => Or.inl e),
      fun l hl => (this.2.2 l hl).mono (fun h e => Or.inl e)⟩
  exact (all _ ops c0 h0 (fun p ws s period height h e => Or.inr ⟨p, ws, s, period, height, e⟩)).2

/-- pruning in isolation: `Prune` and `DeleteLightBlock` only remove blocks -/
theorem prune_only_removes (s : Store) (n : Nat) : ∀ b ∈ (s.prune n).blocks, b ∈ s.blocks :=
  fun _ hb => mem_prune hb

/-- one link of a trust chain: a valid forward step at some local time, a backward hash link, or
re-labelling by header hash -/
inductive Link (cfg : Config) : LightBlock → LightBlock → Prop
  | fwd (a b : LightBlock) (now : Int) : ValidStep cfg now a b → Link cfg a b
  | back (a b : LightBlock) : BackStep a b → Link cfg a b
  | same (a b : LightBlock) : b.hash = a.hash → Link cfg a b

/-- reachability read literally: there is a chain of links from a block carrying the trust-root
hash to the block -/
theorem reach_chain {cfg : Config} {root : Hash → Prop} {b : LightBlock} (h : Reach cfg root b) :
    ∃ l : List LightBlock, (∃ b0, l.head? = some b0 ∧ root b0.hash) ∧ l.getLast? = some b ∧
      Chain (Link cfg) l := by
  induction h with
  | root b hb => exact ⟨[b], ⟨b, rfl, hb⟩, rfl, trivial⟩
  | fwd a b now _ hs ih =>
    obtain ⟨l, ⟨b0, h0, hr⟩, hl, hc⟩ := ih
    exact ⟨l ++ [b], ⟨b0, by rw [head?_append_of_getLast? hl]; exact h0, hr⟩, by simp,
      chain_append l a b hc hl (Link.fwd a b now hs)⟩
  | back a b _ hs ih =>
    obtain ⟨l, ⟨b0, h0, hr⟩, hl, hc⟩ := ih
    exact ⟨l ++ [b], ⟨b0, by rw [head?_append_of_getLast? hl]; exact h0, hr⟩, by simp,
      chain_append l a b hc hl (Link.back a b hs)⟩
  | same a b _ hs ih =>
    obtain ⟨l, ⟨b0, h0, hr⟩, hl, hc⟩ := ih
    exact ⟨l ++ [b], ⟨b0, by rw [head?_append_of_getLast? hl]; exact h0, hr⟩, by simp,
      chain_append l a b hc hl (Link.same a b hs)⟩

/-! ## the detector -/

/-- **detector_confirms_only_identical.** If the cross-check succeeds then some current witness
answered some request with a light block whose header hash is the hash of the verified header —
for every witness behaviour and every arrival order. -/
theorem detector_confirms_only_identical {c : Client} {trace : List LightBlock} {now : Int}
    {c' : Client} (e : detectDivergence c trace now = (c', .ok ())) :
    ∃ h, trace.getLast? = some h ∧
      ∃ (i : Nat) (w : Prov), c.witnesses[i]? = some w ∧ Replied w h.hash :=
  ((detectDivergence_spec e).2 rfl).2

/-- **unresponsive_never_confirms.** Witnesses that never return the identical header (silent,
missing, erroring, or lying with other headers) never make the cross-check succeed. -/
theorem unresponsive_never_confirms {c : Client} {trace : List LightBlock} {now : Int} {h : LightBlock}
    (hl : trace.getLast? = some h)
    (hw : ∀ w ∈ c.witnesses, ¬ Replied w h.hash) :
    (detectDivergence c trace now).2 ≠ .ok () := by
  intro e
  obtain ⟨h', hl', i, w, hi, hr⟩ := detector_confirms_only_identical (Prod.ext rfl e)
  rw [hl] at hl'
  injection hl' with hl'
  subst hl'
  exact hw w (List.mem_of_getElem? hi) hr

/-- a witness that only ever errors is a special case -/
theorem erroring_witnesses_never_confirm {c : Client} {trace : List LightBlock} {now : Int}
    (hw : ∀ w ∈ c.witnesses, ∀ n ht, ∃ e, w.script n ht = .err e) :
    (detectDivergence c trace now).2 ≠ .ok () := by
  intro e
  obtain ⟨h', _, i, w, hi, n, ht, lb, hs, _⟩ := detector_confirms_only_identical (Prod.ext rfl e)
  obtain ⟨er, he⟩ := hw w (List.mem_of_getElem? hi) n ht
  rw [he] at hs
  cases hs

/-- the forward paths store a header only after a successful cross-check of a trace ending in it:
`verifySequential` -/
theorem sequential_accepts_only_confirmed {c : Client} {trusted new : LightBlock} {now : Int}
    {c' : Client} (e : verifySequential c trusted new now = (c', .ok ())) :
    ∃ c1 trace h, detectDivergence c1 trace now = (c', .ok ()) ∧ trace.getLast? = some h ∧
      ∃ (i : Nat) (w : Prov), c1.witnesses[i]? = some w ∧ Replied w h.hash := by
  unfold verifySequential at e
  split at e
  · cases e
  · rename_i c1 trace _
    obtain ⟨h, hl, hw⟩ := detector_confirms_only_identical e
    exact ⟨c1, trace, h, e, hl, hw⟩

/-- **accepted_needs_identical_witness.** `verifyLightBlock` stores a new block through the forward
or in-between path (sequential or skipping, with or without primary replacement) only if, during
the call, some witness answered with a light block whose header hash is the hash of the stored
header. (Only backwards verification — below the first trusted height — stores without witnesses;
it follows hash links from a trusted header.) -/
theorem accepted_needs_identical_witness {c : Client} {new : LightBlock} {now : Int} {c' : Client}
    (e : verifyLightBlock c new now = (c', .ok ())) :
    (∃ latest, c.latest = some latest ∧ new.height < latest.height ∧ new.height < c.store.firstHeight) ∨
    SomeWitnessReplied new.hash := by
  unfold verifyLightBlock at e
  split at e
  · cases e
  · rename_i latest hl
    simp only at e
    split at e
    · cases e
    · rename_i hv
      split at hv
      · right
        split at hv
        · exact verifySequential_confirmed (Prod.ext rfl hv)
        · exact vsap_confirmed now latest _ _ _ _ (Prod.ext rfl hv)
      · rename_i hge
        split at hv
        · rename_i hlt
          exact Or.inl ⟨latest, hl, by omega, hlt⟩
        · right
          split at hv
          · cases hv
          · split at hv
            · exact verifySequential_confirmed (Prod.ext rfl hv)
            · exact vsap_confirmed now _ _ _ _ _ (Prod.ext rfl hv)

/-! ## skipping verification -/

/-- **skipping_trace_valid.** The trace `verifySkipping` returns (bisection with the pivot cache, any
source behaviour, any fuel) starts at the trusted block, ends at the new block and every
consecutive pair is a valid step. -/
theorem skipping_trace_valid {cfg : Config} {k : Calls} {src : Prov} {trusted new : LightBlock}
    {now : Int} {k' : Calls} {tr : List LightBlock}
    (e : verifySkipping cfg k src trusted new now = (k', .ok tr)) :
    Chain (ValidStep cfg now) tr ∧ tr.head? = some trusted ∧ tr.getLast? = some new := by
  unfold verifySkipping at e
  have := skipLoop_trace cfg now src new _ _ _ _ _ _ _ _ (by exact trivial) (by simp) e tr rfl
  exact ⟨this.1, by simpa using this.2.2, this.2.1⟩

/-! ## conflicting headers -/

/-- **conflict_reported** (handler level). If the witness backs its conflicting header along the
primary's trace (`examineConflictingHeaderAgainstTrace` succeeds with a non-empty witness trace),
`handleConflictingHeaders` returns `ErrLightClientAttack`, evidence against the primary's block has
been sent to the witness, and — when the primary in turn backs its block along the witness trace —
evidence against the witness's block has been sent to the primary. (`hpne` excludes the code's
index-out-of-range corner: an empty primary trace, which needs two different headers of equal hash.) -/
theorem conflict_reported {c : Client} {trace : List LightBlock} {b : LightBlock} {idx : Nat} {now : Int}
    {sup : Prov} {k1 : Calls} {wtrace : List LightBlock} {pb : LightBlock}
    (hw : c.witnesses[idx]? = some sup)
    (hex : examine c.cfg now trace b c.calls sup = (k1, some (wtrace, pb)))
    (hne : wtrace ≠ [])
    (hpne : ∀ k2 wb, examine c.cfg now wtrace pb k1 c.primary ≠ (k2, some ([], wb))) :
    ∃ c', handleConflictingHeaders c trace b idx now = (c', some .attack) ∧
      (∃ ev, (sup.id, ev) ∈ c'.evidence ∧ ev.conflicting = pb.hash) ∧
      (∀ k2 ptrace wb, examine c.cfg now wtrace pb k1 c.primary = (k2, some (ptrace, wb)) →
        ptrace ≠ [] → ∃ ev, (c.primary.id, ev) ∈ c'.evidence ∧ ev.conflicting = wb.hash) :=
  handle_attack hw hex hne hpne

/-- **evidence_fields.** What `newLightClientAttackEvidence` puts into the evidence is what a full
node re-derives from its own chain (`evidence.VerifyLightClientAttack`, `ValidateABCI`, block time):
for a lunatic attack height, time and total voting power of the COMMON block; for equivocation and
amnesia (conflicting header with the trusted header's validator / next-validator / consensus / app /
results hashes) those of the TRUSTED block at the attack height. -/
theorem evidence_fields (conflicted trusted common : LightBlock) :
    (conflictingHeaderIsInvalid trusted.hdr conflicted.hdr = true →
      (mkEvidence conflicted trusted common).commonHeight = common.height ∧
      (mkEvidence conflicted trusted common).totalPower = common.vals.totalPower ∧
      (mkEvidence conflicted trusted common).timestamp = common.time) ∧
    (conflictingHeaderIsInvalid trusted.hdr conflicted.hdr = false →
      (mkEvidence conflicted trusted common).commonHeight = trusted.height ∧
      (mkEvidence conflicted trusted common).totalPower = trusted.vals.totalPower ∧
      (mkEvidence conflicted trusted common).timestamp = trusted.time) := by
  constructor <;> intro h <;> simp [mkEvidence, h]

/-- **conflict_reported** (detector level). When the next reply to arrive is a conflicting header and
the handler reports an error for it, the cross-check stops with that error: no later reply —
matching or not — can turn it into a confirmation. -/
theorem conflict_halts_detector {c : Client} {trace : List LightBlock} {h : LightBlock} {now : Int}
    {i : Nat} {rest : List Nat} {w : Prov} {k : Calls} {b : LightBlock} {idx : Nat} {c2 : Client}
    {e : Err} {m : Bool} {rm : List Nat}
    (hw : c.witnesses[i]? = some w)
    (hc : compareNewHeaderWithWitness c.calls h w i = (k, .conflict b idx))
    (hh : handleConflictingHeaders { c with calls := k } trace b idx now = (c2, some e)) :
    detectLoop trace h now (i :: rest) c m rm = (c2, .error e) := by
  simp only [detectLoop, hw, hc, hh]

/-- **conflict_reported_any_order** (detector level, every arrival order, every position). Let
witness `i` be one whose reply — whenever its turn comes, i.e. in every client state with the same
configuration and the same providers in the same roles — is a conflicting header that
`handleConflictingHeaders` answers with the attack error (it backs its header along the trace). If `i`
occurs anywhere in the arrival order chosen by the scheduler, `detectDivergence` returns
`ErrLightClientAttack` — whatever the other witnesses reply before it (matching, erroring, silent,
lying, other conflicts: no earlier reply can pre-empt or mask it; an earlier conflict can only
produce the same error earlier). The evidence log has grown by an entry addressed to a current
witness followed by at most one entry addressed to the primary (the primary's entry exists exactly
when the primary backs its own header along the witness trace, see `conflict_reported`). No arrival
order loses the report in the model; what the model does not contain is cancellation of the caller's
context (the code returns the context error first). `hnp` excludes the code's index-out-of-range
corner (an empty examined trace needs two different headers with one hash). -/
theorem conflict_reported_any_order {c : Client} {trace : List LightBlock} {h : LightBlock} {now : Int}
    {i : Nat} {w : Prov}
    (hlen : 2 ≤ trace.length) (hlast : trace.getLast? = some h)
    (hw : c.witnesses[i]? = some w) (hi : i ∈ c.sched c.witnesses)
    (hconf : ∀ c1, Sim c c1 →
      ∃ b idx, (compareNewHeaderWithWitness c1.calls h w i).2 = .conflict b idx ∧
        (handleConflictingHeaders { c1 with calls := (compareNewHeaderWithWitness c1.calls h w i).1 }
          trace b idx now).2 = some .attack)
    (hnp : ∀ c1, Sim c c1 → ∀ b idx, (handleConflictingHeaders c1 trace b idx now).2 ≠ some .panic) :
    ∃ c', detectDivergence c trace now = (c', .error .attack) ∧
      ∃ sup ev1 rest, sup ∈ c.witnesses ∧ c'.evidence = c.evidence ++ (sup.id, ev1) :: rest ∧
        (rest = [] ∨ ∃ ev2, rest = [(c.primary.id, ev2)]) := by
  unfold detectDivergence
  rw [if_neg (by omega)]
  simp only [hlast]
  have hne : c.witnesses.isEmpty = false := by
    cases hc : c.witnesses with
    | nil => rw [hc] at hw; simp at hw
    | cons x r => rfl
  simp only [hne]
  exact detectLoop_conflict_any_order trace h now c i w hw hconf hnp _ c false [] ⟨rfl, rfl, rfl⟩ hi

/-- a witness that answers the target height with a block of another hash is reported as
conflicting (never as matching) -/
theorem different_header_is_conflict {k : Calls} {h : LightBlock} {w : Prov} {idx : Nat} {lb : LightBlock}
    (hs : w.script (k w.id) h.height = .ok lb) (hne : lb.hash ≠ h.hash) :
    (compareNewHeaderWithWitness k h w idx).2 = .conflict lb idx := by
  unfold compareNewHeaderWithWitness
  simp only [ask, hs, hashCompare]
  rw [if_pos (fun e => hne e.symm)]

/-! ## non-vacuity: a concrete chain, an honest and a lying provider -/
namespace Ex

def V : ValSet := { vals := [(0, 1), (1, 1), (2, 1)], hash := 1 }
def hdr (h t : Int) (app hash last : Nat) : Header := {
  chain := 0, height := h, time := t, valsHash := 1, nextValsHash := 1
  lastBlockHash := last, appHash := app, consHash := 0, resHash := 0, basicOK := true, hash := hash }
/-- signature tokens: 1 = valid for the slot's validator over this commit, anything else invalid -/
def sigOK : SigOK := fun _ _ s => s == 1
def bid (hash : Nat) : CommitVerify.BlockID :=
  { hash := List.replicate 32 (UInt8.ofNat hash), total := 1, psHash := List.replicate 32 1 }
/-- a commit in which exactly the validators `signers` (ids 0..2, in set order) signed for the block -/
def mkCommit (h : Int) (hash : Nat) (signers : List Nat) : CommitVerify.Commit Nat :=
  { height := h, round := 0, blockID := bid hash,
    sigs := [0, 1, 2].map fun id =>
      if signers.contains id then { flag := 2, addr := [UInt8.ofNat id], ts := 7, sig := 1 }
      else { flag := 1, addr := [], ts := 0, sig := 0 } }
def blk (h t : Int) (app hash last : Nat) (signers : List Nat) : LightBlock :=
  { hdr := hdr h t app hash last, commitOK := true, commit := mkCommit h hash signers, vals := V }
def b1 := blk 1 10 0 1 0 [0, 1, 2]
def b2 := blk 2 20 0 2 1 [0, 1, 2]
def b3 := blk 3 30 0 3 2 [0, 1, 2]
def b4 := blk 4 40 0 4 3 [0, 1]        -- signed by 2/3 only: not enough
def f3 := blk 3 30 1 5 2 [0, 1, 2]     -- equivocation at height 3
def table (l : List LightBlock) : Nat → Int → Resp := fun _ h =>
  match l.find? (fun b => b.height == (if h = 0 then 3 else h)) with
  | some b => .ok b
  | none => .err .notFound
def honest (id : Nat) : Prov := { id := id, chain := 0, script := table [b1, b2, b3] }
def liar (id : Nat) : Prov := { id := id, chain := 0, script := table [b1, b2, f3] }
def silent (id : Nat) : Prov := { id := id, chain := 0, script := fun _ _ => .err .noResponse }
def cfg : Config := {
  chain := 0, period := 1000, sequential := false, level := ⟨1, 3⟩, drift := 1
  pruning := 0, fuel := 30, sigOK := sigOK }
def fifo : List Prov → List Nat := fun ws => List.range ws.length

instance : Inhabited Client := ⟨{
  cfg := cfg, primary := default, witnesses := [], calls := (fun _ => 0)
  store := default, latest := none, evidence := [], sched := fifo }⟩

def start (primary : Prov) (ws : List Prov) : Client :=
  match newClient cfg primary ws fifo 1000 1 1 with
  | .ok c => c
  | .error _ => default

def errOf {α : Type} : Except Err α → Option Err
  | .error e => some e
  | .ok _ => none

end Ex

open Ex



/-- the provider contract of `stored_valsets_committed` is satisfiable -/
example : ProvOK (honest 1) := by
  intro n ht lb h
  simp only [honest, table] at h
  split at h
  · rename_i b hb
    injection h with h
    subst h
    have := List.mem_of_find?_eq_some hb
    simp at this
    rcases this with rfl | rfl | rfl <;> rfl
  · cases h

/-- `ValidStep` is satisfiable: an adjacent and a skipping step (both accepted by `verify`) -/
example : ValidStep cfg 25 b1 b2 ∧ ValidStep cfg 35 b1 b3 :=
  ⟨verify_sound (by rfl), verify_sound (by rfl)⟩

/-- and not trivially true: b4 is signed by exactly two thirds of its set -/
example : errOf (verify cfg b3 b4 45) = some .invalidHeader := by decide

/-- the hypothesis of `stored_reachable` holds for a concrete client … -/
example : (newClient cfg (honest 1) [honest 2] fifo 1000 1 1).toOption.isSome = true := by decide
/-- … and a later call stores another block (so the theorem speaks about non-trivial stores) -/
example : ((runOps (start (honest 1) [honest 2]) [.verify 3 35 fifo]).store.blocks.map (·.hash)) = [1, 3] := by
  decide

/-- the detector confirms with an honest witness (hypothesis of `detector_confirms_only_identical`) -/
example : ((verifyLightBlockAtHeight (start (honest 1) [honest 2]) 3 35).2.toOption.map (·.hash)) = some 3 := by
  decide
/-- refuses with a silent one (`unresponsive_never_confirms`) -/
example : errOf (verifyLightBlockAtHeight (start (honest 1) [silent 2]) 3 35).2 = some .crossRef := by decide
/-- and reports the attack, with evidence to the witness (2) and to the primary (1), when a lying
witness backs its header (`conflict_reported`); nothing new is stored even if an honest witness would
have confirmed afterwards -/
example : errOf (verifyLightBlockAtHeight (start (honest 1) [liar 2]) 3 35).2 = some .attack := by decide
example : ((verifyLightBlockAtHeight (start (honest 1) [liar 2]) 3 35).1.evidence.map
    fun e => (e.1, e.2.conflicting)) = [(2, 3), (1, 5)] := by decide
example : ((verifyLightBlockAtHeight (start (honest 1) [liar 2, honest 3]) 3 35).1.store.blocks.map (·.hash)) = [1] := by
  decide
theorem exA (k : Calls) : (examine cfg 35 [b1, b3] f3 k (liar 2)).2 = some ([b1, f3], b3) := by with_unfolding_all rfl
theorem exB (k : Calls) : (examine cfg 35 [b1, f3] b3 k (honest 1)).2 = some ([b1, b3], f3) := by with_unfolding_all rfl
theorem exC (k : Calls) : (compareNewHeaderWithWitness k b3 (liar 2) 1).2 = .conflict f3 1 := by with_unfolding_all rfl
theorem exW : (start (honest 1) [silent 3, liar 2]).witnesses = [silent 3, liar 2] := by with_unfolding_all rfl
theorem exP : (start (honest 1) [silent 3, liar 2]).primary = honest 1 := by with_unfolding_all rfl
theorem exCfg : (start (honest 1) [silent 3, liar 2]).cfg = cfg := by with_unfolding_all rfl

/-- the hypotheses of `conflict_reported_any_order` are satisfiable: the lying witness backs its header
in every state with these providers (its script does not depend on the call history) -/
example : ∀ c1, Sim (start (honest 1) [silent 3, liar 2]) c1 →
    ∃ b idx, (compareNewHeaderWithWitness c1.calls b3 (liar 2) 1).2 = .conflict b idx ∧
      (handleConflictingHeaders { c1 with calls := (compareNewHeaderWithWitness c1.calls b3 (liar 2) 1).1 }
        [b1, b3] b idx 35).2 = some .attack := by
  intro c1 hs
  obtain ⟨cfg1, p1, ws1, k1, st1, l1, ev1, sc1⟩ := c1
  obtain ⟨h1, h2, h3⟩ := hs
  simp only [exW, exP, exCfg] at h1 h2 h3
  subst h1 h2 h3
  refine ⟨f3, 1, exC _, ?_⟩
  unfold handleConflictingHeaders
  simp only [List.getElem?_cons_succ, List.getElem?_cons_zero]
  generalize (compareNewHeaderWithWitness k1 b3 (liar 2) 1).1 = k2
  generalize hq : examine cfg 35 [b1, b3] f3 k2 (liar 2) = q
  obtain ⟨k3, r⟩ := q
  have hr : r = some ([b1, f3], b3) := by have := exA k2; rw [hq] at this; exact this
  subst hr
  simp only [List.head?_cons, List.getLast?_cons_cons, List.getLast?_singleton]
  generalize hq2 : examine cfg 35 [b1, f3] b3 k3 (honest 1) = q2
  obtain ⟨k4, r2⟩ := q2
  have hr2 : r2 = some ([b1, b3], f3) := by have := exB k3; rw [hq2] at this; exact this
  subst hr2
  simp only [List.head?_cons, List.getLast?_cons_cons, List.getLast?_singleton]

/-- expiry corner: with period 1000 the block of time 10 is usable at now = 1009 and expired at 1010 -/
example : headerExpired b1 1000 1009 = false ∧ headerExpired b1 1000 1010 = true := by decide
example : errOf (verifyLightBlockAtHeight (start (honest 1) [honest 2]) 3 1010).2 =
    some (.vfail 1 3 .expired) := by decide
/-- backwards verification is the model's (and the code's) extension of the statement and does NOT
look at the trusting period: hash links from a stored header are followed even when it is expired -/
example : ((verifyLightBlockAtHeight
      (match newClient cfg (honest 1) [honest 2] fifo 1000 3 3 with | .ok c => c | .error _ => default)
      1 5000).2.toOption.map (·.hash)) = some 1 := by decide

/-- a skipping trace (hypothesis of `skipping_trace_valid`) -/
example : ((verifySkipping cfg (fun _ => 0) (honest 1) b1 b3 35).2.toOption.map fun tr => tr.map (·.hash)) =
    some [1, 3] := by decide

end Tmv.Props.C09
