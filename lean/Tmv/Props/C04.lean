import Tmv.Lemmas.Sign
import Tmv.Lemmas.SignNode
import Tmv.Lemmas.SignCons
import Tmv.Lemmas.SignWal
import Tmv.Lemmas.ConsReplay
/-! # C04 — no crash or restart can make a validator sign conflicting messages

Model: `Tmv.Sign` (`privval/file.go` FilePV + `libs/tempfile.WriteFileAtomic` as a micro-step
machine). An event list `es : List Ev` is an arbitrary interleaving of signing requests
(`Ev.req`, any content), micro-steps of the call in progress (`Ev.tick`) and crashes (`Ev.crash`,
at any micro-step, any number of them). `(run sigOf (init l) es).rel` is the journal of everything
the signer *returned* in any incarnation. All theorems hold for every signature function `sigOf`,
every well-formed initial state file `l` and every event list. -/
namespace Tmv.Props.C04
open Tmv Tmv.Sign

variable {Sig : Type}

/-- **Main clause.** Across any sequence of requests, micro-steps and crashes, two released answers
for the same height/round/step are the *same message with the same signature* (so the same block
id and the same timestamp: the earlier signature is reused), and the two requests that obtained
them differ at most in their timestamps (same block id asked for). -/
theorem released_consistent (sigOf : SB → Sig) (l : LSS Sig) (hl : WF l) (es : List Ev)
    (e1 e2 : Rel Sig) (h1 : e1 ∈ (run sigOf (init l) es).rel) (h2 : e2 ∈ (run sigOf (init l) es).rel)
    (hh : hrsOf e1.sb = hrsOf e2.sb) :
    e1.sb = e2.sb ∧ e1.sig = e2.sig ∧ e1.sb.bid = e2.sb.bid ∧ e1.req.bid = e2.req.bid ∧
      eqModTs e1.req e2.req = true := by
  have inv := inv_run sigOf (inv_init hl) es
  obtain ⟨hsb, hsig⟩ := inv.cons e1 h1 e2 h2 hh
  have q1 := (inv.rel e1 h1).2.2
  have q2 := (inv.rel e2 h2).2.2
  have q12 : eqModTs e1.req e2.req = true := by
    rw [hsb] at q1
    exact eqModTs_trans (eqModTs_symm q1) q2
  exact ⟨hsb, hsig, by rw [hsb], (eqModTs_fields q12).2.2.2.2.1, q12⟩

/-- the same, keyed on the height/round/step of the *requests* -/
theorem released_consistent_by_request (sigOf : SB → Sig) (l : LSS Sig) (hl : WF l) (es : List Ev)
    (e1 e2 : Rel Sig) (h1 : e1 ∈ (run sigOf (init l) es).rel) (h2 : e2 ∈ (run sigOf (init l) es).rel)
    (hh : hrsOf e1.req = hrsOf e2.req) :
    e1.sb = e2.sb ∧ e1.sig = e2.sig ∧ e1.req.bid = e2.req.bid := by
  have inv := inv_run sigOf (inv_init hl) es
  have q1 := eqModTs_hrs (inv.rel e1 h1).2.2
  have q2 := eqModTs_hrs (inv.rel e2 h2).2.2
  obtain ⟨a, b, _, d, _⟩ := released_consistent sigOf l hl es e1 e2 h1 h2 (by rw [q1, q2, hh])
  exact ⟨a, b, d⟩

/-- **Earlier signature reused.** In journal order (newest first): a later answer for a
height/round/step already answered carries the earlier message, timestamp and signature. -/
theorem earlier_signature_reused (sigOf : SB → Sig) (l : LSS Sig) (hl : WF l) (es : List Ev)
    (newer older : List (Rel Sig)) (e1 e2 : Rel Sig)
    (hj : (run sigOf (init l) es).rel = newer ++ e2 :: older) (h1 : e1 ∈ older)
    (hh : hrsOf e2.req = hrsOf e1.req) :
    e2.sb = e1.sb ∧ e2.sig = e1.sig ∧ e2.sb.ts = e1.sb.ts := by
  have m1 : e1 ∈ (run sigOf (init l) es).rel := by
    rw [hj]; exact List.mem_append_right _ (List.mem_cons_of_mem _ h1)
  have m2 : e2 ∈ (run sigOf (init l) es).rel := by
    rw [hj]; exact List.mem_append_right _ (List.mem_cons_self ..)
  obtain ⟨a, b, _⟩ := released_consistent_by_request sigOf l hl es e2 e1 m2 m1 hh
  exact ⟨a, b, by rw [a]⟩

/-- **Invariant.** The state file dominates everything ever released: its height/round/step is at
least that of every released answer, and where equal it holds exactly that message and signature
(this is what "persist before returning the signature" buys). -/
theorem disk_dominates_released (sigOf : SB → Sig) (l : LSS Sig) (hl : WF l) (es : List Ev)
    (e : Rel Sig) (he : e ∈ (run sigOf (init l) es).rel) :
    hrsLe (hrsOf e.sb) (lssHRS (run sigOf (init l) es).disk) ∧
      (hrsOf e.sb = lssHRS (run sigOf (init l) es).disk →
        (run sigOf (init l) es).disk.sb = some e.sb ∧ (run sigOf (init l) es).disk.sig = some e.sig) := by
  have h := (inv_run sigOf (inv_init hl) es).rel e he
  exact ⟨h.1, h.2.1⟩

/-- the state file's height/round/step never decreases, whatever happens -/
theorem disk_monotone (sigOf : SB → Sig) (l : LSS Sig) (hl : WF l) (es es' : List Ev) :
    hrsLe (lssHRS (run sigOf (init l) es).disk) (lssHRS (run sigOf (init l) (es ++ es')).disk) := by
  rw [run_append]
  have inv := inv_run sigOf (inv_init hl) es
  generalize run sigOf (init l) es = c at inv
  induction es' generalizing c with
  | nil => exact hrsLe_refl _
  | cons e es' ih =>
    exact hrsLe_trans (disk_step_le sigOf inv e) (ih _ (inv_step sigOf inv e))

/-- the journal never goes back in height/round/step (newest first) -/
theorem released_never_goes_back (sigOf : SB → Sig) (l : LSS Sig) (hl : WF l) (es : List Ev) :
    (run sigOf (init l) es).rel.Pairwise (fun newer older => hrsLe (hrsOf older.sb) (hrsOf newer.sb)) :=
  (inv_run sigOf (inv_init hl) es).mono

/-- **Regression refused.** In any reachable state with no call in progress, a request strictly
below the persisted height/round/step is answered with an error; nothing changes, nothing is
released. -/
theorem regression_refused (sigOf : SB → Sig) (l : LSS Sig) (hl : WF l) (es : List Ev)
    (hidle : (run sigOf (init l) es).pc = .idle) (q : Req) (st : Int) (hst : reqStep q = some st)
    (hlt : hrsLt (q.h, q.r, st) (lssHRS (run sigOf (init l) es).disk)) :
    ∃ e, step sigOf (run sigOf (init l) es) (.req q) = (run sigOf (init l) es, .err e) := by
  have inv := inv_run sigOf (inv_init hl) es
  generalize run sigOf (init l) es = c at *
  obtain ⟨disk, mem, pc, rel⟩ := c
  simp only at hidle hlt
  subst hidle
  have hm : mem = disk := inv.pc
  subst hm
  obtain ⟨e, he⟩ := checkHRS_regression (l := mem) hlt
  exact ⟨e, by simp [step, begin, hst, he]⟩

/-- every released signature is the key's signature of the released message, provided the initial
state file is honest (`SigOK`) -/
theorem released_signature_valid (sigOf : SB → Sig) (l : LSS Sig) (hs : SigOK sigOf l) (es : List Ev)
    (e : Rel Sig) (he : e ∈ (run sigOf (init l) es).rel) : e.sig = sigOf e.sb :=
  (sinv_run sigOf (sinv_init sigOf hs) es).rel e he

/-- **Replay clause (signer side).** After any history (crash anywhere: before or after the rename,
between signing and the WAL write, during replay …) a request *at or below* the persisted
height/round/step — which is what WAL replay re-issues — is either refused (error/panic, nothing
changes) or answered with exactly the persisted message and signature, which equals the request
up to its timestamp (same block). It is never freshly signed. -/
theorem replay_requests_match (sigOf : SB → Sig) (l : LSS Sig) (hl : WF l) (es : List Ev)
    (hidle : (run sigOf (init l) es).pc = .idle) (q : Req) (st : Int) (hst : reqStep q = some st)
    (hle : hrsLe (q.h, q.r, st) (lssHRS (run sigOf (init l) es).disk)) :
    (∃ e, call sigOf (run sigOf (init l) es) q none = (run sigOf (init l) es, .err e)) ∨
    call sigOf (run sigOf (init l) es) q none = (run sigOf (init l) es, .panic) ∨
    (∃ sb lsb lsig, signBytes q = some sb ∧ (run sigOf (init l) es).disk.sb = some lsb ∧
      (run sigOf (init l) es).disk.sig = some lsig ∧ eqModTs lsb sb = true ∧
      call sigOf (run sigOf (init l) es) q none =
        ({ run sigOf (init l) es with rel := ⟨sb, lsb, lsig⟩ :: (run sigOf (init l) es).rel }, .ok lsb lsig)) := by
  have inv := inv_run sigOf (inv_init hl) es
  generalize run sigOf (init l) es = c at *
  obtain ⟨disk, mem, pc, rel⟩ := c
  simp only at hidle hle
  subst hidle
  have hm : mem = disk := inv.pc
  subst hm
  rcases begin_spec (Sig := Sig) ⟨mem, mem, .idle, rel⟩ q with ⟨h1, ⟨e, h2⟩ | h2⟩ |
      ⟨st', sb, hst', _, hchk, _⟩ | ⟨st', sb, lsb, lsig, _, hsb, _, hlsb, hlsig, hts, h⟩
  · refine Or.inl ⟨e, ?_⟩
    have : begin ⟨mem, mem, .idle, rel⟩ q = (⟨mem, mem, .idle, rel⟩, .err e) := Prod.ext h1 h2
    simp only [call, step, this, ticks_idle]
  · refine Or.inr (Or.inl ?_)
    have : begin ⟨mem, mem, .idle, rel⟩ q = (⟨mem, mem, .idle, rel⟩, .panic) := Prod.ext h1 h2
    simp only [call, step, this, ticks_idle]
  · -- a fresh signature needs a request strictly above the state file
    rw [hst] at hst'; injection hst' with hst'; subst hst'
    have hlt := checkHRS_fresh hchk
    exact absurd (hrsLe_lt_trans hle hlt) (hrsLt_irrefl _)
  · refine Or.inr (Or.inr ⟨sb, lsb, lsig, hsb, hlsb, hlsig, hts, ?_⟩)
    simp only [call, step, h, ticks]

/-- **Replay makes progress (signer side).** A request that repeats the persisted message up to
its timestamp is answered with the persisted message and signature (not refused). -/
theorem repeat_reuses (sigOf : SB → Sig) (l : LSS Sig) (hl : WF l) (es : List Ev)
    (hidle : (run sigOf (init l) es).pc = .idle) (q : Req) (st : Int) (sb lsb : SB) (lsig : Sig)
    (hst : reqStep q = some st) (hsb : signBytes q = some sb)
    (hlsb : (run sigOf (init l) es).disk.sb = some lsb) (hlsig : (run sigOf (init l) es).disk.sig = some lsig)
    (hts : eqModTs lsb sb = true) :
    call sigOf (run sigOf (init l) es) q none =
      ({ run sigOf (init l) es with rel := ⟨sb, lsb, lsig⟩ :: (run sigOf (init l) es).rel }, .ok lsb lsig) := by
  have inv := inv_run sigOf (inv_init hl) es
  generalize run sigOf (init l) es = c at *
  obtain ⟨disk, mem, pc, rel⟩ := c
  simp only at hidle hlsb hlsig
  subst hidle
  have hm : mem = disk := inv.pc
  subst hm
  have hh : lssHRS mem = (q.h, q.r, st) := by
    rw [← inv.wf lsb hlsb, eqModTs_hrs hts, hrsOf_signBytes hst hsb]
  have hchk := checkHRS_eq_same hh hlsb hlsig
  have hb : begin ⟨mem, mem, .idle, rel⟩ q = (⟨mem, mem, .reusing sb lsb lsig, rel⟩, .none) := by
    simp only [begin, hst, hchk, hsb, hlsb, hlsig, hts]
    split <;> rfl
  simp only [call, step, hb, ticks]

/-- **Flush before sign (consensus side, any deterministic core).** For every consensus core that is
a function of its logged inputs (`SignNode.Core`; the timestamp of a request is the wall clock),
every input sequence and every WAL that can survive a crash (a prefix of the written records
containing the synced ones — any length of the unsynced tail): each signing request issued before
the crash is re-issued by replay, while handling the same record, identical up to its timestamp.
(Because records are written before they are handled and the WAL is flushed+fsynced before a
signing request is issued — anchored by `Expect.C04.flush_before_sign`.) -/
theorem replay_reissues_requests {S I : Type} (k : SignNode.Core S I) (ins : List (I × Int)) (w : List I)
    (hw : SignNode.Survives (SignNode.runNode k (SignNode.start k) ins) w)
    (j : Nat) (q : Req) (hq : (j, q) ∈ (SignNode.runNode k (SignNode.start k) ins).log) :
    j < w.length ∧ ∃ q0 ∈ SignNode.reqsAt k w j, q = SignNode.stamp q.ts q0 := by
  have inv := SignNode.ninv_run k (SignNode.ninv_start k) ins
  obtain ⟨h1, q0, hq0, h2⟩ := inv.log (j, q) hq
  obtain ⟨⟨r, hr⟩, hlen⟩ := hw
  have hj : j < w.length := Nat.lt_of_lt_of_le h1 hlen
  refine ⟨hj, q0, ?_, h2⟩
  rw [← hr, SignNode.reqsAt_append k w r j hj] at hq0
  exact hq0

/-- **Replay is answered, not refused — partial.** Composition of the two sides: if a request issued
before the crash got as far as the rename (the state file holds its message) then, after any
further signer history `es` that leaves it there, the request re-issued by WAL replay (new
timestamp `t'`) is answered with the very same message and signature.

Partial because the consensus side is the hypothesis built into `SignNode.Core`: the requests are a
function of the logged inputs. `consensus/state.go` is not modelled here (C02 models one height
of it as such a function), and the real code does not have the property for proposals:
`createProposalBlock` reads the mempool, which is not in the WAL, so a replayed proposal can be for
another block — the signer then refuses it (`replay_requests_match`), which costs the round, never
safety. `released_consistent` and `replay_requests_match` do not depend on this hypothesis. -/
theorem replay_not_refused_partial {S I : Type} (k : SignNode.Core S I) (ins : List (I × Int)) (w : List I)
    (hw : SignNode.Survives (SignNode.runNode k (SignNode.start k) ins) w)
    (j : Nat) (q : Req) (hq : (j, q) ∈ (SignNode.runNode k (SignNode.start k) ins).log)
    (sigOf : SB → Sig) (l : LSS Sig) (hl : WF l) (es : List Ev)
    (hidle : (run sigOf (init l) es).pc = .idle)
    (st : Int) (lsb : SB) (lsig : Sig) (hst : reqStep q = some st) (hpre : signBytes q = some lsb)
    (hdisk : (run sigOf (init l) es).disk.sb = some lsb)
    (hdsig : (run sigOf (init l) es).disk.sig = some lsig) (t' : Int) :
    ∃ q0 ∈ SignNode.reqsAt k w j, ∃ sb, signBytes (SignNode.stamp t' q0) = some sb ∧
      call sigOf (run sigOf (init l) es) (SignNode.stamp t' q0) none =
        ({ run sigOf (init l) es with rel := ⟨sb, lsb, lsig⟩ :: (run sigOf (init l) es).rel }, .ok lsb lsig) := by
  obtain ⟨_, q0, hq0, h2⟩ := replay_reissues_requests k ins w hw j q hq
  have hst' : SignNode.stamp t' q0 = SignNode.stamp t' q := by rw [h2]; rfl
  obtain ⟨sb, hsb, hts⟩ := SignNode.signBytes_stamp_eqModTs (t := t') hpre
  refine ⟨q0, hq0, sb, by rw [hst']; exact hsb, ?_⟩
  rw [hst']
  exact repeat_reuses sigOf l hl es hidle (SignNode.stamp t' q) st sb lsb lsig
    (by rw [SignNode.reqStep_stamp]; exact hst) hsb hdisk hdsig hts

/-! ### restarts go through a loader -/

/-- **A restart with an existing state file resumes from it.** For the loader every node start uses
(`LoadOrGenFilePV`, `node/node.go DefaultNewNode`) and for `LoadFilePV`: when key file and state
file exist, the restart is exactly `Ev.crash` — memory := state file — so every theorem above about
event lists covers it. -/
theorem restart_with_state_file_resumes (sigOf : SB → Sig) (c : Cfg Sig) :
    restartWith sigOf nodeLoader true true c = some (step sigOf c .crash).1 ∧
    restartWith sigOf .loadOrGen true true c = some (step sigOf c .crash).1 ∧
    restartWith sigOf .load true true c = some (step sigOf c .crash).1 :=
  ⟨rfl, rfl, rfl⟩

/-- the whole decision table: a loader that comes up with an existing state file WITHOUT resuming
from it is `LoadFilePVEmptyState` (or a freshly generated key) and nothing else; a missing state
file with an existing key never yields an empty sign state silently — the process exits -/
theorem loader_table :
    (∀ ld st, loaderDecision ld true st = .empty ↔ ld = .emptyState) ∧
    (∀ ld, loaderDecision ld true true = .resume ↔ (ld = .loadOrGen ∨ ld = .load)) ∧
    loaderDecision .loadOrGen true false = .exit ∧ loaderDecision .load true false = .exit ∧
    (∀ st, loaderDecision .loadOrGen false st = .generate) := by
  refine ⟨?_, ?_, rfl, rfl, fun st => rfl⟩
  · intro ld st; cases ld <;> cases st <;> decide
  · intro ld; cases ld <;> decide

/-- a history whose restarts all go through the node's loader with both files present is an event
list of the signer machine: `released_consistent` applies to it -/
theorem node_restarts_are_crash_events (sigOf : SB → Sig) (c c' : Cfg Sig)
    (h : restartWith sigOf nodeLoader true true c = some c') : c' = run sigOf c [.crash] := by
  cases h; rfl

/-! ### composition with the consensus model (C02's `Tmv.Cons`) and the WAL (C15) -/

/-- **The property, composed.** `Node04` = the consensus state machine of one height (`Cons.step`,
any configuration: validators, powers, proposer schedule, block validity, what
`createProposalBlock` yields), the real signer machine and the WAL at record level. For EVERY
event list — inputs of any kind, and crashes
* between two inputs (`crash`),
* while an input is handled: after `j` complete signer calls and `k` micro-steps into the next
  (`crashInInput`; k = 1..4 before the sign-state rename, 5 after it and before the signature is
  returned = before the own message reaches the WAL),
* while a surviving record is replayed (`crashInReplay`), any number of crashes in a row,
each followed by a restart over ANY list `w` of surviving WAL records — no assumption about the log
at all, so in particular for what the real WAL returns after recovery (C15
`durable_returned_history`: every fsynced record, a sublist of what was written, in order; see
`replay_reissues_requests_real_wal` for the clause that does need it) —
two signatures the key released for one height/round/step are over the same message: same block, and
the later one is the earlier one reused (same timestamp and signature). Nothing is assumed about
the consensus model, the WAL or the replay: the signer alone enforces it. -/
theorem no_conflicting_signatures_across_crashes (e : Node04.Env) (c : Cons.Cfg) (sigOf : SB → Sig)
    (l : LSS Sig) (hl : WF l) (evs : List Node04.Ev)
    (e1 e2 : Rel Sig) (h1 : e1 ∈ (Node04.run e c sigOf (Node04.start l) evs).sg.rel)
    (h2 : e2 ∈ (Node04.run e c sigOf (Node04.start l) evs).sg.rel) (hh : hrsOf e1.sb = hrsOf e2.sb) :
    e1.sb = e2.sb ∧ e1.sig = e2.sig ∧ e1.sb.bid = e2.sb.bid ∧ e1.req.bid = e2.req.bid ∧
      eqModTs e1.req e2.req = true := by
  obtain ⟨es, hes⟩ := Node04.run_sg_run e c sigOf (Node04.start l) evs
  rw [hes] at h1 h2
  exact released_consistent sigOf l hl es e1 e2 h1 h2 hh

/-- the state file dominates everything released, in the composed system too (so what replay asks
again at or below it is refused or answered from the file: `replay_requests_match`) -/
theorem composed_disk_dominates (e : Node04.Env) (c : Cons.Cfg) (sigOf : SB → Sig)
    (l : LSS Sig) (hl : WF l) (evs : List Node04.Ev) (r : Rel Sig)
    (hr : r ∈ (Node04.run e c sigOf (Node04.start l) evs).sg.rel) :
    hrsLe (hrsOf r.sb) (lssHRS (Node04.run e c sigOf (Node04.start l) evs).sg.disk) := by
  obtain ⟨es, hes⟩ := Node04.run_sg_run e c sigOf (Node04.start l) evs
  rw [hes] at hr ⊢
  exact (disk_dominates_released sigOf l hl es r hr).1

/-- **The signer inside the consensus model is the FilePV.** `Tmv.Cons.sign` (C02's mirror of
CheckHRS at the level (round, step, payload), on which `Props.C02.one_per_step` rests) and one
complete call of the real signer machine agree: on an idle signer whose state file is of a lower
height or holds a request of this height (`Node04.Good`) and whose abstraction is the model's
`lss`, the abstract signer releases a signature iff the real call returns one, the new states
correspond again, and an abstract refusal is an error answer that changes nothing. -/
theorem abstract_signer_is_filepv {e : Node04.Env} (he : Node04.EnvOK e) {c : Cons.Cfg}
    (hc : c.checkHRS = true) (sigOf : SB → Sig) (disk : LSS Sig) (rel : List (Rel Sig))
    (hg : Node04.Good e disk) (s : Cons.NodeState) (hs : s.lss = e.absLss disk)
    (o : Cons.Output) (round code : Nat) (p : Cons.Payload) (hk : Cons.sigKey o = some (round, code, p))
    (t : Int) (q : Req) (hq : e.reqOf t o = some q) :
    (∀ s', Cons.sign c s round code p = some s' →
      ∃ disk' rel' sb sig, call sigOf ⟨disk, disk, .idle, rel⟩ q none = (⟨disk', disk', .idle, rel'⟩, .ok sb sig) ∧
        s'.lss = e.absLss disk' ∧ Node04.Good e disk' ∧ rel'.length = rel.length + 1) ∧
    (Cons.sign c s round code p = none →
      ∃ er, call sigOf ⟨disk, disk, .idle, rel⟩ q none = (⟨disk, disk, .idle, rel⟩, .err er)) :=
  Node04.sign_refines he hc sigOf disk rel hg s hs o round code p hk t q hq

/-- **The composed system is a refinement, input by input.** The call-by-call agreement chained
through all of `Cons.step` (which may sign several times and handle the node's own messages): on
an idle `Good` real signer, after the consensus model handled ANY input with its abstract signer
set to the abstraction of the state file, every request it released is answered by the real
signer with a signature (the journal grows by exactly their number — nothing the model released is
refused, nothing else is signed), the real signer is idle and `Good` again and its abstraction is
the model's final `lss`. Hence the re-abstraction `Node04.consStep` performs before each input is
the identity, and `Props.C02.one_per_step` (about `Cons.run`'s outputs) and `released_consistent`
(about the key's journal) speak about the same signatures. Hypothesis: the node did not panic
while handling the input (a panic is the death of the process, i.e. a crash event). -/
theorem composed_step_refines {e : Node04.Env} (he : Node04.EnvOK e) {c : Cons.Cfg} (hc : c.checkHRS = true)
    (sigOf : SB → Sig) (disk : LSS Sig) (rel : List (Rel Sig)) (hg : Node04.Good e disk)
    (ns : Cons.NodeState) (i : Cons.Input) (t : Int)
    (hh : (Node04.consStep e c ns ⟨disk, disk, .idle, rel⟩ i t).1.halted = false) :
    ∃ disk' rel', Node04.signAll sigOf ⟨disk, disk, .idle, rel⟩ (Node04.consStep e c ns ⟨disk, disk, .idle, rel⟩ i t).2 =
        ⟨disk', disk', .idle, rel'⟩ ∧ Node04.Good e disk' ∧
      (Node04.consStep e c ns ⟨disk, disk, .idle, rel⟩ i t).1.lss = e.absLss disk' ∧
      rel'.length = rel.length + (Node04.consStep e c ns ⟨disk, disk, .idle, rel⟩ i t).2.length :=
  Node04.step_refines he hc sigOf disk rel hg ns i t hh

/-- **A re-proposal that differs is refused.** `createProposalBlock` reads the mempool, which is not
in the WAL, so after a crash the proposer may build another block (`c.ownBlock` differs) or see
another valid round. If the proposal of round `r` reached the state file (`hdisk`), then after any
further signer history a proposal request for the same height and round is answered with the
persisted message and signature when block and POL round are the same, and refused with
"conflicting data" otherwise — never a second signature. -/
theorem replayed_proposal_refused_or_same {e : Node04.Env} (he : Node04.EnvOK e) (sigOf : SB → Sig)
    (l : LSS Sig) (hl : WF l) (es : List Ev) (hidle : (run sigOf (init l) es).pc = .idle)
    (r b : Nat) (pol : Int) (t0 : Int) (lsb : SB) (g : Sig)
    (hlsb : e.sbOf t0 (.signProposal r b pol) = some lsb)
    (hdisk : (run sigOf (init l) es).disk.sb = some lsb) (hdsig : (run sigOf (init l) es).disk.sig = some g)
    (b' : Nat) (pol' : Int) (t : Int) (q : Req) (hq : e.reqOf t (.signProposal r b' pol') = some q) :
    (b' = b ∧ pol' = pol ∧ ∃ sb, call sigOf (run sigOf (init l) es) q none =
        ({ run sigOf (init l) es with rel := ⟨sb, lsb, g⟩ :: (run sigOf (init l) es).rel }, .ok lsb g)) ∨
    ((b' ≠ b ∨ pol' ≠ pol) ∧
      call sigOf (run sigOf (init l) es) q none = (run sigOf (init l) es, .err .conflict)) := by
  have inv := inv_run sigOf (inv_init hl) es
  generalize run sigOf (init l) es = c at *
  obtain ⟨disk, mem, pc, rel⟩ := c
  simp only at hidle hdisk hdsig
  subst hidle
  have hm : mem = disk := inv.pc
  subst hm
  have hk : Cons.sigKey (.signProposal r b pol) = some (r, 1, .prop b pol) := rfl
  have hk' : Cons.sigKey (.signProposal r b' pol') = some (r, 1, .prop b' pol') := rfl
  obtain ⟨hst, hqh, hqr⟩ := Node04.reqStep_reqOf hq hk'
  have hsbq : signBytes q = e.sbOf t (.signProposal r b' pol') := Node04.signBytes_reqOf he hq
  obtain ⟨_, hh, hr, hstp⟩ := Node04.payloadOf_sbOf he hlsb hk
  have hHRS : lssHRS mem = (q.h, q.r, ((1 : Nat) : Int)) := by
    rw [← inv.wf lsb hdisk]
    simp [hrsOf, hh, hr, hstp, hqh, hqr]
  have hchk := checkHRS_eq_same hHRS hdisk hdsig
  have hcall := Node04.call_same sigOf mem rel q _ _ lsb g hst hchk hsbq hdisk hdsig
  have hiff := Node04.sbOf_eqModTs he hlsb (rfl : e.sbOf t (.signProposal r b' pol') = some _) hk hk'
  by_cases hp : Cons.Payload.prop b pol = Cons.Payload.prop b' pol'
  · have hts := hiff.2 hp
    injection hp with h1 h2
    exact Or.inl ⟨h1.symm, h2.symm, _, by rw [hcall, if_pos hts]⟩
  · have hts : ¬ _ := fun h => hp (hiff.1 h)
    refine Or.inr ⟨?_, by rw [hcall, if_neg hts]⟩
    by_cases hb : b' = b
    · right; intro hpo; exact hp (by rw [hb, hpo])
    · exact Or.inl hb

/-- **What is asked again (determinism of the consensus model over the replayed inputs).** With the
consensus model as the core (`Node04.consCore`: round state from `NodeState.init`, abstract signer
starting at any `lss0`), every signing request the node issued before a crash is re-issued by
replaying any surviving WAL, while handling the same record, identical up to its timestamp. -/
theorem replay_reissues_cons_requests (e : Node04.Env) (c : Cons.Cfg) (lss0 : Option (Nat × Nat × Cons.Payload))
    (ins : List (Cons.Input × Int)) (w : List Cons.Input)
    (hw : SignNode.Survives (SignNode.runNode (Node04.consCore e c lss0) (SignNode.start (Node04.consCore e c lss0)) ins) w)
    (j : Nat) (q : Req)
    (hq : (j, q) ∈ (SignNode.runNode (Node04.consCore e c lss0) (SignNode.start (Node04.consCore e c lss0)) ins).log) :
    j < w.length ∧ ∃ q0 ∈ SignNode.reqsAt (Node04.consCore e c lss0) w j, q = SignNode.stamp q.ts q0 :=
  replay_reissues_requests _ ins w hw j q hq

/-- **Replay restores the round state (C15's round-state clause, model level).** For the consensus
model with a fixed signer start: replaying the records that survived a crash (any prefix of the
written inputs containing the synced ones; by `SignNode.survives_of_durable` that is what
`Props.C15.durable_returned` leaves) from the initial round state yields exactly the state — height
round, step, lock, valid block, proposal, vote sets, last sign state, everything in
`Cons.NodeState` — the node had when it had handled exactly those records, i.e.
`Cons.run c init survivors`.

What this does NOT say (and the node rig checks on the real code instead): in the real WAL the
node's own proposal/votes are records too and are replayed from the WAL while the signer, whose
file is AHEAD of the replayed prefix, refuses the older requests (`replay_requests_match`); here
own messages are re-derived inside `Cons.step` by an abstract signer that starts from the same
`lss0` as before the crash. That the round state does not depend on which of the two supplies the
own message is not proved. -/
theorem replay_restores (e : Node04.Env) (c : Cons.Cfg) (lss0 : Option (Nat × Nat × Cons.Payload))
    (ins : List (Cons.Input × Int)) (w : List Cons.Input)
    (hw : SignNode.Survives (SignNode.runNode (Node04.consCore e c lss0) (SignNode.start (Node04.consCore e c lss0)) ins) w) :
    Cons.run c { Cons.NodeState.init with lss := lss0 } w =
      (SignNode.runNode (Node04.consCore e c lss0) (SignNode.start (Node04.consCore e c lss0)) (ins.take w.length)).s := by
  have inv := SignNode.ninv_run (Node04.consCore e c lss0) (SignNode.ninv_start (Node04.consCore e c lss0)) (ins.take w.length)
  have hwal : (SignNode.runNode (Node04.consCore e c lss0) (SignNode.start (Node04.consCore e c lss0)) (ins.take w.length)).wal = w := by
    rw [SignNode.runNode_wal]
    obtain ⟨⟨rest, hr⟩, _⟩ := hw
    rw [SignNode.runNode_wal] at hr
    simp only [SignNode.start, List.nil_append] at hr ⊢
    rw [List.map_take, ← hr, List.take_left']
    rfl
  rw [inv.state, hwal]
  have key : ∀ (s0 : Cons.NodeState) (w : List Cons.Input),
      Cons.run c s0 w = SignNode.runCore (Node04.consCore e c lss0) s0 w := by
    intro s0 w
    induction w generalizing s0 with
    | nil => rfl
    | cons i w ih =>
      show Cons.run c (Cons.step c s0 i) w = _
      exact ih _
  exact key _ w

/-- **Replay with the node's own messages as WAL records.** In the real WAL the node's own proposal,
block part and votes are records (`msgInfo` with an empty peer id); `catchupReplay` feeds every
record through `handleMsg`/`handleTimeout` (`Node04.replayRecs`: own messages come from the record,
the internal queue is not touched) while the signer — already ahead of the replayed prefix —
refuses the signing attempts made on the way or reuses its stored signature, and the errors are
ignored (`replayMode`). `Node04.runLog c s is` is the record list the receive routine writes when
the node (state `s`) handles the external inputs `is`: each input followed by the own messages
`Cons.drain` takes off the queue. Then for ANY replaying state `s'` with the same round state as
`s` — any last-sign state (so: whatever the signer answers), any outputs, any queue — replaying
that record list yields exactly the round state of `Cons.run c s is`: height-local round, step,
locked round/block, valid round/block, proposal, proposal block and parts, commit round, vote sets,
proposer rotation, decision (`Cons.er` erases only `lss`, `out`, `queue`). The round state does not
depend on which of the two — the queue of the running node or the WAL record — supplies the own
message. With `replay_restores` (external inputs) this is C15's round-state clause for the real
record format. -/
theorem replay_with_own_records_equiv (c : Cons.Cfg) (s s' : Cons.NodeState) (hs : Cons.er s = Cons.er s')
    (is : List Cons.Input) :
    Cons.er (Cons.run c s is) = Cons.er (Node04.replayRecs c s' (Node04.runLog c s is)) :=
  Cons.run_replay is hs

/-- the same, field by field, for a replay that starts from the initial round state with an
arbitrary signer state `L` (the state file after the crash) -/
theorem replay_with_own_records_fields (c : Cons.Cfg) (lss0 L : Option (Nat × Nat × Cons.Payload))
    (is : List Cons.Input) :
    let orig := Cons.run c { Cons.NodeState.init with lss := lss0 } is
    let rep := Node04.replayRecs c { Cons.NodeState.init with lss := L }
      (Node04.runLog c { Cons.NodeState.init with lss := lss0 } is)
    orig.round = rep.round ∧ orig.step = rep.step ∧ orig.lockedRound = rep.lockedRound ∧
      orig.lockedBlock = rep.lockedBlock ∧ orig.validRound = rep.validRound ∧ orig.validBlock = rep.validBlock ∧
      orig.proposal = rep.proposal ∧ orig.proposalBlock = rep.proposalBlock ∧ orig.votes = rep.votes ∧
      orig.commitRound = rep.commitRound ∧ orig.decided = rep.decided := by
  intro orig rep
  have h : Cons.er orig = Cons.er rep := Cons.run_replay is rfl
  exact ⟨Cons.er_round h, Cons.er_step h, Cons.er_lockedRound h, Cons.er_lockedBlock h, Cons.er_validRound h,
    Cons.er_validBlock h, Cons.er_proposal h, Cons.er_proposalBlock h, Cons.er_votes h, Cons.er_commitRound h,
    Cons.er_decided h⟩

/-- replaying ANY surviving record list (a crash may cut the log inside a step): the round state
reached does not depend on the signer state, outputs or queue of the replaying node -/
theorem replay_signer_independent (c : Cons.Cfg) (w : List Node04.Rec) (s s' : Cons.NodeState)
    (hs : Cons.er s = Cons.er s') :
    Cons.er (Node04.replayRecs c s w) = Cons.er (Node04.replayRecs c s' w) :=
  Cons.replayRecs_cong w hs

/-- **Flush before sign, with the REAL WAL (C15's byte-level model, no list hypothesis).** The log is
`Tmv.Wal.Group` (40 KB buffered head file, `FlushAndSync`, rotation, the two decoders, crash cuts,
reopen, repair, the catch-up loop). The node's first incarnation starts on an empty log `g0`,
handles the inputs `pre` (`walOps`: each written before handled, flushed+fsynced before a signing
request), writes input `i` and — because handling `i` issues signing requests — flushes and fsyncs
(`g1 = flushAndSync gb`). Then ANYTHING C15's history theorem covers may happen (`ops2`: further
writes, rotations, any number of crashes with any cut of the unsynced tail, also inside an unfinished
fsync, reopen, repair, recovery; no pruning of these files). Whatever a reader then returns (`R`,
`Tmv.Wal.readAll`), decoded, replay over it re-issues at record `pre.length` exactly the requests
the node issued when it handled `i` before the crash — or a checksum collision is exhibited
(`Props.C15.durable_returned_history`). Hypotheses: the record encoding is decodable and within the
WAL's size limit (`ValidRec`), the writes of `walOps` succeeded (`Steps`). -/
theorem replay_reissues_requests_real_wal {S I : Type} (k : SignNode.Core S I)
    (P : Wal.Params) (G : Wal.Good P) (Sz dhl dtl kk : Nat)
    (enc : I → Bytes) (dec : Bytes → Option I) (hdec : ∀ a, dec (enc a) = some a)
    (g0 ga gb g' : Wal.Group) (hi : Wal.HInv P g0 []) (hempty : Wal.wlog P g0 = [])
    (pre : List (I × Int)) (i : I) (ops2 : List Wal.HOp)
    (st1 : Wal.Steps P Sz dhl dtl kk g0 (SignNode.walOps enc k k.init pre) ga)
    (hv : Wal.ValidRec P (enc i)) (hw : Wal.write P Sz ga (enc i) = some gb)
    (st2 : Wal.Steps P Sz dhl dtl kk (Wal.flushAndSync gb) ops2 g') (hnp : ops2.any Wal.HOp.isPrune = false) :
    (∃ R e, (Wal.readAll P g').1 = (R, e) ∧
        SignNode.reqsAt k (R.filterMap dec) pre.length =
          (k.step (SignNode.runCore k k.init (pre.map (·.1))) i).2) ∨ Wal.Collision P := by
  have stA : Wal.Steps P Sz dhl dtl kk g0 (SignNode.walOps enc k k.init pre ++ [Wal.HOp.write (enc i)]) gb :=
    Wal.Steps.append st1 (Wal.Steps.cons (Wal.Step.write hv hw) Wal.Steps.nil)
  have hws : ∀ op ∈ SignNode.walOps enc k k.init pre ++ [Wal.HOp.write (enc i)],
      (∃ d, op = .write d) ∨ op = .sync := by
    intro op h
    rcases List.mem_append.1 h with h | h
    · exact SignNode.walOps_ws enc k _ pre op h
    · simp at h; exact Or.inl ⟨_, h⟩
  obtain ⟨_, hwl⟩ := SignNode.steps_ws_wlog P G Sz dhl dtl kk _ hws g0 gb [] hi stA
  rcases SignNode.synced_log_is_prefix_of_reader P G Sz dhl dtl kk _ ops2 g0 gb g' [] hi stA st2 hnp with
    ⟨R, e, h1, _, ⟨rest, hR⟩, _⟩ | hc
  · left
    refine ⟨R, e, h1, ?_⟩
    have hlog : Wal.wlog P gb = pre.map (fun p => enc p.1) ++ [enc i] := by
      rw [hwl, hempty, List.nil_append, List.flatMap_append, SignNode.walOps_recs]
      simp [Wal.HOp.recs]
    have hfm : ∀ l : List I, (l.map enc).filterMap dec = l := by
      intro l
      induction l with
      | nil => rfl
      | cons a l ih => simp [hdec, ih]
    have hRd : R.filterMap dec = pre.map (·.1) ++ [i] ++ rest.filterMap dec := by
      rw [← hR, hlog, List.filterMap_append, List.filterMap_append]
      have : pre.map (fun p => enc p.1) = (pre.map (·.1)).map enc := by simp
      rw [this, hfm]
      simp [hdec]
    rw [hRd]
    have := SignNode.reqsAt_mid k (pre.map (·.1)) (rest.filterMap dec) i
    simpa using this
  · exact Or.inr hc

/-! ### the driver's `call` (one op line) is a run of the machine, so every op-line history the
correspondence stream exercises is covered by the theorems above -/

theorem call_is_run (sigOf : SB → Sig) (c : Cfg Sig) (q : Req) (k : Option Nat) :
    ∃ es, (call sigOf c q k).1 = run sigOf c es := by
  cases k with
  | none =>
    obtain ⟨es, h⟩ := ticks_is_run sigOf 8 (step sigOf c (.req q)).1 (step sigOf c (.req q)).2
    exact ⟨.req q :: es, h⟩
  | some k =>
    cases k with
    | zero => exact ⟨[.crash], rfl⟩
    | succ k =>
      obtain ⟨es, h⟩ := ticksHold_is_run sigOf k (step sigOf c (.req q)).1
      refine ⟨.req q :: (es ++ [.crash]), ?_⟩
      show (step sigOf (ticksHold sigOf k (step sigOf c (.req q)).1) .crash).1 =
        run sigOf (step sigOf c (.req q)).1 (es ++ [.crash])
      rw [run_append, ← h]; rfl

/-- a call during which the state file cannot be written is a run too (the panic of `Save` is a
crash at `Stage.memSet`) -/
theorem callFail_is_run (sigOf : SB → Sig) (c : Cfg Sig) (q : Req) :
    ∃ es, (callFail sigOf c q).1 = run sigOf c es := by
  unfold callFail
  simp only
  split
  · obtain ⟨es, h⟩ := ticksHold_is_run sigOf 2 (step sigOf c (.req q)).1
    refine ⟨.req q :: (es ++ [.crash]), ?_⟩
    show (step sigOf (ticksHold sigOf 2 (step sigOf c (.req q)).1) .crash).1 =
      run sigOf (step sigOf c (.req q)).1 (es ++ [.crash])
    rw [run_append, ← h]; rfl
  · obtain ⟨es, h⟩ := ticks_is_run sigOf 8 (step sigOf c (.req q)).1 (step sigOf c (.req q)).2
    exact ⟨.req q :: es, h⟩

/-! ### non-vacuity: the hypotheses are satisfiable and the journal really contains several
answers for one height/round/step in a history with crashes -/
section NonVacuity

def exBid : BlockID := { hash := List.replicate 32 0xaa, total := 1, phash := List.replicate 32 0xcc }
def exReq (ts : Int) : Req :=
  { kind := .vote, typ := 1, h := 1, r := 0, pol := 0, bid := exBid, ts := ts, chain := "c" }
def exNil (ts : Int) : Req := { exReq ts with bid := { hash := [], total := 0, phash := [] } }

/-- prevote for A released; crash; re-request at another time (reused, old timestamp); other block
(refused); precommit dies after the rename, before returning; replay re-requests it (reused) -/
def exEvents : List Ev :=
  [.req (exReq 5), .tick, .tick, .tick, .tick, .tick, .crash,
   .req (exReq 7), .tick,
   .req (exNil 7),
   .req { exReq 9 with typ := 2 }, .tick, .tick, .tick, .tick, .crash,
   .req { exReq 11 with typ := 2 }, .tick]

def exFinal : Cfg SB := run id (init genesis) exEvents

example : WF (genesis : LSS SB) := by intro s h; cases h
example : SigOK id (genesis : LSS SB) := by intro s g h; cases h
/-- three answers, two of them for (1,0,prevote): same message time 5 for requests at 5 and 7 -/
example : exFinal.rel.map (fun e => (hrsOf e.sb, e.sb.ts, e.req.ts)) =
    [((1, 0, 3), 9, 11), ((1, 0, 2), 5, 7), ((1, 0, 2), 5, 5)] := by decide
example : exFinal.pc = .idle ∧ lssHRS exFinal.disk = (1, 0, 3) := ⟨rfl, by decide⟩
/-- hypotheses of `regression_refused` / `replay_request_same_or_refused` at `exFinal` -/
example : reqStep (exReq 3) = some 2 ∧ hrsLt ((exReq 3).h, (exReq 3).r, 2) (lssHRS exFinal.disk) := by decide
/-- hypotheses of `repeat_reuses` at `exFinal` -/
example : ∃ sb lsb, reqStep { exReq 13 with typ := 2 } = some 3 ∧ signBytes { exReq 13 with typ := 2 } = some sb ∧
    exFinal.disk.sb = some lsb ∧ exFinal.disk.sig = some lsb ∧ eqModTs lsb sb = true :=
  ⟨_, _, by decide, rfl, rfl, rfl, by decide⟩
/-- a consensus core for `replay_reissues_requests` / `replay_not_refused_partial`: input `true`
makes the node prevote for `exBid` (a signing request), input `false` is a peer message without
one. Three inputs; the prevote issued while handling record 1 is logged, record 1 is synced, the
unsynced record 2 may be lost. -/
def exCore : SignNode.Core Nat Bool :=
  { init := 0, step := fun s i => (s + 1, if i then [exReq 0] else []), internal := fun _ => false }
def exNode : SignNode.Node Nat Bool :=
  SignNode.runNode exCore (SignNode.start exCore) [(false, 10), (true, 11), (false, 12)]
example : exNode.log = [(1, exReq 11)] ∧ exNode.synced = 2 ∧ exNode.wal.length = 3 := by decide
example : SignNode.Survives exNode [false, true] := ⟨⟨[false], rfl⟩, by decide⟩
example : SignNode.Survives exNode [false, true, false] := ⟨⟨[], rfl⟩, by decide⟩
example : ¬ SignNode.Survives exNode [false] := fun h => absurd h.2 (by decide)

/-- environment and configuration for the composed theorems: height 1, a single validator that
proposes block 7 -/
def exEnv : Node04.Env :=
  { H := 1, chain := "c", blk := fun b => ⟨List.replicate 32 1, (b : Int) + 1, List.replicate 32 0xcc⟩,
    unblk := fun bid => (bid.total - 1).toNat }
def exCfg : Cons.Cfg :=
  { n := 1, power := fun _ => 1, self := some 0, proposer := fun _ => 0, valid := fun _ => true, ownBlock := 7,
    waitForTxs := false, needProofBlock := false, emptyInterval := false, checkHRS := true }
example : Node04.EnvOK exEnv :=
  ⟨fun b => by simp [exEnv, bidValid, validHash, hashSize],
   fun b => by simp [exEnv, bidIsZero],
   fun b => by simp [exEnv]⟩
example : Node04.Good exEnv (genesis : LSS SB) := Or.inl (by decide)
/-- `replay_with_own_records_equiv` is not vacuous: handling the first timeout the single validator
writes the timeout and four own records (proposal, part, prevote, precommit) -/
example : (Node04.runLog exCfg .init [.timeout 0 .newHeight]).length = 5 := by decide
/-- hypothesis of `composed_step_refines`: handling the first timeout does not panic; the single
validator releases proposal, prevote and precommit while handling it -/
example : (Node04.consStep exEnv exCfg .init (init (genesis : LSS SB)) (.timeout 0 .newHeight) 10).1.halted = false ∧
    (Node04.consStep exEnv exCfg .init (init (genesis : LSS SB)) (.timeout 0 .newHeight) 10).2.length = 3 := by decide
/-- the node dies after the rename of its proposal's sign state (time 10); replay at time 20 gets
the persisted proposal signature back (message time 10) and goes on to prevote and precommit;
after another crash the replayed proposal request is below the state file and refused: the
journal does not grow -/
def exComposed : Node04.St SB :=
  Node04.run exEnv exCfg id (Node04.start genesis)
    [.crashInInput (.timeout 0 .newHeight) 10 0 5 [.timeout 0 .newHeight], .replayNext 20,
     .crash [.timeout 0 .newHeight], .replayNext 30]
example : exComposed.sg.rel.map (fun r => (hrsOf r.sb, r.sb.ts, r.req.ts)) =
    [((1, 0, 3), 20, 20), ((1, 0, 2), 20, 20), ((1, 0, 1), 10, 20)] := by decide

end NonVacuity

/-! ### the file-system hypothesis is necessary
`Ev.crash` keeps the state file as the last completed `rename` left it. `WriteFileAtomic` opens the
temp file `O_SYNC` but never fsyncs the directory, so after a *power loss* (not a process crash) the
directory entry may still point to the previous file. If a crash can undo the last rename, the
main clause is false — so "rename is durable once it returned" is a genuine hypothesis of
`released_consistent`, not a convenience. -/

/-- a crash after which the state file is `prev` again (the last rename did not survive) -/
def crashLosingRename {Sig : Type} (prev : LSS Sig) (c : Cfg Sig) : Cfg Sig :=
  { c with disk := prev, mem := prev, pc := .idle }

def exSBA : SB := { typ := 1, h := 1, r := 0, pol := 0, bid := some exBid, ts := 5, chain := "c" }
def exSBN : SB := { typ := 1, h := 1, r := 0, pol := 0, bid := none, ts := 6, chain := "c" }
/-- a prevote for block A is released; the rename is lost; a prevote for nil at the same
height/round is then freshly signed and released -/
def exLostRename : Cfg SB :=
  run id (crashLosingRename genesis
      (run id (init genesis) [.req (exReq 5), .tick, .tick, .tick, .tick, .tick]))
    [.req (exNil 6), .tick, .tick, .tick, .tick, .tick]

theorem rename_durability_needed :
    ∃ e1 ∈ exLostRename.rel, ∃ e2 ∈ exLostRename.rel,
      hrsOf e1.sb = hrsOf e2.sb ∧ e1.sb.bid ≠ e2.sb.bid := by
  have h : exLostRename.rel = [⟨exSBN, exSBN, exSBN⟩, ⟨exSBA, exSBA, exSBA⟩] := rfl
  refine ⟨⟨exSBA, exSBA, exSBA⟩, ?_, ⟨exSBN, exSBN, exSBN⟩, ?_, by decide, by decide⟩
  · rw [h]; exact List.mem_cons_of_mem _ (List.mem_cons_self ..)
  · rw [h]; exact List.mem_cons_self ..

/-- **Why only the reset commands may use `LoadFilePVEmptyState`.** A restart that comes up with an
empty sign state although the state file holds a signature lets the key sign another block for a
height/round/step it already signed: the main clause fails (witness: prevote for block A released,
restart with empty state, prevote for nil at the same height/round released). -/
theorem empty_state_restart_breaks_consistency :
    ∃ c1 c2 : Cfg SB, c1 = run id (init genesis) [.req (exReq 5), .tick, .tick, .tick, .tick, .tick] ∧
      restartWith id .emptyState true true c1 = some c2 ∧
      ∃ e1 ∈ (run id c2 [.req (exNil 6), .tick, .tick, .tick, .tick, .tick]).rel,
      ∃ e2 ∈ (run id c2 [.req (exNil 6), .tick, .tick, .tick, .tick, .tick]).rel,
        hrsOf e1.sb = hrsOf e2.sb ∧ e1.sb.bid ≠ e2.sb.bid := by
  refine ⟨_, _, rfl, rfl, ⟨exSBA, exSBA, exSBA⟩, ?_, ⟨exSBN, exSBN, exSBN⟩, ?_, by decide, by decide⟩
  · exact List.mem_cons_of_mem _ (List.mem_cons_self ..)
  · exact List.mem_cons_self ..

end Tmv.Props.C04
